From Coq Require Import ZArith List Bool Lia.
From V Require Import Bytes Writers BytesLemmas.
Import ListNotations.
Open Scope Z_scope.

(* ---------- merge ---------- *)
Lemma merge_app_l {A} (a b l : list A) x : merge a b l -> merge (a ++ [x]) b (l ++ [x]).
Proof.
  induction 1; simpl.
  - apply merge_l. constructor.
  - apply merge_l. assumption.
  - apply merge_r. assumption.
Qed.
Lemma merge_app_r {A} (a b l : list A) x : merge a b l -> merge a (b ++ [x]) (l ++ [x]).
Proof.
  induction 1; simpl.
  - apply merge_r. constructor.
  - apply merge_l. assumption.
  - apply merge_r. assumption.
Qed.

Definition tag (t : bool) (l : list msg) : list (bool * msg) := map (pair t) l.
Definition all_bytes_of (d : list (bool * msg)) : bytes := concat (map (fun e => msg_bytes (snd e)) d).

Lemma all_bytes_app d e : all_bytes_of (d ++ e) = all_bytes_of d ++ all_bytes_of e.
Proof. unfold all_bytes_of. rewrite map_app, concat_app. reflexivity. Qed.

(* ---------- invariant of the locked writer ---------- *)
Record WInv (a0 b0 : list msg) (s : wstate) : Prop := {
  wi_merge : exists a1 b1, a0 = a1 ++ t_todo (w_a s) /\ b0 = b1 ++ t_todo (w_b s) /\
                           merge (tag false a1) (tag true b1) (w_done s);
  wi_lock :
    match w_lock s with
    | None => t_cur (w_a s) = None /\ t_cur (w_b s) = None /\ w_part s = [] /\
              w_sink s = all_bytes_of (w_done s)
    | Some t =>
        exists dn m rest, w_done s = dn ++ [(t, m)] /\ t_cur (get_t s t) = Some rest /\
          t_cur (get_t s (negb t)) = None /\ msg_bytes m = w_part s ++ concat rest /\
          w_sink s = all_bytes_of dn ++ w_part s
    end
}.

Lemma winv_init a b : WInv a b (winit a b).
Proof.
  split; simpl.
  - exists [], []. repeat split; constructor.
  - repeat split; reflexivity.
Qed.

Lemma winv_step a0 b0 s t s' : WInv a0 b0 s -> wstep true s t = Some s' -> WInv a0 b0 s'.
Proof.
  intros [HM HL] H. unfold wstep in H.
  destruct (t_cur (get_t s t)) as [[|c cs]|] eqn:Ec.
  - (* unlock *)
    inversion H; subst; clear H.
    destruct (w_lock s) as [h|] eqn:El.
    + destruct HL as (dn & m & rest & Hd & Hc & Ho & Hb & Hs).
      assert (h = t) as ->.
      { destruct h, t; simpl in *; try reflexivity; congruence. }
      rewrite Ec in Hc. inversion Hc; subst rest. simpl in Hb. rewrite app_nil_r in Hb.
      split.
      * destruct HM as (a1 & b1 & Ha & Hb' & Hm). exists a1, b1.
        destruct t; simpl; auto.
      * simpl. destruct t; simpl in *; repeat split; auto;
          rewrite Hd, all_bytes_app, Hs; unfold all_bytes_of; simpl; rewrite Hb, app_nil_r; reflexivity.
    + destruct HL as (Ha & Hb & _). destruct t; simpl in Ec; congruence.
  - (* one write *)
    inversion H; subst; clear H.
    destruct (w_lock s) as [h|] eqn:El.
    + destruct HL as (dn & m & rest & Hd & Hc & Ho & Hb & Hs).
      assert (h = t) as ->.
      { destruct h, t; simpl in *; try reflexivity; congruence. }
      rewrite Ec in Hc. inversion Hc; subst rest.
      split.
      * destruct HM as (a1 & b1 & Ha & Hb' & Hm). exists a1, b1. destruct t; simpl; auto.
      * simpl. exists dn, m, cs. destruct t; simpl in *; repeat split; auto;
          try (rewrite Hb; simpl; rewrite <- app_assoc; reflexivity);
          try (rewrite Hs, <- app_assoc; reflexivity).
    + destruct HL as (Ha & Hb & _). destruct t; simpl in Ec; congruence.
  - (* acquire *)
    destruct (t_todo (get_t s t)) as [|m rest] eqn:Et; [discriminate|].
    destruct (w_lock s) as [h|] eqn:El; [discriminate|].
    inversion H; subst; clear H.
    destruct HL as (Ha & Hb & Hp & Hs).
    split.
    + destruct HM as (a1 & b1 & Ha1 & Hb1 & Hm).
      destruct t; simpl in *.
      * exists a1, (b1 ++ [m]). rewrite Et in Hb1. repeat split; auto.
        -- rewrite Hb1, <- app_assoc. reflexivity.
        -- unfold tag. rewrite map_app. simpl. apply merge_app_r. exact Hm.
      * exists (a1 ++ [m]), b1. rewrite Et in Ha1. repeat split; auto.
        -- rewrite Ha1, <- app_assoc. reflexivity.
        -- unfold tag. rewrite map_app. simpl. apply merge_app_l. exact Hm.
    + simpl. exists (w_done s), m, m. destruct t; simpl in *; repeat split; auto;
        rewrite Hs, app_nil_r; reflexivity.
Qed.

Lemma winv_run a0 b0 sched : forall s, WInv a0 b0 s -> WInv a0 b0 (wrun true sched s).
Proof.
  induction sched as [|t r IH]; intros s H; simpl; [exact H|].
  apply IH. destruct (wstep true s t) eqn:E; [eapply winv_step; eassumption | exact H].
Qed.

(* every prefix of the execution: complete messages in an order-preserving interleaving, then
   the part of the message whose writer currently holds the lock *)
Theorem writers_sink_is_message_sequence a b sched :
  let s := wrun true sched (winit a b) in
  exists a1 b1 dn, merge (tag false a1) (tag true b1) (w_done s) /\
    (exists ra, a = a1 ++ ra) /\ (exists rb, b = b1 ++ rb) /\
    w_sink s = all_bytes_of dn ++ w_part s /\
    (w_done s = dn \/ exists e, w_done s = dn ++ [e]).
Proof.
  intros s. destruct (winv_run a b sched _ (winv_init a b)) as [HM HL]. fold s in HM, HL.
  destruct HM as (a1 & b1 & Ha & Hb & Hm).
  destruct (w_lock s) as [h|].
  - destruct HL as (dn & m & rest & Hd & _ & _ & _ & Hs).
    exists a1, b1, dn. repeat split; eauto.
  - destruct HL as (_ & _ & Hp & Hs). exists a1, b1, (w_done s). repeat split; eauto.
    rewrite Hp, app_nil_r. exact Hs.
Qed.

Lemma wfinished_spec s : wfinished s = true ->
  t_todo (w_a s) = [] /\ t_cur (w_a s) = None /\ t_todo (w_b s) = [] /\ t_cur (w_b s) = None.
Proof.
  unfold wfinished. destruct (t_todo (w_a s)), (t_cur (w_a s)), (t_todo (w_b s)), (t_cur (w_b s));
    try discriminate; auto.
Qed.

Theorem writers_finished_sink a b sched :
  let s := wrun true sched (winit a b) in
  wfinished s = true ->
  merge (tag false a) (tag true b) (w_done s) /\ w_sink s = all_bytes_of (w_done s).
Proof.
  intros s F. destruct (winv_run a b sched _ (winv_init a b)) as [HM HL]. fold s in HM, HL.
  apply wfinished_spec in F as (Ta & Ca & Tb & Cb).
  destruct HM as (a1 & b1 & Ha & Hb & Hm). rewrite Ta in Ha. rewrite Tb in Hb.
  rewrite app_nil_r in Ha, Hb. subst a1 b1.
  destruct (w_lock s) as [h|].
  - destruct HL as (dn & m & rest & _ & Hc & _). destruct h; simpl in Hc; congruence.
  - destruct HL as (_ & _ & _ & Hs). split; assumption.
Qed.

(* without the lock a frame can be torn *)
Example tear_without_lock_refuted :
  let a := [[[36; 0; 0; 2]; [7; 8]]] in          (* one interleaved frame: prefix, data *)
  let b := [[[82; 84; 83; 80]]] in                (* one response *)
  let s := wrun false [false; false; true; true; false; false; true] (winit a b) in
  wfinished s = true /\ w_sink s = [36; 0; 0; 2; 82; 84; 83; 80; 7; 8] /\
  w_sink s <> all_bytes_of (w_done s).
Proof. vm_compute. repeat split; discriminate. Qed.

(* ---------- buffered.Conn ---------- *)
Definition b_total (b : bconn) : bytes := b_sent b ++ b_buf b.
Definition b_ok (b : bconn) : Prop := 0 <= b_size b /\ zlen (b_buf b) <= b_size b.

Lemma take_drop_app k p : take k p ++ drop k p = p.
Proof. unfold take, drop. apply firstn_skipn. Qed.

Lemma zlen_take k p : 0 <= k -> k <= zlen p -> zlen (take k p) = k.
Proof. intros H1 H2. unfold take, zlen in *. rewrite firstn_length. lia. Qed.

Lemma b_loop_total fuel : forall b p b1 p1,
  b_loop fuel b p = (b1, p1) -> b_total b1 ++ p1 = b_total b ++ p /\ b_size b1 = b_size b.
Proof.
  induction fuel as [|f IH]; intros b p b1 p1 H; simpl in H.
  - inversion H; subst. auto.
  - destruct (zlen p >? b_size b - zlen (b_buf b)) eqn:C.
    + destruct (b_buf b) as [|x buf] eqn:Eb.
      * apply IH in H as [H1 H2]. simpl in *. split; [|exact H2].
        rewrite H1. unfold b_total. simpl. rewrite Eb, !app_nil_r. reflexivity.
      * apply IH in H as [H1 H2]. simpl in *. split; [|exact H2].
        rewrite H1. unfold b_total, b_flush. simpl. rewrite Eb, app_nil_r.
        rewrite <- !app_assoc. f_equal. simpl. f_equal. rewrite <- app_assoc. f_equal.
        apply take_drop_app.
    + inversion H; subst. auto.
Qed.

Lemma b_loop_exit b p b1 p1 :
  b_ok b -> b_loop 3 b p = (b1, p1) -> b_ok b1 /\ zlen p1 <= b_size b1 - zlen (b_buf b1).
Proof.
  intros [S0 S1] H. unfold b_ok.
  cbn [b_loop] in H.
  destruct (zlen p >? b_size b - zlen (b_buf b)) eqn:C1.
  2:{ inversion H; subst. rewrite Z.gtb_ltb in C1. apply Z.ltb_ge in C1. lia. }
  destruct (b_buf b) as [|x buf] eqn:Eb.
  - (* direct write: p becomes empty *)
    cbn [b_size b_buf] in H.
    assert (zlen (@nil Z) >? b_size b - zlen (@nil Z) = false) as C2.
    { rewrite Z.gtb_ltb. apply Z.ltb_ge. unfold zlen; simpl; lia. }
    rewrite C2 in H. inversion H; subst. simpl. unfold zlen. simpl. lia.
  - (* fill, flush, then at most one direct write *)
    unfold b_flush in H. cbn [b_size b_buf b_sent] in H.
    set (k := b_size b - zlen (x :: buf)) in *.
    destruct (zlen (drop k p) >? b_size b - zlen (@nil Z)) eqn:C2.
    + assert (zlen (@nil Z) >? b_size b - zlen (@nil Z) = false) as C3.
      { rewrite Z.gtb_ltb. apply Z.ltb_ge. unfold zlen; simpl; lia. }
      rewrite C3 in H. inversion H; subst. simpl. unfold zlen. simpl. lia.
    + inversion H; subst. simpl. rewrite Z.gtb_ltb in C2. apply Z.ltb_ge in C2.
      unfold zlen in *. simpl in *. lia.
Qed.

Lemma b_write_total b p v : b_ok b -> b_total (b_write b p v) = b_total b ++ p /\ b_ok (b_write b p v).
Proof.
  intros OK. unfold b_write. destruct (b_loop 3 b p) as [b1 p1] eqn:L.
  destruct (b_loop_total _ _ _ _ _ L) as [T S]. destruct (b_loop_exit _ _ _ _ OK L) as [[K0 K1] E].
  rewrite <- T. unfold b_total, b_ok, b_flush.
  destruct v; simpl.
  - split; [rewrite <- !app_assoc; reflexivity|]. rewrite zlen_app. lia.
  - destruct (b_buf b1) as [|x buf] eqn:Eb; simpl.
    + split; [rewrite !app_nil_r; reflexivity|]. unfold zlen; simpl; lia.
    + split; [rewrite app_nil_r, <- !app_assoc; reflexivity|]. unfold zlen; simpl; lia.
Qed.

Lemma b_step_total b o : b_ok b ->
  b_total (b_step b o) = b_total b ++ (match o with BWrite p _ => p | BFlush => [] end) /\ b_ok (b_step b o).
Proof.
  intros OK. destruct o as [p v|]; simpl.
  - apply b_write_total. exact OK.
  - unfold b_total, b_flush, b_ok in *. simpl. rewrite !app_nil_r. split; [reflexivity|].
    unfold zlen; simpl; lia.
Qed.

Theorem buffered_conn_order size ops :
  0 <= size ->
  let b := fold_left b_step ops (b_init size) in
  b_sent b ++ b_buf b = b_written ops /\ zlen (b_buf b) <= size.
Proof.
  intros S.
  assert (forall ops b, b_ok b ->
            b_total (fold_left b_step ops b) = b_total b ++ b_written ops /\
            b_ok (fold_left b_step ops b) /\ b_size (fold_left b_step ops b) = b_size b) as G.
  { induction ops0 as [|o r IH]; intros b OK; simpl.
    - unfold b_written; simpl. rewrite app_nil_r. auto.
    - destruct (b_step_total b o OK) as [T OK'].
      destruct (IH _ OK') as (T2 & OK2 & SZ). rewrite T2, T. split.
      + unfold b_written. simpl. rewrite <- app_assoc. reflexivity.
      + split; [exact OK2|]. rewrite SZ. destruct o as [p v|]; simpl; [|reflexivity].
        unfold b_write. destruct (b_loop 3 b p) as [b1 p1] eqn:L.
        destruct (b_loop_total _ _ _ _ _ L) as [_ S1].
        destruct v; simpl; [exact S1|]. destruct (b_buf b1); simpl; exact S1. }
  assert (b_ok (b_init size)) as OK0 by (unfold b_ok, b_init, zlen; simpl; lia).
  destruct (G ops _ OK0) as (T & [_ OK] & SZ). simpl. split.
  - exact T.
  - rewrite SZ in OK. exact OK.
Qed.

(* ---------- the oracles accept the model ---------- *)
Lemma ok_sink_merge : forall (a b : list msg) d,
  merge (tag false a) (tag true b) d ->
  forall fuel, (length a + length b <= fuel)%nat ->
  ok_sink fuel (map msg_bytes a) (map msg_bytes b) (all_bytes_of d) = true.
Proof.
  intros a b d M. remember (tag false a) as ta. remember (tag true b) as tb.
  revert a b Heqta Heqtb.
  induction M as [|x a1 b1 l M IH|x a1 b1 l M IH]; intros a b Ea Eb fuel F.
  - destruct a; [|discriminate]. destruct b; [|discriminate]. destruct fuel; reflexivity.
  - destruct a as [|m a']; [discriminate|]. simpl in Ea. inversion Ea; subst.
    destruct fuel as [|f]; [simpl in F; lia|].
    cbn [ok_sink map]. unfold all_bytes_of. cbn [map concat snd].
    assert (is_prefix (msg_bytes m) (msg_bytes m ++ concat (map (fun e => msg_bytes (snd e)) l)) = true) as P.
    { apply is_prefix_app. eexists; reflexivity. }
    rewrite P, drop_app_exact. fold (all_bytes_of l).
    rewrite (IH a' b eq_refl eq_refl f) by (simpl in F; lia).
    destruct (map msg_bytes b); reflexivity.
  - destruct b as [|m b']; [discriminate|]. simpl in Eb. inversion Eb; subst.
    destruct fuel as [|f]; [simpl in F; lia|].
    cbn [ok_sink map]. unfold all_bytes_of. cbn [map concat snd].
    assert (is_prefix (msg_bytes m) (msg_bytes m ++ concat (map (fun e => msg_bytes (snd e)) l)) = true) as P.
    { apply is_prefix_app. eexists; reflexivity. }
    rewrite P, drop_app_exact. fold (all_bytes_of l).
    rewrite (IH a b' eq_refl eq_refl f) by (simpl in F; lia).
    destruct (map msg_bytes a) eqn:Ea'; [reflexivity|]. rewrite orb_true_r. reflexivity.
Qed.

Theorem writers_model_passes a b sched :
  let s := wrun true sched (winit a b) in
  wfinished s = true ->
  ok_sink (length a + length b) (map msg_bytes a) (map msg_bytes b) (w_sink s) = true.
Proof.
  intros s F. destruct (writers_finished_sink a b sched F) as [M S]. fold s in M, S.
  rewrite S. apply ok_sink_merge; [exact M | lia].
Qed.

Lemma ok_bconn_trace size : forall ops b,
  b_ok b -> b_size b = size ->
  ok_bconn size (b_total b) ops (b_trace b ops) = true.
Proof.
  induction ops as [|o r IH]; intros b OK SZ; [reflexivity|].
  cbn [b_trace ok_bconn].
  destruct (b_step_total b o OK) as [T OK'].
  assert (b_size (b_step b o) = size) as SZ'.
  { rewrite <- SZ. destruct o as [p v|]; simpl; [|reflexivity].
    unfold b_write. destruct (b_loop 3 b p) as [b1 p1] eqn:L.
    destruct (b_loop_total _ _ _ _ _ L) as [_ S1].
    destruct v; simpl; [exact S1|]. destruct (b_buf b1); simpl; exact S1. }
  rewrite <- T. rewrite (IH _ OK' SZ'), andb_true_r.
  destruct OK' as [K0 K1]. rewrite SZ' in K1.
  unfold b_total. rewrite zlen_app.
  assert (0 <= zlen (b_buf (b_step b o))) by apply zlen_nonneg.
  replace (zlen (b_sent (b_step b o)) + zlen (b_buf (b_step b o)) - zlen (b_buf (b_step b o)))
    with (zlen (b_sent (b_step b o))) by lia.
  assert (take (zlen (b_sent (b_step b o))) (b_sent (b_step b o) ++ b_buf (b_step b o)) = b_sent (b_step b o)) as ->.
  { unfold take, zlen. rewrite Nat2Z.id, firstn_app, Nat.sub_diag, firstn_all. simpl. apply app_nil_r. }
  rewrite bytes_eqb_refl, Z.eqb_refl.
  assert ((0 <=? zlen (b_buf (b_step b o))) = true) as -> by (apply Z.leb_le; lia).
  assert ((zlen (b_buf (b_step b o)) <=? size) = true) as -> by (apply Z.leb_le; lia).
  destruct o; simpl; reflexivity.
Qed.

Theorem bconn_model_passes size ops :
  0 <= size -> ok_bconn size [] ops (b_trace (b_init size) ops) = true.
Proof.
  intros S. apply (ok_bconn_trace size ops (b_init size)); [|reflexivity].
  unfold b_ok, b_init, zlen; simpl; lia.
Qed.
