(* C01 — fan-out integrity of the stream LTS (Model/StreamLts.v), variant [fixed].

   For every schedule, every packet list, every number of consumers, every [maxq], every
   [panic_at] and an abstract cache:
   * what a consumer was handed is a prefix of what was queued for it;
   * what was queued = cache snapshot taken at attach ++ the packets broadcast while it was
     registered, filtered only by its own keep/drop decisions;
   * hence order, at-most-once (on ids), completeness when nothing is dropped, and identity
     (the model never rebuilds a packet: a [pkt] value travels from [s_todo] to [s_sent], to the
     queues and to [c_out] as the same Coq value, so "unmodified" is [In x pkts] / list equality);
   * steps of other consumers' threads do not touch a consumer;
   * lock discipline: outside the publisher's critical section the cached log equals the sent log.

   Technique: a per-consumer invariant [KI] preserved by every per-consumer operation, a state
   invariant [Inv], [Inv (init …)], [Inv s -> step s t = Some s' -> Inv s'], induction over the
   schedule. *)
From Coq Require Import ZArith List Bool Arith Lia.
From V Require Import StreamLts Cache LtsWire.
Import ListNotations.
#[local] Open Scope nat_scope.

#[local] Arguments s_ok {cache_t} _.
#[local] Arguments s_lock {cache_t} _.
#[local] Arguments s_lockq {cache_t} _.
#[local] Arguments s_cache {cache_t} _.
#[local] Arguments s_sent {cache_t} _.
#[local] Arguments s_cached {cache_t} _.
#[local] Arguments s_todo {cache_t} _.
#[local] Arguments s_pp {cache_t} _.
#[local] Arguments s_count {cache_t} _.
#[local] Arguments s_cs {cache_t} _ _.
#[local] Arguments s_att {cache_t} _ _.
#[local] Arguments s_stp {cache_t} _ _.
#[local] Arguments s_kp {cache_t} _.

(* ------------------------------------------------------------------ *)
(* lists: select, subseq, window                                       *)
(* ------------------------------------------------------------------ *)

(* keep the elements whose flag is true *)
Fixpoint select {A} (m : list bool) (l : list A) : list A :=
  match m, l with
  | b :: m', x :: l' => if b then x :: select m' l' else select m' l'
  | _, _ => []
  end.

Inductive subseq {A} : list A -> list A -> Prop :=
| sub_nil : forall l, subseq [] l
| sub_skip : forall l1 x l2, subseq l1 l2 -> subseq l1 (x :: l2)
| sub_take : forall l1 x l2, subseq l1 l2 -> subseq (x :: l1) (x :: l2).

(* the packets broadcast while the consumer was registered *)
Definition window (sent : list pkt) (regat unregat : option nat) : list pkt :=
  match regat with
  | None => []
  | Some r =>
      match unregat with
      | None => skipn r sent
      | Some u => firstn (u - r) (skipn r sent)
      end
  end.

Lemma select_nil_r : forall A (m : list bool), @select A m [] = [].
Proof. destruct m; reflexivity. Qed.

Lemma select_app : forall A (m m2 : list bool) (l l2 : list A),
  length m = length l -> select (m ++ m2) (l ++ l2) = select m l ++ select m2 l2.
Proof.
  induction m as [|b m IH]; intros m2 l l2 Hlen; destruct l as [|x l]; simpl in *; try discriminate.
  - reflexivity.
  - injection Hlen as Hlen. rewrite (IH m2 l l2 Hlen). destruct b; reflexivity.
Qed.

Lemma select_all_true : forall A (m : list bool) (l : list A),
  length m = length l -> forallb (fun b => b) m = true -> select m l = l.
Proof.
  induction m as [|b m IH]; intros l Hlen Hall; destruct l as [|x l]; simpl in *; try discriminate.
  - reflexivity.
  - injection Hlen as Hlen. apply andb_true_iff in Hall. destruct Hall as [Hb Hall]. subst b.
    rewrite (IH l Hlen Hall). reflexivity.
Qed.

Lemma subseq_refl : forall A (l : list A), subseq l l.
Proof. induction l; [apply sub_nil | apply sub_take; assumption]. Qed.

Lemma subseq_trans : forall A (l1 l2 l3 : list A), subseq l1 l2 -> subseq l2 l3 -> subseq l1 l3.
Proof.
  intros A l1 l2 l3 H12 H23. revert l1 H12.
  induction H23 as [l|l2 x l3 H IH|l2 x l3 H IH]; intros l1 H12.
  - inversion H12; subst. constructor.
  - apply sub_skip. apply IH. assumption.
  - inversion H12; subst.
    + constructor.
    + apply sub_skip. apply IH. assumption.
    + apply sub_take. apply IH. assumption.
Qed.

Lemma subseq_select : forall A (m : list bool) (l : list A), subseq (select m l) l.
Proof.
  induction m as [|b m IH]; intros l; destruct l as [|x l]; simpl; try apply sub_nil.
  destruct b; constructor; apply IH.
Qed.

Lemma subseq_app_l : forall A (l1 l2 : list A), subseq l1 (l1 ++ l2).
Proof. induction l1; intros; simpl; [apply sub_nil | apply sub_take; auto]. Qed.

Lemma subseq_app_r : forall A (l1 l2 : list A), subseq l2 (l1 ++ l2).
Proof. induction l1; intros; simpl; [apply subseq_refl | apply sub_skip; auto]. Qed.

Lemma subseq_skipn : forall A n (l : list A), subseq (skipn n l) l.
Proof.
  intros A n l. rewrite <- (firstn_skipn n l) at 2. apply subseq_app_r.
Qed.

Lemma subseq_firstn : forall A n (l : list A), subseq (firstn n l) l.
Proof.
  intros A n l. rewrite <- (firstn_skipn n l) at 2. apply subseq_app_l.
Qed.

Lemma subseq_In : forall A (l1 l2 : list A) x, subseq l1 l2 -> In x l1 -> In x l2.
Proof.
  intros A l1 l2 x H. induction H; simpl; intros Hin.
  - contradiction.
  - right. auto.
  - destruct Hin; [left; assumption | right; auto].
Qed.

Lemma subseq_map : forall A B (f : A -> B) (l1 l2 : list A), subseq l1 l2 -> subseq (map f l1) (map f l2).
Proof. intros A B f l1 l2 H. induction H; simpl; constructor; assumption. Qed.

Lemma subseq_NoDup : forall A (l1 l2 : list A), subseq l1 l2 -> NoDup l2 -> NoDup l1.
Proof.
  intros A l1 l2 H. induction H; intros Hnd.
  - constructor.
  - inversion Hnd; subst. auto.
  - inversion Hnd; subst. constructor; auto.
    intro Hin. apply H2. eapply subseq_In; eassumption.
Qed.

Lemma subseq_window : forall sent r u, subseq (window sent r u) sent.
Proof.
  intros sent [r|] [u|]; simpl; try constructor.
  - eapply subseq_trans; [apply subseq_firstn | apply subseq_skipn].
  - apply subseq_skipn.
Qed.

Lemma window_app_reg : forall sent r p, r <= length sent ->
  window (sent ++ [p]) (Some r) None = window sent (Some r) None ++ [p].
Proof.
  intros sent r p Hr. simpl. rewrite skipn_app.
  replace (r - length sent) with 0 by lia. reflexivity.
Qed.

Lemma window_app_unreg : forall sent r u p, r <= u -> u <= length sent ->
  window (sent ++ [p]) (Some r) (Some u) = window sent (Some r) (Some u).
Proof.
  intros sent r u p Hr Hu. simpl. rewrite skipn_app, firstn_app.
  rewrite skipn_length.
  replace (u - r - (length sent - r)) with 0 by lia.
  rewrite firstn_O, app_nil_r. reflexivity.
Qed.

Lemma window_close : forall sent r, r <= length sent ->
  window sent (Some r) (Some (length sent)) = window sent (Some r) None.
Proof.
  intros sent r Hr. simpl. apply firstn_all2. rewrite skipn_length. lia.
Qed.

Lemma window_open : forall sent, window sent (Some (length sent)) None = [].
Proof. intros. simpl. apply skipn_all. Qed.

(* ------------------------------------------------------------------ *)
(* per-consumer views                                                  *)
(* ------------------------------------------------------------------ *)

(* the packet the goroutine holds between Pop and Consume *)
Definition infl (pc : cpc) : list pkt := match pc with CGot (Some p) => [p] | _ => [] end.

Fixpoint somes (q : list (option pkt)) : list pkt :=
  match q with
  | [] => []
  | Some p :: q' => p :: somes q'
  | None :: q' => somes q'
  end.

(* queued for the consumer and not yet handed over *)
Definition pend (k : cons) : list pkt := infl (c_pc k) ++ somes (c_q k).

Definition isdone (k : cons) : bool := match c_pc k with CDone => true | _ => false end.
Definition isfin (k : cons) : bool := match c_pc k with CDone | CExitLoaded => true | _ => false end.
Definition started (k : cons) : bool := match c_pc k with CNone => false | _ => true end.

(* the consumer as it is between the snapshot and the registration *)
Definition fresh (pre : list pkt) : cons :=
  {| c_reg := false; c_closed := false; c_q := map Some pre; c_pc := CNone; c_out := []; c_disc := false;
     c_closes := 0; c_pushed := pre; c_prefill := pre; c_regat := None; c_unregat := None; c_keep := [] |}.

(* the part of the delivered stream that came from live broadcast *)
Definition live_out (k : cons) : list pkt := skipn (length (c_prefill k)) (c_out k).
Definition live_pushed (k : cons) : list pkt := skipn (length (c_prefill k)) (c_pushed k).

(* the keep/drop decision of consumption.send: a function of the consumer's own queue length,
   its own discarding flag and the packet *)
Definition send_drop (maxq n : nat) (disc : bool) (p : pkt) : bool :=
  if p_key p
  then (if disc && (n <? maxq)%nat then false
        else if negb disc && (maxq <? n)%nat then true else disc)
  else disc.

Lemma somes_app : forall q1 q2, somes (q1 ++ q2) = somes q1 ++ somes q2.
Proof.
  induction q1 as [|[p|] q1 IH]; intros q2; simpl; rewrite ?IH; reflexivity.
Qed.

Lemma somes_map_Some : forall l, somes (map Some l) = l.
Proof. induction l; simpl; congruence. Qed.

(* registration interval is well formed w.r.t. the length of the sent log *)
Definition IW (n : nat) (k : cons) : Prop :=
  match c_regat k, c_unregat k with
  | None, _ => c_reg k = false
  | Some r, None => c_reg k = true /\ r <= n
  | Some r, Some u => c_reg k = false /\ r <= u /\ u <= n
  end.

Record KI (sent : list pkt) (k : cons) : Prop := {
  ki_q : exists rest, c_pushed k = c_out k ++ pend k ++ rest /\ (isdone k = true \/ rest = []);
  ki_fin : isfin k = true -> c_reg k = false;
  ki_iw : IW (length sent) k;
  ki_w : c_pushed k = c_prefill k ++ select (c_keep k) (window sent (c_regat k) (c_unregat k));
  ki_len : length (c_keep k) = length (window sent (c_regat k) (c_unregat k))
}.

(* ---- wake ---- *)
Lemma wake_reg : forall k, c_reg (wake k) = c_reg k.
Proof. intros k. unfold wake. destruct (c_pc k); try reflexivity. destruct (c_q k); reflexivity. Qed.
Lemma wake_closed : forall k, c_closed (wake k) = c_closed k.
Proof. intros k. unfold wake. destruct (c_pc k); try reflexivity. destruct (c_q k); reflexivity. Qed.
Lemma wake_out : forall k, c_out (wake k) = c_out k.
Proof. intros k. unfold wake. destruct (c_pc k); try reflexivity. destruct (c_q k); reflexivity. Qed.
Lemma wake_disc : forall k, c_disc (wake k) = c_disc k.
Proof. intros k. unfold wake. destruct (c_pc k); try reflexivity. destruct (c_q k); reflexivity. Qed.
Lemma wake_pushed : forall k, c_pushed (wake k) = c_pushed k.
Proof. intros k. unfold wake. destruct (c_pc k); try reflexivity. destruct (c_q k); reflexivity. Qed.
Lemma wake_prefill : forall k, c_prefill (wake k) = c_prefill k.
Proof. intros k. unfold wake. destruct (c_pc k); try reflexivity. destruct (c_q k); reflexivity. Qed.
Lemma wake_regat : forall k, c_regat (wake k) = c_regat k.
Proof. intros k. unfold wake. destruct (c_pc k); try reflexivity. destruct (c_q k); reflexivity. Qed.
Lemma wake_unregat : forall k, c_unregat (wake k) = c_unregat k.
Proof. intros k. unfold wake. destruct (c_pc k); try reflexivity. destruct (c_q k); reflexivity. Qed.
Lemma wake_keep : forall k, c_keep (wake k) = c_keep k.
Proof. intros k. unfold wake. destruct (c_pc k); try reflexivity. destruct (c_q k); reflexivity. Qed.
Lemma wake_pend : forall k, pend (wake k) = pend k.
Proof.
  intros k. unfold pend, wake. destruct (c_pc k) eqn:Hpc; try (rewrite Hpc; reflexivity).
  destruct (c_q k) as [|[p|] q'] eqn:Hq; simpl; reflexivity.
Qed.
Lemma wake_isdone : forall k, isdone (wake k) = isdone k.
Proof.
  intros k. unfold isdone, wake. destruct (c_pc k) eqn:Hpc; try (rewrite Hpc; reflexivity).
  destruct (c_q k); reflexivity.
Qed.
Lemma wake_isfin : forall k, isfin (wake k) = isfin k.
Proof.
  intros k. unfold isfin, wake. destruct (c_pc k) eqn:Hpc; try (rewrite Hpc; reflexivity).
  destruct (c_q k); reflexivity.
Qed.
Lemma wake_started : forall k, started (wake k) = started k.
Proof.
  intros k. unfold started, wake. destruct (c_pc k) eqn:Hpc; try (rewrite Hpc; reflexivity).
  destruct (c_q k); reflexivity.
Qed.

Lemma IW_ext : forall n k k', c_reg k' = c_reg k -> c_regat k' = c_regat k -> c_unregat k' = c_unregat k ->
  IW n k -> IW n k'.
Proof. unfold IW. intros n k k' -> -> ->. auto. Qed.

(* a consumer operation that leaves everything but the queue/position alone, and keeps [pend] *)
Lemma KI_ext : forall sent k k',
  c_reg k' = c_reg k -> c_out k' = c_out k -> c_pushed k' = c_pushed k -> c_prefill k' = c_prefill k ->
  c_regat k' = c_regat k -> c_unregat k' = c_unregat k -> c_keep k' = c_keep k ->
  pend k' = pend k -> isdone k' = isdone k -> isfin k' = isfin k ->
  KI sent k -> KI sent k'.
Proof.
  intros sent k k' Hreg Hout Hpu Hpre Hra Hua Hkeep Hpend Hd Hf [Hq Hfin Hiw Hw Hlen].
  constructor.
  - rewrite Hpu, Hout, Hpend, Hd. exact Hq.
  - rewrite Hf, Hreg. exact Hfin.
  - eapply IW_ext; eauto.
  - rewrite Hpu, Hpre, Hkeep, Hra, Hua. exact Hw.
  - rewrite Hkeep, Hra, Hua. exact Hlen.
Qed.

Lemma KI_wake : forall sent k, KI sent k -> KI sent (wake k).
Proof.
  intros sent k H. eapply KI_ext; try eassumption.
  - apply wake_reg. - apply wake_out. - apply wake_pushed. - apply wake_prefill.
  - apply wake_regat. - apply wake_unregat. - apply wake_keep. - apply wake_pend.
  - apply wake_isdone. - apply wake_isfin.
Qed.

(* ---- push ---- *)
Lemma push_reg : forall k x, c_reg (push k x) = c_reg k.
Proof. intros. unfold push. rewrite wake_reg. reflexivity. Qed.
Lemma push_closed : forall k x, c_closed (push k x) = c_closed k.
Proof. intros. unfold push. rewrite wake_closed. reflexivity. Qed.
Lemma push_out : forall k x, c_out (push k x) = c_out k.
Proof. intros. unfold push. rewrite wake_out. reflexivity. Qed.
Lemma push_disc : forall k x, c_disc (push k x) = c_disc k.
Proof. intros. unfold push. rewrite wake_disc. reflexivity. Qed.
Lemma push_pushed : forall k x,
  c_pushed (push k x) = match x with Some p => c_pushed k ++ [p] | None => c_pushed k end.
Proof. intros. unfold push. rewrite wake_pushed. reflexivity. Qed.
Lemma push_prefill : forall k x, c_prefill (push k x) = c_prefill k.
Proof. intros. unfold push. rewrite wake_prefill. reflexivity. Qed.
Lemma push_regat : forall k x, c_regat (push k x) = c_regat k.
Proof. intros. unfold push. rewrite wake_regat. reflexivity. Qed.
Lemma push_unregat : forall k x, c_unregat (push k x) = c_unregat k.
Proof. intros. unfold push. rewrite wake_unregat. reflexivity. Qed.
Lemma push_keep : forall k x, c_keep (push k x) = c_keep k.
Proof. intros. unfold push. rewrite wake_keep. reflexivity. Qed.
Lemma push_pend : forall k x,
  pend (push k x) = pend k ++ match x with Some p => [p] | None => [] end.
Proof.
  intros. unfold push. rewrite wake_pend. unfold pend. simpl. rewrite somes_app, app_assoc.
  destruct x; reflexivity.
Qed.
Lemma push_isdone : forall k x, isdone (push k x) = isdone k.
Proof. intros. unfold push. rewrite wake_isdone. reflexivity. Qed.
Lemma push_isfin : forall k x, isfin (push k x) = isfin k.
Proof. intros. unfold push. rewrite wake_isfin. reflexivity. Qed.
Lemma push_started : forall k x, started (push k x) = started k.
Proof. intros. unfold push. rewrite wake_started. reflexivity. Qed.

Lemma KI_push_none : forall sent k, KI sent k -> KI sent (push k None).
Proof.
  intros sent k H. eapply KI_ext; try eassumption.
  - apply push_reg. - apply push_out. - apply push_pushed. - apply push_prefill.
  - apply push_regat. - apply push_unregat. - apply push_keep.
  - rewrite push_pend. apply app_nil_r.
  - apply push_isdone. - apply push_isfin.
Qed.

(* ---- close_cons (fixed) ---- *)
Lemma close_reg : forall k, c_reg (close_cons fixed k) = c_reg k.
Proof. intros. unfold close_cons. destruct (c_closed k); simpl; rewrite ?push_reg; reflexivity. Qed.
Lemma close_started : forall k, started (close_cons fixed k) = started k.
Proof. intros. unfold close_cons. destruct (c_closed k); simpl; rewrite ?push_started; reflexivity. Qed.
Lemma close_isfin : forall k, isfin (close_cons fixed k) = isfin k.
Proof. intros. unfold close_cons. destruct (c_closed k); simpl; rewrite ?push_isfin; reflexivity. Qed.

Lemma KI_close : forall sent k, KI sent k -> KI sent (close_cons fixed k).
Proof.
  intros sent k H. unfold close_cons. destruct (c_closed k); [exact H|]. simpl.
  apply KI_push_none. eapply KI_ext; try eassumption; reflexivity.
Qed.

(* ---- set_reg ---- *)
Lemma KI_unreg : forall sent k, KI sent k -> c_reg k = true -> KI sent (set_reg k false (length sent)).
Proof.
  intros sent k [Hq Hfin Hiw Hw Hlen] Hreg.
  unfold IW in Hiw.
  destruct (c_regat k) as [r|] eqn:Hra; [|congruence].
  destruct (c_unregat k) as [u|] eqn:Hua; [destruct Hiw; congruence|].
  destruct Hiw as [_ Hr].
  constructor; simpl.
  - exact Hq.
  - reflexivity.
  - unfold IW. simpl. rewrite Hra. repeat split; lia.
  - rewrite Hra, window_close by exact Hr. exact Hw.
  - rewrite Hra, window_close by exact Hr. exact Hlen.
Qed.

Lemma KI_reg_fresh : forall sent pre, KI sent (set_reg (fresh pre) true (length sent)).
Proof.
  intros sent pre. constructor; simpl.
  - exists []. unfold pend. simpl. rewrite somes_map_Some, app_nil_r. auto.
  - discriminate.
  - unfold IW. simpl. split; [reflexivity | lia].
  - rewrite app_nil_r. reflexivity.
  - rewrite skipn_all. reflexivity.
Qed.

Lemma KI_fresh : forall sent pre, KI sent (fresh pre).
Proof.
  intros sent pre. constructor; simpl.
  - exists []. unfold pend. simpl. rewrite somes_map_Some, app_nil_r. auto.
  - discriminate.
  - reflexivity.
  - rewrite app_nil_r. reflexivity.
  - reflexivity.
Qed.

Lemma KI_cons0 : forall sent, KI sent cons0.
Proof. intros. apply (KI_fresh sent []). Qed.

(* ---- set_pc / finish / exit_path / loop_test ---- *)
Lemma set_pc_set_pc : forall k a b, set_pc (set_pc k a) b = set_pc k b.
Proof. reflexivity. Qed.

Lemma exit_path_set_pc : forall k a n, exit_path fixed (set_pc k a) n = exit_path fixed k n.
Proof. intros. unfold exit_path. simpl. destruct (c_reg k); reflexivity. Qed.

Lemma loop_test_set_pc : forall k a n, loop_test fixed (set_pc k a) n = loop_test fixed k n.
Proof.
  intros. unfold loop_test. simpl (c_closed _). rewrite exit_path_set_pc. reflexivity.
Qed.

(* [set_pc k CPop] stands for "k about to run the loop test, holding nothing" *)
Lemma KI_to_wait : forall sent k, KI sent (set_pc k CPop) -> KI sent (set_pc k CWait).
Proof. intros sent k H. eapply KI_ext; try eassumption; reflexivity. Qed.

Lemma KI_finish : forall sent k, KI sent k -> c_reg k = false -> KI sent (finish k).
Proof.
  intros sent k [Hq Hfin Hiw Hw Hlen] Hreg.
  constructor; simpl; try assumption.
  - destruct Hq as [rest [Hq _]]. exists (pend k ++ rest). split; [|left; reflexivity].
    unfold pend at 1. simpl. exact Hq.
  - intros _. exact Hreg.
Qed.

Lemma KI_exit_path : forall sent k, KI sent (set_pc k CPop) -> KI sent (exit_path fixed k (length sent)).
Proof.
  intros sent k H. rewrite <- (exit_path_set_pc k CPop). unfold exit_path.
  destruct (c_reg (set_pc k CPop)) eqn:Hreg.
  - simpl (v_atomic fixed). cbv iota.
    pose proof (KI_unreg _ _ H Hreg) as H1.
    destruct H1 as [Hq Hfin Hiw Hw Hlen].
    constructor; try assumption. intros _. reflexivity.
  - apply KI_finish; assumption.
Qed.

Lemma KI_loop_test : forall sent k, KI sent (set_pc k CPop) -> KI sent (loop_test fixed k (length sent)).
Proof.
  intros sent k H. unfold loop_test. destruct (c_closed k).
  - apply KI_exit_path. exact H.
  - exact H.
Qed.

Lemma started_exit_path : forall k n, started (exit_path fixed k n) = true.
Proof. intros. unfold exit_path. destruct (c_reg k); reflexivity. Qed.
Lemma started_loop_test : forall k n, started (loop_test fixed k n) = true.
Proof. intros. unfold loop_test. destruct (c_closed k); [apply started_exit_path | reflexivity]. Qed.

(* a goroutine that holds nothing and is not finished may re-enter the loop test *)
Lemma KI_idle : forall sent k, KI sent k -> infl (c_pc k) = [] -> isdone k = false ->
  KI sent (set_pc k CPop).
Proof.
  intros sent k [Hq Hfin Hiw Hw Hlen] Hinfl Hnd.
  constructor; simpl; try assumption.
  - destruct Hq as [rest [Hq Hr]]. exists rest. split.
    + unfold pend in *. simpl. rewrite Hinfl in Hq. exact Hq.
    + right. destruct Hr as [Hr|Hr]; [congruence | exact Hr].
  - discriminate.
Qed.

(* Pop returned an element *)
Lemma KI_pop : forall sent k x q', c_pc k = CPop -> c_q k = x :: q' -> KI sent k ->
  KI sent {| c_reg := c_reg k; c_closed := c_closed k; c_q := q'; c_pc := CGot x; c_out := c_out k;
             c_disc := c_disc k; c_closes := c_closes k; c_pushed := c_pushed k; c_prefill := c_prefill k;
             c_regat := c_regat k; c_unregat := c_unregat k; c_keep := c_keep k |}.
Proof.
  intros sent k x q' Hpc Hqk H. eapply KI_ext; try eassumption; try reflexivity.
  - unfold pend. simpl. rewrite Hpc, Hqk. destruct x; reflexivity.
  - unfold isdone. simpl. rewrite Hpc. destruct x; reflexivity.
  - unfold isfin. simpl. rewrite Hpc. destruct x; reflexivity.
Qed.

(* the element was handed to Consumer.Consume *)
Lemma KI_deliver : forall sent k p, c_pc k = CGot (Some p) -> KI sent k ->
  KI sent (set_pc {| c_reg := c_reg k; c_closed := c_closed k; c_q := c_q k; c_pc := c_pc k;
                     c_out := c_out k ++ [p]; c_disc := c_disc k; c_closes := c_closes k;
                     c_pushed := c_pushed k; c_prefill := c_prefill k; c_regat := c_regat k;
                     c_unregat := c_unregat k; c_keep := c_keep k |} CPop).
Proof.
  intros sent k p Hpc [Hq Hfin Hiw Hw Hlen].
  constructor; simpl; try assumption.
  - destruct Hq as [rest [Hq Hr]]. exists rest. split.
    + unfold pend in *. simpl. rewrite Hpc in Hq. simpl in Hq. rewrite <- app_assoc. exact Hq.
    + right. destruct Hr as [Hr|Hr]; [|exact Hr]. unfold isdone in Hr. rewrite Hpc in Hr. discriminate.
  - discriminate.
Qed.

(* ---- send ---- *)
Lemma send_disc : forall maxq k p, c_disc (send maxq k p) = send_drop maxq (length (c_q k)) (c_disc k) p.
Proof.
  intros. unfold send, send_drop.
  match goal with |- c_disc (if ?d then _ else _) = _ => destruct d eqn:Hd end.
  - reflexivity.
  - rewrite push_disc. reflexivity.
Qed.

Lemma send_keep : forall maxq k p,
  c_keep (send maxq k p) = c_keep k ++ [negb (send_drop maxq (length (c_q k)) (c_disc k) p)].
Proof.
  intros. unfold send, send_drop.
  match goal with |- c_keep (if ?d then _ else _) = _ => destruct d eqn:Hd end.
  - reflexivity.
  - rewrite push_keep. reflexivity.
Qed.

Lemma send_pushed : forall maxq k p,
  c_pushed (send maxq k p) =
  c_pushed k ++ (if send_drop maxq (length (c_q k)) (c_disc k) p then [] else [p]).
Proof.
  intros. unfold send, send_drop.
  match goal with |- c_pushed (if ?d then _ else _) = _ => destruct d eqn:Hd end.
  - simpl. rewrite app_nil_r. reflexivity.
  - rewrite push_pushed. reflexivity.
Qed.

Lemma send_reg : forall maxq k p, c_reg (send maxq k p) = c_reg k.
Proof.
  intros. unfold send.
  match goal with |- c_reg (if ?d then _ else _) = _ => destruct d end; [reflexivity | rewrite push_reg; reflexivity].
Qed.
Lemma send_out : forall maxq k p, c_out (send maxq k p) = c_out k.
Proof.
  intros. unfold send.
  match goal with |- c_out (if ?d then _ else _) = _ => destruct d end; [reflexivity | rewrite push_out; reflexivity].
Qed.
Lemma send_prefill : forall maxq k p, c_prefill (send maxq k p) = c_prefill k.
Proof.
  intros. unfold send.
  match goal with |- c_prefill (if ?d then _ else _) = _ => destruct d end; [reflexivity | rewrite push_prefill; reflexivity].
Qed.
Lemma send_regat : forall maxq k p, c_regat (send maxq k p) = c_regat k.
Proof.
  intros. unfold send.
  match goal with |- c_regat (if ?d then _ else _) = _ => destruct d end; [reflexivity | rewrite push_regat; reflexivity].
Qed.
Lemma send_unregat : forall maxq k p, c_unregat (send maxq k p) = c_unregat k.
Proof.
  intros. unfold send.
  match goal with |- c_unregat (if ?d then _ else _) = _ => destruct d end; [reflexivity | rewrite push_unregat; reflexivity].
Qed.
Lemma send_started : forall maxq k p, started (send maxq k p) = started k.
Proof.
  intros. unfold send.
  match goal with |- started (if ?d then _ else _) = _ => destruct d end; [reflexivity | rewrite push_started; reflexivity].
Qed.
Lemma send_isdone : forall maxq k p, isdone (send maxq k p) = isdone k.
Proof.
  intros. unfold send.
  match goal with |- isdone (if ?d then _ else _) = _ => destruct d end; [reflexivity | rewrite push_isdone; reflexivity].
Qed.
Lemma send_isfin : forall maxq k p, isfin (send maxq k p) = isfin k.
Proof.
  intros. unfold send.
  match goal with |- isfin (if ?d then _ else _) = _ => destruct d end; [reflexivity | rewrite push_isfin; reflexivity].
Qed.
Lemma send_pend : forall maxq k p,
  pend (send maxq k p) = pend k ++ (if send_drop maxq (length (c_q k)) (c_disc k) p then [] else [p]).
Proof.
  intros. unfold send, send_drop.
  match goal with |- pend (if ?d then _ else _) = _ => destruct d eqn:Hd end.
  - unfold pend. simpl. rewrite app_nil_r. reflexivity.
  - rewrite push_pend. reflexivity.
Qed.

(* the packet [p] is appended to the sent log and offered to a registered consumer *)
Lemma KI_send : forall maxq sent k p, KI sent k -> c_reg k = true -> KI (sent ++ [p]) (send maxq k p).
Proof.
  intros maxq sent k p [Hq Hfin Hiw Hw Hlen] Hreg.
  unfold IW in Hiw.
  destruct (c_regat k) as [r|] eqn:Hra; [|congruence].
  destruct (c_unregat k) as [u|] eqn:Hua; [destruct Hiw; congruence|].
  destruct Hiw as [_ Hr].
  assert (Hnf : isfin k = false).
  { destruct (isfin k) eqn:E; [|reflexivity]. specialize (Hfin eq_refl). congruence. }
  assert (Hnd : isdone k = false).
  { unfold isfin in Hnf. unfold isdone. destruct (c_pc k); try reflexivity; discriminate. }
  set (d := send_drop maxq (length (c_q k)) (c_disc k) p).
  constructor.
  - destruct Hq as [rest [Hq Hrest]].
    destruct Hrest as [Hrest|Hrest]; [congruence|]. subst rest.
    exists []. split; [|right; reflexivity].
    rewrite send_pushed, send_out, send_pend. fold d. rewrite Hq.
    rewrite !app_nil_r, <- !app_assoc. reflexivity.
  - rewrite send_isfin, send_reg. exact Hfin.
  - unfold IW. rewrite send_regat, send_unregat, send_reg, Hra, Hua, app_length. simpl. split; [exact Hreg | lia].
  - rewrite send_pushed, send_prefill, send_keep, send_regat, send_unregat, Hra, Hua. fold d.
    rewrite window_app_reg by exact Hr.
    rewrite select_app by (rewrite Hlen, ?Hra, ?Hua; reflexivity).
    rewrite Hw, ?Hra, ?Hua, <- app_assoc. f_equal. f_equal. destruct d; reflexivity.
  - rewrite send_keep, send_regat, send_unregat, Hra, Hua.
    rewrite window_app_reg by exact Hr. rewrite !app_length, Hlen, ?Hra, ?Hua. reflexivity.
Qed.

(* … and passes by a consumer that is not registered *)
Lemma KI_skip : forall sent k p, KI sent k -> c_reg k = false -> KI (sent ++ [p]) k.
Proof.
  intros sent k p [Hq Hfin Hiw Hw Hlen] Hreg.
  unfold IW in Hiw.
  assert (Hwin : window (sent ++ [p]) (c_regat k) (c_unregat k) = window sent (c_regat k) (c_unregat k)).
  { destruct (c_regat k) as [r|]; [|reflexivity].
    destruct (c_unregat k) as [u|]; [|destruct Hiw; congruence].
    apply window_app_unreg; lia. }
  constructor; try assumption.
  - unfold IW. rewrite app_length. simpl.
    destruct (c_regat k) as [r|]; [|exact Hiw].
    destruct (c_unregat k) as [u|]; [|destruct Hiw; congruence].
    destruct Hiw as [? [? ?]]. repeat split; try assumption; lia.
  - rewrite Hwin. exact Hw.
  - rewrite Hwin. exact Hlen.
Qed.

(* ---- upd, send_all, sweep ---- *)
Lemma upd_same : forall A (f : nat -> A) c v, upd f c v c = v.
Proof. intros. unfold upd. rewrite Nat.eqb_refl. reflexivity. Qed.

Lemma upd_other : forall A (f : nat -> A) c c' v, c <> c' -> upd f c v c' = f c'.
Proof. intros. unfold upd. destruct (Nat.eqb c c') eqn:E; [apply Nat.eqb_eq in E; contradiction | reflexivity]. Qed.

(* the broadcast treats every consumer by its own entry only *)
Lemma send_all_spec : forall maxq n f p c,
  send_all maxq n f p c = if (c <? n)%nat && c_reg (f c) then send maxq (f c) p else f c.
Proof.
  induction n as [|n IH]; intros f p c; simpl.
  - reflexivity.
  - destruct (Nat.eq_dec n c) as [->|Hne].
    + rewrite (IH f p c). replace (c <? c)%nat with false by (symmetry; apply Nat.ltb_irrefl).
      replace (c <? S c)%nat with true by (symmetry; apply Nat.ltb_lt; lia). simpl.
      destruct (c_reg (f c)) eqn:Hreg.
      * rewrite upd_same. reflexivity.
      * rewrite IH. replace (c <? c)%nat with false by (symmetry; apply Nat.ltb_irrefl). reflexivity.
    + assert (Hother : send_all maxq n f p c = if (c <? S n)%nat && c_reg (f c) then send maxq (f c) p else f c).
      { rewrite IH. destruct (c <? n)%nat eqn:E1; destruct (c <? S n)%nat eqn:E2; try reflexivity.
        - apply Nat.ltb_lt in E1. apply Nat.ltb_ge in E2. lia.
        - apply Nat.ltb_ge in E1. apply Nat.ltb_lt in E2. lia. }
      destruct (c_reg (send_all maxq n f p n)).
      * rewrite upd_other by exact Hne. exact Hother.
      * exact Hother.
Qed.

Lemma sweep_spec : forall n f sent c,
  fst (sweep fixed n f sent) c =
  if (c <? n)%nat && c_reg (f c) then close_cons fixed (set_reg (f c) false sent) else f c.
Proof.
  induction n as [|n IH]; intros f sent c; simpl.
  - reflexivity.
  - destruct (sweep fixed n f sent) as [f' d] eqn:Hsw.
    assert (IH' : forall c, f' c = if (c <? n)%nat && c_reg (f c) then close_cons fixed (set_reg (f c) false sent) else f c).
    { intros c0. specialize (IH f sent c0). rewrite Hsw in IH. exact IH. }
    destruct (Nat.eq_dec n c) as [->|Hne].
    + rewrite (IH' c). replace (c <? c)%nat with false by (symmetry; apply Nat.ltb_irrefl).
      replace (c <? S c)%nat with true by (symmetry; apply Nat.ltb_lt; lia). simpl.
      destruct (c_reg (f c)) eqn:Hreg; simpl.
      * rewrite upd_same. reflexivity.
      * rewrite IH'. replace (c <? c)%nat with false by (symmetry; apply Nat.ltb_irrefl). reflexivity.
    + assert (Hother : f' c = if (c <? S n)%nat && c_reg (f c) then close_cons fixed (set_reg (f c) false sent) else f c).
      { rewrite IH'. destruct (c <? n)%nat eqn:E1; destruct (c <? S n)%nat eqn:E2; try reflexivity.
        - apply Nat.ltb_lt in E1. apply Nat.ltb_ge in E2. lia.
        - apply Nat.ltb_ge in E1. apply Nat.ltb_lt in E2. lia. }
      destruct (c_reg (f' n)); simpl.
      * rewrite upd_other by exact Hne. exact Hother.
      * exact Hother.
Qed.

Lemma NoDup_snoc : forall A (l : list A) x, NoDup l -> ~ In x l -> NoDup (l ++ [x]).
Proof.
  intros A l x Hnd Hnin. induction Hnd as [|y l Hy Hnd IH]; simpl.
  - constructor; [intros []|constructor].
  - constructor.
    + intro Hin. apply in_app_or in Hin. destruct Hin as [Hin|[Hin|[]]].
      * contradiction.
      * subst. apply Hnin. left. reflexivity.
    + apply IH. intro Hin. apply Hnin. right. exact Hin.
Qed.

Lemma not_started : forall k, started k = false -> infl (c_pc k) = [] /\ isdone k = false.
Proof. intros k. unfold started, isdone. destruct (c_pc k); try discriminate. auto. Qed.

(* ------------------------------------------------------------------ *)
(* the state invariant                                                 *)
(* ------------------------------------------------------------------ *)
Section Fanout.
Variable maxq : nat.
Variable cache_t : Type.
Variable cache_empty : cache_t.
Variable cache_add : cache_t -> pkt -> cache_t.
Variable cache_snap : cache_t -> list pkt.
Variable ncons : nat.
Variable panic_at : nat -> nat.

Local Notation state := (st cache_t).
Local Notation Step := (step fixed maxq cache_t cache_empty cache_add cache_snap ncons panic_at).
Local Notation Run := (run fixed maxq cache_t cache_empty cache_add cache_snap ncons panic_at).
Local Notation Init := (init cache_t cache_empty).
Local Notation AfterAcq := (after_acquire cache_t cache_add cache_snap).
Local Notation Acquire := (acquire fixed cache_t cache_add cache_snap).
Local Notation Release := (release fixed cache_t cache_add cache_snap).

Record Inv (pkts : list pkt) (s : state) : Prop := {
  i_nodup : NoDup (s_lockq s);
  i_qpub : In HPub (s_lockq s) -> s_pp s = P1W;
  i_qatt : forall c, In (HAtt c) (s_lockq s) -> s_att s c = A0W;
  i_p1w : s_pp s = P1W -> s_todo s <> [];
  i_out : s_pp s <> P2 -> s_cached s = s_sent s;
  i_in : s_pp s = P2 -> exists p rest, s_todo s = p :: rest /\ s_cached s = s_sent s ++ [p];
  i_pre : exists dropped, pkts = s_sent s ++ dropped ++ s_todo s /\
                          (dropped = [] \/ (s_ok s = false /\ s_pp s = P0));
  i_range : forall c, ncons <= c -> s_att s c = A0;
  i_early : forall c, s_att s c = A0 \/ s_att s c = A0W -> s_cs s c = cons0;
  i_a1 : forall c, s_att s c = A1 -> exists pre, s_cs s c = fresh pre;
  i_s1 : forall c, s_stp s c = S1 -> s_att s c = A2 \/ s_att s c = ADone;
  i_started : forall c, started (s_cs s c) = true -> s_att s c = ADone;
  i_ki : forall c, KI (s_sent s) (s_cs s c)
}.

Lemma reg_att : forall pkts s c, Inv pkts s -> c_reg (s_cs s c) = true ->
  s_att s c = A2 \/ s_att s c = ADone.
Proof.
  intros pkts s c HI Hreg. destruct (s_att s c) eqn:Ha; auto.
  - rewrite (i_early _ _ HI c) in Hreg by auto. discriminate.
  - rewrite (i_early _ _ HI c) in Hreg by auto. discriminate.
  - destruct (i_a1 _ _ HI c Ha) as [pre Hpre]. rewrite Hpre in Hreg. discriminate.
Qed.

Lemma reg_range : forall pkts s c, Inv pkts s -> c_reg (s_cs s c) = true -> c < ncons.
Proof.
  intros pkts s c HI Hreg. destruct (le_lt_dec ncons c) as [Hle|Hlt]; [|exact Hlt].
  pose proof (i_range _ _ HI c Hle) as Ha. destruct (reg_att _ _ _ HI Hreg); congruence.
Qed.

(* a step that leaves the lock queue, the publisher and the logs alone and modifies consumers
   that are past their snapshot *)
Lemma inv_cs : forall pkts (s s' : state),
  Inv pkts s ->
  s_lockq s' = s_lockq s -> s_pp s' = s_pp s -> s_todo s' = s_todo s -> s_sent s' = s_sent s ->
  s_cached s' = s_cached s ->
  (s_ok s' = s_ok s \/ s_ok s' = false) ->
  (forall c, s_att s' c = s_att s c \/ (s_att s c = A2 /\ s_att s' c = ADone) \/
             (s_att s c = A1 /\ s_att s' c = A2)) ->
  (forall c, s_stp s' c = S1 -> s_stp s c = S1 \/ c_reg (s_cs s c) = true) ->
  (forall c, s_cs s' c = s_cs s c \/
             ((s_att s c = A1 \/ s_att s c = A2 \/ s_att s c = ADone) /\
              KI (s_sent s) (s_cs s' c) /\
              (started (s_cs s' c) = true -> s_att s' c = ADone) /\
              (s_att s' c = A1 -> exists pre, s_cs s' c = fresh pre))) ->
  Inv pkts s'.
Proof.
  intros pkts s s' HI Hlq Hpp Htodo Hsent Hcached Hok Hatt Hstp Hcs.
  constructor.
  - rewrite Hlq. apply (i_nodup _ _ HI).
  - rewrite Hlq, Hpp. apply (i_qpub _ _ HI).
  - intros c Hin. rewrite Hlq in Hin. pose proof (i_qatt _ _ HI c Hin) as Ha.
    destruct (Hatt c) as [E|[[E _]|[E _]]]; congruence.
  - rewrite Hpp, Htodo. apply (i_p1w _ _ HI).
  - rewrite Hpp, Hcached, Hsent. apply (i_out _ _ HI).
  - rewrite Hpp, Hcached, Hsent, Htodo. apply (i_in _ _ HI).
  - destruct (i_pre _ _ HI) as [dropped [Hp Hd]]. exists dropped. rewrite Hsent, Htodo, Hpp.
    split; [exact Hp|]. destruct Hd as [Hd|[Hd1 Hd2]]; [left; exact Hd|right].
    split; [|exact Hd2]. destruct Hok; congruence.
  - intros c Hc. pose proof (i_range _ _ HI c Hc) as Ha.
    destruct (Hatt c) as [E|[[E _]|[E _]]]; congruence.
  - intros c Ha.
    assert (Ha' : s_att s c = A0 \/ s_att s c = A0W).
    { destruct (Hatt c) as [E|[[_ E]|[_ E]]];
      [rewrite <- E; exact Ha | destruct Ha; congruence | destruct Ha; congruence]. }
    destruct (Hcs c) as [E|[[E|[E|E]] _]].
    + rewrite E. apply (i_early _ _ HI c Ha').
    + destruct Ha'; congruence.
    + destruct Ha'; congruence.
    + destruct Ha'; congruence.
  - intros c Ha.
    destruct (Hcs c) as [E|[_ [_ [_ E]]]]; [|exact (E Ha)].
    rewrite E. apply (i_a1 _ _ HI c).
    destruct (Hatt c) as [E'|[[_ E']|[_ E']]]; congruence.
  - intros c Hs.
    assert (Ha : s_att s c = A2 \/ s_att s c = ADone).
    { destruct (Hstp c Hs) as [E|E]; [apply (i_s1 _ _ HI c E) | eapply reg_att; eassumption]. }
    destruct (Hatt c) as [E|[[_ E]|[E _]]].
    + rewrite E. exact Ha.
    + right. exact E.
    + destruct Ha; congruence.
  - intros c Hst.
    destruct (Hcs c) as [E|[_ [_ [E _]]]]; [|exact (E Hst)].
    rewrite E in Hst. pose proof (i_started _ _ HI c Hst) as Ha.
    destruct (Hatt c) as [E'|[[E' _]|[E' _]]]; congruence.
  - intros c. rewrite Hsent.
    destruct (Hcs c) as [E|[_ [E _]]]; [|exact E].
    rewrite E. apply (i_ki _ _ HI c).
Qed.

(* ---- the join mutex ---- *)
Lemma after_acquire_pub_inv : forall pkts s lq,
  Inv pkts s -> NoDup lq -> (forall h, In h lq -> In h (s_lockq s)) -> ~ In HPub lq ->
  s_pp s = P1 \/ s_pp s = P1W -> s_todo s <> [] ->
  Inv pkts (AfterAcq s HPub lq).
Proof.
  intros pkts s lq HI Hnd Hincl Hnin Hpp Htodo.
  unfold after_acquire. destruct (s_todo s) as [|p rest] eqn:Ht; [contradiction|].
  assert (Hnp2 : s_pp s <> P2) by (destruct Hpp; congruence).
  constructor; simpl.
  - exact Hnd.
  - intros Hin. contradiction.
  - intros c Hin. apply (i_qatt _ _ HI c). apply Hincl. exact Hin.
  - discriminate.
  - congruence.
  - intros _. exists p, rest. split; [exact Ht|]. rewrite (i_out _ _ HI Hnp2). reflexivity.
  - destruct (i_pre _ _ HI) as [dropped [Hp Hd]]. exists dropped. split; [exact Hp|].
    left. destruct Hd as [Hd|[_ Hd]]; [exact Hd | destruct Hpp; congruence].
  - apply (i_range _ _ HI).
  - apply (i_early _ _ HI).
  - apply (i_a1 _ _ HI).
  - apply (i_s1 _ _ HI).
  - apply (i_started _ _ HI).
  - apply (i_ki _ _ HI).
Qed.

Lemma after_acquire_att_inv : forall pkts s c lq,
  Inv pkts s -> NoDup lq -> (forall h, In h lq -> In h (s_lockq s)) -> ~ In (HAtt c) lq ->
  s_att s c = A0 \/ s_att s c = A0W -> c < ncons ->
  Inv pkts (AfterAcq s (HAtt c) lq).
Proof.
  intros pkts s c lq HI Hnd Hincl Hnin Ha Hc.
  pose proof (i_early _ _ HI c Ha) as Hk0.
  unfold after_acquire. rewrite Hk0. simpl.
  change {| c_reg := false; c_closed := false; c_q := map Some (cache_snap (s_cache s)); c_pc := CNone;
            c_out := []; c_disc := false; c_closes := 0; c_pushed := cache_snap (s_cache s);
            c_prefill := cache_snap (s_cache s); c_regat := None; c_unregat := None; c_keep := [] |}
    with (fresh (cache_snap (s_cache s))).
  constructor; simpl.
  - exact Hnd.
  - intros Hin. apply (i_qpub _ _ HI). apply Hincl. exact Hin.
  - intros c' Hin. destruct (Nat.eq_dec c c') as [<-|Hne]; [contradiction|].
    rewrite upd_other by exact Hne. apply (i_qatt _ _ HI c'). apply Hincl. exact Hin.
  - apply (i_p1w _ _ HI).
  - apply (i_out _ _ HI).
  - apply (i_in _ _ HI).
  - apply (i_pre _ _ HI).
  - intros c' Hc'. rewrite upd_other by lia. apply (i_range _ _ HI c' Hc').
  - intros c'. destruct (Nat.eq_dec c c') as [<-|Hne].
    + rewrite upd_same. intros [E|E]; discriminate.
    + rewrite !upd_other by exact Hne. apply (i_early _ _ HI c').
  - intros c'. destruct (Nat.eq_dec c c') as [<-|Hne].
    + rewrite !upd_same. intros _. eexists. reflexivity.
    + rewrite !upd_other by exact Hne. apply (i_a1 _ _ HI c').
  - intros c' Hs. pose proof (i_s1 _ _ HI c' Hs) as Ha'.
    destruct (Nat.eq_dec c c') as [<-|Hne].
    + destruct Ha, Ha'; congruence.
    + rewrite upd_other by exact Hne. exact Ha'.
  - intros c'. destruct (Nat.eq_dec c c') as [<-|Hne].
    + rewrite !upd_same. discriminate.
    + rewrite !upd_other by exact Hne. apply (i_started _ _ HI c').
  - intros c'. destruct (Nat.eq_dec c c') as [<-|Hne].
    + rewrite upd_same. apply KI_fresh.
    + rewrite upd_other by exact Hne. apply (i_ki _ _ HI c').
Qed.

Lemma release_inv : forall pkts s, Inv pkts s -> Inv pkts (Release s).
Proof.
  intros pkts s HI. unfold release. simpl (v_lock fixed). cbv iota.
  destruct (s_lockq s) as [|h rest] eqn:Hq.
  - eapply inv_cs; try eassumption; try reflexivity; simpl; auto.
  - pose proof (i_nodup _ _ HI) as Hnd. rewrite Hq in Hnd. inversion Hnd as [|? ? Hnin Hnd']; subst.
    destruct h as [|c].
    + apply after_acquire_pub_inv; try assumption.
      * intros h Hin. rewrite Hq. right. exact Hin.
      * right. apply (i_qpub _ _ HI). rewrite Hq. left. reflexivity.
      * apply (i_p1w _ _ HI). apply (i_qpub _ _ HI). rewrite Hq. left. reflexivity.
    + assert (Ha : s_att s c = A0W) by (apply (i_qatt _ _ HI c); rewrite Hq; left; reflexivity).
      apply after_acquire_att_inv; try assumption.
      * intros h Hin. rewrite Hq. right. exact Hin.
      * right. exact Ha.
      * destruct (le_lt_dec ncons c) as [Hle|Hlt]; [|exact Hlt].
        pose proof (i_range _ _ HI c Hle). congruence.
Qed.

Lemma acquire_pub_inv : forall pkts s, Inv pkts s -> s_pp s = P1 -> s_todo s <> [] ->
  Inv pkts (Acquire s HPub).
Proof.
  intros pkts s HI Hpp Htodo. unfold acquire. simpl (v_lock fixed). cbv iota.
  assert (Hnin : ~ In HPub (s_lockq s)).
  { intro Hin. pose proof (i_qpub _ _ HI Hin). congruence. }
  destruct (s_lock s).
  - constructor; simpl.
    + apply NoDup_snoc; [apply (i_nodup _ _ HI) | exact Hnin].
    + reflexivity.
    + intros c Hin. apply in_app_or in Hin. destruct Hin as [Hin|[Hin|[]]]; [|discriminate].
      apply (i_qatt _ _ HI c Hin).
    + intros _. exact Htodo.
    + intros _. apply (i_out _ _ HI). congruence.
    + discriminate.
    + destruct (i_pre _ _ HI) as [dropped [Hp Hd]]. exists dropped. split; [exact Hp|].
      left. destruct Hd as [Hd|[_ Hd]]; [exact Hd | congruence].
    + apply (i_range _ _ HI).
    + apply (i_early _ _ HI).
    + apply (i_a1 _ _ HI).
    + apply (i_s1 _ _ HI).
    + apply (i_started _ _ HI).
    + apply (i_ki _ _ HI).
  - apply after_acquire_pub_inv; auto. apply (i_nodup _ _ HI).
Qed.

Lemma acquire_att_inv : forall pkts s c, Inv pkts s -> s_att s c = A0 -> c < ncons ->
  Inv pkts (Acquire s (HAtt c)).
Proof.
  intros pkts s c HI Ha Hc. unfold acquire. simpl (v_lock fixed). cbv iota.
  assert (Hnin : ~ In (HAtt c) (s_lockq s)).
  { intro Hin. pose proof (i_qatt _ _ HI c Hin). congruence. }
  destruct (s_lock s).
  - constructor; simpl.
    + apply NoDup_snoc; [apply (i_nodup _ _ HI) | exact Hnin].
    + intros Hin. apply in_app_or in Hin. destruct Hin as [Hin|[Hin|[]]]; [|discriminate].
      apply (i_qpub _ _ HI Hin).
    + intros c' Hin. apply in_app_or in Hin. destruct Hin as [Hin|[Hin|[]]].
      * destruct (Nat.eq_dec c c') as [<-|Hne]; [contradiction|].
        rewrite upd_other by exact Hne. apply (i_qatt _ _ HI c' Hin).
      * injection Hin as <-. apply upd_same.
    + apply (i_p1w _ _ HI).
    + apply (i_out _ _ HI).
    + apply (i_in _ _ HI).
    + apply (i_pre _ _ HI).
    + intros c' Hc'. rewrite upd_other by lia. apply (i_range _ _ HI c' Hc').
    + intros c'. destruct (Nat.eq_dec c c') as [<-|Hne].
      * intros _. apply (i_early _ _ HI c). left. exact Ha.
      * rewrite upd_other by exact Hne. apply (i_early _ _ HI c').
    + intros c'. destruct (Nat.eq_dec c c') as [<-|Hne].
      * rewrite upd_same. discriminate.
      * rewrite upd_other by exact Hne. apply (i_a1 _ _ HI c').
    + intros c' Hs. pose proof (i_s1 _ _ HI c' Hs) as Ha'.
      destruct (Nat.eq_dec c c') as [<-|Hne].
      * destruct Ha'; congruence.
      * rewrite upd_other by exact Hne. exact Ha'.
    + intros c' Hst. pose proof (i_started _ _ HI c' Hst) as Ha'.
      destruct (Nat.eq_dec c c') as [<-|Hne].
      * congruence.
      * rewrite upd_other by exact Hne. exact Ha'.
    + apply (i_ki _ _ HI).
  - apply after_acquire_att_inv; auto. apply (i_nodup _ _ HI).
Qed.

(* ---- publisher ---- *)
(* the publisher's broadcast, before it leaves the join mutex *)
Definition pub_sent (s : state) (p : pkt) (rest : list pkt) : state :=
  {| s_ok := s_ok s; s_lock := s_lock s; s_lockq := s_lockq s; s_cache := s_cache s;
     s_sent := s_sent s ++ [p]; s_cached := s_cached s; s_todo := rest; s_pp := P0;
     s_count := s_count s; s_cs := send_all maxq ncons (s_cs s) p; s_att := s_att s;
     s_stp := s_stp s; s_kp := s_kp s |}.

Lemma pub_send_inv : forall pkts s p rest, Inv pkts s -> s_pp s = P2 -> s_todo s = p :: rest ->
  Inv pkts (pub_sent s p rest).
Proof.
  intros pkts s p rest HI Hpp Ht. unfold pub_sent.
  destruct (i_in _ _ HI Hpp) as [p' [rest' [Ht' Hc]]].
  rewrite Ht in Ht'. injection Ht' as <- <-.
  constructor; simpl.
  + apply (i_nodup _ _ HI).
  + intros Hin. pose proof (i_qpub _ _ HI Hin). congruence.
  + apply (i_qatt _ _ HI).
  + discriminate.
  + intros _. exact Hc.
  + discriminate.
  + destruct (i_pre _ _ HI) as [dropped [Hp Hd]]. exists []. split; [|left; reflexivity].
    destruct Hd as [Hd|[_ Hd]]; [|congruence]. subst dropped.
    rewrite Hp, Ht, <- app_assoc. reflexivity.
  + apply (i_range _ _ HI).
  + intros c Ha. rewrite send_all_spec. rewrite (i_early _ _ HI c Ha). simpl.
    rewrite andb_false_r. reflexivity.
  + intros c Ha. destruct (i_a1 _ _ HI c Ha) as [pre Hpre]. exists pre.
    rewrite send_all_spec, Hpre. simpl. rewrite andb_false_r. reflexivity.
  + apply (i_s1 _ _ HI).
  + intros c. rewrite send_all_spec.
    destruct ((c <? ncons) && c_reg (s_cs s c)); [rewrite send_started|]; apply (i_started _ _ HI c).
  + intros c. rewrite send_all_spec.
    destruct (c_reg (s_cs s c)) eqn:Hreg.
    * pose proof (reg_range _ _ _ HI Hreg) as Hc'. apply Nat.ltb_lt in Hc'. rewrite Hc'. simpl.
      apply KI_send; [apply (i_ki _ _ HI c) | exact Hreg].
    * rewrite andb_false_r. apply KI_skip; [apply (i_ki _ _ HI c) | exact Hreg].
Qed.

Lemma step_pub_inv : forall pkts s s', Inv pkts s ->
  step_pub fixed maxq cache_t cache_add cache_snap ncons s = Some s' -> Inv pkts s'.
Proof.
  intros pkts s s' HI Hstep. unfold step_pub in Hstep.
  destruct (s_pp s) eqn:Hpp; destruct (s_todo s) as [|p rest] eqn:Ht; try discriminate.
  - (* P0 *)
    destruct (s_ok s) eqn:Hok; injection Hstep as <-.
    + constructor; simpl.
      * apply (i_nodup _ _ HI).
      * intros Hin. pose proof (i_qpub _ _ HI Hin). congruence.
      * apply (i_qatt _ _ HI).
      * discriminate.
      * intros _. apply (i_out _ _ HI). congruence.
      * discriminate.
      * destruct (i_pre _ _ HI) as [dropped [Hp Hd]]. exists dropped. split; [congruence|].
        left. destruct Hd as [Hd|[Hd _]]; [exact Hd | congruence].
      * apply (i_range _ _ HI).
      * apply (i_early _ _ HI).
      * apply (i_a1 _ _ HI).
      * apply (i_s1 _ _ HI).
      * apply (i_started _ _ HI).
      * apply (i_ki _ _ HI).
    + constructor; simpl.
      * apply (i_nodup _ _ HI).
      * intros Hin. pose proof (i_qpub _ _ HI Hin). congruence.
      * apply (i_qatt _ _ HI).
      * discriminate.
      * intros _. apply (i_out _ _ HI). congruence.
      * discriminate.
      * destruct (i_pre _ _ HI) as [dropped [Hp _]]. exists (dropped ++ [p]). split.
        -- rewrite Hp, Ht, <- !app_assoc. reflexivity.
        -- right. split; reflexivity.
      * apply (i_range _ _ HI).
      * apply (i_early _ _ HI).
      * apply (i_a1 _ _ HI).
      * apply (i_s1 _ _ HI).
      * apply (i_started _ _ HI).
      * apply (i_ki _ _ HI).
  - (* P1 *)
    injection Hstep as <-. apply acquire_pub_inv; [exact HI | exact Hpp | congruence].
  - (* P2 *)
    injection Hstep as <-. apply release_inv.
    apply (pub_send_inv pkts s p rest HI Hpp Ht).
Qed.

(* ---- attacher ---- *)
(* the attacher registered, before it leaves the join mutex *)
Definition att_reg (s : state) (c : nat) : state :=
  set_att cache_t s c A2 (s_count s + 1)%Z
          (upd (s_cs s) c (set_reg (s_cs s c) true (length (s_sent s)))).

Lemma att_reg_inv : forall pkts s c, Inv pkts s -> s_att s c = A1 -> Inv pkts (att_reg s c).
Proof.
  intros pkts s c HI Ha. unfold att_reg.
  destruct (i_a1 _ _ HI c Ha) as [pre Hpre]. rewrite Hpre.
  eapply inv_cs; try exact HI; try reflexivity; simpl.
  + left; reflexivity.
  + intros c'. destruct (Nat.eq_dec c c') as [<-|Hne].
    * rewrite upd_same. right. right. auto.
    * rewrite upd_other by exact Hne. left. reflexivity.
  + intros c' Hs. left. exact Hs.
  + intros c'. destruct (Nat.eq_dec c c') as [<-|Hne].
    * rewrite !upd_same. right. split; [left; exact Ha|]. split; [apply KI_reg_fresh|].
      split; discriminate.
    * rewrite upd_other by exact Hne. left. reflexivity.
Qed.

Lemma step_att_inv : forall pkts s c s', Inv pkts s -> c < ncons ->
  step_att fixed cache_t cache_add cache_snap s c = Some s' -> Inv pkts s'.
Proof.
  intros pkts s c s' HI Hc Hstep. unfold step_att in Hstep.
  destruct (s_att s c) eqn:Ha; try discriminate.
  - (* A0 *) injection Hstep as <-. apply acquire_att_inv; assumption.
  - (* A1: register, unlock *)
    injection Hstep as <-. apply release_inv. apply (att_reg_inv pkts s c HI Ha).
  - (* A2: re-check, start the goroutine *)
    assert (Hns : started (s_cs s c) = false).
    { destruct (started (s_cs s c)) eqn:E; [|reflexivity].
      pose proof (i_started _ _ HI c E). congruence. }
    set (k := s_cs s c) in *. set (n := length (s_sent s)) in *.
    assert (Hk1 : forall k1, KI (s_sent s) k1 -> started k1 = false ->
                  KI (s_sent s) (loop_test fixed k1 n)).
    { intros k1 HK Hn. apply KI_loop_test. destruct (not_started _ Hn). apply KI_idle; assumption. }
    assert (Hfin : forall cnt k1, KI (s_sent s) k1 -> started k1 = false ->
              Inv pkts (set_att cache_t s c ADone cnt (upd (s_cs s) c (loop_test fixed k1 n)))).
    { intros cnt k1 HK Hn.
      eapply inv_cs; try exact HI; try reflexivity; simpl.
      - left; reflexivity.
      - intros c'. destruct (Nat.eq_dec c c') as [<-|Hne].
        + rewrite upd_same. right. left. auto.
        + rewrite upd_other by exact Hne. left. reflexivity.
      - intros c' Hs. left. exact Hs.
      - intros c'. destruct (Nat.eq_dec c c') as [<-|Hne].
        + rewrite !upd_same. right. split; [right; left; exact Ha|]. split; [apply Hk1; assumption|].
          split; [reflexivity | discriminate].
        + rewrite upd_other by exact Hne. left. reflexivity. }
    simpl (v_recheck fixed) in Hstep. cbv beta iota in Hstep.
    destruct (true && negb (s_ok s) && c_reg k) eqn:Hcond; injection Hstep as <-.
    + apply andb_true_iff in Hcond. destruct Hcond as [_ Hreg].
      apply Hfin.
      * apply KI_close. apply KI_unreg; [apply (i_ki _ _ HI c) | exact Hreg].
      * rewrite close_started. exact Hns.
    + apply Hfin; [apply (i_ki _ _ HI c) | exact Hns].
Qed.

(* ---- stopper ---- *)
Lemma step_stop_inv : forall pkts s c s', Inv pkts s ->
  step_stop fixed cache_t s c = Some s' -> Inv pkts s'.
Proof.
  intros pkts s c s' HI Hstep. unfold step_stop in Hstep.
  destruct (s_stp s c) eqn:Hs; try discriminate.
  - destruct (c_reg (s_cs s c)) eqn:Hreg; injection Hstep as <-.
    + simpl (v_atomic fixed). cbv iota.
      eapply inv_cs; try exact HI; try reflexivity; simpl.
      * left; reflexivity.
      * intros c'. left. reflexivity.
      * intros c'. destruct (Nat.eq_dec c c') as [<-|Hne].
        -- intros _. right. exact Hreg.
        -- rewrite upd_other by exact Hne. auto.
      * intros c'. destruct (Nat.eq_dec c c') as [<-|Hne].
        -- rewrite !upd_same. right. split; [right; eapply reg_att; eassumption|].
           split; [apply KI_unreg; [apply (i_ki _ _ HI c) | exact Hreg]|].
           split; [apply (i_started _ _ HI c)|].
           intros Ha. destruct (reg_att _ _ _ HI Hreg); congruence.
        -- rewrite upd_other by exact Hne. left. reflexivity.
    + eapply inv_cs; try exact HI; try reflexivity; simpl.
      * left; reflexivity.
      * intros c'. left. reflexivity.
      * intros c'. destruct (Nat.eq_dec c c') as [<-|Hne].
        -- rewrite upd_same. discriminate.
        -- rewrite upd_other by exact Hne. auto.
      * intros c'. left. reflexivity.
  - injection Hstep as <-. simpl (v_atomic fixed). cbv iota.
    pose proof (i_s1 _ _ HI c Hs) as Ha.
    eapply inv_cs; try exact HI; try reflexivity; simpl.
    + left; reflexivity.
    + intros c'. left. reflexivity.
    + intros c'. destruct (Nat.eq_dec c c') as [<-|Hne].
      * rewrite upd_same. discriminate.
      * rewrite upd_other by exact Hne. auto.
    + intros c'. destruct (Nat.eq_dec c c') as [<-|Hne].
      * rewrite !upd_same. right. split; [right; exact Ha|].
        split; [apply KI_close; apply (i_ki _ _ HI c)|].
        split; [rewrite close_started; apply (i_started _ _ HI c)|].
        intros Ha'. destruct Ha; congruence.
      * rewrite upd_other by exact Hne. left. reflexivity.
Qed.

(* ---- consumer goroutine ---- *)
Lemma inv_set_cs : forall pkts s c k', Inv pkts s -> s_att s c = ADone -> KI (s_sent s) k' ->
  Inv pkts (set_cs cache_t s (upd (s_cs s) c k')).
Proof.
  intros pkts s c k' HI Ha HK.
  eapply inv_cs; try exact HI; try reflexivity; simpl.
  - left; reflexivity.
  - intros c'. left. reflexivity.
  - intros c' Hs. left. exact Hs.
  - intros c'. destruct (Nat.eq_dec c c') as [<-|Hne].
    + rewrite !upd_same. right. split; [right; right; exact Ha|]. split; [exact HK|].
      split; [intros _; exact Ha | congruence].
    + rewrite upd_other by exact Hne. left. reflexivity.
Qed.

Lemma step_cons_inv : forall pkts s c s', Inv pkts s ->
  step_cons fixed cache_t panic_at s c = Some s' -> Inv pkts s'.
Proof.
  intros pkts s c s' HI Hstep. unfold step_cons in Hstep.
  pose proof (i_ki _ _ HI c) as HK.
  assert (Hst : started (s_cs s c) = true -> s_att s c = ADone) by apply (i_started _ _ HI c).
  unfold started in Hst.
  destruct (c_pc (s_cs s c)) as [| |x| | |] eqn:Hpc; try discriminate.
  - (* CPop *)
    destruct (c_q (s_cs s c)) as [|x q'] eqn:Hq; injection Hstep as <-.
    + apply inv_set_cs; auto. apply KI_to_wait. apply KI_idle; [exact HK | rewrite Hpc; reflexivity |].
      unfold isdone. rewrite Hpc. reflexivity.
    + apply inv_set_cs; auto. apply KI_pop; assumption.
  - (* CGot *)
    destruct x as [p|].
    + pose proof (KI_deliver _ _ _ Hpc HK) as HK1.
      destruct (Nat.eqb (S (length (c_out (s_cs s c)))) (panic_at c)); injection Hstep as <-.
      * apply inv_set_cs; auto. apply KI_exit_path. exact HK1.
      * apply inv_set_cs; auto. apply KI_loop_test. exact HK1.
    + injection Hstep as <-. apply inv_set_cs; auto. apply KI_loop_test.
      apply KI_idle; [exact HK | rewrite Hpc; reflexivity |].
      unfold isdone. rewrite Hpc. reflexivity.
  - (* CExitLoaded *)
    injection Hstep as <-. simpl (v_atomic fixed). cbv iota.
    assert (Hreg : c_reg (s_cs s c) = false).
    { apply (ki_fin _ _ HK). unfold isfin. rewrite Hpc. reflexivity. }
    eapply inv_cs; try exact HI; try reflexivity; simpl.
    + left; reflexivity.
    + intros c'. left. reflexivity.
    + intros c'. destruct (Nat.eq_dec c c') as [<-|Hne].
      * rewrite upd_same. auto.
      * rewrite upd_other by exact Hne. auto.
    + intros c'. destruct (Nat.eq_dec c c') as [<-|Hne].
      * rewrite !upd_same. right. split; [right; right; auto|].
        split; [apply KI_finish; [apply KI_close; exact HK | rewrite close_reg; exact Hreg]|].
        split; [intros _; auto|].
        intros Ha. rewrite Hst in Ha by reflexivity. discriminate.
      * rewrite upd_other by exact Hne. left. reflexivity.
Qed.

(* ---- closer ---- *)
Lemma step_close_inv : forall pkts s s', Inv pkts s ->
  step_close fixed cache_t cache_empty ncons s = Some s' -> Inv pkts s'.
Proof.
  intros pkts s s' HI Hstep. unfold step_close in Hstep.
  destruct (s_kp s) eqn:Hkp; try discriminate.
  - injection Hstep as <-.
    eapply inv_cs; try exact HI; try reflexivity; simpl; auto.
  - pose proof (sweep_spec ncons (s_cs s) (length (s_sent s))) as Hsw.
    destruct (sweep fixed ncons (s_cs s) (length (s_sent s))) as [f d].
    simpl (v_atomic fixed) in Hstep. cbv iota in Hstep. injection Hstep as <-.
    simpl in Hsw.
    eapply inv_cs; try exact HI; try reflexivity; simpl; auto.
    intros c. rewrite Hsw.
    destruct ((c <? ncons) && c_reg (s_cs s c)) eqn:Hcond; [|left; reflexivity].
    apply andb_true_iff in Hcond. destruct Hcond as [_ Hreg].
    pose proof (reg_att _ _ _ HI Hreg) as Ha.
    right. split; [right; exact Ha|].
    split; [apply KI_close; apply KI_unreg; [apply (i_ki _ _ HI c) | exact Hreg]|].
    split; [rewrite close_started; apply (i_started _ _ HI c)|].
    intros Ha'. destruct Ha; congruence.
  - injection Hstep as <-.
    eapply inv_cs; try exact HI; try reflexivity; simpl; auto.
Qed.

Lemma step_inv : forall pkts s t s', Inv pkts s -> Step s t = Some s' -> Inv pkts s'.
Proof.
  intros pkts s t s' HI Hstep. destruct t as [| |c|c|c]; simpl in Hstep.
  - eapply step_pub_inv; eassumption.
  - eapply step_close_inv; eassumption.
  - destruct (c <? ncons) eqn:Hc; [|discriminate]. apply Nat.ltb_lt in Hc.
    eapply step_att_inv; eassumption.
  - destruct (c <? ncons) eqn:Hc; [|discriminate].
    destruct (s_att s c); try discriminate.
    eapply step_stop_inv; eassumption.
  - destruct (c <? ncons) eqn:Hc; [|discriminate].
    eapply step_cons_inv; eassumption.
Qed.

Lemma init_inv : forall pkts stoppers, Inv pkts (Init pkts stoppers).
Proof.
  intros pkts stoppers. constructor; simpl.
  - constructor.
  - intros [].
  - intros c [].
  - discriminate.
  - reflexivity.
  - discriminate.
  - exists []. auto.
  - reflexivity.
  - reflexivity.
  - discriminate.
  - intros c. destruct (stoppers c); discriminate.
  - discriminate.
  - intros c. apply KI_cons0.
Qed.

(* generic: an invariant of the steps holds after every schedule *)
Lemma inv_run : forall (P : state -> Prop),
  (forall s t s', P s -> Step s t = Some s' -> P s') ->
  forall sched s, P s -> P (Run sched s).
Proof.
  intros P Hstep. induction sched as [|t sched IH]; intros s Hs; simpl.
  - exact Hs.
  - apply IH. destruct (Step s t) as [s'|] eqn:E; [eapply Hstep; eassumption | exact Hs].
Qed.

Lemma reachable_inv : forall pkts stoppers sched, Inv pkts (Run sched (Init pkts stoppers)).
Proof.
  intros. apply inv_run; [apply step_inv | apply init_inv].
Qed.

(* ------------------------------------------------------------------ *)
(* C01 theorems                                                        *)
(* ------------------------------------------------------------------ *)

(* 1. what the consumer was handed is a prefix of what was queued for it *)
Theorem delivered_prefix_of_pushed : forall pkts stoppers sched c,
  let s := Run sched (Init pkts stoppers) in
  let k := s_cs s c in
  exists rest, c_pushed k = c_out k ++ rest.
Proof.
  intros pkts stoppers sched c s k.
  pose proof (reachable_inv pkts stoppers sched) as HI. fold s in HI.
  destruct (ki_q _ _ (i_ki _ _ HI c)) as [rest [Hq _]]. fold k in Hq.
  exists (pend k ++ rest). exact Hq.
Qed.

(* 2. queued = snapshot at attach ++ the packets broadcast while registered, filtered by the
   consumer's own keep/drop decisions *)
Theorem pushed_is_prefill_then_selected_live : forall pkts stoppers sched c,
  let s := Run sched (Init pkts stoppers) in
  let k := s_cs s c in
  c_pushed k = c_prefill k ++ select (c_keep k) (window (s_sent s) (c_regat k) (c_unregat k)) /\
  length (c_keep k) = length (window (s_sent s) (c_regat k) (c_unregat k)).
Proof.
  intros pkts stoppers sched c s k.
  pose proof (reachable_inv pkts stoppers sched) as HI. fold s in HI.
  split; [apply (ki_w _ _ (i_ki _ _ HI c)) | apply (ki_len _ _ (i_ki _ _ HI c))].
Qed.

(* 2d. the sent log is a prefix of the publisher's input *)
Theorem sent_prefix_of_published : forall pkts stoppers sched,
  let s := Run sched (Init pkts stoppers) in
  exists rest, pkts = s_sent s ++ rest.
Proof.
  intros pkts stoppers sched s.
  pose proof (reachable_inv pkts stoppers sched) as HI. fold s in HI.
  destruct (i_pre _ _ HI) as [dropped [Hp _]]. exists (dropped ++ s_todo s). exact Hp.
Qed.

Lemma live_out_prefix_of_selected : forall sent k, KI sent k ->
  exists tail, select (c_keep k) (window sent (c_regat k) (c_unregat k)) = live_out k ++ tail.
Proof.
  intros sent k HK. destruct (ki_q _ _ HK) as [rest [Hq _]]. pose proof (ki_w _ _ HK) as Hw.
  exists (skipn (length (c_prefill k) - length (c_out k)) (pend k ++ rest)).
  unfold live_out. rewrite <- skipn_app, <- Hq, Hw, skipn_app, skipn_all, Nat.sub_diag. reflexivity.
Qed.

(* 2a. order: the live part of the delivered stream is a subsequence of the packets broadcast
   while registered, hence of the sent log *)
Theorem live_out_subseq_window : forall pkts stoppers sched c,
  let s := Run sched (Init pkts stoppers) in
  let k := s_cs s c in
  subseq (live_out k) (window (s_sent s) (c_regat k) (c_unregat k)).
Proof.
  intros pkts stoppers sched c s k.
  pose proof (reachable_inv pkts stoppers sched) as HI. fold s in HI.
  destruct (live_out_prefix_of_selected _ _ (i_ki _ _ HI c)) as [tail Ht]. fold k in Ht.
  eapply subseq_trans; [|apply subseq_select]. rewrite Ht. apply subseq_app_l.
Qed.

Theorem live_out_subseq_sent : forall pkts stoppers sched c,
  let s := Run sched (Init pkts stoppers) in
  let k := s_cs s c in
  subseq (live_out k) (s_sent s).
Proof.
  intros pkts stoppers sched c s k.
  eapply subseq_trans; [apply live_out_subseq_window | apply subseq_window].
Qed.

(* unmodified: every packet delivered from live broadcast is one of the publisher's packets *)
Theorem live_out_unmodified : forall pkts stoppers sched c x,
  let s := Run sched (Init pkts stoppers) in
  In x (live_out (s_cs s c)) -> In x pkts.
Proof.
  intros pkts stoppers sched c x s Hin.
  destruct (sent_prefix_of_published pkts stoppers sched) as [rest Hp]. fold s in Hp.
  rewrite Hp. apply in_or_app. left.
  eapply subseq_In; [apply live_out_subseq_sent | exact Hin].
Qed.

(* 2b. at most once *)
Theorem live_out_at_most_once : forall pkts stoppers sched c,
  let s := Run sched (Init pkts stoppers) in
  let k := s_cs s c in
  NoDup (map p_id pkts) -> NoDup (map p_id (live_out k)).
Proof.
  intros pkts stoppers sched c s k Hnd.
  destruct (sent_prefix_of_published pkts stoppers sched) as [rest Hp]. fold s in Hp.
  eapply subseq_NoDup; [|exact Hnd]. apply subseq_map.
  eapply subseq_trans; [apply live_out_subseq_sent|]. fold s. rewrite Hp. apply subseq_app_l.
Qed.

(* 2c. completeness: nothing dropped for backlog => everything broadcast while registered was queued *)
Theorem complete_when_nothing_dropped : forall pkts stoppers sched c,
  let s := Run sched (Init pkts stoppers) in
  let k := s_cs s c in
  forallb (fun b => b) (c_keep k) = true ->
  live_pushed k = window (s_sent s) (c_regat k) (c_unregat k) /\
  c_pushed k = c_prefill k ++ window (s_sent s) (c_regat k) (c_unregat k).
Proof.
  intros pkts stoppers sched c s k Hall.
  destruct (pushed_is_prefill_then_selected_live pkts stoppers sched c) as [Hw Hlen].
  fold s in Hw, Hlen. fold k in Hw, Hlen.
  rewrite (select_all_true _ _ _ Hlen Hall) in Hw.
  split; [|exact Hw].
  unfold live_pushed. rewrite Hw, skipn_app, skipn_all, Nat.sub_diag. reflexivity.
Qed.

(* 4. lock discipline: outside the publisher's critical section cached = sent *)
Theorem sent_equals_cached_outside_section : forall pkts stoppers sched,
  let s := Run sched (Init pkts stoppers) in
  (s_pp s <> P2 -> s_cached s = s_sent s) /\
  (s_pp s = P2 -> exists p rest, s_todo s = p :: rest /\ s_cached s = s_sent s ++ [p]).
Proof.
  intros pkts stoppers sched s.
  pose proof (reachable_inv pkts stoppers sched) as HI. fold s in HI.
  split; [apply (i_out _ _ HI) | apply (i_in _ _ HI)].
Qed.

(* ---- 3. non-interference ---- *)
Lemma stop_other : forall (s : state) c' c s', c' <> c ->
  step_stop fixed cache_t s c' = Some s' -> s_cs s' c = s_cs s c.
Proof.
  intros s c' c s' Hne Hstep. unfold step_stop in Hstep.
  destruct (s_stp s c'); try discriminate.
  - destruct (c_reg (s_cs s c')); injection Hstep as <-; simpl; [apply upd_other; exact Hne | reflexivity].
  - injection Hstep as <-. simpl. apply upd_other. exact Hne.
Qed.

Lemma cons_other : forall (s : state) c' c s', c' <> c ->
  step_cons fixed cache_t panic_at s c' = Some s' -> s_cs s' c = s_cs s c.
Proof.
  intros s c' c s' Hne Hstep. unfold step_cons in Hstep.
  destruct (c_pc (s_cs s c')) as [| |x| | |]; try discriminate.
  - destruct (c_q (s_cs s c')); injection Hstep as <-; simpl; apply upd_other; exact Hne.
  - destruct x.
    + destruct (Nat.eqb _ _); injection Hstep as <-; simpl; apply upd_other; exact Hne.
    + injection Hstep as <-; simpl; apply upd_other; exact Hne.
  - injection Hstep as <-; simpl; apply upd_other; exact Hne.
Qed.

Lemma cs_after_acquire : forall (s : state) h lq c, h <> HAtt c -> s_cs (AfterAcq s h lq) c = s_cs s c.
Proof.
  intros s h lq c Hne. unfold after_acquire. destruct h as [|c'].
  - destruct (s_todo s); reflexivity.
  - simpl. apply upd_other. congruence.
Qed.

Lemma cs_acquire : forall (s : state) h c, h <> HAtt c -> s_cs (Acquire s h) c = s_cs s c.
Proof.
  intros s h c Hne. unfold acquire. simpl (v_lock fixed). cbv iota.
  destruct (s_lock s).
  - destruct h; reflexivity.
  - apply cs_after_acquire. exact Hne.
Qed.

Lemma cs_release : forall (s : state) c, hd_error (s_lockq s) <> Some (HAtt c) ->
  s_cs (Release s) c = s_cs s c.
Proof.
  intros s c Hhd. unfold release. simpl (v_lock fixed). cbv iota.
  destruct (s_lockq s) as [|h rest]; [reflexivity|].
  apply cs_after_acquire. simpl in Hhd. congruence.
Qed.

Lemma att_other : forall (s : state) c' c s', c' <> c -> hd_error (s_lockq s) <> Some (HAtt c) ->
  step_att fixed cache_t cache_add cache_snap s c' = Some s' -> s_cs s' c = s_cs s c.
Proof.
  intros s c' c s' Hne Hhd Hstep. unfold step_att in Hstep.
  destruct (s_att s c'); try discriminate.
  - injection Hstep as <-. apply cs_acquire. congruence.
  - injection Hstep as <-. rewrite cs_release by exact Hhd. simpl. apply upd_other. exact Hne.
  - destruct (v_recheck fixed && negb (s_ok s) && c_reg (s_cs s c')); injection Hstep as <-;
      simpl; apply upd_other; exact Hne.
Qed.

(* Steps of another consumer's stopper and goroutine never touch consumer c (any state). *)
Theorem noninterference_stop_cons : forall (s : state) c c' s',
  c' <> c -> (Step s (TStop c') = Some s' \/ Step s (TCons c') = Some s') -> s_cs s' c = s_cs s c.
Proof.
  intros s c c' s' Hne [Hstep|Hstep]; simpl in Hstep; destruct (c' <? ncons); try discriminate.
  - destruct (s_att s c'); try discriminate. eapply stop_other; eassumption.
  - eapply cons_other; eassumption.
Qed.

(* The full statement "TAtt c' leaves s_cs s c unchanged" is FALSE in the model: when the attacher
   c' leaves the join mutex and c is the first goroutine blocked in joinLock.Lock(), the hand-over
   of the mutex runs c's own snapshot in the same atomic step (see [noninterference_handoff_witness]).
   Strongest true variant: unchanged unless c itself is blocked in Lock() … *)
Theorem noninterference_partial : forall pkts stoppers sched c c' s',
  let s := Run sched (Init pkts stoppers) in
  c' <> c -> s_att s c <> A0W ->
  (Step s (TAtt c') = Some s' \/ Step s (TStop c') = Some s' \/ Step s (TCons c') = Some s') ->
  s_cs s' c = s_cs s c.
Proof.
  intros pkts stoppers sched c c' s' s Hne Ha [Hstep|Hstep].
  - pose proof (reachable_inv pkts stoppers sched) as HI. fold s in HI.
    simpl in Hstep. destruct (c' <? ncons); try discriminate.
    eapply att_other; try eassumption.
    intro Hhd. apply Ha. apply (i_qatt _ _ HI c).
    destruct (s_lockq s); [discriminate|]. injection Hhd as ->. left. reflexivity.
  - eapply noninterference_stop_cons; eassumption.
Qed.

(* … and when it is, the only possible effect is c's own lock acquisition completing: c's entry
   becomes the snapshot of the cache, exactly what its own attach step does when the mutex is free. *)
Theorem noninterference_att_handoff : forall pkts stoppers sched c c' s',
  let s := Run sched (Init pkts stoppers) in
  c' <> c -> Step s (TAtt c') = Some s' ->
  s_cs s' c = s_cs s c \/
  (s_att s c = A0W /\ s_att s' c = A1 /\ s_cs s c = cons0 /\ s_cs s' c = fresh (cache_snap (s_cache s))).
Proof.
  intros pkts stoppers sched c c' s' s Hne Hstep.
  pose proof (reachable_inv pkts stoppers sched) as HI. fold s in HI.
  destruct (s_att s c) eqn:Ha;
    try (left; eapply (noninterference_partial pkts stoppers sched c c' s' Hne);
         [fold s; congruence | left; exact Hstep]).
  pose proof (i_early _ _ HI c (or_intror Ha)) as Hk0.
  simpl in Hstep. destruct (c' <? ncons); try discriminate.
  unfold step_att in Hstep. destruct (s_att s c') eqn:Ha'; try discriminate.
  - injection Hstep as <-. left. apply cs_acquire. congruence.
  - injection Hstep as <-. unfold release. simpl (v_lock fixed). cbv iota.
    simpl (s_lockq _). destruct (s_lockq s) as [|h rest] eqn:Hq.
    + left. simpl. apply upd_other. exact Hne.
    + destruct h as [|c''].
      * left. rewrite cs_after_acquire by discriminate. simpl. apply upd_other. exact Hne.
      * destruct (Nat.eq_dec c'' c) as [->|Hne''].
        -- right. split; [reflexivity|]. unfold after_acquire. simpl.
           rewrite !upd_same. rewrite (upd_other _ _ c' c) by exact Hne. rewrite Hk0.
           repeat split; reflexivity.
        -- left. rewrite cs_after_acquire by congruence. simpl. apply upd_other. exact Hne.
  - left. destruct (v_recheck fixed && negb (s_ok s) && c_reg (s_cs s c')); injection Hstep as <-;
      simpl; apply upd_other; exact Hne.
Qed.

(* the broadcast: what happens to c is a function of c's own entry and the packet *)
Theorem publisher_effect_on_consumer : forall pkts stoppers sched c s',
  let s := Run sched (Init pkts stoppers) in
  let k := s_cs s c in
  s_att s c <> A0W -> Step s TPub = Some s' ->
  s_cs s' c = match s_pp s, s_todo s with
              | P2, p :: _ => if c_reg k then send maxq k p else k
              | _, _ => k
              end.
Proof.
  intros pkts stoppers sched c s' s k Ha Hstep.
  pose proof (reachable_inv pkts stoppers sched) as HI. fold s in HI.
  assert (Hhd : hd_error (s_lockq s) <> Some (HAtt c)).
  { intro Hhd. apply Ha. apply (i_qatt _ _ HI c).
    destruct (s_lockq s); [discriminate|]. injection Hhd as ->. left. reflexivity. }
  simpl in Hstep. unfold step_pub in Hstep.
  destruct (s_pp s) eqn:Hpp; destruct (s_todo s) as [|p rest] eqn:Ht; try discriminate.
  - destruct (s_ok s); injection Hstep as <-; reflexivity.
  - injection Hstep as <-. apply cs_acquire. discriminate.
  - injection Hstep as <-. rewrite cs_release by exact Hhd. simpl. rewrite send_all_spec. fold k.
    destruct (c_reg k) eqn:Hreg; [|rewrite andb_false_r; reflexivity].
    pose proof (reg_range _ _ _ HI Hreg) as Hc. apply Nat.ltb_lt in Hc. rewrite Hc. reflexivity.
Qed.

(* the closer: likewise a function of c's own entry *)
Theorem closer_effect_on_consumer : forall (s : state) c s',
  Step s TClose = Some s' ->
  s_cs s' c = match s_kp s with
              | K1 => if (c <? ncons) && c_reg (s_cs s c)
                      then close_cons fixed (set_reg (s_cs s c) false (length (s_sent s))) else s_cs s c
              | _ => s_cs s c
              end.
Proof.
  intros s c s' Hstep. simpl in Hstep. unfold step_close in Hstep.
  destruct (s_kp s); try discriminate.
  - injection Hstep as <-. reflexivity.
  - pose proof (sweep_spec ncons (s_cs s) (length (s_sent s)) c) as Hsw.
    destruct (sweep fixed ncons (s_cs s) (length (s_sent s))) as [f d].
    simpl (v_atomic fixed) in Hstep. cbv iota in Hstep. injection Hstep as <-. exact Hsw.
  - injection Hstep as <-. reflexivity.
Qed.

(* ------------------------------------------------------------------ *)
(* the join mutex at work: snapshot and live stream never overlap (D1)  *)
(* ------------------------------------------------------------------ *)
(* This part needs two facts about the (abstract) cache: an empty cache has an empty snapshot and a
   snapshot only contains packets that were added.  [rcache] satisfies both ([rc_snap_sound]). *)
Section Join.
Variable snap_empty : cache_snap cache_empty = [].
Variable snap_add : forall ca p x, In x (cache_snap (cache_add ca p)) -> In x (cache_snap ca) \/ x = p.

Definition same_pre (k k' : cons) : Prop := c_prefill k' = c_prefill k /\ c_regat k' = c_regat k.

(* the snapshot holds only packets broadcast before the registration *)
Definition PF (sent : list pkt) (k : cons) : Prop :=
  forall r, c_regat k = Some r -> forall x, In x (c_prefill k) -> In x (firstn r sent).

Lemma PF_same : forall sent k k', same_pre k k' -> PF sent k -> PF sent k'.
Proof. intros sent k k' [Hp Hr] H. unfold PF. rewrite Hp, Hr. exact H. Qed.

Lemma PF_grow : forall sent k p, PF sent k -> PF (sent ++ [p]) k.
Proof.
  intros sent k p H r Hr x Hx. rewrite firstn_app. apply in_or_app. left. exact (H r Hr x Hx).
Qed.

Lemma same_pre_close : forall k, same_pre k (close_cons fixed k).
Proof.
  intros k. unfold same_pre, close_cons. destruct (c_closed k); [split; reflexivity|]. simpl.
  rewrite push_prefill, push_regat. split; reflexivity.
Qed.
Lemma same_pre_exit_path : forall k n, same_pre k (exit_path fixed k n).
Proof. intros k n. unfold same_pre, exit_path. destruct (c_reg k); split; reflexivity. Qed.
Lemma same_pre_loop_test : forall k n, same_pre k (loop_test fixed k n).
Proof.
  intros k n. unfold loop_test. destruct (c_closed k); [apply same_pre_exit_path | split; reflexivity].
Qed.
Lemma same_pre_trans : forall k1 k2 k3, same_pre k1 k2 -> same_pre k2 k3 -> same_pre k1 k3.
Proof. intros k1 k2 k3 [A B] [C D]. split; congruence. Qed.
Lemma same_pre_upd : forall (f : nat -> cons) c k' c', same_pre (f c) k' -> same_pre (f c') (upd f c k' c').
Proof.
  intros f c k' c' H. destruct (Nat.eq_dec c c') as [<-|Hne].
  - rewrite upd_same. exact H.
  - rewrite upd_other by exact Hne. split; reflexivity.
Qed.

Definition JL (s : state) : Prop :=
  (s_pp s = P2 -> s_lock s = Some HPub) /\ (forall c, s_att s c = A1 -> s_lock s = Some (HAtt c)).

Record JD (s : state) : Prop := {
  j_snap : forall x, In x (cache_snap (s_cache s)) -> In x (s_cached s);
  j_a1 : forall c, s_att s c = A1 -> forall x, In x (c_prefill (s_cs s c)) -> In x (s_sent s);
  j_pf : forall c, PF (s_sent s) (s_cs s c)
}.

(* nobody is inside the critical section *)
Definition quiet (s : state) : Prop := s_pp s <> P2 /\ forall c, s_att s c <> A1.

Definition Inv2 (s : state) : Prop := JL s /\ JD s.

Lemma inv2_quiet : forall s, JL s -> s_lock s = None -> quiet s.
Proof.
  intros s [H1 H2] Hl. split.
  - intro E. rewrite (H1 E) in Hl. discriminate.
  - intros c E. rewrite (H2 c E) in Hl. discriminate.
Qed.

Lemma jl_frame : forall s s' : state, JL s -> s_lock s' = s_lock s -> (s_pp s' = P2 -> s_pp s = P2) ->
  (forall c, s_att s' c = A1 -> s_att s c = A1) -> JL s'.
Proof.
  intros s s' [H1 H2] Hl Hpp Hatt. split.
  - intros E. rewrite Hl. auto.
  - intros c E. rewrite Hl. auto.
Qed.

Lemma jd_frame : forall s s' : state, JD s -> s_cached s' = s_cached s -> s_sent s' = s_sent s ->
  (s_cache s' = s_cache s \/ s_cache s' = cache_empty) ->
  (forall c, s_att s' c = A1 -> s_att s c = A1) ->
  (forall c, same_pre (s_cs s c) (s_cs s' c)) -> JD s'.
Proof.
  intros s s' [H1 H2 H3] Hcd Hsent Hcache Hatt Hcs. constructor.
  - intros x Hx. rewrite Hcd. destruct Hcache as [E|E]; rewrite E in Hx.
    + auto.
    + rewrite snap_empty in Hx. contradiction.
  - intros c E x Hx. rewrite Hsent. destruct (Hcs c) as [Hp _]. rewrite Hp in Hx. eauto.
  - intros c. rewrite Hsent. eapply PF_same; [apply Hcs | apply H3].
Qed.

Lemma inv2_frame : forall s s' : state, Inv2 s -> s_lock s' = s_lock s -> (s_pp s' = P2 -> s_pp s = P2) ->
  s_cached s' = s_cached s -> s_sent s' = s_sent s ->
  (s_cache s' = s_cache s \/ s_cache s' = cache_empty) ->
  (forall c, s_att s' c = A1 -> s_att s c = A1) ->
  (forall c, same_pre (s_cs s c) (s_cs s' c)) -> Inv2 s'.
Proof.
  intros s s' [HL HD] Hl Hpp Hcd Hsent Hcache Hatt Hcs. split.
  - eapply jl_frame; eassumption.
  - eapply jd_frame; eassumption.
Qed.

Lemma after_acquire_pub_inv2 : forall pkts s lq, Inv pkts s -> JD s -> quiet s ->
  s_todo s <> [] -> Inv2 (AfterAcq s HPub lq).
Proof.
  intros pkts s lq HI [H1 H2 H3] [Hq1 Hq2] Htodo.
  unfold after_acquire. destruct (s_todo s) as [|p rest]; [contradiction|].
  split; [split|constructor]; simpl.
  - reflexivity.
  - intros c E. destruct (Hq2 c E).
  - intros x Hx. apply in_or_app. destruct (snap_add _ _ _ Hx) as [Hx'| ->]; [left; auto | right; left; reflexivity].
  - intros c E. destruct (Hq2 c E).
  - exact H3.
Qed.

Lemma after_acquire_att_inv2 : forall pkts s c lq, Inv pkts s -> JD s -> quiet s ->
  s_att s c = A0 \/ s_att s c = A0W -> Inv2 (AfterAcq s (HAtt c) lq).
Proof.
  intros pkts s c lq HI [H1 H2 H3] [Hq1 Hq2] Ha.
  pose proof (i_early _ _ HI c Ha) as Hk0.
  unfold after_acquire. rewrite Hk0.
  split; [split|constructor]; simpl.
  - intros E. contradiction.
  - intros c'. destruct (Nat.eq_dec c c') as [<-|Hne].
    + reflexivity.
    + rewrite upd_other by exact Hne. intros E. destruct (Hq2 c' E).
  - exact H1.
  - intros c'. destruct (Nat.eq_dec c c') as [<-|Hne].
    + rewrite !upd_same. simpl. intros _ x Hx. rewrite <- (i_out _ _ HI Hq1). auto.
    + rewrite !upd_other by exact Hne. apply H2.
  - intros c'. destruct (Nat.eq_dec c c') as [<-|Hne].
    + rewrite upd_same. intros r Hr. discriminate.
    + rewrite upd_other by exact Hne. apply H3.
Qed.

Lemma release_inv2 : forall pkts s, Inv pkts s -> JD s -> quiet s -> Inv2 (Release s).
Proof.
  intros pkts s HI HD Hq. unfold release. simpl (v_lock fixed). cbv iota.
  destruct (s_lockq s) as [|h rest] eqn:Hlq.
  - destruct Hq as [Hq1 Hq2]. split.
    + split; simpl; [intros E; contradiction | intros c E; destruct (Hq2 c E)].
    + eapply jd_frame; try exact HD; try reflexivity; simpl; auto. intros c; split; reflexivity.
  - destruct h as [|c].
    + eapply after_acquire_pub_inv2; try eassumption.
      apply (i_p1w _ _ HI). apply (i_qpub _ _ HI). rewrite Hlq. left. reflexivity.
    + eapply after_acquire_att_inv2; try eassumption.
      right. apply (i_qatt _ _ HI c). rewrite Hlq. left. reflexivity.
Qed.

Lemma acquire_pub_inv2 : forall pkts s, Inv pkts s -> Inv2 s -> s_pp s = P1 -> s_todo s <> [] ->
  Inv2 (Acquire s HPub).
Proof.
  intros pkts s HI [HL HD] Hpp Htodo. unfold acquire. simpl (v_lock fixed). cbv iota.
  destruct (s_lock s) eqn:Hl.
  - eapply inv2_frame; [split; eassumption | ..]; simpl; auto; try discriminate.
    intros c; split; reflexivity.
  - eapply after_acquire_pub_inv2; try eassumption. apply inv2_quiet; assumption.
Qed.

Lemma acquire_att_inv2 : forall pkts s c, Inv pkts s -> Inv2 s -> s_att s c = A0 ->
  Inv2 (Acquire s (HAtt c)).
Proof.
  intros pkts s c HI [HL HD] Ha. unfold acquire. simpl (v_lock fixed). cbv iota.
  destruct (s_lock s) eqn:Hl.
  - eapply inv2_frame; [split; eassumption | ..]; simpl; auto.
    + intros c'. destruct (Nat.eq_dec c c') as [<-|Hne].
      * rewrite upd_same. discriminate.
      * rewrite upd_other by exact Hne. auto.
    + intros c'; split; reflexivity.
  - eapply after_acquire_att_inv2; try eassumption; [apply inv2_quiet; assumption | left; exact Ha].
Qed.

Lemma holder_excl : forall s, JL s -> s_pp s = P2 -> forall c, s_att s c <> A1.
Proof. intros s [H1 H2] Hpp c E. rewrite (H1 Hpp) in H2. specialize (H2 c E). discriminate. Qed.

Lemma holder_excl_att : forall s c, JL s -> s_att s c = A1 ->
  s_pp s <> P2 /\ forall c', s_att s c' = A1 -> c' = c.
Proof.
  intros s c [H1 H2] Ha. pose proof (H2 c Ha) as Hl. split.
  - intro E. rewrite (H1 E) in Hl. discriminate.
  - intros c' E. rewrite (H2 c' E) in Hl. congruence.
Qed.

Lemma step_pub_inv2 : forall pkts s s', Inv pkts s -> Inv2 s ->
  step_pub fixed maxq cache_t cache_add cache_snap ncons s = Some s' -> Inv2 s'.
Proof.
  intros pkts s s' HI HJ Hstep. unfold step_pub in Hstep.
  destruct (s_pp s) eqn:Hpp; destruct (s_todo s) as [|p rest] eqn:Ht; try discriminate.
  - destruct (s_ok s); injection Hstep as <-.
    + eapply inv2_frame; try exact HJ; simpl; auto; try discriminate. intros c; split; reflexivity.
    + eapply inv2_frame; try exact HJ; simpl; auto; try congruence. intros c; split; reflexivity.
  - injection Hstep as <-. eapply acquire_pub_inv2; try eassumption. congruence.
  - injection Hstep as <-. destruct HJ as [HL [H1 H2 H3]].
    pose proof (holder_excl _ HL Hpp) as Hex.
    eapply release_inv2.
    + apply (pub_send_inv pkts s p rest HI Hpp Ht).
    + constructor; simpl.
      * exact H1.
      * intros c E. destruct (Hex c E).
      * intros c. rewrite send_all_spec. apply PF_grow.
        destruct ((c <? ncons) && c_reg (s_cs s c)); [|apply H3].
        eapply PF_same; [|apply H3]. split; [apply send_prefill | apply send_regat].
    + split; simpl; [discriminate | exact Hex].
Qed.

Lemma step_att_inv2 : forall pkts s c s', Inv pkts s -> Inv2 s ->
  step_att fixed cache_t cache_add cache_snap s c = Some s' -> Inv2 s'.
Proof.
  intros pkts s c s' HI HJ Hstep. unfold step_att in Hstep.
  destruct (s_att s c) eqn:Ha; try discriminate.
  - injection Hstep as <-. eapply acquire_att_inv2; eassumption.
  - injection Hstep as <-. destruct HJ as [HL [H1 H2 H3]].
    destruct (holder_excl_att _ _ HL Ha) as [Hnp Huniq].
    assert (Hq : forall c', upd (s_att s) c A2 c' <> A1).
    { intros c'. destruct (Nat.eq_dec c c') as [<-|Hne].
      - rewrite upd_same. discriminate.
      - rewrite upd_other by exact Hne. intro E. apply Hne. symmetry. apply Huniq. exact E. }
    eapply release_inv2.
    + apply (att_reg_inv pkts s c HI Ha).
    + constructor; simpl.
      * exact H1.
      * intros c' E. destruct (Hq c' E).
      * intros c'. destruct (Nat.eq_dec c c') as [<-|Hne].
        -- rewrite upd_same. intros r Hr x Hx. simpl in Hr, Hx. injection Hr as <-.
           rewrite firstn_all. exact (H2 c Ha x Hx).
        -- rewrite upd_other by exact Hne. apply H3.
    + split; simpl; [exact Hnp | exact Hq].
  - assert (Hfin : forall cnt k1, same_pre (s_cs s c) k1 ->
              Inv2 (set_att cache_t s c ADone cnt (upd (s_cs s) c (loop_test fixed k1 (length (s_sent s)))))).
    { intros cnt k1 Hsp. eapply inv2_frame; try exact HJ; simpl; auto.
      - intros c'. destruct (Nat.eq_dec c c') as [<-|Hne].
        + rewrite upd_same. discriminate.
        + rewrite upd_other by exact Hne. auto.
      - intros c'. apply same_pre_upd. eapply same_pre_trans; [exact Hsp | apply same_pre_loop_test]. }
    destruct (v_recheck fixed && negb (s_ok s) && c_reg (s_cs s c)); injection Hstep as <-.
    + apply Hfin. eapply same_pre_trans; [|apply same_pre_close]. split; reflexivity.
    + apply Hfin. split; reflexivity.
Qed.

Lemma step_stop_inv2 : forall s c s', Inv2 s -> step_stop fixed cache_t s c = Some s' -> Inv2 s'.
Proof.
  intros s c s' HJ Hstep. unfold step_stop in Hstep.
  destruct (s_stp s c); try discriminate.
  - destruct (c_reg (s_cs s c)); injection Hstep as <-.
    + eapply inv2_frame; try exact HJ; simpl; auto.
      intros c'. apply same_pre_upd. split; reflexivity.
    + eapply inv2_frame; try exact HJ; simpl; auto. intros c'; split; reflexivity.
  - injection Hstep as <-.
    eapply inv2_frame; try exact HJ; simpl; auto.
    intros c'. apply same_pre_upd. apply same_pre_close.
Qed.

Lemma step_cons_inv2 : forall s c s', Inv2 s -> step_cons fixed cache_t panic_at s c = Some s' -> Inv2 s'.
Proof.
  intros s c s' HJ Hstep. unfold step_cons in Hstep.
  destruct (c_pc (s_cs s c)) as [| |x| | |]; try discriminate.
  - destruct (c_q (s_cs s c)); injection Hstep as <-;
      (eapply inv2_frame; try exact HJ; simpl; auto; intros c'; apply same_pre_upd; split; reflexivity).
  - destruct x as [p|].
    + destruct (Nat.eqb _ _); injection Hstep as <-;
        (eapply inv2_frame; try exact HJ; simpl; auto; intros c'; apply same_pre_upd).
      * eapply same_pre_trans; [|apply same_pre_exit_path]. split; reflexivity.
      * eapply same_pre_trans; [|apply same_pre_loop_test]. split; reflexivity.
    + injection Hstep as <-.
      eapply inv2_frame; try exact HJ; simpl; auto. intros c'; apply same_pre_upd. apply same_pre_loop_test.
  - injection Hstep as <-.
    eapply inv2_frame; try exact HJ; simpl; auto. intros c'; apply same_pre_upd.
    eapply same_pre_trans; [apply same_pre_close|]. split; reflexivity.
Qed.

Lemma step_close_inv2 : forall s s', Inv2 s -> step_close fixed cache_t cache_empty ncons s = Some s' -> Inv2 s'.
Proof.
  intros s s' HJ Hstep. unfold step_close in Hstep.
  destruct (s_kp s); try discriminate.
  - injection Hstep as <-. eapply inv2_frame; try exact HJ; simpl; auto. intros c; split; reflexivity.
  - pose proof (sweep_spec ncons (s_cs s) (length (s_sent s))) as Hsw.
    destruct (sweep fixed ncons (s_cs s) (length (s_sent s))) as [f d].
    simpl (v_atomic fixed) in Hstep. cbv iota in Hstep. injection Hstep as <-. simpl in Hsw.
    eapply inv2_frame; try exact HJ; simpl; auto.
    intros c. rewrite Hsw. destruct ((c <? ncons) && c_reg (s_cs s c)); [|split; reflexivity].
    eapply same_pre_trans; [|apply same_pre_close]. split; reflexivity.
  - injection Hstep as <-. eapply inv2_frame; try exact HJ; simpl; auto. intros c; split; reflexivity.
Qed.

Lemma step_inv2 : forall pkts s t s', Inv pkts s /\ Inv2 s -> Step s t = Some s' -> Inv pkts s' /\ Inv2 s'.
Proof.
  intros pkts s t s' [HI HJ] Hstep. split; [eapply step_inv; eassumption|].
  destruct t as [| |c|c|c]; simpl in Hstep.
  - eapply step_pub_inv2; eassumption.
  - eapply step_close_inv2; eassumption.
  - destruct (c <? ncons); [|discriminate]. eapply step_att_inv2; eassumption.
  - destruct (c <? ncons); [|discriminate]. destruct (s_att s c); try discriminate.
    eapply step_stop_inv2; eassumption.
  - destruct (c <? ncons); [|discriminate]. eapply step_cons_inv2; eassumption.
Qed.

Lemma init_inv2 : forall pkts stoppers, Inv2 (Init pkts stoppers).
Proof.
  intros pkts stoppers. split; [split|constructor]; simpl; try discriminate.
  rewrite snap_empty. intros x [].
Qed.

Lemma reachable_inv2 : forall pkts stoppers sched,
  Inv pkts (Run sched (Init pkts stoppers)) /\ Inv2 (Run sched (Init pkts stoppers)).
Proof.
  intros. apply (inv_run (fun s => Inv pkts s /\ Inv2 s)).
  - intros s t s'. apply step_inv2.
  - split; [apply init_inv | apply init_inv2].
Qed.

(* mutual exclusion of the join mutex (used by C02 as well) *)
Theorem join_mutex_exclusive : forall pkts stoppers sched,
  let s := Run sched (Init pkts stoppers) in
  (s_pp s = P2 -> s_lock s = Some HPub) /\ (forall c, s_att s c = A1 -> s_lock s = Some (HAtt c)).
Proof. intros pkts stoppers sched s. destruct (reachable_inv2 pkts stoppers sched) as [_ [HL _]]. exact HL. Qed.

(* the snapshot contains only packets whose broadcast completed before the registration: together
   with [live_out_subseq_window] (live = broadcast from the registration on) snapshot and live
   stream do not overlap *)
Theorem prefill_before_registration : forall pkts stoppers sched c r x,
  let s := Run sched (Init pkts stoppers) in
  let k := s_cs s c in
  c_regat k = Some r -> In x (c_prefill k) -> In x (firstn r (s_sent s)).
Proof.
  intros pkts stoppers sched c r x s k Hr Hx.
  destruct (reachable_inv2 pkts stoppers sched) as [_ [_ HD]]. exact (j_pf _ HD c r Hr x Hx).
Qed.

Lemma NoDup_map_app_disjoint : forall A B (f : A -> B) l1 l2 x y,
  NoDup (map f (l1 ++ l2)) -> In x l1 -> In y l2 -> f x <> f y.
Proof.
  intros A B f l1 l2 x y. induction l1 as [|a l1 IH]; simpl; intros Hnd Hx Hy; [contradiction|].
  inversion Hnd as [|? ? Hnin Hnd']; subst. destruct Hx as [->|Hx].
  - intro E. apply Hnin. rewrite E. apply in_map. apply in_or_app. right. exact Hy.
  - apply IH; assumption.
Qed.

Lemma NoDup_app_intro : forall A (l1 l2 : list A),
  NoDup l1 -> NoDup l2 -> (forall x, In x l1 -> ~ In x l2) -> NoDup (l1 ++ l2).
Proof.
  intros A l1 l2 H1 H2 Hd. induction H1 as [|a l1 Ha H1 IH]; simpl; [exact H2|].
  constructor.
  - intro Hin. apply in_app_or in Hin. destruct Hin as [Hin|Hin]; [contradiction|].
    apply (Hd a); [left; reflexivity | exact Hin].
  - apply IH. intros x Hx. apply Hd. right. exact Hx.
Qed.

Lemma window_in_skipn : forall sent r u y, In y (window sent (Some r) u) -> In y (skipn r sent).
Proof.
  intros sent r [u|] y Hy; simpl in Hy; [|exact Hy].
  eapply subseq_In; [apply subseq_firstn | exact Hy].
Qed.

(* at most once, for the whole delivered stream (snapshot part and live part together) *)
Theorem out_at_most_once : forall pkts stoppers sched c,
  let s := Run sched (Init pkts stoppers) in
  let k := s_cs s c in
  NoDup (map p_id pkts) -> NoDup (map p_id (c_prefill k)) -> NoDup (map p_id (c_out k)).
Proof.
  intros pkts stoppers sched c s k Hnd Hndp.
  destruct (reachable_inv2 pkts stoppers sched) as [HI [_ HD]]. fold s in HI, HD.
  pose proof (i_ki _ _ HI c) as HK. fold k in HK.
  destruct (ki_q _ _ HK) as [rest [Hq _]]. pose proof (ki_w _ _ HK) as Hw.
  set (n := length (c_prefill k)).
  assert (Hpre : c_prefill k = firstn n (c_out k) ++ firstn (n - length (c_out k)) (pend k ++ rest)).
  { rewrite <- firstn_app, <- Hq, Hw, firstn_app. unfold n.
    rewrite firstn_all, Nat.sub_diag, firstn_O, app_nil_r. reflexivity. }
  rewrite <- (firstn_skipn n (c_out k)). rewrite map_app.
  apply NoDup_app_intro.
  - eapply subseq_NoDup; [|exact Hndp]. apply subseq_map. rewrite Hpre. apply subseq_app_l.
  - apply (live_out_at_most_once pkts stoppers sched c Hnd).
  - intros i Hi1 Hi2.
    apply in_map_iff in Hi1. destruct Hi1 as [x [Hfx Hx]].
    apply in_map_iff in Hi2. destruct Hi2 as [y [Hfy Hy]].
    assert (Hxp : In x (c_prefill k)).
    { rewrite Hpre. apply in_or_app. left. exact Hx. }
    assert (Hyw : In y (window (s_sent s) (c_regat k) (c_unregat k))).
    { eapply subseq_In; [apply (live_out_subseq_window pkts stoppers sched c) | exact Hy]. }
    destruct (c_regat k) as [r|] eqn:Hr; [|contradiction].
    pose proof (j_pf _ HD c r Hr x Hxp) as Hx1.
    pose proof (window_in_skipn _ _ _ _ Hyw) as Hy1.
    destruct (sent_prefix_of_published pkts stoppers sched) as [rest' Hp]. fold s in Hp.
    assert (Hnds : NoDup (map p_id (firstn r (s_sent s) ++ skipn r (s_sent s)))).
    { rewrite firstn_skipn. eapply subseq_NoDup; [|exact Hnd]. apply subseq_map.
      rewrite Hp. apply subseq_app_l. }
    apply (NoDup_map_app_disjoint _ _ p_id _ _ x y Hnds Hx1 Hy1). congruence.
Qed.

End Join.

End Fanout.

(* send's decision for a consumer depends only on its own queue length, its own discarding flag
   and the packet *)
Theorem send_decision_is_local : forall maxq k p,
  let d := send_drop maxq (length (c_q k)) (c_disc k) p in
  c_disc (send maxq k p) = d /\
  c_keep (send maxq k p) = c_keep k ++ [negb d] /\
  c_pushed (send maxq k p) = c_pushed k ++ (if d then [] else [p]) /\
  c_out (send maxq k p) = c_out k /\ c_prefill (send maxq k p) = c_prefill k /\
  c_reg (send maxq k p) = c_reg k /\ c_regat (send maxq k p) = c_regat k /\
  c_unregat (send maxq k p) = c_unregat k.
Proof.
  intros maxq k p d. unfold d.
  rewrite send_disc, send_keep, send_pushed, send_out, send_prefill, send_reg, send_regat, send_unregat.
  repeat split; reflexivity.
Qed.

(* ------------------------------------------------------------------ *)
(* the concrete RTP cache meets the two cache facts                    *)
(* ------------------------------------------------------------------ *)
Lemma rc_snap_empty : forall g, rc_snap (rc_empty g) = [].
Proof. destruct g; reflexivity. Qed.

Lemma rc_snap_add : forall ca p x, In x (rc_snap (rc_add ca p)) -> In x (rc_snap ca) \/ x = p.
Proof.
  intros ca p x. unfold rc_add.
  assert (Hgop : In x (rc_snap (if rc_gopon ca
            then if p_key p
              then {| rc_gopon := true; rc_vps := rc_vps ca; rc_sps := rc_sps ca; rc_pps := rc_pps ca; rc_gop := [p] |}
              else match rc_gop ca with
                   | [] => ca
                   | _ :: _ => {| rc_gopon := true; rc_vps := rc_vps ca; rc_sps := rc_sps ca; rc_pps := rc_pps ca;
                                  rc_gop := rc_gop ca ++ [p] |}
                   end
            else ca)) -> In x (rc_snap ca) \/ x = p).
  { unfold rc_snap. destruct (rc_gopon ca) eqn:Hg; [|simpl; rewrite Hg; auto].
    destruct (p_key p).
    - simpl. rewrite !in_app_iff. simpl. intuition auto.
    - destruct (rc_gop ca) eqn:Hgp; simpl; rewrite ?Hg, ?Hgp; simpl; rewrite ?in_app_iff; simpl; rewrite ?in_app_iff; simpl; rewrite ?Hg, ?Hgp; simpl; intuition auto. }
  assert (Hset : forall v s q, 
     (v = Some p \/ v = rc_vps ca) -> (s = Some p \/ s = rc_sps ca) -> (q = Some p \/ q = rc_pps ca) ->
     In x (rc_snap {| rc_gopon := rc_gopon ca; rc_vps := v; rc_sps := s; rc_pps := q; rc_gop := rc_gop ca |}) ->
     In x (rc_snap ca) \/ x = p).
  { intros v s q Hv Hs Hq. unfold rc_snap. simpl. rewrite !in_app_iff.
    destruct Hv as [-> | ->], Hs as [-> | ->], Hq as [-> | ->]; simpl; intuition auto. }
  destruct (p_kind p) as [|pp|pp]; [auto| |exact Hgop].
  destruct pp as [[[?|?|]|[?|?|]|]|[[?|?|]|[?|?|]|]|]; try exact Hgop; apply Hset; auto.
Qed.

(* ------------------------------------------------------------------ *)
(* concrete runs (rcache instance, LtsWire.lrun)                       *)
(* ------------------------------------------------------------------ *)
Definition mkp (i k : Z) : pkt := {| p_id := i; p_kind := k |}.

(* D1 (repeat) on the code as it was: the publisher caches p1, the attacher snapshots and registers,
   then the publisher broadcasts p1: the consumer receives p1 from the snapshot and again live *)
Definition d1_repeat_case : lcase :=
  {| l_var := original; l_n := 1; l_maxq := 8; l_gop := true;
     l_pkts := [mkp 1 3]; l_stop := [];
     l_sched := [TPub; TPub; TAtt 0; TAtt 0; TPub; TAtt 0; TCons 0; TCons 0; TCons 0; TCons 0];
     l_panic := [] |}.

Example at_most_once_refuted :
  let k := s_cs (lrun d1_repeat_case) 0 in
  NoDup (map p_id (l_pkts d1_repeat_case)) /\ NoDup (map p_id (c_prefill k)) /\
  c_out k = [mkp 1 3; mkp 1 3] /\ ~ NoDup (map p_id (c_out k)).
Proof.
  vm_compute. repeat split.
  - constructor; [intros []|constructor].
  - constructor; [intros []|constructor].
  - intro H. inversion H as [|? ? Hn _]. apply Hn. left. reflexivity.
Qed.

(* the same schedule (plus the steps the blocked attacher still needs) on the repaired code: the
   attacher waits for the join mutex, so its snapshot already follows the broadcast of p1 *)
Example at_most_once_fixed_on_witness :
  let k := s_cs (lrun {| l_var := fixed; l_n := l_n d1_repeat_case; l_maxq := l_maxq d1_repeat_case;
                         l_gop := l_gop d1_repeat_case; l_pkts := l_pkts d1_repeat_case;
                         l_stop := l_stop d1_repeat_case;
                         l_sched := l_sched d1_repeat_case ++ [TAtt 0; TCons 0; TCons 0; TCons 0];
                         l_panic := l_panic d1_repeat_case |}) 0 in
  c_out k = [mkp 1 3].
Proof. vm_compute. reflexivity. Qed.

(* non-vacuity: 2 consumers, 6 packets, maxq = 1.  Consumer 0 attaches first and is slow: at the
   second key frame (id 5) its backlog is 4 > maxq, so it drops 5 and 6.  Consumer 1 attaches after
   3 packets (snapshot = SPS 1, GOP 2 3) and keeps up. *)
Definition nonvacuous_case : lcase :=
  {| l_var := fixed; l_n := 2; l_maxq := 1; l_gop := true;
     l_pkts := [mkp 1 3; mkp 2 2; mkp 3 1; mkp 4 1; mkp 5 2; mkp 6 1]; l_stop := [];
     l_sched := repeat (TAtt 0) 3 ++ repeat TPub 9 ++ repeat (TAtt 1) 3 ++ repeat TPub 3 ++
                repeat (TCons 1) 8 ++ repeat TPub 6 ++ repeat (TCons 0) 8 ++ repeat (TCons 1) 4;
     l_panic := [] |}.

Example fanout_nonvacuous :
  let s := lrun nonvacuous_case in
  let k0 := s_cs s 0 in
  let k1 := s_cs s 1 in
  NoDup (map p_id (l_pkts nonvacuous_case)) /\
  map p_id (c_out k0) = [1; 2; 3; 4]%Z /\
  map p_id (c_out k1) = [1; 2; 3; 4; 5; 6]%Z /\
  c_prefill k0 = [] /\
  map p_id (c_prefill k1) = [1; 2; 3]%Z /\
  c_keep k0 = [true; true; true; true; false; false] /\
  c_keep k1 = [true; true; true] /\
  map p_id (window (s_sent s) (c_regat k0) (c_unregat k0)) = [1; 2; 3; 4; 5; 6]%Z /\
  map p_id (window (s_sent s) (c_regat k1) (c_unregat k1)) = [4; 5; 6]%Z /\
  map p_id (select (c_keep k0) (window (s_sent s) (c_regat k0) (c_unregat k0))) = [1; 2; 3; 4]%Z /\
  map p_id (live_out k1) = [4; 5; 6]%Z.
Proof.
  vm_compute. repeat split.
  repeat (constructor; [simpl; intuition discriminate|]). constructor.
Qed.

(* counterexample to the unrestricted "TAtt c' leaves s_cs s c unchanged": consumer 1 holds the
   join mutex (A1), consumer 0 is blocked in Lock() (A0W); when 1 registers and unlocks, the mutex
   is handed to 0, whose snapshot is taken in the same atomic step *)
Definition handoff_case : lcase :=
  {| l_var := fixed; l_n := 2; l_maxq := 8; l_gop := true;
     l_pkts := [mkp 1 3]; l_stop := [];
     l_sched := [TPub; TPub; TPub; TAtt 1; TAtt 0]; l_panic := [] |}.

Example noninterference_handoff_witness :
  let c := handoff_case in
  let s := lrun c in
  exists s',
    step (l_var c) (l_maxq c) rcache (rc_empty (l_gop c)) rc_add rc_snap (l_n c)
         (fun i => nth i (l_panic c) O) s (TAtt 1) = Some s' /\
    s_att s 0 = A0W /\ s_cs s 0 = cons0 /\ s_att s' 0 = A1 /\ s_cs s' 0 = fresh [mkp 1 3] /\
    s_cs s' 0 <> s_cs s 0.
Proof.
  vm_compute. eexists. split; [reflexivity|]. repeat split. discriminate.
Qed.
