(* the extracted oracle accepts the extracted model's own run on every well-formed case (wire form) *)
From Coq Require Import ZArith List Bool.
From V Require Import Val C03Mcast C03McastProofs RunC03Mcast.
Import ListNotations.

Lemma as_bool_vbool : forall b, as_bool (vbool b) = b.
Proof. intros []; reflexivity. Qed.

Lemma dec_enc_mobs : forall o, dec_mobs (enc_mobs o) = o.
Proof.
  intros [cc sock nmem ended got]. unfold dec_mobs, enc_mobs.
  change (nthv 0 (VL [?a; ?b; ?c; ?d; ?e])) with a. change (nthv 1 (VL [?a; ?b; ?c; ?d; ?e])) with b.
  change (nthv 2 (VL [?a; ?b; ?c; ?d; ?e])) with c. change (nthv 3 (VL [?a; ?b; ?c; ?d; ?e])) with d.
  change (nthv 4 (VL [?a; ?b; ?c; ?d; ?e])) with e.
  unfold vlist. cbn [as_list as_int]. rewrite as_bool_vbool, !map_map. f_equal.
  - rewrite <- (map_id ended) at 2. apply map_ext. exact as_bool_vbool.
  - rewrite <- (map_id got) at 2. apply map_ext. reflexivity.
Qed.

Lemma not_panic_mobs : forall l, is_panic (vlist enc_mobs l) = false.
Proof. intros [|o l]; reflexivity. Qed.

Theorem mcast_model_passes_on_the_wire : forall c,
  hist_wf (dec_mhist c) = true -> x_C03_mcast_ok (VL [c; x_C03_mcast_run c]) = VI 1%Z.
Proof.
  intros c Hwf. unfold x_C03_mcast_ok, x_C03_mcast_run.
  change (nthv 0 (VL [c; ?r])) with c. cbv beta zeta.
  change (nthv 1 (VL [c; ?r])) with r.
  rewrite not_panic_mobs. unfold vlist. simpl as_list. rewrite map_map.
  rewrite (map_ext _ (fun o => o) dec_enc_mobs), map_id.
  rewrite mcast_model_passes by exact Hwf. reflexivity.
Qed.
