(* C12 — proofs about the RTSP session model (Model/C12RtspSession.v) *)
From Coq Require Import ZArith List Bool Lia.
From V Require Import Bytes StrGo BytesLemmas C12RtspSession C12TransportProofs.
Import ListNotations.
Open Scope Z_scope.

(* the string-level functions play no role in the automaton proofs *)
Local Opaque canonical_path parse_transport ctl_match.

Ltac break_match :=
  match goal with
  | |- context [match ?x with _ => _ end] =>
      match type of x with
      | sumbool _ _ => destruct x
      | _ => destruct x eqn:?
      end
  | H : context [match ?x with _ => _ end] |- _ =>
      match type of x with
      | sumbool _ _ => destruct x
      | _ => destruct x eqn:?
      end
  end.

Ltac inv_pairs :=
  repeat match goal with
  | H : (_, _) = (_, _) |- _ => inversion H; clear H; subst
  end.

(* open the step function completely *)
Ltac open_step :=
  unfold step, step_orig, step_gen, do_play, do_record, live in *.

Lemma options_is_noop : forall fx e s q,
  s_closed s = false -> q_meth q = MOptions -> step_gen fx e s q = (s, [resp 200 q], []).
Proof. intros fx e s q Hc Hm. unfold step_gen. rewrite Hc, Hm. reflexivity. Qed.

Ltac destruct_hyps :=
  repeat match goal with
  | H : _ /\ _ |- _ => destruct H
  | H : _ \/ _ |- _ => destruct H
  | H : exists _, _ |- _ => destruct H
  end.

Ltac break_goal :=
  match goal with
  | |- context [match ?x with _ => _ end] => destruct x eqn:?
  end.

(* goal of the form  step e s q = (s', rs, fs) -> P, session open *)
Ltac step_crush Hc s q :=
  open_step; rewrite Hc;
  destruct (s_status s) eqn:Hst; destruct (q_meth q) eqn:Hm;
  cbn [legal_go negb];
  repeat break_goal; intro; inv_pairs.

(* ---------------------------------------------------------------- one response per request *)
Lemma one_response_per_request : forall e s q s' rs fs,
  s_closed s = false -> step e s q = (s', rs, fs) ->
  exists r, rs = [r] /\ rs_cseq r = q_cseq q /\ rs_sess r = true.
Proof.
  intros e s q s' rs fs Hc. step_crush Hc s q;
  eexists; (split; [reflexivity | split; reflexivity]).
Qed.

(* ---------------------------------------------------------------- the handlers *)
Definition next_ready (st : status) : status := match st with SInit => SReady | x => x end.

Lemma do_describe_spec : forall e s q s' c,
  do_describe e s q = (s', c) ->
  s_status s' = s_status s /\ s_held s' = s_held s /\ s_closed s' = s_closed s /\ s_tr s' = s_tr s /\
  ((c = 200 /\ s_mode s' = MdPlay) \/
   (c = 404 /\ s_mode s' = s_mode s /\ s_vctl s' = s_vctl s /\ s_actl s' = s_actl s)).
Proof.
  intros e s q s' c. unfold do_describe, upd_ctls, live.
  repeat break_goal; intro; inv_pairs; cbn; auto 10.
Qed.

Lemma do_announce_spec : forall e s q s' c,
  do_announce e s q = (s', c) ->
  s_status s' = s_status s /\ s_held s' = s_held s /\ s_closed s' = s_closed s /\ s_tr s' = s_tr s /\
  ((c = 200 /\ s_mode s' = MdRecord) \/
   (c = 400 /\ s_mode s' = s_mode s /\ s_vctl s' = s_vctl s /\ s_actl s' = s_actl s)).
Proof.
  intros e s q s' c. unfold do_announce, upd_ctls.
  repeat break_goal; intro; inv_pairs; cbn; auto 10.
Qed.

Lemma do_setup_spec : forall e s q s' c,
  do_setup e s q = (s', c) ->
  s_held s' = s_held s /\ s_closed s' = s_closed s /\ s_vctl s' = s_vctl s /\ s_actl s' = s_actl s /\
  code_class c <> 0 /\
  ((c = 200 /\ s_status s' = next_ready (s_status s)) \/
   (is_2xx c = false /\ c <> 455 /\ s_status s' = s_status s)) /\
  (s_mode s' = s_mode s \/
   (s_mode s = MdUnknown /\ exists v a, s_vctl s = CtlOk v /\ s_actl s = CtlOk a /\
                                        ctl_match (q_url q) a || ctl_match (q_url q) v = true)).
Proof.
  intros e s q s' c. unfold do_setup, ready_of, live.
  repeat break_goal; intro; inv_pairs; cbn in *;
  repeat split; auto; try discriminate;
  try (left; split; [reflexivity |
         first [reflexivity | match goal with H : s_status _ = _ |- _ => rewrite H; reflexivity end]]);
  try (left; reflexivity);
  try (right; repeat split; solve [reflexivity | discriminate]);
  try (right; split; [assumption | do 2 eexists; repeat split; eassumption]).
Qed.

(* a SETUP is answered 2xx only when its Transport header is valid (specification [transport_invalid]) *)
Lemma do_setup_valid : forall e s q s' c,
  do_setup e s q = (s', c) -> is_2xx c = true -> transport_invalid (q_transport q) = false.
Proof.
  intros e s q s' c. unfold do_setup, ready_of, live.
  repeat break_goal; intro; inv_pairs; cbn; intros Hx; try discriminate Hx;
  match goal with
  | H : parse_transport (s_tr s) (q_transport q) = (_, false) |- _ =>
      rewrite <- (parse_transport_err_is_spec (s_tr s) (q_transport q)), H; reflexivity
  end.
Qed.

(* ---------------------------------------------------------------- what one step can do *)
Lemma step_basic : forall e s q s' rs fs,
  s_closed s = false -> step e s q = (s', rs, fs) ->
  exists c, rs = [resp c q] /\
    (* TEARDOWN closes and releases; nothing else closes *)
    (q_meth q = MTeardown -> c = 200 /\ s' = closed_of s /\ fs = [ERelease (s_held s); EClose]) /\
    (q_meth q <> MTeardown -> s_closed s' = false) /\
    (* illegal in the current state: 455 and nothing changes *)
    (legal (s_status s) (q_meth q) = false -> s' = s /\ c = 455 /\ fs = []) /\
    (* 455 only for an illegal method, or PLAY/RECORD in ready with the wrong mode/transport *)
    (c = 455 -> legal (s_status s) (q_meth q) = false \/
                (s_status s = SReady /\ (q_meth q = MPlay \/ q_meth q = MRecord))) /\
    (* a refusal changes neither the status nor what is held, and has no effect *)
    (is_2xx c = false -> s_status s' = s_status s /\ s_held s' = s_held s /\ fs = []) /\
    (* without a status change nothing is attached, published or released *)
    (s_status s' = s_status s -> q_meth q <> MTeardown -> s_held s' = s_held s /\ fs = []).
Proof.
  intros e s q s' rs fs Hc. step_crush Hc s q; eexists; (split; [reflexivity|]);
  repeat match goal with
  | H : do_describe _ _ _ = _ |- _ => apply do_describe_spec in H
  | H : do_announce _ _ _ = _ |- _ => apply do_announce_spec in H
  | H : do_setup _ _ _ = _ |- _ => apply do_setup_spec in H
  end;
  cbn in *; repeat split; intros; try congruence; try discriminate; auto;
  try (right; split; [reflexivity | auto]);
  destruct_hyps; subst; cbn in *; try congruence; try discriminate.
Qed.

Lemma step_moves : forall e s q s' c fs,
  s_closed s = false -> step e s q = (s', [resp c q], fs) ->
  code_class c <> 0 /\
  (s_mode s' <> s_mode s ->
     (is_2xx c = true /\ ((q_meth q = MDescribe /\ s_mode s' = MdPlay) \/
                          (q_meth q = MAnnounce /\ s_mode s' = MdRecord))) \/
     (q_meth q = MSetup /\ s_mode s = MdUnknown /\
      exists v a, s_vctl s = CtlOk v /\ s_actl s = CtlOk a /\
                  ctl_match (q_url q) a || ctl_match (q_url q) v = true)) /\
  (s_vctl s' <> s_vctl s \/ s_actl s' <> s_actl s ->
     is_2xx c = true /\ (q_meth q = MDescribe \/ q_meth q = MAnnounce) /\ s_mode s' <> MdUnknown) /\
  (is_2xx c = true -> q_meth q = MDescribe -> s_mode s' = MdPlay) /\
  (is_2xx c = true -> q_meth q = MAnnounce -> s_mode s' = MdRecord) /\
  (is_2xx c = true -> q_meth q = MSetup -> s_status s' = next_ready (s_status s)) /\
  (q_meth q <> MSetup -> q_meth q <> MTeardown -> q_meth q <> MPlay -> q_meth q <> MRecord ->
     s_status s' = s_status s) /\
  (is_2xx c = true -> q_meth q = MPlay ->
     s_status s' = SPlaying /\
     (s_status s = SReady -> s_mode s = MdPlay /\ exists p, s_held s' = HCons p /\ fs = [EAttach p])) /\
  (is_2xx c = true -> q_meth q = MRecord ->
     s_status s' = SRecording /\
     (s_status s = SReady -> s_mode s = MdRecord /\ exists p, s_held s' = HPub p /\ fs = [ERegister p])) /\
  (q_meth q <> MPlay -> q_meth q <> MRecord -> q_meth q <> MTeardown -> s_held s' = s_held s /\ fs = []).
Proof.
  intros e s q s' c fs Hc. step_crush Hc s q;
  repeat match goal with
  | H : do_describe _ _ _ = _ |- _ => apply do_describe_spec in H
  | H : do_announce _ _ _ = _ |- _ => apply do_announce_spec in H
  | H : do_setup _ _ _ = _ |- _ => apply do_setup_spec in H
  end;
  destruct_hyps; subst; cbn in *;
  repeat split; intros; try congruence; try discriminate; auto;
  destruct_hyps; subst; cbn in *; try congruence; try discriminate;
  try (left; split; [reflexivity | auto; fail]);
  try (right; repeat split; auto; do 2 eexists; repeat split; eassumption);
  try (eexists; split; reflexivity);
  try (match goal with H : s_status _ = next_ready _ |- _ => rewrite H end;
       match goal with H : s_status _ = _ |- _ => rewrite H end; reflexivity);
  try (match goal with H : negb (smode_eqb (s_mode ?s) _) || _ = false |- _ =>
         apply orb_false_elim in H; destruct H as [H _]; destruct (s_mode s); cbn in H; congruence end).
Qed.

(* ---------------------------------------------------------------- small facts *)
Lemma ctl_match_nil : forall u, u <> [] -> ctl_match u [] = false.
Proof.
  intros u Hu. Local Transparent ctl_match. unfold ctl_match. Local Opaque ctl_match.
  destruct u; [congruence | reflexivity].
Qed.

Lemma req_wf_url : forall q, req_wf q = true -> q_url q <> [].
Proof. unfold req_wf. intros q H. destruct (q_url q); [discriminate | congruence]. Qed.

Lemma code_class_455 : forall c, code_class c = 455 -> c = 455.
Proof.
  intros c. unfold code_class.
  repeat match goal with |- context [if ?b then _ else _] => destruct b eqn:? end;
  try discriminate. intros _. lia.
Qed.

Lemma pair_eqb_refl : forall x, pair_eqb x x = true.
Proof. intros [a b]. unfold pair_eqb. cbn. rewrite !Z.eqb_refl. reflexivity. Qed.
Lemma reg_eqb_refl : forall r, reg_eqb r r = true.
Proof. induction r; cbn; [reflexivity | rewrite pair_eqb_refl, IHr; reflexivity]. Qed.

Lemma reg_has_cons_inv : forall ext h w,
  reg_has_cons (registry ext h w) = true -> exists p, h = HCons p.
Proof.
  intros ext h w. unfold reg_has_cons, registry. rewrite existsb_exists.
  intros [x [Hin Hx]]. apply in_map_iff in Hin. destruct Hin as [p [Hp _]]. subst x.
  unfold reg_entry in Hx. cbn in Hx. destruct h; cbn in Hx; try discriminate. eauto.
Qed.
Lemma reg_has_own_inv : forall ext h w,
  reg_has_own (registry ext h w) = true -> exists p, h = HPub p.
Proof.
  intros ext h w. unfold reg_has_own, registry. rewrite existsb_exists.
  intros [x [Hin Hx]]. apply in_map_iff in Hin. destruct Hin as [p [Hp _]]. subst x.
  unfold reg_entry in Hx. cbn in Hx. destruct h; cbn in Hx; eauto;
  destruct (bytes_in p ext); discriminate.
Qed.
Lemma reg_no_self_none : forall ext w, reg_no_self (registry ext HNone w) = true.
Proof.
  intros ext w. unfold reg_no_self, registry. rewrite forallb_forall.
  intros x Hin. apply in_map_iff in Hin. destruct Hin as [p [Hp _]]. subst x.
  unfold reg_entry. cbn. destruct (bytes_in p ext); reflexivity.
Qed.

(* ---------------------------------------------------------------- derived statements *)
Lemma illegal_is_455_noop : forall e s q,
  s_closed s = false -> legal (s_status s) (q_meth q) = false ->
  step e s q = (s, [resp 455 q], []).
Proof.
  intros e s q Hc Hl. destruct (step e s q) as [[s' rs] fs] eqn:Hs.
  destruct (step_basic _ _ _ _ _ _ Hc Hs) as [c [-> [_ [_ [Bill _]]]]].
  destruct (Bill Hl) as [-> [-> ->]]. reflexivity.
Qed.

(* effects happen only in the successful PLAY / RECORD transitions and in TEARDOWN *)
Lemma effects_only_on_success : forall e s q s' rs fs f,
  s_closed s = false -> step e s q = (s', rs, fs) -> In f fs ->
  match f with
  | EAttach p => q_meth q = MPlay /\ rs = [resp 200 q] /\ s_status s = SReady /\
                 s_status s' = SPlaying /\ s_held s' = HCons p
  | ERegister p => q_meth q = MRecord /\ rs = [resp 200 q] /\ s_status s = SReady /\
                   s_status s' = SRecording /\ s_held s' = HPub p
  | ERelease h => q_meth q = MTeardown /\ h = s_held s
  | EClose => q_meth q = MTeardown
  end.
Proof.
  intros e s q s' rs fs f Hc Hs Hin.
  destruct (step_basic _ _ _ _ _ _ Hc Hs) as [c [-> [Btd [Bop [_ [_ [Bref Bsame]]]]]]].
  destruct (step_moves _ _ _ _ _ _ Hc Hs) as [_ [_ [_ [_ [_ [_ [Gst [Gp [Gr Gheld]]]]]]]]].
  destruct (q_meth q) eqn:Hm;
  try (destruct (Gheld ltac:(discriminate) ltac:(discriminate) ltac:(discriminate)) as [_ ->]; destruct Hin).
  - (* PLAY *)
    destruct (is_2xx c) eqn:H2; [|destruct (Bref eq_refl) as [_ [_ ->]]; destruct Hin].
    destruct (Gp eq_refl eq_refl) as [Hst' Hrdy].
    destruct (status_eqb (s_status s) SReady) eqn:Hr.
    + assert (Hst : s_status s = SReady) by (destruct (s_status s); try discriminate; reflexivity).
      destruct (Hrdy Hst) as [_ [p [Hh ->]]]. destruct Hin as [<- | []].
      assert (c = 200).
      { unfold step, step_gen, do_play, live in Hs. rewrite Hc, Hm, Hst in Hs. cbn in Hs.
        repeat break_match; inv_pairs; try discriminate; reflexivity. }
      subst c. auto.
    + assert (Hst : s_status s' = s_status s).
      { unfold step, step_gen, do_play in Hs. rewrite Hc, Hm in Hs.
        destruct (s_status s) eqn:E; cbn in Hs; try discriminate Hr; inv_pairs; cbn; congruence. }
      destruct (Bsame Hst ltac:(discriminate)) as [_ ->]. destruct Hin.
  - (* RECORD *)
    destruct (is_2xx c) eqn:H2; [|destruct (Bref eq_refl) as [_ [_ ->]]; destruct Hin].
    destruct (Gr eq_refl eq_refl) as [Hst' Hrdy].
    destruct (status_eqb (s_status s) SReady) eqn:Hr.
    + assert (Hst : s_status s = SReady) by (destruct (s_status s); try discriminate; reflexivity).
      destruct (Hrdy Hst) as [_ [p [Hh ->]]]. destruct Hin as [<- | []].
      assert (c = 200).
      { unfold step, step_gen, do_record in Hs. rewrite Hc, Hm, Hst in Hs. cbn in Hs.
        repeat break_match; inv_pairs; try discriminate; reflexivity. }
      subst c. auto.
    + assert (Hst : s_status s' = s_status s).
      { unfold step, step_gen, do_record in Hs. rewrite Hc, Hm in Hs.
        destruct (s_status s) eqn:E; cbn in Hs; try discriminate Hr; inv_pairs; cbn; congruence. }
      destruct (Bsame Hst ltac:(discriminate)) as [_ ->]. destruct Hin.
  - (* TEARDOWN *)
    destruct (Btd eq_refl) as [_ [_ ->]]. destruct Hin as [<- | [<- | []]]; auto.
Qed.

Lemma teardown_releases : forall e s q,
  s_closed s = false -> q_meth q = MTeardown ->
  step e s q = (closed_of s, [resp 200 q], [ERelease (s_held s); EClose]).
Proof. intros e s q Hc Hm. unfold step, step_gen. rewrite Hc, Hm. reflexivity. Qed.

Lemma disconnect_releases : forall s,
  s_closed s = false -> disconnect s = (closed_of s, [ERelease (s_held s); EClose]).
Proof. intros s Hc. unfold disconnect. rewrite Hc. reflexivity. Qed.

Lemma closed_holds_nothing : forall s ext w,
  s_closed (closed_of s) = true /\ s_held (closed_of s) = HNone /\
  reg_no_self (registry ext (s_held (closed_of s)) w) = true.
Proof. intros. cbn. repeat split. apply reg_no_self_none. Qed.

(* a closed session answers nothing and does nothing *)
Lemma closed_is_silent : forall e s q, s_closed s = true -> step e s q = (s, [], []).
Proof. intros e s q Hc. unfold step, step_gen. rewrite Hc. reflexivity. Qed.

(* after any refusal the session is still open, unchanged in status and holdings,
   and answers the next request *)
Lemma usable_after_refusal : forall e s q s' c fs,
  s_closed s = false -> step e s q = (s', [resp c q], fs) -> is_2xx c = false ->
  s_closed s' = false /\ s_status s' = s_status s /\ s_held s' = s_held s /\ fs = [] /\
  forall q2, exists r, snd (fst (step e s' q2)) = [r] /\ rs_cseq r = q_cseq q2 /\ rs_sess r = true.
Proof.
  intros e s q s' c fs Hc Hs H2.
  destruct (step_basic _ _ _ _ _ _ Hc Hs) as [c' [Hrs [Btd [Bop [_ [_ [Bref _]]]]]]].
  inversion Hrs; subst c'.
  assert (Hnt : q_meth q <> MTeardown).
  { intros E. destruct (Btd E) as [-> _]. discriminate. }
  destruct (Bref H2) as [Hst [Hh Hfs]]. pose proof (Bop Hnt) as Hcl.
  repeat split; auto.
  intros q2. destruct (step e s' q2) as [[s2 rs2] fs2] eqn:Hs2.
  exact (one_response_per_request _ _ _ _ _ _ Hcl Hs2).
Qed.

(* ---------------------------------------------------------------- the code before the fixes *)
(* D25: PLAY while playing was left unanswered *)
Lemma one_response_refuted : exists e s q,
  s_closed s = false /\ snd (fst (step_orig e s q)) = [].
Proof.
  exists {| e_sdp := fun _ => None; e_live := fun _ => None |}.
  exists (set_status (init_sess false []) SPlaying).
  exists {| q_meth := MPlay; q_cseq := [49]; q_url := [117]; q_path := [47]; q_transport := [];
            q_ctype_ok := false; q_sdp := 0 |}.
  split; reflexivity.
Qed.

(* D25b: a PLAY refused with 461 switched the session to playing *)
Lemma refused_play_changed_state_refuted : exists e s q,
  s_closed s = false /\ s_status s = SReady /\
  snd (fst (step_orig e s q)) = [resp 461 q] /\ s_status (fst (fst (step_orig e s q))) = SPlaying.
Proof.
  exists {| e_sdp := fun _ => None; e_live := fun _ => Some (1, false) |}.
  exists (set_tr (set_mode (set_status (init_sess false []) SReady) MdPlay) {| t_mode := MdPlay; t_type := TMcast |}).
  exists {| q_meth := MPlay; q_cseq := [49]; q_url := [117]; q_path := [47]; q_transport := [];
            q_ctype_ok := false; q_sdp := 0 |}.
  repeat split; reflexivity.
Qed.

Lemma step_setup_valid : forall e s q s' c fs,
  s_closed s = false -> step e s q = (s', [resp c q], fs) ->
  q_meth q = MSetup -> is_2xx c = true -> transport_invalid (q_transport q) = false.
Proof.
  intros e s q s' c fs Hc Hs Hm H2. unfold step, step_gen in Hs. rewrite Hc, Hm in Hs.
  destruct (negb (legal_go (s_status s) MSetup)).
  - inversion Hs; subst. discriminate H2.
  - destruct (do_setup e s q) as [s1 c1] eqn:Hd. inversion Hs; subst.
    eapply do_setup_valid; eauto.
Qed.
