(* C12 — proofs about the RTSP session model (Model/C12RtspSession.v) *)
From Coq Require Import ZArith List Bool Lia.
From V Require Import Bytes StrGo C12RtspSession.
Import ListNotations.
Open Scope Z_scope.

Lemma options_is_noop : forall fx e s q,
  s_closed s = false -> q_meth q = MOptions -> step_gen fx e s q = (s, [resp 200 q], []).
Proof. intros fx e s q Hc Hm. unfold step_gen. rewrite Hc, Hm. reflexivity. Qed.
