(* The model passes the oracles of Model/LtsOracle.v: for every case of the [fixed] variant the
   observation of the model's final state satisfies [ok_C03], [ok_C01], [ok_C04].  These are the
   boolean functions bin/check applies to the observation of the real media.Stream.

   Every clause of an oracle is read off a state-level theorem of LtsReleaseProofs (C03),
   LtsFanoutProofs (C01) or LtsBacklogProofs (C04), instantiated with the RTP pack cache
   [rcache].  Two facts about that cache are proved here because the state-level theorems take
   them as hypotheses on the join replay [c_prefill]: the replay never repeats an id, and it
   holds at most VPS, SPS, PPS and one GOP (<= 3 + G packets when every G consecutive published
   packets contain a key-frame start). *)
From Coq Require Import ZArith List Bool Arith Lia.
From V Require Import Val StreamLts Cache LtsWire LtsOracle CacheProofs.
From V Require LtsReleaseProofs LtsBacklogProofs LtsFanoutProofs.
Import ListNotations.
Local Open Scope nat_scope.

Local Arguments s_ok {cache_t}.
Local Arguments s_lock {cache_t}.
Local Arguments s_lockq {cache_t}.
Local Arguments s_cache {cache_t}.
Local Arguments s_sent {cache_t}.
Local Arguments s_cached {cache_t}.
Local Arguments s_todo {cache_t}.
Local Arguments s_pp {cache_t}.
Local Arguments s_count {cache_t}.
Local Arguments s_cs {cache_t}.
Local Arguments s_att {cache_t}.
Local Arguments s_stp {cache_t}.
Local Arguments s_kp {cache_t}.

(* ------------------------------------------------------------------ *)
(** * 0. the decoder inverts the wire encoding *)

Lemma as_bool_vbool : forall b, as_bool (vbool b) = b.
Proof. destruct b; reflexivity. Qed.

Lemma dec_enc_cons : forall (s : lstate) c, dec_cobs (enc_cons s c) = cobs_of s c.
Proof.
  intros s c. unfold dec_cobs, enc_cons, cobs_of.
  cbn [nthv as_list nth as_int vnat vlist].
  rewrite map_map. cbn [as_int]. rewrite as_bool_vbool.
  destruct (c_reg (s_cs s c)); cbn [as_int vbool as_bool]; [destruct (c_disc (s_cs s c))|]; reflexivity.
Qed.

Theorem dec_enc_obs : forall n (s : lstate), dec_obs (enc_state n s) = obs_of_state n s.
Proof.
  intros n s. unfold dec_obs, enc_state, obs_of_state.
  cbn [nthv as_list nth as_int vnat vlist].
  rewrite map_map, as_bool_vbool.
  rewrite (map_ext _ _ (dec_enc_cons s)). reflexivity.
Qed.

(* ------------------------------------------------------------------ *)
(** * 1. helpers: indexed quantification, codes *)

Lemma nth_map_seq : forall A (g : nat -> A) n i d, i < n -> nth i (map g (seq 0 n)) d = g i.
Proof.
  intros A g n i d Hi.
  rewrite (nth_indep _ d (g 0)) by (rewrite map_length, seq_length; exact Hi).
  rewrite map_nth, seq_nth by exact Hi. reflexivity.
Qed.

Lemma forall_cons_map : forall f (g : nat -> cobs) n,
  (forall i, i < n -> f i (g i) = true) -> forall_cons f (map g (seq 0 n)) = true.
Proof.
  intros f g n H. unfold forall_cons. rewrite map_length, seq_length.
  apply forallb_forall. intros i Hi. apply in_seq in Hi.
  rewrite nth_map_seq by lia. apply H. lia.
Qed.

Lemma forallb_map_seq : forall (f : cobs -> bool) (g : nat -> cobs) n,
  (forall i, i < n -> f (g i) = true) -> forallb f (map g (seq 0 n)) = true.
Proof.
  intros f g n H. apply forallb_forall. intros k Hk. apply in_map_iff in Hk.
  destruct Hk as (i & <- & Hi). apply in_seq in Hi. apply H. lia.
Qed.

Lemma forallb_map_seq_inv : forall (f : cobs -> bool) (g : nat -> cobs) n,
  forallb f (map g (seq 0 n)) = true -> forall i, i < n -> f (g i) = true.
Proof.
  intros f g n H i Hi. rewrite forallb_forall in H. apply H. apply in_map. apply in_seq. lia.
Qed.

Lemma cpc_code_5 : forall pc, cpc_code pc = 5%Z -> pc = CDone.
Proof. destruct pc; cbn; intros H; try discriminate; reflexivity. Qed.
Lemma apc_code_5 : forall a, apc_code a = 5%Z -> a = ADone.
Proof. destruct a; cbn; intros H; try discriminate; reflexivity. Qed.
Lemma spc_code_5 : forall a, spc_code a = 5%Z -> a = SDone.
Proof. destruct a; cbn; intros H; try discriminate; reflexivity. Qed.
Lemma kpc_code_5 : forall a, kpc_code a = 5%Z -> a = KDone.
Proof. destruct a; cbn; intros H; try discriminate; reflexivity. Qed.
Lemma spc_code_1 : forall a, spc_code a <> 1%Z -> a <> S1.
Proof. intros a H ->. apply H. reflexivity. Qed.
Lemma cpc_code_4 : forall pc, cpc_code pc <> 4%Z -> pc <> CExitLoaded.
Proof. intros a H ->. apply H. reflexivity. Qed.

(* the goroutine's step is disabled exactly at the codes 0, 3, 5 *)
Lemma cons_rest_no_step : forall V maxq ce n pa (s : lstate) i,
  pc_rest (cpc_code (c_pc (s_cs s i))) = true ->
  step V maxq rcache ce rc_add rc_snap n pa s (TCons i) = None.
Proof.
  intros V maxq ce n pa s i H. unfold step, step_cons.
  destruct (i <? n); [|reflexivity].
  destruct (c_pc (s_cs s i)); try reflexivity; discriminate.
Qed.

Lemma stop_done_no_step : forall V maxq ce n pa (s : lstate) i,
  s_stp s i = SDone -> s_att s i = ADone ->
  step V maxq rcache ce rc_add rc_snap n pa s (TStop i) = None.
Proof.
  intros V maxq ce n pa s i Hs Ha. unfold step, step_stop.
  destruct (i <? n); [|reflexivity]. rewrite Ha, Hs. reflexivity.
Qed.

Lemma att_done_no_step : forall V maxq ce n pa (s : lstate) i,
  s_att s i = ADone ->
  step V maxq rcache ce rc_add rc_snap n pa s (TAtt i) = None.
Proof.
  intros V maxq ce n pa s i Ha. unfold step, step_att.
  destruct (i <? n); [|reflexivity]. rewrite Ha. reflexivity.
Qed.

Lemma sumn_sumz : forall n f, LtsReleaseProofs.sumn n f = sumz (map f (seq 0 n)).
Proof.
  induction n as [|n IH]; intros f; [reflexivity|].
  cbn [LtsReleaseProofs.sumn]. rewrite IH, seq_S, map_app. cbn [map plus].
  unfold sumz. rewrite fold_right_app. cbn [fold_right].
  generalize (map f (seq 0 n)). intros l. induction l as [|a l IHl]; cbn [fold_right]; lia.
Qed.

(* the final state of a case of the fixed variant, in the form the state-level theorems use *)
Definition pan (c : lcase) : nat -> nat := fun i => nth i (l_panic c) O.
Definition stp (c : lcase) : nat -> bool := fun i => nth i (l_stop c) false.

Lemma lrun_fixed : forall c, l_var c = fixed ->
  lrun c = run fixed (l_maxq c) rcache (rc_empty (l_gop c)) rc_add rc_snap (l_n c) (pan c) (l_sched c)
               (init rcache (rc_empty (l_gop c)) (l_pkts c) (stp c)).
Proof. intros c Hv. unfold lrun. rewrite Hv. reflexivity. Qed.

(* ------------------------------------------------------------------ *)
(** * 2. C03 *)

Theorem C03_model_passes : forall c : lcase,
  l_var c = fixed -> ok_C03 c (obs_of_state (l_n c) (lrun c)) = true.
Proof.
  intros c Hv. pose proof (lrun_fixed c Hv) as Hs.
  set (s := lrun c) in *.
  pose proof (LtsReleaseProofs.count_nonneg (l_maxq c) rcache (rc_empty (l_gop c)) rc_add rc_snap
                (l_n c) (pan c) (stp c) (l_sched c) (l_pkts c)) as Hcnt.
  pose proof (LtsReleaseProofs.closed_at_most_once (l_maxq c) rcache (rc_empty (l_gop c)) rc_add rc_snap
                (l_n c) (pan c) (stp c) (l_sched c) (l_pkts c)) as Hcl.
  pose proof (LtsReleaseProofs.released_after_close_local (l_maxq c) rcache (rc_empty (l_gop c)) rc_add
                rc_snap (l_n c) (pan c) (stp c) (l_sched c) (l_pkts c)) as Hrel.
  pose proof (LtsReleaseProofs.stopped_is_released_local (l_maxq c) rcache (rc_empty (l_gop c)) rc_add
                rc_snap (l_n c) (pan c) (stp c) (l_sched c) (l_pkts c)) as Hstop.
  pose proof (LtsReleaseProofs.count_registered_settled (l_maxq c) rcache (rc_empty (l_gop c)) rc_add
                rc_snap (l_n c) (pan c) (stp c) (l_sched c) (l_pkts c)) as Hset.
  cbv zeta in Hcnt, Hcl, Hrel, Hstop, Hset. rewrite <- Hs in Hcnt, Hcl, Hrel, Hstop, Hset.
  assert (Hreleased : forall i,
            c_pc (s_cs s i) = CDone /\ c_closes (s_cs s i) = 1 /\ c_reg (s_cs s i) = false ->
            released (cobs_of s i) = true).
  { intros i (H1 & H2 & H3). unfold released, cobs_of. cbn [o_pc o_closes o_reg].
    rewrite H1, H2, H3. reflexivity. }
  unfold ok_C03, obs_of_state. cbn [o_cons o_count o_kp].
  rewrite !andb_true_iff. repeat split.
  - rewrite map_length, seq_length. apply Nat.eqb_refl.
  - apply Z.leb_le. exact Hcnt.
  - apply forall_cons_map. intros i Hi. rewrite !andb_true_iff. repeat split.
    + apply Z.leb_le. unfold cobs_of. cbn [o_closes]. specialize (Hcl i). lia.
    + destruct (_ && _ && _ && _) eqn:E; [|reflexivity].
      rewrite !andb_true_iff in E. destruct E as (((Ek & Ea) & Ep) & Est).
      unfold cobs_of in Ek, Ea, Ep, Est. cbn [o_att o_pc o_stp] in Ek, Ea, Ep, Est.
      apply Z.eqb_eq in Ek, Ea, Est.
      apply kpc_code_5 in Ek. apply apc_code_5 in Ea. apply spc_code_5 in Est.
      apply Hreleased. apply Hrel; [exact Ek|exact Ea| |].
      * apply cons_rest_no_step. exact Ep.
      * apply stop_done_no_step; assumption.
    + destruct (_ && _ && _ && _) eqn:E; [|reflexivity].
      rewrite !andb_true_iff in E. destruct E as (((Ek & Ea) & Est) & Ep).
      unfold cobs_of in Ea, Ep, Est. cbn [o_att o_pc o_stp] in Ea, Ep, Est.
      apply Z.eqb_eq in Ea, Est. apply apc_code_5 in Ea. apply spc_code_5 in Est.
      apply Hreleased. apply Hstop.
      * apply cons_rest_no_step. exact Ep.
      * apply stop_done_no_step; assumption.
      * apply att_done_no_step. exact Ea.
      * exact Ea.
      * exact Ek.
  - destruct (forallb _ _) eqn:E; [|reflexivity].
    apply Z.eqb_eq. rewrite Hset.
    + rewrite sumn_sumz, map_map. reflexivity.
    + intros i Hi. pose proof (forallb_map_seq_inv _ _ _ E i Hi) as Ei. cbv beta in Ei.
      unfold cobs_of in Ei. cbn [o_stp o_pc] in Ei.
      rewrite andb_true_iff, !negb_true_iff in Ei. destruct Ei as [E1 E2].
      apply Z.eqb_neq in E1, E2. split; [apply spc_code_1|apply cpc_code_4]; assumption.
Qed.

(* ------------------------------------------------------------------ *)
(** * 3. the join replay of the RTP cache: no repeated id, at most [VPS] SPS PPS + one GOP *)

Local Notation subseq := LtsFanoutProofs.subseq.
Local Notation since := LtsBacklogProofs.since.
Local Notation gap_ok := LtsBacklogProofs.gap_ok.

Lemma subseq_snoc : forall A (a l : list A) p, subseq a l -> subseq (a ++ [p]) (l ++ [p]).
Proof.
  intros A a l p H. induction H as [l|l1 x l2 H IH|l1 x l2 H IH]; cbn [app].
  - apply LtsFanoutProofs.subseq_app_r.
  - apply LtsFanoutProofs.sub_skip. exact IH.
  - apply LtsFanoutProofs.sub_take. exact IH.
Qed.

Lemma subseq_grow : forall A (a l : list A) p, subseq a l -> subseq a (l ++ [p]).
Proof.
  intros A a l p H. eapply LtsFanoutProofs.subseq_trans; [exact H|apply LtsFanoutProofs.subseq_app_l].
Qed.

Lemma media_kind : forall x, is_media x = true ->
  p_kind x <> 0%Z /\ p_kind x <> 3%Z /\ p_kind x <> 4%Z /\ p_kind x <> 5%Z.
Proof.
  intros x H. unfold is_media in H. rewrite !andb_true_iff, !negb_true_iff in H.
  destruct H as (((H0 & H3) & H4) & H5). apply Z.eqb_neq in H0, H3, H4, H5. auto.
Qed.

Lemma kind_media : forall x,
  p_kind x <> 0%Z -> p_kind x <> 5%Z -> p_kind x <> 3%Z -> p_kind x <> 4%Z -> is_media x = true.
Proof.
  intros x H0 H5 H3 H4. unfold is_media. apply Z.eqb_neq in H0, H3, H4, H5.
  rewrite H0, H3, H4, H5. reflexivity.
Qed.

Lemma not_key : forall x, p_kind x <> 2%Z -> p_key x = false.
Proof. intros x H. unfold p_key. apply Z.eqb_neq. exact H. Qed.

(* a parameter-set slot holds a packet of its kind taken from the log *)
Definition par (k : Z) (l : list pkt) (o : option pkt) : Prop :=
  forall p, o = Some p -> In p l /\ p_kind p = k.

Lemma par_grow : forall k l o p, par k l o -> par k (l ++ [p]) o.
Proof. intros k l o p H q Hq. destruct (H q Hq) as [H1 H2]. split; [apply in_or_app; left|]; assumption. Qed.

Lemma par_set : forall k l p, p_kind p = k -> par k (l ++ [p]) (Some p).
Proof.
  intros k l p Hk q Hq. inversion Hq; subst q. split; [apply in_or_app; right; left; reflexivity|exact Hk].
Qed.

Lemma par_none : forall k l, par k l None.
Proof. intros k l p H. discriminate. Qed.

(* what the cache holds after the log [l] was handed to it (possibly reset in between) *)
(* [go]: the cache_gop setting of the stream *)
Definition gop_shape (g : list pkt) : Prop :=
  match g with
  | [] => True
  | k :: r => p_key k = true /\ forall q, In q r -> p_key q = false
  end.

Record RI0 (go : bool) (l : list pkt) (ca : rcache) : Prop := {
  r0_flag : rc_gopon ca = go;
  r0_head : gop_shape (rc_gop ca);
  r0_vps : par 5 l (rc_vps ca);
  r0_sps : par 3 l (rc_sps ca);
  r0_pps : par 4 l (rc_pps ca);
  r0_gop : subseq (rc_gop ca) l;
  r0_media : forall p, In p (rc_gop ca) -> is_media p = true;
  r0_len : rc_gop ca = [] \/ length (rc_gop ca) <= S (since l);
  r0_off : rc_gopon ca = false -> rc_gop ca = []
}.

Lemma RI0_empty : forall l g, RI0 g l (rc_empty g).
Proof.
  intros l g. constructor; cbn [rc_empty rc_vps rc_sps rc_pps rc_gop rc_gopon]; try apply par_none.
  - reflexivity.
  - exact I.
  - apply LtsFanoutProofs.sub_nil.
  - intros p [].
  - left; reflexivity.
  - reflexivity.
Qed.

Lemma since_grow_nokey : forall l p, p_key p = false -> since (l ++ [p]) = S (since l).
Proof. intros l p H. rewrite LtsBacklogProofs.since_snoc, H. reflexivity. Qed.

Lemma RI0_grow_same : forall go l ca p, p_key p = false -> RI0 go l ca -> RI0 go (l ++ [p]) ca.
Proof.
  intros go l ca p Hk [Hf Hh Hv Hs Hp Hg Hm Hl Ho]. constructor; try (apply par_grow; assumption); try assumption.
  - apply subseq_grow. exact Hg.
  - destruct Hl as [Hl|Hl]; [left; exact Hl|right]. rewrite since_grow_nokey by exact Hk. lia.
Qed.

Lemma RI0_add : forall go l ca p, RI0 go l ca -> RI0 go (l ++ [p]) (rc_add ca p).
Proof.
  intros go l ca p HR.
  destruct (Z.eq_dec (p_kind p) 0) as [K0|K0].
  { unfold rc_add. rewrite K0. apply RI0_grow_same; [apply not_key; lia|exact HR]. }
  destruct (Z.eq_dec (p_kind p) 5) as [K5|K5].
  { assert (Hk : p_key p = false) by (apply not_key; lia).
    pose proof (RI0_grow_same go l ca p Hk HR) as [Hf Hh Hv Hs Hp Hg Hm Hl Ho].
    unfold rc_add. rewrite K5. constructor; cbn [rc_vps rc_sps rc_pps rc_gop rc_gopon]; try assumption.
    apply par_set. exact K5. }
  destruct (Z.eq_dec (p_kind p) 3) as [K3|K3].
  { assert (Hk : p_key p = false) by (apply not_key; lia).
    pose proof (RI0_grow_same go l ca p Hk HR) as [Hf Hh Hv Hs Hp Hg Hm Hl Ho].
    unfold rc_add. rewrite K3. constructor; cbn [rc_vps rc_sps rc_pps rc_gop rc_gopon]; try assumption.
    apply par_set. exact K3. }
  destruct (Z.eq_dec (p_kind p) 4) as [K4|K4].
  { assert (Hk : p_key p = false) by (apply not_key; lia).
    pose proof (RI0_grow_same go l ca p Hk HR) as [Hf Hh Hv Hs Hp Hg Hm Hl Ho].
    unfold rc_add. rewrite K4. constructor; cbn [rc_vps rc_sps rc_pps rc_gop rc_gopon]; try assumption.
    apply par_set. exact K4. }
  rewrite rc_add_other by assumption. unfold rc_add_media.
  pose proof (kind_media p K0 K5 K3 K4) as Hmp.
  destruct (rc_gopon ca) eqn:Eg.
  - destruct (p_key p) eqn:Ek.
    + destruct HR as [Hf Hh Hv Hs Hp Hg Hm Hl Ho].
      constructor; cbn [rc_vps rc_sps rc_pps rc_gop rc_gopon]; try (apply par_grow; assumption).
      * congruence.
      * split; [exact Ek|intros q []].
      * apply (LtsFanoutProofs.subseq_app_r _ l [p]).
      * intros q [<-|[]]. exact Hmp.
      * right. cbn [length]. lia.
      * discriminate.
    + destruct (rc_gop ca) as [|g0 gs] eqn:Egop.
      * apply RI0_grow_same; assumption.
      * destruct HR as [Hf Hh Hv Hs Hp Hg Hm Hl Ho].
        constructor; cbn [rc_vps rc_sps rc_pps rc_gop rc_gopon]; try (apply par_grow; assumption).
        -- congruence.
        -- rewrite Egop in Hh. destruct Hh as [Hh1 Hh2]. cbn [app gop_shape]. split; [exact Hh1|].
           intros q Hq. apply in_app_or in Hq. destruct Hq as [Hq|[<-|[]]]; [apply Hh2; exact Hq|exact Ek].
        -- rewrite Egop in Hg. apply subseq_snoc. exact Hg.
        -- intros q Hq. apply in_app_or in Hq. destruct Hq as [Hq|[<-|[]]]; [|exact Hmp].
           apply Hm. rewrite Egop. exact Hq.
        -- right. rewrite since_grow_nokey by exact Ek. rewrite app_length. cbn [length].
           destruct Hl as [Hl|Hl]; [rewrite Egop in Hl; discriminate|].
           rewrite Egop in Hl. cbn [length] in Hl. lia.
        -- discriminate.
  - destruct (p_key p) eqn:Ek.
    + (* the GOP cache is off: nothing is stored, whatever the key spacing *)
      destruct HR as [Hf Hh Hv Hs Hp Hg Hm Hl Ho].
      constructor; try (apply par_grow; assumption); try assumption.
      * apply subseq_grow. exact Hg.
      * left. apply Ho. exact Eg.
    + apply RI0_grow_same; assumption.
Qed.


(* the GOP slot holds ALL video packets handed to the cache since its key-frame start *)
Definition RC (l : list pkt) (ca : rcache) : Prop :=
  rc_gop ca = [] \/ exists a, a <= length l /\ rc_gop ca = filter is_media (skipn a l).

Lemma RC_grow_nonmedia : forall l ca p, is_media p = false -> RC l ca -> RC (l ++ [p]) ca.
Proof.
  intros l ca p Hm [E|(a & Ha & E)]; [left; exact E|right].
  exists a. split; [rewrite app_length; lia|].
  rewrite skipn_app. replace (a - length l) with 0 by lia.
  rewrite filter_app. cbn [skipn filter]. rewrite Hm, app_nil_r. exact E.
Qed.

Lemma RC_add : forall go l ca p, RI0 go l ca -> RC l ca -> RC (l ++ [p]) (rc_add ca p).
Proof.
  intros go l ca p HR HC.
  destruct (Z.eq_dec (p_kind p) 0) as [K0|K0].
  { unfold rc_add. rewrite K0. apply RC_grow_nonmedia; [unfold is_media; rewrite K0; reflexivity|exact HC]. }
  destruct (Z.eq_dec (p_kind p) 5) as [K5|K5].
  { unfold rc_add. rewrite K5.
    apply (RC_grow_nonmedia l ca p) in HC; [exact HC|unfold is_media; rewrite K5; reflexivity]. }
  destruct (Z.eq_dec (p_kind p) 3) as [K3|K3].
  { unfold rc_add. rewrite K3.
    apply (RC_grow_nonmedia l ca p) in HC; [exact HC|unfold is_media; rewrite K3; reflexivity]. }
  destruct (Z.eq_dec (p_kind p) 4) as [K4|K4].
  { unfold rc_add. rewrite K4.
    apply (RC_grow_nonmedia l ca p) in HC; [exact HC|unfold is_media; rewrite K4; reflexivity]. }
  rewrite rc_add_other by assumption. unfold rc_add_media.
  pose proof (kind_media p K0 K5 K3 K4) as Hmp.
  destruct (rc_gopon ca) eqn:Eg.
  - destruct (p_key p).
    + right. exists (length l). split; [rewrite app_length; lia|].
      cbn [rc_gop]. rewrite skipn_app, skipn_all, Nat.sub_diag. cbn [skipn app filter].
      rewrite Hmp. reflexivity.
    + destruct (rc_gop ca) as [|g0 gs] eqn:Egop.
      * left. exact Egop.
      * right. destruct HC as [E|(a & Ha & E)]; [rewrite Egop in E; discriminate|].
        exists a. split; [rewrite app_length; lia|]. cbn [rc_gop].
        rewrite skipn_app. replace (a - length l) with 0 by lia.
        rewrite filter_app. cbn [skipn filter]. rewrite Hmp, <- E, Egop. reflexivity.
  - left. apply (r0_off _ _ _ HR). exact Eg.
Qed.

Definition RI (go : bool) (l : list pkt) (ca : rcache) : Prop := RI0 go l ca /\ RC l ca.

Lemma ri_flag : forall go l ca, RI go l ca -> rc_gopon ca = go.
Proof. intros go l ca [H _]. apply (r0_flag _ _ _ H). Qed.
Lemma ri_head : forall go l ca, RI go l ca -> gop_shape (rc_gop ca).
Proof. intros go l ca [H _]. apply (r0_head _ _ _ H). Qed.
Lemma ri_vps : forall go l ca, RI go l ca -> par 5 l (rc_vps ca).
Proof. intros go l ca [H _]. apply (r0_vps _ _ _ H). Qed.
Lemma ri_sps : forall go l ca, RI go l ca -> par 3 l (rc_sps ca).
Proof. intros go l ca [H _]. apply (r0_sps _ _ _ H). Qed.
Lemma ri_pps : forall go l ca, RI go l ca -> par 4 l (rc_pps ca).
Proof. intros go l ca [H _]. apply (r0_pps _ _ _ H). Qed.
Lemma ri_gop : forall go l ca, RI go l ca -> subseq (rc_gop ca) l.
Proof. intros go l ca [H _]. apply (r0_gop _ _ _ H). Qed.
Lemma ri_media : forall go l ca, RI go l ca -> forall p, In p (rc_gop ca) -> is_media p = true.
Proof. intros go l ca [H _]. apply (r0_media _ _ _ H). Qed.
Lemma ri_len : forall go l ca, RI go l ca -> rc_gop ca = [] \/ length (rc_gop ca) <= S (since l).
Proof. intros go l ca [H _]. apply (r0_len _ _ _ H). Qed.
Lemma ri_off : forall go l ca, RI go l ca -> rc_gopon ca = false -> rc_gop ca = [].
Proof. intros go l ca [H _]. apply (r0_off _ _ _ H). Qed.
Lemma ri_contig : forall go l ca, RI go l ca -> RC l ca.
Proof. intros go l ca [_ H]. exact H. Qed.

Lemma RI_empty : forall l g, RI g l (rc_empty g).
Proof. intros l g. split; [apply RI0_empty|left; reflexivity]. Qed.

Lemma RI_add : forall go l ca p, RI go l ca -> RI go (l ++ [p]) (rc_add ca p).
Proof. intros go l ca p [H1 H2]. split; [apply RI0_add; exact H1|eapply RC_add; eassumption]. Qed.

Lemma RI_snap : forall go l ca, RI go l ca ->
  rc_snap ca = opt_list (rc_vps ca) ++ opt_list (rc_sps ca) ++ opt_list (rc_pps ca) ++ rc_gop ca.
Proof.
  intros go l ca HR. unfold rc_snap. destruct (rc_gopon ca) eqn:Eg; [reflexivity|].
  rewrite (ri_off _ _ _ HR Eg). reflexivity.
Qed.

Lemma par_in : forall k l o x, par k l o -> In x (opt_list o) -> In x l /\ p_kind x = k.
Proof. intros k l [q|] x H Hx; cbn in Hx; [|contradiction]. destruct Hx as [<-|[]]. apply H. reflexivity. Qed.

Lemma RI_in : forall go l ca x, RI go l ca -> In x (rc_snap ca) -> In x l.
Proof.
  intros go l ca x HR Hx. rewrite (RI_snap _ _ _ HR) in Hx.
  repeat (apply in_app_or in Hx; destruct Hx as [Hx|Hx]).
  - eapply par_in; [apply (ri_vps _ _ _ HR)|exact Hx].
  - eapply par_in; [apply (ri_sps _ _ _ HR)|exact Hx].
  - eapply par_in; [apply (ri_pps _ _ _ HR)|exact Hx].
  - eapply LtsFanoutProofs.subseq_In; [apply (ri_gop _ _ _ HR)|exact Hx].
Qed.

Lemma nodup_id_inj : forall l a b,
  NoDup (map p_id l) -> In a l -> In b l -> p_id a = p_id b -> a = b.
Proof.
  induction l as [|x l IH]; intros a b Hnd Ha Hb E; [contradiction|].
  cbn [map] in Hnd. inversion Hnd as [|? ? Hnin Hnd']; subst.
  destruct Ha as [<-|Ha], Hb as [<-|Hb].
  - reflexivity.
  - exfalso. apply Hnin. rewrite E. apply in_map. exact Hb.
  - exfalso. apply Hnin. rewrite <- E. apply in_map. exact Ha.
  - apply IH; assumption.
Qed.

Lemma nodup_map_id : forall l x,
  NoDup (map p_id l) -> (forall a, In a x -> In a l) -> NoDup x -> NoDup (map p_id x).
Proof.
  intros l x Hnd Hin. induction x as [|a x IH]; intros Hx; cbn [map]; [constructor|].
  inversion Hx as [|? ? Hnin Hx']; subst. constructor.
  - intros Hm. apply in_map_iff in Hm. destruct Hm as (b & Eb & Hb).
    assert (b = a) as -> by (apply (nodup_id_inj l); auto using in_eq, in_cons).
    contradiction.
  - apply IH; [|exact Hx']. intros b Hb. apply Hin. right. exact Hb.
Qed.

Lemma nodup_opt : forall (o : option pkt), NoDup (opt_list o).
Proof. intros [q|]; cbn; repeat constructor. intros []. Qed.

Lemma RI_nodup : forall go l ca, RI go l ca -> NoDup (map p_id l) -> NoDup (map p_id (rc_snap ca)).
Proof.
  intros go l ca HR Hnd.
  apply (nodup_map_id l); [exact Hnd|intros a Ha; eapply RI_in; eassumption|].
  rewrite (RI_snap _ _ _ HR).
  assert (Hv : forall x, In x (opt_list (rc_vps ca)) -> p_kind x = 5%Z)
    by (intros x Hx; eapply par_in; [apply (ri_vps _ _ _ HR)|exact Hx]).
  assert (Hs : forall x, In x (opt_list (rc_sps ca)) -> p_kind x = 3%Z)
    by (intros x Hx; eapply par_in; [apply (ri_sps _ _ _ HR)|exact Hx]).
  assert (Hp : forall x, In x (opt_list (rc_pps ca)) -> p_kind x = 4%Z)
    by (intros x Hx; eapply par_in; [apply (ri_pps _ _ _ HR)|exact Hx]).
  assert (Hg : forall x, In x (rc_gop ca) ->
                 p_kind x <> 0%Z /\ p_kind x <> 3%Z /\ p_kind x <> 4%Z /\ p_kind x <> 5%Z)
    by (intros x Hx; apply media_kind, (ri_media _ _ _ HR), Hx).
  assert (Hgn : NoDup (rc_gop ca)).
  { eapply LtsFanoutProofs.subseq_NoDup; [apply (ri_gop _ _ _ HR)|].
    apply (NoDup_map_inv p_id). exact Hnd. }
  apply LtsFanoutProofs.NoDup_app_intro; [apply nodup_opt| |].
  - apply LtsFanoutProofs.NoDup_app_intro; [apply nodup_opt| |].
    + apply LtsFanoutProofs.NoDup_app_intro; [apply nodup_opt|exact Hgn|].
      intros x H1 H2. apply Hp in H1. apply Hg in H2. lia.
    + intros x H1 H2. apply Hs in H1. apply in_app_or in H2. destruct H2 as [H2|H2].
      * apply Hp in H2. lia.
      * apply Hg in H2. lia.
  - intros x H1 H2. apply Hv in H1. apply in_app_or in H2. destruct H2 as [H2|H2].
    + apply Hs in H2. lia.
    + apply in_app_or in H2. destruct H2 as [H2|H2].
      * apply Hp in H2. lia.
      * apply Hg in H2. lia.
Qed.

Lemma opt_len : forall (o : option pkt), length (opt_list o) <= 1.
Proof. intros [q|]; cbn; lia. Qed.

Lemma RI_len : forall go l ca, RI go l ca -> length (rc_snap ca) <= 3 + S (since l).
Proof.
  intros go l ca HR. rewrite (RI_snap _ _ _ HR), !app_length.
  pose proof (opt_len (rc_vps ca)). pose proof (opt_len (rc_sps ca)). pose proof (opt_len (rc_pps ca)).
  destruct (ri_len _ _ _ HR) as [E|E]; [rewrite E; cbn [length]|]; lia.
Qed.

(* ---- the same facts for every join replay of a reachable state ---- *)

(* a replay is the snapshot of a cache that had been handed a prefix of the current log *)
Definition PR (go : bool) (l pre : list pkt) : Prop :=
  exists l0 rest ca, l = l0 ++ rest /\ RI go l0 ca /\ pre = rc_snap ca.
Definition PI (go : bool) (s : lstate) : Prop :=
  RI go (s_cached s) (s_cache s) /\ forall c, PR go (s_cached s) (c_prefill (s_cs s c)).

Lemma PR_grow : forall go l pre p, PR go l pre -> PR go (l ++ [p]) pre.
Proof.
  intros go l pre p (l0 & rest & ca & -> & HR & ->). exists l0, (rest ++ [p]), ca.
  rewrite app_assoc. auto.
Qed.

Lemma PR_snap : forall go l ca, RI go l ca -> PR go l (rc_snap ca).
Proof. intros go l ca HR. exists l, [], ca. rewrite app_nil_r. auto. Qed.

Lemma PR_nil : forall go l, PR go l [].
Proof.
  intros go l. exists [], l, (rc_empty go). split; [reflexivity|]. split; [apply RI_empty|destruct go; reflexivity].
Qed.

Lemma PI_ext : forall go (s s' : lstate), PI go s ->
  s_cached s' = s_cached s -> s_cache s' = s_cache s ->
  (forall c, c_prefill (s_cs s' c) = c_prefill (s_cs s c)) -> PI go s'.
Proof.
  intros go s s' [H1 H2] E1 E2 E3. split; [rewrite E1, E2; exact H1|].
  intros c. rewrite E1, E3. apply H2.
Qed.

Lemma PI_reset : forall g (s s' : lstate), PI g s ->
  s_cached s' = s_cached s -> s_cache s' = rc_empty g ->
  (forall c, c_prefill (s_cs s' c) = c_prefill (s_cs s c)) -> PI g s'.
Proof.
  intros g s s' [H1 H2] E1 E2 E3. split; [rewrite E2; apply RI_empty|].
  intros c. rewrite E1, E3. apply H2.
Qed.

(* the per-consumer operations never touch the replay *)
Lemma pf_close : forall V k, c_prefill (close_cons V k) = c_prefill k.
Proof.
  intros V k. unfold close_cons. destruct (c_closed k); [reflexivity|].
  destruct (v_push V); [rewrite LtsFanoutProofs.push_prefill|rewrite LtsFanoutProofs.wake_prefill]; reflexivity.
Qed.
Lemma pf_set_reg : forall k b n, c_prefill (set_reg k b n) = c_prefill k.
Proof. reflexivity. Qed.
Lemma pf_set_pc : forall k pc, c_prefill (set_pc k pc) = c_prefill k.
Proof. reflexivity. Qed.
Lemma pf_finish : forall k, c_prefill (finish k) = c_prefill k.
Proof. reflexivity. Qed.
Lemma pf_exit_path : forall V k n, c_prefill (exit_path V k n) = c_prefill k.
Proof. intros V k n. unfold exit_path. destruct (c_reg k); [destruct (v_atomic V)|]; reflexivity. Qed.
Lemma pf_loop_test : forall V k n, c_prefill (loop_test V k n) = c_prefill k.
Proof. intros V k n. unfold loop_test. destruct (c_closed k); [apply pf_exit_path|reflexivity]. Qed.
Lemma pf_send_all : forall maxq n f p c, c_prefill (send_all maxq n f p c) = c_prefill (f c).
Proof.
  intros maxq n f p c. rewrite LtsFanoutProofs.send_all_spec.
  destruct (_ && _); [apply LtsFanoutProofs.send_prefill|reflexivity].
Qed.
Lemma pf_sweep : forall n f sent c, c_prefill (fst (sweep fixed n f sent) c) = c_prefill (f c).
Proof.
  intros n f sent c. rewrite LtsFanoutProofs.sweep_spec.
  destruct (_ && _); [rewrite pf_close; reflexivity|reflexivity].
Qed.
Lemma pf_upd : forall (f : nat -> cons) c k' c',
  c_prefill k' = c_prefill (f c) -> c_prefill (upd f c k' c') = c_prefill (f c').
Proof.
  intros f c k' c' H. unfold upd. destruct (Nat.eqb_spec c c') as [<-|Hne]; [exact H|reflexivity].
Qed.

Lemma after_acquire_PI : forall go (s : lstate) h lq,
  PI go s -> PI go (after_acquire rcache rc_add rc_snap s h lq).
Proof.
  intros go s h lq [H1 H2]. unfold after_acquire. destruct h as [|c].
  - destruct (s_todo s) as [|p rest]; [split; assumption|].
    unfold set_core. split; cbn [s_cached s_cache s_cs].
    + apply RI_add. exact H1.
    + intros c. apply PR_grow. apply H2.
  - unfold set_core. split; cbn [s_cached s_cache s_cs]; [exact H1|].
    intros c'. unfold upd. destruct (Nat.eqb_spec c c') as [<-|Hne]; [|apply H2].
    cbn [c_prefill]. apply PR_snap. exact H1.
Qed.

Lemma acquire_PI : forall go (s : lstate) h, PI go s -> PI go (acquire fixed rcache rc_add rc_snap s h).
Proof.
  intros go s h H. unfold acquire. cbn [v_lock fixed].
  destruct (s_lock s); [|apply after_acquire_PI; exact H].
  destruct h; (eapply PI_ext; [exact H|reflexivity|reflexivity|intros c'; reflexivity]).
Qed.

Lemma release_PI : forall go (s : lstate), PI go s -> PI go (release fixed rcache rc_add rc_snap s).
Proof.
  intros go s H. unfold release. cbn [v_lock fixed].
  destruct (s_lockq s); [|apply after_acquire_PI; exact H].
  eapply PI_ext; [exact H|reflexivity|reflexivity|intros c; reflexivity].
Qed.

Lemma step_PI : forall g maxq n pa (s s' : lstate) t,
  PI g s -> step fixed maxq rcache (rc_empty g) rc_add rc_snap n pa s t = Some s' -> PI g s'.
Proof.
  intros g maxq n pa s s' t H Hst. destruct t as [| |c|c|c]; cbn [step] in Hst.
  - (* publisher *)
    unfold step_pub in Hst. destruct (s_pp s), (s_todo s) as [|p rest]; try discriminate.
    + destruct (s_ok s); inversion Hst; subst s';
        (eapply PI_ext; [exact H|reflexivity|reflexivity|intros c; reflexivity]).
    + inversion Hst; subst s'. apply acquire_PI. exact H.
    + inversion Hst; subst s'. apply release_PI.
      eapply PI_ext; [exact H|reflexivity|reflexivity|].
      intros c. cbn [s_cs]. apply pf_send_all.
  - (* closer *)
    unfold step_close in Hst. destruct (s_kp s); try discriminate.
    + inversion Hst; subst s'. eapply PI_ext; [exact H|reflexivity|reflexivity|intros c; reflexivity].
    + destruct (sweep fixed n (s_cs s) (length (s_sent s))) as [f d] eqn:Esw.
      cbn [v_atomic fixed] in Hst. inversion Hst; subst s'.
      eapply PI_reset; [exact H|reflexivity|reflexivity|].
      intros c. cbn [s_cs]. replace f with (fst (sweep fixed n (s_cs s) (length (s_sent s)))) by (rewrite Esw; reflexivity).
      apply pf_sweep.
    + inversion Hst; subst s'. eapply PI_reset; [exact H|reflexivity|reflexivity|intros c; reflexivity].
  - (* attacher *)
    destruct (c <? n); [|discriminate]. unfold step_att in Hst.
    destruct (s_att s c); try discriminate.
    + inversion Hst; subst s'. apply acquire_PI. exact H.
    + inversion Hst; subst s'. apply release_PI.
      eapply PI_ext; [exact H|reflexivity|reflexivity|].
      intros c'. unfold set_att. cbn [s_cs]. apply pf_upd. reflexivity.
    + destruct (v_recheck fixed && negb (s_ok s) && c_reg (s_cs s c));
        inversion Hst; subst s';
        (eapply PI_ext; [exact H|reflexivity|reflexivity|];
         intros c'; unfold set_att; cbn [s_cs]; apply pf_upd;
         rewrite pf_loop_test, ?pf_close, ?pf_set_reg; reflexivity).
  - (* stopper *)
    destruct (c <? n); [|discriminate]. destruct (s_att s c); try discriminate.
    unfold step_stop in Hst. destruct (s_stp s c); try discriminate.
    + destruct (c_reg (s_cs s c)); inversion Hst; subst s';
        (eapply PI_ext; [exact H|reflexivity|reflexivity|]; intros c'; unfold set_stp; cbn [s_cs]);
        [apply pf_upd; reflexivity|reflexivity].
    + inversion Hst; subst s'.
      eapply PI_ext; [exact H|reflexivity|reflexivity|]. intros c'. unfold set_stp. cbn [s_cs].
      apply pf_upd. cbn [v_atomic fixed]. apply pf_close.
  - (* consumer goroutine *)
    destruct (c <? n); [|discriminate]. unfold step_cons in Hst.
    destruct (c_pc (s_cs s c)) as [| |[p|]| | |]; try discriminate.
    + destruct (c_q (s_cs s c)); inversion Hst; subst s';
        (eapply PI_ext; [exact H|reflexivity|reflexivity|]; intros c'; unfold set_cs; cbn [s_cs];
         apply pf_upd; reflexivity).
    + destruct (Nat.eqb _ _); inversion Hst; subst s';
        (eapply PI_ext; [exact H|reflexivity|reflexivity|]; intros c'; unfold set_cs; cbn [s_cs];
         apply pf_upd; rewrite ?pf_exit_path, ?pf_loop_test; reflexivity).
    + inversion Hst; subst s'.
      eapply PI_ext; [exact H|reflexivity|reflexivity|]. intros c'. unfold set_cs. cbn [s_cs].
      apply pf_upd. apply pf_loop_test.
    + inversion Hst; subst s'.
      eapply PI_ext; [exact H|reflexivity|reflexivity|]. intros c'. unfold set_stp. cbn [s_cs].
      apply pf_upd. cbn [v_atomic fixed]. rewrite pf_finish. apply pf_close.
Qed.

Lemma init_PI : forall g pkts stoppers, PI g (init rcache (rc_empty g) pkts stoppers).
Proof.
  intros g pkts stoppers. split; cbn [init s_cached s_cache s_cs].
  - apply RI_empty.
  - intros c. apply PR_nil.
Qed.

Lemma reachable_PI : forall g maxq n pa pkts stoppers sched,
  PI g (run fixed maxq rcache (rc_empty g) rc_add rc_snap n pa sched (init rcache (rc_empty g) pkts stoppers)).
Proof.
  intros g maxq n pa pkts stoppers sched.
  apply (LtsFanoutProofs.inv_run maxq rcache (rc_empty g) rc_add rc_snap n pa (PI g)).
  - intros s t s' H Hst. eapply step_PI; eassumption.
  - apply init_PI.
Qed.

(* the log handed to the cache is a prefix of the published packets *)
Lemma cached_prefix : forall g maxq n pa pkts stoppers sched,
  let s := run fixed maxq rcache (rc_empty g) rc_add rc_snap n pa sched
               (init rcache (rc_empty g) pkts stoppers) in
  exists rest, pkts = s_cached s ++ rest.
Proof.
  intros g maxq n pa pkts stoppers sched s.
  pose proof (LtsFanoutProofs.reachable_inv maxq rcache (rc_empty g) rc_add rc_snap n pa pkts stoppers sched) as HI.
  fold s in HI. destruct HI as [_ _ _ _ Hout Hin Hpre _ _ _ _ _ _].
  destruct Hpre as (dropped & Hp & Hd).
  destruct (s_pp s) eqn:Epp.
  - rewrite Hout by discriminate. eexists. exact Hp.
  - rewrite Hout by discriminate. eexists. exact Hp.
  - rewrite Hout by discriminate. eexists. exact Hp.
  - destruct (Hin eq_refl) as (p & rest & Et & Ec).
    destruct Hd as [->|[_ Hd]]; [|discriminate].
    exists rest. rewrite Hp, Ec, Et, <- app_assoc. reflexivity.
Qed.

(* the shape of a join replay: [VPS] [SPS] [PPS], then (GOP cache on) a key-frame start followed by
   video packets that do not start a key frame, in published order *)
Definition shape (go : bool) (pkts pre : list pkt) : Prop :=
  exists v s p g, pre = opt_list v ++ opt_list s ++ opt_list p ++ g /\
    par 5 pkts v /\ par 3 pkts s /\ par 4 pkts p /\ subseq g pkts /\
    (forall q, In q g -> is_media q = true) /\ gop_shape g /\ (g <> [] -> go = true) /\
    (g = [] \/ exists A M R, pkts = A ++ M ++ R /\ g = filter is_media M).

Lemma par_app : forall k l o r, par k l o -> par k (l ++ r) o.
Proof. intros k l o r H q Hq. destruct (H q Hq) as [H1 H2]. split; [apply in_or_app; left|]; assumption. Qed.

Lemma RI_shape : forall go l ca r, RI go l ca -> shape go (l ++ r) (rc_snap ca).
Proof.
  intros go l ca r HR. exists (rc_vps ca), (rc_sps ca), (rc_pps ca), (rc_gop ca).
  split; [apply (RI_snap _ _ _ HR)|].
  split; [apply par_app, (ri_vps _ _ _ HR)|]. split; [apply par_app, (ri_sps _ _ _ HR)|].
  split; [apply par_app, (ri_pps _ _ _ HR)|].
  split; [eapply LtsFanoutProofs.subseq_trans; [apply (ri_gop _ _ _ HR)|apply LtsFanoutProofs.subseq_app_l]|].
  split; [apply (ri_media _ _ _ HR)|]. split; [apply (ri_head _ _ _ HR)|].
  split.
  - intros Hne. rewrite <- (ri_flag _ _ _ HR). destruct (rc_gopon ca) eqn:Eg; [reflexivity|].
    exfalso. apply Hne. apply (ri_off _ _ _ HR Eg).
  - destruct (ri_contig _ _ _ HR) as [E|(a & Ha & E)]; [left; exact E|right].
    exists (firstn a l), (skipn a l), r. split; [|exact E].
    rewrite app_assoc, firstn_skipn. reflexivity.
Qed.

(* the facts about a join replay, for the final state of a case *)
Lemma prefill_facts : forall c, l_var c = fixed -> forall i,
  let k := s_cs (lrun c) i in
  (forall x, In x (c_prefill k) -> In x (l_pkts c)) /\
  (NoDup (map p_id (l_pkts c)) -> NoDup (map p_id (c_prefill k))) /\
  (forall G, gap_ok G (l_pkts c) = true -> length (c_prefill k) <= 3 + G) /\
  shape (l_gop c) (l_pkts c) (c_prefill k).
Proof.
  intros c Hv i k. pose proof (lrun_fixed c Hv) as Hs.
  destruct (cached_prefix (l_gop c) (l_maxq c) (l_n c) (pan c) (l_pkts c) (stp c) (l_sched c)) as [rest Hpre].
  pose proof (reachable_PI (l_gop c) (l_maxq c) (l_n c) (pan c) (l_pkts c) (stp c) (l_sched c)) as [_ HP].
  rewrite <- Hs in Hpre, HP.
  destruct (HP i) as (l0 & rest0 & ca & El & HR & Epre). fold k in Epre.
  assert (Epk : l_pkts c = l0 ++ (rest0 ++ rest)) by (rewrite Hpre, El, <- app_assoc; reflexivity).
  split; [|split; [|split]].
  - intros x Hx. rewrite Epre in Hx. rewrite Epk. apply in_or_app. left. eapply RI_in; eassumption.
  - intros Hnd. rewrite Epre. apply (RI_nodup (l_gop c) l0); [exact HR|].
    rewrite Epk, map_app in Hnd.
    eapply LtsFanoutProofs.subseq_NoDup; [apply LtsFanoutProofs.subseq_app_l|exact Hnd].
  - intros G HG. rewrite Epre.
    pose proof (RI_len _ _ _ HR) as Hlen.
    pose proof (LtsBacklogProofs.gap_ok_prefix G (l_pkts c) l0 (rest0 ++ rest) HG Epk) as Hsince.
    lia.
  - rewrite Epre, Epk. apply RI_shape. exact HR.
Qed.

(* ------------------------------------------------------------------ *)
(** * 4. C01 *)

Lemma memZ_In : forall x l, memZ x l = true <-> In x l.
Proof.
  intros x l. unfold memZ. rewrite existsb_exists. split.
  - intros (y & Hy & E). apply Z.eqb_eq in E. subst y. exact Hy.
  - intros H. exists x. split; [exact H|apply Z.eqb_refl].
Qed.

Lemma nodupZ_NoDup : forall l, nodupZ l = true <-> NoDup l.
Proof.
  induction l as [|x l IH]; cbn [nodupZ].
  - split; [constructor|reflexivity].
  - rewrite andb_true_iff, negb_true_iff, IH. split.
    + intros [H1 H2]. constructor; [|exact H2]. intros Hin. apply memZ_In in Hin. congruence.
    + intros H. inversion H as [|? ? Hnin Hnd]; subst. split; [|exact Hnd].
      destruct (memZ x l) eqn:E; [|reflexivity]. apply memZ_In in E. contradiction.
Qed.

(* the greedy matcher finds every subsequence *)
Lemma subseqZ_tail_cons : forall b,
  (forall a l, subseqZ (a :: l) b = true -> subseqZ l b = true) /\
  (forall l y, subseqZ l b = true -> subseqZ l (y :: b) = true).
Proof.
  induction b as [|y b [IH1 IH2]].
  - split.
    + intros a l H. discriminate.
    + intros l y H. destruct l; [reflexivity|discriminate].
  - assert (HP : forall a l, subseqZ (a :: l) (y :: b) = true -> subseqZ l (y :: b) = true).
    { intros a l H. cbn [subseqZ] in H. destruct (a =? y)%Z.
      - apply IH2. exact H.
      - apply IH2. apply (IH1 a). exact H. }
    split; [exact HP|].
    intros l z H. destruct l as [|x l]; [reflexivity|].
    cbn [subseqZ]. destruct (x =? z)%Z; [|exact H].
    apply (HP x). exact H.
Qed.

Lemma subseqZ_complete : forall a b : list Z, subseq a b -> subseqZ a b = true.
Proof.
  intros a b H. induction H as [l|l1 x l2 H IH|l1 x l2 H IH].
  - destruct l; reflexivity.
  - apply (proj2 (subseqZ_tail_cons l2)). exact IH.
  - cbn [subseqZ]. rewrite Z.eqb_refl. exact IH.
Qed.

Lemma posZ_in : forall x a b, In x a -> posZ x (a ++ b) = posZ x a /\ posZ x a < length a.
Proof.
  intros x a b. induction a as [|y a IH]; intros Hin; [contradiction|].
  cbn [app posZ length]. destruct (Z.eqb_spec x y) as [E|E]; [split; [reflexivity|lia]|].
  destruct Hin as [Hin|Hin]; [congruence|]. destruct (IH Hin) as [H1 H2]. split; lia.
Qed.

Lemma posZ_notin : forall x a b, ~ In x a -> posZ x (a ++ b) = length a + posZ x b.
Proof.
  intros x a b. induction a as [|y a IH]; intros Hnin; [reflexivity|].
  cbn [app posZ length]. destruct (Z.eqb_spec x y) as [E|E].
  - exfalso. apply Hnin. left. congruence.
  - rewrite IH; [reflexivity|]. intros H. apply Hnin. right. exact H.
Qed.

Lemma nodup_app_disj : forall (a b : list Z) x, NoDup (a ++ b) -> In x a -> In x b -> False.
Proof.
  induction a as [|y a IH]; intros b x Hnd Ha Hb; [contradiction|].
  cbn [app] in Hnd. inversion Hnd as [|? ? Hnin Hnd']; subst. destruct Ha as [<-|Ha].
  - apply Hnin. apply in_or_app. right. exact Hb.
  - eapply IH; eassumption.
Qed.

Lemma pos_lt : forall (a b : list Z) x y,
  NoDup (a ++ b) -> In x a -> In y b -> posZ x (a ++ b) < posZ y (a ++ b).
Proof.
  intros a b x y Hnd Hx Hy. destruct (posZ_in x a b Hx) as [E1 H1].
  rewrite E1, posZ_notin; [lia|]. intros Hya. eapply nodup_app_disj; eassumption.
Qed.

Lemma firstn_min_len : forall A n (l : list A), firstn (Nat.min n (length l)) l = firstn n l.
Proof.
  intros A n l. destruct (Nat.le_ge_cases n (length l)) as [H|H].
  - rewrite Nat.min_l by exact H. reflexivity.
  - rewrite Nat.min_r by exact H. rewrite firstn_all, firstn_all2 by exact H. reflexivity.
Qed.

Lemma skipn_min_len : forall A n (l : list A), skipn (Nat.min n (length l)) l = skipn n l.
Proof.
  intros A n l. destruct (Nat.le_ge_cases n (length l)) as [H|H].
  - rewrite Nat.min_l by exact H. reflexivity.
  - rewrite Nat.min_r by exact H. rewrite skipn_all, skipn_all2 by exact H. reflexivity.
Qed.

(* ---- the delivered part of a join replay passes [replay_ok] ---- *)
Definition strip_kindP (k : Z) (l : list pkt) : list pkt :=
  match l with
  | [] => []
  | x :: l' => if (p_kind x =? k)%Z then l' else l
  end.

Lemma kind_of_id : forall pkts a,
  NoDup (map p_id pkts) -> In a pkts -> kind_of pkts (p_id a) = p_kind a.
Proof.
  unfold kind_of. induction pkts as [|p pkts IH]; intros a Hnd Ha; [contradiction|].
  cbn [find]. destruct (Z.eqb_spec (p_id p) (p_id a)) as [E|E].
  - assert (p = a) as -> by (apply (nodup_id_inj (p :: pkts)); auto using in_eq). reflexivity.
  - destruct Ha as [->|Ha]; [congruence|].
    apply IH; [cbn [map] in Hnd; inversion Hnd; assumption|exact Ha].
Qed.

Lemma strip_map : forall pkts k X,
  NoDup (map p_id pkts) -> (forall a, In a X -> In a pkts) ->
  strip_kind pkts k (map p_id X) = map p_id (strip_kindP k X).
Proof.
  intros pkts k X Hnd Hin. destruct X as [|x X]; [reflexivity|].
  cbn [map strip_kind strip_kindP]. rewrite kind_of_id by (auto using in_eq).
  destruct (p_kind x =? k)%Z; reflexivity.
Qed.

Lemma strip_incl : forall k X a, In a (strip_kindP k X) -> In a X.
Proof.
  intros k X a. destruct X as [|x X]; cbn [strip_kindP]; [auto|].
  destruct (p_kind x =? k)%Z; auto using in_cons.
Qed.

Lemma pos_at : forall A p R,
  NoDup (map p_id (A ++ p :: R)) -> posZ (p_id p) (map p_id (A ++ p :: R)) = length A.
Proof.
  intros A p R Hnd. rewrite map_app in *. cbn [map] in *. rewrite posZ_notin.
  - cbn [posZ]. rewrite Z.eqb_refl, map_length. lia.
  - intros Hin. eapply nodup_app_disj; [exact Hnd|exact Hin|left; reflexivity].
Qed.

Lemma pos_in_lt : forall A R x, In x A -> posZ (p_id x) (map p_id (A ++ R)) < length A.
Proof.
  intros A R x Hx. rewrite map_app.
  destruct (posZ_in (p_id x) (map p_id A) (map p_id R) (in_map p_id _ _ Hx)) as [E H].
  rewrite E. rewrite map_length in H. exact H.
Qed.


(* ---- the GOP slot is media-contiguous: read off the ids ---- *)
Lemma contig_ok_cons2 : forall pkts ids x y l,
  contig_ok pkts ids (x :: y :: l) =
  forallb (fun z => negb (mediaZ (kind_of pkts z))) (between ids (posZ x ids) (posZ y ids)) &&
  contig_ok pkts ids (y :: l).
Proof. reflexivity. Qed.

Lemma contig_ok_prefix : forall pkts ids l1 l2,
  contig_ok pkts ids (l1 ++ l2) = true -> contig_ok pkts ids l1 = true.
Proof.
  intros pkts ids l1. induction l1 as [|x l1 IH]; intros l2 H; [reflexivity|].
  destruct l1 as [|y l1]; [reflexivity|].
  change ((x :: y :: l1) ++ l2) with (x :: y :: (l1 ++ l2)) in H.
  rewrite contig_ok_cons2 in H |- *. apply andb_true_iff in H. destruct H as [H1 H2].
  rewrite H1. cbn [andb]. apply (IH l2). exact H2.
Qed.

Lemma between_mid : forall (A N R : list Z) x y i j,
  i = length A -> j = i + S (length N) -> between (A ++ x :: N ++ y :: R) i j = N.
Proof.
  intros A N R x y i j -> ->. unfold between.
  replace (length A + S (length N) - S (length A)) with (length N) by lia.
  rewrite skipn_app, skipn_all2 by lia. replace (S (length A) - length A) with 1 by lia.
  cbn [app skipn]. rewrite firstn_app, firstn_all, Nat.sub_diag. cbn [firstn]. apply app_nil_r.
Qed.

Lemma contig_sel : forall M pkts A N B x0,
  pkts = A ++ x0 :: N ++ M ++ B -> NoDup (map p_id pkts) ->
  (forall z, In z N -> is_media z = false) ->
  contig_ok pkts (map p_id pkts) (p_id x0 :: map p_id (filter is_media M)) = true.
Proof.
  induction M as [|p M IH]; intros pkts A N B x0 E Hnd HN; [reflexivity|].
  cbn [filter]. destruct (is_media p) eqn:Em.
  - cbn [map]. rewrite contig_ok_cons2. apply andb_true_iff. split.
    + assert (Hx : posZ (p_id x0) (map p_id pkts) = length A).
      { rewrite E. apply pos_at. rewrite <- E. exact Hnd. }
      assert (E2 : pkts = (A ++ x0 :: N) ++ p :: (M ++ B)) by (rewrite E, <- app_assoc; reflexivity).
      assert (Hp : posZ (p_id p) (map p_id pkts) = length A + S (length N)).
      { rewrite E2. rewrite pos_at by (rewrite <- E2; exact Hnd). rewrite app_length. cbn [length]. lia. }
      rewrite Hx, Hp.
      assert (Eb : between (map p_id pkts) (length A) (length A + S (length N)) = map p_id N).
      { rewrite E, map_app. cbn [map]. rewrite map_app. cbn [app map].
        apply between_mid; rewrite !map_length; reflexivity. }
      rewrite Eb. apply forallb_forall. intros z Hz. apply in_map_iff in Hz. destruct Hz as (b & <- & Hb).
      rewrite kind_of_id; [|exact Hnd|rewrite E; apply in_or_app; right; right; apply in_or_app; left; exact Hb].
      apply negb_true_iff. apply (HN b Hb).
    + apply (IH pkts (A ++ x0 :: N) [] B p); [rewrite E, <- app_assoc; reflexivity|exact Hnd|intros z []].
  - apply (IH pkts A (N ++ [p]) B x0); [rewrite E, <- app_assoc; reflexivity|exact Hnd|].
    intros z Hz. apply in_app_or in Hz. destruct Hz as [Hz|[<-|[]]]; [apply HN; exact Hz|exact Em].
Qed.

Lemma contig_sel0 : forall M pkts A B,
  pkts = A ++ M ++ B -> NoDup (map p_id pkts) ->
  contig_ok pkts (map p_id pkts) (map p_id (filter is_media M)) = true.
Proof.
  induction M as [|p M IH]; intros pkts A B E Hnd; [reflexivity|].
  cbn [filter]. destruct (is_media p) eqn:Em.
  - cbn [map]. apply (contig_sel M pkts A [] B p); [exact E|exact Hnd|intros z []].
  - apply (IH pkts (A ++ [p]) B); [rewrite E, <- app_assoc; reflexivity|exact Hnd].
Qed.

Definition prefix (X Y : list pkt) : Prop := exists r, Y = X ++ r.

Lemma strip_prefix : forall k l o R X,
  par k l o -> (forall x, In x R -> p_kind x <> k) ->
  prefix X (opt_list o ++ R) -> prefix (strip_kindP k X) R.
Proof.
  intros k l o R X Hpar HR [r E]. destruct o as [q|]; cbn [opt_list app] in E.
  - destruct X as [|x X]; [exists R; reflexivity|]. cbn [app] in E. inversion E; subst.
    cbn [strip_kindP]. destruct (Hpar x eq_refl) as [_ Hk]. rewrite Hk, Z.eqb_refl.
    exists r. reflexivity.
  - destruct X as [|x X]; [exists R; reflexivity|]. cbn [strip_kindP].
    destruct (Z.eqb_spec (p_kind x) k) as [Hk|Hk]; [|exists r; exact E].
    exfalso. apply (HR x); [rewrite E; left; reflexivity|exact Hk].
Qed.

Lemma replay_ok_shape : forall go pkts pre X,
  NoDup (map p_id pkts) -> shape go pkts pre -> prefix X pre -> (forall a, In a X -> In a pkts) ->
  replay_ok pkts go (map p_id pkts) (map p_id X) = true.
Proof.
  intros go pkts pre X Hnd (v & s & p & g & Epre & Hv & Hs & Hp & Hg & Hm & Hh & Hgo & Hcg) Hpx Hin.
  assert (Hkg : forall x, In x g ->
                  p_kind x <> 0%Z /\ p_kind x <> 3%Z /\ p_kind x <> 4%Z /\ p_kind x <> 5%Z)
    by (intros x Hx; apply media_kind, Hm, Hx).
  assert (Hks : forall x, In x (opt_list s) -> p_kind x = 3%Z)
    by (intros x Hx; eapply par_in; [exact Hs|exact Hx]).
  assert (Hkp : forall x, In x (opt_list p) -> p_kind x = 4%Z)
    by (intros x Hx; eapply par_in; [exact Hp|exact Hx]).
  set (X1 := strip_kindP 5 X). set (X2 := strip_kindP 3 X1). set (X3 := strip_kindP 4 X2).
  assert (Hin1 : forall a, In a X1 -> In a pkts) by (intros a Ha; apply Hin, (strip_incl 5), Ha).
  assert (Hin2 : forall a, In a X2 -> In a pkts) by (intros a Ha; apply Hin1, (strip_incl 3), Ha).
  assert (Hin3 : forall a, In a X3 -> In a pkts) by (intros a Ha; apply Hin2, (strip_incl 4), Ha).
  assert (P1 : prefix X1 (opt_list s ++ opt_list p ++ g)).
  { apply (strip_prefix 5 pkts v); [exact Hv| |rewrite <- Epre; exact Hpx].
    intros x Hx. repeat (apply in_app_or in Hx; destruct Hx as [Hx|Hx]).
    - apply Hks in Hx. lia.
    - apply Hkp in Hx. lia.
    - apply Hkg in Hx. lia. }
  assert (P2 : prefix X2 (opt_list p ++ g)).
  { apply (strip_prefix 3 pkts s); [exact Hs| |exact P1].
    intros x Hx. apply in_app_or in Hx; destruct Hx as [Hx|Hx].
    - apply Hkp in Hx. lia.
    - apply Hkg in Hx. lia. }
  assert (P3 : prefix X3 g).
  { apply (strip_prefix 4 pkts p); [exact Hp| |exact P2]. intros x Hx. apply Hkg in Hx. lia. }
  unfold replay_ok.
  rewrite (strip_map pkts 5 X Hnd Hin). fold X1.
  rewrite (strip_map pkts 3 X1 Hnd Hin1). fold X2.
  rewrite (strip_map pkts 4 X2 Hnd Hin2). fold X3.
  destruct X3 as [|x X3'] eqn:E3; [reflexivity|].
  destruct P3 as [r Er]. cbn [app] in Er.
  assert (Hgne : g <> []) by (rewrite Er; discriminate).
  rewrite Er in Hh. destruct Hh as [Hkx Hnk].
  cbn [map gop_ok]. rewrite !andb_true_iff. repeat split.
  - apply Hgo. exact Hgne.
  - rewrite kind_of_id by (auto using in_eq). exact Hkx.
  - apply forallb_forall. intros y Hy. apply in_map_iff in Hy. destruct Hy as (b & <- & Hb).
    rewrite kind_of_id by (auto using in_cons).
    apply andb_true_iff. split.
    + apply (Hm b). rewrite Er. right. apply in_or_app. left. exact Hb.
    + apply negb_true_iff. apply (Hnk b). apply in_or_app. left. exact Hb.
  - apply subseqZ_complete. apply (LtsFanoutProofs.subseq_map _ _ p_id (x :: X3') pkts).
    eapply LtsFanoutProofs.subseq_trans; [|exact Hg].
    rewrite Er. apply (LtsFanoutProofs.subseq_app_l _ (x :: X3') r).
  - destruct Hcg as [E0|(A & M & R & EA & EM)]; [contradiction|].
    pose proof (contig_sel0 M pkts A R EA Hnd) as Hc. rewrite <- EM, Er in Hc.
    change (x :: X3' ++ r) with ((x :: X3') ++ r) in Hc. rewrite map_app in Hc.
    apply contig_ok_prefix in Hc. exact Hc.
Qed.

(* what one consumer was handed: no repeat, only published ids, and the split at the length of
   its join replay passes [split_ok] *)
Lemma stream_facts : forall c, l_var c = fixed -> NoDup (map p_id (l_pkts c)) -> forall i,
  let out := map p_id (c_out (s_cs (lrun c) i)) in
  let j := Nat.min (length (c_prefill (s_cs (lrun c) i))) (length out) in
  nodupZ out = true /\
  forallb (fun x => memZ x (map p_id (l_pkts c))) out = true /\
  split_ok (l_pkts c) (l_gop c) (map p_id (l_pkts c)) out j = true.
Proof.
  intros c Hv Hnd i. cbv zeta. pose proof (lrun_fixed c Hv) as Hs.
  destruct (prefill_facts c Hv i) as (Hpin & Hpnd & _ & Hshape).
  set (s := lrun c) in *. set (k := s_cs s i) in *.
  pose proof (LtsFanoutProofs.delivered_prefix_of_pushed (l_maxq c) rcache (rc_empty (l_gop c)) rc_add
                rc_snap (l_n c) (pan c) (l_pkts c) (stp c) (l_sched c) i) as F1.
  pose proof (LtsFanoutProofs.pushed_is_prefill_then_selected_live (l_maxq c) rcache (rc_empty (l_gop c))
                rc_add rc_snap (l_n c) (pan c) (l_pkts c) (stp c) (l_sched c) i) as F2.
  pose proof (LtsFanoutProofs.live_out_subseq_window (l_maxq c) rcache (rc_empty (l_gop c)) rc_add
                rc_snap (l_n c) (pan c) (l_pkts c) (stp c) (l_sched c) i) as F3.
  pose proof (LtsFanoutProofs.live_out_subseq_sent (l_maxq c) rcache (rc_empty (l_gop c)) rc_add
                rc_snap (l_n c) (pan c) (l_pkts c) (stp c) (l_sched c) i) as F4.
  pose proof (LtsFanoutProofs.sent_prefix_of_published (l_maxq c) rcache (rc_empty (l_gop c)) rc_add
                rc_snap (l_n c) (pan c) (l_pkts c) (stp c) (l_sched c)) as F5.
  pose proof (LtsFanoutProofs.prefill_before_registration (l_maxq c) rcache (rc_empty (l_gop c)) rc_add
                rc_snap (l_n c) (pan c) (LtsFanoutProofs.rc_snap_empty (l_gop c)) LtsFanoutProofs.rc_snap_add
                (l_pkts c) (stp c) (l_sched c) i) as F6.
  pose proof (LtsFanoutProofs.out_at_most_once (l_maxq c) rcache (rc_empty (l_gop c)) rc_add
                rc_snap (l_n c) (pan c) (LtsFanoutProofs.rc_snap_empty (l_gop c)) LtsFanoutProofs.rc_snap_add
                (l_pkts c) (stp c) (l_sched c) i) as F7.
  pose proof (fun x => LtsFanoutProofs.live_out_unmodified (l_maxq c) rcache (rc_empty (l_gop c)) rc_add
                rc_snap (l_n c) (pan c) (l_pkts c) (stp c) (l_sched c) i x) as F8.
  cbv zeta in F1, F2, F3, F4, F5, F6, F7, F8.
  rewrite <- Hs in F1, F2, F3, F4, F5, F6, F7, F8.
  fold k in F1, F2, F3, F4, F6, F7, F8.
  destruct F1 as [rest F1]. destruct F2 as [F2 _]. destruct F5 as [rest' F5].
  set (n := length (c_prefill k)).
  (* the first n delivered packets are the beginning of the replay *)
  assert (E : c_prefill k = firstn n (c_out k) ++ firstn (n - length (c_out k)) rest).
  { rewrite <- firstn_app, <- F1, F2, firstn_app. unfold n.
    rewrite firstn_all, Nat.sub_diag, firstn_O, app_nil_r. reflexivity. }
  assert (Hpre : forall a, In a (firstn n (c_out k)) -> In a (c_prefill k)).
  { intros a Ha. rewrite E. apply in_or_app. left. exact Ha. }
  assert (Hlive : LtsFanoutProofs.live_out k = skipn n (c_out k)) by reflexivity.
  split; [|split].
  - apply nodupZ_NoDup. apply F7; [exact Hnd|apply Hpnd; exact Hnd].
  - apply forallb_forall. intros x Hx. apply memZ_In.
    apply in_map_iff in Hx. destruct Hx as (a & <- & Ha). apply in_map.
    rewrite <- (firstn_skipn n (c_out k)) in Ha. apply in_app_or in Ha. destruct Ha as [Ha|Ha].
    + apply Hpin, Hpre, Ha.
    + apply F8. rewrite Hlive. exact Ha.
  - fold n.
    { unfold split_ok. rewrite firstn_min_len, skipn_min_len, firstn_map, skipn_map, <- Hlive.
      rewrite !andb_true_iff. repeat split.
      * apply (replay_ok_shape (l_gop c) (l_pkts c) (c_prefill k)); [exact Hnd|exact Hshape| |].
        -- eexists. exact E.
        -- intros a Ha. apply Hpin, Hpre, Ha.
      * apply subseqZ_complete. apply LtsFanoutProofs.subseq_map.
        eapply LtsFanoutProofs.subseq_trans; [exact F4|]. rewrite F5. apply LtsFanoutProofs.subseq_app_l.
      * apply forallb_forall. intros x Hx. apply forallb_forall. intros y Hy. apply Nat.ltb_lt.
        apply in_map_iff in Hx. destruct Hx as (a & <- & Ha).
        apply in_map_iff in Hy. destruct Hy as (b & <- & Hb).
        apply Hpre in Ha.
        pose proof (LtsFanoutProofs.subseq_In _ _ _ b F3 Hb) as Hw.
        destruct (c_regat k) as [r|] eqn:Er; [|contradiction].
        apply LtsFanoutProofs.window_in_skipn in Hw. pose proof (F6 r a eq_refl Ha) as Ha'.
        assert (Eids : map p_id (l_pkts c) =
                       map p_id (firstn r (s_sent s)) ++ map p_id (skipn r (s_sent s) ++ rest')).
        { rewrite <- map_app, app_assoc, firstn_skipn, <- F5. reflexivity. }
        rewrite Eids. apply pos_lt.
        -- rewrite <- Eids. exact Hnd.
        -- apply in_map. exact Ha'.
        -- apply in_map. apply in_or_app. left. exact Hw. }
Qed.

Lemma stream_ok : forall c, l_var c = fixed -> NoDup (map p_id (l_pkts c)) -> forall i,
  ok_stream (l_pkts c) (l_gop c) (map p_id (l_pkts c)) (map p_id (c_out (s_cs (lrun c) i))) = true.
Proof.
  intros c Hv Hnd i. destruct (stream_facts c Hv Hnd i) as (H1 & H2 & H3).
  unfold ok_stream. rewrite H1, H2. cbn [andb].
  apply existsb_exists. eexists. split; [|exact H3]. apply in_seq. lia.
Qed.

Theorem C01_model_passes : forall c : lcase,
  l_var c = fixed -> ok_C01 c (obs_of_state (l_n c) (lrun c)) = true.
Proof.
  intros c Hv. unfold ok_C01, obs_of_state. cbn [o_cons].
  apply andb_true_iff. split.
  - rewrite map_length, seq_length. apply Nat.eqb_refl.
  - destruct (nodupZ (map p_id (l_pkts c))) eqn:End; [|reflexivity].
    apply nodupZ_NoDup in End.
    apply forallb_map_seq. intros i Hi. unfold cobs_of. cbn [o_intact o_out andb].
    apply stream_ok; assumption.
Qed.

(* ------------------------------------------------------------------ *)
(** * 5. C04 *)

(* [gap_need] is the longest key-less run, so [gap_least] is the least admissible G *)
Lemma gap_from_need : forall G l n, 0 < G ->
  (LtsBacklogProofs.gap_from G n l = true <-> gap_need n l < G).
Proof.
  intros G l. induction l as [|p l IH]; intros n HG; cbn [LtsBacklogProofs.gap_from gap_need].
  - split; [intros _; exact HG|reflexivity].
  - destruct (p_key p).
    + apply IH. exact HG.
    + rewrite andb_true_iff, Nat.ltb_lt, (IH (S n) HG), Nat.max_lub_lt_iff. reflexivity.
Qed.

Theorem gap_least_ok : forall pkts, gap_ok (gap_least pkts) pkts = true.
Proof.
  intros pkts. unfold LtsBacklogProofs.gap_ok, gap_least. apply andb_true_iff. split.
  - apply Nat.ltb_lt. lia.
  - apply gap_from_need; lia.
Qed.

Theorem gap_least_least : forall G pkts, gap_ok G pkts = true -> gap_least pkts <= G.
Proof.
  intros G pkts H. unfold LtsBacklogProofs.gap_ok in H. apply andb_true_iff in H.
  destruct H as [H0 H]. apply Nat.ltb_lt in H0. apply (gap_from_need G pkts 0 H0) in H.
  unfold gap_least. lia.
Qed.

(* ---- drops end only at a key-frame start, read off the delivered ids ---- *)

Lemma gaps_ok_cons2 : forall pkts ids x y l,
  gaps_ok pkts ids (x :: y :: l) =
  (if S (posZ x ids) <? posZ y ids then (kind_of pkts y =? 2)%Z else true) && gaps_ok pkts ids (y :: l).
Proof. reflexivity. Qed.

Lemma gaps_ok_prefix : forall pkts ids l1 l2,
  gaps_ok pkts ids (l1 ++ l2) = true -> gaps_ok pkts ids l1 = true.
Proof.
  intros pkts ids l1. induction l1 as [|x l1 IH]; intros l2 H; [reflexivity|].
  destruct l1 as [|y l1]; [reflexivity|].
  change ((x :: y :: l1) ++ l2) with (x :: y :: (l1 ++ l2)) in H.
  rewrite gaps_ok_cons2 in H |- *. apply andb_true_iff in H. destruct H as [H1 H2].
  rewrite H1. cbn [andb]. apply (IH l2). exact H2.
Qed.

(* [x0]: the last packet kept so far; it is the packet just before [w] when [prev] says "kept" *)
Lemma gaps_sel : forall keep w pkts A B prev x0,
  pkts = A ++ w ++ B -> NoDup (map p_id pkts) -> LtsBacklogProofs.aligned prev keep w ->
  In x0 A -> (prev = true -> exists A', A = A' ++ [x0]) ->
  gaps_ok pkts (map p_id pkts) (p_id x0 :: map p_id (LtsBacklogProofs.select keep w)) = true.
Proof.
  induction keep as [|b keep IH]; intros w pkts A B prev x0 E Hnd Hal Hx0 Hlast.
  - destruct w; reflexivity.
  - destruct w as [|p w]; [cbn in Hal; contradiction|].
    cbn [LtsBacklogProofs.aligned] in Hal. destruct Hal as [Hk Hal].
    assert (E' : pkts = (A ++ [p]) ++ w ++ B) by (rewrite E, <- app_assoc; reflexivity).
    cbn [LtsBacklogProofs.select]. destruct b.
    + cbn [map]. rewrite gaps_ok_cons2. apply andb_true_iff. split.
      * destruct (S (posZ (p_id x0) (map p_id pkts)) <? posZ (p_id p) (map p_id pkts)) eqn:El;
          [|reflexivity].
        apply Nat.ltb_lt in El.
        assert (Hp : posZ (p_id p) (map p_id pkts) = length A).
        { rewrite E. cbn [app]. apply pos_at. rewrite E in Hnd. exact Hnd. }
        destruct prev.
        -- exfalso. destruct (Hlast eq_refl) as [A' EA].
           assert (Hx : posZ (p_id x0) (map p_id pkts) = length A').
           { rewrite E, EA, <- app_assoc. cbn [app]. apply pos_at.
             rewrite E, EA, <- app_assoc in Hnd. exact Hnd. }
           rewrite EA, app_length in Hp. cbn [length] in Hp. lia.
        -- rewrite kind_of_id; [apply Hk; discriminate|exact Hnd|].
           rewrite E. apply in_or_app. right. left. reflexivity.
      * apply (IH w pkts (A ++ [p]) B true p E' Hnd Hal).
        -- apply in_or_app. right. left. reflexivity.
        -- intros _. exists A. reflexivity.
    + apply (IH w pkts (A ++ [p]) B false x0 E' Hnd Hal).
      * apply in_or_app. left. exact Hx0.
      * discriminate.
Qed.

Lemma gaps_sel0 : forall keep w pkts A B prev,
  pkts = A ++ w ++ B -> NoDup (map p_id pkts) -> LtsBacklogProofs.aligned prev keep w ->
  gaps_ok pkts (map p_id pkts) (map p_id (LtsBacklogProofs.select keep w)) = true.
Proof.
  induction keep as [|b keep IH]; intros w pkts A B prev E Hnd Hal.
  - destruct w; reflexivity.
  - destruct w as [|p w]; [cbn in Hal; contradiction|].
    cbn [LtsBacklogProofs.aligned] in Hal. destruct Hal as [Hk Hal].
    assert (E' : pkts = (A ++ [p]) ++ w ++ B) by (rewrite E, <- app_assoc; reflexivity).
    cbn [LtsBacklogProofs.select]. destruct b.
    + cbn [map]. apply (gaps_sel keep w pkts (A ++ [p]) B true p E' Hnd Hal).
      * apply in_or_app. right. left. reflexivity.
      * intros _. exists A. reflexivity.
    + apply (IH w pkts (A ++ [p]) B false E' Hnd Hal).
Qed.

(* the packets broadcast while registered are a contiguous piece of the published list *)
Lemma window_segment : forall sent r u rest,
  exists A B, sent ++ rest = A ++ LtsBacklogProofs.window sent r u ++ B.
Proof.
  intros sent r u rest. destruct r as [a|]; [|exists [], (sent ++ rest); reflexivity].
  cbn [LtsBacklogProofs.window].
  set (X := match u with Some b => firstn b sent | None => sent end).
  assert (HX : exists X', sent = X ++ X').
  { unfold X. destruct u as [b|]; [exists (skipn b sent); symmetry; apply firstn_skipn|].
    exists []. rewrite app_nil_r. reflexivity. }
  destruct HX as [X' HX]. exists (firstn a X), (X' ++ rest).
  rewrite HX at 1. rewrite <- (firstn_skipn a X) at 1. rewrite <- !app_assoc. reflexivity.
Qed.

(* the live part of what a consumer was handed passes the drop clause *)
Lemma live_gaps_ok : forall c, l_var c = fixed -> NoDup (map p_id (l_pkts c)) -> forall i,
  let k := s_cs (lrun c) i in
  gaps_ok (l_pkts c) (map p_id (l_pkts c))
          (map p_id (skipn (length (c_prefill k)) (c_out k))) = true.
Proof.
  intros c Hv Hnd i k. pose proof (lrun_fixed c Hv) as Hs.
  pose proof (LtsBacklogProofs.inv_reachable (l_maxq c) rcache (rc_empty (l_gop c)) rc_add rc_snap
                (l_n c) (pan c) 0 (l_pkts c) (l_sched c) (stp c)) as HI.
  pose proof (LtsFanoutProofs.delivered_prefix_of_pushed (l_maxq c) rcache (rc_empty (l_gop c)) rc_add
                rc_snap (l_n c) (pan c) (l_pkts c) (stp c) (l_sched c) i) as F1.
  pose proof (LtsFanoutProofs.sent_prefix_of_published (l_maxq c) rcache (rc_empty (l_gop c)) rc_add
                rc_snap (l_n c) (pan c) (l_pkts c) (stp c) (l_sched c)) as F5.
  cbv zeta in F1, F5. rewrite <- Hs in HI, F1, F5. fold k in F1.
  destruct HI as [_ _ HC]. destruct (HC i) as (H0 & _). fold k in H0.
  pose proof (LtsBacklogProofs.ci_align _ _ _ H0) as Hal.
  pose proof (LtsBacklogProofs.ci_pushed _ _ _ H0) as Hpu.
  destruct F1 as [rest F1]. destruct F5 as [rest' F5].
  set (n := length (c_prefill k)).
  set (w := LtsBacklogProofs.window (s_sent (lrun c)) (c_regat k) (c_unregat k)) in *.
  assert (Esel : LtsBacklogProofs.select (c_keep k) w =
                 skipn n (c_out k) ++ skipn (n - length (c_out k)) rest).
  { rewrite <- skipn_app, <- F1, Hpu, skipn_app. unfold n.
    rewrite skipn_all, Nat.sub_diag. reflexivity. }
  destruct (window_segment (s_sent (lrun c)) (c_regat k) (c_unregat k) rest') as (A & B & Eseg).
  fold w in Eseg. rewrite <- F5 in Eseg.
  pose proof (gaps_sel0 (c_keep k) w (l_pkts c) A B true Eseg Hnd Hal) as Hg.
  rewrite Esel, map_app in Hg. apply gaps_ok_prefix in Hg. exact Hg.
Qed.

Theorem C04_model_passes : forall c : lcase,
  l_var c = fixed -> ok_C04 c (obs_of_state (l_n c) (lrun c)) = true.
Proof.
  intros c Hv. pose proof (lrun_fixed c Hv) as Hs.
  pose proof (LtsBacklogProofs.backlog_bound (l_maxq c) rcache (rc_empty (l_gop c)) rc_add rc_snap
                (l_n c) (pan c) (gap_least (l_pkts c)) (l_pkts c) (stp c) (l_sched c)) as Hbl.
  pose proof (LtsBacklogProofs.panic_detaches (l_maxq c) rcache (rc_empty (l_gop c)) rc_add rc_snap
                (l_n c) (pan c) (l_pkts c) (stp c) (l_sched c)) as Hpan.
  cbv zeta in Hbl, Hpan. rewrite <- Hs in Hbl, Hpan.
  unfold ok_C04, obs_of_state. cbn [o_cons].
  rewrite !andb_true_iff. repeat split.
  - rewrite map_length, seq_length. apply Nat.eqb_refl.
  - apply forall_cons_map. intros i Hi. apply andb_true_iff. split.
    + unfold cobs_of. cbn [o_reg o_qlen]. destruct (c_reg (s_cs (lrun c) i)); [|reflexivity].
      apply Z.leb_le. apply inj_le.
      specialize (Hbl i (gap_least_ok (l_pkts c))).
      destruct (prefill_facts c Hv i) as (_ & _ & Hlen & _).
      specialize (Hlen _ (gap_least_ok (l_pkts c))). cbv zeta in Hlen.
      unfold backlog_limit.
      pose proof (Nat.max_le_compat_l _ _ (l_maxq c) Hlen). lia.
    + fold (pan c i). destruct (0 <? pan c i) eqn:E0; [|reflexivity].
      apply Nat.ltb_lt in E0. destruct (Hpan i E0) as (H1 & _ & _ & H2).
      unfold cobs_of. cbn [o_out o_pc o_reg]. rewrite map_length.
      apply andb_true_iff. split; [apply Nat.leb_le; exact H1|].
      destruct (pan c i <=? length (c_out (s_cs (lrun c) i))) eqn:E1; [|reflexivity].
      apply Nat.leb_le in E1. destruct (H2 E1) as (Hpc & Hreg & _).
      rewrite Hreg. destruct Hpc as [-> | ->]; reflexivity.
  - destruct (nodupZ (map p_id (l_pkts c))) eqn:End; [|reflexivity].
    apply nodupZ_NoDup in End.
    apply forallb_map_seq. intros i Hi. unfold cobs_of. cbn [o_out].
    destruct (stream_facts c Hv End i) as (_ & _ & Hsp).
    pose proof (live_gaps_ok c Hv End i) as Hg. cbv zeta in Hsp, Hg.
    apply existsb_exists. eexists. split; [|unfold split_ok4; rewrite Hsp; cbn [andb]].
    + apply in_seq. lia.
    + rewrite skipn_min_len, skipn_map. exact Hg.
Qed.

(* ------------------------------------------------------------------ *)
(** * 6. on the wire: the oracle applied to (case, the model's observation of the case) says 1 *)

Theorem wire_model_passes : forall v : val, l_var (dec_lcase v) = fixed ->
  ok_C03 (dec_lcase v) (dec_obs (lts_run v)) = true /\
  ok_C01 (dec_lcase v) (dec_obs (lts_run v)) = true /\
  ok_C04 (dec_lcase v) (dec_obs (lts_run v)) = true.
Proof.
  intros v Hv. unfold lts_run. rewrite dec_enc_obs.
  split; [apply C03_model_passes|split; [apply C01_model_passes|apply C04_model_passes]]; exact Hv.
Qed.
