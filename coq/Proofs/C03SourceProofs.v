(* C03 — the source as a transport (Model/C03Source.v): when the source ends, every stream it ever
   published is ended and every player that ever attached to one has had Close called exactly once,
   whatever requests the publisher sent before; refuted without the keep-alive guard of RECORD. *)
From Coq Require Import ZArith List Bool Arith Lia.
From V Require Import C03Source.
Import ListNotations.
Local Open Scope nat_scope.

Lemma updn_same : forall A (f : nat -> A) k v, updn f k v k = v.
Proof. intros. unfold updn. rewrite Nat.eqb_refl. reflexivity. Qed.
Lemma updn_other : forall A (f : nat -> A) k v j, j <> k -> updn f k v j = f j.
Proof. intros. unfold updn. destruct (Nat.eqb k j) eqn:E; [apply Nat.eqb_eq in E; congruence|reflexivity]. Qed.

Lemma opt_is_true : forall o j, opt_is o j = true <-> o = Some j.
Proof.
  intros [k|] j; simpl; split; intro H; try discriminate.
  - apply Nat.eqb_eq in H. congruence.
  - inversion H. apply Nat.eqb_refl.
Qed.
Lemma opt_is_false : forall o j, opt_is o j = false <-> o <> Some j.
Proof.
  intros o j. split; intro H.
  - intro Hx. apply opt_is_true in Hx. congruence.
  - destruct (opt_is o j) eqn:E; [apply opt_is_true in E; contradiction|reflexivity].
Qed.

(* everything except the link between status and the session's reference *)
Definition SInvB (s : sst) : Prop :=
  (forall j, s_mine s j = true -> s_live s j = true -> s_cur s = Some j) /\
  (forall c j, s_where s c = Some j ->
     s_live s j = true /\ s_ever s c = Some j /\ s_closes s c = 0 /\ j < s_n s) /\
  (forall c, s_where s c = None ->
     (s_ever s c = None /\ s_closes s c = 0) \/ (s_ever s c <> None /\ s_closes s c = 1)) /\
  (forall j, s_n s <= j -> s_live s j = false /\ s_mine s j = false) /\
  (forall j, s_cur s = Some j -> j < s_n s) /\ (forall j, s_reg s = Some j -> j < s_n s).

Definition SInv (s : sst) : Prop :=
  (s_status s <> StRecording -> s_cur s = None) /\ (s_over s = true -> s_cur s = None) /\ SInvB s.

Lemma SInvB_close : forall j s, SInvB s -> SInvB (close_stream j s).
Proof.
  intros j s (B & C & D & E & F & G). unfold SInvB, close_stream; simpl.
  split; [|split; [|split; [|split; [|split]]]].
  - intros j' Hm Hl. apply B; [exact Hm|]. unfold updn in Hl. destruct (Nat.eqb j j'); [discriminate|exact Hl].
  - intros c j' Hw. destruct (opt_is (s_where s c) j) eqn:Eo; [discriminate|].
    destruct (C c j' Hw) as (H1 & H2 & H3 & H4). apply opt_is_false in Eo.
    assert (Hne : j' <> j) by congruence.
    rewrite updn_other by exact Hne. auto.
  - intros c Hw. destruct (opt_is (s_where s c) j) eqn:Eo.
    + apply opt_is_true in Eo. destruct (C c j Eo) as (_ & H2 & H3 & _). right. rewrite H2, H3. split; [discriminate|reflexivity].
    + apply D. exact Hw.
  - intros j' Hj. destruct (E j' Hj) as [H1 H2]. split; [|exact H2].
    unfold updn. destruct (Nat.eqb j j'); [reflexivity|exact H1].
  - exact F.
  - exact G.
Qed.

Lemma SInvB_publish : forall np mine s, SInvB s -> (mine = true -> s_cur s = None) -> SInvB (publish np mine s).
Proof.
  intros np mine s H Hc. unfold publish.
  set (s1 := match s_reg s with
             | Some j => if s_live s j && negb (has_consumers np s j) then close_stream j s else s
             | None => s end).
  assert (H1 : SInvB s1).
  { unfold s1. destruct (s_reg s) as [j|]; [|exact H].
    destruct (s_live s j && negb (has_consumers np s j)); [apply SInvB_close; exact H|exact H]. }
  assert (Hn : s_n s1 = s_n s) by (unfold s1; destruct (s_reg s) as [j|]; [destruct (_ && _)|]; reflexivity).
  assert (Hcur : s_cur s1 = s_cur s) by (unfold s1; destruct (s_reg s) as [j|]; [destruct (_ && _)|]; reflexivity).
  clearbody s1. destruct H1 as (B & C & D & E & F & G). rewrite <- Hn. unfold SInvB; simpl.
  split; [|split; [|split; [|split; [|split]]]].
  - intros j Hm Hl. destruct (Nat.eq_dec j (s_n s1)) as [-> | Hne].
    + rewrite updn_same in Hm. subst mine. reflexivity.
    + rewrite updn_other in Hm, Hl by exact Hne. pose proof (B j Hm Hl) as Hx.
      destruct mine; [rewrite Hcur, (Hc eq_refl) in Hx; discriminate|exact Hx].
  - intros c j Hw. destruct (C c j Hw) as (H1 & H2 & H3 & H4).
    assert (Hne : j <> s_n s1) by lia. rewrite updn_other by exact Hne. repeat split; auto.
  - exact D.
  - intros j Hj. assert (Hne : j <> s_n s1) by lia. rewrite !updn_other by exact Hne. apply E. lia.
  - intros j Hj. destruct mine; [inversion Hj; lia|]. apply F in Hj. lia.
  - intros j Hj. inversion Hj. lia.
Qed.

Lemma SInv_init : SInv sinit.
Proof.
  unfold SInv, SInvB, sinit; simpl. repeat split; intros; auto; try discriminate.
Qed.

Lemma SInv_step : forall np s e, SInv s -> SInv (sstep true np s e).
Proof.
  intros np s e (A & O & HB). pose proof HB as (B & C & D & E & F & G).
  assert (Hs : SInv s) by (exact (conj A (conj O HB))).
  destruct e as [r|c|c| |]; simpl.
  - (* a request of the publisher *)
    unfold request. destruct (s_over s) eqn:Eov; [exact Hs|].
    destruct r.
    + exact Hs.
    + destruct (s_status s) eqn:Est; try exact Hs.
      unfold SInv, set_session; simpl. split; [intros _; apply A; rewrite ?Est; discriminate|]. split; [exact (proj1 (proj2 Hs))|exact HB].
    + destruct (s_status s) eqn:Est; try exact Hs;
        (unfold SInv, set_session; simpl; split; [intros _; apply A; rewrite ?Est; discriminate|]; split; [exact (proj1 (proj2 Hs))|exact HB]).
    + destruct (s_status s) eqn:Est; try exact Hs.
      destruct (s_mode_rec s); [|exact Hs].
      assert (Hcn : s_cur s = None) by (apply A; rewrite ?Est; discriminate).
      pose proof (SInvB_publish np true s HB (fun _ => Hcn)) as HP.
      assert (Hov : s_over (publish np true s) = false).
      { unfold publish. simpl. destruct (s_reg s) as [j|]; [destruct (_ && _)|]; exact Eov. }
      unfold SInv, set_session. cbn [s_status s_over s_cur]. split; [intro Hx; congruence|]. split; [intro Hx; congruence|].
      destruct HP as (P1 & P2 & P3 & P4 & P5 & P6). unfold SInvB. cbn [s_mine s_live s_cur s_where s_ever s_closes s_n s_reg]. auto 10.
  - (* attach *)
    destruct (s_reg s) as [j|] eqn:Er; [|exact Hs].
    destruct (s_ever s c) eqn:Ee; [exact Hs|].
    destruct (s_live s j) eqn:El; [|exact Hs].
    assert (Hwn : s_where s c = None).
    { destruct (s_where s c) as [j'|] eqn:Ew; [|reflexivity]. destruct (C c j' Ew) as (_ & H2 & _). congruence. }
    assert (Hc0 : s_closes s c = 0) by (destruct (D c Hwn) as [[_ H]|[H _]]; [exact H|congruence]).
    unfold SInv, SInvB; simpl. split; [exact (proj1 Hs)|]. split; [exact (proj1 (proj2 Hs))|].
    split; [exact B|]. split; [|split; [|split; [exact E|split; [exact F|exact G]]]].
    + intros c' j' Hw. destruct (Nat.eq_dec c' c) as [-> | Hne].
      * rewrite updn_same in Hw. inversion Hw; subst j'. rewrite updn_same.
        split; [exact El|]. split; [reflexivity|]. split; [exact Hc0|]. destruct (proj2 (proj2 Hs)) as (_ & _ & _ & _ & _ & G0). apply G0. exact Er.
      * rewrite updn_other in Hw by exact Hne. rewrite updn_other by exact Hne. apply C. exact Hw.
    + intros c' Hw. destruct (Nat.eq_dec c' c) as [-> | Hne].
      * rewrite updn_same in Hw. discriminate.
      * rewrite updn_other in Hw by exact Hne. rewrite updn_other by exact Hne. apply D. exact Hw.
  - (* detach *)
    destruct (s_where s c) as [j|] eqn:Ew; [|exact Hs].
    destruct (C c j Ew) as (H1 & H2 & H3 & H4).
    unfold SInv, SInvB; simpl. split; [exact (proj1 Hs)|]. split; [exact (proj1 (proj2 Hs))|].
    split; [exact B|]. split; [|split; [|split; [exact E|split; [exact F|exact G]]]].
    + intros c' j' Hw. destruct (Nat.eq_dec c' c) as [-> | Hne].
      * rewrite updn_same in Hw. discriminate.
      * rewrite updn_other in Hw by exact Hne. rewrite updn_other by exact Hne. apply C. exact Hw.
    + intros c' Hw. destruct (Nat.eq_dec c' c) as [-> | Hne].
      * rewrite updn_same. right. rewrite H2, H3. split; [discriminate|reflexivity].
      * rewrite updn_other in Hw by exact Hne. rewrite updn_other by exact Hne. apply D. exact Hw.
  - (* another publisher *)
    pose proof (SInvB_publish np false s HB (fun H => ltac:(discriminate))) as HP.
    assert (Hst : s_status (publish np false s) = s_status s /\ s_over (publish np false s) = s_over s /\
                  s_cur (publish np false s) = s_cur s).
    { unfold publish; simpl. destruct (s_reg s) as [j|]; [destruct (_ && _)|]; auto. }
    destruct Hst as (S1 & S2 & S3). unfold SInv. rewrite S1, S2, S3. auto.
  - (* the source ends *)
    destruct (s_over s) eqn:Eov; [exact Hs|].
    destruct (s_cur s) as [k|] eqn:Ec.
    + pose proof (SInvB_close k s HB) as (B' & C' & D' & E' & F' & G').
      unfold SInv, SInvB; simpl. split; [auto|]. split; [auto|].
      split; [|split; [exact C'|split; [exact D'|split; [exact E'|split; [intros j Hj; discriminate|]]]]].
      * intros j Hm Hl. simpl in B'. pose proof (B' j Hm Hl) as Hx. rewrite ?Ec in Hx. inversion Hx; subst j.
        unfold close_stream in Hl; simpl in Hl. rewrite updn_same in Hl. discriminate.
      * intros j Hj. simpl in G'. destruct (opt_is (s_reg s) k); [discriminate|]. apply G'. exact Hj.
    + unfold SInv, SInvB; simpl. split; [auto|]. split; [auto|].
      split; [|split; [exact C|split; [exact D|split; [exact E|split; [intros j Hj; discriminate|exact G]]]]].
      intros j Hm Hl. pose proof (B j Hm Hl) as Hx. rewrite ?Ec in Hx. discriminate.
Qed.

Lemma SInv_run : forall np h s, SInv s -> SInv (fold_left (sstep true np) h s).
Proof. intros np h. induction h as [|e h IH]; intros s H; simpl; [exact H|]. apply IH, SInv_step, H. Qed.

(* Once the source has ended — by TEARDOWN or a dropped connection, whatever requests (repeated RECORD,
   ANNOUNCE, SETUP, OPTIONS) it had sent, whoever else took the path, and whatever happens afterwards —
   every stream it ever published is ended with nobody attached, and every player that ever attached to one
   has had Close called exactly once. *)
Theorem source_end_releases_all : forall np h,
  let s := srun true np h in
  s_over s = true ->
  (forall j, s_mine s j = true -> s_live s j = false /\ forall c, s_where s c <> Some j) /\
  (forall c j, s_ever s c = Some j -> s_mine s j = true -> s_where s c = None /\ s_closes s c = 1).
Proof.
  intros np h s Hov. pose proof (SInv_run np h sinit SInv_init) as (A & O & B & C & D & E & F & G).
  fold (srun true np h) in A, O, B, C, D, E, F, G. fold s in A, O, B, C, D, E, F, G.
  assert (Hcur : s_cur s = None) by (apply O; exact Hov).
  assert (Hdead : forall j, s_mine s j = true -> s_live s j = false).
  { intros j Hm. destruct (s_live s j) eqn:El; [|reflexivity]. pose proof (B j Hm El). congruence. }
  split.
  - intros j Hm. split; [apply Hdead; exact Hm|]. intros c Hw. destruct (C c j Hw) as (H1 & _).
    rewrite (Hdead j Hm) in H1. discriminate.
  - intros c j He Hm.
    assert (Hw : s_where s c = None).
    { destruct (s_where s c) as [j'|] eqn:Ew; [|reflexivity]. destruct (C c j' Ew) as (H1 & H2 & _).
      assert (j' = j) by congruence. subst j'. rewrite (Hdead j Hm) in H1. discriminate. }
    split; [exact Hw|]. destruct (D c Hw) as [[H _]|[_ H]]; [congruence|exact H].
Qed.

(* nobody is closed twice, at any time *)
Theorem source_close_at_most_once : forall np h c, s_closes (srun true np h) c <= 1.
Proof.
  intros np h c. pose proof (SInv_run np h sinit SInv_init) as (_ & _ & _ & C & D & _).
  fold (srun true np h) in C, D. destruct (s_where (srun true np h) c) as [j|] eqn:Ew.
  - destruct (C c j Ew) as (_ & _ & H & _). lia.
  - destruct (D c Ew) as [[_ H]|[_ H]]; lia.
Qed.

(* a session publishes at most one stream that is alive, and it is the one it will close *)
Theorem source_one_live_stream : forall np h j,
  let s := srun true np h in s_mine s j = true -> s_live s j = true -> s_cur s = Some j.
Proof. intros np h j s. pose proof (SInv_run np h sinit SInv_init) as (_ & _ & B & _). apply B. Qed.

Lemma zlist_eqb_refl : forall l, zlist_eqb l l = true.
Proof. induction l as [|x l IH]; simpl; [reflexivity|]. rewrite Z.eqb_refl, IH. reflexivity. Qed.
Lemma blist_eqb_refl : forall l, blist_eqb l l = true.
Proof. induction l as [|x l IH]; simpl; [reflexivity|]. rewrite eqb_reflx, IH. reflexivity. Qed.
Lemma sobs_eqb_refl : forall o, sobs_eqb o o = true.
Proof. intros o. unfold sobs_eqb. rewrite zlist_eqb_refl, blist_eqb_refl, !Z.eqb_refl. reflexivity. Qed.
Lemma solist_eqb_refl : forall l, solist_eqb l l = true.
Proof. induction l as [|x l IH]; simpl; [reflexivity|]. rewrite sobs_eqb_refl, IH. reflexivity. Qed.

Theorem source_model_passes : forall np kinds h, ok_source np kinds h (strace true np kinds sinit h) = true.
Proof. intros. apply solist_eqb_refl. Qed.

(* ---------- without the keep-alive guard: the re-publishing session ---------- *)
Definition source_witness : list sev :=
  [SReq QAnnounce; SReq QSetup; SReq QRecord; SAttach 0; SReq QRecord; SEnd].

Example source_republish_refuted :
  let s := srun false 1 source_witness in
  swf false 1 sinit source_witness = true /\ s_over s = true /\
  s_mine s 0 = true /\ s_live s 0 = true /\ s_where s 0 = Some 0 /\ s_closes s 0 = 0 /\
  (* the same history with the guard: released *)
  s_live (srun true 1 source_witness) 0 = false /\ s_closes (srun true 1 source_witness) 0 = 1 /\
  ok_source 1 [0%Z] source_witness (strace false 1 [0%Z] sinit source_witness) = false.
Proof. vm_compute. repeat split. Qed.

(* non-vacuity: OPTIONS / repeated ANNOUNCE / SETUP / RECORD, three players of three transports, one leaves, a
   second publisher takes the path (the first stream lives on for its players), a late player joins the new
   stream, the first source is torn down: its stream ends, its two players are closed once, the newcomer on the
   other publisher's stream is untouched *)
Definition source_example : list sev :=
  [SReq QOptions; SReq QAnnounce; SReq QAnnounce; SReq QSetup; SReq QSetup; SReq QRecord; SAttach 0; SReq QRecord;
   SAttach 1; SReq QAnnounce; SAttach 2; SDetach 1; SReq QRecord; SOther; SAttach 3; SReq QOptions; SEnd].

Example source_nonvacuous :
  let s := srun true 4 source_example in
  swf true 4 sinit source_example = true /\ s_n s = 2 /\ s_mine s 0 = true /\ s_mine s 1 = false /\
  s_live s 0 = false /\ s_live s 1 = true /\
  map (s_closes s) [0; 1; 2; 3] = [1; 1; 1; 0] /\ s_where s 3 = Some 1 /\
  last (strace true 4 [0; 5; 3; 2]%Z sinit source_example) (sobserve 4 [] sinit) =
    {| so_gens := [0; 1]%Z; so_rtsp := 2%Z; so_flv := 0%Z; so_wsp := 0%Z;
       so_ended := [true; true; true; false]; so_conv := 1%Z |}.
Proof. vm_compute. repeat split. Qed.
