(* C04 — the conversion chain: the key flag an FLV consumer's dropping follows is the same as the RTP
   side's key-frame start, for every frame; hence the backlog bound and the alignment of drops carry
   over to the FLV consumers of a converted stream; the model passes the oracle of the chain cases. *)
From Coq Require Import ZArith List Bool Arith Lia.
From V Require Import Val StreamLts Cache C08Flv C02Classify C02ClassifyProofs C02FlvProducer
                      C02FlvProducerProofs LtsWire LtsOracle LtsOracleProofs LtsBacklogProofs
                      C04RawPkt C04RawPktProofs C04Oracle C04OracleProofs C04Chain.
Import ListNotations.
Local Open Scope Z_scope.

Lemma cpkt_wf_facts : forall hevc p, cpkt_wf hevc p = true ->
  cp_ch p = 0 /\ nal_ok (codec_of hevc) (cp_data p) = true /\ (3 <= length (cp_data p))%nat /\
  0 <= cp_id p /\ exists b rest, cp_data p = b :: rest /\ byte_ok b = true.
Proof.
  intros hevc p H. unfold cpkt_wf in H. rewrite !andb_true_iff in H.
  destruct H as ((((Hc & Hn) & Hl) & _) & Hi).
  apply Z.eqb_eq in Hc. apply Nat.leb_le in Hl. apply Z.leb_le in Hi.
  repeat split; auto.
  destruct (nal_ok_hd _ _ Hn) as (h & rest & E & Hb & _). eauto.
Qed.

Lemma prod_cfg_hevc : forall hevc aac, c_hevc (prod_cfg hevc aac) = hevc.
Proof. intros [] []; reflexivity. Qed.

Lemma key_of_kind : forall (b : bool) i, p_key {| p_id := i; p_kind := if b then 2 else 1 |} = b.
Proof. intros [] i; reflexivity. Qed.

(* THE COMPOSITION, one frame.  For a single-NAL video packet the FLV muxer writes exactly one tag; the
   FLV cache classifies it as [tag_pkt] says; and it is a key-frame start for the FLV consumers iff the
   packet is a key-frame start for the RTP consumers. *)
Theorem flv_chain_key_agrees : forall hevc aac p, cpkt_wf hevc p = true ->
  exists t, packetize (prod_cfg hevc aac) (chain_frame p) = Some [t] /\
            tag_kind t = p_kind (tag_pkt hevc p) /\
            p_key (tag_pkt hevc p) = p_key (rtp_pkt hevc p).
Proof.
  intros hevc aac p H. destruct (cpkt_wf_facts hevc p H) as (Hc & Hn & Hl & _ & b & rest & E & Hb).
  destruct (flv_key_from_nal (prod_cfg hevc aac) (chain_frame p) b rest eq_refl E) as (t & Ht & Hk).
  exists t. split; [exact Ht|]. rewrite prod_cfg_hevc in Hk. split.
  - rewrite Hk. unfold tag_pkt. cbn [p_kind]. rewrite E. reflexivity.
  - unfold tag_pkt. rewrite key_of_kind, E. cbn [hd].
    unfold rtp_pkt, raw_pkt, p_key. cbn [p_kind]. rewrite Hc.
    pose proof (raw_kind_spec (codec_of hevc) 0 (cp_data p)) as Hs.
    rewrite (classify_single _ _ Hn Hl) in Hs. injection Hs as Hs. rewrite <- Hs, E.
    apply (flv_key_is_irap hevc b rest Hb).
Qed.

(* ... the whole stream: the kinds of [chain_tags] are what the C08 muxer writes as the FLV cache reads it *)
Lemma frame_kinds_chain : forall hevc aac pkts, forallb (cpkt_wf hevc) pkts = true ->
  frame_kinds (prod_cfg hevc aac) (map chain_frame pkts) = map p_kind (map (tag_pkt hevc) pkts).
Proof.
  intros hevc aac. induction pkts as [|p pkts IH]; intros H; [reflexivity|].
  cbn [forallb] in H. apply andb_true_iff in H. destruct H as [Hp H].
  destruct (cpkt_wf_facts hevc p Hp) as (_ & _ & _ & _ & b & rest & E & _).
  cbn [map frame_kinds chain_frame f_kind f_data]. rewrite E. cbn [Z.eqb hd].
  rewrite prod_cfg_hevc, IH by assumption. unfold tag_pkt at 2. cbn [p_kind]. rewrite E. reflexivity.
Qed.

Theorem chain_tags_are_mux_kinds : forall hevc pkts, forallb (cpkt_wf hevc) pkts = true ->
  map p_kind (chain_tags hevc pkts) = prod_kinds hevc true (map chain_frame pkts).
Proof.
  intros hevc pkts H. destruct pkts as [|p pkts]; [reflexivity|].
  rewrite prod_kinds_spec by discriminate. rewrite (frame_kinds_chain hevc true _ H).
  unfold chain_tags. rewrite map_app. destruct hevc; reflexivity.
Qed.

(* ---- key spacing carries over (three configuration tags in front) ---- *)
Local Open Scope nat_scope.

Lemma gap_from_keys_eq : forall G l1 l2 n, map p_key l1 = map p_key l2 -> gap_from G n l1 = gap_from G n l2.
Proof.
  intros G. induction l1 as [|a l1 IH]; intros [|b l2] n H; try discriminate; [reflexivity|].
  cbn [map] in H. injection H as Hk H. cbn [gap_from]. rewrite Hk.
  destruct (p_key b); [apply IH|f_equal; apply IH]; assumption.
Qed.

Lemma gap_from_relax : forall G G' l n n',
  gap_from G n l = true -> G <= G' -> n' + G <= n + G' -> gap_from G' n' l = true.
Proof.
  intros G G'. induction l as [|p l IH]; intros n n' H HG Hn; [reflexivity|].
  cbn [gap_from] in *. destruct (p_key p).
  - apply (IH 0 0); auto.
  - apply andb_true_iff in H. destruct H as [H1 H2]. apply Nat.ltb_lt in H1.
    apply andb_true_iff. split; [apply Nat.ltb_lt; lia|]. apply (IH (S n) (S n')); auto. lia.
Qed.

Lemma gap_from_nonkey : forall G n a l, p_key a = false ->
  gap_from G n (a :: l) = (S n <? G) && gap_from G (S n) l.
Proof. intros G n a l H. cbn [gap_from]. now rewrite H. Qed.

Theorem flv_chain_gap : forall hevc pkts G, forallb (cpkt_wf hevc) pkts = true ->
  gap_ok G (map (rtp_pkt hevc) pkts) = true -> gap_ok (G + 3) (chain_tags hevc pkts) = true.
Proof.
  intros hevc pkts G Hwf H. pose proof (gap_ok_pos _ _ H) as HG.
  unfold gap_ok in *. apply andb_true_iff in H. destruct H as [_ H].
  apply andb_true_iff. split; [apply Nat.ltb_lt; lia|].
  destruct pkts as [|p pkts]; [reflexivity|]. unfold chain_tags, cfg_tags.
  change ([?a; ?b; ?c] ++ ?l) with (a :: b :: c :: l).
  rewrite !gap_from_nonkey by reflexivity.
  assert (E1 : (1 <? G + 3) = true) by (apply Nat.ltb_lt; lia).
  assert (E2 : (2 <? G + 3) = true) by (apply Nat.ltb_lt; lia).
  assert (E3 : (3 <? G + 3) = true) by (apply Nat.ltb_lt; lia).
  rewrite E1, E2, E3. cbn [andb].
  rewrite (gap_from_keys_eq _ (map (tag_pkt hevc) (p :: pkts)) (map (rtp_pkt hevc) (p :: pkts))).
  - apply (gap_from_relax G (G + 3) _ 0 3 H); lia.
  - rewrite !map_map. apply map_ext_in. intros a Ha.
    rewrite forallb_forall in Hwf. destruct (flv_chain_key_agrees hevc true a (Hwf a Ha)) as (_ & _ & _ & E).
    exact E.
Qed.

(* a tag that is a key-frame start for the FLV consumers is the tag of a video key-frame start *)
Theorem flv_chain_key_tags : forall hevc pkts t, forallb (cpkt_wf hevc) pkts = true ->
  In t (chain_tags hevc pkts) -> p_key t = true ->
  exists p, In p pkts /\ p_id t = cp_id p /\ p_key (rtp_pkt hevc p) = true.
Proof.
  intros hevc pkts t Hwf Hin Hk. destruct pkts as [|p0 pkts]; [contradiction|].
  unfold chain_tags in Hin. apply in_app_or in Hin. destruct Hin as [Hin|Hin].
  - cbn in Hin. destruct Hin as [<-|[<-|[<-|[]]]]; discriminate.
  - apply in_map_iff in Hin. destruct Hin as (p & <- & Hp). exists p. split; [exact Hp|].
    split; [reflexivity|]. rewrite forallb_forall in Hwf.
    destruct (flv_chain_key_agrees hevc true p (Hwf p Hp)) as (_ & _ & _ & E). now rewrite <- E.
Qed.

(* the FLV consumers of a converted stream: backlog bound, for every schedule of the FLV side *)
Theorem flv_chain_backlog_bound :
  forall maxq cache_t cache_empty cache_add cache_snap ncons panic_at hevc pkts G stoppers sched c,
  forallb (cpkt_wf hevc) pkts = true -> gap_ok G (map (rtp_pkt hevc) pkts) = true ->
  let k := s_cs cache_t (run fixed maxq cache_t cache_empty cache_add cache_snap ncons panic_at sched
                             (init cache_t cache_empty (chain_tags hevc pkts) stoppers)) c in
  length (c_q k) <= Nat.max maxq (length (c_prefill k)) + (G + 3) + 1.
Proof.
  intros. apply backlog_bound. now apply flv_chain_gap.
Qed.

(* ---- the model passes the oracle of the chain cases ---- *)
Lemma ok_C04x_cons_only : forall c o1 o2, o_cons o1 = o_cons o2 -> ok_C04x c o1 = ok_C04x c o2.
Proof. intros c o1 o2 H. unfold ok_C04x, ok_C04. rewrite H. reflexivity. Qed.

Lemma flv_state_cons : forall n (s : lstate),
  o_cons (dec_obs (enc_flv_state n s)) = o_cons (dec_obs (enc_state n s)).
Proof. reflexivity. Qed.

Theorem chain_model_passes : forall v, l_var (dec_lcase v) = fixed -> chain_ok v (chain_run v) = true.
Proof.
  intros v Hv. unfold chain_ok. destruct (chain_wf v); [|reflexivity].
  assert (Hv' : l_var (dec_lcase (norm_case v)) = fixed).
  { destruct (norm_case_fields v) as (E & _). cbv zeta in E. now rewrite E. }
  unfold chain_run. apply andb_true_iff. split.
  - change (nthv 0 (VL [?a; ?b])) with a. rewrite dec_enc_obs. apply C04x_model_passes. exact Hv'.
  - change (nthv 1 (VL [?a; ?b])) with b.
    rewrite (ok_C04x_cons_only _ _ _ (flv_state_cons _ _)). rewrite dec_enc_obs.
    apply C04x_model_passes. exact Hv'.
Qed.
