(* C02 part B — join contiguity in the stream LTS (Model/StreamLts.v), variant [fixed].
   While the stream is alive (no TClose step), for every schedule, every consumer that has been
   registered at sent-log length r was pre-filled with the cache of exactly the packets broadcast
   before its registration, and everything pushed to it afterwards is a selection of the packets
   with index >= r: no gap, no repeat at the join.  Abstract cache (Section variables), then the
   concrete [rcache] corollary through Proofs/CacheProofs.v.  The [original] variant (no join
   mutex) violates both directions: D1 repeat / D1 gap witnesses at the end. *)
From Coq Require Import ZArith List Bool Arith Lia.
From V Require Import StreamLts Cache LtsWire CacheProofs.
Import ListNotations.

Local Arguments s_ok {_} _.
Local Arguments s_lock {_} _.
Local Arguments s_lockq {_} _.
Local Arguments s_cache {_} _.
Local Arguments s_sent {_} _.
Local Arguments s_cached {_} _.
Local Arguments s_todo {_} _.
Local Arguments s_pp {_} _.
Local Arguments s_count {_} _.
Local Arguments s_cs {_} _ _.
Local Arguments s_att {_} _ _.
Local Arguments s_stp {_} _ _.
Local Arguments s_kp {_} _.

(* ---------- small generic lemmas ---------- *)

Lemma upd_same : forall A (f : nat -> A) c v, upd f c v c = v.
Proof. intros. unfold upd. rewrite Nat.eqb_refl. reflexivity. Qed.

Lemma upd_other : forall A (f : nat -> A) c c' v, c <> c' -> upd f c v c' = f c'.
Proof. intros A f c c' v H. unfold upd. destruct (Nat.eqb_spec c c'); [contradiction|reflexivity]. Qed.

Lemma firstn_app_le : forall A (l : list A) x r, (r <= length l)%nat -> firstn r (l ++ x) = firstn r l.
Proof.
  intros A l x r H. rewrite firstn_app. replace (r - length l)%nat with O by lia.
  cbn. apply app_nil_r.
Qed.

Lemma NoDup_app_snoc : forall A (l : list A) x, NoDup l -> ~ In x l -> NoDup (l ++ [x]).
Proof.
  intros A l x Hn Hi. induction Hn as [|a l Ha Hn IH]; cbn.
  - constructor; [intros []|constructor].
  - constructor.
    + intros H. apply in_app_or in H. destruct H as [H|[H|[]]]; [contradiction|].
      apply Hi. left. symmetry. exact H.
    + apply IH. intros H. apply Hi. right. exact H.
Qed.

(* [jselect keep l]: the elements of l whose flag is true *)
Fixpoint jselect {A} (keep : list bool) (l : list A) : list A :=
  match keep, l with
  | b :: keep', x :: l' => if b then x :: jselect keep' l' else jselect keep' l'
  | _, _ => []
  end.

Lemma jselect_app : forall A (k1 : list bool) (l1 : list A) k2 l2,
  length k1 = length l1 -> jselect (k1 ++ k2) (l1 ++ l2) = jselect k1 l1 ++ jselect k2 l2.
Proof.
  induction k1 as [|b k1 IH]; intros l1 k2 l2 H; destruct l1 as [|x l1]; try discriminate; [reflexivity|].
  cbn in H. cbn [app jselect]. rewrite IH by lia. destruct b; reflexivity.
Qed.

(* the packets broadcast while registered: indexes r .. u-1 of the sent log *)
Definition jwindow (sent : list pkt) (r : nat) (u : option nat) : list pkt :=
  skipn r (match u with Some n => firstn n sent | None => sent end).

(* ---------- ghost fields are only written at the attach steps ---------- *)

Definition gh (k : cons) := (c_regat k, c_prefill k).

Lemma gh_wake : forall k, gh (wake k) = gh k.
Proof. intros k. unfold wake. destruct (c_pc k); try reflexivity. destruct (c_q k); reflexivity. Qed.

Lemma gh_push : forall k x, gh (push k x) = gh k.
Proof. intros. unfold push. rewrite gh_wake. reflexivity. Qed.

Lemma gh_send : forall maxq k p, gh (send maxq k p) = gh k.
Proof.
  intros. unfold send. cbv zeta.
  match goal with |- gh (if ?d then _ else _) = _ => destruct d end; [reflexivity|].
  rewrite gh_push. reflexivity.
Qed.

Lemma gh_close_cons : forall V k, gh (close_cons V k) = gh k.
Proof.
  intros. unfold close_cons. destruct (c_closed k); [reflexivity|].
  destruct (v_push V); [rewrite gh_push|rewrite gh_wake]; reflexivity.
Qed.

Lemma gh_unreg : forall k n, gh (set_reg k false n) = gh k.
Proof. reflexivity. Qed.

Lemma gh_set_pc : forall k pc, gh (set_pc k pc) = gh k.
Proof. reflexivity. Qed.

Lemma gh_finish : forall k, gh (finish k) = gh k.
Proof. reflexivity. Qed.

Lemma gh_exit_path : forall V k n, gh (exit_path V k n) = gh k.
Proof.
  intros. unfold exit_path. destruct (c_reg k); [|apply gh_finish].
  rewrite gh_set_pc. destruct (v_atomic V); reflexivity.
Qed.

Lemma gh_loop_test : forall V k n, gh (loop_test V k n) = gh k.
Proof. intros. unfold loop_test. destruct (c_closed k); [apply gh_exit_path|apply gh_set_pc]. Qed.

Lemma gh_send_all : forall maxq n f p c, gh (send_all maxq n f p c) = gh (f c).
Proof.
  induction n as [|n IH]; intros f p c; [reflexivity|].
  cbn [send_all]. cbv zeta. destruct (c_reg (send_all maxq n f p n)); [|apply IH].
  destruct (Nat.eq_dec n c) as [->|Hn].
  - rewrite upd_same, gh_send. apply IH.
  - rewrite upd_other by exact Hn. apply IH.
Qed.

(* ---------- the fields the live-part equation talks about ---------- *)

Definition gh2 (k : cons) := (c_reg k, c_regat k, c_unregat k, c_prefill k, c_pushed k, c_keep k).

Lemma gh2_gh : forall k k', gh2 k' = gh2 k -> gh k' = gh k.
Proof. intros k k' H. unfold gh2 in H. unfold gh. congruence. Qed.

Lemma gh2_wake : forall k, gh2 (wake k) = gh2 k.
Proof. intros k. unfold wake. destruct (c_pc k); try reflexivity. destruct (c_q k); reflexivity. Qed.

Lemma gh2_push_nil : forall k, gh2 (push k None) = gh2 k.
Proof. intros. unfold push. rewrite gh2_wake. reflexivity. Qed.

Lemma gh2_close_cons : forall k, gh2 (close_cons fixed k) = gh2 k.
Proof.
  intros. unfold close_cons. destruct (c_closed k); [reflexivity|].
  cbn [v_push fixed]. rewrite gh2_push_nil. reflexivity.
Qed.

Lemma gh2_send : forall maxq k p, exists d : bool,
  gh2 (send maxq k p) =
  (c_reg k, c_regat k, c_unregat k, c_prefill k,
   (if d then c_pushed k else c_pushed k ++ [p]), c_keep k ++ [negb d]).
Proof.
  intros. unfold send. cbv zeta.
  match goal with |- exists _, gh2 (if ?d then _ else _) = _ => exists d; destruct d end;
    [reflexivity|].
  unfold push. rewrite gh2_wake. reflexivity.
Qed.

Lemma send_all_at : forall maxq n f p c,
  send_all maxq n f p c =
  if ((c <? n)%nat && c_reg (f c))%bool then send maxq (f c) p else f c.
Proof.
  induction n as [|n IH]; intros f p c; [reflexivity|].
  cbn [send_all]. cbv zeta.
  destruct (Nat.eq_dec n c) as [->|Hn].
  - assert (E : send_all maxq c f p c = f c) by (rewrite IH, Nat.ltb_irrefl; reflexivity).
    rewrite E. replace (c <? S c)%nat with true by (symmetry; apply Nat.ltb_lt; lia). cbn [andb].
    destruct (c_reg (f c)); [rewrite upd_same; reflexivity|exact E].
  - assert (E : (c <? S n)%nat = (c <? n)%nat).
    { destruct (Nat.ltb_spec c n), (Nat.ltb_spec c (S n)); try reflexivity; lia. }
    rewrite E. destruct (c_reg (send_all maxq n f p n)); [rewrite upd_other by exact Hn|]; apply IH.
Qed.

(* what holds of one consumer, given the sent log *)
Definition KC (sent : list pkt) (k : cons) : Prop :=
  match c_regat k with
  | None => c_reg k = false /\ c_keep k = [] /\ c_unregat k = None /\ c_pushed k = c_prefill k
  | Some r =>
      (r <= length sent)%nat /\
      c_pushed k = c_prefill k ++ jselect (c_keep k) (jwindow sent r (c_unregat k)) /\
      length (c_keep k) = length (jwindow sent r (c_unregat k)) /\
      match c_unregat k with
      | None => c_reg k = true
      | Some u => c_reg k = false /\ (r <= u <= length sent)%nat
      end
  end.

Lemma KC_gh2 : forall sent k k', gh2 k' = gh2 k -> KC sent k -> KC sent k'.
Proof.
  intros sent k k' H. unfold gh2 in H. injection H as E1 E2 E3 E4 E5 E6.
  unfold KC. rewrite E1, E2, E3, E4, E5, E6. auto.
Qed.

Lemma KC_unreg : forall sent k, c_reg k = true -> KC sent k -> KC sent (set_reg k false (length sent)).
Proof.
  intros sent k Hr. unfold KC. cbn.
  destruct (c_regat k) as [r|]; [|intros (H & _); congruence].
  destruct (c_unregat k) as [u|]; [intros (_ & _ & _ & H & _); congruence|].
  intros (H1 & H2 & H3 & _). unfold jwindow in *. rewrite firstn_all. repeat split; auto; lia.
Qed.

Lemma KC_send : forall maxq sent k p,
  c_reg k = true -> KC sent k -> KC (sent ++ [p]) (send maxq k p).
Proof.
  intros maxq sent k p Hr. destruct (gh2_send maxq k p) as [d Hd].
  unfold gh2 in Hd. injection Hd as E1 E2 E3 E4 E5 E6.
  unfold KC. rewrite E1, E2, E3, E4, E5, E6.
  destruct (c_regat k) as [r|]; [|intros (H & _); congruence].
  destruct (c_unregat k) as [u|]; [intros (_ & _ & _ & H & _); congruence|].
  intros (H1 & H2 & H3 & _). unfold jwindow in *.
  rewrite skipn_app. replace (r - length sent)%nat with O by lia. cbn [skipn].
  rewrite jselect_app by exact H3. rewrite !app_length. cbn [length].
  repeat split; auto; try lia.
  rewrite H2. destruct d; cbn; rewrite ?app_nil_r, <- ?app_assoc; reflexivity.
Qed.

Lemma KC_grow : forall sent k p, c_reg k = false -> KC sent k -> KC (sent ++ [p]) k.
Proof.
  intros sent k p Hr. unfold KC.
  destruct (c_regat k) as [r|]; [|auto].
  destruct (c_unregat k) as [u|]; [|intros (_ & _ & _ & H); congruence].
  intros (H1 & H2 & H3 & H4 & H5). unfold jwindow in *.
  rewrite firstn_app_le by lia. rewrite app_length. cbn. repeat split; auto; lia.
Qed.

Lemma KC_reg : forall sent k,
  c_regat k = None -> KC sent k -> KC sent (set_reg k true (length sent)).
Proof.
  intros sent k Hn. unfold KC. rewrite Hn. cbn. intros (H1 & H2 & H3 & H4).
  rewrite H3. unfold jwindow. rewrite skipn_all. rewrite H2. cbn. rewrite app_nil_r. auto.
Qed.

Lemma KC_exit_path : forall sent k, KC sent k -> KC sent (exit_path fixed k (length sent)).
Proof.
  intros sent k H. unfold exit_path. cbn [v_atomic fixed]. destruct (c_reg k) eqn:Hr.
  - eapply KC_gh2; [|apply KC_unreg; eassumption]. reflexivity.
  - eapply KC_gh2; [|exact H]. reflexivity.
Qed.

Lemma KC_loop_test : forall sent k, KC sent k -> KC sent (loop_test fixed k (length sent)).
Proof.
  intros sent k H. unfold loop_test. destruct (c_closed k); [apply KC_exit_path, H|].
  eapply KC_gh2; [|exact H]. reflexivity.
Qed.

Lemma KC_close : forall sent k, KC sent k -> KC sent (close_cons fixed k).
Proof. intros sent k H. eapply KC_gh2; [apply gh2_close_cons|exact H]. Qed.

(* ---------- the seam: nothing is dropped before the next key start ---------- *)

(* the key-free prefix of a packet list: the live packets that still belong to the GOP the joiner
   was replayed *)
Fixpoint nk (w : list pkt) : list pkt :=
  match w with [] => [] | p :: w' => if p_key p then [] else p :: nk w' end.

Lemma nk_length_le : forall w, (length (nk w) <= length w)%nat.
Proof. induction w as [|p w IH]; cbn; [lia|]. destruct (p_key p); cbn; lia. Qed.

Lemma nk_full_or_short : forall w, nk w = w \/ (length (nk w) < length w)%nat.
Proof.
  induction w as [|p w [IH|IH]]; [left; reflexivity| |]; cbn; destruct (p_key p); cbn.
  - right; lia.
  - left; rewrite IH; reflexivity.
  - right; lia.
  - right; lia.
Qed.

Lemma nk_app_full : forall w p, nk w = w -> nk (w ++ [p]) = if p_key p then w else w ++ [p].
Proof.
  induction w as [|a w IH]; intros p H; cbn.
  - destruct (p_key p); reflexivity.
  - cbn in H. destruct (p_key a); [discriminate|]. injection H as H. rewrite (IH p H).
    destruct (p_key p); reflexivity.
Qed.

Lemma nk_app_short : forall w p, (length (nk w) < length w)%nat -> nk (w ++ [p]) = nk w.
Proof.
  induction w as [|a w IH]; intros p H; cbn in *; [lia|].
  destruct (p_key a); [reflexivity|]. cbn in H. rewrite IH by lia. reflexivity.
Qed.

Lemma nk_prefix : forall w, firstn (length (nk w)) w = nk w.
Proof. induction w as [|p w IH]; cbn; [reflexivity|]. destruct (p_key p); cbn; [reflexivity|]. rewrite IH. reflexivity. Qed.

Lemma jselect_true : forall (w : list pkt), jselect (map (fun _ => true) w) w = w.
Proof. induction w as [|p w IH]; cbn; [reflexivity|]. rewrite IH. reflexivity. Qed.

Definition gh3 (k : cons) := (c_disc k, c_keep k, c_regat k, c_unregat k).

Lemma gh3_wake : forall k, gh3 (wake k) = gh3 k.
Proof. intros k. unfold wake. destruct (c_pc k); try reflexivity. destruct (c_q k); reflexivity. Qed.

Lemma gh3_push : forall k x, gh3 (push k x) = gh3 k.
Proof. intros. unfold push. rewrite gh3_wake. reflexivity. Qed.

Lemma gh3_close_cons : forall k, gh3 (close_cons fixed k) = gh3 k.
Proof.
  intros. unfold close_cons. destruct (c_closed k); [reflexivity|].
  cbn [v_push fixed]. rewrite gh3_push. reflexivity.
Qed.

(* consumption.send: the discarding decision *)
Definition send_d (maxq : nat) (k : cons) (p : pkt) : bool :=
  let n := length (c_q k) in
  if p_key p
  then (if c_disc k && (n <? maxq)%nat then false
        else if negb (c_disc k) && (maxq <? n)%nat then true else c_disc k)
  else c_disc k.

Lemma gh3_send : forall maxq k p,
  gh3 (send maxq k p) = (send_d maxq k p, c_keep k ++ [negb (send_d maxq k p)], c_regat k, c_unregat k).
Proof.
  intros. unfold send. cbv zeta. fold (send_d maxq k p).
  destruct (send_d maxq k p); [reflexivity|]. rewrite gh3_push. reflexivity.
Qed.

Lemma send_d_nokey : forall maxq k p, p_key p = false -> send_d maxq k p = c_disc k.
Proof. intros maxq k p H. unfold send_d. rewrite H. reflexivity. Qed.

(* one consumer: up to the first key start broadcast while it is registered every packet is kept,
   and while there has been none it is not discarding — whatever its queue length and the limit *)
Definition DC (sent : list pkt) (k : cons) : Prop :=
  match c_regat k with
  | None => c_disc k = false
  | Some r =>
      let w := jwindow sent r (c_unregat k) in
      firstn (length (nk w)) (c_keep k) = map (fun _ => true) (nk w) /\ (nk w = w -> c_disc k = false)
  end.

Lemma DC_gh3 : forall sent k k', gh3 k' = gh3 k -> DC sent k -> DC sent k'.
Proof.
  intros sent k k' H. unfold gh3 in H. injection H as E1 E2 E3 E4.
  unfold DC. rewrite E1, E2, E3, E4. auto.
Qed.

Lemma DC_unreg : forall sent k,
  c_reg k = true -> KC sent k -> DC sent k -> DC sent (set_reg k false (length sent)).
Proof.
  intros sent k Hr. unfold KC, DC. cbn.
  destruct (c_regat k) as [r|]; [|intros (H & _); congruence].
  destruct (c_unregat k) as [u|]; [intros (_ & _ & _ & H & _); congruence|].
  intros _. unfold jwindow. rewrite firstn_all. auto.
Qed.

Lemma DC_reg : forall sent k,
  c_regat k = None -> KC sent k -> DC sent k -> DC sent (set_reg k true (length sent)).
Proof.
  intros sent k Hn. unfold KC, DC. rewrite Hn. cbn. intros (_ & _ & H3 & _) Hd.
  rewrite H3. unfold jwindow. rewrite skipn_all. cbn. auto.
Qed.

Lemma DC_send : forall maxq sent k p,
  c_reg k = true -> KC sent k -> DC sent k -> DC (sent ++ [p]) (send maxq k p).
Proof.
  intros maxq sent k p Hr. pose proof (gh3_send maxq k p) as G. unfold gh3 in G.
  injection G as E1 E2 E3 E4. unfold KC, DC. rewrite E1, E2, E3, E4.
  destruct (c_regat k) as [r|]; [|intros (H & _); congruence].
  destruct (c_unregat k) as [u|]; [intros (_ & _ & _ & H & _); congruence|].
  intros (H1 & _ & H3 & _) (D1 & D2). unfold jwindow in *. cbv zeta.
  rewrite skipn_app. replace (r - length sent)%nat with O by lia. cbn [skipn].
  set (w := skipn r sent) in *.
  destruct (nk_full_or_short w) as [F|S].
  - specialize (D2 F). rewrite (nk_app_full w p F). rewrite F in D1.
    assert (Ek : c_keep k = map (fun _ => true) w).
    { rewrite <- D1. rewrite <- H3. symmetry. apply firstn_all. }
    destruct (p_key p) eqn:Kp.
    + split.
      * rewrite firstn_app. replace (length w - length (c_keep k))%nat with O by lia.
        cbn. rewrite app_nil_r. rewrite <- H3, firstn_all. exact Ek.
      * intros E. exfalso. apply (f_equal (@length pkt)) in E. rewrite app_length in E. cbn in E. lia.
    + rewrite (send_d_nokey maxq k p Kp), D2. cbn [negb]. split; [|reflexivity].
      rewrite app_length. cbn [length]. rewrite firstn_all2 by (rewrite app_length; cbn; lia).
      rewrite Ek, map_app. reflexivity.
  - rewrite (nk_app_short w p S). split.
    + rewrite firstn_app. replace (length (nk w) - length (c_keep k))%nat with O by lia.
      cbn. rewrite app_nil_r. exact D1.
    + intros E. exfalso. apply (f_equal (@length pkt)) in E. rewrite app_length in E. cbn in E. lia.
Qed.

Lemma DC_grow : forall sent k p, c_reg k = false -> KC sent k -> DC sent k -> DC (sent ++ [p]) k.
Proof.
  intros sent k p Hr. unfold KC, DC.
  destruct (c_regat k) as [r|]; [|auto].
  destruct (c_unregat k) as [u|]; [|intros (_ & _ & _ & H); congruence].
  intros (_ & _ & _ & _ & H5). unfold jwindow. rewrite firstn_app_le by lia. auto.
Qed.

Lemma DC_exit_path : forall sent k, KC sent k -> DC sent k -> DC sent (exit_path fixed k (length sent)).
Proof.
  intros sent k Hk H. unfold exit_path. cbn [v_atomic fixed]. destruct (c_reg k) eqn:Hr.
  - eapply DC_gh3; [|apply DC_unreg; eassumption]. reflexivity.
  - eapply DC_gh3; [|exact H]. reflexivity.
Qed.

Lemma DC_loop_test : forall sent k, KC sent k -> DC sent k -> DC sent (loop_test fixed k (length sent)).
Proof.
  intros sent k Hk H. unfold loop_test. destruct (c_closed k); [apply DC_exit_path; assumption|].
  eapply DC_gh3; [|exact H]. reflexivity.
Qed.

Lemma DC_close : forall sent k, DC sent k -> DC sent (close_cons fixed k).
Proof. intros sent k H. eapply DC_gh3; [apply gh3_close_cons|exact H]. Qed.

Lemma creg_gh2 : forall k k', gh2 k' = gh2 k -> c_reg k' = c_reg k.
Proof. intros k k' H. unfold gh2 in H. congruence. Qed.

Lemma creg_exit_path : forall k n, c_reg (exit_path fixed k n) = false.
Proof.
  intros. unfold exit_path. cbn [v_atomic fixed]. destruct (c_reg k) eqn:E; [reflexivity|exact E].
Qed.

Lemma creg_loop_test : forall k n, c_reg (loop_test fixed k n) = true -> c_reg k = true.
Proof.
  intros k n. unfold loop_test. destruct (c_closed k); [rewrite creg_exit_path; discriminate|auto].
Qed.

Section Join.
Variable maxq : nat.
Variable cache_t : Type.
Variable cache_empty : cache_t.
Variable cache_add : cache_t -> pkt -> cache_t.
Variable cache_snap : cache_t -> list pkt.
Variable ncons : nat.
Variable panic_at : nat -> nat.

Notation ST := (st cache_t).
Notation stepF := (step fixed maxq cache_t cache_empty cache_add cache_snap ncons panic_at).
Notation runF := (run fixed maxq cache_t cache_empty cache_add cache_snap ncons panic_at).
Notation initF := (init cache_t cache_empty).
Notation acquireF := (acquire fixed cache_t cache_add cache_snap).
Notation releaseF := (release fixed cache_t cache_add cache_snap).
Notation after_acq := (after_acquire cache_t cache_add cache_snap).

Definition cache_of (l : list pkt) : cache_t := fold_left cache_add l cache_empty.

(* the part of the invariant that does not mention who holds the mutex *)
Record JCore (s : ST) : Prop := {
  j_cache : s_cache s = cache_of (s_cached s);
  j_nop : s_pp s <> P2 -> s_cached s = s_sent s;
  j_inp : s_pp s = P2 -> exists p rest, s_todo s = p :: rest /\ s_cached s = s_sent s ++ [p];
  j_snap : forall c, s_att s c = A1 ->
           c_prefill (s_cs s c) = cache_snap (s_cache s) /\ c_regat (s_cs s c) = None;
  j_nodup : NoDup (s_lockq s);
  j_qpub : In HPub (s_lockq s) -> s_pp s = P1W;
  j_qatt : forall c, In (HAtt c) (s_lockq s) -> s_att s c = A0W;
  j_early : forall c, s_att s c = A0 \/ s_att s c = A0W -> c_regat (s_cs s c) = None;
  j_reg : forall c r, c_regat (s_cs s c) = Some r ->
           (r <= length (s_sent s))%nat /\
           c_prefill (s_cs s c) = cache_snap (cache_of (firstn r (s_sent s)));
  j_todo : s_pp s <> P0 -> s_todo s <> []
}.

(* nobody is inside the critical section *)
Definition JFree (s : ST) : Prop := s_pp s <> P2 /\ forall c, s_att s c <> A1.

(* lock discipline: whoever is inside the critical section holds the mutex *)
Record JInv (s : ST) : Prop := {
  j_core : JCore s;
  j_lpub : s_pp s = P2 -> s_lock s = Some HPub;
  j_latt : forall c, s_att s c = A1 -> s_lock s = Some (HAtt c)
}.

Lemma JFree_JInv : forall s, JCore s -> JFree s -> JInv s.
Proof.
  intros s Hc [Hp Ha]. split; [exact Hc| |]; intros; exfalso; [apply Hp; assumption|eapply Ha; eassumption].
Qed.

Lemma JInv_unlocked_free : forall s, JInv s -> s_lock s = None -> JFree s.
Proof.
  intros s H Hl. split.
  - intros Hp. apply (j_lpub s H) in Hp. congruence.
  - intros c Ha. apply (j_latt s H) in Ha. congruence.
Qed.

Lemma init_inv : forall pkts stoppers, JInv (initF pkts stoppers).
Proof.
  intros. apply JFree_JInv.
  - split; cbn; try (intros; discriminate); try (intros; contradiction); try reflexivity.
    all: try constructor.
  - split; cbn; intros; discriminate.
Qed.

(* frame: a step that only rewrites consumers (keeping the ghost fields) and possibly moves
   attachers A2 -> ADone *)
Lemma JInv_frame : forall s s' : ST,
  s_lock s' = s_lock s -> s_lockq s' = s_lockq s -> s_cache s' = s_cache s ->
  s_sent s' = s_sent s -> s_cached s' = s_cached s -> s_todo s' = s_todo s -> s_pp s' = s_pp s ->
  (forall c, s_att s' c = s_att s c \/ (s_att s c = A2 /\ s_att s' c = ADone)) ->
  (forall c, gh (s_cs s' c) = gh (s_cs s c)) ->
  JInv s -> JInv s'.
Proof.
  intros s s' El Eq Ec Es Ed Et Ep Ha Hg [Hc Hlp Hla].
  assert (Hr : forall c, c_regat (s_cs s' c) = c_regat (s_cs s c)).
  { intros c. specialize (Hg c). unfold gh in Hg. congruence. }
  assert (Hf : forall c, c_prefill (s_cs s' c) = c_prefill (s_cs s c)).
  { intros c. specialize (Hg c). unfold gh in Hg. congruence. }
  assert (Ha1 : forall c, s_att s' c = A1 -> s_att s c = A1).
  { intros c H. destruct (Ha c) as [E|[_ E]]; congruence. }
  assert (Ha0 : forall c, s_att s' c = A0 \/ s_att s' c = A0W -> s_att s c = A0 \/ s_att s c = A0W).
  { intros c H. destruct (Ha c) as [E|[_ E]]; destruct H; try congruence; rewrite <- E; auto. }
  destruct Hc. split; [split|..]; rewrite ?El, ?Eq, ?Ec, ?Es, ?Ed, ?Et, ?Ep; auto.
  - intros c H. rewrite Hr, Hf. auto.
  - intros c H. specialize (j_qatt0 c H). destruct (Ha c) as [E|[E _]]; congruence.
  - intros c H. rewrite Hr. auto.
  - intros c r H. rewrite Hr in H. rewrite Hf. auto.
Qed.

(* a goroutine enters the critical section *)
Lemma after_acquire_inv : forall (s : ST) h q,
  JCore s -> JFree s ->
  NoDup q -> ~ In h q -> (forall h', In h' q -> In h' (s_lockq s)) ->
  (h = HPub -> (s_pp s = P1 \/ s_pp s = P1W)) ->
  (forall c, h = HAtt c -> s_att s c = A0 \/ s_att s c = A0W) ->
  JInv (after_acq s h q).
Proof.
  intros s h q Hc [Fp Fa] Hnd Hni Hsub Hpub Hatt. destruct Hc.
  destruct h as [|c]; cbn [after_acquire].
  - (* the publisher: cache the packet *)
    assert (Hp : s_pp s <> P0) by (destruct (Hpub eq_refl) as [E|E]; rewrite E; discriminate).
    destruct (s_todo s) as [|p rest] eqn:Et; [exfalso; apply (j_todo0 Hp); reflexivity|].
    split; [split|..]; cbn.
    + unfold cache_of. rewrite fold_left_app. cbn. rewrite j_cache0. reflexivity.
    + intros H; contradiction.
    + intros _. exists p, rest. rewrite j_nop0 by exact Fp. auto.
    + intros c H. exfalso. apply (Fa c H).
    + exact Hnd.
    + intros H. contradiction.
    + intros c H. apply j_qatt0, Hsub, H.
    + exact j_early0.
    + exact j_reg0.
    + intros _. rewrite Et. discriminate.
    + reflexivity.
    + intros c H. exfalso. apply (Fa c H).
  - (* an attacher: snapshot the cache into its queue *)
    specialize (Hatt c eq_refl).
    split; [split|..]; cbn.
    + exact j_cache0.
    + exact j_nop0.
    + intros H. contradiction.
    + intros c' H. destruct (Nat.eq_dec c c') as [<-|Hn].
      * rewrite upd_same. cbn. split; [reflexivity|]. apply j_early0, Hatt.
      * rewrite upd_other in H by exact Hn. exfalso. apply (Fa c' H).
    + exact Hnd.
    + intros H. apply j_qpub0, Hsub, H.
    + intros c' H. destruct (Nat.eq_dec c c') as [<-|Hn]; [contradiction|].
      rewrite upd_other by exact Hn. apply j_qatt0, Hsub, H.
    + intros c' H. destruct (Nat.eq_dec c c') as [<-|Hn].
      * rewrite upd_same in H. destruct H; discriminate.
      * rewrite upd_other in H by exact Hn. rewrite upd_other by exact Hn. apply j_early0, H.
    + intros c' r H. destruct (Nat.eq_dec c c') as [<-|Hn].
      * rewrite upd_same in H. cbn in H. rewrite (j_early0 c Hatt) in H. discriminate.
      * rewrite upd_other in H by exact Hn. rewrite upd_other by exact Hn. apply j_reg0, H.
    + exact j_todo0.
    + intros H. contradiction.
    + intros c' H. destruct (Nat.eq_dec c c') as [<-|Hn]; [reflexivity|].
      rewrite upd_other in H by exact Hn. exfalso. apply (Fa c' H).
Qed.

(* Unlock() from a state in which the critical section has just been left *)
Lemma release_inv : forall s : ST, JCore s -> JFree s -> JInv (releaseF s).
Proof.
  intros s Hc Hf. unfold release. cbn [v_lock fixed].
  destruct (s_lockq s) as [|h rest] eqn:Eq.
  - apply JFree_JInv; [|exact Hf]. destruct Hc. split; cbn; auto.
    + constructor.
    + intros [].
    + intros c [].
  - pose proof (j_nodup s Hc) as Hnd. rewrite Eq in Hnd. inversion Hnd; subst.
    apply after_acquire_inv; auto.
    + intros h' H. rewrite Eq. right; exact H.
    + intros ->. right. apply (j_qpub s Hc). rewrite Eq. left; reflexivity.
    + intros c ->. right. apply (j_qatt s Hc). rewrite Eq. left; reflexivity.
Qed.

(* Lock() *)
Lemma acquire_inv : forall (s : ST) h,
  JInv s ->
  (h = HPub -> s_pp s = P1) -> (forall c, h = HAtt c -> s_att s c = A0) ->
  JInv (acquireF s h).
Proof.
  intros s h Hi Hpub Hatt. unfold acquire. cbn [v_lock fixed].
  destruct (s_lock s) as [o|] eqn:El.
  - (* queue up *)
    destruct Hi as [Hc Hlp Hla]. destruct Hc.
    destruct h as [|c].
    + specialize (Hpub eq_refl).
      split; [split|..]; cbn; auto; try (intros; discriminate).
      * intros _. apply j_nop0. rewrite Hpub. discriminate.
      * apply NoDup_app_snoc; [exact j_nodup0|].
        intros H. apply j_qpub0 in H. congruence.
      * intros c H. apply in_app_or in H. destruct H as [H|[H|[]]]; [auto|discriminate].
      * intros _. apply j_todo0. rewrite Hpub. discriminate.
      * intros c H. rewrite <- El. auto.
    + specialize (Hatt c eq_refl).
      assert (Hreg : c_regat (s_cs s c) = None) by (apply j_early0; left; exact Hatt).
      split; [split|..]; cbn; auto.
      * intros c' H. destruct (Nat.eq_dec c c') as [<-|Hn];
          [rewrite upd_same in H; discriminate|rewrite upd_other in H by exact Hn; auto].
      * apply NoDup_app_snoc; [exact j_nodup0|].
        intros H. apply j_qatt0 in H. congruence.
      * intros H. apply in_app_or in H. destruct H as [H|[H|[]]]; [auto|discriminate].
      * intros c' H. apply in_app_or in H. destruct H as [H|[H|[]]].
        -- destruct (Nat.eq_dec c c') as [<-|Hn]; [apply upd_same|].
           rewrite upd_other by exact Hn. auto.
        -- inversion H; subst. apply upd_same.
      * intros c' H. destruct (Nat.eq_dec c c') as [<-|Hn]; [exact Hreg|].
        rewrite upd_other in H by exact Hn. auto.
      * intros H. rewrite <- El. auto.
      * intros c' H. rewrite <- El. destruct (Nat.eq_dec c c') as [<-|Hn];
          [rewrite upd_same in H; discriminate|rewrite upd_other in H by exact Hn; auto].
  - apply after_acquire_inv.
    + apply Hi.
    + apply JInv_unlocked_free; assumption.
    + apply (j_nodup s (j_core s Hi)).
    + destruct h as [|c]; intros H.
      * apply (j_qpub s (j_core s Hi)) in H. rewrite (Hpub eq_refl) in H. discriminate.
      * apply (j_qatt s (j_core s Hi)) in H. rewrite (Hatt c eq_refl) in H. discriminate.
    + auto.
    + intros E. left. auto.
    + intros c E. left. auto.
Qed.

(* ---------- the steps (everything except the closer) ---------- *)

(* the states right before Unlock() *)
Definition pub_mid (s : ST) (p : pkt) (rest : list pkt) : ST :=
  {| s_ok := s_ok s; s_lock := s_lock s; s_lockq := s_lockq s; s_cache := s_cache s;
     s_sent := s_sent s ++ [p]; s_cached := s_cached s; s_todo := rest; s_pp := P0;
     s_count := s_count s; s_cs := send_all maxq ncons (s_cs s) p; s_att := s_att s;
     s_stp := s_stp s; s_kp := s_kp s |}.

Definition att_mid (s : ST) (c : nat) : ST :=
  set_att cache_t s c A2 (s_count s + 1)%Z
          (upd (s_cs s) c (set_reg (s_cs s c) true (length (s_sent s)))).

Lemma pub_mid_core : forall (s : ST) p rest,
  JInv s -> s_pp s = P2 -> s_todo s = p :: rest ->
  JCore (pub_mid s p rest) /\ JFree (pub_mid s p rest).
Proof.
  intros s p rest Hi Ep Et.
  pose proof (j_lpub s Hi Ep) as Hl.
  assert (Hna : forall c, s_att s c <> A1).
  { intros c Ha. apply (j_latt s Hi) in Ha. congruence. }
  destruct Hi as [Hc _ _]. destruct Hc.
  destruct (j_inp0 Ep) as (p' & rest' & E1 & E2). rewrite Et in E1. injection E1 as <- <-.
  split.
  - split; cbn; auto; try (intros; discriminate).
    + intros c H. exfalso. apply (Hna c H).
    + intros H. apply j_qpub0 in H. congruence.
    + intros c H. pose proof (gh_send_all maxq ncons (s_cs s) p c) as G. unfold gh in G.
      injection G as G1 G2. rewrite G1. auto.
    + intros c r H. pose proof (gh_send_all maxq ncons (s_cs s) p c) as G. unfold gh in G.
      injection G as G1 G2. rewrite G1 in H. rewrite G2.
      destruct (j_reg0 c r H) as [Hr Hf]. rewrite app_length. cbn. split; [lia|].
      rewrite firstn_app_le by exact Hr. exact Hf.
  - split; cbn; [discriminate|exact Hna].
Qed.

Lemma att_mid_core : forall (s : ST) c,
  JInv s -> s_att s c = A1 -> JCore (att_mid s c) /\ JFree (att_mid s c).
Proof.
  intros s c Hi Ea.
  pose proof (j_latt s Hi c Ea) as Hl.
  assert (Hnp : s_pp s <> P2).
  { intros Hp. apply (j_lpub s Hi) in Hp. congruence. }
  assert (Hna : forall c', c' <> c -> s_att s c' <> A1).
  { intros c' Hn Ha. apply (j_latt s Hi) in Ha. congruence. }
  destruct Hi as [Hc _ _]. destruct Hc.
  destruct (j_snap0 c Ea) as [Hpre Hnone].
  split.
  - split; cbn; auto.
    + intros c' H. destruct (Nat.eq_dec c c') as [<-|Hn].
      * rewrite upd_same in H. discriminate.
      * rewrite upd_other in H by exact Hn. exfalso. apply (Hna c'); auto.
    + intros c' H. destruct (Nat.eq_dec c c') as [<-|Hn].
      * apply j_qatt0 in H. congruence.
      * rewrite upd_other by exact Hn. auto.
    + intros c' H. destruct (Nat.eq_dec c c') as [<-|Hn].
      * rewrite upd_same in H. destruct H; discriminate.
      * rewrite !upd_other in * by exact Hn. auto.
    + intros c' r H. destruct (Nat.eq_dec c c') as [<-|Hn].
      * rewrite upd_same in *. cbn in H. injection H as <-. cbn. split; [lia|].
        rewrite firstn_all. rewrite Hpre, j_cache0, (j_nop0 Hnp). reflexivity.
      * rewrite upd_other in * by exact Hn. auto.
  - split; cbn; [exact Hnp|].
    intros c' H. destruct (Nat.eq_dec c c') as [<-|Hn].
    + rewrite upd_same in H. discriminate.
    + rewrite upd_other in H by exact Hn. apply (Hna c'); auto.
Qed.

Lemma step_pub_inv : forall s s' : ST,
  JInv s -> step_pub fixed maxq cache_t cache_add cache_snap ncons s = Some s' -> JInv s'.
Proof.
  intros s s' Hi. unfold step_pub.
  destruct (s_pp s) eqn:Ep; destruct (s_todo s) as [|p rest] eqn:Et; try discriminate.
  - (* P0: status check *)
    destruct (s_ok s); intros H; injection H as <-.
    + destruct Hi as [Hc Hlp Hla]. destruct Hc.
      split; [split|..]; cbn; rewrite ?Ep in *; auto; try (intros; discriminate).
      * intros _. apply j_nop0. discriminate.
      * intros H. apply j_qpub0 in H. discriminate.
    + destruct Hi as [Hc Hlp Hla]. destruct Hc.
      split; [split|..]; cbn; rewrite ?Ep in *; auto; try (intros; discriminate);
        try (intros H; contradiction).
  - (* P1: Lock() *)
    intros H; injection H as <-. apply acquire_inv; [exact Hi|auto|intros; discriminate].
  - (* P2: broadcast, Unlock() *)
    intros H; injection H as <-.
    destruct (pub_mid_core s p rest Hi Ep Et) as [Hc Hf].
    apply (release_inv _ Hc Hf).
Qed.

Lemma step_att_inv : forall (s s' : ST) c,
  JInv s -> step_att fixed cache_t cache_add cache_snap s c = Some s' -> JInv s'.
Proof.
  intros s s' c Hi. unfold step_att.
  destruct (s_att s c) eqn:Ea; try discriminate.
  - (* A0: Lock() *)
    intros H; injection H as <-. apply acquire_inv; [exact Hi|intros; discriminate|].
    intros c' E. injection E as <-. exact Ea.
  - (* A1: register, Unlock() *)
    intros H; injection H as <-.
    destruct (att_mid_core s c Hi Ea) as [Hc Hf].
    apply (release_inv _ Hc Hf).
  - (* A2: status re-check, start the goroutine *)
    intros H.
    match type of H with (let '(k1, cnt) := ?X in _) = _ =>
      assert (Hg : gh (fst X) = gh (s_cs s c)) end.
    { destruct (v_recheck fixed && negb (s_ok s) && c_reg (s_cs s c)); cbn [fst];
        [rewrite gh_close_cons; reflexivity|reflexivity]. }
    match type of H with (let '(k1, cnt) := ?X in _) = _ => destruct X as [k1 cnt] end.
    cbn [fst] in Hg. injection H as <-.
    eapply JInv_frame; try exact Hi; try reflexivity.
    + intros c'. cbn. destruct (Nat.eq_dec c c') as [<-|Hn].
      * rewrite upd_same. right. auto.
      * rewrite upd_other by exact Hn. left; reflexivity.
    + intros c'. cbn. destruct (Nat.eq_dec c c') as [<-|Hn].
      * rewrite upd_same, gh_loop_test. exact Hg.
      * rewrite upd_other by exact Hn. reflexivity.
Qed.

Ltac frame s Hi := apply JInv_frame with (s := s);
  [reflexivity|reflexivity|reflexivity|reflexivity|reflexivity|reflexivity|reflexivity
  |intros ?c'; left; reflexivity| |exact Hi].

Lemma gh_upd : forall (s : ST) c k', gh k' = gh (s_cs s c) ->
  forall c', gh (upd (s_cs s) c k' c') = gh (s_cs s c').
Proof.
  intros s c k' Hk c'. destruct (Nat.eq_dec c c') as [<-|Hn];
    [rewrite upd_same; exact Hk|rewrite upd_other by exact Hn; reflexivity].
Qed.

Lemma step_stop_inv : forall (s s' : ST) c,
  JInv s -> step_stop fixed cache_t s c = Some s' -> JInv s'.
Proof.
  intros s s' c Hi. unfold step_stop.
  destruct (s_stp s c); try discriminate.
  - destruct (c_reg (s_cs s c)); intros H; injection H as <-; frame s Hi; cbn.
    + apply gh_upd. reflexivity.
    + reflexivity.
  - intros H; injection H as <-. frame s Hi; cbn.
    apply gh_upd. rewrite gh_close_cons. reflexivity.
Qed.

Lemma step_cons_inv : forall (s s' : ST) c,
  JInv s -> step_cons fixed cache_t panic_at s c = Some s' -> JInv s'.
Proof.
  intros s s' c Hi. unfold step_cons.
  destruct (c_pc (s_cs s c)) as [| |[p|]| | |]; try discriminate.
  - destruct (c_q (s_cs s c)); intros H; injection H as <-; frame s Hi; cbn;
      apply gh_upd; reflexivity.
  - destruct (Nat.eqb _ _); intros H; injection H as <-; frame s Hi; cbn;
      apply gh_upd; [rewrite gh_exit_path|rewrite gh_loop_test]; reflexivity.
  - intros H; injection H as <-. frame s Hi; cbn.
    apply gh_upd. rewrite gh_loop_test. reflexivity.
  - intros H; injection H as <-. frame s Hi; cbn.
    apply gh_upd. rewrite gh_finish, gh_close_cons. reflexivity.
Qed.

Lemma step_inv : forall (s s' : ST) t,
  t <> TClose -> JInv s -> stepF s t = Some s' -> JInv s'.
Proof.
  intros s s' t Ht Hi. destruct t as [| |c|c|c]; cbn [step].
  - apply step_pub_inv, Hi.
  - contradiction.
  - destruct (c <? ncons)%nat; [apply step_att_inv, Hi|discriminate].
  - destruct (c <? ncons)%nat; [|discriminate].
    destruct (s_att s c); try discriminate. apply step_stop_inv, Hi.
  - destruct (c <? ncons)%nat; [apply step_cons_inv, Hi|discriminate].
Qed.

Lemma run_inv : forall sched (s : ST),
  Forall (fun t => t <> TClose) sched -> JInv s -> JInv (runF sched s).
Proof.
  induction sched as [|t sched IH]; intros s Hs Hi; [exact Hi|].
  inversion Hs; subst. cbn [run]. apply IH; [assumption|].
  destruct (stepF s t) eqn:E; [eapply step_inv; eauto|exact Hi].
Qed.

(* the lock-discipline invariant, on every reachable state of a live stream *)
Theorem join_lock_discipline : forall pkts stoppers sched,
  Forall (fun t => t <> TClose) sched ->
  let s := runF sched (initF pkts stoppers) in
  s_cache s = cache_of (s_cached s) /\
  (s_pp s <> P2 -> s_cached s = s_sent s) /\
  (s_pp s = P2 -> s_lock s = Some HPub /\ exists p rest, s_todo s = p :: rest /\ s_cached s = s_sent s ++ [p]) /\
  (* between its snapshot and its registration an attacher holds the mutex, the publisher is
     outside its cache+broadcast section, and the snapshot is the cache of the sent log *)
  (forall c, s_att s c = A1 ->
     s_lock s = Some (HAtt c) /\ s_pp s <> P2 /\
     c_prefill (s_cs s c) = cache_snap (cache_of (s_sent s))).
Proof.
  intros pkts stoppers sched Hs s.
  assert (Hi : JInv s) by (apply run_inv; [exact Hs|apply init_inv]).
  pose proof (j_core s Hi) as Hc.
  split; [apply Hc|]. split; [apply Hc|]. split.
  - intros Hp. split; [apply (j_lpub s Hi Hp)|apply (j_inp s Hc Hp)].
  - intros c Ha. pose proof (j_latt s Hi c Ha) as Hl.
    assert (Hnp : s_pp s <> P2) by (intros Hp; apply (j_lpub s Hi) in Hp; congruence).
    repeat split; auto.
    destruct (j_snap s Hc c Ha) as [-> _]. rewrite (j_cache s Hc), (j_nop s Hc Hnp). reflexivity.
Qed.

(* the replayed part is the cache of exactly the packets broadcast before the registration *)
Theorem join_prefill : forall pkts stoppers sched,
  Forall (fun t => t <> TClose) sched ->
  let s := runF sched (initF pkts stoppers) in
  forall c r, c_regat (s_cs s c) = Some r ->
    (r <= length (s_sent s))%nat /\
    c_prefill (s_cs s c) = cache_snap (cache_of (firstn r (s_sent s))).
Proof.
  intros pkts stoppers sched Hs s c r H.
  assert (Hi : JInv s) by (apply run_inv; [exact Hs|apply init_inv]).
  apply (j_reg s (j_core s Hi) c r H).
Qed.

(* ---------- the live part: what is pushed after the pre-fill ---------- *)

Definition KInv (s : ST) : Prop :=
  forall c, KC (s_sent s) (s_cs s c) /\ (c_reg (s_cs s c) = true -> (c < ncons)%nat).

Lemma KInv_upd : forall (s : ST) c k',
  KInv s -> KC (s_sent s) k' -> (c_reg k' = true -> (c < ncons)%nat) ->
  forall c', KC (s_sent s) (upd (s_cs s) c k' c') /\ (c_reg (upd (s_cs s) c k' c') = true -> (c' < ncons)%nat).
Proof.
  intros s c k' Hk H1 H2 c'. destruct (Nat.eq_dec c c') as [<-|Hn].
  - rewrite upd_same. auto.
  - rewrite upd_other by exact Hn. apply Hk.
Qed.

Lemma after_acquire_K : forall (s : ST) h q,
  JCore s -> KInv s ->
  (forall c, h = HAtt c -> s_att s c = A0 \/ s_att s c = A0W) ->
  KInv (after_acq s h q).
Proof.
  intros s h q Hc Hk Hatt. destruct h as [|c]; cbn [after_acquire].
  - destruct (s_todo s); exact Hk.
  - specialize (Hatt c eq_refl). pose proof (j_early s Hc c Hatt) as Hn.
    intros c'. cbn. apply KInv_upd; auto.
    + destruct (Hk c) as [H _]. unfold KC in *. cbn. rewrite Hn in *.
      destruct H as (H1 & H2 & H3 & H4). auto.
    + cbn. apply Hk.
Qed.

Lemma release_K : forall s : ST, JCore s -> KInv s -> KInv (releaseF s).
Proof.
  intros s Hc Hk. unfold release. cbn [v_lock fixed].
  destruct (s_lockq s) as [|h rest] eqn:Eq; [exact Hk|].
  apply after_acquire_K; auto.
  intros c ->. right. apply (j_qatt s Hc). rewrite Eq. left; reflexivity.
Qed.

Lemma acquire_K : forall (s : ST) h,
  JInv s -> KInv s -> (forall c, h = HAtt c -> s_att s c = A0) -> KInv (acquireF s h).
Proof.
  intros s h Hi Hk Hatt. unfold acquire. cbn [v_lock fixed].
  destruct (s_lock s).
  - destruct h; exact Hk.
  - apply after_acquire_K; [apply Hi|exact Hk|]. intros c E. left. auto.
Qed.

Lemma step_pub_K : forall s s' : ST,
  JInv s -> KInv s -> step_pub fixed maxq cache_t cache_add cache_snap ncons s = Some s' -> KInv s'.
Proof.
  intros s s' Hi Hk. unfold step_pub.
  destruct (s_pp s) eqn:Ep; destruct (s_todo s) as [|p rest] eqn:Et; try discriminate.
  - destruct (s_ok s); intros H; injection H as <-; exact Hk.
  - intros H; injection H as <-. apply acquire_K; [exact Hi|exact Hk|intros; discriminate].
  - intros H; injection H as <-.
    destruct (pub_mid_core s p rest Hi Ep Et) as [Hc Hf].
    apply (release_K _ Hc). intros c. cbn. rewrite send_all_at. destruct (Hk c) as [H1 H2].
    destruct (c_reg (s_cs s c)) eqn:Hr.
    + rewrite (proj2 (Nat.ltb_lt c ncons) (H2 eq_refl)). cbn [andb]. split.
      * apply KC_send; assumption.
      * intros _. auto.
    + rewrite andb_false_r. split; [apply KC_grow; assumption|congruence].
Qed.

Lemma step_att_K : forall (s s' : ST) c,
  (c < ncons)%nat -> JInv s -> KInv s ->
  step_att fixed cache_t cache_add cache_snap s c = Some s' -> KInv s'.
Proof.
  intros s s' c Hlt Hi Hk. unfold step_att.
  destruct (s_att s c) eqn:Ea; try discriminate.
  - intros H; injection H as <-. apply acquire_K; [exact Hi|exact Hk|].
    intros c' E. injection E as <-. exact Ea.
  - intros H; injection H as <-.
    destruct (att_mid_core s c Hi Ea) as [Hc Hf].
    apply (release_K _ Hc). intros c'. cbn. apply KInv_upd; auto.
    apply KC_reg; [apply (j_snap s (j_core s Hi) c Ea)|apply Hk].
  - intros H.
    assert (Hk1 : forall k1 cnt,
      (if v_recheck fixed && negb (s_ok s) && c_reg (s_cs s c)
       then (close_cons fixed (set_reg (s_cs s c) false (length (s_sent s))), (s_count s - 1)%Z)
       else (s_cs s c, s_count s)) = (k1, cnt) ->
      KC (s_sent s) k1 /\ (c_reg k1 = true -> c_reg (s_cs s c) = true)).
    { intros k1 cnt E. destruct (c_reg (s_cs s c)) eqn:Hr.
      - destruct (v_recheck fixed && negb (s_ok s)); cbn [andb] in E; injection E as <- <-.
        + split; [apply KC_close, KC_unreg; [exact Hr|apply Hk]|auto].
        + split; [apply Hk|auto].
      - rewrite andb_false_r in E. injection E as <- <-. split; [apply Hk|congruence]. }
    destruct (if v_recheck fixed && negb (s_ok s) && c_reg (s_cs s c)
       then (close_cons fixed (set_reg (s_cs s c) false (length (s_sent s))), (s_count s - 1)%Z)
       else (s_cs s c, s_count s)) as [k1 cnt].
    destruct (Hk1 k1 cnt eq_refl) as [Hc1 Hr1]. injection H as <-.
    intros c'. cbn. apply KInv_upd; auto.
    apply KC_loop_test, Hc1.
Qed.

Lemma step_stop_K : forall (s s' : ST) c,
  KInv s -> step_stop fixed cache_t s c = Some s' -> KInv s'.
Proof.
  intros s s' c Hk. unfold step_stop. cbn [v_atomic fixed].
  destruct (s_stp s c); try discriminate.
  - destruct (c_reg (s_cs s c)) eqn:Hr; intros H; injection H as <-; [|exact Hk].
    intros c'. cbn. apply KInv_upd; auto.
    + apply KC_unreg; [exact Hr|apply Hk].
    + cbn. discriminate.
  - intros H; injection H as <-. intros c'. cbn. apply KInv_upd; auto.
    + apply KC_close, Hk.
    + rewrite (creg_gh2 _ _ (gh2_close_cons _)). apply Hk.
Qed.

Lemma step_cons_K : forall (s s' : ST) c,
  KInv s -> step_cons fixed cache_t panic_at s c = Some s' -> KInv s'.
Proof.
  intros s s' c Hk. unfold step_cons. cbn [v_atomic fixed].
  destruct (Hk c) as [Hc Hr].
  destruct (c_pc (s_cs s c)) as [| |[p|]| | |]; try discriminate.
  - destruct (c_q (s_cs s c)); intros H; injection H as <-; intros c'; cbn; apply KInv_upd; auto.
  - destruct (Nat.eqb _ _); intros H; injection H as <-; intros c'; cbn; apply KInv_upd; auto.
    + apply KC_exit_path. eapply KC_gh2; [|exact Hc]. reflexivity.
    + rewrite creg_exit_path. discriminate.
    + apply KC_loop_test. eapply KC_gh2; [|exact Hc]. reflexivity.
    + intros H. apply creg_loop_test in H. auto.
  - intros H; injection H as <-. intros c'; cbn; apply KInv_upd; auto.
    + apply KC_loop_test, Hc.
    + intros H. apply creg_loop_test in H. auto.
  - intros H; injection H as <-. intros c'; cbn; apply KInv_upd; auto.
    + eapply KC_gh2; [|apply KC_close, Hc]. reflexivity.
    + cbn. rewrite (creg_gh2 _ _ (gh2_close_cons _)). exact Hr.
Qed.

Lemma step_K : forall (s s' : ST) t,
  t <> TClose -> JInv s -> KInv s -> stepF s t = Some s' -> KInv s'.
Proof.
  intros s s' t Ht Hi Hk. destruct t as [| |c|c|c]; cbn [step].
  - apply step_pub_K; assumption.
  - contradiction.
  - destruct (Nat.ltb_spec c ncons); [apply step_att_K; assumption|discriminate].
  - destruct (c <? ncons)%nat; [|discriminate].
    destruct (s_att s c); try discriminate. apply step_stop_K, Hk.
  - destruct (c <? ncons)%nat; [apply step_cons_K, Hk|discriminate].
Qed.

Lemma run_K : forall sched (s : ST),
  Forall (fun t => t <> TClose) sched -> JInv s -> KInv s ->
  JInv (runF sched s) /\ KInv (runF sched s).
Proof.
  induction sched as [|t sched IH]; intros s Hs Hi Hk; [auto|].
  inversion Hs; subst. cbn [run].
  destruct (stepF s t) eqn:E; [|apply IH; assumption].
  apply IH; [assumption|eapply step_inv; eauto|eapply step_K; eauto].
Qed.

Lemma init_K : forall pkts stoppers, KInv (initF pkts stoppers).
Proof. intros pkts stoppers c. cbn. split; [repeat split|discriminate]. Qed.

(* JOIN CONTIGUITY (abstract cache): a consumer registered at sent-log length r was pre-filled
   with the cache of sent[0..r), and everything pushed to it afterwards is a selection (its own
   keep/drop decisions, one per packet) of sent[r..u): the live part starts exactly at index r. *)
Theorem join_contiguous : forall pkts stoppers sched,
  Forall (fun t => t <> TClose) sched ->
  let s := runF sched (initF pkts stoppers) in
  forall c r, c_regat (s_cs s c) = Some r ->
    let k := s_cs s c in
    (r <= length (s_sent s))%nat /\
    c_prefill k = cache_snap (cache_of (firstn r (s_sent s))) /\
    c_pushed k = c_prefill k ++ jselect (c_keep k) (jwindow (s_sent s) r (c_unregat k)) /\
    length (c_keep k) = length (jwindow (s_sent s) r (c_unregat k)).
Proof.
  intros pkts stoppers sched Hs s c r H k.
  destruct (run_K sched (initF pkts stoppers) Hs (init_inv _ _) (init_K _ _)) as [Hi Hk].
  fold s in Hi, Hk.
  destruct (j_reg s (j_core s Hi) c r H) as [H1 H2].
  destruct (Hk c) as [Hc _]. unfold KC in Hc. rewrite H in Hc.
  destruct Hc as (_ & H3 & H4 & _). auto.
Qed.

(* ---------- the seam between the replayed part and the live part ---------- *)

Definition DInv (s : ST) : Prop := forall c, DC (s_sent s) (s_cs s c).

Lemma DInv_upd : forall (s : ST) c k',
  DInv s -> DC (s_sent s) k' -> forall c', DC (s_sent s) (upd (s_cs s) c k' c').
Proof.
  intros s c k' Hd H c'. destruct (Nat.eq_dec c c') as [<-|Hn];
    [rewrite upd_same; exact H|rewrite upd_other by exact Hn; apply Hd].
Qed.

Lemma after_acquire_D : forall (s : ST) h q, DInv s -> DInv (after_acq s h q).
Proof.
  intros s h q Hd. destruct h as [|c]; cbn [after_acquire].
  - destruct (s_todo s); exact Hd.
  - intros c'. cbn. apply DInv_upd; [exact Hd|]. eapply DC_gh3; [|apply (Hd c)]. reflexivity.
Qed.

Lemma release_D : forall s : ST, DInv s -> DInv (releaseF s).
Proof.
  intros s Hd. unfold release. cbn [v_lock fixed].
  destruct (s_lockq s); [exact Hd|apply after_acquire_D, Hd].
Qed.

Lemma acquire_D : forall (s : ST) h, DInv s -> DInv (acquireF s h).
Proof.
  intros s h Hd. unfold acquire. cbn [v_lock fixed].
  destruct (s_lock s); [destruct h; exact Hd|apply after_acquire_D, Hd].
Qed.

Lemma step_pub_D : forall s s' : ST,
  KInv s -> DInv s -> step_pub fixed maxq cache_t cache_add cache_snap ncons s = Some s' -> DInv s'.
Proof.
  intros s s' Hk Hd. unfold step_pub.
  destruct (s_pp s); destruct (s_todo s) as [|p rest]; try discriminate.
  - destruct (s_ok s); intros H; injection H as <-; exact Hd.
  - intros H; injection H as <-. apply acquire_D, Hd.
  - intros H; injection H as <-. apply release_D. intros c. cbn. rewrite send_all_at.
    destruct (Hk c) as [H1 H2]. destruct (c_reg (s_cs s c)) eqn:Hr.
    + rewrite (proj2 (Nat.ltb_lt c ncons) (H2 eq_refl)). cbn [andb]. apply DC_send; auto.
    + rewrite andb_false_r. apply DC_grow; auto.
Qed.

Lemma step_att_D : forall (s s' : ST) c,
  JInv s -> KInv s -> DInv s ->
  step_att fixed cache_t cache_add cache_snap s c = Some s' -> DInv s'.
Proof.
  intros s s' c Hi Hk Hd. unfold step_att.
  destruct (s_att s c) eqn:Ea; try discriminate.
  - intros H; injection H as <-. apply acquire_D, Hd.
  - intros H; injection H as <-. apply release_D. intros c'. cbn. apply DInv_upd; [exact Hd|].
    apply DC_reg; [apply (j_snap s (j_core s Hi) c Ea)|apply Hk|apply Hd].
  - intros H.
    assert (Hk1 : forall k1 cnt,
      (if v_recheck fixed && negb (s_ok s) && c_reg (s_cs s c)
       then (close_cons fixed (set_reg (s_cs s c) false (length (s_sent s))), (s_count s - 1)%Z)
       else (s_cs s c, s_count s)) = (k1, cnt) ->
      KC (s_sent s) k1 /\ DC (s_sent s) k1).
    { intros k1 cnt E. destruct (c_reg (s_cs s c)) eqn:Hr.
      - destruct (v_recheck fixed && negb (s_ok s)); cbn [andb] in E; injection E as <- <-.
        + split; [apply KC_close, KC_unreg; [exact Hr|apply Hk]|].
          apply DC_close, DC_unreg; [exact Hr|apply Hk|apply Hd].
        + split; [apply Hk|apply Hd].
      - rewrite andb_false_r in E. injection E as <- <-. split; [apply Hk|apply Hd]. }
    destruct (if v_recheck fixed && negb (s_ok s) && c_reg (s_cs s c)
       then (close_cons fixed (set_reg (s_cs s c) false (length (s_sent s))), (s_count s - 1)%Z)
       else (s_cs s c, s_count s)) as [k1 cnt].
    destruct (Hk1 k1 cnt eq_refl) as [Hc1 Hd1]. injection H as <-.
    intros c'. cbn. apply DInv_upd; [exact Hd|]. apply DC_loop_test; assumption.
Qed.

Lemma step_stop_D : forall (s s' : ST) c,
  KInv s -> DInv s -> step_stop fixed cache_t s c = Some s' -> DInv s'.
Proof.
  intros s s' c Hk Hd. unfold step_stop. cbn [v_atomic fixed].
  destruct (s_stp s c); try discriminate.
  - destruct (c_reg (s_cs s c)) eqn:Hr; intros H; injection H as <-; [|exact Hd].
    intros c'. cbn. apply DInv_upd; [exact Hd|]. apply DC_unreg; [exact Hr|apply Hk|apply Hd].
  - intros H; injection H as <-. intros c'. cbn. apply DInv_upd; [exact Hd|]. apply DC_close, Hd.
Qed.

Lemma step_cons_D : forall (s s' : ST) c,
  KInv s -> DInv s -> step_cons fixed cache_t panic_at s c = Some s' -> DInv s'.
Proof.
  intros s s' c Hk Hd. unfold step_cons. cbn [v_atomic fixed].
  destruct (Hk c) as [Hc _]. pose proof (Hd c) as Hdc.
  destruct (c_pc (s_cs s c)) as [| |[p|]| | |]; try discriminate.
  - destruct (c_q (s_cs s c)); intros H; injection H as <-; intros c'; cbn; (apply DInv_upd; [exact Hd|]);
      (eapply DC_gh3; [|exact Hdc]); reflexivity.
  - destruct (Nat.eqb _ _); intros H; injection H as <-; intros c'; cbn; (apply DInv_upd; [exact Hd|]).
    + apply DC_exit_path; [eapply KC_gh2; [|exact Hc]|eapply DC_gh3; [|exact Hdc]]; reflexivity.
    + apply DC_loop_test; [eapply KC_gh2; [|exact Hc]|eapply DC_gh3; [|exact Hdc]]; reflexivity.
  - intros H; injection H as <-. intros c'; cbn. apply DInv_upd; [exact Hd|]. apply DC_loop_test; assumption.
  - intros H; injection H as <-. intros c'; cbn. apply DInv_upd; [exact Hd|].
    eapply DC_gh3; [|apply DC_close, Hdc]. reflexivity.
Qed.

Lemma step_D : forall (s s' : ST) t,
  t <> TClose -> JInv s -> KInv s -> DInv s -> stepF s t = Some s' -> DInv s'.
Proof.
  intros s s' t Ht Hi Hk Hd. destruct t as [| |c|c|c]; cbn [step].
  - apply step_pub_D; assumption.
  - contradiction.
  - destruct (c <? ncons)%nat; [apply step_att_D; assumption|discriminate].
  - destruct (c <? ncons)%nat; [|discriminate].
    destruct (s_att s c); try discriminate. apply step_stop_D; assumption.
  - destruct (c <? ncons)%nat; [apply step_cons_D; assumption|discriminate].
Qed.

Lemma run_D : forall sched (s : ST),
  Forall (fun t => t <> TClose) sched -> JInv s -> KInv s -> DInv s ->
  JInv (runF sched s) /\ KInv (runF sched s) /\ DInv (runF sched s).
Proof.
  induction sched as [|t sched IH]; intros s Hs Hi Hk Hd; [auto|].
  inversion Hs; subst. cbn [run].
  destruct (stepF s t) eqn:E; [|apply IH; assumption].
  apply IH; [assumption|eapply step_inv; eauto|eapply step_K; eauto|eapply step_D; eauto].
Qed.

Lemma init_D : forall pkts stoppers, DInv (initF pkts stoppers).
Proof. intros pkts stoppers c. cbn. reflexivity. Qed.

(* THE SEAM (abstract cache, ANY queue limit maxq): of the packets broadcast while the consumer is
   registered, the ones before the next key start ([nk]: the rest of the GOP it was replayed) are
   all pushed, right after the replayed part, however long the replay is compared to the limit and
   whether or not the consumer drains its queue; and until such a key start it is not discarding *)
Theorem join_seam : forall pkts stoppers sched,
  Forall (fun t => t <> TClose) sched ->
  let s := runF sched (initF pkts stoppers) in
  forall c r, c_regat (s_cs s c) = Some r ->
    let k := s_cs s c in
    let w := jwindow (s_sent s) r (c_unregat k) in
    let n := length (nk w) in
    c_pushed k = c_prefill k ++ nk w ++ jselect (skipn n (c_keep k)) (skipn n w) /\
    (nk w = w -> c_disc k = false /\ c_pushed k = c_prefill k ++ w).
Proof.
  intros pkts stoppers sched Hs s c r H k w n.
  destruct (run_D sched (initF pkts stoppers) Hs (init_inv _ _) (init_K _ _) (init_D _ _)) as (Hi & Hk & Hd).
  fold s in Hi, Hk, Hd.
  destruct (Hk c) as [Hc _]. unfold KC in Hc. rewrite H in Hc. destruct Hc as (_ & H3 & H4 & _).
  pose proof (Hd c) as Hdc. unfold DC in Hdc. rewrite H in Hdc. cbv zeta in Hdc. fold k in H3, H4, Hdc.
  fold w in H3, H4, Hdc. destruct Hdc as [D1 D2]. fold n in D1.
  assert (Hn : (n <= length w)%nat) by apply nk_length_le.
  assert (E : c_pushed k = c_prefill k ++ nk w ++ jselect (skipn n (c_keep k)) (skipn n w)).
  { rewrite H3. f_equal.
    rewrite <- (firstn_skipn n (c_keep k)) at 1. rewrite <- (firstn_skipn n w) at 1.
    rewrite jselect_app by (rewrite !firstn_length; lia).
    unfold n at 2. rewrite nk_prefix. rewrite D1, jselect_true. reflexivity. }
  split; [exact E|]. intros F. split; [apply D2, F|].
  rewrite E. unfold n. rewrite F, !skipn_all. cbn. rewrite ?app_nil_r.
  destruct (skipn (length w) (c_keep k)); cbn; rewrite app_nil_r; reflexivity.
Qed.

(* ---------- on a live stream the sent log is a prefix of the published list ---------- *)

Definition pk (s : ST) := (s_ok s, s_sent s, s_todo s).

Lemma pk_after_acquire : forall (s : ST) h q, pk (after_acq s h q) = pk s.
Proof. intros s h q. destruct h; cbn [after_acquire]; [destruct (s_todo s)|]; reflexivity. Qed.

Lemma pk_acquire : forall (s : ST) h, pk (acquireF s h) = pk s.
Proof.
  intros s h. unfold acquire. cbn [v_lock fixed]. destruct (s_lock s).
  - destruct h; reflexivity.
  - apply pk_after_acquire.
Qed.

Lemma pk_release : forall s : ST, pk (releaseF s) = pk s.
Proof.
  intros s. unfold release. cbn [v_lock fixed]. destruct (s_lockq s); [reflexivity|].
  apply pk_after_acquire.
Qed.

Definition PInv (pkts : list pkt) (s : ST) : Prop :=
  s_ok s = true /\ pkts = s_sent s ++ s_todo s.

Lemma PInv_pk : forall pkts (s s' : ST), pk s' = pk s -> PInv pkts s -> PInv pkts s'.
Proof. intros pkts s s' H. unfold pk in H. injection H as E1 E2 E3. unfold PInv. rewrite E1, E2, E3. auto. Qed.

Lemma step_P : forall pkts (s s' : ST) t,
  t <> TClose -> PInv pkts s -> stepF s t = Some s' -> PInv pkts s'.
Proof.
  intros pkts s s' t Ht Hp. destruct t as [| |c|c|c]; cbn [step].
  - unfold step_pub. destruct Hp as [Hok Hpk].
    destruct (s_pp s); destruct (s_todo s) as [|p rest] eqn:Et; try discriminate.
    + rewrite Hok. intros H; injection H as <-. split; cbn; [reflexivity|rewrite Hpk; reflexivity].
    + intros H; injection H as <-. eapply PInv_pk; [apply pk_acquire|]. split; [exact Hok|rewrite Hpk, Et; reflexivity].
    + intros H; injection H as <-. eapply PInv_pk; [apply pk_release|]. split; cbn; [exact Hok|].
      rewrite Hpk, <- app_assoc. reflexivity.
  - contradiction.
  - destruct (c <? ncons)%nat; [|discriminate]. unfold step_att.
    destruct (s_att s c); try discriminate.
    + intros H; injection H as <-. eapply PInv_pk; [apply pk_acquire|exact Hp].
    + intros H; injection H as <-. eapply PInv_pk; [apply pk_release|exact Hp].
    + destruct (if v_recheck fixed && negb (s_ok s) && c_reg (s_cs s c) then _ else _) as [k1 cnt].
      intros H; injection H as <-. exact Hp.
  - destruct (c <? ncons)%nat; [|discriminate]. destruct (s_att s c); try discriminate.
    unfold step_stop. destruct (s_stp s c); try discriminate.
    + destruct (c_reg (s_cs s c)); intros H; injection H as <-; exact Hp.
    + intros H; injection H as <-; exact Hp.
  - destruct (c <? ncons)%nat; [|discriminate]. unfold step_cons.
    destruct (c_pc (s_cs s c)) as [| |[p|]| | |]; try discriminate.
    + destruct (c_q (s_cs s c)); intros H; injection H as <-; exact Hp.
    + destruct (Nat.eqb _ _); intros H; injection H as <-; exact Hp.
    + intros H; injection H as <-; exact Hp.
    + intros H; injection H as <-; exact Hp.
Qed.

Theorem sent_is_prefix : forall pkts stoppers sched,
  Forall (fun t => t <> TClose) sched ->
  let s := runF sched (initF pkts stoppers) in
  pkts = s_sent s ++ s_todo s.
Proof.
  intros pkts stoppers sched Hs.
  assert (G : forall (s : ST), PInv pkts s -> PInv pkts (runF sched s)).
  { induction Hs as [|t sched Ht Hs IH]; intros s Hp; [exact Hp|].
    cbn [run]. destruct (stepF s t) eqn:E; [|apply IH, Hp].
    apply IH. eapply step_P; eauto. }
  cbv zeta. apply G. split; reflexivity.
Qed.

End Join.

(* ---------- the concrete H.264/H.265 cache ---------- *)

Lemma jselect_incl : forall A (keep : list bool) (l : list A) x, In x (jselect keep l) -> In x l.
Proof.
  induction keep as [|b keep IH]; intros l x H; [destruct H|].
  destruct l as [|y l]; [destruct H|]. cbn in H. destruct b.
  - destruct H as [<-|H]; [left; reflexivity|right; apply IH, H].
  - right; apply IH, H.
Qed.

Lemma NoDup_app_disjoint : forall A (l1 l2 : list A) x, NoDup (l1 ++ l2) -> In x l1 -> In x l2 -> False.
Proof.
  induction l1 as [|a l1 IH]; intros l2 x Hn H1 H2; [destruct H1|].
  cbn in Hn. inversion Hn; subst. destruct H1 as [<-|H1].
  - apply H3. apply in_or_app. right; exact H2.
  - eapply IH; eauto.
Qed.

Lemma jwindow_incl : forall sent r u x, In x (jwindow sent r u) -> In x (skipn r sent).
Proof.
  intros sent r u x. unfold jwindow. destruct u as [u|]; [|auto].
  intros H. rewrite <- (firstn_skipn u sent) at 1. rewrite skipn_app.
  apply in_or_app. left. exact H.
Qed.

Notation rrun maxq gopon ncons panic_at sched pkts stoppers :=
  (run fixed maxq rcache (rc_empty gopon) rc_add rc_snap ncons panic_at sched
       (init rcache (rc_empty gopon) pkts stoppers)).

(* C02 join_contiguous for the RTP caches: the joiner's queue starts with [VPS] SPS PPS = the
   latest parameter-set packets among sent[0..r) and, when cache_gop, the video packets from the
   last key start in sent[0..r) on; what follows is a selection of sent[r..u): the live part
   starts exactly where the replayed part ended. *)
Theorem join_contiguous_rcache : forall maxq gopon ncons panic_at pkts stoppers sched,
  Forall (fun t => t <> TClose) sched ->
  let s := rrun maxq gopon ncons panic_at sched pkts stoppers in
  forall c r, c_regat (s_cs s c) = Some r ->
    let k := s_cs s c in
    (r <= length (s_sent s))%nat /\
    c_prefill k = spec_snap gopon (firstn r (s_sent s)) /\
    c_pushed k = spec_snap gopon (firstn r (s_sent s)) ++
                 jselect (c_keep k) (jwindow (s_sent s) r (c_unregat k)) /\
    length (c_keep k) = length (jwindow (s_sent s) r (c_unregat k)).
Proof.
  intros maxq gopon ncons panic_at pkts stoppers sched Hs s c r H k.
  destruct (join_contiguous maxq rcache (rc_empty gopon) rc_add rc_snap ncons panic_at
              pkts stoppers sched Hs c r H) as (H1 & H2 & H3 & H4).
  fold s in H1, H2, H3, H4. fold k in H2, H3, H4.
  unfold cache_of in H2. rewrite cache_is_spec in H2.
  repeat split; auto. rewrite <- H2. exact H3.
Qed.

(* no repeat: when the published packets are pairwise distinct, nothing of the replayed part
   shows up again in the live part *)
Theorem join_no_repeat_rcache : forall maxq gopon ncons panic_at pkts stoppers sched,
  Forall (fun t => t <> TClose) sched -> NoDup pkts ->
  let s := rrun maxq gopon ncons panic_at sched pkts stoppers in
  forall c r, c_regat (s_cs s c) = Some r ->
    let k := s_cs s c in
    forall p, In p (c_prefill k) -> ~ In p (jselect (c_keep k) (jwindow (s_sent s) r (c_unregat k))).
Proof.
  intros maxq gopon ncons panic_at pkts stoppers sched Hs Hnd s c r H k p Hp Hl.
  destruct (join_contiguous_rcache maxq gopon ncons panic_at pkts stoppers sched Hs c r H)
    as (H1 & H2 & _).
  fold s in H1, H2. fold k in H2.
  pose proof (sent_is_prefix maxq rcache (rc_empty gopon) rc_add rc_snap ncons panic_at
                pkts stoppers sched Hs) as Hpre. cbv zeta in Hpre. fold s in Hpre.
  rewrite H2 in Hp. apply snap_incl in Hp.
  apply jselect_incl, jwindow_incl in Hl.
  rewrite Hpre, <- (firstn_skipn r (s_sent s)), <- app_assoc in Hnd.
  apply (NoDup_app_disjoint _ _ _ p Hnd Hp). apply in_or_app. left; exact Hl.
Qed.

(* ---------- the code before the join mutex (variant [original]): D1 ---------- *)

Definition d1_case (kind : Z) (sched : list tid) : lcase :=
  {| l_var := original; l_n := 1; l_maxq := 5; l_gop := true;
     l_pkts := [ {| p_id := 1; p_kind := kind |} ]; l_stop := [false]; l_sched := sched;
     l_panic := [O] |}.

(* repeat: publisher caches p1, the attacher snapshots (p1 is in the cache) and registers, then
   the publisher broadcasts p1: the consumer is handed p1 twice *)
Definition d1_repeat : lcase :=
  d1_case 3 [TPub; TPub; TAtt 0; TAtt 0; TPub; TAtt 0; TCons 0; TCons 0; TCons 0; TCons 0].

Example join_repeat_refuted :
  let s := lrun d1_repeat in let k := s_cs s 0 in
  let p1 := {| p_id := 1; p_kind := 3 |} in
  c_regat k = Some 0%nat /\ s_sent s = [p1] /\
  c_prefill k = [p1] /\ c_prefill k <> spec_snap true (firstn 0 (s_sent s)) /\
  c_out k = [p1; p1].
Proof.
  vm_compute. split; [reflexivity|]. split; [reflexivity|]. split; [reflexivity|].
  split; [discriminate|reflexivity].
Qed.

(* gap: the attacher snapshots the (empty) cache, the publisher caches and broadcasts the key
   packet p1 while the consumer is not yet registered, then the attacher registers: p1 is neither
   replayed nor live *)
Definition d1_gap : lcase :=
  d1_case 2 [TAtt 0; TPub; TPub; TPub; TAtt 0; TAtt 0].

Example join_gap_refuted :
  let s := lrun d1_gap in let k := s_cs s 0 in
  let p1 := {| p_id := 1; p_kind := 2 |} in
  c_regat k = Some 1%nat /\ s_sent s = [p1] /\ c_reg k = true /\
  spec_snap true (firstn 1 (s_sent s)) = [p1] /\ c_prefill k = [] /\ c_pushed k = [].
Proof. vm_compute. repeat (split; [reflexivity|]). reflexivity. Qed.

(* the same schedule (run a little longer so that the blocked attacher finishes) on the repaired
   code: the consumer is handed p1 once *)
Definition d1_repeat_long (v : variant) : lcase :=
  {| l_var := v; l_n := 1; l_maxq := 5; l_gop := true;
     l_pkts := [ {| p_id := 1; p_kind := 3 |} ]; l_stop := [false];
     l_sched := l_sched d1_repeat ++ [TAtt 0; TCons 0; TCons 0; TCons 0; TCons 0];
     l_panic := [O] |}.

Example join_repeat_fixed :
  c_out (s_cs (lrun (d1_repeat_long original)) 0) =
    [ {| p_id := 1; p_kind := 3 |}; {| p_id := 1; p_kind := 3 |} ] /\
  c_out (s_cs (lrun (d1_repeat_long fixed)) 0) = [ {| p_id := 1; p_kind := 3 |} ].
Proof. vm_compute. split; reflexivity. Qed.

(* ---------- the seam, for the RTP caches: any replay length, any queue limit ---------- *)

(* [maxq] is universally quantified and occurs in no hypothesis: a joiner whose replay is longer
   than the queue limit is still handed, right after the replayed part, every live packet up to the
   next key start; if no key start has been broadcast since it registered it is not discarding and
   what was pushed to it is exactly  replay ++ live packets from the registration point on *)
Theorem join_contiguous_any_replay_length_rcache :
  forall maxq gopon ncons panic_at pkts stoppers sched,
  Forall (fun t => t <> TClose) sched ->
  let s := rrun maxq gopon ncons panic_at sched pkts stoppers in
  forall c r, c_regat (s_cs s c) = Some r ->
    let k := s_cs s c in
    let w := jwindow (s_sent s) r (c_unregat k) in
    let n := length (nk w) in
    c_pushed k = spec_snap gopon (firstn r (s_sent s)) ++ nk w ++ jselect (skipn n (c_keep k)) (skipn n w) /\
    (nk w = w -> c_disc k = false /\ c_pushed k = spec_snap gopon (firstn r (s_sent s)) ++ w).
Proof.
  intros maxq gopon ncons panic_at pkts stoppers sched Hs s c r H k w n.
  destruct (join_seam maxq rcache (rc_empty gopon) rc_add rc_snap ncons panic_at
              pkts stoppers sched Hs c r H) as [E1 E2].
  destruct (join_contiguous_rcache maxq gopon ncons panic_at pkts stoppers sched Hs c r H) as (_ & P & _).
  fold s in E1, E2, P. fold k in E1, E2, P. fold w in E1, E2. fold n in E1.
  rewrite <- P. split; [exact E1|exact E2].
Qed.
