(* C02 part B — join contiguity in the stream LTS (Model/StreamLts.v), variant [fixed].
   While the stream is alive (no TClose step), for every schedule, every consumer that has been
   registered at sent-log length r was pre-filled with the cache of exactly the packets broadcast
   before its registration, and everything pushed to it afterwards is a selection of the packets
   with index >= r: no gap, no repeat at the join.  Abstract cache (Section variables), then the
   concrete [rcache] corollary through Proofs/CacheProofs.v.  The [original] variant (no join
   mutex) violates both directions: D1 repeat / D1 gap witnesses at the end. *)
From Coq Require Import ZArith List Bool Arith Lia.
From V Require Import StreamLts Cache LtsWire CacheProofs.
Import ListNotations.

Local Arguments s_ok {_} _.
Local Arguments s_lock {_} _.
Local Arguments s_lockq {_} _.
Local Arguments s_cache {_} _.
Local Arguments s_sent {_} _.
Local Arguments s_cached {_} _.
Local Arguments s_todo {_} _.
Local Arguments s_pp {_} _.
Local Arguments s_count {_} _.
Local Arguments s_cs {_} _ _.
Local Arguments s_att {_} _ _.
Local Arguments s_stp {_} _ _.
Local Arguments s_kp {_} _.

(* ---------- small generic lemmas ---------- *)

Lemma upd_same : forall A (f : nat -> A) c v, upd f c v c = v.
Proof. intros. unfold upd. rewrite Nat.eqb_refl. reflexivity. Qed.

Lemma upd_other : forall A (f : nat -> A) c c' v, c <> c' -> upd f c v c' = f c'.
Proof. intros A f c c' v H. unfold upd. destruct (Nat.eqb_spec c c'); [contradiction|reflexivity]. Qed.

Lemma firstn_app_le : forall A (l : list A) x r, (r <= length l)%nat -> firstn r (l ++ x) = firstn r l.
Proof.
  intros A l x r H. rewrite firstn_app. replace (r - length l)%nat with O by lia.
  cbn. apply app_nil_r.
Qed.

Lemma NoDup_app_snoc : forall A (l : list A) x, NoDup l -> ~ In x l -> NoDup (l ++ [x]).
Proof.
  intros A l x Hn Hi. induction Hn as [|a l Ha Hn IH]; cbn.
  - constructor; [intros []|constructor].
  - constructor.
    + intros H. apply in_app_or in H. destruct H as [H|[H|[]]]; [contradiction|].
      apply Hi. left. symmetry. exact H.
    + apply IH. intros H. apply Hi. right. exact H.
Qed.

(* [jselect keep l]: the elements of l whose flag is true *)
Fixpoint jselect {A} (keep : list bool) (l : list A) : list A :=
  match keep, l with
  | b :: keep', x :: l' => if b then x :: jselect keep' l' else jselect keep' l'
  | _, _ => []
  end.

Lemma jselect_app : forall A (k1 : list bool) (l1 : list A) k2 l2,
  length k1 = length l1 -> jselect (k1 ++ k2) (l1 ++ l2) = jselect k1 l1 ++ jselect k2 l2.
Proof.
  induction k1 as [|b k1 IH]; intros l1 k2 l2 H; destruct l1 as [|x l1]; try discriminate; [reflexivity|].
  cbn in H. cbn [app jselect]. rewrite IH by lia. destruct b; reflexivity.
Qed.

(* the packets broadcast while registered: indexes r .. u-1 of the sent log *)
Definition jwindow (sent : list pkt) (r : nat) (u : option nat) : list pkt :=
  skipn r (match u with Some n => firstn n sent | None => sent end).

(* ---------- ghost fields are only written at the attach steps ---------- *)

Definition gh (k : cons) := (c_regat k, c_prefill k).

Lemma gh_wake : forall k, gh (wake k) = gh k.
Proof. intros k. unfold wake. destruct (c_pc k); try reflexivity. destruct (c_q k); reflexivity. Qed.

Lemma gh_push : forall k x, gh (push k x) = gh k.
Proof. intros. unfold push. rewrite gh_wake. reflexivity. Qed.

Lemma gh_send : forall maxq k p, gh (send maxq k p) = gh k.
Proof.
  intros. unfold send. cbv zeta.
  match goal with |- gh (if ?d then _ else _) = _ => destruct d end; [reflexivity|].
  rewrite gh_push. reflexivity.
Qed.

Lemma gh_close_cons : forall V k, gh (close_cons V k) = gh k.
Proof.
  intros. unfold close_cons. destruct (c_closed k); [reflexivity|].
  destruct (v_push V); [rewrite gh_push|rewrite gh_wake]; reflexivity.
Qed.

Lemma gh_unreg : forall k n, gh (set_reg k false n) = gh k.
Proof. reflexivity. Qed.

Lemma gh_set_pc : forall k pc, gh (set_pc k pc) = gh k.
Proof. reflexivity. Qed.

Lemma gh_finish : forall k, gh (finish k) = gh k.
Proof. reflexivity. Qed.

Lemma gh_exit_path : forall V k n, gh (exit_path V k n) = gh k.
Proof.
  intros. unfold exit_path. destruct (c_reg k); [|apply gh_finish].
  rewrite gh_set_pc. destruct (v_atomic V); reflexivity.
Qed.

Lemma gh_loop_test : forall V k n, gh (loop_test V k n) = gh k.
Proof. intros. unfold loop_test. destruct (c_closed k); [apply gh_exit_path|apply gh_set_pc]. Qed.

Lemma gh_send_all : forall maxq n f p c, gh (send_all maxq n f p c) = gh (f c).
Proof.
  induction n as [|n IH]; intros f p c; [reflexivity|].
  cbn [send_all]. cbv zeta. destruct (c_reg (send_all maxq n f p n)); [|apply IH].
  destruct (Nat.eq_dec n c) as [->|Hn].
  - rewrite upd_same, gh_send. apply IH.
  - rewrite upd_other by exact Hn. apply IH.
Qed.

Section Join.
Variable maxq : nat.
Variable cache_t : Type.
Variable cache_empty : cache_t.
Variable cache_add : cache_t -> pkt -> cache_t.
Variable cache_snap : cache_t -> list pkt.
Variable ncons : nat.
Variable panic_at : nat -> nat.

Notation ST := (st cache_t).
Notation stepF := (step fixed maxq cache_t cache_empty cache_add cache_snap ncons panic_at).
Notation runF := (run fixed maxq cache_t cache_empty cache_add cache_snap ncons panic_at).
Notation initF := (init cache_t cache_empty).
Notation acquireF := (acquire fixed cache_t cache_add cache_snap).
Notation releaseF := (release fixed cache_t cache_add cache_snap).
Notation after_acq := (after_acquire cache_t cache_add cache_snap).

Definition cache_of (l : list pkt) : cache_t := fold_left cache_add l cache_empty.

(* the part of the invariant that does not mention who holds the mutex *)
Record JCore (s : ST) : Prop := {
  j_cache : s_cache s = cache_of (s_cached s);
  j_nop : s_pp s <> P2 -> s_cached s = s_sent s;
  j_inp : s_pp s = P2 -> exists p rest, s_todo s = p :: rest /\ s_cached s = s_sent s ++ [p];
  j_snap : forall c, s_att s c = A1 ->
           c_prefill (s_cs s c) = cache_snap (s_cache s) /\ c_regat (s_cs s c) = None;
  j_nodup : NoDup (s_lockq s);
  j_qpub : In HPub (s_lockq s) -> s_pp s = P1W;
  j_qatt : forall c, In (HAtt c) (s_lockq s) -> s_att s c = A0W;
  j_early : forall c, s_att s c = A0 \/ s_att s c = A0W -> c_regat (s_cs s c) = None;
  j_reg : forall c r, c_regat (s_cs s c) = Some r ->
           (r <= length (s_sent s))%nat /\
           c_prefill (s_cs s c) = cache_snap (cache_of (firstn r (s_sent s)));
  j_todo : s_pp s <> P0 -> s_todo s <> []
}.

(* nobody is inside the critical section *)
Definition JFree (s : ST) : Prop := s_pp s <> P2 /\ forall c, s_att s c <> A1.

(* lock discipline: whoever is inside the critical section holds the mutex *)
Record JInv (s : ST) : Prop := {
  j_core : JCore s;
  j_lpub : s_pp s = P2 -> s_lock s = Some HPub;
  j_latt : forall c, s_att s c = A1 -> s_lock s = Some (HAtt c)
}.

Lemma JFree_JInv : forall s, JCore s -> JFree s -> JInv s.
Proof.
  intros s Hc [Hp Ha]. split; [exact Hc| |]; intros; exfalso; [apply Hp; assumption|eapply Ha; eassumption].
Qed.

Lemma JInv_unlocked_free : forall s, JInv s -> s_lock s = None -> JFree s.
Proof.
  intros s H Hl. split.
  - intros Hp. apply (j_lpub s H) in Hp. congruence.
  - intros c Ha. apply (j_latt s H) in Ha. congruence.
Qed.

Lemma init_inv : forall pkts stoppers, JInv (initF pkts stoppers).
Proof.
  intros. apply JFree_JInv.
  - split; cbn; try (intros; discriminate); try (intros; contradiction); try reflexivity.
    all: try constructor.
  - split; cbn; intros; discriminate.
Qed.

(* frame: a step that only rewrites consumers (keeping the ghost fields) and possibly moves
   attachers A2 -> ADone *)
Lemma JInv_frame : forall s s' : ST,
  s_lock s' = s_lock s -> s_lockq s' = s_lockq s -> s_cache s' = s_cache s ->
  s_sent s' = s_sent s -> s_cached s' = s_cached s -> s_todo s' = s_todo s -> s_pp s' = s_pp s ->
  (forall c, s_att s' c = s_att s c \/ (s_att s c = A2 /\ s_att s' c = ADone)) ->
  (forall c, gh (s_cs s' c) = gh (s_cs s c)) ->
  JInv s -> JInv s'.
Proof.
  intros s s' El Eq Ec Es Ed Et Ep Ha Hg [Hc Hlp Hla].
  assert (Hr : forall c, c_regat (s_cs s' c) = c_regat (s_cs s c)).
  { intros c. specialize (Hg c). unfold gh in Hg. congruence. }
  assert (Hf : forall c, c_prefill (s_cs s' c) = c_prefill (s_cs s c)).
  { intros c. specialize (Hg c). unfold gh in Hg. congruence. }
  assert (Ha1 : forall c, s_att s' c = A1 -> s_att s c = A1).
  { intros c H. destruct (Ha c) as [E|[_ E]]; congruence. }
  assert (Ha0 : forall c, s_att s' c = A0 \/ s_att s' c = A0W -> s_att s c = A0 \/ s_att s c = A0W).
  { intros c H. destruct (Ha c) as [E|[_ E]]; destruct H; try congruence; rewrite <- E; auto. }
  destruct Hc. split; [split|..]; rewrite ?El, ?Eq, ?Ec, ?Es, ?Ed, ?Et, ?Ep; auto.
  - intros c H. rewrite Hr, Hf. auto.
  - intros c H. specialize (j_qatt0 c H). destruct (Ha c) as [E|[E _]]; congruence.
  - intros c H. rewrite Hr. auto.
  - intros c r H. rewrite Hr in H. rewrite Hf. auto.
Qed.

(* a goroutine enters the critical section *)
Lemma after_acquire_inv : forall (s : ST) h q,
  JCore s -> JFree s ->
  NoDup q -> ~ In h q -> (forall h', In h' q -> In h' (s_lockq s)) ->
  (h = HPub -> (s_pp s = P1 \/ s_pp s = P1W)) ->
  (forall c, h = HAtt c -> s_att s c = A0 \/ s_att s c = A0W) ->
  JInv (after_acq s h q).
Proof.
  intros s h q Hc [Fp Fa] Hnd Hni Hsub Hpub Hatt. destruct Hc.
  destruct h as [|c]; cbn [after_acquire].
  - (* the publisher: cache the packet *)
    assert (Hp : s_pp s <> P0) by (destruct (Hpub eq_refl) as [E|E]; rewrite E; discriminate).
    destruct (s_todo s) as [|p rest] eqn:Et; [exfalso; apply (j_todo0 Hp); reflexivity|].
    split; [split|..]; cbn.
    + unfold cache_of. rewrite fold_left_app. cbn. rewrite j_cache0. reflexivity.
    + intros H; contradiction.
    + intros _. exists p, rest. rewrite j_nop0 by exact Fp. auto.
    + intros c H. exfalso. apply (Fa c H).
    + exact Hnd.
    + intros H. contradiction.
    + intros c H. apply j_qatt0, Hsub, H.
    + exact j_early0.
    + exact j_reg0.
    + intros _. rewrite Et. discriminate.
    + reflexivity.
    + intros c H. exfalso. apply (Fa c H).
  - (* an attacher: snapshot the cache into its queue *)
    specialize (Hatt c eq_refl).
    split; [split|..]; cbn.
    + exact j_cache0.
    + exact j_nop0.
    + intros H. contradiction.
    + intros c' H. destruct (Nat.eq_dec c c') as [<-|Hn].
      * rewrite upd_same. cbn. split; [reflexivity|]. apply j_early0, Hatt.
      * rewrite upd_other in H by exact Hn. exfalso. apply (Fa c' H).
    + exact Hnd.
    + intros H. apply j_qpub0, Hsub, H.
    + intros c' H. destruct (Nat.eq_dec c c') as [<-|Hn]; [contradiction|].
      rewrite upd_other by exact Hn. apply j_qatt0, Hsub, H.
    + intros c' H. destruct (Nat.eq_dec c c') as [<-|Hn].
      * rewrite upd_same in H. destruct H; discriminate.
      * rewrite upd_other in H by exact Hn. rewrite upd_other by exact Hn. apply j_early0, H.
    + intros c' r H. destruct (Nat.eq_dec c c') as [<-|Hn].
      * rewrite upd_same in H. cbn in H. rewrite (j_early0 c Hatt) in H. discriminate.
      * rewrite upd_other in H by exact Hn. rewrite upd_other by exact Hn. apply j_reg0, H.
    + exact j_todo0.
    + intros H. contradiction.
    + intros c' H. destruct (Nat.eq_dec c c') as [<-|Hn]; [reflexivity|].
      rewrite upd_other in H by exact Hn. exfalso. apply (Fa c' H).
Qed.

(* Unlock() from a state in which the critical section has just been left *)
Lemma release_inv : forall s : ST, JCore s -> JFree s -> JInv (releaseF s).
Proof.
  intros s Hc Hf. unfold release. cbn [v_lock fixed].
  destruct (s_lockq s) as [|h rest] eqn:Eq.
  - apply JFree_JInv; [|exact Hf]. destruct Hc. split; cbn; auto.
    + constructor.
    + intros [].
    + intros c [].
  - pose proof (j_nodup s Hc) as Hnd. rewrite Eq in Hnd. inversion Hnd; subst.
    apply after_acquire_inv; auto.
    + intros h' H. rewrite Eq. right; exact H.
    + intros ->. right. apply (j_qpub s Hc). rewrite Eq. left; reflexivity.
    + intros c ->. right. apply (j_qatt s Hc). rewrite Eq. left; reflexivity.
Qed.

(* Lock() *)
Lemma acquire_inv : forall (s : ST) h,
  JInv s ->
  (h = HPub -> s_pp s = P1) -> (forall c, h = HAtt c -> s_att s c = A0) ->
  JInv (acquireF s h).
Proof.
  intros s h Hi Hpub Hatt. unfold acquire. cbn [v_lock fixed].
  destruct (s_lock s) as [o|] eqn:El.
  - (* queue up *)
    destruct Hi as [Hc Hlp Hla]. destruct Hc.
    destruct h as [|c].
    + specialize (Hpub eq_refl).
      split; [split|..]; cbn; auto; try (intros; discriminate).
      * intros _. apply j_nop0. rewrite Hpub. discriminate.
      * apply NoDup_app_snoc; [exact j_nodup0|].
        intros H. apply j_qpub0 in H. congruence.
      * intros c H. apply in_app_or in H. destruct H as [H|[H|[]]]; [auto|discriminate].
      * intros _. apply j_todo0. rewrite Hpub. discriminate.
      * intros c H. rewrite <- El. auto.
    + specialize (Hatt c eq_refl).
      assert (Hreg : c_regat (s_cs s c) = None) by (apply j_early0; left; exact Hatt).
      split; [split|..]; cbn; auto.
      * intros c' H. destruct (Nat.eq_dec c c') as [<-|Hn];
          [rewrite upd_same in H; discriminate|rewrite upd_other in H by exact Hn; auto].
      * apply NoDup_app_snoc; [exact j_nodup0|].
        intros H. apply j_qatt0 in H. congruence.
      * intros H. apply in_app_or in H. destruct H as [H|[H|[]]]; [auto|discriminate].
      * intros c' H. apply in_app_or in H. destruct H as [H|[H|[]]].
        -- destruct (Nat.eq_dec c c') as [<-|Hn]; [apply upd_same|].
           rewrite upd_other by exact Hn. auto.
        -- inversion H; subst. apply upd_same.
      * intros c' H. destruct (Nat.eq_dec c c') as [<-|Hn]; [exact Hreg|].
        rewrite upd_other in H by exact Hn. auto.
      * intros H. rewrite <- El. auto.
      * intros c' H. rewrite <- El. destruct (Nat.eq_dec c c') as [<-|Hn];
          [rewrite upd_same in H; discriminate|rewrite upd_other in H by exact Hn; auto].
  - apply after_acquire_inv.
    + apply Hi.
    + apply JInv_unlocked_free; assumption.
    + apply (j_nodup s (j_core s Hi)).
    + destruct h as [|c]; intros H.
      * apply (j_qpub s (j_core s Hi)) in H. rewrite (Hpub eq_refl) in H. discriminate.
      * apply (j_qatt s (j_core s Hi)) in H. rewrite (Hatt c eq_refl) in H. discriminate.
    + auto.
    + intros E. left. auto.
    + intros c E. left. auto.
Qed.

(* ---------- the steps (everything except the closer) ---------- *)

(* the states right before Unlock() *)
Definition pub_mid (s : ST) (p : pkt) (rest : list pkt) : ST :=
  {| s_ok := s_ok s; s_lock := s_lock s; s_lockq := s_lockq s; s_cache := s_cache s;
     s_sent := s_sent s ++ [p]; s_cached := s_cached s; s_todo := rest; s_pp := P0;
     s_count := s_count s; s_cs := send_all maxq ncons (s_cs s) p; s_att := s_att s;
     s_stp := s_stp s; s_kp := s_kp s |}.

Definition att_mid (s : ST) (c : nat) : ST :=
  set_att cache_t s c A2 (s_count s + 1)%Z
          (upd (s_cs s) c (set_reg (s_cs s c) true (length (s_sent s)))).

Lemma pub_mid_core : forall (s : ST) p rest,
  JInv s -> s_pp s = P2 -> s_todo s = p :: rest ->
  JCore (pub_mid s p rest) /\ JFree (pub_mid s p rest).
Proof.
  intros s p rest Hi Ep Et.
  pose proof (j_lpub s Hi Ep) as Hl.
  assert (Hna : forall c, s_att s c <> A1).
  { intros c Ha. apply (j_latt s Hi) in Ha. congruence. }
  destruct Hi as [Hc _ _]. destruct Hc.
  destruct (j_inp0 Ep) as (p' & rest' & E1 & E2). rewrite Et in E1. injection E1 as <- <-.
  split.
  - split; cbn; auto; try (intros; discriminate).
    + intros c H. exfalso. apply (Hna c H).
    + intros H. apply j_qpub0 in H. congruence.
    + intros c H. pose proof (gh_send_all maxq ncons (s_cs s) p c) as G. unfold gh in G.
      injection G as G1 G2. rewrite G1. auto.
    + intros c r H. pose proof (gh_send_all maxq ncons (s_cs s) p c) as G. unfold gh in G.
      injection G as G1 G2. rewrite G1 in H. rewrite G2.
      destruct (j_reg0 c r H) as [Hr Hf]. rewrite app_length. cbn. split; [lia|].
      rewrite firstn_app_le by exact Hr. exact Hf.
  - split; cbn; [discriminate|exact Hna].
Qed.

Lemma att_mid_core : forall (s : ST) c,
  JInv s -> s_att s c = A1 -> JCore (att_mid s c) /\ JFree (att_mid s c).
Proof.
  intros s c Hi Ea.
  pose proof (j_latt s Hi c Ea) as Hl.
  assert (Hnp : s_pp s <> P2).
  { intros Hp. apply (j_lpub s Hi) in Hp. congruence. }
  assert (Hna : forall c', c' <> c -> s_att s c' <> A1).
  { intros c' Hn Ha. apply (j_latt s Hi) in Ha. congruence. }
  destruct Hi as [Hc _ _]. destruct Hc.
  destruct (j_snap0 c Ea) as [Hpre Hnone].
  split.
  - split; cbn; auto.
    + intros c' H. destruct (Nat.eq_dec c c') as [<-|Hn].
      * rewrite upd_same in H. discriminate.
      * rewrite upd_other in H by exact Hn. exfalso. apply (Hna c'); auto.
    + intros c' H. destruct (Nat.eq_dec c c') as [<-|Hn].
      * apply j_qatt0 in H. congruence.
      * rewrite upd_other by exact Hn. auto.
    + intros c' H. destruct (Nat.eq_dec c c') as [<-|Hn].
      * rewrite upd_same in H. destruct H; discriminate.
      * rewrite !upd_other in * by exact Hn. auto.
    + intros c' r H. destruct (Nat.eq_dec c c') as [<-|Hn].
      * rewrite upd_same in *. cbn in H. injection H as <-. cbn. split; [lia|].
        rewrite firstn_all. rewrite Hpre, j_cache0, (j_nop0 Hnp). reflexivity.
      * rewrite upd_other in * by exact Hn. auto.
  - split; cbn; [exact Hnp|].
    intros c' H. destruct (Nat.eq_dec c c') as [<-|Hn].
    + rewrite upd_same in H. discriminate.
    + rewrite upd_other in H by exact Hn. apply (Hna c'); auto.
Qed.

Lemma step_pub_inv : forall s s' : ST,
  JInv s -> step_pub fixed maxq cache_t cache_add cache_snap ncons s = Some s' -> JInv s'.
Proof.
  intros s s' Hi. unfold step_pub.
  destruct (s_pp s) eqn:Ep; destruct (s_todo s) as [|p rest] eqn:Et; try discriminate.
  - (* P0: status check *)
    destruct (s_ok s); intros H; injection H as <-.
    + destruct Hi as [Hc Hlp Hla]. destruct Hc.
      split; [split|..]; cbn; rewrite ?Ep in *; auto; try (intros; discriminate).
      * intros _. apply j_nop0. discriminate.
      * intros H. apply j_qpub0 in H. discriminate.
    + destruct Hi as [Hc Hlp Hla]. destruct Hc.
      split; [split|..]; cbn; rewrite ?Ep in *; auto; try (intros; discriminate);
        try (intros H; contradiction).
  - (* P1: Lock() *)
    intros H; injection H as <-. apply acquire_inv; [exact Hi|auto|intros; discriminate].
  - (* P2: broadcast, Unlock() *)
    intros H; injection H as <-.
    destruct (pub_mid_core s p rest Hi Ep Et) as [Hc Hf].
    apply (release_inv _ Hc Hf).
Qed.

Lemma step_att_inv : forall (s s' : ST) c,
  JInv s -> step_att fixed cache_t cache_add cache_snap s c = Some s' -> JInv s'.
Proof.
  intros s s' c Hi. unfold step_att.
  destruct (s_att s c) eqn:Ea; try discriminate.
  - (* A0: Lock() *)
    intros H; injection H as <-. apply acquire_inv; [exact Hi|intros; discriminate|].
    intros c' E. injection E as <-. exact Ea.
  - (* A1: register, Unlock() *)
    intros H; injection H as <-.
    destruct (att_mid_core s c Hi Ea) as [Hc Hf].
    apply (release_inv _ Hc Hf).
  - (* A2: status re-check, start the goroutine *)
    intros H.
    match type of H with (let '(k1, cnt) := ?X in _) = _ =>
      assert (Hg : gh (fst X) = gh (s_cs s c)) end.
    { destruct (v_recheck fixed && negb (s_ok s) && c_reg (s_cs s c)); cbn [fst];
        [rewrite gh_close_cons; reflexivity|reflexivity]. }
    match type of H with (let '(k1, cnt) := ?X in _) = _ => destruct X as [k1 cnt] end.
    cbn [fst] in Hg. injection H as <-.
    eapply JInv_frame; try exact Hi; try reflexivity.
    + intros c'. cbn. destruct (Nat.eq_dec c c') as [<-|Hn].
      * rewrite upd_same. right. auto.
      * rewrite upd_other by exact Hn. left; reflexivity.
    + intros c'. cbn. destruct (Nat.eq_dec c c') as [<-|Hn].
      * rewrite upd_same, gh_loop_test. exact Hg.
      * rewrite upd_other by exact Hn. reflexivity.
Qed.

Ltac frame s Hi := apply JInv_frame with (s := s);
  [reflexivity|reflexivity|reflexivity|reflexivity|reflexivity|reflexivity|reflexivity
  |intros ?c'; left; reflexivity| |exact Hi].

Lemma gh_upd : forall (s : ST) c k', gh k' = gh (s_cs s c) ->
  forall c', gh (upd (s_cs s) c k' c') = gh (s_cs s c').
Proof.
  intros s c k' Hk c'. destruct (Nat.eq_dec c c') as [<-|Hn];
    [rewrite upd_same; exact Hk|rewrite upd_other by exact Hn; reflexivity].
Qed.

Lemma step_stop_inv : forall (s s' : ST) c,
  JInv s -> step_stop fixed cache_t s c = Some s' -> JInv s'.
Proof.
  intros s s' c Hi. unfold step_stop.
  destruct (s_stp s c); try discriminate.
  - destruct (c_reg (s_cs s c)); intros H; injection H as <-; frame s Hi; cbn.
    + apply gh_upd. reflexivity.
    + reflexivity.
  - intros H; injection H as <-. frame s Hi; cbn.
    apply gh_upd. rewrite gh_close_cons. reflexivity.
Qed.

Lemma step_cons_inv : forall (s s' : ST) c,
  JInv s -> step_cons fixed cache_t panic_at s c = Some s' -> JInv s'.
Proof.
  intros s s' c Hi. unfold step_cons.
  destruct (c_pc (s_cs s c)) as [| |[p|]| | |]; try discriminate.
  - destruct (c_q (s_cs s c)); intros H; injection H as <-; frame s Hi; cbn;
      apply gh_upd; reflexivity.
  - destruct (Nat.eqb _ _); intros H; injection H as <-; frame s Hi; cbn;
      apply gh_upd; [rewrite gh_exit_path|rewrite gh_loop_test]; reflexivity.
  - intros H; injection H as <-. frame s Hi; cbn.
    apply gh_upd. rewrite gh_loop_test. reflexivity.
  - intros H; injection H as <-. frame s Hi; cbn.
    apply gh_upd. rewrite gh_finish, gh_close_cons. reflexivity.
Qed.

Lemma step_inv : forall (s s' : ST) t,
  t <> TClose -> JInv s -> stepF s t = Some s' -> JInv s'.
Proof.
  intros s s' t Ht Hi. destruct t as [| |c|c|c]; cbn [step].
  - apply step_pub_inv, Hi.
  - contradiction.
  - destruct (c <? ncons)%nat; [apply step_att_inv, Hi|discriminate].
  - destruct (c <? ncons)%nat; [|discriminate].
    destruct (s_att s c); try discriminate. apply step_stop_inv, Hi.
  - destruct (c <? ncons)%nat; [apply step_cons_inv, Hi|discriminate].
Qed.

Lemma run_inv : forall sched (s : ST),
  Forall (fun t => t <> TClose) sched -> JInv s -> JInv (runF sched s).
Proof.
  induction sched as [|t sched IH]; intros s Hs Hi; [exact Hi|].
  inversion Hs; subst. cbn [run]. apply IH; [assumption|].
  destruct (stepF s t) eqn:E; [eapply step_inv; eauto|exact Hi].
Qed.

(* the lock-discipline invariant, on every reachable state of a live stream *)
Theorem join_lock_discipline : forall pkts stoppers sched,
  Forall (fun t => t <> TClose) sched ->
  let s := runF sched (initF pkts stoppers) in
  s_cache s = cache_of (s_cached s) /\
  (s_pp s <> P2 -> s_cached s = s_sent s) /\
  (s_pp s = P2 -> s_lock s = Some HPub /\ exists p rest, s_todo s = p :: rest /\ s_cached s = s_sent s ++ [p]) /\
  (* between its snapshot and its registration an attacher holds the mutex, the publisher is
     outside its cache+broadcast section, and the snapshot is the cache of the sent log *)
  (forall c, s_att s c = A1 ->
     s_lock s = Some (HAtt c) /\ s_pp s <> P2 /\
     c_prefill (s_cs s c) = cache_snap (cache_of (s_sent s))).
Proof.
  intros pkts stoppers sched Hs s.
  assert (Hi : JInv s) by (apply run_inv; [exact Hs|apply init_inv]).
  pose proof (j_core s Hi) as Hc.
  split; [apply Hc|]. split; [apply Hc|]. split.
  - intros Hp. split; [apply (j_lpub s Hi Hp)|apply (j_inp s Hc Hp)].
  - intros c Ha. pose proof (j_latt s Hi c Ha) as Hl.
    assert (Hnp : s_pp s <> P2) by (intros Hp; apply (j_lpub s Hi) in Hp; congruence).
    repeat split; auto.
    destruct (j_snap s Hc c Ha) as [-> _]. rewrite (j_cache s Hc), (j_nop s Hc Hnp). reflexivity.
Qed.

(* the replayed part is the cache of exactly the packets broadcast before the registration *)
Theorem join_prefill : forall pkts stoppers sched,
  Forall (fun t => t <> TClose) sched ->
  let s := runF sched (initF pkts stoppers) in
  forall c r, c_regat (s_cs s c) = Some r ->
    (r <= length (s_sent s))%nat /\
    c_prefill (s_cs s c) = cache_snap (cache_of (firstn r (s_sent s))).
Proof.
  intros pkts stoppers sched Hs s c r H.
  assert (Hi : JInv s) by (apply run_inv; [exact Hs|apply init_inv]).
  apply (j_reg s (j_core s Hi) c r H).
Qed.

End Join.
