(* C09 — the fixed-size fields: TS header bytes, PTS/DTS, PCR, PES header *)
From Coq Require Import ZArith List Bool Lia ZifyBool.
From V Require Import Bytes BytesLemmas C09TsFrame C09TsWriter C09TsDemux C09BitLemmas.
Import ListNotations.
Open Scope Z_scope.
Ltac Zify.zify_post_hook ::= Z.div_mod_to_equations.
Ltac conseq := apply (f_equal2 (@cons Z)).

(* ---- the four header bytes ---- *)
Definition hdr4_a (pid cc : Z) (first adapt : bool) : bytes :=
  [71; pid / 256 + (if first then 64 else 0); pid mod 256;
   16 + cc mod 16 + (if adapt then 32 else 0)].

Lemma hdr4_arith pid cc first adapt : 0 <= pid < 8192 ->
  ts_hdr4 pid cc first adapt = hdr4_a pid cc first adapt.
Proof.
  intros Hp. unfold ts_hdr4, hdr4_a.
  rewrite !u8_mod. rewrite (shiftr_div pid 8) by lia. rewrite land_31, land_15.
  change (2 ^ 8) with 256.
  conseq; [reflexivity |]. conseq; [| conseq; [reflexivity |]; conseq; [| reflexivity]].
  - destruct first.
    + change 64 with (1 * 2 ^ 6). rewrite lor_add' by lia. lia.
    + rewrite Z.lor_0_r. lia.
  - assert (E : Z.lor 16 (cc mod 16) = 16 + cc mod 16).
    { change 16 with (1 * 2 ^ 4) at 1. rewrite lor_add by lia. lia. }
    rewrite E.
    replace ((16 + cc mod 16) mod 256) with (16 + cc mod 16) by lia.
    destruct adapt.
    + change 32 with (1 * 2 ^ 5). rewrite lor_add' by lia. lia.
    + rewrite Z.lor_0_r. lia.
Qed.

(* ---- PTS / DTS ---- *)
Definition enc15_a (v : Z) : bytes := [(2 * v + 1) / 256; (2 * v + 1) mod 256].

Lemma enc15_arith v : 0 <= v < 32768 -> enc15 v = enc15_a v.
Proof.
  intros Hv. unfold enc15, enc15_a.
  rewrite (shiftl_mul v 1) by lia.
  rewrite lor_add by lia. change (2 ^ 1) with 2.
  rewrite (shiftr_div _ 8) by lia. rewrite !u8_mod. change (2 ^ 8) with 256.
  conseq; [lia |]. conseq; [lia | reflexivity].
Qed.

Definition pts5 (fb p : Z) : bytes :=
  (fb * 16 + ((p / 1073741824) mod 8) * 2 + 1)
  :: enc15_a ((p / 32768) mod 32768) ++ enc15_a (p mod 32768).

Lemma write_pts_arith fb p : 0 <= fb < 16 -> write_pts fb p = pts5 fb p.
Proof.
  intros Hf. unfold write_pts, pts5.
  rewrite (shiftr_div p 30) by lia. rewrite (shiftr_div p 15) by lia.
  rewrite land_7, !land_32767.
  change (2 ^ 30) with 1073741824. change (2 ^ 15) with 32768.
  rewrite !enc15_arith by lia.
  conseq; [| reflexivity].
  rewrite (shiftl_mul fb 4) by lia. rewrite (shiftl_mul _ 1) by lia.
  set (a := (p / 1073741824) mod 8).
  assert (Ha : 0 <= a < 8) by (subst a; lia).
  rewrite (lor_add fb (a * 2 ^ 1) 4) by lia.
  replace (fb * 2 ^ 4 + a * 2 ^ 1) with ((fb * 8 + a) * 2 ^ 1) by lia.
  rewrite lor_add by lia. rewrite u8_mod. lia.
Qed.

Lemma pts5_decode fb p : 1 <= fb <= 3 -> ts33_decode fb (pts5 fb p) = Some (p mod M33).
Proof.
  intros Hf. unfold pts5, enc15_a, ts33_decode, M33. cbn [app].
  set (a := (p / 1073741824) mod 8).
  set (b := (p / 32768) mod 32768).
  set (c := p mod 32768).
  assert (Ha : 0 <= a < 8) by (subst a; lia).
  assert (Hb : 0 <= b < 32768) by (subst b; lia).
  assert (Hc : 0 <= c < 32768) by (subst c; lia).
  assert (Hsum : a * 1073741824 + b * 32768 + c = p mod 8589934592) by (subst a b c; lia).
  clearbody a b c.
  replace ((fb * 16 + a * 2 + 1) / 16 =? fb) with true by lia.
  replace ((fb * 16 + a * 2 + 1) mod 2 =? 1) with true by lia.
  replace ((2 * b + 1) mod 256 mod 2 =? 1) with true by lia.
  replace ((2 * c + 1) mod 256 mod 2 =? 1) with true by lia.
  cbn [andb]. f_equal. rewrite <- Hsum.
  replace ((fb * 16 + a * 2 + 1) / 2 mod 8) with a by lia.
  replace (((2 * b + 1) / 256 * 256 + (2 * b + 1) mod 256) / 2) with b by lia.
  replace (((2 * c + 1) / 256 * 256 + (2 * c + 1) mod 256) / 2) with c by lia.
  reflexivity.
Qed.

Lemma pts5_length fb p : length (pts5 fb p) = 5%nat.
Proof. reflexivity. Qed.

(* ---- PCR ---- *)
Definition pcr6 (v : Z) : bytes :=
  [(v / 33554432) mod 256; (v / 131072) mod 256; (v / 512) mod 256; (v / 2) mod 256;
   (v * 128 + 126) mod 256; 0].

Lemma write_pcr_arith v : write_pcr v = pcr6 v.
Proof.
  unfold write_pcr, pcr6.
  rewrite !shiftr_div by lia. rewrite (shiftl_mul v 7) by lia. rewrite !u8_mod.
  rewrite (lor_add v 126 7) by lia.
  reflexivity.
Qed.

Lemma pcr6_base v : pcr_base (pcr6 v) = v mod M33.
Proof. unfold pcr_base, pcr6, M33. lia. Qed.
Lemma pcr6_ext v : pcr_ext (pcr6 v) = 0.
Proof. unfold pcr_ext, pcr6. lia. Qed.
Lemma pcr6_length v : length (pcr6 v) = 6%nat.
Proof. reflexivity. Qed.

(* ---- list helpers ---- *)
Lemma firstn_app_len {A} (a b : list A) : firstn (length a) (a ++ b) = a.
Proof. induction a; cbn; [destruct b; reflexivity | f_equal; exact IHa]. Qed.
Lemma skipn_app_len {A} (a b : list A) : skipn (length a) (a ++ b) = b.
Proof. induction a; cbn; auto. Qed.
Lemma take_app_exact (a b : bytes) : take (zlen a) (a ++ b) = a.
Proof. unfold take, zlen. rewrite Nat2Z.id. apply firstn_app_len. Qed.
Lemma drop_app_exact' (a b : bytes) : drop (zlen a) (a ++ b) = b.
Proof. unfold drop, zlen. rewrite Nat2Z.id. apply skipn_app_len. Qed.

(* ---- PES header ---- *)
Definition pes_len_field (n hs : Z) : Z := if n + hs + 3 >? 65535 then 0 else n + hs + 3.

Definition pes_hdr_a (f : tsframe) (n : Z) : bytes :=
  if f_dts f =? f_pts f then
    [0; 0; 1; f_sid f mod 256; pes_len_field n 5 / 256; pes_len_field n 5 mod 256; 128; 128; 5]
    ++ pts5 2 (f_pts f)
  else
    [0; 0; 1; f_sid f mod 256; pes_len_field n 10 / 256; pes_len_field n 10 mod 256; 128; 192; 10]
    ++ pts5 3 (f_pts f) ++ pts5 1 (f_dts f).

Lemma pes_header_arith f n : 0 <= n -> pes_header f n = pes_hdr_a f n.
Proof.
  intros Hn. unfold pes_header, pes_hdr_a, pes_len_field.
  destruct (f_dts f =? f_pts f); cbn [negb].
  - rewrite !u8_mod. rewrite (shiftr_div _ 8) by lia.
    change (Z.shiftr 128 6) with 2. rewrite write_pts_arith by lia.
    rewrite app_nil_r. change (2 ^ 8) with 256.
    destruct (n + 5 + 3 >? 65535) eqn:E.
    + reflexivity.
    + do 4 (conseq; [reflexivity |]). conseq; [lia |]. reflexivity.
  - rewrite !u8_mod. rewrite (shiftr_div _ 8) by lia.
    change (Z.shiftr 192 6) with 3. rewrite !write_pts_arith by lia.
    change (2 ^ 8) with 256.
    destruct (n + 10 + 3 >? 65535) eqn:E.
    + reflexivity.
    + do 4 (conseq; [reflexivity |]). conseq; [lia |]. reflexivity.
Qed.

Lemma pes_hdr_a_length f n : 14 <= zlen (pes_hdr_a f n) <= 19.
Proof. unfold pes_hdr_a. destruct (f_dts f =? f_pts f); cbn; lia. Qed.

Definition pes_of (f : tsframe) (data : bytes) : pes :=
  {| p_sid := f_sid f mod 256; p_pts := f_pts f mod M33;
     p_dts := if f_dts f =? f_pts f then None else Some (f_dts f mod M33);
     p_payload := data |}.

Lemma parse_pes_hdr f data :
  parse_pes (pes_hdr_a f (zlen data) ++ data) = Some (pes_of f data).
Proof.
  pose proof (zlen_nonneg data) as Hn.
  unfold pes_hdr_a, pes_of.
  destruct (f_dts f =? f_pts f) eqn:Eq.
  - (* PTS only *)
    set (n := zlen data) in *.
    set (L := pes_len_field n 5).
    assert (HL : 0 <= L <= 65535) by (subst L; unfold pes_len_field; destruct (n + 5 + 3 >? 65535) eqn:E; lia).
    rewrite <- app_assoc. cbn [app]. unfold parse_pes.
    change (0 =? 0) with true. change (1 =? 1) with true. cbn [andb negb].
    change (128 / 64 =? 2) with true. change (128 / 16 mod 4 =? 0) with true.
    change (128 mod 64 =? 0) with true. cbn [andb negb].
    change (zlen (0 :: 0 :: 1 :: f_sid f mod 256 :: L / 256 :: L mod 256 :: 128 :: 128 :: 5 :: pts5 2 (f_pts f) ++ data))
      with (zlen ([0; 0; 1; f_sid f mod 256; L / 256; L mod 256; 128; 128; 5] ++ pts5 2 (f_pts f) ++ data)).
    rewrite !zlen_app. change (zlen (pts5 2 (f_pts f))) with 5.
    change (zlen [0; 0; 1; f_sid f mod 256; L / 256; L mod 256; 128; 128; 5]) with 9.
    fold n.
    assert (Hlen : ((L / 256 * 256 + L mod 256 =? 9 + (5 + n) - 6)
                    || (L / 256 * 256 + L mod 256 =? 0) && ((65535 <? 9 + (5 + n) - 6) || is_video_sid (f_sid f mod 256))) = true).
    { subst L. unfold pes_len_field. destruct (n + 5 + 3 >? 65535) eqn:E.
      - replace (65535 <? 9 + (5 + n) - 6) with true by lia. cbn. apply orb_true_r.
      - replace (_ =? 9 + (5 + n) - 6) with true by lia. reflexivity. }
    rewrite Hlen. cbn [negb].
    replace ((0 <=? 5) && (5 <=? 5 + n)) with true by lia. cbn [negb].
    change (128 / 64 =? 3) with false. change (5 =? 5) with true. cbn [negb].
    change 5 with (zlen (pts5 2 (f_pts f))) at 1 2.
    rewrite take_app_exact, drop_app_exact'.
    rewrite pts5_decode by lia. reflexivity.
  - set (n := zlen data) in *.
    set (L := pes_len_field n 10).
    assert (HL : 0 <= L <= 65535) by (subst L; unfold pes_len_field; destruct (n + 10 + 3 >? 65535) eqn:E; lia).
    rewrite <- !app_assoc. cbn [app]. unfold parse_pes.
    change (0 =? 0) with true. change (1 =? 1) with true. cbn [andb negb].
    change (128 / 64 =? 2) with true. change (128 / 16 mod 4 =? 0) with true.
    change (192 mod 64 =? 0) with true. cbn [andb negb].
    change (zlen (0 :: 0 :: 1 :: f_sid f mod 256 :: L / 256 :: L mod 256 :: 128 :: 192 :: 10 :: pts5 3 (f_pts f) ++ pts5 1 (f_dts f) ++ data))
      with (zlen ([0; 0; 1; f_sid f mod 256; L / 256; L mod 256; 128; 192; 10] ++ (pts5 3 (f_pts f) ++ pts5 1 (f_dts f)) ++ data)).
    rewrite !zlen_app. change (zlen (pts5 3 (f_pts f))) with 5. change (zlen (pts5 1 (f_dts f))) with 5.
    change (zlen [0; 0; 1; f_sid f mod 256; L / 256; L mod 256; 128; 192; 10]) with 9.
    fold n.
    assert (Hlen : ((L / 256 * 256 + L mod 256 =? 9 + (5 + 5 + n) - 6)
                    || (L / 256 * 256 + L mod 256 =? 0) && ((65535 <? 9 + (5 + 5 + n) - 6) || is_video_sid (f_sid f mod 256))) = true).
    { subst L. unfold pes_len_field. destruct (n + 10 + 3 >? 65535) eqn:E.
      - replace (65535 <? 9 + (5 + 5 + n) - 6) with true by lia. cbn. apply orb_true_r.
      - replace (_ =? 9 + (5 + 5 + n) - 6) with true by lia. reflexivity. }
    rewrite Hlen. cbn [negb].
    replace ((0 <=? 10) && (10 <=? 5 + (5 + n))) with true by lia. cbn [negb].
    change (192 / 64 =? 2) with false. change (192 / 64 =? 3) with true. change (10 =? 10) with true. cbn [negb].
    rewrite (app_assoc (pts5 3 (f_pts f))).
    change 10 with (zlen (pts5 3 (f_pts f) ++ pts5 1 (f_dts f))).
    rewrite take_app_exact, drop_app_exact'.
    change 5%nat with (length (pts5 3 (f_pts f))).
    rewrite firstn_app_len, skipn_app_len.
    rewrite !pts5_decode by lia. reflexivity.
Qed.
