(* C06 — the demuxer level: sender reports, presentation times, and the
   oracle theorem C06_model_passes. *)
From Coq Require Import ZArith List Bool Lia ZifyBool.
From V Require Import Val Bytes BytesLemmas C06Rtp C06NalDepack C06H264Depack C06H265Depack C06AacDepack
  C06SyncClock C06Demux C06BaseProofs C06NalProofs C06H26xProofs C06AacProofs.
Import ListNotations.
Open Scope Z_scope.

(* ---- sender report ---- *)
Lemma be32_decode v : 0 <= v < 4294967296 -> be_decode (be32 v) = v.
Proof.
  intros H. unfold be32, be_decode. cbn [be_decode_acc].
  change 255 with (Z.ones 8). rewrite !Z.land_ones by lia. rewrite !Z.shiftr_div_pow2 by lia.
  change (2 ^ 8) with 256. change (2 ^ 24) with 16777216. change (2 ^ 16) with 65536. lia.
Qed.

Lemma u32_range x : u32 x = true -> 0 <= x < 4294967296.
Proof. unfold u32. lia. Qed.

Lemma sr_decode_ok rt msw lsw : u32 rt = true -> sr_decode (sr_bytes rt msw lsw) = CSet rt.
Proof.
  intros H. apply u32_range in H.
  unfold sr_decode.
  assert (ZL : zlen (sr_bytes rt msw lsw) = 28) by reflexivity.
  rewrite ZL. change (28 <? 20) with false. cbv iota.
  assert (I1 : idx (sr_bytes rt msw lsw) 1 = Some 200) by reflexivity. rewrite I1.
  change (200 =? 200) with true. cbv iota.
  destruct (slice_some (sr_bytes rt msw lsw) 8 12) as [x1 ->]; try lia.
  destruct (slice_some (sr_bytes rt msw lsw) 12 16) as [x2 ->]; try lia.
  assert (S3 : slice (sr_bytes rt msw lsw) 16 20 = Some (be32 rt)).
  { change (sr_bytes rt msw lsw) with (([128; 200; 0; 6] ++ be32 SSRC ++ be32 msw ++ be32 lsw) ++ be32 rt ++ (be32 0 ++ be32 0)).
    change 16 with (zlen ([128; 200; 0; 6] ++ be32 SSRC ++ be32 msw ++ be32 lsw)) at 1.
    change 20 with (zlen ([128; 200; 0; 6] ++ be32 SSRC ++ be32 msw ++ be32 lsw) + zlen (be32 rt)).
    apply slice_mid. }
  rewrite S3. rewrite be32_decode by lia. reflexivity.
Qed.

(* ---- running one medium ---- *)
Fixpoint mrun (c : cd) (g : gst) (ps : list packet) : gst * list uframe * bool :=
  match ps with
  | [] => (g, [], false)
  | p :: r =>
      match media_step c g p with
      | (g', RPanic) => (g', [], true)
      | (g', rr) => let '(g'', fs, pn) := mrun c g' r in (g'', res_frames rr ++ fs, pn)
      end
  end.

Lemma mrun_264 g ps : mrun CH264 g ps = grun c264 g ps.
Proof. revert g; induction ps as [|p r IH]; intros g; simpl; auto. destruct (gstep c264 g p) as [g' [fs|fs|]]; rewrite ?IH; reflexivity. Qed.
Lemma mrun_265 g ps : mrun CH265 g ps = grun c265 g ps.
Proof. revert g; induction ps as [|p r IH]; intros g; simpl; auto. destruct (gstep c265 g p) as [g' [fs|fs|]]; rewrite ?IH; reflexivity. Qed.
Lemma mrun_aac g ps : mrun CAAC g ps = (g, fst (aac_run ps), snd (aac_run ps)).
Proof.
  revert g; induction ps as [|p r IH]; intros g; simpl; auto.
  destruct (aac_step p) as [fs|fs|]; simpl; try reflexivity; rewrite IH; destruct (aac_run r); reflexivity.
Qed.

Lemma drun_data c clock base : forall ps g g' fs pn,
  mrun c g ps = (g', fs, pn) ->
  drun c clock (mkD g base) (map EData ps) = (mkD g' base, map (to_oframe c clock base) fs, pn).
Proof.
  induction ps as [|p r IH]; intros g g' fs pn H; simpl in *.
  - injection H as <- <- <-. reflexivity.
  - destruct (media_step c g p) as [g1 r1]. destruct r1 as [f1|f1|]; simpl.
    + destruct (mrun c g1 r) as [[g2 f2] p2] eqn:E. injection H as <- <- <-.
      rewrite (IH _ _ _ _ E). rewrite map_app. reflexivity.
    + destruct (mrun c g1 r) as [[g2 f2] p2] eqn:E. injection H as <- <- <-.
      rewrite (IH _ _ _ _ E). rewrite map_app. reflexivity.
    + injection H as <- <- <-. reflexivity.
Qed.

Lemma drun_app c clock a : forall st b st1 f1,
  drun c clock st a = (st1, f1, false) ->
  drun c clock st (a ++ b) = let '(st2, f2, pn) := drun c clock st1 b in (st2, f1 ++ f2, pn).
Proof.
  induction a as [|e a IH]; intros st b st1 f1 H; simpl in *.
  - injection H as <- <-. destruct (drun c clock st b) as [[? ?] ?]. reflexivity.
  - destruct (dstep c clock st e) as [[st' fs] [|]]; [discriminate|].
    destruct (drun c clock st' a) as [[st2 f2] pn] eqn:E. injection H as <- <- ->.
    rewrite (IH _ b _ _ E). destruct (drun c clock st2 b) as [[? ?] ?]. rewrite app_assoc. reflexivity.
Qed.

Lemma select_map {A B} (f : A -> B) (m : list bool) (l : list A) : select m (map f l) = map f (select m l).
Proof. revert l; induction m as [|b m IH]; intros [|x l]; simpl; auto. destruct b; simpl; rewrite IH; reflexivity. Qed.

(* ---- timestamps without wrap ---- *)
Lemma ts32_small t : 0 <= t < 4294967296 -> ts32 t = t.
Proof. intros H. unfold ts32. apply Z.mod_small. lia. Qed.

Lemma aac_frames_nowrap : forall aus t, 0 <= t -> t + 1024 * Z.of_nat (length aus) < 4294967296 ->
  aac_frames_from t aus = aac_true_frames t aus.
Proof.
  induction aus as [|au r IH]; intros t T0 TB; [reflexivity|].
  simpl length in TB. simpl. f_equal. rewrite ts32_small by lia. apply IH; lia.
Qed.

Section Top.
Variables (c : cd) (clock seq0 : Z).

Definition inv (st : dst) (k : Z) : Prop :=
  w_ready (g_w (d_g st)) = true /\ stale seq0 (g_frags (d_g st)) k.

Lemma inv_mono st k k' : k <= k' -> inv st k -> inv st k'.
Proof. intros L [R S]. split; auto. eapply stale_mono; eauto. Qed.

(* a data item under a loss mask, at the depacketiser level *)
Lemma data_item_loss k it g mask :
  data_ok c it = true -> no_ts_wrap_item c it = true ->
  w_ready (g_w g) = true -> stale seq0 (g_frags g) k -> 0 <= k ->
  length mask = dnpk c it -> k + Z.of_nat (dnpk c it) <= 65536 ->
  exists g', mrun c g (select mask (data_pkts c seq0 k it))
             = (g', (if all_true mask then true_frames c it else []), false)
             /\ w_ready (g_w g') = true /\ stale seq0 (g_frags g') (k + Z.of_nat (dnpk c it)).
Proof.
  intros OK NW R ST K0 LM B.
  unfold no_ts_wrap_item in NW. apply andb_true_iff in NW as [T0 TB].
  destruct c; simpl data_ok in OK; simpl dnpk in *; simpl data_pkts; simpl true_frames.
  - rewrite mrun_264. destruct g as [F w]. cbn [g_frags g_w] in *.
    destruct (h264_item_loss seq0 k it F w mask OK R ST K0 LM B) as (F' & w' & E & R' & ST').
    rewrite E. exists (mkG F' w'). cbn [g_frags g_w]. repeat split; auto.
    unfold item_frames. rewrite ts32_small by lia. reflexivity.
  - rewrite mrun_265. destruct g as [F w]. cbn [g_frags g_w] in *.
    destruct (h265_item_loss seq0 k it F w mask OK R ST K0 LM B) as (F' & w' & E & R' & ST').
    rewrite E. exists (mkG F' w'). cbn [g_frags g_w]. repeat split; auto.
    unfold item_frames. rewrite ts32_small by lia. unfold keep265. rewrite filter_true. reflexivity.
  - rewrite mrun_aac. destruct mask as [|b [|? ?]]; try discriminate.
    exists g. repeat split; auto; [|eapply stale_mono; [|exact ST]; lia].
    destruct b; cbn [select all_true forallb andb].
    + simpl aac_run. rewrite (aac_step_ok seq0 k it OK). simpl. rewrite app_nil_r.
      unfold aac_item_frames. rewrite ts32_small by lia. unfold aac_units.
      rewrite aac_frames_nowrap by lia. reflexivity.
    + reflexivity.
Qed.

Lemma titem_evs_length k ti : titem_ok c ti = true -> length (titem_evs c seq0 k ti) = tnpk c ti.
Proof.
  destruct ti as [it|rt msw lsw]; simpl; auto. intros _. rewrite map_length.
  destruct c; simpl; auto; apply item_pkts_length.
Qed.

Lemma tadv_nonneg ti : 0 <= tadv c ti.
Proof. destruct ti; simpl; lia. Qed.

Theorem demux_loss_gen : forall items k st mask,
  0 < clock -> forallb (titem_ok c) items = true -> inv st k -> 0 <= k ->
  length mask = total_tpk c items -> k + total_dpk c items <= 65536 ->
  exists st', drun c clock st (select mask (tevents c seq0 k items))
              = (st', tspec c clock (d_base st) items mask, false).
Proof.
  induction items as [|ti r IH]; intros k st mask CK OK [R ST] K0 LM B.
  - simpl. rewrite select_nil_r. exists st. reflexivity.
  - simpl in OK. apply andb_true_iff in OK as [O1 O2].
    simpl total_tpk in LM. simpl total_dpk in B. simpl tevents.
    pose proof (tadv_nonneg ti) as AN.
    assert (DN : 0 <= total_dpk c r).
    { clear. induction r as [|t r IH]; simpl; [lia|]. pose proof (tadv_nonneg t). lia. }
    rewrite (select_split (tnpk c ti)); [|apply titem_evs_length; auto|lia].
    destruct ti as [it|rt msw lsw].
    + simpl in O1. apply andb_true_iff in O1 as [OD NW].
      simpl titem_evs. simpl tnpk in *. simpl tadv in *. rewrite select_map.
      destruct st as [g base]. cbn [d_g d_base] in *.
      destruct (data_item_loss k it g (firstn (dnpk c it) mask) OD NW R ST K0) as (g' & E & R' & ST').
      { rewrite firstn_length. lia. } { lia. }
      pose proof (drun_data c clock base _ _ _ _ _ E) as E1.
      destruct (IH (k + Z.of_nat (dnpk c it)) (mkD g' base) (skipn (dnpk c it) mask)) as [st2 E2]; auto.
      { split; auto. } { lia. } { rewrite skipn_length. lia. } { lia. }
      rewrite (drun_app _ _ _ _ _ _ _ E1), E2. exists st2. cbn [d_base tspec].
      destruct (all_true (firstn (dnpk c it) mask)); reflexivity.
    + simpl in O1. apply andb_true_iff in O1 as [O1 _]. apply andb_true_iff in O1 as [Urt _].
      simpl titem_evs. simpl tnpk in *. simpl tadv in *.
      destruct mask as [|b m]; [simpl in LM; lia|]. cbn [firstn skipn].
      cbn [tspec firstn skipn].
      destruct b; cbn [select all_true forallb andb].
      * destruct (d_base st =? 0) eqn:B0.
        -- assert (E1 : drun c clock st [ESr (sr_bytes rt msw lsw)] = (mkD (d_g st) rt, [], false)).
           { cbn [drun dstep]. rewrite B0, (sr_decode_ok rt msw lsw Urt). reflexivity. }
           destruct (IH (k + 0) (mkD (d_g st) rt) m) as [st2 E2]; auto;
             try lia; try (simpl in LM; lia); try (split; cbn [d_g]; auto; replace (k + 0) with k by lia; auto).
           rewrite (drun_app _ _ _ _ _ _ _ E1), E2. exists st2. reflexivity.
        -- assert (E1 : drun c clock st [ESr (sr_bytes rt msw lsw)] = (st, [], false)).
           { cbn [drun dstep]. rewrite B0. reflexivity. }
           destruct (IH (k + 0) st m) as [st2 E2]; auto;
             try lia; try (simpl in LM; lia); try (split; cbn [d_g]; auto; replace (k + 0) with k by lia; auto).
           rewrite (drun_app _ _ _ _ _ _ _ E1), E2. exists st2. reflexivity.
      * destruct (IH (k + 0) st m) as [st2 E2]; auto;
          try lia; try (simpl in LM; lia); try (split; cbn [d_g]; auto; replace (k + 0) with k by lia; auto).
        simpl app. rewrite E2. exists st2. reflexivity.
Qed.

End Top.

Lemma oframe_eqb_refl o : oframe_eqb o o = true.
Proof. unfold oframe_eqb. rewrite !Z.eqb_refl, bytes_eqb_refl. reflexivity. Qed.
Lemma list_eqb_refl {A} (e : A -> A -> bool) (l : list A) : (forall x, e x x = true) -> list_eqb e l l = true.
Proof. intros H. induction l; simpl; auto. rewrite H, IHl. reflexivity. Qed.

Lemma oframe_eqb_eq a b : oframe_eqb a b = true -> a = b.
Proof.
  unfold oframe_eqb. intros H. apply andb_true_iff in H as [H H3]. apply andb_true_iff in H as [H1 H2].
  apply Z.eqb_eq in H1, H2. apply bytes_eqb_eq in H3. destruct a, b; simpl in *; congruence.
Qed.
Lemma list_eqb_eq {A} (e : A -> A -> bool) : (forall x y, e x y = true -> x = y) ->
  forall a b, list_eqb e a b = true -> a = b.
Proof.
  intros H. induction a as [|x a IH]; intros [|y b] E; simpl in E; try discriminate; auto.
  apply andb_true_iff in E as [E1 E2]. f_equal; auto.
Qed.

(* the run from the initial state under a loss mask *)
Theorem demux_loss c clock seq0 items mask :
  case_wf c clock seq0 items mask = true ->
  exists st', drun c clock dst_init (select mask (tevents c seq0 0 items))
              = (st', tspec c clock 0 items mask, false).
Proof.
  unfold case_wf. intros H.
  apply andb_true_iff in H as [H _].
  apply andb_true_iff in H as [H HB]. apply andb_true_iff in H as [H HL]. apply andb_true_iff in H as [H HO].
  apply andb_true_iff in H as [H _]. apply andb_true_iff in H as [HC _].
  apply Nat.eqb_eq in HL.
  apply (demux_loss_gen c clock seq0 items 0 dst_init mask); auto; try lia.
  split; [reflexivity | left; reflexivity].
Qed.

(* with every sender report ahead of the media there is one clock base *)
Lemma tspec_no_sr c clock : forall items b mask, sr_before_data true items = true ->
  tspec c clock b items mask = tspec_fixed c clock b items mask /\ final_base c b items mask = b.
Proof.
  induction items as [|[it|rt msw lsw] r IH]; intros b mask H;
    cbn [tspec tspec_fixed final_base sr_before_data negb andb] in *; auto.
  - destruct (IH b (skipn (dnpk c it) mask) H) as [-> ->]. auto.
  - discriminate.
Qed.

Lemma tspec_is_one c clock : forall items b mask, sr_before_data false items = true ->
  tspec c clock b items mask = tspec_fixed c clock (final_base c b items mask) items mask.
Proof.
  induction items as [|[it|rt msw lsw] r IH]; intros b mask H;
    cbn [tspec tspec_fixed final_base sr_before_data negb andb] in *; auto.
  destruct (tspec_no_sr c clock r b (skipn (dnpk c it) mask) H) as [-> ->]. reflexivity.
Qed.

(* the oracle accepts the model on every well-formed case *)
Theorem model_passes_loss c clock seq0 items mask :
  case_wf c clock seq0 items mask = true ->
  let '(_, fs, pn) := drun c clock dst_init (select mask (tevents c seq0 0 items)) in
  ok_loss c clock items mask fs pn = true.
Proof.
  intros H. destruct (demux_loss c clock seq0 items mask H) as [st' E]. rewrite E.
  unfold ok_loss, tspec_one. simpl negb. simpl andb.
  assert (SB : sr_before_data false items = true).
  { unfold case_wf in H. apply andb_true_iff in H as [_ H]. exact H. }
  rewrite <- (tspec_is_one c clock items 0 mask SB). apply list_eqb_refl. apply oframe_eqb_refl.
Qed.
