(* C15 — AudioSpecificConfig: the Go decoder on the bits the standard's encoder writes. *)
From Coq Require Import ZArith List Bool Lia ZifyBool.
From V Require Import C15BitFmt C15Asc C15BitFmtProofs.
Import ListNotations.
Open Scope Z_scope.

Lemma read5 : forall v r, 0 <= v < 32 -> go_read 5 8 (ubits 5 v ++ r) = Some (v, r).
Proof. intros. apply (go_read_ubits 5 8 v r); lia. Qed.
Lemma read6 : forall v r, 0 <= v < 64 -> go_read 6 8 (ubits 6 v ++ r) = Some (v, r).
Proof. intros. apply (go_read_ubits 6 8 v r); lia. Qed.
Lemma read4 : forall v r, 0 <= v < 16 -> go_read 4 8 (ubits 4 v ++ r) = Some (v, r).
Proof. intros. apply (go_read_ubits 4 8 v r); lia. Qed.
Lemma read24 : forall v r, 0 <= v < 2 ^ 24 -> go_read 24 64 (ubits 24 v ++ r) = Some (v, r).
Proof. intros. apply (go_read_ubits 24 64 v r); lia. Qed.
Lemma read11 : forall v r, 0 <= v < 2048 -> go_read 11 32 (ubits 11 v ++ r) = Some (v, r).
Proof. intros. apply (go_read_ubits 11 32 v r); lia. Qed.

Lemma get_aot_bits : forall v r,
  (0 <= v < 31 \/ 32 <= v < 96) -> go_get_aot (aot_bits v ++ r) = Some (v, r).
Proof.
  intros v r H. unfold go_get_aot, aot_bits.
  destruct (v <? 31) eqn:E.
  - rewrite read5 by lia. replace (v =? 31) with false by lia. reflexivity.
  - rewrite <- app_assoc. rewrite read5 by lia. cbn [Z.eqb Pos.eqb].
    rewrite read6 by lia. f_equal. f_equal. rewrite Z.mod_small; lia.
Qed.

Lemma get_rate_bits : forall i f r,
  0 <= i <= 15 -> 0 <= f < 2 ^ 24 ->
  go_get_rate (rate_bits i f ++ r) = Some (i, rate_of i f, r).
Proof.
  intros i f r Hi Hf. unfold go_get_rate, rate_bits, rate_of. rewrite <- app_assoc.
  rewrite read4 by lia. destruct (i =? 15) eqn:E.
  - rewrite read24 by lia. reflexivity.
  - reflexivity.
Qed.

Lemma rate_of_pos : forall i f, sfi_ok i = true -> 0 < f -> 0 < rate_of i f.
Proof.
  intros i f H Hf. unfold rate_of, sfi_ok in *. destruct (i =? 15) eqn:E; auto.
  assert (Hi : 0 <= i <= 12) by lia. unfold sample_rate_table.
  assert (C : i = 0 \/ i = 1 \/ i = 2 \/ i = 3 \/ i = 4 \/ i = 5 \/ i = 6 \/ i = 7 \/ i = 8 \/
              i = 9 \/ i = 10 \/ i = 11 \/ i = 12) by lia.
  repeat (destruct C as [-> | C]; [vm_compute; reflexivity|]). subst. vm_compute. reflexivity.
Qed.

Lemma bits_left_app : forall a b, bits_left (a ++ b) = Z.of_nat (length a) + bits_left b.
Proof. intros. unfold bits_left. rewrite app_length. lia. Qed.

(* AOT 29: the hierarchical branch is taken *)
Lemma ps_take_bit3 : forall x0 x1 x2 y4 y5 y6 y7 y8 r,
  ps_take_fixed (x0 :: x1 :: x2 :: true :: y4 :: y5 :: y6 :: y7 :: y8 :: r) = Some true.
Proof. intros. destruct x0, x1, x2, y4, y5, y6, y7, y8; reflexivity. Qed.

Lemma ps_take_aot : forall x0 x1 x2 x3 y4 y5 y6 y7 y8 r,
  y4 || y5 || y6 || y7 || y8 = true ->
  ps_take_fixed (x0 :: x1 :: x2 :: x3 :: y4 :: y5 :: y6 :: y7 :: y8 :: r) = Some true.
Proof. intros. destruct x0, x1, x2, x3, y4, y5, y6, y7, y8; try discriminate; reflexivity. Qed.

Lemma ubits_S : forall n f, exists b f', ubits (S n) f = b :: ubits n f'.
Proof.
  intros. cbn [ubits]. destruct (2 ^ Z.of_nat n <=? f); eauto.
Qed.

Lemma ubits24_cons : forall f, exists y4 y5 y6 y7 y8 t, ubits 24 f = y4 :: y5 :: y6 :: y7 :: y8 :: t.
Proof.
  intros f.
  destruct (ubits_S 23 f) as [y4 [f1 H1]]. destruct (ubits_S 22 f1) as [y5 [f2 H2]].
  destruct (ubits_S 21 f2) as [y6 [f3 H3]]. destruct (ubits_S 20 f3) as [y7 [f4 H4]].
  destruct (ubits_S 19 f4) as [y8 [f5 H5]].
  exists y4, y5, y6, y7, y8, (ubits 19 f5). rewrite H1, H2, H3, H4, H5. reflexivity.
Qed.

Lemma ps_take_hier : forall esfi esf aot r,
  sfi_ok esfi = true -> is_ga aot = true ->
  ps_take_fixed (rate_bits esfi esf ++ aot_bits aot ++ r) = Some true.
Proof.
  intros esfi esf aot r Hs Ha. unfold sfi_ok, is_ga in *.
  assert (Ca : aot = 1 \/ aot = 2 \/ aot = 3 \/ aot = 4) by lia.
  destruct (esfi =? 15) eqn:E.
  - assert (esfi = 15) by lia. subst esfi. unfold rate_bits. cbn [Z.eqb Pos.eqb].
    destruct (ubits24_cons esf) as [y4 [y5 [y6 [y7 [y8 [t Ht]]]]]]. rewrite Ht.
    change (ubits 4 15) with [true; true; true; true]. cbn [app].
    apply ps_take_bit3.
  - assert (Cs : esfi = 0 \/ esfi = 1 \/ esfi = 2 \/ esfi = 3 \/ esfi = 4 \/ esfi = 5 \/ esfi = 6 \/
                 esfi = 7 \/ esfi = 8 \/ esfi = 9 \/ esfi = 10 \/ esfi = 11 \/ esfi = 12) by lia.
    unfold rate_bits. rewrite E. rewrite app_nil_r.
    repeat (destruct Cs as [-> | Cs]);  subst;
    repeat (destruct Ca as [-> | Ca]); subst;
    (apply ps_take_aot; reflexivity).
Qed.

(* ---------------------------------------------------------------- the sync-extension scan *)
Lemma scan_skip : forall sr e x bs,
  15 < bits_left (x :: bs) ->
  match go_peek 11 (x :: bs) with Some w => negb (w =? 695) | None => false end = true ->
  go_scan sr e (x :: bs) = go_scan sr e bs.
Proof.
  intros sr e x bs H1 H2. cbn [go_scan].
  replace (15 <? bits_left (x :: bs)) with true by lia.
  destruct (go_peek 11 (x :: bs)) as [w|]; try discriminate.
  destruct (w =? 695); try discriminate. reflexivity.
Qed.

Lemma scan_hit : forall sr e x bs r,
  15 < bits_left (x :: bs) ->
  go_peek 11 (x :: bs) = Some 695 -> go_skip 11 (x :: bs) = Some r ->
  go_scan sr e (x :: bs) = go_sync_ext sr e r.
Proof.
  intros sr e x bs r H1 H2 H3. cbn [go_scan].
  replace (15 <? bits_left (x :: bs)) with true by lia.
  rewrite H2. cbn [Z.eqb Pos.eqb]. rewrite H3. reflexivity.
Qed.

Lemma scan_short : forall sr e bs, bits_left bs <= 15 -> go_scan sr e bs = Some e.
Proof.
  intros sr e bs H. destruct bs; cbn [go_scan];
  match goal with |- context [15 <? ?x] => replace (15 <? x) with false by lia end; reflexivity.
Qed.

Definition SYNC : bits := [false; true; false; true; false; true; true; false; true; true; true].

Lemma bl_cons : forall (x : bool) bs, bits_left (x :: bs) = 1 + bits_left bs.
Proof. intros. unfold bits_left. cbn [length]. lia. Qed.

Lemma scan_ga : forall f R sr, 5 <= bits_left R ->
  go_scan sr 0 (f :: false :: false :: SYNC ++ R) = go_sync_ext sr 0 R.
Proof.
  intros f R sr H. unfold SYNC. cbn [app].
  assert (0 <= bits_left R) by (unfold bits_left; lia).
  rewrite scan_skip; [| rewrite !bl_cons; lia | destruct f; vm_compute; reflexivity].
  rewrite scan_skip; [| rewrite !bl_cons; lia | vm_compute; reflexivity].
  rewrite scan_skip; [| rewrite !bl_cons; lia | vm_compute; reflexivity].
  apply scan_hit; [rewrite !bl_cons; lia | vm_compute; reflexivity | vm_compute; reflexivity].
Qed.

Lemma scan_layer : forall R sr, 5 <= bits_left R ->
  go_scan sr 0 (false :: SYNC ++ R) = go_sync_ext sr 0 R.
Proof.
  intros R sr H. unfold SYNC. cbn [app].
  rewrite scan_skip; [| rewrite !bl_cons; lia | vm_compute; reflexivity].
  apply scan_hit; [rewrite !bl_cons; lia | vm_compute; reflexivity | vm_compute; reflexivity].
Qed.

(* after the sync word: extension AOT 5, sbr flag, extension rate, optional PS word *)
Lemma sync_ext_bits : forall sr sbr esfi esf pss psf P,
  flag_ok sbr = true -> sfi_ok esfi = true -> 0 <= esf < 2 ^ 24 ->
  flag_ok pss = true -> bits_left P < 8 ->
  go_sync_ext sr 0
    (aot_bits 5 ++ bit_of sbr ::
     (if sbr =? 1
      then rate_bits esfi esf ++ (if pss =? 1 then ubits 11 1352 ++ [bit_of psf] else [])
      else []) ++ P)
  = Some (if sbr =? 1 then rate_of esfi esf else 0).
Proof.
  intros sr sbr esfi esf pss psf P Hs He Hf Hp HP. unfold go_sync_ext.
  assert (0 <= bits_left P) by (unfold bits_left; lia).
  rewrite get_aot_bits by lia. cbn [Z.eqb Pos.eqb app].
  unfold flag_ok, sfi_ok in *.
  destruct (sbr =? 1) eqn:S1.
  - assert (sbr = 1) by lia. subst sbr. change (bit_of 1) with true.
    change (go_read 1 8 (true :: ?x)) with (Some (1, x)).
    replace (go_read 1 8 (true :: (rate_bits esfi esf ++ (if pss =? 1 then ubits 11 1352 ++ [bit_of psf] else [])) ++ P))
      with (Some (1, (rate_bits esfi esf ++ (if pss =? 1 then ubits 11 1352 ++ [bit_of psf] else [])) ++ P))
      by reflexivity.
    cbn [Z.eqb Pos.eqb]. rewrite <- app_assoc. rewrite get_rate_bits by lia.
    destruct (pss =? 1) eqn:P1.
    + rewrite <- app_assoc. rewrite bits_left_app. rewrite ubits_length.
      replace (11 <? Z.of_nat 11 + bits_left ([bit_of psf] ++ P)) with true
        by (rewrite bits_left_app; cbn [length]; lia).
      rewrite read11 by lia. cbn [Z.eqb Pos.eqb app].
      destruct (bit_of psf); reflexivity.
    + cbn [app]. replace (11 <? bits_left P) with false by lia. reflexivity.
  - assert (sbr = 0) by lia. subst sbr. change (bit_of 0) with false. cbn [app].
    replace (go_read 1 8 (false :: P)) with (Some (0, P)) by reflexivity.
    cbn [Z.eqb]. replace (11 <? bits_left P) with false by lia. reflexivity.
Qed.

Lemma sync_is : ubits 11 695 = SYNC.
Proof. reflexivity. Qed.

Lemma channels_small : forall c, 1 <= c <= 7 -> (c <? 8) = true.
Proof. intros. lia. Qed.

Theorem asc_spec : forall e,
  asc_wf e = true -> go_asc (asc_bytes e) = Some (spec_rate e, spec_channels e).
Proof.
  intros e H. unfold asc_wf in H.
  repeat (apply andb_prop in H; let h := fresh "W" in destruct H as [H h]).
  unfold go_asc, go_asc_with, asc_bytes. rewrite bytes_to_bits_to_bytes. unfold pad8.
  set (P := repeat false _).
  assert (HP : bits_left P < 8).
  { unfold P, bits_left. rewrite repeat_length.
    rewrite Z2Nat.id by (apply Z.mod_pos_bound; lia).
    apply Z.mod_pos_bound. lia. }
  assert (HP0 : 0 <= bits_left P) by (unfold bits_left; lia).
  unfold spec_rate, spec_channels, spec_sbr_explicit.
  unfold asc_bits.
  set (aot := get e ka_aot) in *. set (hier := get e ka_hier) in *.
  set (sfi := get e ka_sfi) in *. set (sf := get e ka_sf) in *.
  set (chan := get e ka_chan) in *. set (flen := get e ka_flen) in *.
  set (esfi := get e ka_ext_sfi) in *. set (esf := get e ka_ext_sf) in *.
  set (sync := get e ka_sync) in *. set (sbr := get e ka_sbr_flag) in *.
  set (pss := get e ka_ps_sync) in *. set (psf := get e ka_ps_flag) in *.
  assert (Hsfi : 0 <= sfi <= 15) by (unfold sfi_ok in *; lia).
  assert (Hesfi : 0 <= esfi <= 15) by (unfold sfi_ok in *; lia).
  assert (Hesr : 0 < rate_of esfi esf) by (apply rate_of_pos; auto; lia).
  assert (Haot : (1 <= aot <= 4) \/ (32 <= aot <= 34 /\ hier = 0)) by (unfold is_ga, is_layer in *; lia).
  destruct (hier =? 0) eqn:H0.
  - (* no hierarchical signalling *)
    cbn [negb orb andb].
    rewrite <- !app_assoc. cbn [app].
    rewrite get_aot_bits by lia.
    rewrite get_rate_bits by lia.
    rewrite read4 by lia.
    rewrite channels_small by lia.
    replace (aot =? 5) with false by lia. replace (aot =? 29) with false by lia.
    replace (aot =? 36) with false by lia.
    destruct (is_ga aot) eqn:G.
    + destruct (sync =? 1) eqn:S1.
      * rewrite sync_is. cbn [app]. rewrite <- !app_assoc.
        rewrite scan_ga.
        2:{ rewrite bits_left_app. unfold aot_bits. cbn [Z.ltb Z.compare Pos.compare Pos.compare_cont].
            rewrite ubits_length. unfold bits_left. lia. }
        cbn [app]. rewrite (sync_ext_bits (rate_of sfi sf) sbr esfi esf pss psf P) by (auto; lia).
        destruct (sbr =? 1) eqn:B1.
        -- replace (0 <? rate_of esfi esf) with true by lia. reflexivity.
        -- cbn [Z.ltb Z.compare]. reflexivity.
      * cbn [app]. rewrite scan_short by (rewrite !bl_cons; lia). reflexivity.
    + destruct (sync =? 1) eqn:S1.
      * rewrite sync_is. cbn [app]. rewrite <- !app_assoc.
        rewrite scan_layer.
        2:{ rewrite bits_left_app. unfold aot_bits. cbn [Z.ltb Z.compare Pos.compare Pos.compare_cont].
            rewrite ubits_length. unfold bits_left. lia. }
        cbn [app]. rewrite (sync_ext_bits (rate_of sfi sf) sbr esfi esf pss psf P) by (auto; lia).
        destruct (sbr =? 1) eqn:B1.
        -- replace (0 <? rate_of esfi esf) with true by lia. reflexivity.
        -- cbn [Z.ltb Z.compare]. reflexivity.
      * cbn [app]. rewrite scan_short by (rewrite !bl_cons; lia). reflexivity.
  - (* hierarchical SBR (outer AOT 5) or PS (outer AOT 29) *)
    cbn [negb orb andb].
    assert (Ga : is_ga aot = true) by (unfold is_ga in *; lia).
    rewrite Ga.
    destruct (hier =? 1) eqn:H1.
    + rewrite <- !app_assoc.
      rewrite get_aot_bits by lia. rewrite get_rate_bits by lia. rewrite read4 by lia.
      rewrite channels_small by lia. cbn [Z.eqb Pos.eqb].
      rewrite get_rate_bits by lia. rewrite get_aot_bits by (unfold is_ga in *; lia).
      replace (aot =? 22) with false by (unfold is_ga in *; lia).
      replace (aot =? 36) with false by (unfold is_ga in *; lia).
      replace (0 <? rate_of esfi esf) with true by lia. reflexivity.
    + rewrite <- !app_assoc.
      rewrite get_aot_bits by lia. rewrite get_rate_bits by lia. rewrite read4 by lia.
      rewrite channels_small by lia. cbn [Z.eqb Pos.eqb].
      rewrite ps_take_hier by auto.
      rewrite get_rate_bits by lia. rewrite get_aot_bits by (unfold is_ga in *; lia).
      replace (aot =? 22) with false by (unfold is_ga in *; lia).
      replace (aot =? 36) with false by (unfold is_ga in *; lia).
      replace (0 <? rate_of esfi esf) with true by lia. reflexivity.
Qed.

Lemma zl_eqb_eq : forall x y, zl_eqb x y = true -> x = y.
Proof.
  induction x; destruct y; cbn; intros H; try discriminate; auto.
  apply andb_prop in H. destruct H as [H1 H2]. f_equal; [lia | auto].
Qed.

Theorem asc_model_passes : forall e data, ok_asc e data (go_asc data) = true.
Proof.
  intros e data. unfold ok_asc.
  destruct (asc_wf e && zl_eqb data (asc_bytes e)) eqn:G; auto.
  apply andb_prop in G. destruct G as [Hw Hd]. apply zl_eqb_eq in Hd. subst data.
  rewrite (asc_spec e Hw). unfold aobs_eqb. rewrite !Z.eqb_refl. reflexivity.
Qed.

(* D36: before the repair a hierarchical PS configuration reported the core rate *)
Definition asc_d36 : env :=
  fold_left (fun a kv => set a (fst kv) (snd kv))
    [(ka_aot, 2); (ka_hier, 2); (ka_sfi, 6); (ka_chan, 1); (ka_ext_sfi, 3); (ka_ext_sf, 1)] env0.
Theorem asc_ps_refuted :
  asc_wf asc_d36 = true /\ spec_rate asc_d36 = 48000 /\
  go_asc_with ps_take_d36 (asc_bytes asc_d36) = Some (24000, 1) /\
  go_asc (asc_bytes asc_d36) = Some (48000, 1).
Proof. vm_compute. repeat split; reflexivity. Qed.
