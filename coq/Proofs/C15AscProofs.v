(* C15 — AudioSpecificConfig: the Go decoder on the bits the standard's encoder writes. *)
From Coq Require Import ZArith List Bool Lia ZifyBool.
From V Require Import C15BitFmt C15Asc C15BitFmtProofs.
Import ListNotations.
Open Scope Z_scope.
Opaque K.

Lemma read5 : forall v r, 0 <= v < 32 -> go_read 5 8 (ubits 5 v ++ r) = Some (v, r).
Proof. intros. apply (go_read_ubits 5 8 v r); lia. Qed.
Lemma read6 : forall v r, 0 <= v < 64 -> go_read 6 8 (ubits 6 v ++ r) = Some (v, r).
Proof. intros. apply (go_read_ubits 6 8 v r); lia. Qed.
Lemma read4 : forall v r, 0 <= v < 16 -> go_read 4 8 (ubits 4 v ++ r) = Some (v, r).
Proof. intros. apply (go_read_ubits 4 8 v r); lia. Qed.
Lemma read24 : forall v r, 0 <= v < 2 ^ 24 -> go_read 24 64 (ubits 24 v ++ r) = Some (v, r).
Proof. intros. apply (go_read_ubits 24 64 v r); lia. Qed.
Lemma read11 : forall v r, 0 <= v < 2048 -> go_read 11 32 (ubits 11 v ++ r) = Some (v, r).
Proof. intros. apply (go_read_ubits 11 32 v r); lia. Qed.

Lemma get_aot_bits : forall v r,
  (0 <= v < 31 \/ 32 <= v < 96) -> go_get_aot (aot_bits v ++ r) = Some (v, r).
Proof.
  intros v r H. unfold go_get_aot, aot_bits.
  destruct (v <? 31) eqn:E.
  - rewrite read5 by lia. replace (v =? 31) with false by lia. reflexivity.
  - rewrite <- app_assoc. rewrite read5 by lia. cbn [Z.eqb Pos.eqb].
    rewrite read6 by lia. f_equal. f_equal. rewrite Z.mod_small; lia.
Qed.

Lemma get_rate_bits : forall i f r,
  0 <= i <= 15 -> 0 <= f < 2 ^ 24 ->
  go_get_rate (rate_bits i f ++ r) = Some (i, rate_of i f, r).
Proof.
  intros i f r Hi Hf. unfold go_get_rate, rate_bits, rate_of. rewrite <- app_assoc.
  rewrite read4 by lia. destruct (i =? 15) eqn:E.
  - rewrite read24 by lia. reflexivity.
  - reflexivity.
Qed.

Lemma rate_of_pos : forall i f, sfi_ok i = true -> 0 < f -> 0 < rate_of i f.
Proof.
  intros i f H Hf. unfold rate_of, sfi_ok in *. destruct (i =? 15) eqn:E; auto.
  assert (Hi : 0 <= i <= 12) by lia. unfold sample_rate_table.
  assert (C : i = 0 \/ i = 1 \/ i = 2 \/ i = 3 \/ i = 4 \/ i = 5 \/ i = 6 \/ i = 7 \/ i = 8 \/
              i = 9 \/ i = 10 \/ i = 11 \/ i = 12) by lia.
  repeat (destruct C as [-> | C]; [vm_compute; reflexivity|]). subst. vm_compute. reflexivity.
Qed.

Lemma bits_left_app : forall a b, bits_left (a ++ b) = Z.of_nat (length a) + bits_left b.
Proof. intros. unfold bits_left. rewrite app_length. lia. Qed.

(* AOT 29: the hierarchical branch is taken *)
Lemma ps_take_bit3 : forall x0 x1 x2 y4 y5 y6 y7 y8 r,
  ps_take_fixed (x0 :: x1 :: x2 :: true :: y4 :: y5 :: y6 :: y7 :: y8 :: r) = Some true.
Proof. intros. destruct x0, x1, x2, y4, y5, y6, y7, y8; reflexivity. Qed.

Lemma ps_take_aot : forall x0 x1 x2 x3 y4 y5 y6 y7 y8 r,
  y4 || y5 || y6 || y7 || y8 = true ->
  ps_take_fixed (x0 :: x1 :: x2 :: x3 :: y4 :: y5 :: y6 :: y7 :: y8 :: r) = Some true.
Proof. intros. destruct x0, x1, x2, x3, y4, y5, y6, y7, y8; try discriminate; reflexivity. Qed.

Lemma ubits_S : forall n f, exists b f', ubits (S n) f = b :: ubits n f'.
Proof.
  intros. cbn [ubits]. destruct (2 ^ Z.of_nat n <=? f); eauto.
Qed.

Lemma ubits24_cons : forall f, exists y4 y5 y6 y7 y8 t, ubits 24 f = y4 :: y5 :: y6 :: y7 :: y8 :: t.
Proof.
  intros f.
  destruct (ubits_S 23 f) as [y4 [f1 H1]]. destruct (ubits_S 22 f1) as [y5 [f2 H2]].
  destruct (ubits_S 21 f2) as [y6 [f3 H3]]. destruct (ubits_S 20 f3) as [y7 [f4 H4]].
  destruct (ubits_S 19 f4) as [y8 [f5 H5]].
  exists y4, y5, y6, y7, y8, (ubits 19 f5). rewrite H1, H2, H3, H4, H5. reflexivity.
Qed.

Lemma ps_take_hier : forall esfi esf aot r,
  sfi_ok esfi = true -> is_ga aot = true ->
  ps_take_fixed (rate_bits esfi esf ++ aot_bits aot ++ r) = Some true.
Proof.
  intros esfi esf aot r Hs Ha. unfold sfi_ok, is_ga in *.
  assert (Ca : aot = 1 \/ aot = 2 \/ aot = 3 \/ aot = 4) by lia.
  destruct (esfi =? 15) eqn:E.
  - assert (esfi = 15) by lia. subst esfi. unfold rate_bits. cbn [Z.eqb Pos.eqb].
    destruct (ubits24_cons esf) as [y4 [y5 [y6 [y7 [y8 [t Ht]]]]]]. rewrite Ht.
    change (ubits 4 15) with [true; true; true; true]. cbn [app].
    apply ps_take_bit3.
  - assert (Cs : esfi = 0 \/ esfi = 1 \/ esfi = 2 \/ esfi = 3 \/ esfi = 4 \/ esfi = 5 \/ esfi = 6 \/
                 esfi = 7 \/ esfi = 8 \/ esfi = 9 \/ esfi = 10 \/ esfi = 11 \/ esfi = 12) by lia.
    unfold rate_bits. rewrite E. rewrite app_nil_r.
    repeat (destruct Cs as [-> | Cs]);  subst;
    repeat (destruct Ca as [-> | Ca]); subst;
    (apply ps_take_aot; reflexivity).
Qed.

(* ---------------------------------------------------------------- the sync-extension scan *)
Lemma scan_skip : forall sr e x bs,
  15 < bits_left (x :: bs) ->
  match go_peek 11 (x :: bs) with Some w => negb (w =? 695) | None => false end = true ->
  go_scan sr e (x :: bs) = go_scan sr e bs.
Proof.
  intros sr e x bs H1 H2. cbn [go_scan].
  replace (15 <? bits_left (x :: bs)) with true by lia.
  destruct (go_peek 11 (x :: bs)) as [w|]; try discriminate.
  destruct (w =? 695); try discriminate. reflexivity.
Qed.

Lemma scan_hit : forall sr e x bs r,
  15 < bits_left (x :: bs) ->
  go_peek 11 (x :: bs) = Some 695 -> go_skip 11 (x :: bs) = Some r ->
  go_scan sr e (x :: bs) = go_sync_ext sr e r.
Proof.
  intros sr e x bs r H1 H2 H3. cbn [go_scan].
  replace (15 <? bits_left (x :: bs)) with true by lia.
  rewrite H2. cbn [Z.eqb Pos.eqb]. rewrite H3. reflexivity.
Qed.

Lemma scan_short : forall sr e bs, bits_left bs <= 15 -> go_scan sr e bs = Some e.
Proof.
  intros sr e bs H. destruct bs; cbn [go_scan];
  match goal with |- context [15 <? ?x] => replace (15 <? x) with false by lia end; reflexivity.
Qed.

Lemma bl_cons : forall (x : bool) bs, bits_left (x :: bs) = 1 + bits_left bs.
Proof. intros. unfold bits_left. cbn [length]. lia. Qed.

Lemma read_u_app : forall n A R v r,
  read_u n A = Some (v, r) -> read_u n (A ++ R) = Some (v, r ++ R).
Proof.
  induction n; intros A R v r H; cbn [read_u] in *.
  - inversion H; subst. reflexivity.
  - destruct A as [|x A]; try discriminate. cbn [app].
    destruct (read_u n A) as [[v' r']|] eqn:E; try discriminate.
    rewrite (IHn _ R _ _ E). inversion H; subst. reflexivity.
Qed.

Lemma peek11_app : forall A R w, go_peek 11 A = Some w -> go_peek 11 (A ++ R) = Some w.
Proof.
  unfold go_peek, go_read. cbn [Z.leb Z.compare Z.ltb orb]. intros A R w H.
  destruct (read_u (Z.to_nat 11) A) as [[v r]|] eqn:E; try discriminate.
  rewrite (read_u_app _ _ R _ _ E). exact H.
Qed.

(* the scan walks over unread bits that do not spell the sync word and stops at the real one *)
Lemma scan_payload : forall p R sr, 5 <= bits_left R -> clean p = true ->
  go_scan sr 0 (p ++ SYNC ++ R) = go_sync_ext sr 0 R.
Proof.
  induction p as [|x q IH]; intros R sr HR Hc.
  - unfold SYNC. cbn [app].
    apply scan_hit; [rewrite !bl_cons; lia | vm_compute; reflexivity | vm_compute; reflexivity].
  - cbn [clean] in Hc. apply andb_prop in Hc. destruct Hc as [Hw Hq].
    change ((x :: q) ++ SYNC ++ R) with (x :: (q ++ SYNC ++ R)).
    rewrite scan_skip.
    + apply IH; auto.
    + rewrite bl_cons, !bits_left_app. unfold SYNC. cbn [length]. lia.
    + destruct (go_peek 11 ((x :: q) ++ SYNC)) as [w|] eqn:E; try discriminate.
      change (x :: q ++ SYNC ++ R) with ((x :: q) ++ SYNC ++ R).
      rewrite app_assoc. rewrite (peek11_app _ R _ E). exact Hw.
Qed.

Lemma scan_nohit : forall bs sr e, scan_hits bs = false -> go_scan sr e bs = Some e.
Proof.
  induction bs as [|x r IH]; intros sr e H.
  - reflexivity.
  - cbn [scan_hits] in H. cbn [go_scan].
    destruct (15 <? bits_left (x :: r)); auto.
    destruct (go_peek 11 (x :: r)) as [w|]; try discriminate.
    destruct (w =? 695); try discriminate. apply IH. exact H.
Qed.

(* after the sync word: extension AOT 5, sbr flag, extension rate, optional PS word *)
Lemma sync_ext_bits : forall sr sbr esfi esf pss psf P,
  flag_ok sbr = true -> sfi_ok esfi = true -> 0 <= esf < 2 ^ 24 ->
  flag_ok pss = true -> bits_left P < 8 ->
  go_sync_ext sr 0
    (aot_bits 5 ++ bit_of sbr ::
     (if sbr =? 1
      then rate_bits esfi esf ++ (if pss =? 1 then ubits 11 1352 ++ [bit_of psf] else [])
      else []) ++ P)
  = Some (if sbr =? 1 then rate_of esfi esf else 0).
Proof.
  intros sr sbr esfi esf pss psf P Hs He Hf Hp HP. unfold go_sync_ext.
  assert (0 <= bits_left P) by (unfold bits_left; lia).
  rewrite get_aot_bits by lia. cbn [Z.eqb Pos.eqb app].
  unfold flag_ok, sfi_ok in *.
  destruct (sbr =? 1) eqn:S1.
  - assert (sbr = 1) by lia. subst sbr. change (bit_of 1) with true.
    change (go_read 1 8 (true :: ?x)) with (Some (1, x)).
    replace (go_read 1 8 (true :: (rate_bits esfi esf ++ (if pss =? 1 then ubits 11 1352 ++ [bit_of psf] else [])) ++ P))
      with (Some (1, (rate_bits esfi esf ++ (if pss =? 1 then ubits 11 1352 ++ [bit_of psf] else [])) ++ P))
      by reflexivity.
    cbn [Z.eqb Pos.eqb]. rewrite <- app_assoc. rewrite get_rate_bits by lia.
    destruct (pss =? 1) eqn:P1.
    + rewrite <- app_assoc. rewrite bits_left_app. rewrite ubits_length.
      replace (11 <? Z.of_nat 11 + bits_left ([bit_of psf] ++ P)) with true
        by (rewrite bits_left_app; cbn [length]; lia).
      rewrite read11 by lia. cbn [Z.eqb Pos.eqb app].
      destruct (bit_of psf); reflexivity.
    + cbn [app]. replace (11 <? bits_left P) with false by lia. reflexivity.
  - assert (sbr = 0) by lia. subst sbr. change (bit_of 0) with false. cbn [app].
    replace (go_read 1 8 (false :: P)) with (Some (0, P)) by reflexivity.
    cbn [Z.eqb]. replace (11 <? bits_left P) with false by lia. reflexivity.
Qed.

Lemma sync_is : ubits 11 695 = SYNC.
Proof. reflexivity. Qed.

Lemma chan_small : forall c, 0 <= c <= 7 -> (c <? 8) = true.
Proof. intros. lia. Qed.

Lemma read32 : forall v r, 0 <= v < 2 ^ 32 -> go_read 32 32 (ubits 32 v ++ r) = Some (v, r).
Proof. intros. apply (go_read_ubits 32 32 v r); lia. Qed.
Lemma read32w : forall v r, 0 <= v < 2 ^ 32 -> go_read 32 64 (ubits 32 v ++ r) = Some (v, r).
Proof. intros. apply (go_read_ubits 32 64 v r); lia. Qed.
Lemma read16 : forall v r, 0 <= v < 2 ^ 16 -> go_read 16 64 (ubits 16 v ++ r) = Some (v, r).
Proof. intros. apply (go_read_ubits 16 64 v r); lia. Qed.

(* AOT 36: fillBits, als_id, samp_freq, samples, channels *)
Lemma go_als_bits : forall freq samples ch R,
  0 < freq < 2 ^ 32 -> 0 <= samples < 2 ^ 32 -> 0 <= ch < 2 ^ 16 ->
  go_als (ubits 5 0 ++ ubits 32 ALS_ID ++ ubits 32 freq ++ ubits 32 samples ++ ubits 16 ch ++ R)
  = Some (freq, (ch + 1) mod 256, R).
Proof.
  intros freq samples ch R Hf Hs Hc. unfold go_als.
  rewrite (go_skip_ubits 5 0) by lia.
  replace (go_peek 24 (ubits 32 ALS_ID ++ ubits 32 freq ++ ubits 32 samples ++ ubits 16 ch ++ R))
    with (Some ALS_TAG) by (vm_compute; reflexivity).
  rewrite Z.eqb_refl.
  assert (HR : 0 <= bits_left R) by (unfold bits_left; lia).
  replace (bits_left (ubits 32 ALS_ID ++ ubits 32 freq ++ ubits 32 samples ++ ubits 16 ch ++ R) <? 112)
    with false by (rewrite !bits_left_app, !ubits_length; lia).
  rewrite read32 by (unfold ALS_ID; lia).
  change (negb (ALS_ID =? ALS_TAG0)) with false. cbv iota.
  rewrite read32w by lia.
  replace (freq <=? 0) with false by lia.
  rewrite (go_skip_ubits 32 samples) by lia.
  rewrite read16 by lia. reflexivity.
Qed.

Theorem asc_spec : forall e,
  asc_wf e = true -> go_asc (asc_bytes e) = Some (spec_rate e, spec_channels e).
Proof.
  intros e H. unfold asc_wf, asc_wf_gen in H.
  repeat (apply andb_prop in H; let h := fresh "W" in destruct H as [H h]).
  unfold go_asc, go_asc_with, asc_bytes. rewrite bytes_to_bits_to_bytes. unfold pad8.
  fold (asc_pad e).
  assert (HP : bits_left (asc_pad e) < 8).
  { unfold asc_pad, bits_left. rewrite repeat_length.
    rewrite Z2Nat.id by (apply Z.mod_pos_bound; lia).
    apply Z.mod_pos_bound. lia. }
  assert (HP0 : 0 <= bits_left (asc_pad e)) by (unfold bits_left; lia).
  unfold payload_ok in W.
  set (P := asc_pad e) in *. clearbody P.
  unfold spec_rate, spec_channels, spec_sbr_explicit.
  unfold asc_bits, spec_read.
  set (REST := spec_rest e) in *. clearbody REST.
  set (aot := get e ka_aot) in *. set (hier := get e ka_hier) in *.
  set (sfi := get e ka_sfi) in *. set (sf := get e ka_sf) in *.
  set (chan := get e ka_chan) in *.
  set (esfi := get e ka_ext_sfi) in *. set (esf := get e ka_ext_sf) in *.
  set (sync := get e ka_sync) in *. set (sbr := get e ka_sbr_flag) in *.
  set (pss := get e ka_ps_sync) in *. set (psf := get e ka_ps_flag) in *.
  set (afreq := get e ka_als_freq) in *. set (asamp := get e ka_als_samples) in *.
  set (achan := get e ka_als_chan) in *.
  assert (Hsfi : 0 <= sfi <= 15) by (unfold sfi_ok in *; lia).
  assert (Hesfi : 0 <= esfi <= 15) by (unfold sfi_ok in *; lia).
  assert (Hesr : 0 < rate_of esfi esf) by (apply rate_of_pos; auto; lia).
  destruct (hier =? 0) eqn:H0.
  - (* no hierarchical signalling *)
    unfold core_ok in *.
    cbn [negb orb andb].
    rewrite <- !app_assoc. cbn [app].
    rewrite get_aot_bits by lia.
    rewrite get_rate_bits by lia.
    rewrite read4 by lia.
    rewrite chan_small by lia.
    replace (aot =? 5) with false by lia. replace (aot =? 29) with false by lia.
    unfold is_als in *.
    destruct (aot =? 36) eqn:A36.
    + (* ALS *)
      assert (Hs0 : sync = 0) by lia.
      replace (sync =? 1) with false in * by lia. cbn [app].
      rewrite <- !app_assoc.
      rewrite go_als_bits by lia.
      apply negb_true_iff in W. rewrite (scan_nohit _ afreq 0 W).
      cbn [Z.ltb Z.compare]. f_equal. f_equal. rewrite Z.mod_small; lia.
    + cbn [app].
      destruct (sync =? 1) eqn:S1.
      * rewrite sync_is. rewrite <- !app_assoc.
        rewrite scan_payload; auto.
        2:{ rewrite bits_left_app. unfold aot_bits. cbn [Z.ltb Z.compare Pos.compare Pos.compare_cont].
            rewrite ubits_length. unfold bits_left. lia. }
        cbn [app]. rewrite (sync_ext_bits (rate_of sfi sf) sbr esfi esf pss psf P) by (auto; lia).
        destruct (sbr =? 1) eqn:B1.
        -- replace (0 <? rate_of esfi esf) with true by lia. reflexivity.
        -- cbn [Z.ltb Z.compare]. reflexivity.
      * apply negb_true_iff in W. cbn [app]. rewrite (scan_nohit _ (rate_of sfi sf) 0 W).
        reflexivity.
  - (* hierarchical SBR (outer AOT 5) or PS (outer AOT 29) *)
    cbn [negb orb andb].
    assert (Ga : is_ga aot = true) by auto.
    assert (A36 : is_als aot = false) by (unfold is_ga, is_als in *; lia).
    rewrite A36 in *. cbn [app].
    destruct (hier =? 1) eqn:H1.
    + rewrite <- !app_assoc.
      rewrite get_aot_bits by lia. rewrite get_rate_bits by lia. rewrite read4 by lia.
      rewrite chan_small by lia. cbn [Z.eqb Pos.eqb].
      rewrite get_rate_bits by lia. rewrite get_aot_bits by (unfold is_ga in *; lia).
      replace (aot =? 22) with false by (unfold is_ga in *; lia).
      replace (aot =? 36) with false by (unfold is_ga in *; lia).
      replace (0 <? rate_of esfi esf) with true by lia. reflexivity.
    + rewrite <- !app_assoc.
      rewrite get_aot_bits by lia. rewrite get_rate_bits by lia. rewrite read4 by lia.
      rewrite chan_small by lia. cbn [Z.eqb Pos.eqb].
      rewrite ps_take_hier by auto.
      rewrite get_rate_bits by lia. rewrite get_aot_bits by (unfold is_ga in *; lia).
      replace (aot =? 22) with false by (unfold is_ga in *; lia).
      replace (aot =? 36) with false by (unfold is_ga in *; lia).
      replace (0 <? rate_of esfi esf) with true by lia. reflexivity.
Qed.

Lemma zl_eqb_eq : forall x y, zl_eqb x y = true -> x = y.
Proof.
  induction x; destruct y; cbn; intros H; try discriminate; auto.
  apply andb_prop in H. destruct H as [H1 H2]. f_equal; [lia | auto].
Qed.

Theorem asc_model_passes : forall e data, ok_asc e data (go_asc data) = true.
Proof.
  intros e data. unfold ok_asc, ok_asc_gen. fold asc_wf.
  destruct (asc_wf e && zl_eqb data (asc_bytes e)) eqn:G; auto.
  apply andb_prop in G. destruct G as [Hw Hd]. apply zl_eqb_eq in Hd. subst data.
  rewrite (asc_spec e Hw). unfold aobs_eqb. rewrite !Z.eqb_refl. reflexivity.
Qed.

(* D36: before the repair a hierarchical PS configuration reported the core rate *)
Definition asc_d36 : env :=
  fold_left (fun a kv => set a (fst kv) (snd kv))
    [(ka_aot, 2); (ka_hier, 2); (ka_sfi, 6); (ka_chan, 1); (ka_ext_sfi, 3); (ka_ext_sf, 1)] env0.
Theorem asc_ps_refuted :
  asc_wf asc_d36 = true /\ spec_rate asc_d36 = 48000 /\
  go_asc_with ps_take_d36 (asc_bytes asc_d36) = Some (24000, 1) /\
  go_asc (asc_bytes asc_d36) = Some (48000, 1).
Proof. vm_compute. repeat split; reflexivity. Qed.

(* ---------------------------------------------------------------- ALS *)
Definition kv_asc (l : list (Z * Z)) : env := fold_left (fun a kv => set a (fst kv) (snd kv)) l env0.

(* 5.1 ALS at 192 kHz behind sampling index 3: samp_freq and channels + 1 are reported *)
Definition asc_als51 : env :=
  kv_asc [(ka_aot, 36); (ka_sfi, 3); (ka_ext_sfi, 3); (ka_ext_sf, 1); (ka_plen, 128);
          (ka_als_freq, 192000); (ka_als_samples, 65536); (ka_als_chan, 5); (ka_pbit 5, 1)].
Example asc_als_nonvacuous :
  asc_wf asc_als51 = true /\ go_asc (asc_bytes asc_als51) = Some (192000, 6).
Proof. vm_compute. split; reflexivity. Qed.

(* known finding: the count is kept in a uint8 — 256 channels are reported as 0 *)
Definition asc_als256 : env :=
  kv_asc [(ka_aot, 36); (ka_sfi, 3); (ka_ext_sfi, 3); (ka_ext_sf, 1); (ka_plen, 128);
          (ka_als_freq, 48000); (ka_als_samples, 65536); (ka_als_chan, 255)].
Theorem asc_als_wide_refuted :
  asc_wf_gen 65535 asc_als256 = true /\ spec_channels asc_als256 = 256 /\
  go_asc (asc_bytes asc_als256) = Some (48000, 0).
Proof. vm_compute. repeat split; reflexivity. Qed.

(* limit of the scanning heuristic: specific-config bits that spell 0x2b7 + AOT 5 + sbr + rate are
   taken for a sync extension (this is what the guard payload_ok excludes) *)
Definition asc_false_sync : env :=
  kv_asc ([(ka_aot, 23); (ka_sfi, 3); (ka_chan, 2); (ka_ext_sfi, 3); (ka_ext_sf, 1); (ka_plen, 21)] ++
          map (fun i => (ka_pbit i, 1)) [1; 3; 5; 6; 8; 9; 10; 13; 15; 16; 18; 19]).
Theorem asc_false_sync_refuted :
  payload_ok asc_false_sync = false /\ spec_rate asc_false_sync = 48000 /\
  go_asc (asc_bytes asc_false_sync) = Some (24000, 2).
Proof. vm_compute. repeat split; reflexivity. Qed.

(* the guard payload_ok is automatic for the configurations without opaque bits
   (AAC main/LC/SSR/LTP with channelConfiguration 1..7, Layer 1-3) *)
Lemma scan_hits_short : forall bs, bits_left bs <= 15 -> scan_hits bs = false.
Proof.
  intros bs H. destruct bs; cbn [scan_hits];
  match goal with |- context [15 <? ?x] => replace (15 <? x) with false by lia end; reflexivity.
Qed.

Theorem payload_ok_plain : forall e,
  (is_ga (get e ka_aot) && negb (get e ka_chan =? 0)) || is_layer (get e ka_aot) = true ->
  payload_ok e = true.
Proof.
  intros e H. unfold payload_ok.
  assert (HP : bits_left (asc_pad e) < 8).
  { unfold asc_pad, bits_left. rewrite repeat_length.
    rewrite Z2Nat.id by (apply Z.mod_pos_bound; lia).
    apply Z.mod_pos_bound. lia. }
  destruct (get e ka_hier =? 0); auto.
  unfold spec_rest.
  destruct (is_ga (get e ka_aot)) eqn:G.
  - assert (C : (get e ka_chan =? 0) = false).
    { destruct (get e ka_chan =? 0); auto. cbn [negb andb orb] in H.
      unfold is_ga, is_layer in *. lia. }
    rewrite C. cbn [app].
    destruct (get e ka_sync =? 1).
    + destruct (bit_of (get e ka_flen)); vm_compute; reflexivity.
    + rewrite scan_hits_short; auto. rewrite !bl_cons. lia.
  - assert (L : is_layer (get e ka_aot) = true) by (cbn [andb orb] in H; exact H).
    rewrite L.
    destruct (get e ka_sync =? 1).
    + vm_compute. reflexivity.
    + rewrite scan_hits_short; auto. cbn [app]. rewrite !bl_cons. lia.
Qed.
