(* C04 — the model passes [ok_C04x]: drops begin and end only at a key-frame start, read off the
   delivered ids.  Mirrors the proof of the end clause in Proofs/LtsOracleProofs.v. *)
From Coq Require Import ZArith List Bool Arith Lia.
From V Require Import Val StreamLts Cache LtsWire LtsOracle LtsOracleProofs C04Oracle C04RawPkt C04RawPktProofs.
From V Require LtsBacklogProofs LtsFanoutProofs LtsJoinProofs LtsOracleC02Proofs.
Import ListNotations.
Local Open Scope nat_scope.
Local Arguments s_cs {cache_t}.
Local Arguments s_sent {cache_t}.

Lemma gapsb_ok_cons2 : forall pkts ids x y l,
  gapsb_ok pkts ids (x :: y :: l) =
  (if S (posZ x ids) <? posZ y ids
   then (kind_of pkts (nth (S (posZ x ids)) ids 0%Z) =? 2)%Z else true) && gapsb_ok pkts ids (y :: l).
Proof. reflexivity. Qed.

Lemma gapsb_ok_prefix : forall pkts ids l1 l2,
  gapsb_ok pkts ids (l1 ++ l2) = true -> gapsb_ok pkts ids l1 = true.
Proof.
  intros pkts ids l1. induction l1 as [|x l1 IH]; intros l2 H; [reflexivity|].
  destruct l1 as [|y l1]; [reflexivity|].
  change ((x :: y :: l1) ++ l2) with (x :: y :: (l1 ++ l2)) in H.
  rewrite gapsb_ok_cons2 in H |- *. apply andb_true_iff in H. destruct H as [H1 H2].
  rewrite H1. cbn [andb]. apply (IH l2). exact H2.
Qed.

Lemma nth_after : forall (A1 : list pkt) x d R,
  nth (S (length A1)) (map p_id (A1 ++ x :: d :: R)) 0%Z = p_id d.
Proof.
  induction A1 as [|a A1 IH]; intros x d R; [reflexivity|]. cbn [app map length nth]. apply IH.
Qed.

Lemma reassoc_drop : forall (A1 : list pkt) x0 D p w B,
  (A1 ++ x0 :: D) ++ (p :: w) ++ B = (A1 ++ x0 :: D ++ [p]) ++ w ++ B.
Proof.
  intros. rewrite <- !app_assoc. cbn [app]. f_equal. f_equal. rewrite <- app_assoc. reflexivity.
Qed.

Lemma reassoc_keep : forall (A : list pkt) p w B, A ++ (p :: w) ++ B = (A ++ [p]) ++ w ++ B.
Proof. intros. rewrite <- app_assoc. reflexivity. Qed.

(* [x0]: the last packet kept so far; [D]: what was published after it and dropped; when
   [prev] says "dropping", the first dropped packet starts a key frame *)
Lemma gapsb_sel : forall keep w pkts A1 D B prev x0,
  pkts = (A1 ++ x0 :: D) ++ w ++ B -> NoDup (map p_id pkts) ->
  LtsBacklogProofs.aligned prev keep w ->
  (prev = true -> D = []) ->
  (prev = false -> exists d D', D = d :: D' /\ p_key d = true) ->
  gapsb_ok pkts (map p_id pkts) (p_id x0 :: map p_id (LtsBacklogProofs.select keep w)) = true.
Proof.
  induction keep as [|b keep IH]; intros w pkts A1 D B prev x0 E Hnd Hal Ht Hf.
  - destruct w; reflexivity.
  - destruct w as [|p w]; [cbn in Hal; contradiction|].
    cbn [LtsBacklogProofs.aligned] in Hal. destruct Hal as [Hk Hal].
    cbn [LtsBacklogProofs.select]. destruct b.
    + cbn [map]. rewrite gapsb_ok_cons2. apply andb_true_iff. split.
      * destruct (S (posZ (p_id x0) (map p_id pkts)) <? posZ (p_id p) (map p_id pkts)) eqn:El;
          [|reflexivity].
        apply Nat.ltb_lt in El.
        assert (Hx : posZ (p_id x0) (map p_id pkts) = length A1).
        { rewrite E, <- app_assoc. cbn [app]. apply pos_at.
          rewrite E, <- app_assoc in Hnd. exact Hnd. }
        assert (Hp : posZ (p_id p) (map p_id pkts) = length (A1 ++ x0 :: D)).
        { rewrite E. cbn [app]. apply pos_at. rewrite E in Hnd. exact Hnd. }
        rewrite app_length in Hp. cbn [length] in Hp.
        destruct prev.
        -- rewrite (Ht eq_refl) in Hp. cbn [length] in Hp. lia.
        -- destruct (Hf eq_refl) as (d & D' & -> & Hd).
           rewrite Hx. rewrite E at 2. rewrite <- !app_assoc. cbn [app]. rewrite nth_after.
           rewrite kind_of_id; [unfold p_key in Hd; exact Hd|exact Hnd|].
           rewrite E. apply in_or_app. left. apply in_or_app. right. right. left. reflexivity.
      * apply (IH w pkts (A1 ++ x0 :: D) [] B true p); auto.
        -- rewrite E. rewrite reassoc_keep, <- !app_assoc. reflexivity.
        -- discriminate.
    + apply (IH w pkts A1 (D ++ [p]) B false x0); auto.
      * rewrite E. apply reassoc_drop.
      * discriminate.
      * intros _. destruct prev.
        -- rewrite (Ht eq_refl). exists p, []. split; [reflexivity|]. apply Hk. discriminate.
        -- destruct (Hf eq_refl) as (d & D' & -> & Hd). exists d, (D' ++ [p]). split; [reflexivity|exact Hd].
Qed.

Lemma gapsb_sel0 : forall keep w pkts A B prev,
  pkts = A ++ w ++ B -> NoDup (map p_id pkts) -> LtsBacklogProofs.aligned prev keep w ->
  gapsb_ok pkts (map p_id pkts) (map p_id (LtsBacklogProofs.select keep w)) = true.
Proof.
  induction keep as [|b keep IH]; intros w pkts A B prev E Hnd Hal.
  - destruct w; reflexivity.
  - destruct w as [|p w]; [cbn in Hal; contradiction|].
    cbn [LtsBacklogProofs.aligned] in Hal. destruct Hal as [Hk Hal].
    cbn [LtsBacklogProofs.select]. destruct b.
    + cbn [map]. apply (gapsb_sel keep w pkts A [] B true p); auto.
      * rewrite E. rewrite reassoc_keep, <- !app_assoc. reflexivity.
      * discriminate.
    + apply (IH w pkts (A ++ [p]) B false); auto. rewrite E. apply reassoc_keep.
Qed.

Lemma live_gapsb_ok : forall c, l_var c = fixed -> NoDup (map p_id (l_pkts c)) -> forall i,
  let k := s_cs (lrun c) i in
  gapsb_ok (l_pkts c) (map p_id (l_pkts c))
           (map p_id (skipn (length (c_prefill k)) (c_out k))) = true.
Proof.
  intros c Hv Hnd i k. pose proof (lrun_fixed c Hv) as Hs.
  pose proof (LtsBacklogProofs.inv_reachable (l_maxq c) rcache (rc_empty (l_gop c)) rc_add rc_snap
                (l_n c) (pan c) 0 (l_pkts c) (l_sched c) (stp c)) as HI.
  pose proof (LtsFanoutProofs.delivered_prefix_of_pushed (l_maxq c) rcache (rc_empty (l_gop c)) rc_add
                rc_snap (l_n c) (pan c) (l_pkts c) (stp c) (l_sched c) i) as F1.
  pose proof (LtsFanoutProofs.sent_prefix_of_published (l_maxq c) rcache (rc_empty (l_gop c)) rc_add
                rc_snap (l_n c) (pan c) (l_pkts c) (stp c) (l_sched c)) as F5.
  cbv zeta in F1, F5. rewrite <- Hs in HI, F1, F5. fold k in F1.
  destruct HI as [_ _ HC]. destruct (HC i) as (H0 & _). fold k in H0.
  pose proof (LtsBacklogProofs.ci_align _ _ _ H0) as Hal.
  pose proof (LtsBacklogProofs.ci_pushed _ _ _ H0) as Hpu.
  destruct F1 as [rest F1]. destruct F5 as [rest' F5].
  set (n := length (c_prefill k)).
  set (w := LtsBacklogProofs.window (s_sent (lrun c)) (c_regat k) (c_unregat k)) in *.
  assert (Esel : LtsBacklogProofs.select (c_keep k) w =
                 skipn n (c_out k) ++ skipn (n - length (c_out k)) rest).
  { rewrite <- skipn_app, <- F1, Hpu, skipn_app. unfold n.
    rewrite skipn_all, Nat.sub_diag. reflexivity. }
  destruct (window_segment (s_sent (lrun c)) (c_regat k) (c_unregat k) rest') as (A & B & Eseg).
  fold w in Eseg. rewrite <- F5 in Eseg.
  pose proof (gapsb_sel0 (c_keep k) w (l_pkts c) A B true Eseg Hnd Hal) as Hg.
  rewrite Esel, map_app in Hg. apply gapsb_ok_prefix in Hg. exact Hg.
Qed.

(* ---- the seam between the join replay and the live part ---- *)
Lemma sel_first : forall keep w prev y rest,
  LtsBacklogProofs.aligned prev keep w -> LtsBacklogProofs.select keep w = y :: rest ->
  exists w1 w2, w = w1 ++ y :: w2 /\
    (prev = false \/ w1 <> [] -> p_key y = true) /\
    (w1 <> [] -> prev = true -> p_key (hd y w1) = true).
Proof.
  induction keep as [|b keep IH]; intros w prev y rest Hal Hs.
  - destruct w; discriminate.
  - destruct w as [|p w]; [discriminate|].
    cbn [LtsBacklogProofs.aligned] in Hal. destruct Hal as [Hk Hal].
    cbn [LtsBacklogProofs.select] in Hs. destruct b.
    + injection Hs as -> _. exists [], w. split; [reflexivity|]. split.
      * intros [E|E]; [|congruence]. apply Hk. rewrite E. discriminate.
      * congruence.
    + destruct (IH w false y rest Hal Hs) as (w1 & w2 & -> & H1 & H2).
      exists (p :: w1), w2. split; [reflexivity|]. split.
      * intros _. apply H1. now left.
      * intros _ E. cbn [hd]. apply Hk. rewrite E. discriminate.
Qed.

Lemma app_eq_cases : forall A (l1 r1 l2 r2 : list A), l1 ++ r1 = l2 ++ r2 ->
  (exists t, l2 = l1 ++ t) \/ (exists x t, l1 = l2 ++ x :: t /\ r2 = x :: t ++ r1).
Proof.
  induction l1 as [|a l1 IH]; intros r1 l2 r2 H.
  - left. exists l2. reflexivity.
  - destruct l2 as [|b l2].
    + right. exists a, l1. split; [reflexivity|]. cbn in H. now rewrite <- H.
    + cbn in H. injection H as -> H. destruct (IH _ _ _ H) as [(t & ->)|(x & t & -> & ->)].
      * left. exists t. reflexivity.
      * right. exists x, t. split; reflexivity.
Qed.

Lemma prefixZ_map_app : forall (a t : list pkt), prefixZ (map p_id a) (map p_id (a ++ t)) = true.
Proof. intros. rewrite map_app. apply LtsOracleC02Proofs.prefixZ_complete. Qed.

Lemma window_segment_len : forall (sent : list pkt) r u rest,
  LtsBacklogProofs.window sent (Some r) u <> [] ->
  exists B, sent ++ rest = firstn r sent ++ LtsBacklogProofs.window sent (Some r) u ++ B /\
            length (firstn r sent) = r.
Proof.
  intros sent r u rest Hne. cbn [LtsBacklogProofs.window] in *.
  set (X := match u with Some b => firstn b sent | None => sent end) in *.
  assert (HX : exists X', sent = X ++ X').
  { unfold X. destruct u as [b|]; [exists (skipn b sent); symmetry; apply firstn_skipn|].
    exists []. rewrite app_nil_r. reflexivity. }
  destruct HX as [X' HX].
  assert (Hr : r < length X).
  { destruct (Nat.lt_ge_cases r (length X)) as [?|Hge]; [assumption|].
    elim Hne. now apply skipn_all2. }
  assert (Hf : firstn r sent = firstn r X).
  { rewrite HX at 1. rewrite firstn_app. replace (r - length X) with 0 by lia.
    cbn [firstn]. apply app_nil_r. }
  exists (X' ++ rest). split.
  - rewrite Hf. rewrite HX at 1. rewrite <- (firstn_skipn r X) at 1. rewrite <- !app_assoc. reflexivity.
  - rewrite Hf. apply firstn_length_le. lia.
Qed.

Lemma nth_at : forall (A : list pkt) h R, nth (length A) (map p_id (A ++ h :: R)) 0%Z = p_id h.
Proof. induction A as [|a A IH]; intros h R; [reflexivity|]. cbn [app map length nth]. apply IH. Qed.

Lemma live_seam_ok : forall c, l_var c = fixed -> NoDup (map p_id (l_pkts c)) ->
  forallb (fun t => negb (is_close t)) (l_sched c) = true -> forall i,
  seam_ok (l_pkts c) (l_gop c) (map p_id (l_pkts c)) (map p_id (c_out (s_cs (lrun c) i))) = true.
Proof.
  intros c Hv Hnd Hnc i. pose proof (lrun_fixed c Hv) as Hs.
  assert (HF : Forall (fun t => t <> TClose) (l_sched c)).
  { apply Forall_forall. intros t Ht E. rewrite forallb_forall in Hnc. specialize (Hnc t Ht).
    rewrite E in Hnc. discriminate. }
  pose proof (LtsJoinProofs.join_contiguous_rcache (l_maxq c) (l_gop c) (l_n c) (pan c) (l_pkts c)
                (stp c) (l_sched c) HF) as HJ.
  pose proof (LtsBacklogProofs.inv_reachable (l_maxq c) rcache (rc_empty (l_gop c)) rc_add rc_snap
                (l_n c) (pan c) 0 (l_pkts c) (l_sched c) (stp c)) as HI.
  pose proof (LtsFanoutProofs.delivered_prefix_of_pushed (l_maxq c) rcache (rc_empty (l_gop c)) rc_add
                rc_snap (l_n c) (pan c) (l_pkts c) (stp c) (l_sched c) i) as F1.
  pose proof (LtsFanoutProofs.sent_prefix_of_published (l_maxq c) rcache (rc_empty (l_gop c)) rc_add
                rc_snap (l_n c) (pan c) (l_pkts c) (stp c) (l_sched c)) as F5.
  cbv zeta in HJ, F1, F5. rewrite <- Hs in HJ, HI, F1, F5.
  set (k := s_cs (lrun c) i) in *.
  destruct HI as [_ _ HC]. destruct (HC i) as (H0 & _). fold k in H0.
  pose proof (LtsBacklogProofs.ci_align _ _ _ H0) as Hal.
  pose proof (LtsBacklogProofs.ci_pushed _ _ _ H0) as Hpu.
  destruct F1 as [rest F1]. destruct F5 as [rest' F5].
  unfold seam_ok. apply existsb_exists.
  destruct (c_regat k) as [r|] eqn:Er.
  - destruct (HJ i r Er) as (Hr & Hpre & _). fold k in Hpre.
    assert (E1 : firstn r (l_pkts c) = firstn r (s_sent (lrun c))).
    { rewrite F5, firstn_app. replace (r - length (s_sent (lrun c))) with 0 by lia.
      cbn [firstn]. apply app_nil_r. }
    exists r. split; [apply in_seq; rewrite F5, app_length; lia|]. cbv zeta.
    rewrite E1, <- Hpre.
    set (w := LtsBacklogProofs.window (s_sent (lrun c)) (Some r) (c_unregat k)) in *.
    rewrite Hpu in F1. rewrite !map_length.
    destruct (app_eq_cases _ _ _ _ _ (eq_sym F1)) as [(t & Et)|(y & t & Eo & Esel)].
    + (* only (part of) the replay has been handed over *)
      assert (Hle : length (c_out k) <= length (c_prefill k)) by (rewrite Et, app_length; lia).
      apply Nat.leb_le in Hle. rewrite Hle. rewrite Et. apply prefixZ_map_app.
    + assert (Hgt : (length (c_out k) <=? length (c_prefill k)) = false).
      { apply Nat.leb_gt. rewrite Eo, app_length. cbn [length]. lia. }
      rewrite Hgt. cbv zeta.
      rewrite skipn_map, Eo, skipn_app, skipn_all, Nat.sub_diag. cbn [app skipn].
      assert (Hwne : w <> []).
      { intros Ew0. rewrite Ew0 in Esel. destruct (c_keep k); discriminate. }
      destruct (window_segment_len (s_sent (lrun c)) r (c_unregat k) rest' Hwne) as (B & Eseg & HA).
      fold w in Eseg. rewrite <- F5 in Eseg.
      set (A := firstn r (s_sent (lrun c))) in *.
      pose proof (gaps_sel0 (c_keep k) w (l_pkts c) A B true Eseg Hnd Hal) as Hg1.
      pose proof (gapsb_sel0 (c_keep k) w (l_pkts c) A B true Eseg Hnd Hal) as Hg2.
      rewrite Esel in Hg1, Hg2.
      change (y :: t ++ rest) with ((y :: t) ++ rest) in Hg1, Hg2. rewrite map_app in Hg1, Hg2.
      apply gaps_ok_prefix in Hg1. apply gapsb_ok_prefix in Hg2.
      rewrite Hg1, Hg2, !andb_true_r.
      apply andb_true_iff. split; [apply prefixZ_map_app|].
      cbn [map first_ok].
      destruct (r <? posZ (p_id y) (map p_id (l_pkts c))) eqn:El; [|reflexivity].
      apply Nat.ltb_lt in El.
      destruct (sel_first _ _ true y (t ++ rest) Hal Esel) as (w1 & w2 & Ew & Hk1 & Hk2).
      assert (Epk : l_pkts c = (A ++ w1) ++ y :: (w2 ++ B)).
      { rewrite Eseg, Ew, <- !app_assoc. reflexivity. }
      assert (Hpos : posZ (p_id y) (map p_id (l_pkts c)) = length (A ++ w1)).
      { rewrite Epk. apply pos_at. rewrite <- Epk. exact Hnd. }
      rewrite app_length, HA in Hpos.
      assert (Hw1 : w1 <> []) by (destruct w1; [cbn [length] in Hpos; lia|discriminate]).
      destruct w1 as [|h w1']; [congruence|]. cbn [hd] in Hk2.
      apply andb_true_iff. split.
      * assert (En : nth r (map p_id (l_pkts c)) 0%Z = p_id h).
        { rewrite Epk, <- app_assoc. cbn [app]. rewrite <- HA. apply nth_at. }
        rewrite En, kind_of_id; [|exact Hnd|].
        -- specialize (Hk2 Hw1 eq_refl). unfold p_key in Hk2. exact Hk2.
        -- rewrite Epk. apply in_or_app. left. apply in_or_app. right. left. reflexivity.
      * rewrite kind_of_id; [|exact Hnd|].
        -- assert (Hky : p_key y = true) by (apply Hk1; right; exact Hw1). unfold p_key in Hky. exact Hky.
        -- rewrite Epk. apply in_or_app. right. left. reflexivity.
  - (* never registered: nothing has been handed over *)
    exists 0. split; [apply in_seq; lia|]. cbv zeta.
    assert (Hout : c_out k = []).
    { apply (LtsBacklogProofs.ci_out0 _ _ _ H0).
      destruct (c_pc k) eqn:Epc; try reflexivity; exfalso;
        (assert (Ea : s_att _ (lrun c) i = ADone) by (apply (LtsBacklogProofs.ci_pc _ _ _ H0); rewrite Epc; discriminate));
        (apply (LtsBacklogProofs.ci_regat _ _ _ H0); [right; exact Ea|exact Er]). }
    rewrite Hout. reflexivity.
Qed.

Theorem C04x_model_passes : forall c : lcase,
  l_var c = fixed -> ok_C04x c (obs_of_state (l_n c) (lrun c)) = true.
Proof.
  intros c Hv. unfold ok_C04x. apply andb_true_iff. split.
  2:{ cbv zeta. destruct (nodupZ (map p_id (l_pkts c)) && forallb (fun t => negb (is_close t)) (l_sched c)) eqn:Eg;
        [|reflexivity].
      apply andb_true_iff in Eg. destruct Eg as [End Hnc]. apply nodupZ_NoDup in End.
      unfold obs_of_state. cbn [o_cons]. apply forallb_map_seq. intros i Hi. unfold cobs_of. cbn [o_out].
      now apply live_seam_ok. }
  apply andb_true_iff. split; [now apply C04_model_passes|].
  cbv zeta. destruct (nodupZ (map p_id (l_pkts c))) eqn:End; [|reflexivity].
  apply nodupZ_NoDup in End. unfold obs_of_state. cbn [o_cons].
  apply forallb_map_seq. intros i Hi. unfold cobs_of. cbn [o_out].
  destruct (stream_facts c Hv End i) as (_ & _ & Hsp).
  pose proof (live_gaps_ok c Hv End i) as Hg. pose proof (live_gapsb_ok c Hv End i) as Hb.
  cbv zeta in Hsp, Hg, Hb.
  apply existsb_exists. eexists. split; [|unfold split_ok5, split_ok4; rewrite Hsp; cbn [andb]].
  - apply in_seq. lia.
  - rewrite skipn_min_len, skipn_map. rewrite Hg. cbn [andb]. exact Hb.
Qed.

(* on the wire, packets given by kind or by their bytes *)
Theorem C04x_model_passes_on_the_wire : forall v,
  l_var (dec_lcase v) = fixed ->
  ok_C04x (dec_lcase (norm_case v)) (dec_obs (lts_run (norm_case v))) = true.
Proof.
  intros v H. unfold lts_run. rewrite dec_enc_obs. apply C04x_model_passes.
  destruct (norm_case_fields v) as (E & _). cbv zeta in E. now rewrite E.
Qed.
