(* C19: connections that are classified at the same time do not influence one
   another — the decision for each is the one Listener.serve takes on that
   connection alone, for every interleaving of their reads. *)
From Coq Require Import ZArith List Bool Lia.
From V Require Import Bytes BytesLemmas C19PTree C19Sniffer C19Mux C19Conc
                      C19PTreeProofs C19SnifferProofs C19MuxProofs.
Import ListNotations.
Open Scope Z_scope.

(* ---------- with per-call buffers a step never looks at, nor changes, anything shared *)
Lemma conn_step_private sb c : conn_step false sb c = (step1 c, sb).
Proof.
  unfold step1, conn_step. destruct (c_dec c); [reflexivity|].
  destruct (c_rest c) as [|t ts]; [reflexivity|].
  destruct (sniffer_read true (max_depth t - c_n c) (c_sn c)) as [r s1].
  destruct r as [d e|]; [|reflexivity]. cbv zeta.
  destruct (negb (Z.eqb e 0) || Nat.leb (max_depth t - c_n c) (length d)); [|reflexivity].
  destruct (tree_match_prefix t _); reflexivity.
Qed.

Lemma nth_error_upd_same {A} (l : list A) j x y : nth_error l j = Some y -> nth_error (upd j x l) j = Some x.
Proof. revert j; induction l as [|a l IH]; intros [|j] H; simpl in *; try discriminate; auto. Qed.

Lemma nth_error_upd_other {A} (l : list A) j k x : j <> k -> nth_error (upd j x l) k = nth_error l k.
Proof.
  revert j k; induction l as [|a l IH]; intros [|j] [|k] H; simpl; try reflexivity; try congruence.
  apply IH. congruence.
Qed.

Lemma upd_none {A} (l : list A) j x : nth_error l j = None -> upd j x l = l.
Proof. revert j; induction l as [|a l IH]; intros [|j] H; simpl in *; try discriminate; auto. f_equal; auto. Qed.

Lemma iter_S {A} n (f : A -> A) x : iter (S n) f x = iter n f (f x).
Proof. reflexivity. Qed.

Lemma iter_add {A} a b (f : A -> A) x : iter (a + b) f x = iter b f (iter a f x).
Proof. revert x; induction a as [|a IH]; intros x; [reflexivity|]. simpl. apply IH. Qed.

(* every schedule: connection j is where its own steps alone would have taken it *)
Theorem sched_projection : forall sched cs sb j,
  nth_error (fst (run_sched false (cs, sb) sched)) j =
  option_map (iter (count_of j sched) step1) (nth_error cs j).
Proof.
  unfold run_sched. induction sched as [|a sched IH]; intros cs sb j.
  - cbn. destruct (nth_error cs j); reflexivity.
  - cbn [fold_left]. unfold sys_step at 2. cbn [fst snd].
    destruct (nth_error cs a) as [c|] eqn:Ea.
    + rewrite conn_step_private. rewrite IH.
      unfold count_of. cbn [filter]. destruct (Nat.eqb j a) eqn:E.
      * apply Nat.eqb_eq in E. subst a. rewrite (nth_error_upd_same _ _ _ _ Ea), Ea. reflexivity.
      * apply Nat.eqb_neq in E. rewrite nth_error_upd_other by congruence. reflexivity.
    + rewrite IH. unfold count_of. cbn [filter]. destruct (Nat.eqb j a) eqn:E; [|reflexivity].
      apply Nat.eqb_eq in E. subst a. rewrite Ea. reflexivity.
Qed.

(* ---------- the steps of one connection are Listener.serve on it *)
Lemma sniffer_read_le fx n s d e s' : sniffer_read fx n s = (ROk d e, s') -> (length d <= n)%nat.
Proof.
  unfold sniffer_read. destruct (Nat.ltb (sn_rd s) (sn_size s)).
  - destruct (Nat.leb _ _); intros [= <- _ _]. rewrite firstn_length. lia.
  - destruct (src_read n (sn_src s)) as [[d0 e0] src'] eqn:ES.
    apply src_read_spec in ES as (_ & Hl & _).
    destruct (_ && _); intros [= <- _ _]; exact Hl.
Qed.

Lemma write_at_firstn off d buf :
  (off + length d <= length buf)%nat ->
  firstn (off + length d) (write_at off d buf) = firstn off buf ++ d /\
  length (write_at off d buf) = length buf.
Proof.
  intros H. unfold write_at. split.
  - rewrite firstn_app, firstn_length. replace (Nat.min off (length buf)) with off by lia.
    replace (off + length d - off)%nat with (length d) by lia.
    rewrite (firstn_all2 (firstn off buf)) by (rewrite firstn_length; lia).
    f_equal. rewrite firstn_app, Nat.sub_diag, firstn_all. cbn. apply app_nil_r.
  - rewrite !app_length, firstn_length, skipn_length. lia.
Qed.

Lemma step1_decided c d : c_dec c = Some d -> step1 c = c.
Proof. intros H. unfold step1, conn_step. rewrite H. reflexivity. Qed.

Lemma iter_decided m c d : c_dec c = Some d -> iter m step1 c = c.
Proof. induction m as [|m IH]; intros H; [reflexivity|]. simpl. rewrite (step1_decided _ _ H). auto. Qed.

Lemma rf_steps : forall fuel want c t ts acc d e s2,
  c_dec c = None -> c_rest c = t :: ts ->
  want = (max_depth t - c_n c)%nat -> (0 < want)%nat ->
  length (c_buf c) = max_depth t ->
  firstn (c_n c) (c_buf c) = acc ->
  read_full true fuel want (c_sn c) = RFOk d e s2 ->
  exists k cf, iter k step1 c = cf /\
    (if tree_match_prefix t (acc ++ d) then c_dec cf = Some (DSvc (c_i c))
     else cf = enter (S (c_i c)) ts s2).
Proof.
  induction fuel as [|f IH]; intros want c t ts acc d e s2 Hdec Hrest Hw Hpos Hlen Hacc H.
  { destruct want; [lia | discriminate]. }
  destruct want as [|w]; [lia|]. remember (S w) as want eqn:Ew.
  assert (read_full true (S f) want (c_sn c) =
          let (r, s1) := sniffer_read true want (c_sn c) in
          match r with
          | RPanic => RFPanic
          | ROk d e =>
              if negb (Z.eqb e 0) || Nat.leb want (length d) then RFOk d e s1
              else match read_full true f (want - length d) s1 with
                   | RFOk d2 e2 s2 => RFOk (d ++ d2) e2 s2
                   | other => other
                   end
          end) as Hun by (subst want; reflexivity).
  rewrite Hun in H. clear Hun.
  destruct (sniffer_read true want (c_sn c)) as [r s1] eqn:ER.
  destruct r as [d0 e0|]; [|discriminate].
  pose proof (sniffer_read_le _ _ _ _ _ _ ER) as Hd0.
  assert (c_n c + length d0 <= length (c_buf c))%nat as Hfit by lia.
  destruct (write_at_firstn (c_n c) d0 (c_buf c) Hfit) as [Hf Hl]. rewrite Hacc in Hf.
  assert (step1 c =
          if negb (Z.eqb e0 0) || Nat.leb want (length d0) then
            if tree_match_prefix t (firstn (c_n c + length d0) (write_at (c_n c) d0 (c_buf c)))
            then decided c (DSvc (c_i c)) (reset false s1)
            else enter (S (c_i c)) ts s1
          else {| c_sn := s1; c_i := c_i c; c_rest := c_rest c; c_n := (c_n c + length d0)%nat;
                  c_buf := write_at (c_n c) d0 (c_buf c); c_dec := None |}) as Hstep.
  { unfold step1, conn_step. rewrite Hdec, Hrest. rewrite <- Hw, ER. cbv zeta.
    destruct (negb (Z.eqb e0 0) || Nat.leb want (length d0)); [|reflexivity].
    destruct (tree_match_prefix t _); reflexivity. }
  destruct (negb (Z.eqb e0 0) || Nat.leb want (length d0)) eqn:Estop.
  - injection H as <- <- <-. rewrite Hf in Hstep.
    exists 1%nat, (step1 c). split; [reflexivity|]. rewrite Hstep.
    destruct (tree_match_prefix t (acc ++ d0)); reflexivity.
  - apply orb_false_iff in Estop as [_ El]. apply Nat.leb_gt in El.
    destruct (read_full true f (want - length d0) s1) as [d2 e2 s2'| |] eqn:ERF; try discriminate.
    injection H as <- <- <-.
    set (c1 := {| c_sn := s1; c_i := c_i c; c_rest := c_rest c; c_n := (c_n c + length d0)%nat;
                  c_buf := write_at (c_n c) d0 (c_buf c); c_dec := None |}) in *.
    assert (want - length d0 = max_depth t - c_n c1)%nat as Hw1 by (unfold c1; cbn [c_n]; lia).
    assert (0 < want - length d0)%nat as Hpos1 by lia.
    assert (length (c_buf c1) = max_depth t) as Hlen1 by (unfold c1; cbn [c_buf]; rewrite Hl; exact Hlen).
    destruct (IH (want - length d0)%nat c1 t ts (acc ++ d0) d2 e2 s2' eq_refl Hrest Hw1 Hpos1 Hlen1 Hf ERF)
      as (k & cf & Hk & Hres).
    exists (S k), cf. rewrite iter_S, Hstep. split; [exact Hk|].
    rewrite <- app_assoc in Hres. exact Hres.
Qed.

Section Serve.
Variable st0 : bytes.

Lemma tm_steps : forall tables i s,
  base st0 s ->
  exists k, forall m, (k <= m)%nat ->
    c_dec (iter m step1 (enter i tables s)) = Some (fst (try_matchers true i tables s)).
Proof.
  induction tables as [|t ts IH]; intros i s Hb.
  - exists 1%nat. intros m Hm. destruct m; [lia|]. rewrite iter_S.
    assert (step1 (enter i [] s) = decided (enter i [] s) DNone (reset true s)) as -> by reflexivity.
    rewrite (iter_decided m _ DNone) by reflexivity. reflexivity.
  - cbn [try_matchers]. cbv zeta.
    pose proof (minv_start _ _ Hb) as Hi.
    destruct (read_full_minv st0 true (rf_fuel (max_depth t) (reset true s)) (max_depth t) _ _ Hi)
      as (seen & e & s2 & ERF & Hi2 & _).
    { unfold rf_fuel. lia. }
    rewrite ERF.
    assert (max_depth t = max_depth t - c_n (enter i (t :: ts) s))%nat as Hw by (cbn [enter c_n]; lia).
    assert (0 < max_depth t)%nat as Hpos by (unfold max_depth; lia).
    assert (length (c_buf (enter i (t :: ts) s)) = max_depth t) as Hlen
      by (cbn [enter c_buf]; unfold zeros; apply repeat_length).
    destruct (rf_steps (rf_fuel (max_depth t) (reset true s)) (max_depth t) (enter i (t :: ts) s) t ts [] seen e s2
                eq_refl eq_refl Hw Hpos Hlen eq_refl ERF) as (k1 & cf & Hk1 & Hres).
    cbn [app] in Hres.
    destruct (tree_match_prefix t seen).
    + exists k1. intros m Hm. replace m with (k1 + (m - k1))%nat by lia.
      rewrite iter_add, Hk1, (iter_decided _ _ _ Hres). exact Hres.
    + destruct (IH (S i) s2 (minv_base _ _ _ Hi2)) as (k2 & Hk2).
      exists (k1 + k2)%nat. intros m Hm. replace m with (k1 + (m - k1))%nat by lia.
      rewrite iter_add, Hk1, Hres. apply Hk2. lia.
Qed.

End Serve.

(* ---------- the theorem.  k connections, any read scripts, the registered
   tables shared by all; for every schedule that lets connection j take enough
   steps — whatever the other connections do in between, and however their
   steps are interleaved with j's — the listener's decision for j is the
   decision Listener.serve takes on j alone *)
Theorem connections_independent : forall tables scs j sc,
  nth_error scs j = Some sc ->
  exists k, forall sched,
    (k <= count_of j sched)%nat ->
    option_map c_dec (nth_error (fst (run_sched false (sys_init tables scs) sched)) j)
    = Some (Some (fst (mux_serve true tables sc))).
Proof.
  intros tables scs j sc Hj.
  destruct (tm_steps (stream sc) tables O (new_sniffer sc) (base_new _ sc eq_refl)) as (k & Hk).
  exists k. intros sched Hc. unfold sys_init. rewrite sched_projection.
  rewrite nth_error_map, Hj. cbn [option_map]. unfold conn_init, mux_serve.
  rewrite (Hk _ Hc). reflexivity.
Qed.

(* … and that decision is a function of j's own byte stream *)
Theorem connections_classified_on_own_stream : forall tables scs j sc,
  tables_wf tables = true ->
  nth_error scs j = Some sc -> good (max_depth_all tables) sc = true ->
  exists k, forall sched,
    (k <= count_of j sched)%nat ->
    option_map c_dec (nth_error (fst (run_sched false (sys_init tables scs) sched)) j)
    = Some (Some (classify tables (stream sc))).
Proof.
  intros tables scs j sc Hwf Hj Hg.
  destruct (connections_independent tables scs j sc Hj) as (k & Hk).
  exists k. intros sched Hc. rewrite (Hk sched Hc), (mux_classify true tables sc Hwf Hg). reflexivity.
Qed.

(* a matcher buffer owned by the tree and shared by all calls: connection A
   ("OPTIONS " then "* HTTP/1.1…", an HTTP request) is classified while B's
   "DESCRIBE rtsp://" sits in the buffer and reaches the RTSP service *)
Example shared_buffer_refuted :
  let a := [{| it_data := M_OPTIONS ++ [32]; it_err := 0 |};
            {| it_data := [42;32;72;84;84;80;47;49;46;49;13;10;13;10]; it_err := 0 |}] in
  let b := [{| it_data := M_DESCRIBE ++ [32;114;116;115;112;58;47;47;104;47;120;32;82;84;83;80;47;49;46;48;13;10;13;10];
               it_err := 0 |}] in
  let sched := [0; 1; 0; 0]%nat in
  classify prod_tables (stream a) = DSvc SVC_HTTP /\
  option_map c_dec (nth_error (fst (run_sched false (sys_init prod_tables [a; b]) sched)) 0) = Some (Some (DSvc SVC_HTTP)) /\
  option_map c_dec (nth_error (fst (run_sched true (sys_init prod_tables [a; b]) sched)) 0) = Some (Some (DSvc SVC_RTSP)).
Proof. vm_compute. repeat split; reflexivity. Qed.

(* the oracle of the concurrent stream accepts the model *)
Theorem conc_model_passes : forall tables conns,
  tables_wf tables = true -> ok_conc tables conns (conc_run tables conns) = true.
Proof.
  intros tables conns Hwf. unfold ok_conc, conc_run. rewrite map_length, Nat.eqb_refl. cbn [andb].
  apply forallb_forall. intros [[sc svc] o] Hin.
  assert (o = (let '(d, rem0, rs) := mux_run true tables sc svc in (d, dec_closed d, dec_handed d, rem0, rs))) as ->.
  { clear -Hin. induction conns as [|c cs IH]; simpl in Hin; [tauto|].
    destruct Hin as [H|H]; [inversion H; subst; reflexivity | now apply IH]. }
  cbn [fst snd]. pose proof (serve_model_passes tables sc svc Hwf) as H.
  destruct (mux_run true tables sc svc) as [[d rem0] rs]. exact H.
Qed.
