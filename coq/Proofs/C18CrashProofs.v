(* C18: crash consistency of the two write sequences of utils.EncodeJSONFile. *)
From Coq Require Import ZArith List Bool Lia.
From V Require Import Bytes C18CrashFs.
Import ListNotations.
Open Scope Z_scope.

Lemma fupd_same s p c : fupd s p c p = c.
Proof. unfold fupd. rewrite Z.eqb_refl. reflexivity. Qed.
Lemma fupd_other s p c q : p <> q -> fupd s p c q = s q.
Proof. intros N. unfold fupd. destruct (Z.eqb p q) eqn:E; [apply Z.eqb_eq in E; contradiction|reflexivity]. Qed.

Ltac fs_simp := repeat (progress (rewrite ?fupd_same; cbn [app])).
Ltac fs_simp_in H := repeat (progress (rewrite ?fupd_same in H; cbn [app] in H)).

Section CodecLaws.
  Context {T : Type}.
  Variable encode : T -> bytes.
  Variable decode : bytes -> option T.
  Variable dflt : T.
  Variable tgt tmp : path.
  Hypothesis tmp_fresh : tmp <> tgt.

  (* the JSON laws (trusted; exercised on the implementation by every flush/restart case) *)
  Definition roundtrip := forall t, decode (encode t) = Some t.
  (* a strict prefix of an encoding does not decode to a different value *)
  Definition prefix_safe := forall t k t', (k < length (encode t))%nat ->
                                            decode (firstn k (encode t)) = Some t' -> t' = t.
  (* an empty file is not a JSON document *)
  Definition empty_invalid := decode [] = None.

  Notation fload := (fload decode dflt tgt).

  Lemma fload_tgt s s' : s' tgt = s tgt -> fload s' = fload s.
  Proof. unfold C18CrashFs.fload. intros ->. reflexivity. Qed.

  (* ---- a fresh provider on the flushed file loads exactly that table ---- *)
  Theorem flush_reload : roundtrip -> forall s t,
    fload (run s (safe_flush tgt tmp (encode t))) = Some t.
  Proof.
    intros RT s t. unfold run, safe_flush. cbn [fold_left apply].
    fs_simp. unfold C18CrashFs.fload. rewrite fupd_other by exact tmp_fresh. rewrite fupd_same. apply RT.
  Qed.

  (* ---- every crash point of the repaired sequence: complete old or complete new ---- *)
  Theorem crash_atomic_at : roundtrip -> forall s t i k s',
    In (i, k, s') (crash_states s (safe_flush tgt tmp (encode t))) ->
    fload s' = if (i <? 5)%nat then fload s else Some t.
  Proof.
    intros RT s t i k s' I.
    unfold crash_states, safe_flush in I. cbn [crash_from partials apply app] in I.
    fs_simp_in I.
    destruct I as [E|[E|I]]; [inversion E; subst; reflexivity | | ].
    { inversion E; subst. cbn. apply fload_tgt. apply fupd_other. exact tmp_fresh. }
    apply in_app_or in I. destruct I as [I|I].
    { apply in_map_iff in I as [j [E _]]. inversion E; subst. cbn.
      apply fload_tgt. rewrite fupd_other by exact tmp_fresh. apply fupd_other. exact tmp_fresh. }
    cbn [In] in I.
    destruct I as [E|[E|[E|[E|F]]]]; try (inversion E; subst; cbn;
      apply fload_tgt; rewrite fupd_other by exact tmp_fresh; apply fupd_other; exact tmp_fresh).
    - inversion E; subst. cbn. unfold C18CrashFs.fload.
      rewrite fupd_other by exact tmp_fresh. rewrite fupd_same. apply RT.
    - contradiction.
  Qed.

  Theorem crash_atomic : roundtrip -> forall s told t,
    fload s = Some told ->
    forall i k s', In (i, k, s') (crash_states s (safe_flush tgt tmp (encode t))) ->
    fload s' = Some told \/ fload s' = Some t.
  Proof.
    intros RT s told t L i k s' I. rewrite (crash_atomic_at RT s t i k s' I).
    destruct (i <? 5)%nat; auto.
  Qed.

  (* nothing else is touched: the only other file a crash can leave behind is the temporary one *)
  Theorem crash_leaves_others : forall s d i k s' q,
    q <> tgt -> q <> tmp ->
    In (i, k, s') (crash_states s (safe_flush tgt tmp d)) -> s' q = s q.
  Proof.
    intros s d i k s' q N1 N2 I.
    assert (tmp <> q) as M2 by congruence. assert (tgt <> q) as M1 by congruence.
    unfold crash_states, safe_flush in I. cbn [crash_from partials apply app] in I.
    fs_simp_in I.
    destruct I as [E|[E|I]]; [inversion E; subst; reflexivity | | ].
    { inversion E; subst. apply fupd_other. exact M2. }
    apply in_app_or in I. destruct I as [I|I].
    { apply in_map_iff in I as [j [E _]]. inversion E; subst.
      rewrite fupd_other by exact M2. apply fupd_other. exact M2. }
    cbn [In] in I.
    destruct I as [E|[E|[E|[E|F]]]]; try (inversion E; subst;
      rewrite fupd_other by exact M2; apply fupd_other; exact M2).
    - inversion E; subst. rewrite fupd_other by exact M2. rewrite fupd_other by exact M1.
      rewrite fupd_other by exact M2. apply fupd_other. exact M2.
    - contradiction.
  Qed.

  (* ---- the sequence the code used before the repair (D32) ---- *)
  (* after the truncate the file is empty: LoadAll fails, Reset panics, the server does not start *)
  Theorem crash_after_truncate_refuted : empty_invalid -> forall s t,
    exists i k s', In (i, k, s') (crash_states s (unsafe_flush tgt (encode t))) /\
                   s' tgt = Some [] /\ fload s' = None.
  Proof.
    intros EI s t. exists 1%nat, O, (fupd s tgt (Some [])). split; [|split].
    - unfold crash_states, unsafe_flush. cbn [crash_from partials apply app]. right. left. reflexivity.
    - apply fupd_same.
    - unfold C18CrashFs.fload. rewrite fupd_same. exact EI.
  Qed.

  (* hence it is not crash-atomic, whatever the two tables are *)
  Theorem unsafe_not_atomic : empty_invalid -> forall s told t,
    ~ (forall i k s', In (i, k, s') (crash_states s (unsafe_flush tgt (encode t))) ->
                      fload s' = Some told \/ fload s' = Some t).
  Proof.
    intros EI s told t H. destruct (crash_after_truncate_refuted EI s t) as [i [k [s' [I [_ L]]]]].
    destruct (H i k s' I) as [X|X]; congruence.
  Qed.

  (* what the prefix law buys for the old sequence: a torn file never yields a *different* table —
     it yields the old one (before the open), the new one, or no table at all *)
  Theorem unsafe_never_mixed : roundtrip -> prefix_safe -> forall s told t,
    fload s = Some told ->
    forall i k s', In (i, k, s') (crash_states s (unsafe_flush tgt (encode t))) ->
    fload s' = Some told \/ fload s' = Some t \/ fload s' = None \/ fload s' = decode [].
  Proof.
    intros RT PS s told t L i k s' I.
    unfold crash_states, unsafe_flush in I. cbn [crash_from partials apply app] in I.
    fs_simp_in I.
    destruct I as [E|[E|I]]; [inversion E; subst; auto | | ].
    { inversion E; subst. right. right. right. unfold C18CrashFs.fload. rewrite fupd_same. reflexivity. }
    apply in_app_or in I. destruct I as [I|I].
    { apply in_map_iff in I as [j [E Ij]]. injection E as E1 E2 E3. subst i k s'. apply in_seq in Ij.
      unfold C18CrashFs.fload. rewrite fupd_same.
      destruct (decode (firstn j (encode t))) as [t'|] eqn:D; [|auto].
      right. left. f_equal. apply (PS t j t'); [lia|exact D]. }
    cbn [In] in I.
    destruct I as [E|[E|[E|F]]]; try contradiction;
      inversion E; subst; right; left; unfold C18CrashFs.fload; rewrite fupd_same; apply RT.
  Qed.

  (* ---- remove-then-rename: the window in which the file is missing ---- *)
  Theorem remove_before_rename_refuted : forall s d,
    exists i k s', In (i, k, s') (crash_states s (remove_rename_flush tgt tmp d)) /\
                   s' tgt = None /\ fload s' = Some dflt.
  Proof.
    intros s d. exists 5%nat, O.
    eexists. split; [|split].
    - unfold crash_states, remove_rename_flush. cbn [crash_from partials apply app].
      fs_simp.
      right. right. apply in_or_app. right. cbn [In]. right. right. right. left. reflexivity.
    - apply fupd_same.
    - unfold C18CrashFs.fload. rewrite fupd_same. reflexivity.
  Qed.

  (* ---- the oracle applied to what a restarted server loaded accepts the model ---- *)
  Variable teqb : T -> T -> bool.
  Hypothesis teqb_refl : forall t, teqb t t = true.

  Theorem crash_model_passes : roundtrip -> forall s told t,
    fload s = Some told ->
    crash_ok teqb told t (map (fun x => fload (snd x)) (crash_states s (safe_flush tgt tmp (encode t)))) = true.
  Proof.
    intros RT s told t L. unfold crash_ok. apply forallb_forall. intros g Ig.
    apply in_map_iff in Ig as [[[i k] s'] [E I]]. subst g. cbn [snd].
    destruct (crash_atomic RT s told t L i k s' I) as [X|X]; rewrite X; unfold loaded_ok;
      rewrite teqb_refl; [reflexivity|apply orb_true_r].
  Qed.

  (* no provider call (nothing pending): the disk is not touched at all *)
  Theorem no_flush_no_change : forall s i k s', In (i, k, s') (crash_states s []) -> s' = s.
  Proof. intros s i k s' [E|[]]. inversion E. reflexivity. Qed.
End CodecLaws.

(* ================= several flushes, crashes in between ================= *)
Section Rounds.
  Context {T : Type}.
  Variable encode : T -> bytes.
  Variable decode : bytes -> option T.
  Variable dflt : T.
  Variable tgt : path.
  Notation fload := (fload decode dflt tgt).

  Definition flush_of (r : T * path) : list fsop := safe_flush tgt (snd r) (encode (fst r)).

  (* Whatever earlier interrupted flushes left behind (stray temporary files with any partial
     content — the temporary file of a flush is created empty, under a fresh name or by truncation),
     the target always holds the original table or one of the tables flushed so far, and a flush
     that completes makes it hold exactly the table flushed last. *)
  Theorem crash_then_flush_atomic : roundtrip encode decode -> forall rounds : list (T * path),
    Forall (fun r => snd r <> tgt) rounds ->
    forall s s', In s' (crash_runs s (map flush_of rounds)) ->
    (fload s' = fload s \/ exists r, In r rounds /\ fload s' = Some (fst r)) /\
    (forall t tmp, tmp <> tgt -> fload (run s' (safe_flush tgt tmp (encode t))) = Some t).
  Proof.
    intros RT rounds F s s' I. split.
    - revert s I. induction F as [|r rounds Hr _ IH]; intros s I.
      + destruct I as [<-|[]]. left. reflexivity.
      + cbn [map crash_runs] in I. apply in_flat_map in I as [[[i k] s1] [I1 I2]]. cbn [snd] in I2.
        pose proof (crash_atomic_at encode decode dflt tgt (snd r) Hr RT s (fst r) i k s1 I1) as A.
        destruct (IH s1 I2) as [E|[r' [Ir' E]]].
        * rewrite E, A. destruct (i <? 5)%nat; [left; reflexivity|].
          right. exists r. split; [left; reflexivity|reflexivity].
        * right. exists r'. split; [right; exact Ir'|exact E].
    - intros t tmp N. apply (flush_reload encode decode dflt tgt tmp N RT).
  Qed.

  (* the oracle applied to each round of the re-crash experiment accepts the model *)
  Variable teqb : T -> T -> bool.
  Hypothesis teqb_refl : forall t, teqb t t = true.

  Theorem round_model_passes : roundtrip encode decode -> forall tmp, tmp <> tgt -> forall s told t,
    fload s = Some told ->
    forall i k s', In (i, k, s') (crash_states s (safe_flush tgt tmp (encode t))) ->
    round_ok teqb told t (Nat.eqb i 5) (fload s') = true.
  Proof.
    intros RT tmp N s told t L i k s' I.
    rewrite (crash_atomic_at encode decode dflt tgt tmp N RT s t i k s' I).
    assert (i <= 5)%nat as Le.
    { unfold crash_states, safe_flush in I. cbn [crash_from partials apply app] in I.
      destruct (fupd s tmp (Some []) tmp); cbn [app] in I;
        repeat (destruct I as [E|I]; [inversion E; subst; auto with arith|]);
        try contradiction;
        try (apply in_app_or in I as [I|I]; [apply in_map_iff in I as [j [E _]]; inversion E; auto with arith|]);
        repeat (destruct I as [E|I]; [inversion E; subst; auto with arith|]); try contradiction. }
    unfold round_ok. destruct (Nat.eqb i 5) eqn:E5.
    - apply PeanoNat.Nat.eqb_eq in E5. subst i. cbn. apply teqb_refl.
    - apply PeanoNat.Nat.eqb_neq in E5.
      assert ((i <? 5)%nat = true) as -> by (apply PeanoNat.Nat.ltb_lt; apply PeanoNat.Nat.le_neq; auto).
      rewrite L. unfold loaded_ok. rewrite teqb_refl. reflexivity.
  Qed.

  (* ---- one fixed temporary name opened WITHOUT truncation and reused ---- *)
  (* JSON: an encoding followed by anything is not a document *)
  Definition trailing_invalid := forall t g, g <> [] -> decode (encode t ++ g) = None.

  (* A flush of a big table is interrupted after its write: the target is intact, the temporary file
     stays.  The server restarts and flushes a smaller table to completion: the file renamed into place
     is the new JSON followed by the tail of the abandoned write, and does not load. *)
  Theorem crash_then_reuse_flush_refuted : forall tmp, tmp <> tgt -> forall s tb ts,
    s tmp = None -> (length (encode ts) < length (encode tb))%nat ->
    exists i k s1, In (i, k, s1) (crash_states s (reuse_flush tgt tmp (encode tb))) /\
      s1 tgt = s tgt /\
      let s2 := run s1 (reuse_flush tgt tmp (encode ts)) in
      s2 tgt = Some (encode ts ++ skipn (length (encode ts)) (encode tb)) /\
      skipn (length (encode ts)) (encode tb) <> [] /\
      (trailing_invalid -> fload s2 = None).
  Proof.
    intros tmp N s tb ts Hn Lt.
    exists 2%nat, O. eexists. split; [|split; [|split; [|split]]].
    - unfold crash_states, reuse_flush. cbn [crash_from partials apply app]. rewrite Hn. fs_simp.
      right. right. apply in_or_app. right. left. reflexivity.
    - cbn [skipn app]. rewrite fupd_other by exact N. apply fupd_other. exact N.
    - unfold run, reuse_flush. cbn [fold_left apply]. fs_simp. cbn [skipn app]. fs_simp.
      rewrite fupd_other by exact N. rewrite fupd_same. rewrite skipn_nil, app_nil_r. reflexivity.
    - intros E. apply (f_equal (@length Z)) in E. rewrite skipn_length in E. cbn in E.
      apply PeanoNat.Nat.sub_0_le in E. apply (PeanoNat.Nat.lt_irrefl (length (encode ts))).
      eapply PeanoNat.Nat.lt_le_trans; eassumption.
    - intros TI. unfold C18CrashFs.fload, run, reuse_flush. cbn [fold_left apply]. fs_simp. cbn [skipn app]. fs_simp.
      rewrite fupd_other by exact N. rewrite fupd_same. rewrite skipn_nil, app_nil_r. apply TI.
      intros E. apply (f_equal (@length Z)) in E. rewrite skipn_length in E. cbn in E.
      apply PeanoNat.Nat.sub_0_le in E. apply (PeanoNat.Nat.lt_irrefl (length (encode ts))).
      eapply PeanoNat.Nat.lt_le_trans; eassumption.
  Qed.
End Rounds.
