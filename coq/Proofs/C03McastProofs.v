(* C03 — the multicast proxy through any number of use cycles (Model/C03Mcast.v): the implementation
   state machine [mstep mfixed] produces, on every well-formed history, exactly the observations of
   the release specification; what the specification means; the three variants without one of the
   restart safeguards are refuted by computed histories. *)
From Coq Require Import ZArith List Bool Arith Lia.
From V Require Import C03Mcast.
Import ListNotations.
Local Open Scope nat_scope.

Lemma memn_in : forall i l, memn i l = true <-> In i l.
Proof.
  intros i l. unfold memn. rewrite existsb_exists. split.
  - intros (x & Hx & He). apply Nat.eqb_eq in He. subst. exact Hx.
  - intro H. exists i. split; [exact H|apply Nat.eqb_refl].
Qed.

Lemma remn_in : forall i j l, In j (remn i l) <-> In j l /\ j <> i.
Proof.
  intros i j l. unfold remn. rewrite filter_In. split.
  - intros [H1 H2]. split; [exact H1|]. apply negb_true_iff, Nat.eqb_neq in H2. congruence.
  - intros [H1 H2]. split; [exact H1|]. apply negb_true_iff, Nat.eqb_neq. congruence.
Qed.

Lemma filter_all : forall (l : list nat), filter (fun j => negb (memn j [])) l = l.
Proof. induction l as [|x l IH]; [reflexivity|]. change (x :: filter (fun j => negb (memn j [])) l = x :: l). f_equal. exact IH. Qed.

Lemma filter_self : forall (l : list nat), filter (fun j => negb (memn j l)) l = [].
Proof.
  intros l. assert (H : forall m, (forall x, In x m -> In x l) -> filter (fun j => negb (memn j l)) m = []).
  { induction m as [|x m IH]; intros Hm; simpl; [reflexivity|].
    assert (Hx : memn x l = true) by (apply memn_in, Hm; left; reflexivity).
    rewrite Hx. simpl. apply IH. intros y Hy. apply Hm. right; exact Hy. }
  apply H. auto.
Qed.

Lemma is_nil_true : forall A (l : list A), is_nil l = true <-> l = [].
Proof. intros A [|x l]; simpl; split; intro H; congruence. Qed.

(* ---------- simulation ---------- *)
Definition R (s : mst) (p : mspec) : Prop :=
  m_alive s = sp_alive p /\ m_members s = sp_members p /\ m_audience s = sp_members p /\
  m_ended s = sp_ended p /\ m_got s = sp_got p /\
  (sp_members p <> [] -> m_closed s = false /\ m_sock s = true /\ m_consumers s = [m_gen s] /\ m_alive s = true) /\
  (sp_members p = [] -> m_consumers s = [] /\ m_sock s = false) /\
  (forall g, In g (m_pending s) -> g <= m_gen s /\ (g = m_gen s -> m_closed s = true)).

Lemma R_init : R minit spec0.
Proof.
  unfold R; simpl. repeat split; intros; auto; try congruence; try contradiction.
Qed.

Lemma R_obs : forall n s p, R s p -> mobserve n s = spec_obs n p.
Proof.
  intros n s p (Ha & Hm & Hau & He & Hg & Hne & Hnil & Hp). unfold mobserve, spec_obs.
  rewrite Hm, He, Hg. destruct (sp_members p) as [|x l] eqn:E.
  - destruct (Hnil eq_refl) as [H1 H2]. rewrite H1, H2. reflexivity.
  - destruct Hne as (H1 & H2 & H3 & H4); [discriminate|]. rewrite H2, H3. reflexivity.
Qed.

(* the event is allowed in the specification state *)
Definition enabled (p : mspec) (e : mev) : Prop :=
  match e with
  | MJoin _ => sp_alive p = true
  | MLeave i => memn i (sp_members p) = true
  | _ => True
  end.

Lemma R_intro : forall s p,
  m_alive s = sp_alive p -> m_members s = sp_members p -> m_audience s = sp_members p ->
  m_ended s = sp_ended p -> m_got s = sp_got p ->
  (sp_members p <> [] -> m_closed s = false /\ m_sock s = true /\ m_consumers s = [m_gen s] /\ m_alive s = true) ->
  (sp_members p = [] -> m_consumers s = [] /\ m_sock s = false) ->
  (forall g, In g (m_pending s) -> g <= m_gen s /\ (g = m_gen s -> m_closed s = true)) ->
  R s p.
Proof. intros. unfold R. auto 10. Qed.

Lemma R_step : forall s p e, R s p -> enabled p e -> R (mstep mfixed s e) (spec_step p e).
Proof.
  intros s p e (Ha & Hm & Hau & He & Hg & Hne & Hnil & Hp) Hen.
  destruct e as [i|i| | |]; simpl in Hen; simpl mstep; simpl spec_step.
  - (* join *)
    rewrite Hen. unfold add_member. rewrite Hm. destruct (sp_members p) as [|x l] eqn:E.
    + rewrite Ha, Hen. destruct (Hnil eq_refl) as [H1 H2]. simpl mv_rearm. cbv iota.
      apply R_intro; simpl; rewrite ?E; simpl; auto.
      * rewrite Hau. reflexivity.
      * intros _. rewrite H1. auto.
      * intro Hx; discriminate.
      * intros g Hgp. destruct (Hp g Hgp) as [H3 _]. split; [lia|]. intro Hx. lia.
    + assert (Hnn : x :: l <> []) by discriminate. destruct (Hne Hnn) as (H1 & H2 & H3 & H4).
      simpl mv_record_all. cbv iota.
      apply R_intro; simpl; rewrite ?E; simpl; auto.
      * rewrite Hau. reflexivity.
      * intro Hx; discriminate.
  - (* leave *)
    rewrite Hen. unfold release_member.
    assert (Hnn : sp_members p <> []) by (intro Hx; rewrite Hx in Hen; discriminate).
    destruct (Hne Hnn) as (H1 & H2 & H3 & H4).
    cbv zeta. cbn [m_members]. rewrite Hm. destruct (is_nil (remn i (sp_members p))) eqn:En.
    + apply is_nil_true in En. unfold close_proxy. cbn [m_closed]. rewrite H1.
      apply R_intro; simpl; rewrite ?En; auto.
      * rewrite Hau, En. reflexivity.
      * rewrite app_nil_r, He. reflexivity.
      * intro Hx; congruence.
      * intros _. rewrite H3. simpl. rewrite Nat.eqb_refl. auto.
      * intros g Hgp. rewrite H3 in Hgp. simpl in Hgp. rewrite Nat.eqb_refl in Hgp. simpl in Hgp.
        apply in_app_or in Hgp. destruct Hgp as [Hgp|[Hgp|[]]].
        -- destruct (Hp g Hgp) as [H5 _]. auto.
        -- subst g. auto.
    + assert (Hr : remn i (sp_members p) <> []) by (intro Hx; rewrite Hx in En; discriminate).
      apply R_intro; simpl; auto.
      * rewrite Hau. reflexivity.
      * rewrite He. reflexivity.
      * intro Hx; contradiction.
  - (* publish *)
    rewrite <- Ha. destruct (m_alive s) eqn:Eal.
    + apply R_intro; simpl; auto.
      unfold deliver. destruct (sp_members p) as [|x l] eqn:E.
      * destruct (Hnil eq_refl) as [H1 _]. rewrite H1, Hg. destruct (negb (m_closed s) && m_sock s); reflexivity.
      * assert (Hnn : x :: l <> []) by discriminate. destruct (Hne Hnn) as (H1 & H2 & H3 & _).
        rewrite H1, H2, H3, Hau, Hg. simpl. rewrite app_nil_r. reflexivity.
    + apply R_intro; simpl; auto.
      * rewrite Eal. exact Ha.
      * intro Hx. destruct (Hne Hx) as (_ & _ & _ & Hf). discriminate.
  - (* end *)
    destruct (sp_members p) as [|x l] eqn:E.
    + destruct (Hnil eq_refl) as [H1 H2]. rewrite H1. simpl fold_left.
      apply R_intro; simpl; auto.
      * rewrite app_nil_r. exact He.
      * intro Hx; congruence.
    + assert (Hnn : x :: l <> []) by discriminate. destruct (Hne Hnn) as (H1 & H2 & H3 & H4).
      rewrite H3. simpl fold_left. unfold cycle_close. cbn [m_gen mv_gen_close mfixed]. rewrite Nat.eqb_refl.
      simpl negb. rewrite andb_false_r. unfold close_proxy. cbn [m_closed]. rewrite H1.
      apply R_intro; simpl; auto.
      * rewrite Hm, Hau. apply filter_self.
      * rewrite He, Hm. reflexivity.
      * intro Hx; congruence.
      * intros g Hgp. destruct (Hp g Hgp) as [H5 _]. auto.
  - (* the delivery goroutine of an earlier cycle runs its deferred Close *)
    destruct (m_pending s) as [|g rest] eqn:Ep.
    + apply R_intro; auto. rewrite Ep. intros g [].
    + assert (Hrest : forall g', In g' rest -> g' <= m_gen s /\ (g' = m_gen s -> m_closed s = true))
        by (intros g' Hg'; apply Hp; right; exact Hg').
      unfold cycle_close. cbn [m_gen mv_gen_close mfixed]. destruct (Nat.eqb g (m_gen s)) eqn:Eg; simpl negb.
      * apply Nat.eqb_eq in Eg. assert (Hc : m_closed s = true) by (apply (Hp g); [left; reflexivity|exact Eg]).
        rewrite andb_false_r. unfold close_proxy. cbn [m_closed]. rewrite Hc.
        apply R_intro; simpl; auto.
        -- intro Hx. destruct (Hne Hx) as (Hf & _). congruence.
        -- intros g0 Hg0. destruct (Hrest g0 Hg0) as [H5 _]. auto.
      * rewrite andb_true_r. apply R_intro; simpl; auto.
Qed.

Lemma mwf_enabled : forall e h joined p,
  mwf (sp_alive p) joined (sp_members p) (e :: h) = true ->
  enabled p e /\ exists joined', mwf (sp_alive (spec_step p e)) joined' (sp_members (spec_step p e)) h = true.
Proof.
  intros e h joined p H. destruct e as [i|i| | |]; simpl in *.
  - apply andb_true_iff in H. destruct H as [H H2]. apply andb_true_iff in H. destruct H as [H0 H1].
    rewrite H0 in *. split; [reflexivity|]. exists (i :: joined). exact H2.
  - apply andb_true_iff in H. destruct H as [H1 H2]. rewrite H1. split; [reflexivity|]. exists joined. exact H2.
  - split; [exact I|]. exists joined. destruct (sp_alive p) eqn:E; simpl; rewrite ?E; exact H.
  - split; [exact I|]. exists joined. exact H.
  - split; [exact I|]. exists joined. exact H.
Qed.

Lemma trace_sim : forall n h s p joined, R s p -> mwf (sp_alive p) joined (sp_members p) h = true ->
  mtrace mfixed n s h = spec_trace n p h /\ R (fold_left (mstep mfixed) h s) (fold_left spec_step h p).
Proof.
  intros n h. induction h as [|e h IH]; intros s p joined HR Hwf; simpl; [auto|].
  destruct (mwf_enabled e h joined p Hwf) as (Hen & joined' & Hwf').
  pose proof (R_step s p e HR Hen) as HR'.
  destruct (IH _ _ joined' HR' Hwf') as [H1 H2]. split; [|exact H2].
  rewrite (R_obs n _ _ HR'), H1. reflexivity.
Qed.

(* the implementation as it is now shows, after every event of every well-formed history with any
   number of join / leave cycles, exactly what the release specification prescribes *)
Theorem mcast_impl_meets_spec : forall n h, hist_wf h = true ->
  mtrace mfixed n minit h = spec_trace n spec0 h.
Proof. intros n h H. apply (trace_sim n h minit spec0 [] R_init H). Qed.

Lemma list_eqb_refl : forall A (eq : A -> A -> bool), (forall x, eq x x = true) -> forall l, mlist_eqb eq l l = true.
Proof. intros A eq H. induction l as [|x l IH]; simpl; [reflexivity|]. rewrite H, IH. reflexivity. Qed.

Lemma mobs_eqb_refl : forall o, mobs_eqb o o = true.
Proof.
  intros o. unfold mobs_eqb. rewrite !Z.eqb_refl, eqb_reflx. simpl.
  rewrite (list_eqb_refl _ Bool.eqb eqb_reflx), (list_eqb_refl _ Z.eqb Z.eqb_refl). reflexivity.
Qed.

Theorem mcast_model_passes : forall n h, hist_wf h = true -> ok_mcast n h (mtrace mfixed n minit h) = true.
Proof.
  intros n h H. unfold ok_mcast. rewrite mcast_impl_meets_spec by exact H.
  apply list_eqb_refl. exact mobs_eqb_refl.
Qed.

(* ---------- what the specification says ---------- *)
(* the state of the proxy after every well-formed history: idle exactly when nobody is attached *)
Theorem mcast_idle_iff_no_member : forall h, hist_wf h = true ->
  let s := mrun mfixed h in let p := spec_run h in
  m_members s = sp_members p /\
  (sp_members p = [] -> m_consumers s = [] /\ m_sock s = false) /\
  (sp_members p <> [] -> m_consumers s = [m_gen s] /\ m_sock s = true /\ m_closed s = false).
Proof.
  intros h H s p. destruct (trace_sim 0 h minit spec0 [] R_init H) as [_ HR].
  destruct HR as (_ & Hm & _ & _ & _ & Hne & Hnil & _). split; [exact Hm|]. split; [exact Hnil|].
  intro Hx. destruct (Hne Hx) as (H1 & H2 & H3 & _). auto.
Qed.

(* every session that joined is attached or has had its connection ended; after the stream's end nobody is attached *)
Lemma spec_joined_inv : forall h p i, (In i (sp_members p) \/ In i (sp_ended p)) ->
  In i (sp_members (fold_left spec_step h p)) \/ In i (sp_ended (fold_left spec_step h p)).
Proof.
  induction h as [|e h IH]; intros p i H; simpl; [exact H|]. apply IH.
  destruct e as [j|j| | |]; simpl.
  - destruct (sp_alive p); simpl; [|exact H]. destruct H as [H|H]; [left; apply in_or_app; auto|auto].
  - destruct (memn j (sp_members p)) eqn:E; simpl; [|exact H].
    destruct H as [H|H].
    + destruct (Nat.eq_dec i j) as [-> | Hn]; [right; apply in_or_app; right; left; reflexivity|].
      left. apply remn_in. auto.
    + right. apply in_or_app; auto.
  - destruct (sp_alive p); exact H.
  - right. destruct H as [H|H]; apply in_or_app; auto.
  - exact H.
Qed.

Lemma spec_join_in : forall h1 i h2 p, sp_alive (fold_left spec_step h1 p) = true ->
  let q := fold_left spec_step (h1 ++ MJoin i :: h2) p in In i (sp_members q) \/ In i (sp_ended q).
Proof.
  intros h1 i h2 p Hal q. unfold q. rewrite fold_left_app. simpl. rewrite Hal.
  apply spec_joined_inv. left. simpl. apply in_or_app. right; left; reflexivity.
Qed.

Lemma spec_dead_stays : forall h p, sp_alive p = false -> sp_members p = [] ->
  sp_alive (fold_left spec_step h p) = false /\ sp_members (fold_left spec_step h p) = [].
Proof.
  induction h as [|e h IH]; intros p Ha Hm; simpl; [auto|]. apply IH.
  - destruct e as [j|j| | |]; simpl; rewrite ?Ha, ?Hm; simpl; auto.
  - destruct e as [j|j| | |]; simpl; rewrite ?Ha, ?Hm; simpl; auto.
Qed.

(* after the stream has ended every session that had joined has had its connection ended, whichever
   cycle it belonged to, and the proxy is idle *)
Theorem mcast_end_closes_every_member : forall h1 h2 i, hist_wf (h1 ++ MEnd :: h2) = true ->
  In (MJoin i) h1 ->
  let s := mrun mfixed (h1 ++ MEnd :: h2) in
  In i (m_ended s) /\ m_members s = [] /\ m_consumers s = [] /\ m_sock s = false.
Proof.
  intros h1 h2 i Hwf Hj s.
  destruct (trace_sim 0 _ minit spec0 [] R_init Hwf) as [_ HR]. fold (mrun mfixed (h1 ++ MEnd :: h2)) in HR.
  fold s in HR. destruct HR as (_ & Hm & _ & He & _ & _ & Hnil & _).
  set (p := fold_left spec_step (h1 ++ MEnd :: h2) spec0) in *.
  assert (Hdead : sp_alive p = false /\ sp_members p = []).
  { unfold p. rewrite fold_left_app. simpl. apply spec_dead_stays; reflexivity. }
  destruct Hdead as [_ Hmem]. rewrite Hm, He. destruct (Hnil Hmem) as [H1 H2].
  split; [|auto].
  (* i joined in h1, while the stream was alive (well-formedness) *)
  apply in_split in Hj. destruct Hj as (a & b & ->).
  assert (Hal : sp_alive (fold_left spec_step a spec0) = true).
  { clear - Hwf. unfold hist_wf in Hwf. rewrite <- app_assoc in Hwf. simpl in Hwf.
    assert (G : forall a0 joined q, mwf (sp_alive q) joined (sp_members q) (a0 ++ MJoin i :: b ++ MEnd :: h2) = true ->
                sp_alive (fold_left spec_step a0 q) = true).
    { induction a0 as [|e a0 IH]; intros joined q H; simpl in *.
      - apply andb_true_iff in H. destruct H as [H _]. apply andb_true_iff in H. destruct H as [H _]. exact H.
      - destruct (mwf_enabled e _ joined q H) as (_ & joined' & H'). apply (IH joined'). exact H'. }
    apply (G a [] spec0). exact Hwf. }
  pose proof (spec_join_in a i (b ++ MEnd :: h2) spec0 Hal) as Hin. simpl in Hin.
  assert (Hpe : p = fold_left spec_step (a ++ MJoin i :: b ++ MEnd :: h2) spec0)
    by (unfold p; rewrite <- app_assoc; reflexivity).
  rewrite <- Hpe in Hin. rewrite Hmem in Hin. destruct Hin as [[]|Hin]. exact Hin.
Qed.

(* nobody is disconnected without cause: a session's connection is ended only by its own leave or by the stream's end *)
Lemma spec_ended_cause : forall h p i,
  In i (sp_ended (fold_left spec_step h p)) -> In i (sp_ended p) \/ In (MLeave i) h \/ In MEnd h.
Proof.
  induction h as [|e h IH]; intros p i H; simpl in *; [auto|].
  apply IH in H. destruct H as [H|[H|H]]; [|auto|auto].
  destruct e as [j|j| | |]; simpl in H.
  - destruct (sp_alive p); auto.
  - destruct (memn j (sp_members p)); simpl in H; [|auto].
    apply in_app_or in H. destruct H as [H|[H|[]]]; [auto|]. subst. right; left; left; reflexivity.
  - destruct (sp_alive p); auto.
  - right; right; left; reflexivity.
  - auto.
Qed.

Theorem mcast_stop_is_local : forall h i, hist_wf h = true ->
  In i (m_ended (mrun mfixed h)) -> In (MLeave i) h \/ In MEnd h.
Proof.
  intros h i Hwf Hin. destruct (trace_sim 0 h minit spec0 [] R_init Hwf) as [_ HR].
  destruct HR as (_ & _ & _ & He & _). unfold mrun in Hin. rewrite He in Hin.
  apply spec_ended_cause in Hin. destruct Hin as [[]|H]; exact H.
Qed.

(* ---------- the code without one of the three restart safeguards: computed witnesses ---------- *)
Definition mseed := {| mv_rearm := false; mv_record_all := true; mv_gen_close := true |}.
Definition mone := {| mv_rearm := true; mv_record_all := false; mv_gen_close := true |}.
Definition mstale := {| mv_rearm := true; mv_record_all := true; mv_gen_close := false |}.

(* the closed flag is not re-armed: from the second cycle on the last leave does not stop the proxy's consumer … *)
Example mcast_no_rearm_leave_refuted :
  let h := [MJoin 0; MLeave 0; MExit; MJoin 1; MLeave 1] in
  hist_wf h = true /\ sp_members (spec_run h) = [] /\
  m_consumers (mrun mseed h) = [2] /\ m_sock (mrun mseed h) = true.
Proof. vm_compute. auto. Qed.

(* … and the stream's end does not close the member of the current cycle *)
Example mcast_no_rearm_end_refuted :
  let h := [MJoin 0; MLeave 0; MExit; MJoin 1; MEnd] in
  hist_wf h = true /\ memn 1 (sp_ended (spec_run h)) = true /\
  memn 1 (m_ended (mrun mseed h)) = false /\ m_sock (mrun mseed h) = true.
Proof. vm_compute. auto. Qed.

(* only the member that starts the proxy is recorded (the code before the repair): a second member loses
   the stream when the first one leaves, and is not closed when the stream ends *)
Example mcast_one_member_refuted :
  hist_wf [MJoin 0; MJoin 1; MLeave 0] = true /\
  sp_members (spec_run [MJoin 0; MJoin 1; MLeave 0]) = [1] /\
  m_consumers (mrun mone [MJoin 0; MJoin 1; MLeave 0]) = [] /\
  memn 1 (sp_ended (spec_run [MJoin 0; MJoin 1; MEnd])) = true /\
  memn 1 (m_ended (mrun mone [MJoin 0; MJoin 1; MEnd])) = false.
Proof. vm_compute. auto. Qed.

(* the deferred Close of the previous cycle's delivery goroutine runs after the proxy was restarted (the code
   before the repair): it stops the new cycle's consumer and disconnects its member *)
Example mcast_stale_close_refuted :
  let h := [MJoin 0; MLeave 0; MJoin 1; MExit] in
  hist_wf h = true /\ sp_members (spec_run h) = [1] /\ memn 1 (sp_ended (spec_run h)) = false /\
  m_consumers (mrun mstale h) = [] /\ memn 1 (m_ended (mrun mstale h)) = true.
Proof. vm_compute. auto. Qed.

(* non-vacuity: three cycles with overlapping members, a delayed goroutine exit, packets in every cycle, then the end *)
Definition mcast_example : list mev :=
  [MJoin 0; MPub; MJoin 1; MPub; MLeave 0; MPub; MLeave 1; MJoin 2; MExit; MPub; MLeave 2; MExit;
   MJoin 3; MJoin 4; MPub; MEnd].

Example mcast_nonvacuous :
  hist_wf mcast_example = true /\
  m_gen (mrun mfixed mcast_example) = 3 /\
  map (fun i => memn i (m_ended (mrun mfixed mcast_example))) (seq 0 5) = [true; true; true; true; true] /\
  map (fun i => countn i (m_got (mrun mfixed mcast_example))) (seq 0 5) = [2; 2; 1; 1; 1]%Z /\
  m_consumers (mrun mfixed mcast_example) = [] /\ m_sock (mrun mfixed mcast_example) = false /\
  ok_mcast 5 mcast_example (mtrace mfixed 5 minit mcast_example) = true /\
  ok_mcast 5 mcast_example (mtrace mseed 5 minit mcast_example) = false /\
  ok_mcast 5 mcast_example (mtrace mone 5 minit mcast_example) = false /\
  ok_mcast 5 [MJoin 0; MLeave 0; MJoin 1; MExit] (mtrace mstale 5 minit [MJoin 0; MLeave 0; MJoin 1; MExit]) = false.
Proof. vm_compute. repeat split. Qed.
