(* C01 — the join replay with packets given by their bytes.

   The stream LTS sees a packet as (id, kind); the kind is the slot the pack cache's CachePack puts
   the packet into.  For a packet given by channel + RTP payload the kind is the classification of
   Model/C02Classify.v ([raw_pkt], Model/C04RawPkt.v): ONE kind per packet, whatever the payload
   carries — an aggregation packet (STAP-A / RFC 7798 AP) with several parameter sets is stored in
   exactly one slot (VPS before SPS before PPS), so the replay a late joiner is given holds it once.
   Here: the cache keeps ids distinct (local form), the join prefix and the whole delivered stream
   have no repeated id for every case whose packets are given by bytes, the oracle accepts the
   model on such cases, and concrete aggregation packets. *)
From Coq Require Import ZArith List Bool Lia.
From V Require Import Val StreamLts Cache C02Classify C02ClassifyProofs LtsWire LtsOracle
                      LtsOracleProofs LtsFanoutProofs C04RawPkt C04RawPktProofs.
Import ListNotations.
Local Open Scope Z_scope.

(* ---------- one kind per packet ---------- *)

(* an aggregation packet is classified by the highest-priority class inside; nothing else of its
   content matters to the cache *)
Theorem agg_kind : forall c x y nals i,
  pform_ok c (PAgg x y nals) = true ->
  p_kind (raw_pkt c i 0 (agg_header c x y ++ concat (map agg_entry nals))) = agg_class c nals.
Proof.
  intros c x y nals i H. pose proof (classify_packetisation c (PAgg x y nals) H) as E.
  cbn [packetise expected map] in E. injection E as E.
  unfold raw_pkt, raw_kind. cbn [p_kind]. rewrite E. reflexivity.
Qed.

(* ---------- the cache stores a packet once ---------- *)

Lemma nodup_mid_replace : forall (A L B : list Z) x,
  NoDup (A ++ L ++ B) -> ~ In x (A ++ L ++ B) -> NoDup (A ++ [x] ++ B).
Proof.
  intros A L B x Hnd Hx.
  assert (HAB : NoDup (A ++ B)).
  { eapply subseq_NoDup; [|exact Hnd].
    clear. induction A as [|a A IH]; simpl.
    - apply subseq_app_r.
    - apply sub_take. exact IH. }
  assert (HxAB : ~ In x (A ++ B)).
  { intro Hin. apply Hx. apply in_app_or in Hin. apply in_or_app.
    destruct Hin; [left; assumption | right; apply in_or_app; right; assumption]. }
  clear Hnd Hx. induction A as [|a A IH]; simpl in *.
  - constructor; assumption.
  - inversion HAB; subst. constructor.
    + intro Hin. apply in_app_or in Hin. destruct Hin as [Hin|[Hin|Hin]].
      * apply H1. apply in_or_app. left. exact Hin.
      * subst. apply HxAB. left. reflexivity.
      * apply H1. apply in_or_app. right. exact Hin.
    + apply IH; [assumption|]. intro Hin. apply HxAB. right. exact Hin.
Qed.

Lemma nodup_mid_extend : forall (A L B : list Z) x,
  NoDup (A ++ L ++ B) -> ~ In x (A ++ L ++ B) -> NoDup (A ++ (L ++ [x]) ++ B).
Proof.
  intros A L B x Hnd Hx. induction A as [|a A IH]; simpl in *.
  - induction L as [|l L IH]; simpl in *.
    + constructor; assumption.
    + inversion Hnd; subst. constructor.
      * intro Hin. rewrite <- app_assoc in Hin. apply in_app_or in Hin. destruct Hin as [Hin|[Hin|Hin]].
        -- apply H1. apply in_or_app. left. exact Hin.
        -- subst. apply Hx. left. reflexivity.
        -- apply H1. apply in_or_app. right. exact Hin.
      * apply IH; [assumption|]. intro Hin. apply Hx. right. exact Hin.
  - inversion Hnd; subst. constructor.
    + intro Hin. apply in_app_or in Hin. destruct Hin as [Hin|Hin].
      * apply H1. apply in_or_app. left. exact Hin.
      * rewrite <- app_assoc in Hin. apply in_app_or in Hin. destruct Hin as [Hin|[Hin|Hin]].
        -- apply H1. apply in_or_app. right. apply in_or_app. left. exact Hin.
        -- subst. apply Hx. left. reflexivity.
        -- apply H1. apply in_or_app. right. apply in_or_app. right. exact Hin.
    + apply IH; [assumption|]. intro Hin. apply Hx. right. exact Hin.
Qed.

Definition ids (l : list pkt) : list Z := map p_id l.

Lemma ids_snap : forall ca,
  ids (rc_snap ca) = ids (opt_list (rc_vps ca)) ++ ids (opt_list (rc_sps ca)) ++
                     ids (opt_list (rc_pps ca)) ++ ids (if rc_gopon ca then rc_gop ca else []).
Proof. intros ca. unfold ids, rc_snap. rewrite !map_app. reflexivity. Qed.

(* adding a packet whose id is not in the cache keeps the ids of the snapshot pairwise distinct:
   the packet goes into one slot (or the GOP list, or nowhere) *)
Theorem rc_add_stores_once : forall ca p,
  NoDup (ids (rc_snap ca)) -> ~ In (p_id p) (ids (rc_snap ca)) ->
  NoDup (ids (rc_snap (rc_add ca p))).
Proof.
  intros ca p Hnd Hx. rewrite ids_snap in Hnd, Hx.
  set (Vl := ids (opt_list (rc_vps ca))) in *. set (Sl := ids (opt_list (rc_sps ca))) in *.
  set (Ql := ids (opt_list (rc_pps ca))) in *.
  assert (Hgop : NoDup (ids (rc_snap (if rc_gopon ca
            then if p_key p
              then {| rc_gopon := true; rc_vps := rc_vps ca; rc_sps := rc_sps ca; rc_pps := rc_pps ca; rc_gop := [p] |}
              else match rc_gop ca with
                   | [] => ca
                   | _ :: _ => {| rc_gopon := true; rc_vps := rc_vps ca; rc_sps := rc_sps ca; rc_pps := rc_pps ca;
                                  rc_gop := rc_gop ca ++ [p] |}
                   end
            else ca)))).
  { destruct (rc_gopon ca) eqn:Hg.
    - destruct (p_key p).
      + rewrite ids_snap. cbn [rc_vps rc_sps rc_pps rc_gop rc_gopon]. fold Vl Sl Ql.
        change (ids [p]) with ([p_id p] ++ []).
        rewrite (app_assoc Vl), (app_assoc (Vl ++ Sl)).
        rewrite (app_assoc Vl), (app_assoc (Vl ++ Sl)) in Hnd, Hx.
        rewrite <- (app_nil_r (ids (rc_gop ca))) in Hnd, Hx.
        eapply nodup_mid_replace; eassumption.
      + destruct (rc_gop ca) as [|g0 gl] eqn:Hgp.
        * rewrite ids_snap, Hg, Hgp. fold Vl Sl Ql. exact Hnd.
        * rewrite ids_snap. cbn [rc_vps rc_sps rc_pps rc_gop rc_gopon]. fold Vl Sl Ql.
          replace (ids ((g0 :: gl) ++ [p])) with (ids (g0 :: gl) ++ [p_id p])
            by (unfold ids; rewrite map_app; reflexivity).
          rewrite (app_assoc Vl), (app_assoc (Vl ++ Sl)).
          rewrite (app_assoc Vl), (app_assoc (Vl ++ Sl)) in Hnd, Hx.
          rewrite <- (app_nil_r (ids (g0 :: gl) ++ [p_id p])).
          rewrite <- (app_nil_r (ids (g0 :: gl))) in Hnd, Hx.
          eapply nodup_mid_extend; eassumption.
    - rewrite ids_snap, Hg. fold Vl Sl Ql. exact Hnd. }
  assert (Hv : NoDup (ids (rc_snap {| rc_gopon := rc_gopon ca; rc_vps := Some p; rc_sps := rc_sps ca;
                                      rc_pps := rc_pps ca; rc_gop := rc_gop ca |}))).
  { rewrite ids_snap. cbn [rc_vps rc_sps rc_pps rc_gop rc_gopon opt_list]. fold Sl Ql.
    change (ids [p]) with ([p_id p]).
    apply (nodup_mid_replace [] Vl); assumption. }
  assert (Hs : NoDup (ids (rc_snap {| rc_gopon := rc_gopon ca; rc_vps := rc_vps ca; rc_sps := Some p;
                                      rc_pps := rc_pps ca; rc_gop := rc_gop ca |}))).
  { rewrite ids_snap. cbn [rc_vps rc_sps rc_pps rc_gop rc_gopon opt_list]. fold Vl Ql.
    change (ids [p]) with ([p_id p]).
    apply (nodup_mid_replace Vl Sl); assumption. }
  assert (Hq : NoDup (ids (rc_snap {| rc_gopon := rc_gopon ca; rc_vps := rc_vps ca; rc_sps := rc_sps ca;
                                      rc_pps := Some p; rc_gop := rc_gop ca |}))).
  { rewrite ids_snap. cbn [rc_vps rc_sps rc_pps rc_gop rc_gopon opt_list]. fold Vl Sl.
    change (ids [p]) with ([p_id p]).
    rewrite (app_assoc Vl). rewrite (app_assoc Vl) in Hnd, Hx.
    apply (nodup_mid_replace (Vl ++ Sl) Ql); assumption. }
  assert (H0 : NoDup (ids (rc_snap ca))) by (rewrite ids_snap; exact Hnd).
  unfold rc_add.
  destruct (p_kind p) as [|pp|pp]; [exact H0| |exact Hgop].
  destruct pp as [[[?|?|]|[?|?|]|]|[[?|?|]|[?|?|]|]|]; try exact Hgop; assumption.
Qed.

(* ---------- every case, packets given by kind or by bytes ---------- *)

(* a case whose packets are given by their bytes *)
Definition raw3 (cd : codec) (r : Z * Z * list Z) : pkt := raw_pkt cd (fst (fst r)) (snd (fst r)) (snd r).

Lemma raw3_ids : forall cd raws, map p_id (map (raw3 cd) raws) = map (fun r => fst (fst r)) raws.
Proof. intros cd raws. rewrite map_map. reflexivity. Qed.

(* For every codec, every list of packets (id, channel, payload bytes) with pairwise distinct ids —
   single NAL units, aggregation packets with any set of parameter sets, fragments, audio, RTCP,
   garbage —, every schedule of the repaired code: the join replay a consumer is given holds no id
   twice, and neither does the whole stream it is handed (replay ++ live). *)
Theorem join_prefix_nodup : forall cd raws (c : lcase),
  l_var c = fixed -> l_pkts c = map (raw3 cd) raws ->
  NoDup (map (fun r => fst (fst r)) raws) ->
  forall i, let k := s_cs _ (lrun c) i in
  NoDup (map p_id (c_prefill k)) /\ NoDup (map p_id (c_out k)) /\
  (forall x, In x (c_prefill k) -> In x (l_pkts c)).
Proof.
  intros cd raws c Hv Hp Hnd i k.
  assert (Hnd' : NoDup (map p_id (l_pkts c))) by (rewrite Hp, raw3_ids; exact Hnd).
  destruct (prefill_facts c Hv i) as (Hin & Hpre & _). fold k in Hin, Hpre.
  specialize (Hpre Hnd').
  split; [exact Hpre|]. split; [|exact Hin].
  unfold k. rewrite (lrun_fixed c Hv).
  apply (out_at_most_once (l_maxq c) rcache (rc_empty (l_gop c)) rc_add rc_snap (l_n c) (pan c)
           (rc_snap_empty (l_gop c)) rc_snap_add (l_pkts c) (stp c) (l_sched c) i Hnd').
  rewrite <- (lrun_fixed c Hv). exact Hpre.
Qed.

(* the same on the wire: a case of the check, packets given as (id kind) or (id _ channel xPAYLOAD) *)
Theorem wire_join_prefix_nodup : forall v,
  l_var (dec_lcase v) = fixed ->
  let c := dec_lcase (norm_case v) in
  NoDup (map p_id (l_pkts c)) ->
  forall i, let k := s_cs _ (lrun c) i in
  NoDup (map p_id (c_prefill k)) /\ NoDup (map p_id (c_out k)).
Proof.
  intros v Hv c Hnd i k.
  assert (Hv' : l_var c = fixed).
  { destruct (norm_case_fields v) as (E & _). cbv zeta in E. unfold c. rewrite E. exact Hv. }
  destruct (prefill_facts c Hv' i) as (_ & Hpre & _). fold k in Hpre. specialize (Hpre Hnd).
  split; [exact Hpre|].
  unfold k. rewrite (lrun_fixed c Hv').
  apply (out_at_most_once (l_maxq c) rcache (rc_empty (l_gop c)) rc_add rc_snap (l_n c) (pan c)
           (rc_snap_empty (l_gop c)) rc_snap_add (l_pkts c) (stp c) (l_sched c) i Hnd).
  rewrite <- (lrun_fixed c Hv'). exact Hpre.
Qed.

(* the oracle accepts the model on every case, packets given by kind or by bytes: this is what
   x_C01_ok computes on (case, observation) *)
Theorem raw_model_passes_C01 : forall v,
  l_var (dec_lcase v) = fixed ->
  ok_C01 (dec_lcase (norm_case v)) (dec_obs (lts_run (norm_case v))) = true.
Proof.
  intros v H. apply wire_model_passes.
  destruct (norm_case_fields v) as (E & _). cbv zeta in E. now rewrite E.
Qed.

(* ---------- concrete aggregation packets ---------- *)

(* RFC 7798 AP carrying VPS + SPS + PPS (the usual way H.265 parameter sets are sent) *)
Definition hevc_vps : list Z := [64; 1; 12; 1].
Definition hevc_sps : list Z := [66; 1; 1; 1; 96].
Definition hevc_pps : list Z := [68; 1; 192; 241].
Definition hevc_ap3 : list Z := agg_header H265 96 1 ++ concat (map agg_entry [hevc_vps; hevc_sps; hevc_pps]).
(* RFC 6184 STAP-A carrying SPS + PPS *)
Definition avc_sps : list Z := [103; 66; 0; 30].
Definition avc_pps : list Z := [104; 206; 60; 128].
Definition avc_stap2 : list Z := agg_header H264 96 0 ++ concat (map agg_entry [avc_sps; avc_pps]).

(* one packet, one slot: the snapshot of a cache that was given the packet holds it once *)
Example agg_packets_one_slot :
  let p5 := raw_pkt H265 1001 0 hevc_ap3 in
  let p4 := raw_pkt H264 1002 0 avc_stap2 in
  pform_ok H265 (PAgg 96 1 [hevc_vps; hevc_sps; hevc_pps]) = true /\
  pform_ok H264 (PAgg 96 0 [avc_sps; avc_pps]) = true /\
  p_kind p5 = 5 /\ p_kind p4 = 3 /\
  rc_snap (rc_add (rc_empty true) p5) = [p5] /\ rc_snap (rc_add (rc_empty false) p5) = [p5] /\
  rc_snap (rc_add (rc_empty true) p4) = [p4].
Proof. vm_compute. repeat split. Qed.

(* non-vacuity of [join_prefix_nodup]: H.265, consumer 0 attached from the start, the publisher
   sends AP(VPS+SPS+PPS), an IDR, a trailing picture; consumer 1 attaches, two more packets;
   consumer 1 is replayed the AP once (and the GOP), consumer 0 got every packet once *)
Definition agg_join_raws : list (Z * Z * list Z) :=
  [ (1001, 0, hevc_ap3); (2, 0, [38; 1; 175; 8]); (3, 0, [2; 1; 208; 9]);
    (4, 0, [2; 1; 208; 10]); (5, 2, [0; 16; 1; 2]) ].
Definition agg_join_case : lcase :=
  {| l_var := fixed; l_n := 2; l_maxq := 8; l_gop := true;
     l_pkts := map (raw3 H265) agg_join_raws; l_stop := [];
     l_sched := repeat (TAtt 0) 3 ++ repeat TPub 9 ++ repeat (TAtt 1) 3 ++ repeat TPub 6 ++
                repeat (TCons 0) 10 ++ repeat (TCons 1) 12;
     l_panic := [] |}.

Example join_prefix_nodup_nonvacuous :
  let s := lrun agg_join_case in
  NoDup (map (fun r => fst (fst r)) agg_join_raws) /\
  map p_kind (l_pkts agg_join_case) = [5; 2; 1; 1; 0] /\
  map p_id (c_prefill (s_cs _ s 1)) = [1001; 2; 3] /\
  map p_id (c_out (s_cs _ s 1)) = [1001; 2; 3; 4; 5] /\
  map p_id (c_out (s_cs _ s 0)) = [1001; 2; 3; 4; 5].
Proof.
  vm_compute. repeat split.
  repeat (constructor; [simpl; intuition discriminate|]). constructor.
Qed.

(* what a cache that stores the AP in three slots makes the late joiner receive (the id three
   times) is rejected by the oracle *)
Definition obs_cons (out : list Z) : cobs :=
  {| o_out := out; o_closes := 0; o_pc := 3; o_reg := true; o_qlen := 0; o_disc := 0;
     o_att := 5; o_stp := 5; o_intact := true |}.
Example replay_in_three_slots_rejected :
  ok_C01 agg_join_case
    {| o_cons := [obs_cons [1001; 2; 3; 4; 5]; obs_cons [1001; 1001; 1001; 2; 3; 4; 5]];
       o_count := 2; o_ok := true; o_pp := 0; o_todo := 0; o_kp := 0 |} = false /\
  ok_C01 agg_join_case
    {| o_cons := [obs_cons [1001; 2; 3; 4; 5]; obs_cons [1001; 2; 3; 4; 5]];
       o_count := 2; o_ok := true; o_pp := 0; o_todo := 0; o_kp := 0 |} = true.
Proof. vm_compute. split; reflexivity. Qed.
