(* C03 — acquire/release balance of the transport adapters under a fault at any step (Model/C03Adapter.v) *)
From Coq Require Import ZArith List Bool Arith Lia.
From V Require Import C03Adapter.
Import ListNotations.
Local Open Scope Z_scope.

Lemma settled_iff : forall c0 n0 s, settled c0 n0 s = true <->
  a_conns s = c0 /\ a_cons s = n0 /\ c0 <= a_low s /\ a_cid s = false.
Proof.
  intros c0 n0 s. unfold settled. rewrite !andb_true_iff, !Z.eqb_eq, Z.leb_le, negb_true_iff. tauto.
Qed.

(* the symbolic check covers every fault point: by induction over the program *)
Theorem safe_exec : forall c0 n0 p D s, safe c0 n0 p D s = true ->
  forall f, settled c0 n0 (exec f p D s) = true.
Proof.
  intros c0 n0 p. induction p as [|i p IH]; intros D s H f; simpl in *; [exact H|].
  destruct i as [o| |d].
  - apply IH. exact H.
  - apply andb_true_iff in H. destruct H as [H1 H2]. destruct f as [|f]; [exact H1|apply IH; exact H2].
  - apply IH. exact H.
Qed.

Lemma safe_repeat : forall c0 n0 k r D s, settled c0 n0 (run_ops D s) = true ->
  safe c0 n0 (repeat IFallible k ++ r) D s = safe c0 n0 r D s.
Proof.
  intros c0 n0 k r D s H. induction k as [|k IH]; simpl; [reflexivity|]. rewrite H, IH. reflexivity.
Qed.

Definition cleanup_ok (d : list op) : Prop := d = [OStop; ORelease] \/ d = [ORelease; OStop].

(* the discipline: nothing that can fail stands between the deferred cleanup and the Add it pairs with;
   then the function is balanced for any number of fallible steps before, between and after *)
Theorem adapter_prog_safe : forall a d b c0 n0, cleanup_ok d ->
  safe c0 n0 (adapter_prog a d b) [] (enter c0 n0) = true.
Proof.
  intros a d b c0 n0 Hd. unfold adapter_prog.
  rewrite safe_repeat; [|apply settled_iff; simpl; repeat split; auto; lia].
  change (safe c0 n0 (repeat IFallible b ++ [IOp OStart; IFallible]) (d ++ []) (apply_op OAdd (enter c0 n0)) = true).
  rewrite app_nil_r.
  assert (H1 : settled c0 n0 (run_ops d (apply_op OAdd (enter c0 n0))) = true).
  { apply settled_iff. destruct Hd as [-> | ->]; cbn -[Z.add Z.sub Z.min]; repeat split; auto; lia. }
  rewrite safe_repeat by exact H1.
  assert (H2 : settled c0 n0 (run_ops d (apply_op OStart (apply_op OAdd (enter c0 n0)))) = true).
  { apply settled_iff. destruct Hd as [-> | ->]; cbn -[Z.add Z.sub Z.min]; repeat split; auto; lia. }
  change (settled c0 n0 (run_ops d (apply_op OStart (apply_op OAdd (enter c0 n0)))) &&
          settled c0 n0 (run_ops d (apply_op OStart (apply_op OAdd (enter c0 n0)))) = true).
  rewrite H2. reflexivity.
Qed.

Theorem adapter_balanced : forall a d b c0 n0 f, cleanup_ok d ->
  let r := exec f (adapter_prog a d b) [] (enter c0 n0) in
  a_conns r = c0 /\ a_cons r = n0 /\ c0 <= a_low r /\ a_cid r = false.
Proof.
  intros a d b c0 n0 f Hd r. apply settled_iff. apply safe_exec. apply adapter_prog_safe. exact Hd.
Qed.

Lemma exec_repeat_skip : forall k f r D s, exec (k + f) (repeat IFallible k ++ r) D s = exec f r D s.
Proof. induction k as [|k IH]; intros; simpl; [reflexivity|apply IH]. Qed.

(* Add behind a fallible step whose cleanup is already deferred: a fault there releases what was never added *)
Theorem late_add_refuted : forall a d b c0 n0, cleanup_ok d ->
  let r := exec a (late_add_prog a d (S b)) [] (enter c0 n0) in
  a_conns r = c0 - 1 /\ a_low r = c0 - 1.
Proof.
  intros a d b c0 n0 Hd r.
  assert (Hr : r = run_ops d (enter c0 n0)).
  { unfold r, late_add_prog. pose proof (exec_repeat_skip a 0) as H. rewrite Nat.add_0_r in H. rewrite H.
    simpl. rewrite app_nil_r. reflexivity. }
  rewrite Hr. destruct Hd as [-> | ->]; cbn -[Z.add Z.sub Z.min]; split; lia.
Qed.

Lemma prog_of_balanced : forall kind nreq c0 n0 f,
  let r := exec f (prog_of kind nreq) [] (enter c0 n0) in
  a_conns r = c0 /\ a_cons r = n0 /\ c0 <= a_low r /\ a_cid r = false.
Proof.
  intros kind nreq c0 n0 f. unfold prog_of.
  destruct ((kind =? 4) || (kind =? 5)); [|destruct (kind =? 3)];
    apply adapter_balanced; unfold cleanup_ok; auto.
Qed.

Lemma set_get_proto : forall p s, set_proto p (get_proto p s) s (f_cc s) (f_low s) = s.
Proof. intros [|[|p]] [a b c d e]; reflexivity. Qed.

Lemma low_le_start : forall f p D s, a_low (exec f p D s) <= a_low s.
Proof.
  assert (Hop : forall o s, a_low (apply_op o s) <= a_low s).
  { intros [] s; simpl; try lia. destruct (a_cid s); simpl; lia. }
  assert (Hops : forall l s, a_low (run_ops l s) <= a_low s).
  { induction l as [|o l IH]; intros s; simpl; [lia|]. specialize (IH (apply_op o s)). specialize (Hop o s).
    unfold run_ops in *. lia. }
  intros f p. revert f. induction p as [|i p IH]; intros f D s; simpl; [apply Hops|].
  destruct i as [o| |d].
  - specialize (IH f D (apply_op o s)). specialize (Hop o s). lia.
  - destruct f; [apply Hops|apply IH].
  - apply IH.
Qed.

(* an attempt that ends — by a fault at whatever step, or by leaving — leaves the three counters and the
   stream's consumer count exactly as they were, and no counter was ever below its value at the start *)
Theorem attempt_changes_nothing : forall s a, f_low s <= 0 -> attempt prog_of s a = s.
Proof.
  intros s [[kind nreq] f] Hl. unfold attempt.
  destruct (prog_of_balanced kind nreq (get_proto (proto_of kind) s) (f_cc s) f) as (H1 & H2 & H3 & _).
  pose proof (low_le_start f (prog_of kind nreq) [] (enter (get_proto (proto_of kind) s) (f_cc s))) as H4.
  simpl a_low in H4. rewrite H1, H2.
  replace (Z.min (f_low s) _) with (f_low s) by lia. apply set_get_proto.
Qed.

Lemma with_bg_low : forall bg s, f_low s = 0 -> f_low (fold_left attach_bg bg s) = 0.
Proof.
  induction bg as [|k bg IH]; intros s H; simpl; [exact H|]. apply IH.
  unfold attach_bg. destruct (proto_of k) as [|[|p]]; exact H.
Qed.

Theorem faults_meet_spec : forall bg l, faults_run prog_of bg l = faults_spec bg l.
Proof.
  intros bg l. unfold faults_run, faults_spec. f_equal.
  assert (Hl : f_low (with_bg bg) <= 0) by (unfold with_bg; rewrite with_bg_low; [lia|reflexivity]).
  generalize dependent (with_bg bg). induction l as [|a l IH]; intros s Hl; simpl; [reflexivity|].
  rewrite attempt_changes_nothing by exact Hl. f_equal. apply IH. exact Hl.
Qed.

(* the counters never drop below their values at the start, through any sequence of faulty attempts *)
Theorem faults_never_below : forall bg l,
  f_low (fold_left (attempt prog_of) l (with_bg bg)) = 0.
Proof.
  intros bg l.
  assert (Hl : f_low (with_bg bg) = 0) by (unfold with_bg; apply with_bg_low; reflexivity).
  generalize dependent (with_bg bg). induction l as [|a l IH]; intros s Hl; simpl; [exact Hl|].
  rewrite attempt_changes_nothing by lia. apply IH. exact Hl.
Qed.

Lemma fobs_eqb_refl : forall o, fobs_eqb o o = true.
Proof. intros [[[a b] c] d]. simpl. rewrite !Z.eqb_refl. reflexivity. Qed.
Lemma flist_eqb_refl : forall l, flist_eqb l l = true.
Proof. induction l as [|x l IH]; simpl; [reflexivity|]. rewrite fobs_eqb_refl, IH. reflexivity. Qed.

Theorem faults_model_passes : forall bg l, ok_faults bg l (faults_run prog_of bg l) = true.
Proof. intros bg l. unfold ok_faults. rewrite faults_meet_spec. apply flist_eqb_refl. Qed.

(* ---------- the seeded shape on the ws-FLV adapter ---------- *)
Definition prog_late_flv (kind : Z) (nreq : nat) : list instr :=
  if (kind =? 5) then late_add_prog 2 [OStop; ORelease] 1 else prog_of kind nreq.

(* three viewers whose FLV header write fails (fault point 2), a normal ws-rtsp viewer attached throughout:
   the flv counter goes to -1, -2, -3 and stays there *)
Example late_add_wsflv_refuted :
  faults_run prog_late_flv [2] [(5, O, 2%nat); (5, O, 2%nat); (5, O, 2%nat)] =
    [(1, -1, 0, 1); (1, -2, 0, 1); (1, -3, 0, 1); (0, 0, 0, 0)] /\
  ok_faults [2] [(5, O, 2%nat); (5, O, 2%nat); (5, O, 2%nat)]
    (faults_run prog_late_flv [2] [(5, O, 2%nat); (5, O, 2%nat); (5, O, 2%nat)]) = false /\
  (* every other fault point, and the ordinary viewer, behave as before: why the change hides *)
  faults_run prog_late_flv [] [(5, O, 0%nat); (5, O, 1%nat); (5, O, 3%nat); (5, O, 9%nat)] =
    faults_spec [] [(5, O, 0%nat); (5, O, 1%nat); (5, O, 3%nat); (5, O, 9%nat)].
Proof. vm_compute. auto. Qed.

(* non-vacuity: every transport, every fault point of its handshake, two viewers attached throughout *)
Definition faults_example : list (Z * nat * nat) :=
  [(0, 4%nat, 0%nat); (0, 4%nat, 1%nat); (0, 4%nat, 2%nat); (0, 4%nat, 3%nat); (0, 4%nat, 4%nat); (0, 4%nat, 7%nat); (1, 3%nat, 2%nat); (2, 4%nat, 1%nat); (3, 4%nat, 0%nat); (3, 4%nat, 3%nat); (3, 4%nat, 9%nat); (4, 0%nat, 0%nat); (4, 0%nat, 1%nat); (4, 0%nat, 2%nat); (4, 0%nat, 3%nat); (5, 0%nat, 0%nat); (5, 0%nat, 1%nat); (5, 0%nat, 2%nat); (5, 0%nat, 3%nat); (5, 0%nat, 5%nat)].
Example faults_nonvacuous :
  faults_run prog_of [0; 5] faults_example = map (fun _ => (1, 1, 0, 2)) faults_example ++ [(0, 0, 0, 0)] /\
  ok_faults [0; 5] faults_example (faults_run prog_of [0; 5] faults_example) = true /\
  a_conns (exec 2 (prog_of 5 0) [] (enter 1 2)) = 1 /\ a_low (exec 2 (prog_of 5 0) [] (enter 1 2)) = 1.
Proof. vm_compute. auto. Qed.
