(* the factories the C17 "publish" stream decodes from a case keep the factory contract, so
   C17_publish_model_passes applies to every case of the stream *)
From Coq Require Import ZArith List Bool.
From V Require Import Val Bytes StrGo Route C17Publish C17PublishProofs RunC17 RunC17Publish.
Import ListNotations.

Lemma dec_factory_honest v : honest (dec_factory v).
Proof.
  unfold dec_factory. destruct (as_int (nthv 0 v)); [apply rtsp_factory_contract | apply newstream_honest ..].
Qed.

Theorem run_factories_honest c : Forall honest (c17p_fs c).
Proof. unfold c17p_fs. apply Forall_forall. intros f I. apply in_map_iff in I as [v [<- _]]. apply dec_factory_honest. Qed.

Theorem run_model_passes c :
  forallb (pop_wf url_ok_all) (c17p_ops c) = true ->
  ok_phist url_ok_all (c17p_fs c) pinit (c17p_ops c)
    (snd (prun url_ok_all (c17p_fs c) pinit (c17p_ops c))) = true.
Proof. intros W. apply publish_model_passes; [apply run_factories_honest | exact W | reflexivity]. Qed.
