(* C09 — concurrent mpegts.Writers sharing the scratch-buffer pool: every writer's output is the
   single-writer output of its own frames, for every interleaving and every behaviour of the pool.
   Instance of the pool theorems of C13 (Proofs/C13PoolProofs.v). *)
From Coq Require Import ZArith List Bool Arith Lia.
From V Require Import Bytes BytesLemmas C13Pool C13PoolProofs C09TsFrame C09TsWriter C09TsDemux
  C09CodecProofs C09StreamProofs C09TsPool.
Import ListNotations.
Close Scope Z_scope.
Open Scope nat_scope.

(* ---- the writer's program keeps the discipline ---- *)
Lemma disc_sends k held n rest : has_var 0 held = true ->
  disc held (repeat (ISend 0 k) n ++ rest) = disc held rest.
Proof. intros H. induction n as [| n IH]; [reflexivity |]. cbn [repeat app disc]. rewrite H, IH. reflexivity. Qed.

Lemma disc_frame_prog k f rest : disc [] (frame_prog k f ++ rest) = disc [] rest.
Proof.
  unfold frame_prog. destruct (has_payload f); [| reflexivity].
  rewrite <- !app_assoc. cbn [app disc has_var existsb negb andb Nat.eqb orb].
  rewrite disc_sends by reflexivity. reflexivity.
Qed.

Lemma disc_writer_prog k fs : disc [] (writer_prog k fs) = true.
Proof.
  induction fs as [| f fs IH]; [reflexivity |].
  unfold writer_prog in *. cbn [flat_map]. rewrite disc_frame_prog. exact IH.
Qed.

Lemma disciplined_from t fss : disciplined (writers_progs_from t fss) = true.
Proof.
  revert t. induction fss as [| fs fss IH]; intros t; [reflexivity |].
  unfold disciplined in *. cbn [writers_progs_from forallb]. rewrite disc_writer_prog. apply IH.
Qed.

Lemma nth_progs_from i : forall t fss, i < length fss ->
  nth i (writers_progs_from t fss) [] = writer_prog (t + i) (nth i fss []).
Proof.
  induction i as [| i IH]; intros t fss Hi; destruct fss as [| fs fss]; cbn [length] in Hi; try lia.
  - cbn. rewrite Nat.add_0_r. reflexivity.
  - cbn [writers_progs_from nth]. rewrite IH by lia. f_equal. lia.
Qed.

(* ---- what the program reads: its own frame, once per packet ---- *)
Definition own_reads (f : tsframe) : list bytes :=
  if has_payload f then repeat (frame_data f) (frame_npk f) else [].

Lemma msgs_sends k want n rest :
  prog_msgs k want (repeat (ISend 0 k) n ++ rest) = repeat (want 0) n ++ prog_msgs k want rest.
Proof.
  induction n as [| n IH]; [reflexivity |]. cbn [repeat app prog_msgs]. rewrite Nat.eqb_refl, IH. reflexivity.
Qed.

Lemma msgs_frame k want f rest : exists want',
  prog_msgs k want (frame_prog k f ++ rest) = own_reads f ++ prog_msgs k want' rest.
Proof.
  unfold frame_prog, own_reads. destruct (has_payload f); [| exists want; reflexivity].
  eexists. rewrite <- !app_assoc. cbn [app prog_msgs]. rewrite msgs_sends.
  rewrite !upd_same. cbn [app prog_msgs]. reflexivity.
Qed.

Lemma msgs_writer k fs : forall want, prog_msgs k want (writer_prog k fs) = flat_map own_reads fs.
Proof.
  induction fs as [| f fs IH]; intros want; [reflexivity |].
  unfold writer_prog in *. cbn [flat_map]. destruct (msgs_frame k want f (flat_map (frame_prog k) fs)) as (w' & H).
  rewrite H, IH. reflexivity.
Qed.

(* ---- the number of packets of a frame does not depend on the counter ---- *)
Lemma ts_packet_rest pid cc cc' first pcr ph data :
  snd (ts_packet pid cc first pcr ph data) = snd (ts_packet pid cc' first pcr ph data).
Proof. unfold ts_packet. destruct (_ <=? _)%Z; [reflexivity |]. destruct pcr; reflexivity. Qed.

Lemma ts_cont_length fuel : forall pid cc cc' data,
  length (fst (ts_cont fuel pid cc data)) = length (fst (ts_cont fuel pid cc' data)).
Proof.
  induction fuel as [| k IH]; intros pid cc cc' data; [reflexivity |].
  cbn [ts_cont]. destruct data as [| d0 data']; [reflexivity |].
  pose proof (ts_packet_rest pid (cc + 1) (cc' + 1) false None [] (d0 :: data')) as Hr.
  destruct (ts_packet pid (cc + 1) false None [] (d0 :: data')) as [p1 r1].
  destruct (ts_packet pid (cc' + 1) false None [] (d0 :: data')) as [p2 r2]. cbn [snd] in Hr. subst r2.
  specialize (IH pid (cc + 1)%Z (cc' + 1)%Z r1).
  destruct (ts_cont k pid (cc + 1) r1) as [m1 c1]. destruct (ts_cont k pid (cc' + 1) r1) as [m2 c2].
  cbn [fst length] in *. lia.
Qed.

Lemma frame_packets_length cc cc' f :
  length (fst (ts_frame_packets cc f)) = length (fst (ts_frame_packets cc' f)).
Proof.
  unfold ts_frame_packets. destruct (f_pay f) as [| b0 pay]; [reflexivity |].
  set (data := f_hdr f ++ b0 :: pay).
  pose proof (ts_packet_rest (f_pid f) (cc + 1) (cc' + 1) true (if f_key f then Some (f_dts f) else None)
                (pes_header f (zlen data)) data) as Hr.
  destruct (ts_packet (f_pid f) (cc + 1) true _ _ data) as [p1 r1].
  destruct (ts_packet (f_pid f) (cc' + 1) true _ _ data) as [p2 r2]. cbn [snd] in Hr. subst r2.
  pose proof (ts_cont_length (length r1) (f_pid f) (cc + 1)%Z (cc' + 1)%Z r1) as Hc.
  destruct (ts_cont (length r1) (f_pid f) (cc + 1) r1) as [m1 c1].
  destruct (ts_cont (length r1) (f_pid f) (cc' + 1) r1) as [m2 c2]. cbn [fst length] in *. lia.
Qed.

Lemma ts_write_length st f : length (fst (ts_write st f)) = frame_npk f.
Proof.
  unfold frame_npk, ts_write. destruct st as (vc, ac). destruct (f_pid f =? TS_AUDIO_PID)%Z.
  - rewrite (frame_packets_length 0 ac f). destruct (ts_frame_packets ac f). reflexivity.
  - rewrite (frame_packets_length 0 vc f). destruct (ts_frame_packets vc f). reflexivity.
Qed.

(* ---- reading one's own bytes gives one's own packets ---- *)
Lemma view_own d : view d d = d.
Proof. unfold view. rewrite skipn_all, app_nil_r. apply firstn_all. Qed.

Lemma frame_packets_with_data cc f : has_payload f = true ->
  ts_frame_packets cc (with_data f (frame_data f)) = ts_frame_packets cc f.
Proof.
  unfold has_payload, frame_data, ts_frame_packets, with_data. cbn [f_pay f_hdr f_pid f_key f_dts app].
  destruct (f_pay f) as [| b0 pay] eqn:E; [discriminate |]. intros _.
  destruct (f_hdr f ++ b0 :: pay) as [| x y] eqn:E2; [destruct (f_hdr f); discriminate |].
  reflexivity.
Qed.

Lemma ts_write_with_data st f : has_payload f = true ->
  ts_write st (with_data f (view (frame_data f) (frame_data f))) = ts_write st f.
Proof.
  intros H. rewrite view_own. unfold ts_write. destruct st as (vc, ac).
  change (f_pid (with_data f (frame_data f))) with (f_pid f).
  rewrite !(frame_packets_with_data _ f H). reflexivity.
Qed.

Lemma packets_from_own st f : has_payload f = true -> forall n j,
  packets_from st f j (repeat (frame_data f) n) = map (fun i => nth i (fst (ts_write st f)) []) (seq j n).
Proof.
  intros H. induction n as [| n IH]; intros j; [reflexivity |].
  cbn [repeat packets_from seq map]. unfold packet_at at 1. rewrite (ts_write_with_data st f H), IH. reflexivity.
Qed.

Lemma map_nth_seq {A} (l : list A) d : map (fun i => nth i l d) (seq 0 (length l)) = l.
Proof.
  induction l as [| x l IH]; [reflexivity |].
  cbn [length seq map nth]. f_equal. rewrite <- seq_shift, map_map. exact IH.
Qed.

Lemma ts_write_no_payload st f : has_payload f = false -> ts_write st f = ([], st).
Proof.
  intros H. unfold ts_write. destruct st as (vc, ac).
  rewrite !(ts_frame_packets_empty _ f (has_payload_false f H)). destruct (_ =? _)%Z; reflexivity.
Qed.

Lemma assemble_own fs : forall st, assemble st fs (flat_map own_reads fs) = fst (ts_write_list st fs).
Proof.
  induction fs as [| f fs IH]; intros st; [reflexivity |].
  cbn [assemble flat_map ts_write_list].
  destruct (has_payload f) eqn:H.
  - assert (Eo : own_reads f = repeat (frame_data f) (frame_npk f)) by (unfold own_reads; rewrite H; reflexivity).
    rewrite Eo.
    assert (Hl : length (repeat (frame_data f) (frame_npk f)) = frame_npk f) by apply repeat_length.
    set (own := repeat (frame_data f) (frame_npk f)) in *. set (R := flat_map own_reads fs).
    assert (Hf : firstn (frame_npk f) (own ++ R) = own) by (rewrite <- Hl; apply firstn_app_len).
    assert (Hk : skipn (frame_npk f) (own ++ R) = R) by (rewrite <- Hl; apply skipn_app_len).
    rewrite Hf, Hk. subst own R.
    rewrite (packets_from_own st f H). rewrite <- (ts_write_length st f), map_nth_seq, IH.
    destruct (ts_write st f) as [pk st']. cbn [fst snd]. destruct (ts_write_list st' fs). reflexivity.
  - assert (Eo : own_reads f = []) by (unfold own_reads; rewrite H; reflexivity).
    rewrite Eo. cbn [app]. rewrite IH, (ts_write_no_payload st f H). destruct (ts_write_list st fs). reflexivity.
Qed.

(* ---- the theorem ---- *)
Theorem writers_independent fss sched :
  let s := prun sched (pinit (writers_progs fss)) in
  pfinished (length fss) s = true ->
  forall t, t < length fss -> writer_output s t (nth t fss []) = ts_write_all (nth t fss []).
Proof.
  intros s Hfin t Ht. unfold writer_output.
  pose proof (disciplined_from 0 fss) as D.
  pose proof (pool_sender_complete (writers_progs fss) sched D t t (pfinished_spec _ _ Hfin t Ht)) as Hs.
  fold s in Hs. rewrite Hs. unfold writers_progs. rewrite nth_progs_from by exact Ht. cbn [Nat.add].
  unfold intended. rewrite msgs_writer, assemble_own. reflexivity.
Qed.

(* ownership at every point of every execution of the writers *)
Theorem writers_pool_ownership fss sched :
  let s := prun sched (pinit (writers_progs fss)) in
  NoDup (ps_pool s) /\
  (forall t v b, holds s t v b -> ~ In b (ps_pool s)) /\
  (forall t1 v1 t2 v2 b, holds s t1 v1 b -> holds s t2 v2 b -> t1 = t2 /\ v1 = v2).
Proof. apply pool_ownership. apply disciplined_from. Qed.

(* the buffer put back before the packets are cut: writer 0 (two-packet frame) reads its second
   packet after writer 1 has taken the same buffer — its output is no longer its own *)
Definition ex_fa : tsframe :=
  {| f_pid := 256%Z; f_sid := 224%Z; f_dts := 0%Z; f_pts := 0%Z; f_hdr := [];
     f_pay := repeat_byte 170%Z 200%Z; f_key := false |}.
Definition ex_fb : tsframe :=
  {| f_pid := 256%Z; f_sid := 224%Z; f_dts := 0%Z; f_pts := 0%Z; f_hdr := [];
     f_pay := repeat_byte 187%Z 200%Z; f_key := false |}.

Example early_put_refuted :
  let progs := [frame_prog_early_put 0 ex_fa; frame_prog_early_put 1 ex_fb] in
  let sched := [(0,0);(0,0);(0,0);(0,0);(0,0); (1,0);(1,0);(1,0);(1,0);(1,0);(1,0); (0,0)] in
  let s := prun sched (pinit progs) in
  disciplined progs = false /\ pfinished 2 s = true /\
  writer_output s 1 [ex_fb] = ts_write_all [ex_fb] /\
  bytes_eqb (writer_output s 0 [ex_fa]) (ts_write_all [ex_fa]) = false /\
  ok_writer [ex_fa] (writer_output s 0 [ex_fa]) = false.
Proof. vm_compute. repeat split; reflexivity. Qed.

Example good_writers_run :
  let fss := [[ex_fa]; [ex_fb]] in
  let sched := [(0,0);(0,0);(0,0);(0,0); (1,0);(1,0);(1,0);(1,0);(1,0);(1,0); (0,0);(0,0)] in
  let s := prun sched (pinit (writers_progs fss)) in
  pfinished 2 s = true /\ ok_writer [ex_fa] (writer_output s 0 [ex_fa]) = true /\
  ps_next s = 2.
Proof. vm_compute. repeat split; reflexivity. Qed.
