(* C02 — the join replay is a function of the published tags only.  In the shared-reference world
   model of several FLV clients (Model/C08Fanout.v: one tag store, the cache and every client hold
   references, clients' routines run in any order), the client that attaches after the schedule
   prefix [pre] is handed exactly  push_to store (cache of the tags delivered in pre)  followed by
   references to the tags delivered afterwards — no EConsume event (another viewer's flv.Writer
   processing shared tags) and no other attachment occurs in that expression — and the store is
   what it was.  Built on C08's flv_clients_independent. *)
From Coq Require Import ZArith List Bool Arith Lia.
From V Require Import Bytes C08Amf0 C08Flv C08Fanout C08FanoutProofs.
Import ListNotations.

Fixpoint delivs (l : list fev) : list nat :=
  match l with
  | [] => []
  | EDeliver i :: r => i :: delivs r
  | _ :: r => delivs r
  end.
Fixpoint attaches (l : list fev) : nat :=
  match l with
  | [] => O
  | EAttach :: r => S (attaches r)
  | _ :: r => attaches r
  end.

Definition cache_after (store : list tag) (l : list fev) : fcache :=
  fold_left (cache_pack store) (delivs l) fc_empty.

Lemma hfold_fst : forall store l s,
  fst (fold_left (hstep store) l s) = fold_left (cache_pack store) (delivs l) (fst s).
Proof.
  intros store. induction l as [|e l IH]; intros s; [reflexivity|].
  cbn [fold_left]. rewrite IH. destruct e; reflexivity.
Qed.

Lemma hfold_len : forall store l s,
  length (snd (fold_left (hstep store) l s)) = (length (snd s) + attaches l)%nat.
Proof.
  intros store. induction l as [|e l IH]; intros s; [cbn; lia|].
  cbn [fold_left]. rewrite IH. destruct e; cbn [hstep snd attaches].
  - rewrite map_length. lia.
  - rewrite app_length. cbn. lia.
  - lia.
Qed.

Lemma nth_map_lt : forall A B (f : A -> B) l j d d',
  (j < length l)%nat -> nth j (map f l) d' = f (nth j l d).
Proof.
  intros A B f l j d d' H. rewrite (nth_indep _ d' (f d)) by (rewrite map_length; exact H). apply map_nth.
Qed.

Lemma hfold_old : forall store l s j, (j < length (snd s))%nat ->
  nth j (snd (fold_left (hstep store) l s)) [] = nth j (snd s) [] ++ map QRef (delivs l).
Proof.
  intros store. induction l as [|e l IH]; intros s j Hj; [cbn; rewrite app_nil_r; reflexivity|].
  cbn [fold_left]. destruct e as [i| |a b]; cbn [delivs].
  - rewrite IH by (cbn [hstep snd]; rewrite map_length; exact Hj).
    cbn [hstep snd]. rewrite (nth_map_lt _ _ _ _ _ [] []) by exact Hj.
    rewrite <- app_assoc. reflexivity.
  - rewrite IH by (cbn [hstep snd]; rewrite app_length; lia).
    cbn [hstep snd]. rewrite app_nth1 by exact Hj. reflexivity.
  - apply IH. exact Hj.
Qed.

Theorem fan_hist_join : forall store pre post,
  nth (attaches pre) (fan_hist store (pre ++ EAttach :: post)) [] =
  push_to store (cache_after store pre) ++ map QRef (delivs post).
Proof.
  intros store pre post. unfold fan_hist. rewrite fold_left_app. cbn [fold_left].
  set (s1 := fold_left (hstep store) pre (fc_empty, [])).
  assert (L : length (snd s1) = attaches pre) by (unfold s1; rewrite hfold_len; reflexivity).
  assert (F : fst s1 = cache_after store pre) by (unfold s1; rewrite hfold_fst; reflexivity).
  rewrite hfold_old by (cbn [hstep snd]; rewrite app_length; cbn; lia).
  cbn [hstep snd]. rewrite <- L, nth_middle, F. reflexivity.
Qed.

(* JOIN REPLAY INDEPENDENT OF THE OTHER CONSUMERS: for every tag store, every schedule prefix and
   suffix (deliveries, other attachments, any runs of any client's writer): the tags are unchanged
   at the end, the joiner was handed the cache of the tags delivered before it attached plus the
   later deliveries, and its byte stream is what one fresh writer makes of exactly those tags *)
Theorem flv_join_independent_of_viewers : forall store pre post,
  let sched := pre ++ EAttach :: post in
  let handed := push_to store (cache_after store pre) ++ map QRef (delivs post) in
  fst (fan_run store sched) = store /\
  nth (attaches pre) (fan_hist store sched) [] = handed /\
  nth (attaches pre) (snd (fan_run store sched)) [] = write_tags w_init (map (resolve store) handed).
Proof.
  intros store pre post sched handed.
  pose proof (fan_run_independent_lemma store sched) as E.
  pose proof (fan_hist_join store pre post) as H. fold sched in H. fold handed in H.
  rewrite E. cbn [fst snd]. split; [reflexivity|]. split; [exact H|].
  assert (Hlt : (attaches pre < length (fan_hist store sched))%nat).
  { unfold fan_hist, sched. rewrite hfold_len. cbn [snd length].
    clear. induction pre as [|e pre IH]; cbn; [lia|]. destruct e; cbn; lia. }
  rewrite (nth_map_lt (list qitem) bytes _ _ _ [] []) by exact Hlt. rewrite H. reflexivity.
Qed.
