(* C12 — read deadline: a playing session never times out, an idle one exactly at its deadline *)
From Coq Require Import ZArith List Bool Lia.
From V Require Import Val Bytes StrGo BytesLemmas C12RtspSession C12RtspInv C12Timeout.
Import ListNotations.
Open Scope Z_scope.

Definition tinv (t : tsess) : Prop :=
  s_closed (ts_s t) = false ->
  (is_playing (ts_s t) = true -> ts_deadline t = None) /\
  (is_playing (ts_s t) = false -> exists dl, ts_deadline t = Some dl).

Lemma tinv_init : forall T ws wp, tinv (tinit T ws wp).
Proof. intros T ws wp _. cbn. split; [discriminate | eauto]. Qed.

Lemma tinv_step : forall T e t ev, tinv t -> tinv (fst (tstep true T e t ev)).
Proof.
  intros T e t ev Hi. unfold tinv in *. destruct ev as [q | d]; cbn [tstep].
  - destruct (step e (ts_s t) q) as [[s' rs] fs]. cbn [fst]. intros Hc. cbn [ts_s ts_deadline] in *.
    rewrite Hc. unfold arm. destruct (is_playing s'); split; intros; try discriminate; eauto.
  - destruct (ts_deadline t) as [dl|] eqn:Hd.
    + destruct ((dl <=? ts_now t + d) && negb (s_closed (ts_s t))) eqn:Hb; cbn [fst].
      * intros Hc. cbn [ts_s] in Hc. apply andb_true_iff in Hb. destruct Hb as [_ Hb].
        unfold disconnect in Hc. destruct (s_closed (ts_s t)); [discriminate Hb | cbn in Hc; discriminate Hc].
      * intros Hc. cbn [ts_s ts_deadline] in *. exact (Hi Hc).
    + cbn [fst]. intros Hc. cbn [ts_s ts_deadline] in *. exact (Hi Hc).
Qed.

Lemma trun_inv : forall T e evs t, tinv t -> tinv (fst (trun true T e t evs)).
Proof.
  intros T e evs. induction evs as [|ev evs IH]; intros t Hi; [exact Hi|].
  cbn [trun]. pose proof (tinv_step T e t ev Hi) as H1.
  destruct (tstep true T e t ev) as [t1 o]. cbn [fst] in H1.
  specialize (IH t1 H1). destruct (trun true T e t1 evs) as [t2 os]. exact IH.
Qed.

(* a session in the playing state has no pending deadline and survives any wait *)
Theorem playing_session_never_times_out : forall T e ws wp evs d,
  let t := fst (trun true T e (tinit T ws wp) evs) in
  s_closed (ts_s t) = false -> is_playing (ts_s t) = true ->
  ts_deadline t = None /\
  tstep true T e t (TTick d) = ({| ts_s := ts_s t; ts_now := ts_now t + d; ts_deadline := None |}, ObsTick false).
Proof.
  intros T e ws wp evs d t Hc Hp. subst t.
  destruct (trun_inv T e evs _ (tinv_init T ws wp) Hc) as [H1 _]. specialize (H1 Hp).
  split; [exact H1|]. cbn [tstep]. rewrite H1, Hc. reflexivity.
Qed.

(* a session that is not playing has a pending deadline and is dropped by exactly the waits that reach it;
   every request it answers while staying open and not playing re-arms it to now + T *)
Theorem idle_session_times_out : forall T e ws wp evs,
  let t := fst (trun true T e (tinit T ws wp) evs) in
  s_closed (ts_s t) = false -> is_playing (ts_s t) = false ->
  exists dl, ts_deadline t = Some dl /\
    forall d, snd (tstep true T e t (TTick d)) = ObsTick (dl <=? ts_now t + d).
Proof.
  intros T e ws wp evs t Hc Hp. subst t.
  destruct (trun_inv T e evs _ (tinv_init T ws wp) Hc) as [_ H2]. destruct (H2 Hp) as [dl Hd].
  exists dl. split; [exact Hd|]. intros d. cbn [tstep]. rewrite Hd, Hc. cbn [negb]. rewrite andb_true_r.
  destruct (dl <=? _); reflexivity.
Qed.

Theorem request_rearms_deadline : forall T e t q,
  let t' := fst (tstep true T e t (TReq q)) in
  s_closed (ts_s t') = false -> is_playing (ts_s t') = false -> ts_deadline t' = Some (ts_now t + T).
Proof.
  intros T e t q. cbn [tstep]. destruct (step e (ts_s t) q) as [[s' rs] fs]. cbn [fst ts_s ts_deadline].
  intros Hc Hp. rewrite Hc. unfold arm. rewrite Hp. reflexivity.
Qed.

(* the oracle accepts the model *)
Fixpoint seen_of (os : list tobs) : list tseen :=
  match os with
  | [] => []
  | ObsResp rs :: os' => SeenResp (map (fun r => (code_class (rs_code r), rs_cseq r)) rs) :: seen_of os'
  | ObsTick g :: os' => SeenTick (if g then 1 else 0) :: seen_of os'
  end.

Lemma resp_list_refl : forall l, list_eqb resp_eqb l l = true.
Proof.
  induction l as [|[a b] l IH]; cbn; [reflexivity|]. unfold resp_eqb at 1. cbn.
  rewrite Z.eqb_refl, bytes_eqb_refl, IH. reflexivity.
Qed.

Theorem timeout_model_passes : forall os, ok_timeout os (seen_of os) = true.
Proof.
  induction os as [|o os IH]; [reflexivity|]. destruct o as [rs | g]; cbn.
  - rewrite resp_list_refl. exact IH.
  - destruct g; cbn; exact IH.
Qed.

(* the variant that never clears the deadline drops a playing session (concrete history: DESCRIBE, SETUP,
   PLAY, then a wait of two time-outs) *)
Lemma never_clearing_refuted :
  let evs := map TReq (firstn 3 ex_reqs) ++ [TTick 2000] in
  snd (trun false 1000 ex_env (tinit 1000 false []) evs) =
    [ObsResp [resp 200 (nth 0 ex_reqs (ex_req MOptions 0 [] []))];
     ObsResp [resp 200 (nth 1 ex_reqs (ex_req MOptions 0 [] []))];
     ObsResp [resp 200 (nth 2 ex_reqs (ex_req MOptions 0 [] []))]; ObsTick true] /\
  snd (trun true 1000 ex_env (tinit 1000 false []) evs) =
    [ObsResp [resp 200 (nth 0 ex_reqs (ex_req MOptions 0 [] []))];
     ObsResp [resp 200 (nth 1 ex_reqs (ex_req MOptions 0 [] []))];
     ObsResp [resp 200 (nth 2 ex_reqs (ex_req MOptions 0 [] []))]; ObsTick false].
Proof. vm_compute. split; reflexivity. Qed.
