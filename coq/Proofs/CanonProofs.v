(* utils.CanonicalPath after the fix "CanonicalPath is idempotent": the one-pass
   body [canonical_once] (= canonicalPathOnce) is iterated until it no longer
   changes the path.  Proved here, for ALL byte strings:
     canonical_path_fixed        the loop ends on a fixed point of the body (the fuel is enough)
     canonical_path_idem         CanonicalPath (CanonicalPath p) = CanonicalPath p
     canonical_path_stable_same  an input on which the old one-pass function was already
                                 stable keeps its old value
     canonical_once_not_idem     the old behaviour (one pass) was not idempotent
   Measure: the result of a pass is lower-case and starts with '/'; on such a
   string a pass never lengthens, and keeps the length only if it changes nothing. *)
From Coq Require Import ZArith List Bool Lia.
From V Require Import Bytes StrGo BytesLemmas.
Import ListNotations.
Open Scope Z_scope.

(* ---- "a pass from b to a shrinks or does nothing" ---- *)
Definition shr (a b : bytes) : Prop :=
  (length a <= length b)%nat /\ (length a = length b -> a = b).

Lemma shr_refl a : shr a a.
Proof. split; [lia|reflexivity]. Qed.

Lemma shr_trans a b c : shr a b -> shr b c -> shr a c.
Proof.
  intros [L1 E1] [L2 E2]. split; [lia|]. intros E.
  assert (length a = length b) as A by lia. assert (length b = length c) as B by lia.
  rewrite (E1 A). exact (E2 B).
Qed.

Lemma shr_rev a b : shr a b -> shr (rev a) (rev b).
Proof. intros [L E]. split; rewrite !rev_length; [exact L|]. intros H. rewrite (E H). reflexivity. Qed.

Lemma shr_app_r a b c : shr a b -> shr (a ++ c) (b ++ c).
Proof. intros [L E]. split; rewrite !app_length; [lia|]. intros H. rewrite E by lia. reflexivity. Qed.

Lemma shr_cons x a b : shr a b -> shr (x :: a) (x :: b).
Proof. intros [L E]. split; cbn [length]; [lia|]. intros H. rewrite E by lia. reflexivity. Qed.

(* ---- trim ---- *)
Lemma trim_left_shr f s : shr (trim_left f s) s.
Proof.
  induction s as [|c s IH]; cbn [trim_left]; [apply shr_refl|].
  destruct (f c); [|apply shr_refl]. destruct IH as [L E]. split; cbn [length]; [lia|intros H; lia].
Qed.

Lemma trim_right_shr f s : shr (trim_right f s) s.
Proof.
  unfold trim_right. pose proof (shr_rev _ _ (trim_left_shr f (rev s))) as H.
  rewrite rev_involutive in H. exact H.
Qed.

Lemma trim_fn_shr f s : shr (trim_fn f s) s.
Proof. unfold trim_fn. eapply shr_trans; [apply trim_right_shr|apply trim_left_shr]. Qed.

Lemma trim_left_snoc f l c : f c = false -> trim_left f (l ++ [c]) = trim_left f l ++ [c].
Proof.
  intros H. induction l as [|a l IH]; cbn [app trim_left]; [rewrite H; reflexivity|].
  destruct (f a); [exact IH|reflexivity].
Qed.

Lemma trim_fn_head f c t : f c = false -> trim_fn f (c :: t) = c :: trim_right f t.
Proof.
  intros H. unfold trim_fn. cbn [trim_left]. rewrite H. unfold trim_right. cbn [rev].
  rewrite trim_left_snoc by exact H. rewrite rev_app_distr. reflexivity.
Qed.

Lemma trim_left_Forall (P : Z -> Prop) f s : Forall P s -> Forall P (trim_left f s).
Proof.
  induction 1 as [|a s Ha Hs IH]; cbn [trim_left]; [constructor|].
  destruct (f a); [exact IH|constructor; assumption].
Qed.

Lemma trim_fn_Forall (P : Z -> Prop) f s : Forall P s -> Forall P (trim_fn f s).
Proof.
  intros H. unfold trim_fn, trim_right. apply Forall_rev. apply trim_left_Forall. apply Forall_rev.
  apply trim_left_Forall. exact H.
Qed.

(* ---- lower case ---- *)
Definition lowb (s : bytes) : Prop := Forall (fun b => lower_byte b = b) s.

Lemma lower_byte_fix b : lower_byte (lower_byte b) = lower_byte b.
Proof.
  unfold lower_byte. destruct ((65 <=? b) && (b <=? 90)) eqn:E; [|rewrite E; reflexivity].
  apply andb_true_iff in E as [A B]. apply Z.leb_le in A, B.
  destruct ((65 <=? b + 32) && (b + 32 <=? 90)) eqn:E2; [|reflexivity].
  apply andb_true_iff in E2 as [_ D]. apply Z.leb_le in D. lia.
Qed.

Lemma to_lower_lowb s : lowb (to_lower s).
Proof. unfold lowb, to_lower. apply Forall_map. apply Forall_forall. intros b _. apply lower_byte_fix. Qed.

Lemma to_lower_id s : lowb s -> to_lower s = s.
Proof. unfold to_lower. induction 1 as [|a s Ha _ IH]; cbn [map]; [reflexivity|]. rewrite Ha, IH. reflexivity. Qed.

Lemma lowb_slash : lower_byte SLASH = SLASH.
Proof. reflexivity. Qed.

(* ---- split / join ---- *)
Lemma split_on_acc_nonempty sep s : forall cur, split_on_acc sep s cur <> [].
Proof.
  induction s as [|c s IH]; intros cur; cbn [split_on_acc]; [discriminate|].
  destruct (Z.eqb c sep); [discriminate|apply IH].
Qed.

Lemma join_cons sep x l : l <> [] -> join_with sep (x :: l) = x ++ sep :: join_with sep l.
Proof. destruct l; [contradiction|reflexivity]. Qed.

Lemma join_split_acc sep s : forall cur, join_with sep (split_on_acc sep s cur) = rev cur ++ s.
Proof.
  induction s as [|c s IH]; intros cur; cbn [split_on_acc].
  - cbn [join_with]. rewrite app_nil_r. reflexivity.
  - destruct (Z.eqb c sep) eqn:E.
    + apply Z.eqb_eq in E. subst c. rewrite join_cons by apply split_on_acc_nonempty.
      rewrite IH. reflexivity.
    + rewrite IH. cbn [rev]. rewrite <- app_assoc. reflexivity.
Qed.

Lemma join_split sep s : join_with sep (split_on sep s) = s.
Proof. unfold split_on. rewrite join_split_acc. reflexivity. Qed.

Lemma split_on_nonempty sep s : split_on sep s <> [].
Proof. apply split_on_acc_nonempty. Qed.

Lemma split_on_acc_snoc sep s : forall cur,
  split_on_acc sep (s ++ [sep]) cur = split_on_acc sep s cur ++ [[]].
Proof.
  induction s as [|c s IH]; intros cur; cbn [app split_on_acc].
  - rewrite Z.eqb_refl. reflexivity.
  - destruct (Z.eqb c sep); [rewrite IH; reflexivity|apply IH].
Qed.

Lemma split_on_snoc sep s : split_on sep (s ++ [sep]) = split_on sep s ++ [[]].
Proof. apply split_on_acc_snoc. Qed.

Lemma split_on_acc_Forall (P : Z -> Prop) sep s : forall cur,
  Forall P s -> Forall P cur -> Forall (Forall P) (split_on_acc sep s cur).
Proof.
  induction s as [|c s IH]; intros cur Hs H; cbn [split_on_acc].
  - constructor; [|constructor]. apply Forall_rev. exact H.
  - inversion Hs as [|? ? Hc Hs']; subst. destruct (Z.eqb c sep).
    + constructor; [apply Forall_rev; exact H|]. apply IH; [exact Hs'|constructor].
    + apply IH; [exact Hs'|]. constructor; assumption.
Qed.

Lemma join_Forall (P : Z -> Prop) sep segs :
  P sep -> Forall (Forall P) segs -> Forall P (join_with sep segs).
Proof.
  intros Ps H. induction H as [|a segs Ha Hs IH]; [constructor|].
  destruct segs as [|b segs]; [exact Ha|].
  rewrite join_cons by discriminate. apply Forall_app. split; [exact Ha|]. constructor; [exact Ps|exact IH].
Qed.

(* weight of a list of segments: length of the joined string + 1 *)
Fixpoint wt (l : list bytes) : nat :=
  match l with [] => O | s :: l' => S (length s + wt l') end.

Lemma wt_app a b : wt (a ++ b) = (wt a + wt b)%nat.
Proof. induction a as [|x a IH]; cbn [app wt]; [reflexivity|]. rewrite IH. lia. Qed.

Lemma wt_rev l : wt (rev l) = wt l.
Proof. induction l as [|x l IH]; cbn [rev wt]; [reflexivity|]. rewrite wt_app, IH. cbn [wt]. lia. Qed.

Lemma length_join sep l : l <> [] -> S (length (join_with sep l)) = wt l.
Proof.
  induction l as [|x l IH]; intros N; [contradiction|].
  destruct l as [|y l]; [cbn; lia|].
  rewrite join_cons by discriminate. rewrite app_length. cbn [length].
  assert (y :: l <> []) as N' by discriminate. specialize (IH N').
  change (wt (x :: y :: l)) with (S (length x + wt (y :: l))). lia.
Qed.

(* ---- path.Clean ---- *)
Lemma z46_case {A} (a : Z) (X Y : A) : a <> 46 -> match a with 46 => X | _ => Y end = Y.
Proof.
  intros N. destruct a as [|p|p]; try reflexivity.
  do 6 (destruct p as [p|p|]; try reflexivity). exfalso. apply N. reflexivity.
Qed.

(* what one element does to the stack *)
Lemma clean_step_cases st seg :
  clean_step st seg = st \/ clean_step st seg = tl st \/ clean_step st seg = seg :: st.
Proof.
  unfold clean_step. destruct seg as [|a [|b [|c r]]].
  - left; reflexivity.
  - destruct (Z.eq_dec a 46) as [->|N]; [left; reflexivity|].
    rewrite z46_case by exact N. right; right; reflexivity.
  - destruct (Z.eq_dec a 46) as [->|N].
    + destruct (Z.eq_dec b 46) as [->|Nb]; [right; left; destruct st; reflexivity|].
      rewrite z46_case by exact Nb. right; right; reflexivity.
    + rewrite z46_case by exact N. right; right; reflexivity.
  - destruct (Z.eq_dec a 46) as [->|N].
    + destruct (Z.eq_dec b 46) as [->|Nb]; [right; right; reflexivity|].
      rewrite z46_case by exact Nb. right; right; reflexivity.
    + rewrite z46_case by exact N. right; right; reflexivity.
Qed.

Lemma wt_tl st : (wt (tl st) <= wt st)%nat.
Proof. destruct st; cbn [tl wt]; lia. Qed.

Lemma clean_step_wt st seg :
  (wt (clean_step st seg) <= wt st + S (length seg))%nat /\
  (wt (clean_step st seg) = (wt st + S (length seg))%nat -> clean_step st seg = seg :: st).
Proof.
  pose proof (wt_tl st) as T.
  destruct (clean_step_cases st seg) as [E|[E|E]]; rewrite E.
  - split; [lia|intros H; lia].
  - split; [lia|intros H; lia].
  - split; [cbn [wt]; lia|reflexivity].
Qed.

Lemma fold_clean_wt segs : forall st,
  (wt (fold_left clean_step segs st) <= wt st + wt segs)%nat /\
  (wt (fold_left clean_step segs st) = (wt st + wt segs)%nat ->
   fold_left clean_step segs st = rev segs ++ st).
Proof.
  induction segs as [|a segs IH]; intros st; cbn [fold_left wt rev].
  - split; [lia|reflexivity].
  - destruct (clean_step_wt st a) as [L1 E1]. destruct (IH (clean_step st a)) as [L2 E2].
    split; [lia|]. intros H.
    assert (wt (clean_step st a) = (wt st + S (length a))%nat) as A by lia.
    rewrite E2 by lia. rewrite (E1 A). rewrite <- app_assoc. reflexivity.
Qed.

Lemma clean_step_Forall (Q : bytes -> Prop) st seg :
  Q seg -> Forall Q st -> Forall Q (clean_step st seg).
Proof.
  intros Hq H. destruct (clean_step_cases st seg) as [E|[E|E]]; rewrite E.
  - exact H.
  - destruct st; [constructor|]. inversion H; assumption.
  - constructor; assumption.
Qed.

Lemma fold_clean_Forall (Q : bytes -> Prop) segs : forall st,
  Forall Q segs -> Forall Q st -> Forall Q (fold_left clean_step segs st).
Proof.
  induction segs as [|a segs IH]; intros st Hs H; [exact H|].
  inversion Hs; subst. cbn [fold_left]. apply IH; [assumption|]. apply clean_step_Forall; assumption.
Qed.

(* cleaning the joined elements never lengthens; same length = nothing changed *)
Lemma clean_join_shr segs : segs <> [] ->
  shr (join_with SLASH (clean_segs segs)) (join_with SLASH segs).
Proof.
  intros N. unfold clean_segs. destruct (fold_clean_wt segs []) as [L E]. cbn [wt] in L, E.
  pose proof (length_join SLASH segs N) as J.
  remember (rev (fold_left clean_step segs [])) as l eqn:El.
  assert (wt l = wt (fold_left clean_step segs [])) as W by (rewrite El; apply wt_rev).
  destruct l as [|x l].
  - split; [cbn; lia|]. cbn [join_with length]. intros H. symmetry. apply length_zero_iff_nil. lia.
  - assert (x :: l <> []) as N' by discriminate. pose proof (length_join SLASH _ N') as J'.
    split; [lia|]. intros H. f_equal. rewrite El. rewrite E by lia.
    rewrite app_nil_r. apply rev_involutive.
Qed.

Lemma split_slash_head t : split_on SLASH (SLASH :: t) = [] :: split_on SLASH t.
Proof. unfold split_on. cbn [split_on_acc]. rewrite Z.eqb_refl. reflexivity. Qed.

Lemma clean_segs_nil_head segs : clean_segs ([] :: segs) = clean_segs segs.
Proof. reflexivity. Qed.

Lemma clean_segs_nil_last segs : clean_segs (segs ++ [[]]) = clean_segs segs.
Proof. unfold clean_segs. rewrite fold_left_app. reflexivity. Qed.

Lemma clean_rooted_shr t : shr (clean_rooted (SLASH :: t)) (SLASH :: t).
Proof.
  unfold clean_rooted. rewrite split_slash_head, clean_segs_nil_head. apply shr_cons.
  rewrite <- (join_split SLASH t) at 2. apply clean_join_shr. apply split_on_nonempty.
Qed.

Lemma clean_rooted_trailing s : clean_rooted (SLASH :: s ++ [SLASH]) = clean_rooted (SLASH :: s).
Proof.
  unfold clean_rooted. rewrite !split_slash_head, !clean_segs_nil_head, split_on_snoc, clean_segs_nil_last.
  reflexivity.
Qed.

Lemma clean_rooted_lowb p : lowb p -> lowb (clean_rooted p).
Proof.
  intros H. unfold clean_rooted, clean_segs. constructor; [exact lowb_slash|].
  apply join_Forall; [exact lowb_slash|]. apply Forall_rev. apply fold_clean_Forall; [|constructor].
  apply split_on_acc_Forall; [exact H|constructor].
Qed.

(* ---- the part of a pass after trim/lower/root: Clean and the trailing slash ---- *)
Definition canon_tail (p : bytes) : bytes :=
  let np := clean_rooted p in
  if ends_with SLASH p && negb (bytes_eqb np [SLASH]) then np ++ [SLASH] else np.

Lemma canonical_once_unfold p0 :
  canonical_once p0 =
  match to_lower (trim_space p0) with
  | [] => [SLASH]
  | c :: r => canon_tail (if Z.eqb c SLASH then c :: r else SLASH :: c :: r)
  end.
Proof. unfold canonical_once. destruct (to_lower (trim_space p0)); reflexivity. Qed.

Lemma canon_tail_shr t : shr (canon_tail (SLASH :: t)) (SLASH :: t).
Proof.
  unfold canon_tail.
  destruct (ends_with SLASH (SLASH :: t) && negb (bytes_eqb (clean_rooted (SLASH :: t)) [SLASH])) eqn:C;
    [|apply clean_rooted_shr].
  apply andb_true_iff in C as [En Ne].
  apply ends_with_split in En as [s' Es]. destruct s' as [|c s'].
  - cbn [app] in Es. inversion Es; subst t. cbn in Ne. discriminate.
  - cbn [app] in Es. inversion Es; subst c t.
    rewrite clean_rooted_trailing.
    change (SLASH :: s' ++ [SLASH]) with ((SLASH :: s') ++ [SLASH]).
    apply shr_app_r. apply clean_rooted_shr.
Qed.

Lemma canon_tail_head p : exists t, canon_tail p = SLASH :: t.
Proof.
  unfold canon_tail, clean_rooted.
  destruct (ends_with SLASH p && _); eexists; cbn [app]; reflexivity.
Qed.

Lemma canon_tail_lowb p : lowb p -> lowb (canon_tail p).
Proof.
  intros H. unfold canon_tail. pose proof (clean_rooted_lowb p H) as C.
  destruct (ends_with SLASH p && _); [|exact C].
  apply Forall_app. split; [exact C|]. constructor; [exact lowb_slash|constructor].
Qed.

(* ---- one pass ---- *)
(* lower case and rooted: what every pass produces *)
Definition lr (p : bytes) : Prop := lowb p /\ exists t, p = SLASH :: t.

Lemma canonical_once_lr p : lr (canonical_once p).
Proof.
  rewrite canonical_once_unfold. pose proof (to_lower_lowb (trim_space p)) as L.
  destruct (to_lower (trim_space p)) as [|c r].
  - split; [constructor; [exact lowb_slash|constructor]|exists []; reflexivity].
  - split; [|apply canon_tail_head]. apply canon_tail_lowb.
    destruct (Z.eqb c SLASH); [exact L|constructor; [exact lowb_slash|exact L]].
Qed.

(* a pass adds at most the leading slash *)
Lemma canonical_once_length p : (length (canonical_once p) <= S (length p))%nat.
Proof.
  rewrite canonical_once_unfold.
  assert (length (to_lower (trim_space p)) <= length p)%nat as B.
  { unfold to_lower. rewrite map_length. apply (trim_fn_shr is_space p). }
  destruct (to_lower (trim_space p)) as [|c r]; [cbn [length]; lia|].
  destruct (Z.eqb c SLASH) eqn:E.
  - apply Z.eqb_eq in E. subst c. pose proof (proj1 (canon_tail_shr r)). lia.
  - pose proof (proj1 (canon_tail_shr (c :: r))). cbn [length] in *. lia.
Qed.

(* on a lower-case rooted path a pass shortens or changes nothing *)
Lemma canonical_once_shr p : lr p -> shr (canonical_once p) p.
Proof.
  intros [L [t ->]]. rewrite canonical_once_unfold.
  assert (lowb (trim_space (SLASH :: t))) as L' by (apply trim_fn_Forall; exact L).
  rewrite (to_lower_id _ L').
  pose proof (trim_fn_shr is_space (SLASH :: t)) as T. fold (trim_space (SLASH :: t)) in T.
  unfold trim_space in *. rewrite trim_fn_head in * by reflexivity.
  rewrite Z.eqb_refl. eapply shr_trans; [apply canon_tail_shr|exact T].
Qed.

(* ---- the loop ---- *)
Lemma canon_iter_S f p :
  canon_iter (S f) p =
  if bytes_eqb (canonical_once p) p then canonical_once p else canon_iter f (canonical_once p).
Proof. reflexivity. Qed.

Lemma canon_iter_fixed fuel : forall p,
  lr p -> (length p <= S fuel)%nat -> canonical_once (canon_iter fuel p) = canon_iter fuel p.
Proof.
  induction fuel as [|f IH]; intros p Hlr Len; cbn [canon_iter].
  - destruct (canonical_once_shr p Hlr) as [L E]. apply E.
    destruct (canonical_once_lr p) as [_ [t Et]]. destruct Hlr as [_ [t' ->]].
    rewrite Et in *. cbn [length] in *. lia.
  - destruct (bytes_eqb (canonical_once p) p) eqn:B.
    + apply bytes_eqb_eq in B. rewrite B. exact B.
    + apply bytes_eqb_neq in B. destruct (canonical_once_shr p Hlr) as [L E].
      apply IH; [apply canonical_once_lr|].
      assert (length (canonical_once p) <> length p) by (intros H; apply B, E, H). lia.
Qed.

(* the loop of CanonicalPath ends on a fixed point of its body: the fuel suffices *)
Theorem canonical_path_fixed p : canonical_once (canonical_path p) = canonical_path p.
Proof.
  unfold canonical_path. rewrite canon_iter_S.
  destruct (bytes_eqb (canonical_once p) p) eqn:B.
  - apply bytes_eqb_eq in B. rewrite B. exact B.
  - apply canon_iter_fixed; [apply canonical_once_lr|]. pose proof (canonical_once_length p). lia.
Qed.

(* a fixed point of the body is returned as it is *)
Lemma canonical_path_of_fixed p : canonical_once p = p -> canonical_path p = p.
Proof. intros H. unfold canonical_path. rewrite canon_iter_S. rewrite H, bytes_eqb_refl. reflexivity. Qed.

Theorem canonical_path_idem p : canonical_path (canonical_path p) = canonical_path p.
Proof. apply canonical_path_of_fixed. apply canonical_path_fixed. Qed.

(* behaviour unchanged wherever the one-pass function was already stable *)
Theorem canonical_path_stable_same p :
  canonical_once (canonical_once p) = canonical_once p -> canonical_path p = canonical_once p.
Proof.
  intros H. unfold canonical_path. rewrite canon_iter_S.
  destruct (bytes_eqb (canonical_once p) p); [reflexivity|].
  rewrite canon_iter_S, H, bytes_eqb_refl. reflexivity.
Qed.

(* the result is always the result of a pass, hence lower case and rooted *)
Lemma canon_iter_once fuel : forall p, exists q, canon_iter fuel (canonical_once p) = canonical_once q.
Proof.
  induction fuel as [|f IH]; intros p; [exists p; reflexivity|]. rewrite canon_iter_S.
  destruct (bytes_eqb _ _); [exists (canonical_once p); reflexivity|apply IH].
Qed.

Lemma canonical_path_is_once p : exists q, canonical_path p = canonical_once q.
Proof.
  unfold canonical_path. rewrite canon_iter_S.
  destruct (bytes_eqb _ _); [exists p; reflexivity|apply canon_iter_once].
Qed.

Lemma canonical_path_lr p : lr (canonical_path p).
Proof. destruct (canonical_path_is_once p) as [q ->]. apply canonical_once_lr. Qed.

(* a fixed point of CanonicalPath is a fixed point of its body, and conversely *)
Lemma canonical_path_fixed_iff p : canonical_path p = p <-> canonical_once p = p.
Proof.
  split; [|apply canonical_path_of_fixed]. intros H. rewrite <- H at 1. rewrite canonical_path_fixed. exact H.
Qed.

(* ---- examples ---- *)
(* "/a /b/.. /x/.." needs three changing passes: -> "/a /b/.. " -> "/a " -> "/a" *)
Definition three_pass : bytes := [47;97;32;47;98;47;46;46;32;47;120;47;46;46].
Example three_pass_steps :
  canonical_once three_pass = [47;97;32;47;98;47;46;46;32] /\
  canonical_once (canonical_once three_pass) = [47;97;32] /\
  canonical_once (canonical_once (canonical_once three_pass)) = [47;97] /\
  canonical_path three_pass = [47;97].
Proof. vm_compute. repeat split. Qed.

(* "/a/./ /" -> "/a/ /": a blank element inside the path stays (a repair that trimmed
   once more after Clean would have produced "/a//") *)
Example blank_segment : canonical_path [47;97;47;46;47;32;47] = [47;97;47;32;47].
Proof. vm_compute. reflexivity. Qed.

(* the behaviour before the fix: one pass is not idempotent ("/a /b/.." -> "/a " -> "/a") *)
Theorem canonical_once_not_idem :
  exists p, canonical_once (canonical_once p) <> canonical_once p.
Proof. exists [47;97;32;47;98;47;46;46]. vm_compute. discriminate. Qed.

Print Assumptions canonical_path_fixed.
Print Assumptions canonical_path_idem.
Print Assumptions canonical_path_stable_same.
Print Assumptions canonical_once_not_idem.
Print Assumptions three_pass_steps.
