(* C15 — generic theorems of the bit-format DSL: bit-level round trips for
   u(n)/ue(v)/se(v) against the model of utils/bits/reader.go, the generic
   format round trip, and the refinement combinators. *)
From Coq Require Import ZArith List Bool Lia ZifyBool.
From V Require Import C15BitFmt.
Import ListNotations.
Open Scope Z_scope.

Lemma pow2_pos : forall n, 0 <= n -> 0 < 2 ^ n.
Proof. intros. apply Z.pow_pos_nonneg; lia. Qed.

Lemma pow2_S : forall n : nat, 2 ^ Z.of_nat (S n) = 2 * 2 ^ Z.of_nat n.
Proof. intros. rewrite Nat2Z.inj_succ, Z.pow_succ_r; lia. Qed.

(* ---------------------------------------------------------------- u(n) *)
Lemma ubits_length : forall n v, length (ubits n v) = n.
Proof.
  induction n; intros; cbn [ubits]; auto.
  destruct (2 ^ Z.of_nat n <=? v); cbn [length]; rewrite IHn; auto.
Qed.

Lemma read_u_ubits : forall n v rest,
  0 <= v < 2 ^ Z.of_nat n -> read_u n (ubits n v ++ rest) = Some (v, rest).
Proof.
  induction n; intros v rest H.
  - cbn in *. replace v with 0 by lia. reflexivity.
  - rewrite pow2_S in H. cbn [ubits].
    destruct (2 ^ Z.of_nat n <=? v) eqn:E; cbn [app read_u].
    + rewrite IHn by lia. f_equal. f_equal. lia.
    + rewrite IHn by lia. reflexivity.
Qed.

Lemma drop_bits_app : forall n (b rest : bits),
  length b = n -> drop_bits n (b ++ rest) = Some rest.
Proof.
  induction n; intros b rest H; destruct b; cbn in *; try discriminate; auto.
Qed.

Lemma go_read_ubits : forall n max v rest,
  0 < n <= max -> 0 <= v < 2 ^ n ->
  go_read n max (ubits (Z.to_nat n) v ++ rest) = Some (v, rest).
Proof.
  intros. unfold go_read.
  replace ((n <=? 0) || (max <? n)) with false by lia.
  apply read_u_ubits. rewrite Z2Nat.id by lia. auto.
Qed.

Lemma go_skip_ubits : forall n v rest,
  0 < n -> go_skip n (ubits (Z.to_nat n) v ++ rest) = Some rest.
Proof.
  intros. unfold go_skip. replace (n <=? 0) with false by lia.
  apply drop_bits_app, ubits_length.
Qed.

(* ---------------------------------------------------------------- ue(v) *)
Lemma ue_prefix_zeros : forall m i s,
  i + Z.of_nat m <= 32 ->
  ue_prefix (repeat false m ++ true :: s) i = Some (i + Z.of_nat m, s).
Proof.
  induction m; intros i s H.
  - cbn. f_equal. f_equal. lia.
  - cbn [repeat app ue_prefix negb andb].
    replace (i <? 32) with true by lia. rewrite IHm by lia.
    f_equal. f_equal. lia.
Qed.

Theorem read_ue_roundtrip : forall v rest,
  0 <= v <= UE_MAX -> read_ue (ue_bits v ++ rest) = Some (v, rest).
Proof.
  intros v rest H. unfold UE_MAX in H. unfold read_ue, ue_bits.
  set (n := Z.log2 (v + 1)).
  assert (Hn0 : 0 <= n) by apply Z.log2_nonneg.
  assert (Hlog : 2 ^ n <= v + 1 < 2 ^ (Z.succ n)) by (apply Z.log2_spec; lia).
  assert (Hn : n <= 31).
  { destruct (Z_le_gt_dec n 31); auto.
    assert (2 ^ 32 <= 2 ^ n) by (apply Z.pow_le_mono_r; lia). lia. }
  rewrite Z.pow_succ_r in Hlog by lia.
  rewrite <- app_assoc. cbn [app].
  rewrite ue_prefix_zeros by lia.
  rewrite Z.add_0_l, Z2Nat.id by lia.
  rewrite read_u_ubits by (rewrite Z2Nat.id by lia; lia).
  f_equal. f_equal. rewrite Z.mod_small; lia.
Qed.

(* the decoder never returns more than 32 bits *)
Lemma read_ue_range : forall bs v r, read_ue bs = Some (v, r) -> 0 <= v < 2 ^ 32.
Proof.
  intros bs v r H. unfold read_ue in H.
  destruct (ue_prefix bs 0) as [[i r0]|]; try discriminate.
  destruct (read_u (Z.to_nat i) r0) as [[x r1]|]; try discriminate.
  inversion H; subst. apply Z.mod_pos_bound. lia.
Qed.

(* ---------------------------------------------------------------- se(v) *)
Lemma se_of_ue_of_se : forall v,
  - (2 ^ 31 - 1) <= v <= 2 ^ 31 - 1 -> se_of_ue (ue_of_se v) = v.
Proof.
  intros v H. unfold se_of_ue, ue_of_se.
  destruct (0 <? v) eqn:E.
  - replace (2 * v - 1) with (1 + 2 * (v - 1)) by lia.
    rewrite Z.odd_add_mul_2. cbn [Z.odd].
    replace (1 + 2 * (v - 1) + 1) with (v * 2) by lia.
    rewrite Z.mod_small by lia. apply Z.div_mul. lia.
  - replace (- 2 * v) with (0 + 2 * (- v)) by lia.
    rewrite Z.odd_add_mul_2. cbn [Z.odd].
    replace (0 + 2 * - v) with ((- v) * 2) by lia.
    rewrite Z.div_mul by lia. lia.
Qed.

Theorem read_se_roundtrip : forall v rest,
  - (2 ^ 31 - 1) <= v <= 2 ^ 31 - 1 -> read_se (se_bits v ++ rest) = Some (v, rest).
Proof.
  intros v rest H. unfold read_se, se_bits.
  rewrite read_ue_roundtrip.
  - rewrite se_of_ue_of_se by auto. reflexivity.
  - unfold ue_of_se, UE_MAX. destruct (0 <? v) eqn:E; lia.
Qed.

Lemma wrapu_id : forall w v, 0 <= v < 2 ^ w -> wrapu w v = v.
Proof. intros. unfold wrapu. apply Z.mod_small. auto. Qed.

Lemma wraps_id : forall w v, 0 < w -> - 2 ^ (w - 1) <= v < 2 ^ (w - 1) -> wraps w v = v.
Proof.
  intros w v Hw H. unfold wraps.
  assert (2 ^ w = 2 * 2 ^ (w - 1)).
  { replace w with (Z.succ (w - 1)) at 1 by lia. rewrite Z.pow_succ_r; lia. }
  rewrite Z.mod_small; lia.
Qed.

(* D27: the reader before the repair loses every non-zero signed value *)
Theorem readse_refuted : exists bs v,
  read_se bs = Some (v, []) /\ v <> 0 /\ read_se_d27 bs = Some (0, []).
Proof. exists (se_bits (-3)), (-3). vm_compute. repeat split; congruence. Qed.

(* ---------------------------------------------------------------- the generic round trip *)
Theorem fmt_roundtrip : forall f e a b a',
  emit f e a = Some (b, a') -> forall rest, parse f a (b ++ rest) = Some (a', rest).
Proof.
  unfold parse.
  induction f; intros e a b a' He rest; cbn [emit parse_with] in *.
  - inversion He; subst. reflexivity.
  - (* U *)
    destruct ((0 <? n) && (n <=? max) && (0 <=? get e k) && (get e k <? 2 ^ n)) eqn:C;
      try discriminate.
    inversion He; subst. rewrite go_read_ubits by lia. reflexivity.
  - (* UV *)
    destruct ((0 <? n a) && (n a <=? max) && (0 <=? get e k) && (get e k <? 2 ^ n a)) eqn:C;
      try discriminate.
    inversion He; subst. rewrite go_read_ubits by lia. reflexivity.
  - (* UE *)
    match type of He with (if ?c then _ else _) = _ => destruct c eqn:C end; try discriminate.
    inversion He; subst. rewrite read_ue_roundtrip by lia.
    rewrite wrapu_id by lia. reflexivity.
  - (* SE *)
    match type of He with (if ?c then _ else _) = _ => destruct c eqn:C end; try discriminate.
    inversion He; subst. rewrite read_se_roundtrip by lia.
    rewrite wraps_id by lia. reflexivity.
  - (* Skip *)
    match type of He with (if ?c then _ else _) = _ => destruct c eqn:C end; try discriminate.
    inversion He; subst. rewrite go_skip_ubits by lia. reflexivity.
  - (* Seq *)
    destruct (emit f1 e a) as [[b1 a1]|] eqn:E1; try discriminate.
    destruct (emit f2 e a1) as [[b2 a2]|] eqn:E2; try discriminate.
    inversion He; subst. rewrite <- app_assoc.
    rewrite (IHf1 _ _ _ _ E1). apply (IHf2 _ _ _ _ E2).
  - (* If *)
    destruct (c a); eauto.
  - (* Repeat *)
    revert He. generalize (Z.to_nat (cnt a)) as n. generalize 0 as i.
    intros i n. revert i a b a' rest.
    induction n; intros i a b a' rest He.
    + inversion He; subst. reflexivity.
    + destruct (emit (body i) e a) as [[b1 a1]|] eqn:E1; try discriminate.
      match type of He with match ?l with _ => _ end = _ => destruct l as [[b2 a2]|] eqn:E2 end;
        try discriminate.
      inversion He; subst. rewrite <- app_assoc.
      rewrite (H _ _ _ _ _ E1). apply IHn. exact E2.
  - inversion He; subst. reflexivity.
  - inversion He; subst. reflexivity.
  - destruct (c a); try discriminate. inversion He; subst. reflexivity.
Qed.

(* ---------------------------------------------------------------- refinement combinators *)
Lemma refines_refl : forall f, refines f f.
Proof. unfold refines; auto. Qed.

Lemma refines_seq : forall s1 s2 g1 g2,
  refines s1 g1 -> refines s2 g2 -> refines (s1 ;; s2) (g1 ;; g2).
Proof.
  unfold refines. intros s1 s2 g1 g2 H1 H2 e a b a' He. cbn [emit] in *.
  destruct (emit s1 e a) as [[b1 a1]|] eqn:E1; try discriminate.
  destruct (emit s2 e a1) as [[b2 a2]|] eqn:E2; try discriminate.
  rewrite (H1 _ _ _ _ E1), (H2 _ _ _ _ E2). exact He.
Qed.

Lemma refines_if : forall c1 c2 s1 s2 g1 g2,
  (forall a, c1 a = c2 a) -> refines s1 g1 -> refines s2 g2 ->
  refines (If c1 s1 s2) (If c2 g1 g2).
Proof.
  unfold refines. intros c1 c2 s1 s2 g1 g2 Hc H1 H2 e a b a' He. cbn [emit] in *.
  rewrite <- Hc. destruct (c1 a); eauto.
Qed.

(* a constraint stated by the first description may be used to equate the conditions *)
Lemma refines_guard_if : forall p c1 c2 s1 s2 g1 g2,
  (forall a, p a = true -> c1 a = c2 a) -> refines s1 g1 -> refines s2 g2 ->
  refines (Assert p ;; If c1 s1 s2) (If c2 g1 g2).
Proof.
  unfold refines. intros p c1 c2 s1 s2 g1 g2 Hc H1 H2 e a b a' He. cbn [emit] in *.
  destruct (p a) eqn:P; try discriminate. rewrite <- (Hc _ P).
  destruct (c1 a).
  - destruct (emit s1 e a) as [[b2 a2]|] eqn:E2; try discriminate.
    cbn [app] in He. rewrite (H1 _ _ _ _ E2). exact He.
  - destruct (emit s2 e a) as [[b2 a2]|] eqn:E2; try discriminate.
    cbn [app] in He. rewrite (H2 _ _ _ _ E2). exact He.
Qed.

(* a constraint of the first description that the second does not check *)
Lemma refines_drop_assert : forall p s g, refines s g -> refines (Assert p ;; s) g.
Proof.
  unfold refines. intros p s g H e a b a' He. cbn [emit] in *.
  destruct (p a); try discriminate.
  destruct (emit s e a) as [[b2 a2]|] eqn:E2; try discriminate.
  cbn [app] in He. rewrite (H _ _ _ _ E2). exact He.
Qed.

Lemma refines_repeat : forall c1 c2 s g,
  (forall a, c1 a = c2 a) -> (forall i, refines (s i) (g i)) ->
  refines (Repeat c1 s) (Repeat c2 g).
Proof.
  unfold refines. intros c1 c2 s g Hc H e a b a'. cbn [emit]. rewrite <- Hc.
  generalize (Z.to_nat (c1 a)) as n. generalize 0 as i. intros i n. revert i a b a'.
  induction n; intros i a b a' He; auto.
  destruct (emit (s i) e a) as [[b1 a1]|] eqn:E1; try discriminate.
  match type of He with match ?l with _ => _ end = _ => destruct l as [[b2 a2]|] eqn:E2 end;
    try discriminate.
  rewrite (H _ _ _ _ _ E1), (IHn _ _ _ _ E2). exact He.
Qed.

(* ue(v): the standard's range fits the decoder's cast *)
Lemma refines_ue : forall k hi hi' w w',
  hi <= hi' -> hi < 2 ^ w' -> 0 < w' <= 32 -> refines (UE k hi w) (UE k hi' w').
Proof.
  unfold refines. intros k hi hi' w w' H1 H2 H3 e a b a' He. cbn [emit] in *.
  match type of He with (if ?c then _ else _) = _ => destruct c eqn:C end; try discriminate.
  match goal with |- (if ?c then _ else _) = _ => replace c with true by lia end. exact He.
Qed.

Lemma refines_se : forall k lo hi lo' hi' w w',
  lo' <= lo -> hi <= hi' -> - 2 ^ (w' - 1) <= lo -> hi < 2 ^ (w' - 1) -> 0 < w' <= 32 ->
  refines (SE k lo hi w) (SE k lo' hi' w').
Proof.
  unfold refines. intros k lo hi lo' hi' w w' H1 H2 H3 H4 H5 e a b a' He. cbn [emit] in *.
  match type of He with (if ?c then _ else _) = _ => destruct c eqn:C end; try discriminate.
  match goal with |- (if ?c then _ else _) = _ => replace c with true by lia end. exact He.
Qed.

(* reserved bits: the decoder skips any value *)
Lemma refines_skip : forall n v, refines (Skip n v) (Skip n v).
Proof. intros. apply refines_refl. Qed.

(* the decoder reads a fixed-width field with a wider accessor *)
Lemma refines_u : forall n max max' k, max <= max' -> refines (U n max k) (U n max' k).
Proof.
  unfold refines. intros n max max' k H e a b a' He. cbn [emit] in *.
  match type of He with (if ?c then _ else _) = _ => destruct c eqn:C end; try discriminate.
  match goal with |- (if ?c then _ else _) = _ => replace c with true by lia end. exact He.
Qed.

Lemma refines_set : forall k v1 v2, (forall a, v1 a = v2 a) -> refines (Set_ k v1) (Set_ k v2).
Proof. unfold refines. intros k v1 v2 H e a b a' He. cbn [emit] in *. rewrite <- H. exact He. Qed.

(* the decoder composed with the encoder of a refined description *)
Theorem refines_parse : forall s g e a b a',
  refines s g -> emit s e a = Some (b, a') ->
  forall rest, parse g a (b ++ rest) = Some (a', rest).
Proof. intros. eapply fmt_roundtrip. apply H. eassumption. Qed.

(* as [refines_guard_if], the untaken branch being an inferred value *)
Lemma refines_guard_if_set : forall p c1 c2 s1 g1 k v1 v2,
  (forall a, p a = true -> c1 a = c2 a) -> refines s1 g1 ->
  (forall a, p a = true -> v1 a = v2 a) ->
  refines (Assert p ;; If c1 s1 (Set_ k v1)) (If c2 g1 (Set_ k v2)).
Proof.
  unfold refines. intros p c1 c2 s1 g1 k v1 v2 Hc H1 Hv e a b a' He. cbn [emit] in *.
  destruct (p a) eqn:P; try discriminate. rewrite <- (Hc _ P).
  destruct (c1 a).
  - destruct (emit s1 e a) as [[b2 a2]|] eqn:E2; try discriminate.
    cbn [app] in He. rewrite (H1 _ _ _ _ E2). exact He.
  - cbn [app] in He. rewrite <- (Hv _ P). exact He.
Qed.

(* ---------------------------------------------------------------- bytes <-> bits *)
Lemma byte_bits_val : forall b7 b6 b5 b4 b3 b2 b1 b0 : bool,
  byte_bits 8 (bits_val [b7; b6; b5; b4; b3; b2; b1; b0] 0) = [b7; b6; b5; b4; b3; b2; b1; b0].
Proof. destruct b7, b6, b5, b4, b3, b2, b1, b0; reflexivity. Qed.

Lemma bytes_to_bits_pack : forall n bs,
  length bs = (8 * n)%nat -> bytes_to_bits (pack n bs) = bs.
Proof.
  induction n; intros bs H.
  - destruct bs; cbn in *; try discriminate; auto.
  - do 8 (destruct bs as [|? bs]; [cbn in H; lia|]).
    cbn [pack firstn skipn bytes_to_bits]. rewrite byte_bits_val.
    rewrite IHn by (cbn [length] in H; lia). reflexivity.
Qed.

Ltac Zify.zify_post_hook ::= Z.div_mod_to_equations.

Lemma pad8_length : forall bs, exists n, length (pad8 bs) = (8 * n)%nat /\ Nat.div (length (pad8 bs)) 8 = n.
Proof.
  intros bs. unfold pad8. rewrite app_length, repeat_length.
  set (L := length bs).
  exists (Nat.div (L + Z.to_nat ((- Z.of_nat L) mod 8)) 8). split; auto.
  assert (H := Nat.div_mod (L + Z.to_nat ((- Z.of_nat L) mod 8)) 8).
  assert (Hm : ((L + Z.to_nat ((- Z.of_nat L) mod 8)) mod 8 = 0)%nat).
  { apply Nat2Z.inj. rewrite Nat2Z.inj_mod. rewrite Nat2Z.inj_add, Z2Nat.id by (apply Z.mod_pos_bound; lia).
    cbn [Z.of_nat]. lia. }
  lia.
Qed.

Theorem bytes_to_bits_to_bytes : forall bs, bytes_to_bits (bits_to_bytes bs) = pad8 bs.
Proof.
  intros bs. unfold bits_to_bytes. destruct (pad8_length bs) as [n [H1 H2]].
  rewrite H2. apply bytes_to_bits_pack. exact H1.
Qed.

Lemma refines_assert_nop : forall p s g, refines s g -> refines (Assert p ;; s) (Nop ;; g).
Proof.
  unfold refines. intros p s g H e a b a' He. cbn [emit] in *.
  destruct (p a); try discriminate.
  destruct (emit s e a) as [[b2 a2]|] eqn:E2; try discriminate.
  rewrite (H _ _ _ _ E2). exact He.
Qed.

(* a constraint of the first description selects the branch of the second *)
Lemma refines_assert_else : forall p c s x g,
  (forall a, p a = true -> c a = false) -> refines s g -> refines (Assert p ;; s) (If c x g).
Proof.
  unfold refines. intros p c s x g Hc H e a b a' He. cbn [emit] in *.
  destruct (p a) eqn:P; try discriminate. rewrite (Hc _ P).
  destruct (emit s e a) as [[b2 a2]|] eqn:E2; try discriminate.
  cbn [app] in He. rewrite (H _ _ _ _ E2). exact He.
Qed.

(* ---------------------------------------------------------------- reads stay inside the input *)
Definition suffix_of (r bs : bits) : Prop := exists u, bs = u ++ r.

Lemma suffix_refl : forall bs, suffix_of bs bs.
Proof. intros. exists []. reflexivity. Qed.
Lemma suffix_trans : forall a b c, suffix_of a b -> suffix_of b c -> suffix_of a c.
Proof. intros a b c [u Hu] [v Hv]. exists (v ++ u). subst. rewrite app_assoc. reflexivity. Qed.
Lemma suffix_cons : forall x r bs, suffix_of r bs -> suffix_of r (x :: bs).
Proof. intros x r bs [u Hu]. exists (x :: u). subst. reflexivity. Qed.

Lemma read_u_suffix : forall n bs v r, read_u n bs = Some (v, r) -> suffix_of r bs.
Proof.
  induction n; intros bs v r H; cbn [read_u] in H.
  - inversion H; subst. apply suffix_refl.
  - destruct bs as [|x bs]; try discriminate.
    destruct (read_u n bs) as [[v' r']|] eqn:E; try discriminate.
    inversion H; subst. apply suffix_cons. eauto.
Qed.

Lemma go_read_suffix : forall n max bs v r, go_read n max bs = Some (v, r) -> suffix_of r bs.
Proof.
  unfold go_read. intros n max bs v r H.
  destruct ((n <=? 0) || (max <? n)).
  - inversion H; subst. apply suffix_refl.
  - eapply read_u_suffix; eauto.
Qed.

Lemma drop_bits_suffix : forall n bs r, drop_bits n bs = Some r -> suffix_of r bs.
Proof.
  induction n; intros bs r H; cbn [drop_bits] in H.
  - inversion H; subst. apply suffix_refl.
  - destruct bs; try discriminate. apply suffix_cons. eauto.
Qed.

Lemma go_skip_suffix : forall n bs r, go_skip n bs = Some r -> suffix_of r bs.
Proof.
  unfold go_skip. intros n bs r H. destruct (n <=? 0).
  - inversion H; subst. apply suffix_refl.
  - eapply drop_bits_suffix; eauto.
Qed.

Lemma ue_prefix_suffix : forall bs i j r, ue_prefix bs i = Some (j, r) -> suffix_of r bs.
Proof.
  induction bs as [|x bs IH]; intros i j r H; cbn [ue_prefix] in H; try discriminate.
  destruct (negb x && (i <? 32)).
  - apply suffix_cons. eauto.
  - inversion H; subst. apply suffix_cons, suffix_refl.
Qed.

Lemma read_ue_suffix : forall bs v r, read_ue bs = Some (v, r) -> suffix_of r bs.
Proof.
  unfold read_ue. intros bs v r H.
  destruct (ue_prefix bs 0) as [[i r0]|] eqn:E; try discriminate.
  destruct (read_u (Z.to_nat i) r0) as [[x r1]|] eqn:E1; try discriminate.
  inversion H; subst. eapply suffix_trans.
  - eapply read_u_suffix; eauto.
  - eapply ue_prefix_suffix; eauto.
Qed.

Lemma read_se_suffix : forall bs v r, read_se bs = Some (v, r) -> suffix_of r bs.
Proof.
  unfold read_se. intros bs v r H.
  destruct (read_ue bs) as [[k r0]|] eqn:E; try discriminate.
  inversion H; subst. eapply read_ue_suffix; eauto.
Qed.

(* the decoder consumes a prefix of its input and nothing else: what it leaves is a suffix *)
Theorem parse_suffix : forall f a bs a' r, parse f a bs = Some (a', r) -> suffix_of r bs.
Proof.
  unfold parse.
  induction f; intros a bs a' r Hp; cbn [parse_with] in Hp.
  - inversion Hp; subst. apply suffix_refl.
  - destruct (go_read n max bs) as [[v r0]|] eqn:E; try discriminate.
    inversion Hp; subst. eapply go_read_suffix; eauto.
  - destruct (go_read (n a) max bs) as [[v r0]|] eqn:E; try discriminate.
    inversion Hp; subst. eapply go_read_suffix; eauto.
  - destruct (read_ue bs) as [[v r0]|] eqn:E; try discriminate.
    inversion Hp; subst. eapply read_ue_suffix; eauto.
  - destruct (read_se bs) as [[v r0]|] eqn:E; try discriminate.
    inversion Hp; subst. eapply read_se_suffix; eauto.
  - destruct (go_skip n bs) as [r0|] eqn:E; try discriminate.
    inversion Hp; subst. eapply go_skip_suffix; eauto.
  - destruct (parse_with read_se f1 a bs) as [[a1 r1]|] eqn:E1; try discriminate.
    eapply suffix_trans; eauto.
  - destruct (c a); eauto.
  - revert Hp. generalize (Z.to_nat (cnt a)) as n. generalize 0 as i.
    intros i n. revert i a bs.
    induction n; intros i a bs Hp.
    + inversion Hp; subst. apply suffix_refl.
    + destruct (parse_with read_se (body i) a bs) as [[a1 r1]|] eqn:E1; try discriminate.
      eapply suffix_trans; [eapply IHn; eauto | eapply H; eauto].
  - inversion Hp; subst. apply suffix_refl.
  - inversion Hp; subst. apply suffix_refl.
  - destruct (c a); try discriminate. inversion Hp; subst. apply suffix_refl.
Qed.
