(* C10 — proofs about the fetch/rollover transition system Model/C10HlsLts.v *)
From Coq Require Import ZArith List Bool Lia ZifyBool.
From V Require Import Val Bytes BytesLemmas C10Hls C10HlsProofs C10HlsLts.
Import ListNotations.
Open Scope Z_scope.

(* ------------------------------------------------------------------ what one frame does to [closed] and [pl] *)
Definition grows (s0 s' : st) : Prop :=
  exists ext, closed s' = closed s0 ++ ext /\ (ext = [] -> pl s' = pl s0) /\
              (forall g, In g (pl s') -> In g (pl s0) \/ In g ext).

Lemma grows_shape s0 s s' : shape s' = shape s -> grows s0 s -> grows s0 s'.
Proof.
  unfold shape. intros E (ext & A & B & C). injection E as _ _ E3 E4. exists ext. rewrite E3, E4. auto.
Qed.

Lemma grows_reap c start a s0 s g : cur s = Some g -> grows s0 s -> grows s0 (reap c start a s).
Proof.
  intros Hc (ext & A & B & C).
  pose proof (reap_spec c start a s g Hc) as R. cbn zeta in R.
  destruct R as (s1 & g' & CA & _ & _ & _ & _ & _ & _ & _ & _ & _ & R5 & R6 & _).
  pose proof (closed_as_pl_in s g s1) as PI.
  destruct CA as [Hd E1 E2 E3 E4 E5 | Hd E1 E2 E3 E4 E5].
  - exists ext. rewrite R6, R5, E3, E2. auto.
  - exists (ext ++ [g]). rewrite R6, E3, A, app_assoc. split; [reflexivity|]. split.
    + intros H. destruct ext; discriminate.
    + intros x Hx. rewrite R5 in Hx.
      destruct (PI x (CA_keep s g s1 Hd E1 E2 E3 E4 E5) Hx) as [K| ->].
      * destruct (C x K) as [K1|K1]; [left; exact K1 | right; apply in_or_app; left; exact K1].
      * right. apply in_or_app. right. left. reflexivity.
Qed.

Lemma write_frame_grows c f s : grows s (write_frame c f s).
Proof.
  apply (write_frame_preserves (grows s)).
  - intros s1 o H. eapply grows_shape; [|exact H]. reflexivity.
  - intros s1 b n H. eapply grows_shape; [|exact H]. reflexivity.
  - intros s1 H. eapply grows_shape; [apply shape_flush_cache | exact H].
  - intros s1 g H Hg _. eapply grows_reap; eauto.
  - intros s1 g H Hg _. eapply grows_shape; [apply shape_flush_frame | exact H].
  - intros s1 g H Hg _ _. eapply grows_shape; [apply shape_flush_frame|]. eapply grows_reap; eauto.
  - exists []. rewrite app_nil_r. auto.
Qed.

Lemma new_closed_ext c f s ext : closed (write_frame c f s) = closed s ++ ext -> new_closed c f s = ext.
Proof.
  intros E. unfold new_closed. rewrite E, skipn_app, skipn_all, Nat.sub_diag. reflexivity.
Qed.

Lemma write_frame_closed_mono c f s g : In g (closed s) -> In g (closed (write_frame c f s)).
Proof. intros H. destruct (write_frame_grows c f s) as (ext & A & _). rewrite A. apply in_or_app. left. exact H. Qed.

(* a frame that does not take the write lock leaves the window alone *)
Lemma no_wlock_pl c f s : takes_wlock c f s = false -> pl (write_frame c f s) = pl s.
Proof.
  unfold takes_wlock. intros H. destruct (write_frame_grows c f s) as (ext & A & B & _).
  apply B. rewrite A, app_length in H. destruct ext; [reflexivity|]. cbn [length] in H.
  apply negb_false_iff, Nat.eqb_eq in H. lia.
Qed.

Lemma find_seg_some seq l g : find_seg seq l = Some g -> s_seq g = seq /\ In g l.
Proof.
  induction l as [|x l IH]; [discriminate|]. cbn [find_seg].
  destruct (s_seq x =? seq) eqn:E.
  - intros H. injection H as <-. split; [lia | left; reflexivity].
  - intros H. destruct (IH H) as [A B]. split; [exact A | right; exact B].
Qed.

(* ------------------------------------------------------------------ the invariant of the locked system *)
Record J (c : cfg) (l : lts) : Prop := {
  j_inv1 : Inv1 (l_st l);
  j_ok : forall r x, In r (l_recs l) -> fr_res r = Some x -> x = expected r;
  j_at : forall r g, In r (l_recs l) -> fr_at r = Some g -> s_seq g = fr_seq r /\ In g (closed (l_st l));
  j_hold : forall r g, In r (l_recs l) -> fr_at r = Some g -> fr_res r = None -> In g (pl (l_st l));
  (* a segment is listed only when its store has been closed *)
  j_flushed : forall g, In g (pl (l_st l)) -> In (s_seq g) (l_flushed l)
}.

Lemma has_holder_in l r g : In r l -> fr_at r = Some g -> fr_res r = None -> has_holder l = true.
Proof.
  intros Hin Ha Hr. unfold has_holder. apply existsb_exists. exists r. split; [exact Hin|].
  unfold holding. rewrite Ha, Hr. reflexivity.
Qed.

Lemma pl_init c : pl (init c) = [].
Proof.
  unfold init. pose proof (segment_open_spec c 0 true false init_free eq_refl) as SO. cbn zeta in SO.
  destruct SO as (b & _ & _ & _ & _ & _ & O6 & _). exact O6.
Qed.

Lemma J_init c fs : J c (linit c fs).
Proof.
  constructor; cbn [linit l_st l_recs l_flushed]; [apply Inv1_init | | | |]; try (intros; contradiction).
  rewrite pl_init. intros g [].
Qed.

(* the writer runs its frame up to the listing; sound when no reader holds the lock or the frame leaves the
   window alone; the store of what it lists has been closed first *)
Lemma J_writer_go c l :
  (has_holder (l_recs l) = true -> forall f rest, l_in l = f :: rest -> takes_wlock c f (l_st l) = false) ->
  J c l -> J c (writer_go false c l).
Proof.
  intros Hh [A B C D F]. unfold writer_go. destruct (l_in l) as [|f rest] eqn:Hin.
  - constructor; cbn; assumption.
  - constructor; cbn [l_st l_recs l_flushed].
    + apply Inv1_write_frame. exact A.
    + exact B.
    + intros r g Hr Ha. destruct (C r g Hr Ha) as [C1 C2]. split; [exact C1 | apply write_frame_closed_mono; exact C2].
    + intros r g Hr Ha Hn. rewrite (no_wlock_pl c f (l_st l)).
      * eapply D; eauto.
      * eapply Hh; [eapply has_holder_in; eauto | reflexivity].
    + intros g Hg. destruct (write_frame_grows c f (l_st l)) as (ext & E1 & _ & E3).
      rewrite (new_closed_ext _ _ _ _ E1). apply in_or_app.
      destruct (E3 g Hg) as [K|K]; [right; apply F; exact K | left; apply in_map; exact K].
Qed.

Lemma copy_rec_in c fl s id l r' : In r' (copy_rec c fl s id l) ->
  In r' l \/
  exists r g, In r l /\ fr_at r = Some g /\ fr_res r = None /\
              r' = {| fr_id := fr_id r; fr_seq := fr_seq r; fr_at := fr_at r; fr_res := Some (get_now c fl (s_seq g) s) |}.
Proof.
  induction l as [|r l IH]; cbn [copy_rec]; [intros []|].
  destruct ((fr_id r =? id) && holding r) eqn:E.
  - intros [<-|H]; [|left; right; exact H]. right.
    apply andb_true_iff in E as [_ E]. unfold holding in E.
    destruct (fr_at r) as [g|] eqn:Ha; [|discriminate]. destruct (fr_res r) eqn:Hr; [discriminate|].
    exists r, g. repeat split; try assumption; [left; reflexivity | rewrite Ha; reflexivity].
  - intros [<-|H]; [left; left; reflexivity|].
    destruct (IH H) as [K|(r0 & g & K1 & K2)]; [left; right; exact K | right; exists r0, g; split; [right; exact K1 | exact K2]].
Qed.

Lemma J_copy c l id : J c l -> J c (set_recs (copy_rec c (l_flushed l) (l_st l) id (l_recs l)) l).
Proof.
  intros [A B C D F]. constructor; cbn [set_recs l_st l_recs l_flushed]; [exact A | | | | exact F].
  - intros r' x Hr' Hx. destruct (copy_rec_in _ _ _ _ _ _ Hr') as [K|(r & g & K1 & K2 & K3 & ->)]; [eapply B; eauto|].
    cbn [fr_res] in Hx. injection Hx as <-. unfold expected. cbn [fr_at]. rewrite K2.
    pose proof (D r g K1 K2 K3) as Hin.
    unfold get_now. rewrite (find_seg_consecutive _ _ _ (i_cons _ A) Hin).
    rewrite (mem_z_in _ _ (F g Hin)), orb_true_r. reflexivity.
  - intros r' g' Hr' Ha. destruct (copy_rec_in _ _ _ _ _ _ Hr') as [K|(r & g & K1 & K2 & K3 & ->)]; [eapply C; eauto|].
    cbn [fr_at fr_seq] in *. eapply C; eauto.
  - intros r' g' Hr' Ha Hn. destruct (copy_rec_in _ _ _ _ _ _ Hr') as [K|(r & g & K1 & K2 & K3 & ->)]; [eapply D; eauto|].
    cbn [fr_res] in Hn. discriminate.
Qed.

Lemma J_step c l a : J c l -> J c (lstep true c l a).
Proof.
  intros HJ. unfold lstep. destruct a as [|id seq|id]; cbn [lstep_gen].
  - destruct (l_blocked l); [exact HJ|].
    destruct (l_mid l).
    { destruct HJ as [A B C D F]. constructor; cbn [writer_finish l_st l_recs l_flushed]; try assumption.
      intros g Hg. apply in_or_app. right. apply F. exact Hg. }
    destruct (l_in l) as [|f rest] eqn:Hin; [exact HJ|].
    destruct (true && takes_wlock c f (l_st l) && has_holder (l_recs l)) eqn:E.
    + destruct HJ as [A B C D F]. constructor; cbn; assumption.
    + apply J_writer_go; [|exact HJ]. intros Hh f' rest' Hf. rewrite Hin in Hf. injection Hf as <- <-.
      cbn [andb] in E. rewrite Hh, andb_true_r in E. exact E.
  - destruct (l_blocked l || id_used id (l_recs l)); [exact HJ|].
    destruct HJ as [A B C D F].
    destruct (find_seg seq (pl (l_st l))) as [g|] eqn:Hf.
    + destruct (find_seg_some _ _ _ Hf) as [F1 F2].
      constructor; cbn [set_recs l_st l_recs l_flushed]; [exact A | | | | exact F].
      * intros r x Hr Hx. apply in_app_or in Hr as [Hr|[<-|[]]]; [eapply B; eauto | discriminate].
      * intros r g' Hr Ha. apply in_app_or in Hr as [Hr|[<-|[]]]; [eapply C; eauto|].
        cbn in Ha. injection Ha as <-. cbn [fr_seq]. split; [exact F1|].
        destruct (i_suffix _ A) as [pre E]. rewrite E. apply in_or_app. right. exact F2.
      * intros r g' Hr Ha Hn. apply in_app_or in Hr as [Hr|[<-|[]]]; [eapply D; eauto|].
        cbn in Ha. injection Ha as <-. exact F2.
    + constructor; cbn [set_recs l_st l_recs l_flushed]; [exact A | | | | exact F].
      * intros r x Hr Hx. apply in_app_or in Hr as [Hr|[<-|[]]]; [eapply B; eauto|].
        cbn in Hx. injection Hx as <-. reflexivity.
      * intros r g' Hr Ha. apply in_app_or in Hr as [Hr|[<-|[]]]; [eapply C; eauto | discriminate].
      * intros r g' Hr Ha Hn. apply in_app_or in Hr as [Hr|[<-|[]]]; [eapply D; eauto | discriminate].
  - pose proof (J_copy c l id HJ) as HJ'.
    destruct (l_blocked l && negb (has_holder (copy_rec c (l_flushed l) (l_st l) id (l_recs l)))) eqn:E; [|exact HJ'].
    apply J_writer_go; [|exact HJ']. cbn [set_recs l_recs]. intros Hh.
    apply andb_true_iff in E as [_ E]. rewrite Hh in E. discriminate.
Qed.

Lemma J_run c sched : forall l, J c l -> J c (lrun true c l sched).
Proof. induction sched as [|a t IH]; intros l H; [exact H|]. cbn [lrun]. apply IH, J_step, H. Qed.

(* ------------------------------------------------------------------ the theorems *)
(* any frame input, any number of fetchers, every schedule: with the read lock held from lookup to copy, a
   completed fetch returned exactly the frames (hence the transport stream) of the segment that carried the
   requested number when it was looked up — a segment the generator really produced for that number — or
   not-found if the number was not in the window at lookup time *)
Theorem fetch_stable_under_rollover c fs sched :
  let l := lrun true c (linit c fs) sched in
  forall r, In r (l_recs l) ->
    (forall x, fr_res r = Some x -> x = expected r) /\
    (forall g, fr_at r = Some g -> s_seq g = fr_seq r /\ In g (closed (l_st l))) /\
    fetch_ok r = true.
Proof.
  intros l r Hr. pose proof (J_run c sched (linit c fs) (J_init c fs)) as [A B C D F]. fold l in A, B, C, D.
  split; [intros x Hx; eapply B; eauto|]. split; [intros g Hg; eapply C; eauto|].
  unfold fetch_ok. destruct (fr_res r) as [x|] eqn:Hx; [|reflexivity].
  rewrite (B r x Hr Hx). destruct (expected r); cbn; try reflexivity.
  apply list_eqb_refl. apply wframe_eqb_refl.
Qed.

Lemma fres_eqb_refl x : fres_eqb x x = true.
Proof. destruct x; cbn; try reflexivity. apply list_eqb_refl, wframe_eqb_refl. Qed.

Lemma results_ok_model recs : (forall r x, In r recs -> fr_res r = Some x -> x = expected r) ->
  results_ok recs (map fr_res recs) = true.
Proof.
  induction recs as [|r t IH]; intros H; [reflexivity|]. cbn [map results_ok].
  rewrite IH by (intros r' x Hr; apply H; right; exact Hr).
  destruct (fr_res r) as [x|] eqn:Hx; [|reflexivity].
  rewrite (H r x (or_introl eq_refl) Hx), fres_eqb_refl. reflexivity.
Qed.

(* the oracle applied to a replay on the implementation accepts the (locked) model on every input and schedule *)
Theorem lts_model_passes c fs sched :
  lts_ok c fs sched (fst (lts_model true c fs sched)) (snd (lts_model true c fs sched)) = true.
Proof.
  unfold lts_ok, lts_model. cbn [fst snd].
  pose proof (J_run c sched (linit c fs) (J_init c fs)) as [A B C D F].
  rewrite results_ok_model by exact B. cbn [andb]. apply list_eqb_refl. intros []; reflexivity.
Qed.

(* the variant in which lookup and copy are not one critical section: fetch number 1 while it is listed
   (three segments closed: every closing frame is a list step and a finish step), let the fourth segment close (number 1 is evicted, its buffer recycled), copy: nil dereference in memory
   mode, an error in disk mode — and the writer never waited *)
Definition race_sched : list label := [LW; LW; LW; LW; LW; LW; LW; LW; LW; LW; LLookup 0 1; LW; LW; LCopy 0].
Definition race_frames : list frame := map d19_key [0; 1; 2; 3; 4; 5; 6; 7; 8].
Definition disk_cfg : cfg :=
  {| c_frag := 1; c_rate := 44100; c_mem := false; c_copy := true; c_path := [47; 97]; c_sps := [103]; c_pps := [104];
     c_pick := fun _ => O |}.

Theorem fetch_unlocked_refuted :
  map fr_res (l_recs (lrun false d35_cfg (linit d35_cfg race_frames) race_sched)) = [Some FPanic] /\
  map fr_res (l_recs (lrun false disk_cfg (linit disk_cfg race_frames) race_sched)) = [Some FErr] /\
  forallb fetch_ok (l_recs (lrun false d35_cfg (linit d35_cfg race_frames) race_sched)) = false /\
  (* the same schedule on the locked system: the writer waits and the fetch gets segment 1 *)
  forallb fetch_ok (l_recs (lrun true d35_cfg (linit d35_cfg race_frames) race_sched)) = true /\
  existsb (fun b => b) (ltrace true d35_cfg (linit d35_cfg race_frames) race_sched) = true.
Proof. repeat split; vm_compute; reflexivity. Qed.

(* ------------------------------------------------------------------ listed => complete *)
(* in every reachable state of the system as it is — between any two steps of any schedule, in particular while
   the writer stands between the listing and the rest of the frame — every listed segment has a closed store,
   so a fetch at any point after the listing gets the whole transport stream of that number *)
Theorem listed_segment_is_complete c fs sched :
  let l := lrun true c (linit c fs) sched in
  (forall g, In g (pl (l_st l)) -> In (s_seq g) (l_flushed l)) /\
  listed_complete c l = true /\
  (forall seq g, find_seg seq (pl (l_st l)) = Some g ->
     get_now c (l_flushed l) seq (l_st l) = FBytes (s_frames g)).
Proof.
  intros l. pose proof (J_run c sched (linit c fs) (J_init c fs)) as [A B C D F]. fold l in A, B, C, D, F.
  split; [exact F|]. split.
  - unfold listed_complete. apply orb_true_iff. right. apply forallb_forall. intros g Hg. apply mem_z_in, F, Hg.
  - intros seq g Hf. unfold get_now. rewrite Hf. destruct (find_seg_some _ _ _ Hf) as [E Hin].
    rewrite <- E, (mem_z_in _ _ (F g Hin)), orb_true_r. reflexivity.
Qed.

(* the variant that closes the store after the listing (close deferred to the end of segmentClose): on disk a
   fetch between the listing and the finish step gets a file without the buffered tail; in memory mode the
   variant is harmless; once the writer has finished the frame the same fetch is fine *)
Definition expected_of (c : cfg) (fs : list frame) : fres :=
  match find_seg 1 (closed (feed c fs (init c))) with Some g => FBytes (s_frames g) | None => FNotFound end.
Definition late_frames : list frame := map d19_key [0; 1; 2; 3].
Definition late_sched : list label := [LW; LW; LW; LLookup 0 1; LCopy 0; LW; LLookup 1 1; LCopy 1].

Theorem listed_incomplete_refuted :
  map fr_res (l_recs (lrun_gen true true disk_cfg (linit disk_cfg late_frames) late_sched))
    = [Some FPartial; Some (expected_of disk_cfg late_frames)] /\
  listed_complete disk_cfg (lrun_gen true true disk_cfg (linit disk_cfg late_frames) [LW; LW; LW]) = false /\
  forallb fetch_ok (l_recs (lrun_gen true true disk_cfg (linit disk_cfg late_frames) late_sched)) = false /\
  forallb fetch_ok (l_recs (lrun_gen true true d35_cfg (linit d35_cfg late_frames) late_sched)) = true /\
  forallb fetch_ok (l_recs (lrun true disk_cfg (linit disk_cfg late_frames) late_sched)) = true.
Proof. repeat split; vm_compute; reflexivity. Qed.
