From Coq Require Import ZArith List Bool Lia.
From V Require Import Val C05Cid.
Import ListNotations.
Open Scope Z_scope.

Lemma land_maxseq : forall x, Z.land x MAXSEQ = x mod 2 ^ 30.
Proof. intros x. change MAXSEQ with (Z.ones 30). apply Z.land_ones. lia. Qed.
Lemma land_3 : forall x, Z.land x 3 = x mod 2 ^ 2.
Proof. intros x. change 3 with (Z.ones 2). apply Z.land_ones. lia. Qed.

Lemma land_small : forall l, 0 <= l < MAXSEQ + 1 -> Z.land l MAXSEQ = l.
Proof. intros l H. rewrite land_maxseq. apply Z.mod_small. change (2 ^ 30) with (MAXSEQ + 1). exact H. Qed.

(* the sequence a call produces: in [1, 2^30 - 1), and it is the new seed *)
Lemma new_seq : forall seed, 0 <= seed < W32c ->
  let l := (seed + 1) mod W32c in
  let l' := if MAXSEQ <=? l then 1 else l in
  (1 <= l' < MAXSEQ \/ l' = 0) /\ (l' = 0 <-> seed = W32c - 1).
Proof.
  intros seed H l l'. subst l l'. unfold W32c, MAXSEQ in *.
  destruct (Z.eq_dec seed 4294967295) as [->|Hne].
  - cbn. split; [right; reflexivity | split; reflexivity].
  - rewrite Z.mod_small by lia.
    destruct (Z.leb_spec 1073741823 (seed + 1)); split; try lia.
Qed.

Lemma id_fields : forall t s, (t = 0 \/ t = 1) -> 0 <= s < MAXSEQ + 1 ->
  cid_type ((t * (MAXSEQ + 1) + s) mod W32c) = t /\ cid_seq ((t * (MAXSEQ + 1) + s) mod W32c) = s.
Proof.
  intros t s Ht Hs. unfold cid_type, cid_seq.
  rewrite Z.mod_small by (unfold W32c, MAXSEQ in *; destruct Ht; subst; lia).
  rewrite land_3, land_maxseq, Z.shiftr_div_pow2 by lia.
  change (2 ^ 30) with (MAXSEQ + 1).
  split.
  - rewrite Z.div_add_l by (unfold MAXSEQ; lia).
    rewrite (Z.div_small s) by lia. destruct Ht; subst; reflexivity.
  - rewrite Z.add_comm, Z.mod_add by (unfold MAXSEQ; lia). apply Z.mod_small. lia.
Qed.

(* every id carries the type it was created for and a sequence in [1, 2^30-1) that becomes the seed — for every
   32-bit seed except 2^32-1 (a seed the function itself never stores) *)
Theorem cid_model_ok : forall t seed, (t = 0 \/ t = 1) -> 0 <= seed < W32c - 1 ->
  cid_ok t seed (cid_model t seed) = true.
Proof.
  intros t seed Ht Hs. unfold cid_model, new_cid.
  pose proof (new_seq seed ltac:(lia)) as [Hr Hz]. cbv zeta in Hr, Hz.
  set (l := (seed + 1) mod W32c) in *.
  set (l' := if MAXSEQ <=? l then 1 else l) in *.
  assert (Hl' : 1 <= l' < MAXSEQ) by (destruct Hr as [Hr|Hr]; [exact Hr | apply Hz in Hr; lia]).
  rewrite land_small by lia.
  destruct (id_fields t l' Ht ltac:(lia)) as [E1 E2].
  unfold cid_ok. rewrite E1, E2.
  replace (if MAXSEQ <=? l then 1 else l) with l' by reflexivity.
  rewrite !Z.eqb_refl. destruct (Z.leb_spec 1 l'); [|lia]. destruct (Z.ltb_spec l' MAXSEQ); [|lia]. reflexivity.
Qed.

(* the seed stays in the range for which the theorem above speaks *)
Theorem cid_seed_stays_small : forall t seed, 0 <= seed < W32c - 1 ->
  1 <= snd (new_cid t seed) < MAXSEQ.
Proof.
  intros t seed Hs. unfold new_cid. cbn [snd].
  pose proof (new_seq seed ltac:(lia)) as [Hr Hz]. cbv zeta in Hr, Hz.
  destruct Hr as [Hr|Hr]; [exact Hr | apply Hz in Hr; lia].
Qed.

(* every id of any run of calls on one stream has the right type *)
Theorem cid_run_types : forall t k seed, (t = 0 \/ t = 1) -> 0 <= seed < W32c - 1 ->
  Forall (fun id => cid_type id = t /\ 1 <= cid_seq id < MAXSEQ) (cid_run t k seed).
Proof.
  intros t k. induction k as [|k IH]; intros seed Ht Hs; cbn [cid_run]; [constructor|].
  pose proof (cid_model_ok t seed Ht Hs) as Hok. pose proof (cid_seed_stays_small t seed Hs) as Hsm.
  unfold cid_model in Hok. destruct (new_cid t seed) as [id s'] eqn:E. cbn [snd] in Hsm.
  unfold cid_ok in Hok. rewrite !andb_true_iff in Hok. destruct Hok as [[[H1 H2] H3] _].
  constructor.
  - apply Z.eqb_eq in H1. apply Z.leb_le in H2. apply Z.ltb_lt in H3. auto.
  - apply IH; [exact Ht | unfold W32c, MAXSEQ in *; lia].
Qed.

(* the wrap bound matters: with the bound at 2^31 - 1 an RTP id gets the FLV type *)
Theorem cid_wide_wrap_refuted : exists seed, 0 <= seed < W32c - 1 /\
  let l := (seed + 1) mod W32c in
  cid_type ((0 * (MAXSEQ + 1) + (if 2147483647 <=? l then 1 else l)) mod W32c) <> 0.
Proof. exists 1073741823. split; [unfold W32c; lia | vm_compute; discriminate]. Qed.
