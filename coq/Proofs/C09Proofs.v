(* C09 — proofs about the TS writer model and the independent demultiplexer *)
From Coq Require Import ZArith List Bool Lia.
From V Require Import Bytes BytesLemmas C09Adts C09TsFrame C09TsWriter C09TsDemux.
Import ListNotations.
Open Scope Z_scope.

(* PAT/PMT: finite, by computation *)
Lemma ts_psi_holds :
  match ts_units mpegts_header with
  | Some [pat; pmt] => psi_ok pat pmt = true
  | _ => False
  end.
Proof. vm_compute. reflexivity. Qed.
