(* C09 — the theorems of DESIGN §6 C09, assembled from the packet / stream / mux proofs *)
From Coq Require Import ZArith List Bool Lia ZifyBool.
From V Require Import Bytes BytesLemmas C09Adts C09TsFrame C09TsWriter C09TsDemux
  C09BitLemmas C09CodecProofs C09PacketProofs C09StreamProofs C09FrameProofs C09MuxProofs.
Import ListNotations.
Open Scope Z_scope.

(* PAT/PMT: finite, by computation *)
Lemma ts_psi_holds :
  match ts_units mpegts_header with
  | Some [pat; pmt] => psi_ok pat pmt = true
  | _ => False
  end.
Proof. vm_compute. reflexivity. Qed.

Lemma zlen_concat_188 (l : list bytes) : Forall len188p l -> zlen (concat l) = 188 * Z.of_nat (length l).
Proof.
  induction 1 as [| p l Hp Hl IH]; [reflexivity |].
  cbn [concat length]. rewrite zlen_app, IH. unfold len188p in Hp. lia.
Qed.

Theorem ts_packets_wellformed fs : wf_frames fs = true ->
  zlen (ts_write_all fs) mod 188 = 0 /\
  exists ks, ts_parse (ts_write_all fs) = Some ks /\ Forall2 pkt_wf (ts_stream_packets fs) ks.
Proof.
  intros Hwf. destruct (ts_stream_spec fs Hwf) as (ks & us & Hparse & Hall & _ & _).
  split.
  - unfold ts_write_all. rewrite (zlen_concat_188 _ Hall).
    rewrite Z.mul_comm. apply Z.mod_mul. lia.
  - exists (kpat :: kpmt :: ks). split; [exact Hparse |].
    apply parse_packets_wf. unfold ts_parse, ts_write_all in Hparse.
    rewrite (chunks188_concat _ Hall) in Hparse by apply le_n. exact Hparse.
Qed.

Theorem ts_cc fs : wf_frames fs = true ->
  exists ks, ts_parse (ts_write_all fs) = Some ks /\ cc_continuous ks.
Proof.
  intros Hwf. destruct (ts_stream_spec fs Hwf) as (ks & us & Hparse & _ & Hu & _).
  exists (kpat :: kpmt :: ks). split; [exact Hparse |].
  unfold ts_units in Hu. rewrite Hparse in Hu. eapply demux_cc_continuous. exact Hu.
Qed.

Lemma conts_ok_forall pid cc ks : conts_ok pid cc ks ->
  Forall (fun k => k_pusi k = false /\ k_pid k = pid) ks.
Proof.
  revert cc. induction ks as [| k ks IH]; intros cc H; [constructor |].
  destruct H as (H1 & H2 & _ & H4). constructor; [auto | eapply IH; exact H4].
Qed.

(* one frame, every header/payload length and flag combination *)
Theorem ts_pes_roundtrip cc f : 0 <= f_pid f < 8192 -> f_pay f <> [] ->
  exists k0 ks,
    parse_packets (fst (ts_frame_packets cc f)) = Some (k0 :: ks) /\
    k_pusi k0 = true /\ k_pid k0 = f_pid f /\
    Forall (fun k => k_pusi k = false /\ k_pid k = f_pid f) ks /\
    k_rai k0 = f_key f /\
    k_pcr k0 = (if f_key f then Some (f_dts f mod M33) else None) /\
    parse_pes (concat (map k_payload (k0 :: ks))) =
      Some {| p_sid := f_sid f mod 256; p_pts := f_pts f mod M33;
              p_dts := if f_dts f =? f_pts f then None else Some (f_dts f mod M33);
              p_payload := f_hdr f ++ f_pay f |}.
Proof.
  intros Hp Hpay.
  destruct (ts_frame_spec cc f Hp Hpay) as (k0 & ks & H1 & _ & H3 & H4 & _ & H6 & H7 & H8 & H9 & _).
  exists k0, ks.
  split; [exact H1 |]. split; [exact H3 |]. split; [exact H4 |].
  split; [eapply conts_ok_forall; exact H8 |].
  split; [exact H6 |]. split; [exact H7 |].
  rewrite H9. apply parse_pes_hdr.
Qed.

(* the whole stream: PAT, PMT, then one payload unit per written frame, in order *)
Theorem ts_stream_roundtrip fs : wf_frames fs = true ->
  exists pat pmt us,
    ts_units (ts_write_all fs) = Some (pat :: pmt :: us) /\ psi_ok pat pmt = true /\
    units_ok unit_ok (filter has_payload fs) us = true.
Proof.
  intros Hwf. destruct (ts_stream_spec fs Hwf) as (ks & us & _ & _ & Hu & Hok).
  exists upat, upmt, us. split; [exact Hu |]. split; [exact psi_units_ok | exact Hok].
Qed.

(* what unit_ok says, in the property's words *)
Lemma unit_ok_meaning f u : unit_ok f u = true ->
  u_pid u = f_pid f /\ u_rai u = f_key f /\
  (f_key f = true -> u_pcr u = Some (f_dts f mod M33)) /\
  exists p, parse_pes (u_data u) = Some p /\
    p_sid p = f_sid f mod 256 /\ p_pts p = f_pts f mod M33 /\
    p_dts p = (if f_dts f =? f_pts f then None else Some (f_dts f mod M33)) /\
    p_payload p = f_hdr f ++ f_pay f.
Proof.
  unfold unit_ok, unit_flags_ok, pes_stamps_ok. intros H.
  apply andb_true_iff in H. destruct H as (Hfl & H).
  apply andb_true_iff in Hfl. destruct Hfl as (Hfl & Hpcr).
  apply andb_true_iff in Hfl. destruct Hfl as (Hpid & Hrai).
  apply Z.eqb_eq in Hpid. apply Bool.eqb_prop in Hrai.
  split; [exact Hpid |]. split; [exact Hrai |].
  split.
  { intros Hk. rewrite Hk in Hpcr. destruct (u_pcr u) as [x |]; [| discriminate].
    cbn in Hpcr. apply Z.eqb_eq in Hpcr. subst x. reflexivity. }
  destruct (parse_pes (u_data u)) as [p |]; [| discriminate].
  exists p. split; [reflexivity |].
  apply andb_true_iff in H. destruct H as (Hst & Hb).
  apply andb_true_iff in Hst. destruct Hst as (Hst & Hdts).
  apply andb_true_iff in Hst. destruct Hst as (Hsid & Hpts).
  apply Z.eqb_eq in Hsid. apply Z.eqb_eq in Hpts. apply bytes_eqb_eq in Hb.
  repeat split; auto.
  destruct (p_dts p) as [x |], (f_dts f =? f_pts f); cbn in Hdts; try discriminate; auto.
  apply Z.eqb_eq in Hdts. subst x. reflexivity.
Qed.
