(* C15 — H.265 SPS / VPS: refinement of the standard's description by the Go
   decoder's, and the reported values. *)
From Coq Require Import ZArith List Bool Lia ZifyBool.
From V Require Import C15BitFmt C15Ebsp C15H264 C15Hevc C15BitFmtProofs C15EbspProofs C15H264Proofs.
Import ListNotations.
Open Scope Z_scope.
Opaque K.

Ltac ref5 :=
  repeat first
   [ match goal with |- refines ?x ?x => apply refines_refl end
   | match goal with
     | |- refines (Assert _ ;; _) (Assert _ ;; _) => apply refines_seq
     | |- refines (Assert _ ;; _) (Nop ;; _) => apply refines_assert_nop
     | |- refines (Assert _ ;; _) (If _ _ _) =>
         apply refines_assert_else; [unfold isf; intros; lia | ]
     | |- refines (Assert _ ;; _) _ => apply refines_drop_assert
     | |- refines (_ ;; _) (_ ;; _) => apply refines_seq
     | |- refines (UE _ _ _) (UE _ _ _) => apply refines_ue; [unfold UE_MAX; lia | unfold UE_MAX; lia | lia]
     | |- refines (SE _ _ _ _) (SE _ _ _ _) =>
         apply refines_se; [unfold S31; lia | unfold S31; lia | lia | lia | lia]
     | |- refines (If _ _ _) (If _ _ _) => apply refines_if; [intros; reflexivity | | ]
     | |- refines (Repeat _ _) (Repeat _ _) => apply refines_repeat; [intros; reflexivity | intros]
     end ].

Lemma sub_layer_hrd_refl : forall q i t, refines (sub_layer_hrd q i t) (sub_layer_hrd q i t).
Proof. intros. apply refines_refl. Qed.

Lemma hrd265_refines : forall q c, refines (std_hrd265 q c) (go_hrd265 q c).
Proof. intros. unfold std_hrd265, go_hrd265, hrd_gen, When. ref5. Qed.

Lemma slo_refines : forall p, refines (slo_gen 16 32 p) (slo_gen UE_MAX 8 p).
Proof. intros. unfold slo_gen, When. ref5. Qed.

Lemma scaling265_refines : refines std_scaling265 go_scaling265.
Proof.
  unfold std_scaling265, go_scaling265, scaling_gen, When.
  change (0 <? 0) with false. change (-1 <? 0) with true. cbv iota.
  ref5.
  match goal with |- context [if ?c then _ else _] => destruct c end;
    (apply refines_ue; [unfold UE_MAX; lia | lia | lia]).
Qed.

Lemma rps_refines : forall r, refines (std_rps r) (go_rps r).
Proof. intros. unfold std_rps, go_rps, rps_explicit, When. ref5. Qed.

Lemma vui265_refines : refines std_vui265 go_vui265.
Proof. unfold std_vui265, go_vui265, vui_gen, When. ref5. apply hrd265_refines. Qed.

Theorem h265_sps_refines : refines std_h265_sps go_h265_sps.
Proof.
  unfold std_h265_sps, go_h265_sps, sps_gen, nal_header265, When. cbv iota.
  ref5.
  - apply slo_refines.
  - apply scaling265_refines.
  - apply rps_refines.
  - apply vui265_refines.
Qed.

Theorem h265_vps_refines : refines std_h265_vps go_h265_vps.
Proof.
  unfold std_h265_vps, go_h265_vps, vps_gen, nal_header265, When. cbv iota.
  ref5.
  - apply slo_refines.
  - apply hrd265_refines.
Qed.

(* ---------------------------------------------------------------- values *)
Lemma h265_values_agree : forall a,
  h265_ranges a = true ->
  go_width265 a = spec_width265 a /\ go_height265 a = spec_height265 a /\
  fps_bits (go_fps265 a) = fps_bits (spec_fps265 a).
Proof.
  intros a H. unfold h265_ranges in H. apply andb_prop in H. destruct H as [Ht Hc].
  unfold go_width265, go_height265, spec_width265, spec_height265, go_fps265, spec_fps265.
  destruct (get a h_conf_flag =? 1) eqn:C.
  - split; [|split]; try lia.
    destruct (get a v_timing_present =? 1) eqn:T.
    + replace (get a v_nut =? 0) with false by lia. replace (0 <? get a v_nut) with true by lia. reflexivity.
    + replace (get a v_nut =? 0) with true by lia. reflexivity.
  - assert (get a h_conf_left = 0 /\ get a h_conf_right = 0 /\ get a h_conf_top = 0 /\ get a h_conf_bottom = 0) by lia.
    destruct H as [H1 [H2 [H3 H4]]]. rewrite H1, H2, H3, H4.
    split; [|split]; try lia.
    destruct (get a v_timing_present =? 1) eqn:T.
    + replace (get a v_nut =? 0) with false by lia. replace (0 <? get a v_nut) with true by lia. reflexivity.
    + replace (get a v_nut =? 0) with true by lia. reflexivity.
Qed.

(* full statement intended: for every syntactically valid SPS.  Proved for the records whose
   short-term reference picture sets do not use inter prediction (the guard no_inter_rps is the
   Assert inside std_rps) — D30. *)
Theorem h265_dims_spec_partial : forall rec b a,
  emit std_h265_sps rec env0 = Some (b, a) ->
  h265_ranges a = true ->
  nal_shape_ok (nal_of_bits b) = true ->
  go_h265_obs (nal_of_bits b) =
    Some (spec_width265 a, spec_height265 a, fps_bits (spec_fps265 a), go_fixed265 a).
Proof.
  intros rec b a He Hr Hs.
  unfold go_h265_obs, go_h265_decode_with.
  rewrite (nal_bits_of_bits b Hs). unfold pad8. rewrite <- app_assoc.
  rewrite (refines_parse _ _ _ _ _ _ h265_sps_refines He).
  destruct (h265_values_agree a Hr) as [Hw [Hh Hf]].
  rewrite Hw, Hh, Hf. reflexivity.
Qed.

Theorem h265_model_passes : forall rec nal, ok_h265 rec nal (go_h265_obs nal) = true.
Proof.
  intros rec nal. unfold ok_h265.
  destruct (emit std_h265_sps rec env0) as [[b a]|] eqn:E; auto.
  destruct (h265_ranges a && zlist_eqb nal (nal_of_bits b) && nal_shape_ok nal) eqn:G; auto.
  apply andb_prop in G. destruct G as [G Hs]. apply andb_prop in G. destruct G as [Hr Hn].
  apply zlist_eqb_eq in Hn. subst nal.
  rewrite (h265_dims_spec_partial _ _ _ E Hr Hs). unfold spec_h265_obs.
  rewrite !Z.eqb_refl. reflexivity.
Qed.

Theorem h265_vps_spec : forall rec b a,
  emit std_h265_vps rec env0 = Some (b, a) ->
  nal_shape_ok (nal_of_bits b) = true ->
  go_vps_obs (nal_of_bits b) = Some (vps_view a).
Proof.
  intros rec b a He Hs. unfold go_vps_obs.
  rewrite (nal_bits_of_bits b Hs). unfold pad8. rewrite <- app_assoc.
  rewrite (refines_parse _ _ _ _ _ _ h265_vps_refines He). reflexivity.
Qed.

Theorem vps_model_passes : forall rec nal, ok_vps rec nal (go_vps_obs nal) = true.
Proof.
  intros rec nal. unfold ok_vps.
  destruct (emit std_h265_vps rec env0) as [[b a]|] eqn:E; auto.
  destruct (zlist_eqb nal (nal_of_bits b) && nal_shape_ok nal) eqn:G; auto.
  apply andb_prop in G. destruct G as [Hn Hs].
  apply zlist_eqb_eq in Hn. subst nal.
  rewrite (h265_vps_spec _ _ _ E Hs). unfold pobs_eqb, vps_view. rewrite !Z.eqb_refl. reflexivity.
Qed.

(* ---------------------------------------------------------------- D29 / D30 witnesses *)
Definition kv_env (l : list (Z * Z)) : env := fold_left (fun a kv => set a (fst kv) (snd kv)) l env0.

(* two temporal sub-layers, ordering info for both, 25 fps: before the repair the decoder read
   one triple instead of two and lost the rest of the SPS *)
Definition rec_d29 : env :=
  kv_env [(h_nal_type, 33); (h_tid, 1); (h_max_sub, 1); (h_nesting, 1); (h_chroma, 1);
          (h_width, 64); (h_height, 64); (h_slo_present, 1); (h_max_dec 0, 1); (h_max_dec 1, 3);
          (h_max_latency 1, 5);
          (h_vui_present, 1); (v_timing_present, 1); (v_nut, 1); (v_ts, 25)].

Theorem hevc_sublayer_refuted : exists b a,
  emit std_h265_sps rec_d29 env0 = Some (b, a) /\
  go_h265_obs (nal_of_bits b) = Some (64, 64, fps_bits (25, 1), true) /\
  go_h265_decode_with go_h265_sps_d29 (nal_of_bits b) <> go_h265_obs (nal_of_bits b).
Proof.
  destruct (emit std_h265_sps rec_d29 env0) as [[b a]|] eqn:E; [|vm_compute in E; discriminate].
  exists b, a. split; auto.
  assert (H : option_map (fun p : bits * env =>
              (vobs_eqb (go_h265_obs (nal_of_bits (fst p))) (Some (64, 64, fps_bits (25, 1), true)),
               vobs_eqb (go_h265_decode_with go_h265_sps_d29 (nal_of_bits (fst p)))
                        (go_h265_obs (nal_of_bits (fst p)))))
            (emit std_h265_sps rec_d29 env0) = Some (true, false)) by (vm_compute; reflexivity).
  rewrite E in H. cbn [option_map fst snd] in H. inversion H as [[H1 H2]].
  split.
  - apply vobs_eqb_eq in H1. rewrite H1. reflexivity.
  - intros C. rewrite C, vobs_eqb_refl in H2. discriminate.
Qed.

(* two reference picture sets, the second predicted from the first: valid per 7.3.7,
   rejected by the decoder (known finding D30) *)
Definition rec_d30 : env :=
  kv_env [(h_nal_type, 33); (h_tid, 1); (h_nesting, 1); (h_chroma, 1);
          (h_width, 64); (h_height, 64); (h_max_dec 0, 2);
          (h_num_st_rps, 2); (h_rps_neg 0, 1); (h_rps_s0 0 0, 0); (h_rps_s0_used 0 0, 1);
          (h_rps_inter 1, 1); (h_rps_used 1 0, 1); (h_rps_used 1 1, 1)].

Theorem hevc_inter_rps_rejected : exists b a,
  emit std_h265_sps_i rec_d30 env0 = Some (b, a) /\ h265_ranges a = true /\
  uses_inter_rps a = true /\ go_h265_obs (nal_of_bits b) = None.
Proof.
  destruct (emit std_h265_sps_i rec_d30 env0) as [[b a]|] eqn:E; [|vm_compute in E; discriminate].
  exists b, a. split; auto.
  assert (H : option_map (fun p : bits * env =>
              (h265_ranges (snd p), uses_inter_rps (snd p),
               vobs_eqb (go_h265_obs (nal_of_bits (fst p))) None))
            (emit std_h265_sps_i rec_d30 env0) = Some (true, true, true)) by (vm_compute; reflexivity).
  rewrite E in H. cbn [option_map fst snd] in H.
  assert (H1 : h265_ranges a = true) by congruence.
  assert (H2 : uses_inter_rps a = true) by congruence.
  assert (H3 : vobs_eqb (go_h265_obs (nal_of_bits b)) None = true) by congruence.
  split; [|split]; auto. apply vobs_eqb_eq. exact H3.
Qed.
