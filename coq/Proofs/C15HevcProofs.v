(* C15 — H.265 SPS / VPS: refinement of the standard's description by the Go
   decoder's, and the reported values. *)
From Coq Require Import ZArith List Bool Lia ZifyBool.
From V Require Import C15BitFmt C15Ebsp C15H264 C15Hevc C15BitFmtProofs C15EbspProofs C15H264Proofs.
Import ListNotations.
Open Scope Z_scope.

Ltac ref5 :=
  repeat first
   [ match goal with |- refines ?x ?x => apply refines_refl end
   | match goal with
     | |- refines (Assert _ ;; _) (Assert _ ;; _) => apply refines_seq
     | |- refines (Assert _ ;; _) (Nop ;; _) => apply refines_assert_nop
     | |- refines (Assert _ ;; _) (If _ _ _) =>
         apply refines_assert_else; [unfold isf; intros; lia | ]
     | |- refines (Assert _ ;; _) _ => apply refines_drop_assert
     | |- refines (_ ;; _) (_ ;; _) => apply refines_seq
     | |- refines (UE _ _ _) (UE _ _ _) => apply refines_ue; [unfold UE_MAX; lia | unfold UE_MAX; lia | lia]
     | |- refines (SE _ _ _ _) (SE _ _ _ _) =>
         apply refines_se; [unfold S31; lia | unfold S31; lia | lia | lia | lia]
     | |- refines (If _ _ _) (If _ _ _) => apply refines_if; [intros; reflexivity | | ]
     | |- refines (Repeat _ _) (Repeat _ _) => apply refines_repeat; [intros; reflexivity | intros]
     end ].

Lemma sub_layer_hrd_refl : forall q i t, refines (sub_layer_hrd q i t) (sub_layer_hrd q i t).
Proof. intros. apply refines_refl. Qed.

Lemma hrd265_refines : forall q c, refines (std_hrd265 q c) (go_hrd265 q c).
Proof. intros. unfold std_hrd265, go_hrd265, hrd_gen, When. ref5. Qed.

Lemma slo_refines : forall p, refines (slo_gen 16 32 p) (slo_gen UE_MAX 8 p).
Proof. intros. unfold slo_gen, When. ref5. Qed.

Lemma scaling265_refines : refines std_scaling265 go_scaling265.
Proof.
  unfold std_scaling265, go_scaling265, scaling_gen, When.
  change (0 <? 0) with false. change (-1 <? 0) with true. cbv iota.
  ref5.
  match goal with |- context [if ?c then _ else _] => destruct c end;
    (apply refines_ue; [unfold UE_MAX; lia | lia | lia]).
Qed.

Lemma rps_refines : forall r, refines (std_rps r) (go_rps r).
Proof. intros. unfold std_rps, go_rps, rps_explicit, When. ref5. Qed.

Lemma vui265_refines : refines std_vui265 go_vui265.
Proof. unfold std_vui265, go_vui265, vui_gen, When. ref5. apply hrd265_refines. Qed.

Theorem h265_sps_refines : refines std_h265_sps go_h265_sps.
Proof.
  unfold std_h265_sps, go_h265_sps, sps_gen, nal_header265, When. cbv iota.
  ref5.
  - apply slo_refines.
  - apply scaling265_refines.
  - apply rps_refines.
  - apply vui265_refines.
Qed.

Theorem h265_vps_refines : refines std_h265_vps go_h265_vps.
Proof.
  unfold std_h265_vps, go_h265_vps, vps_gen, nal_header265, When. cbv iota.
  ref5.
  - apply slo_refines.
  - apply hrd265_refines.
Qed.

(* ---------------------------------------------------------------- values *)
Lemma h265_values_agree : forall a,
  h265_ranges a = true ->
  go_width265 a = spec_width265 a /\ go_height265 a = spec_height265 a /\
  fps_bits (go_fps265 a) = fps_bits (spec_fps265 a).
Proof.
  intros a H. unfold h265_ranges in H. apply andb_prop in H. destruct H as [Ht Hc].
  unfold go_width265, go_height265, spec_width265, spec_height265, go_fps265, spec_fps265.
  destruct (get a h_conf_flag =? 1) eqn:C.
  - repeat split; try lia.
    destruct (get a v_timing_present =? 1) eqn:T.
    + replace (get a v_nut =? 0) with false by lia. replace (0 <? get a v_nut) with true by lia. reflexivity.
    + replace (get a v_nut =? 0) with true by lia. reflexivity.
  - assert (get a h_conf_left = 0 /\ get a h_conf_right = 0 /\ get a h_conf_top = 0 /\ get a h_conf_bottom = 0) by lia.
    destruct H as [H1 [H2 [H3 H4]]]. rewrite H1, H2, H3, H4.
    repeat split; try lia.
    destruct (get a v_timing_present =? 1) eqn:T.
    + replace (get a v_nut =? 0) with false by lia. replace (0 <? get a v_nut) with true by lia. reflexivity.
    + replace (get a v_nut =? 0) with true by lia. reflexivity.
Qed.

(* full statement intended: for every syntactically valid SPS.  Proved for the records whose
   short-term reference picture sets do not use inter prediction (the guard no_inter_rps is the
   Assert inside std_rps) — D30. *)
Theorem h265_dims_spec_partial : forall rec b a,
  emit std_h265_sps rec env0 = Some (b, a) ->
  h265_ranges a = true ->
  nal_shape_ok (nal_of_bits b) = true ->
  go_h265_obs (nal_of_bits b) =
    Some (spec_width265 a, spec_height265 a, fps_bits (spec_fps265 a), go_fixed265 a).
Proof.
  intros rec b a He Hr Hs.
  unfold go_h265_obs, go_h265_decode_with.
  rewrite (nal_bits_of_bits b Hs). unfold pad8. rewrite <- app_assoc.
  rewrite (refines_parse _ _ _ _ _ _ h265_sps_refines He).
  destruct (h265_values_agree a Hr) as [Hw [Hh Hf]].
  rewrite Hw, Hh, Hf. reflexivity.
Qed.

Theorem h265_model_passes : forall rec nal, ok_h265 rec nal (go_h265_obs nal) = true.
Proof.
  intros rec nal. unfold ok_h265.
  destruct (emit std_h265_sps rec env0) as [[b a]|] eqn:E; auto.
  destruct (h265_ranges a && zlist_eqb nal (nal_of_bits b) && nal_shape_ok nal) eqn:G; auto.
  apply andb_prop in G. destruct G as [G Hs]. apply andb_prop in G. destruct G as [Hr Hn].
  apply zlist_eqb_eq in Hn. subst nal.
  rewrite (h265_dims_spec_partial _ _ _ E Hr Hs). unfold spec_h265_obs.
  rewrite !Z.eqb_refl. reflexivity.
Qed.

Theorem h265_vps_spec : forall rec b a,
  emit std_h265_vps rec env0 = Some (b, a) ->
  nal_shape_ok (nal_of_bits b) = true ->
  go_vps_obs (nal_of_bits b) = Some (vps_view a).
Proof.
  intros rec b a He Hs. unfold go_vps_obs.
  rewrite (nal_bits_of_bits b Hs). unfold pad8. rewrite <- app_assoc.
  rewrite (refines_parse _ _ _ _ _ _ h265_vps_refines He). reflexivity.
Qed.

Theorem vps_model_passes : forall rec nal, ok_vps rec nal (go_vps_obs nal) = true.
Proof.
  intros rec nal. unfold ok_vps.
  destruct (emit std_h265_vps rec env0) as [[b a]|] eqn:E; auto.
  destruct (zlist_eqb nal (nal_of_bits b) && nal_shape_ok nal) eqn:G; auto.
  apply andb_prop in G. destruct G as [Hn Hs].
  apply zlist_eqb_eq in Hn. subst nal.
  rewrite (h265_vps_spec _ _ _ E Hs). unfold pobs_eqb, vps_view. rewrite !Z.eqb_refl. reflexivity.
Qed.
