From Coq Require Import ZArith List Bool Lia Permutation.
From V Require Import Bytes StrGo Route BytesLemmas.
Import ListNotations.
Open Scope Z_scope.

(* ---------- keys ---------- *)
Lemma has_key_eq k r : has_key k r = true <-> r_pat r = k.
Proof. unfold has_key. apply bytes_eqb_eq. Qed.

Lemma uniq_keys_nodup t : uniq_keys t = true <-> NoDup (map r_pat t).
Proof.
  induction t as [|r t IH]; simpl.
  - split; [constructor | reflexivity].
  - rewrite andb_true_iff, negb_true_iff, IH. split.
    + intros [H1 H2]. constructor; [|exact H2]. intros I.
      apply in_map_iff in I as [x [E Ix]].
      assert (existsb (has_key (r_pat r)) t = true) as X.
      { apply existsb_exists. exists x. split; [exact Ix | apply has_key_eq; exact E]. }
      congruence.
    + intros N. inversion N as [|? ? N1 N2]; subst. split; [|exact N2].
      destruct (existsb (has_key (r_pat r)) t) eqn:E; [|reflexivity].
      apply existsb_exists in E as [x [Ix Hx]]. apply has_key_eq in Hx.
      exfalso. apply N1. apply in_map_iff. exists x. split; assumption.
Qed.

Lemma nodup_key_inj t r1 r2 :
  NoDup (map r_pat t) -> In r1 t -> In r2 t -> r_pat r1 = r_pat r2 -> r1 = r2.
Proof.
  induction t as [|r t IH]; simpl; intros N I1 I2 E; [contradiction|].
  inversion N as [|? ? N1 N2]; subst.
  destruct I1 as [->|I1]; destruct I2 as [->|I2]; try reflexivity.
  - exfalso. apply N1. rewrite E. apply in_map. exact I2.
  - exfalso. apply N1. rewrite <- E. apply in_map. exact I1.
  - apply IH; assumption.
Qed.

Lemma uniq_keys_perm t t' : Permutation t t' -> uniq_keys t = true -> uniq_keys t' = true.
Proof.
  intros P H. apply uniq_keys_nodup. apply uniq_keys_nodup in H.
  eapply Permutation_NoDup; [apply Permutation_map; exact P | exact H].
Qed.

Lemma urls_nonempty_perm t t' : Permutation t t' -> urls_nonempty t = urls_nonempty t'.
Proof. apply forallb_perm. Qed.

Lemma lookup_none t k : lookup t k = None -> forall r, In r t -> has_key k r = false.
Proof. intros H r I. exact (find_none _ _ H r I). Qed.

(* ---------- the range loop picks a longest candidate ---------- *)
Definition cand (path : bytes) (r : route) : bool := path_match (r_pat r) path.

Definition pick_inv (path : bytes) (seen : table) (acc : option route * Z) : Prop :=
  match fst acc with
  | None => forall r, In r seen -> cand path r = false
  | Some r => In r seen /\ cand path r = true /\ snd acc = zlen (r_pat r) /\
              forall r', In r' seen -> cand path r' = true -> zlen (r_pat r') <= zlen (r_pat r)
  end.

Lemma pick_step path seen acc r :
  pick_inv path seen acc -> pick_inv path (seen ++ [r]) (pick path acc r).
Proof.
  unfold pick_inv, pick. fold (cand path r). intros H.
  destruct (cand path r) eqn:C.
  - destruct acc as [[a|] n]; simpl in *.
    + destruct H as (Ia & Ca & Hn & Hmax).
      destruct (zlen (r_pat r) >? n) eqn:G; simpl.
      * apply Z.gtb_lt in G. split; [apply in_or_app; right; left; reflexivity|].
        split; [exact C|]. split; [reflexivity|].
        intros r' I' C'. apply in_app_or in I' as [I'|[<-|[]]]; [|lia].
        specialize (Hmax r' I' C'). lia.
      * assert (zlen (r_pat r) <= n) by (destruct (Z.gtb_spec (zlen (r_pat r)) n); [discriminate|lia]).
        split; [apply in_or_app; left; exact Ia|]. split; [exact Ca|]. split; [exact Hn|].
        intros r' I' C'. apply in_app_or in I' as [I'|[<-|[]]]; [apply Hmax; assumption|lia].
    + split; [apply in_or_app; right; left; reflexivity|]. split; [exact C|]. split; [reflexivity|].
      intros r' I' C'. apply in_app_or in I' as [I'|[<-|[]]]; [|lia].
      rewrite (H r' I') in C'. discriminate.
  - destruct acc as [[a|] n]; simpl in *.
    + destruct H as (Ia & Ca & Hn & Hmax).
      split; [apply in_or_app; left; exact Ia|]. split; [exact Ca|]. split; [exact Hn|].
      intros r' I' C'. apply in_app_or in I' as [I'|[<-|[]]]; [apply Hmax; assumption|congruence].
    + intros r' I'. apply in_app_or in I' as [I'|[<-|[]]]; [apply H; exact I'|exact C].
Qed.

Lemma fold_pick_inv path t : forall seen acc,
  pick_inv path seen acc -> pick_inv path (seen ++ t) (fold_left (pick path) t acc).
Proof.
  induction t as [|r t IH]; intros seen acc H; simpl.
  - rewrite app_nil_r. exact H.
  - replace (seen ++ r :: t) with ((seen ++ [r]) ++ t) by (rewrite <- app_assoc; reflexivity).
    apply IH. apply pick_step. exact H.
Qed.

Lemma fold_pick_result path t :
  pick_inv path t (fold_left (pick path) t (None, 0)).
Proof.
  change t with ([] ++ t) at 1. apply fold_pick_inv. simpl. intros r [].
Qed.

(* with no exact key in the table, the loop's test is the directory-prefix test *)
Lemma cand_is_dir path r : has_key path r = false -> cand path r = is_dir_cand path r.
Proof.
  unfold cand, path_match, is_dir_cand, has_key. intros H.
  destruct (r_pat r) as [|c p] eqn:E.
  - reflexivity.
  - destruct (ends_with SLASH (c :: p)); simpl; [reflexivity | exact H].
Qed.

Lemma is_longest_unique t path r1 r2 :
  NoDup (map r_pat t) -> In r1 t -> In r2 t ->
  is_longest t path r1 = true -> is_longest t path r2 = true -> r1 = r2.
Proof.
  unfold is_longest. intros N I1 I2 H1 H2.
  apply andb_true_iff in H1 as [C1 F1]. apply andb_true_iff in H2 as [C2 F2].
  rewrite forallb_forall in F1, F2.
  pose proof (F1 r2 I2) as A. pose proof (F2 r1 I1) as B.
  rewrite C2 in A. rewrite C1 in B. simpl in A, B.
  apply Z.leb_le in A. apply Z.leb_le in B.
  unfold is_dir_cand in C1, C2.
  apply andb_true_iff in C1 as [_ P1]. apply andb_true_iff in C2 as [_ P2].
  apply (nodup_key_inj t); try assumption.
  apply (prefixes_same_length _ _ path P1 P2). unfold zlen in A, B. lia.
Qed.

Lemma fold_pick_is_find t path :
  NoDup (map r_pat t) ->
  (forall r, In r t -> has_key path r = false) ->
  fst (fold_left (pick path) t (None, 0)) = find (is_longest t path) t.
Proof.
  intros N NK. pose proof (fold_pick_result path t) as H. unfold pick_inv in H.
  destruct (fst (fold_left (pick path) t (None, 0))) as [r|] eqn:E.
  - destruct H as (Ir & Cr & _ & Hmax).
    assert (is_longest t path r = true) as L.
    { unfold is_longest. rewrite <- (cand_is_dir path r (NK r Ir)), Cr. simpl.
      apply forallb_forall. intros r' I'.
      rewrite <- (cand_is_dir path r' (NK r' I')).
      destruct (cand path r') eqn:C'; simpl; [|reflexivity].
      apply Z.leb_le. apply Hmax; assumption. }
    destruct (find (is_longest t path) t) as [r'|] eqn:F.
    + apply find_some in F as [I' L']. f_equal. eapply is_longest_unique; eassumption.
    + pose proof (find_none _ _ F r Ir). congruence.
  - destruct (find (is_longest t path) t) as [r'|] eqn:F; [|reflexivity].
    apply find_some in F as [I' L']. unfold is_longest in L'.
    apply andb_true_iff in L' as [C' _].
    rewrite <- (cand_is_dir path r' (NK r' I')), (H r' I') in C'. discriminate.
Qed.

(* ---------- URL join ---------- *)
Lemma join_url_spec r path :
  is_dir_cand path r = true -> r_url r <> [] ->
  join_url r path = Found {| r_pat := path; r_url := spec_url r path; r_keep := r_keep r |}.
Proof.
  unfold is_dir_cand, join_url, spec_url. intros H U.
  apply andb_true_iff in H as [E P].
  apply ends_with_split in E as [s' Es]. apply is_prefix_app in P as [rest Pr].
  destruct (last_byte (r_url r)) as [c|] eqn:L; [|apply last_byte_none in L; contradiction].
  assert (ends_with SLASH (r_url r) = (c =? SLASH)) as EW.
  { unfold ends_with. rewrite L. reflexivity. }
  rewrite EW. destruct (c =? SLASH) eqn:C; [reflexivity|].
  f_equal. f_equal. f_equal.
  assert (drop (zlen (r_pat r)) path = rest) as ->.
  { rewrite Pr. apply drop_app_exact. }
  rewrite Pr, Es, zlen_app. change (zlen [SLASH]) with 1.
  replace (zlen s' + 1 - 1) with (zlen s') by lia.
  rewrite <- app_assoc. apply drop_app_exact.
Qed.

Lemma urls_nonempty_in t r : urls_nonempty t = true -> In r t -> r_url r <> [].
Proof.
  unfold urls_nonempty. rewrite forallb_forall. intros H I. specialize (H r I).
  destruct (r_url r); [discriminate | discriminate].
Qed.

(* ---------- main theorems ---------- *)
Theorem match_go_is_spec t p :
  uniq_keys t = true -> urls_nonempty t = true -> match_go t p = spec_match t p.
Proof.
  intros U NE. apply uniq_keys_nodup in U. unfold match_go, spec_match.
  set (path := canonical_path p).
  destruct (ends_with SLASH path); [reflexivity|].
  unfold lookup. destruct (find (has_key path) t) as [r|] eqn:F; [reflexivity|].
  rewrite (fold_pick_is_find t path U (lookup_none t path F)).
  destruct (find (is_longest t path) t) as [r|] eqn:L; [|reflexivity].
  apply find_some in L as [I L]. unfold is_longest in L. apply andb_true_iff in L as [C _].
  apply join_url_spec; [exact C | eapply urls_nonempty_in; eassumption].
Qed.

Lemma is_longest_perm t t' path r : Permutation t t' -> is_longest t path r = is_longest t' path r.
Proof. intros P. unfold is_longest. f_equal. apply forallb_perm. exact P. Qed.

Theorem spec_match_perm t t' p :
  Permutation t t' -> uniq_keys t = true -> spec_match t p = spec_match t' p.
Proof.
  intros P U. apply uniq_keys_nodup in U. unfold spec_match.
  destruct (ends_with SLASH (canonical_path p)); [reflexivity|].
  set (path := canonical_path p).
  rewrite <- (find_unique_perm (has_key path) t t' P).
  2:{ intros a b Ia Ib Ha Hb. apply has_key_eq in Ha, Hb. eapply nodup_key_inj; eauto. congruence. }
  destruct (find (has_key path) t); [reflexivity|].
  assert (find (is_longest t path) t = find (is_longest t' path) t') as ->.
  { rewrite (find_ext (is_longest t' path) (is_longest t path)).
    2:{ intros r. symmetry. apply is_longest_perm. exact P. }
    apply find_unique_perm; [exact P|]. intros a b Ia Ib. apply is_longest_unique; assumption. }
  reflexivity.
Qed.

Theorem match_go_perm t t' p :
  Permutation t t' -> uniq_keys t = true -> urls_nonempty t = true ->
  match_go t p = match_go t' p.
Proof.
  intros P U NE.
  rewrite (match_go_is_spec t p U NE).
  rewrite (match_go_is_spec t' p (uniq_keys_perm _ _ P U)).
  2:{ rewrite <- (urls_nonempty_perm _ _ P). exact NE. }
  apply spec_match_perm; assumption.
Qed.

(* readable characterisation of the specification function *)
Theorem spec_match_meaning t p :
  uniq_keys t = true ->
  let path := canonical_path p in
  match spec_match t p with
  | NotFound =>
      ends_with SLASH path = true \/
      (forall r, In r t -> r_pat r <> path) /\
      (forall r, In r t -> is_dir_cand path r = false)
  | Found f =>
      ends_with SLASH path = false /\
      ((In f t /\ r_pat f = path) \/
       ((forall r, In r t -> r_pat r <> path) /\
        exists r, In r t /\ is_dir_cand path r = true /\
                  (forall r', In r' t -> is_dir_cand path r' = true ->
                              (length (r_pat r') <= length (r_pat r))%nat) /\
                  f = {| r_pat := path; r_url := spec_url r path; r_keep := r_keep r |}))
  | Panic => False
  end.
Proof.
  intros U path. unfold spec_match. fold path.
  destruct (ends_with SLASH path) eqn:E; [left; reflexivity|].
  destruct (find (has_key path) t) as [r|] eqn:F.
  - apply find_some in F as [I K]. apply has_key_eq in K. split; [reflexivity|]. left. auto.
  - assert (forall r, In r t -> r_pat r <> path) as NK.
    { intros r I K. apply has_key_eq in K. pose proof (find_none _ _ F r I). congruence. }
    destruct (find (is_longest t path) t) as [r|] eqn:L.
    + apply find_some in L as [I L]. split; [reflexivity|]. right. split; [exact NK|].
      exists r. unfold is_longest in L. apply andb_true_iff in L as [C A].
      split; [exact I|]. split; [exact C|]. split; [|reflexivity].
      intros r' I' C'. rewrite forallb_forall in A. specialize (A r' I').
      rewrite C' in A. simpl in A. apply Z.leb_le in A. unfold zlen in A. lia.
    + right. split; [exact NK|]. intros r I.
      destruct (is_dir_cand path r) eqn:C; [|reflexivity]. exfalso.
      (* some candidate of maximal length exists, contradiction with find = None *)
      assert (exists m, In m t /\ is_longest t path m = true) as [m [Im Lm]].
      { clear F NK L E U.
        assert (forall l, (forall x, In x l -> In x t) ->
                  (exists x, In x l /\ is_dir_cand path x = true) ->
                  exists m, In m l /\ is_dir_cand path m = true /\
                    forall x, In x l -> is_dir_cand path x = true -> zlen (r_pat x) <= zlen (r_pat m)) as MAX.
        { induction l as [|a l IH]; intros Sub [x [Ix Cx]]; [destruct Ix|].
          destruct (existsb (is_dir_cand path) l) eqn:EX.
          - apply existsb_exists in EX as [y [Iy Cy]].
            destruct IH as [m [Im [Cm Hm]]]; [intros; apply Sub; right; assumption | exists y; auto |].
            destruct (is_dir_cand path a) eqn:Ca.
            + destruct (Z.le_gt_cases (zlen (r_pat a)) (zlen (r_pat m))).
              * exists m. split; [right; exact Im|]. split; [exact Cm|].
                intros z [<-|Iz] Cz; [lia | apply Hm; assumption].
              * exists a. split; [left; reflexivity|]. split; [exact Ca|].
                intros z [<-|Iz] Cz; [lia | specialize (Hm z Iz Cz); lia].
            + exists m. split; [right; exact Im|]. split; [exact Cm|].
              intros z [<-|Iz] Cz; [congruence | apply Hm; assumption].
          - assert (x = a) as ->.
            { destruct Ix as [->|Ix]; [reflexivity|]. exfalso.
              assert (existsb (is_dir_cand path) l = true) by (apply existsb_exists; exists x; auto).
              congruence. }
            exists a. split; [left; reflexivity|]. split; [exact Cx|].
            intros z [<-|Iz] Cz; [lia|]. exfalso.
            assert (existsb (is_dir_cand path) l = true) by (apply existsb_exists; exists z; auto).
            congruence. }
        destruct (MAX t (fun x H => H)) as [m [Im [Cm Hm]]]; [exists r; auto|].
        exists m. split; [exact Im|]. unfold is_longest. rewrite Cm. simpl.
        apply forallb_forall. intros x Ix. destruct (is_dir_cand path x) eqn:Cx; simpl; [|reflexivity].
        apply Z.leb_le. apply Hm; assumption. }
      pose proof (find_none _ _ L m Im). congruence.
Qed.

(* ---------- histories: the table refines a finite map ---------- *)
Lemma lookup_app t1 t2 k :
  lookup (t1 ++ t2) k = match lookup t1 k with Some r => Some r | None => lookup t2 k end.
Proof. unfold lookup. induction t1 as [|a t1 IH]; simpl; [reflexivity|]. destruct (has_key k a); auto. Qed.

Lemma lookup_map_replace t pat r' k :
  r_pat r' = pat ->
  lookup (map (fun x => if has_key pat x then r' else x) t) k =
  if bytes_eqb pat k then (match lookup t pat with Some _ => Some r' | None => None end)
  else lookup t k.
Proof.
  intros K. unfold lookup. induction t as [|a t IH]; simpl.
  - destruct (bytes_eqb pat k); reflexivity.
  - destruct (has_key pat a) eqn:Ha.
    + assert (has_key k r' = bytes_eqb pat k) as -> by (unfold has_key; rewrite K; reflexivity).
      destruct (bytes_eqb pat k) eqn:E; [reflexivity|].
      rewrite IH. apply has_key_eq in Ha. unfold has_key at 2. rewrite Ha, E. reflexivity.
    + destruct (has_key k a) eqn:Hk.
      * destruct (bytes_eqb pat k) eqn:E; [|reflexivity].
        apply bytes_eqb_eq in E; subst. congruence.
      * rewrite IH. reflexivity.
Qed.

Lemma lookup_filter_del t pat k :
  lookup (filter (fun x => negb (has_key pat x)) t) k =
  if bytes_eqb pat k then None else lookup t k.
Proof.
  unfold lookup. induction t as [|a t IH]; simpl.
  - destruct (bytes_eqb pat k); reflexivity.
  - destruct (has_key pat a) eqn:Ha; simpl.
    + rewrite IH. destruct (bytes_eqb pat k) eqn:E; [reflexivity|].
      apply has_key_eq in Ha. unfold has_key. rewrite Ha, E. reflexivity.
    + destruct (has_key k a) eqn:Hk.
      * destruct (bytes_eqb pat k) eqn:E; [|reflexivity].
        apply bytes_eqb_eq in E; subst. congruence.
      * exact IH.
Qed.

Lemma abs_save url_ok t r k :
  url_ok (r_url r) = true ->
  abs (save url_ok t r) k = aupd (abs t) (canonical_path (r_pat r)) (Some (r_url r, r_keep r)) k.
Proof.
  intros OK. unfold save, abs, aupd. rewrite OK. simpl.
  set (pat := canonical_path (r_pat r)).
  destruct (lookup t pat) as [old|] eqn:L.
  - rewrite lookup_map_replace by reflexivity. rewrite L.
    destruct (bytes_eqb pat k); reflexivity.
  - rewrite lookup_app. destruct (bytes_eqb pat k) eqn:E.
    + apply bytes_eqb_eq in E; subst k. rewrite L. unfold lookup, has_key. simpl.
      rewrite bytes_eqb_refl. reflexivity.
    + destruct (lookup t k); [reflexivity|]. unfold lookup, has_key. simpl. rewrite E. reflexivity.
Qed.

Lemma abs_save_bad url_ok t r : url_ok (r_url r) = false -> save url_ok t r = t.
Proof. intros H. unfold save. rewrite H. reflexivity. Qed.

Lemma abs_del t p k : abs (del t p) k = aupd (abs t) (canonical_path p) None k.
Proof.
  unfold del, abs, aupd. rewrite lookup_filter_del.
  destruct (bytes_eqb (canonical_path p) k); reflexivity.
Qed.

Lemma astep_ext url_ok m m' o :
  (forall k, m k = m' k) -> forall k, astep url_ok m o k = astep url_ok m' o k.
Proof.
  intros H k. destruct o; simpl; try apply H.
  - destruct (url_ok (r_url r)); [|apply H]. unfold aupd. destruct (bytes_eqb _ k); [reflexivity|apply H].
  - unfold aupd. destruct (bytes_eqb _ k); [reflexivity|apply H].
Qed.

Lemma rstep_abs url_ok t o k :
  abs (fst (rstep url_ok t o)) k = astep url_ok (abs t) o k.
Proof.
  destruct o; simpl; try reflexivity.
  - destruct (url_ok (r_url r)) eqn:OK; [apply abs_save; exact OK | rewrite abs_save_bad; auto].
  - apply abs_del.
Qed.

Lemma rrun_cons url_ok t o ops :
  rrun url_ok t (o :: ops) =
  (fst (rrun url_ok (fst (rstep url_ok t o)) ops),
   snd (rstep url_ok t o) :: snd (rrun url_ok (fst (rstep url_ok t o)) ops)).
Proof.
  simpl. destruct (rstep url_ok t o) as [t1 out]. simpl.
  destruct (rrun url_ok t1 ops) as [t2 outs]. reflexivity.
Qed.

Theorem table_refines_map url_ok ops : forall t m,
  (forall k, abs t k = m k) ->
  forall k, abs (fst (rrun url_ok t ops)) k = fold_left (astep url_ok) ops m k.
Proof.
  induction ops as [|o ops IH]; intros t m H k.
  - simpl. apply H.
  - rewrite rrun_cons. cbn [fst fold_left]. apply IH. intros k'.
    rewrite rstep_abs. apply astep_ext. exact H.
Qed.

(* ---------- invariants of reachable tables ---------- *)
Lemma map_replace_keys t pat r' :
  r_pat r' = pat -> map r_pat (map (fun x => if has_key pat x then r' else x) t) = map r_pat t.
Proof.
  intros K. induction t as [|a t IH]; simpl; [reflexivity|]. rewrite IH. f_equal.
  destruct (has_key pat a) eqn:H; [|reflexivity]. apply has_key_eq in H. congruence.
Qed.

Lemma nodup_map_filter {A B} (f : A -> B) (p : A -> bool) l :
  NoDup (map f l) -> NoDup (map f (filter p l)).
Proof.
  induction l as [|a l IH]; simpl; intros N; [constructor|].
  inversion N as [|? ? N1 N2]; subst. destruct (p a); simpl; [|apply IH; exact N2].
  constructor; [|apply IH; exact N2]. intros I. apply N1.
  apply in_map_iff in I as [x [E Ix]]. apply filter_In in Ix as [Ix _].
  apply in_map_iff. exists x. auto.
Qed.

Lemma save_uniq url_ok t r : uniq_keys t = true -> uniq_keys (save url_ok t r) = true.
Proof.
  intros U. unfold save. destruct (url_ok (r_url r)); simpl; [|exact U].
  set (pat := canonical_path (r_pat r)).
  destruct (lookup t pat) eqn:L.
  - apply uniq_keys_nodup. rewrite map_replace_keys by reflexivity. apply uniq_keys_nodup. exact U.
  - apply uniq_keys_nodup. rewrite map_app. simpl.
    apply uniq_keys_nodup in U.
    apply NoDup_app_iff_local; [exact U|].
    intros I. apply in_map_iff in I as [x [E Ix]].
    pose proof (lookup_none _ _ L x Ix) as X. apply has_key_eq in E. congruence.
Qed.

Lemma del_uniq t p : uniq_keys t = true -> uniq_keys (del t p) = true.
Proof.
  intros U. apply uniq_keys_nodup. apply uniq_keys_nodup in U. unfold del.
  apply nodup_map_filter. exact U.
Qed.

Definition op_wf (url_ok : bytes -> bool) (o : rop) : bool :=
  match o with
  | RSave r => match r_url r with [] => negb (url_ok []) | _ => true end
  | _ => true
  end.

Lemma save_urls url_ok t r :
  op_wf url_ok (RSave r) = true -> urls_nonempty t = true -> urls_nonempty (save url_ok t r) = true.
Proof.
  unfold op_wf, save. intros W NE.
  destruct (url_ok (r_url r)) eqn:OK; simpl; [|exact NE].
  assert (r_url r <> []) as NZ.
  { intros E. rewrite E in W, OK. rewrite OK in W. discriminate. }
  destruct (lookup t _).
  - unfold urls_nonempty in *. rewrite forallb_forall in *. intros x Ix.
    apply in_map_iff in Ix as [y [E Iy]]. destruct (has_key _ y).
    + subst x. simpl. destruct (r_url r); [contradiction|reflexivity].
    + subst x. apply NE. exact Iy.
  - unfold urls_nonempty in *. rewrite forallb_app, NE. simpl.
    destruct (r_url r); [contradiction|reflexivity].
Qed.

Lemma del_urls t p : urls_nonempty t = true -> urls_nonempty (del t p) = true.
Proof.
  unfold urls_nonempty, del. rewrite !forallb_forall. intros H x Ix.
  apply filter_In in Ix as [Ix _]. apply H. exact Ix.
Qed.

Lemma rstep_inv url_ok t o :
  op_wf url_ok o = true -> uniq_keys t = true -> urls_nonempty t = true ->
  uniq_keys (fst (rstep url_ok t o)) = true /\ urls_nonempty (fst (rstep url_ok t o)) = true.
Proof.
  intros W U NE. destruct o; simpl; auto.
  - split; [apply save_uniq; exact U | apply save_urls; assumption].
  - split; [apply del_uniq; exact U | apply del_urls; exact NE].
Qed.

Lemma route_eqb_refl r : route_eqb r r = true.
Proof. unfold route_eqb. rewrite !bytes_eqb_refl, eqb_reflx. reflexivity. Qed.
Lemma outcome_eqb_refl o : outcome_eqb o o = true.
Proof. destruct o; simpl; auto using route_eqb_refl. Qed.
Lemma list_eqb_route_refl t : list_eqb_route t t = true.
Proof. induction t; simpl; [reflexivity|]. rewrite route_eqb_refl. exact IHt. Qed.

(* the oracle accepts the model on every well-formed history *)
Theorem model_passes_oracle url_ok ops : forall t,
  forallb (op_wf url_ok) ops = true -> uniq_keys t = true -> urls_nonempty t = true ->
  ok_hist url_ok t ops (snd (rrun url_ok t ops)) = true.
Proof.
  induction ops as [|o ops IH]; intros t W U NE; [reflexivity|].
  simpl in W. apply andb_true_iff in W as [Wo W].
  rewrite rrun_cons. cbn [snd ok_hist].
  destruct (rstep_inv url_ok t o Wo U NE) as [U1 NE1].
  rewrite (IH _ W U1 NE1), andb_true_r.
  destruct o; simpl; try reflexivity.
  - rewrite (match_go_is_spec t path U NE). apply outcome_eqb_refl.
  - unfold get. destruct (lookup t (canonical_path pat)); [apply route_eqb_refl|reflexivity].
  - apply list_eqb_route_refl.
Qed.
