(* C02 — the oracle of the FLV "late join next to other viewers" stream accepts the model. *)
From Coq Require Import ZArith List Bool Arith Lia.
From V Require Import StreamLts Cache CacheProofs C02Classify C02ClassifyProofs C02FlvViewers.
Import ListNotations.
Open Scope Z_scope.

Lemma replay_ok_model : forall gopon tags n, replay_ok gopon tags n (join_replay gopon tags n) = true.
Proof.
  intros gopon tags n. unfold replay_ok, join_replay. cbv zeta.
  rewrite map_map. cbn [fst snd].
  pose proof (flv_model_passes gopon (firstn n tags)) as H. cbv zeta in H. rewrite H. cbn [andb].
  apply forallb_forall. intros x Hx. apply in_map_iff in Hx. destruct Hx as (t & <- & _).
  cbn [fst snd]. apply zlist_eqb_refl.
Qed.

Lemma origs_ok_refl : forall tags, origs_ok tags (map (fun t => (snd (fst t), snd t)) tags) = true.
Proof.
  induction tags as [|[[ty ts] d] tags IH]; [reflexivity|].
  cbn [map origs_ok fst snd]. rewrite Z.eqb_refl, zlist_eqb_refl, IH. reflexivity.
Qed.

Lemma joins_ok_model : forall gopon tags evs n,
  joins_ok gopon tags n evs (map (fun r => (r, r)) (viewers_joins gopon tags n evs)) = true.
Proof.
  intros gopon tags. induction evs as [|e evs IH]; intros n; [reflexivity|].
  destruct e; cbn [joins_ok viewers_joins map]; try apply IH.
  rewrite !replay_ok_model, IH. reflexivity.
Qed.

(* the oracle applied to the implementation accepts the model: every replay (read at the join and
   read again at the end) is the specification over the published prefix, the published tags are
   unchanged *)
Theorem viewers_model_passes : forall gopon tags evs,
  viewers_ok gopon tags evs
    (map (fun r => (r, r)) (viewers_joins gopon tags O evs))
    (map (fun t => (snd (fst t), snd t)) tags) = true.
Proof.
  intros. unfold viewers_ok. rewrite joins_ok_model, origs_ok_refl. reflexivity.
Qed.

(* the prediction does not mention the viewers: schedules that differ only in attachments of other
   viewers and in runs of their writers predict the same replays *)
Fixpoint strip_viewers (evs : list vev) : list vev :=
  match evs with
  | [] => []
  | VPub :: r => VPub :: strip_viewers r
  | VJoin :: r => VJoin :: strip_viewers r
  | _ :: r => strip_viewers r
  end.

Theorem viewers_joins_ignore_viewers : forall gopon tags evs n,
  viewers_joins gopon tags n evs = viewers_joins gopon tags n (strip_viewers evs).
Proof.
  intros gopon tags. induction evs as [|e evs IH]; intros n; [reflexivity|].
  destruct e; cbn [viewers_joins strip_viewers]; rewrite ?IH; reflexivity.
Qed.
