(* C02 part C — proofs about the byte-level classifier (Model/C02Classify.v):
   classify_packetisation, agg_scan never runs out of fuel, FLV join timestamps, the FLV cache is
   the packet cache of Model/Cache.v on tag kinds, and the oracles accept the model. *)
From Coq Require Import ZArith List Bool Arith Lia.
From V Require Import StreamLts Cache CacheProofs C02Classify.
Import ListNotations.
Open Scope Z_scope.

(* ---------- finite sweeps over a byte ---------- *)

Definition zrange (n : nat) : list Z := map Z.of_nat (seq 0 n).

Lemma zrange_in : forall n z, 0 <= z < Z.of_nat n -> In z (zrange n).
Proof.
  intros n z H. unfold zrange. apply in_map_iff. exists (Z.to_nat z). split; [lia|].
  apply in_seq. lia.
Qed.

Lemma sweep : forall (P : Z -> bool) n,
  forallb P (zrange n) = true -> forall z, 0 <= z < Z.of_nat n -> P z = true.
Proof. intros P n H z Hz. rewrite forallb_forall in H. apply H, zrange_in, Hz. Qed.

Lemma byte_ok_range : forall b, byte_ok b = true -> 0 <= b < Z.of_nat (Z.to_nat 256).
Proof. intros b H. unfold byte_ok in H. apply andb_prop in H. destruct H. lia. Qed.

Definition sbit (first : bool) : Z := if first then 128 else 0.
Definition ebit (last : bool) : Z := if last then 64 else 0.
Definition b2z (b : bool) : Z := if b then 1 else 0.

(* all the mask / shift facts the packetiser and the classifier share, per header byte *)
Definition byte_facts (h : Z) : bool :=
  let t4 := h264_hdr_type h in let t5 := hevc_hdr_type h in
  (0 <=? t4) && (t4 <? 32) && (0 <=? t5) && (t5 <? 64) &&
  (h264_hdr_type (Z.lor (Z.land h 224) 28) =? 28) &&
  (h264_hdr_type (Z.lor (Z.land h 224) 24) =? 24) &&
  (hevc_hdr_type (Z.lor (Z.land h 129) 98) =? 49) &&
  (hevc_hdr_type (Z.lor (Z.land h 129) 96) =? 48) &&
  forallb (fun fl : bool * bool =>
     let fh4 := sbit (fst fl) + ebit (snd fl) + t4 in
     let fh5 := sbit (fst fl) + ebit (snd fl) + t5 in
     (Z.land fh4 31 =? t4) && (Z.land (Z.shiftr fh4 7) 1 =? b2z (fst fl)) &&
     (Z.land fh5 63 =? t5) && (Z.land (Z.shiftr fh5 7) 1 =? b2z (fst fl)))
    [(true, true); (true, false); (false, true); (false, false)].

Lemma byte_facts_all : forall h, byte_ok h = true -> byte_facts h = true.
Proof.
  intros h H. apply (sweep byte_facts (Z.to_nat 256)); [vm_compute; reflexivity|].
  apply byte_ok_range, H.
Qed.

(* ---------- classes and flags ---------- *)

Definition set_class (k : Z) (f : flags) : flags :=
  if k =? 5 then set_vps f else if k =? 3 then set_sps f else if k =? 4 then set_pps f
  else if k =? 2 then set_key f else f.

Lemma h264_nal_type_class : forall t f, h264_nal_type t f = set_class (type_class H264 t) f.
Proof.
  intros t f. unfold h264_nal_type, type_class, set_class.
  destruct (t =? 7); [reflexivity|]. destruct (t =? 8); [reflexivity|].
  destruct (t =? 5); reflexivity.
Qed.

Lemma hevc_nal_type_class : forall t f, hevc_nal_type t f = set_class (type_class H265 t) f.
Proof.
  intros t f. unfold hevc_nal_type, type_class, set_class.
  destruct ((16 <=? t) && (t <=? 21)); [reflexivity|]. destruct (t =? 32); [reflexivity|].
  destruct (t =? 33); [reflexivity|]. destruct (t =? 34); reflexivity.
Qed.

Definition upd_of (c : codec) : Z -> flags -> flags :=
  match c with H264 => h264_nal_type | H265 => hevc_nal_type end.
Definition ht_of (c : codec) : Z -> Z :=
  match c with H264 => h264_hdr_type | H265 => hevc_hdr_type end.

Lemma upd_of_class : forall c t f, upd_of c t f = set_class (type_class c t) f.
Proof. intros [] t f; [apply h264_nal_type_class|apply hevc_nal_type_class]. Qed.

Lemma type_class_h264_not5 : forall t, (type_class H264 t =? 5) = false.
Proof.
  intros t. unfold type_class. destruct (t =? 7); [reflexivity|]. destruct (t =? 8); [reflexivity|].
  destruct (t =? 5); reflexivity.
Qed.

(* one unit: the kind CachePack derives from the flags is the class of the unit's type *)
Lemma kind_single : forall c t, kind_of_flags c (upd_of c t f0) = type_class c t.
Proof.
  intros c t. rewrite upd_of_class.
  destruct c; unfold type_class, set_class, kind_of_flags.
  - destruct (t =? 7); [reflexivity|]. destruct (t =? 8); [reflexivity|]. destruct (t =? 5); reflexivity.
  - destruct ((16 <=? t) && (t <=? 21)); [reflexivity|]. destruct (t =? 32); [reflexivity|].
    destruct (t =? 33); [reflexivity|]. destruct (t =? 34); reflexivity.
Qed.

Lemma fold_set_class : forall ks f,
  let f' := fold_left (fun f k => set_class k f) ks f in
  f_vps f' = f_vps f || existsb (Z.eqb 5) ks /\
  f_sps f' = f_sps f || existsb (Z.eqb 3) ks /\
  f_pps f' = f_pps f || existsb (Z.eqb 4) ks /\
  f_key f' = f_key f || existsb (Z.eqb 2) ks.
Proof.
  induction ks as [|k ks IH]; intros f; cbn zeta.
  - cbn. rewrite !orb_false_r. auto.
  - cbn [fold_left existsb]. specialize (IH (set_class k f)). cbn zeta in IH.
    destruct IH as (H1 & H2 & H3 & H4). rewrite H1, H2, H3, H4. unfold set_class.
    destruct (Z.eqb_spec k 5) as [->|N5]; [cbn; rewrite ?orb_true_r, ?orb_true_l; auto|].
    destruct (Z.eqb_spec k 3) as [->|N3]; [cbn; rewrite ?orb_true_r, ?orb_true_l; auto|].
    destruct (Z.eqb_spec k 4) as [->|N4]; [cbn; rewrite ?orb_true_r, ?orb_true_l; auto|].
    destruct (Z.eqb_spec k 2) as [->|N2]; [cbn; rewrite ?orb_true_r, ?orb_true_l; auto|].
    replace (5 =? k) with false by (symmetry; apply Z.eqb_neq; lia).
    replace (3 =? k) with false by (symmetry; apply Z.eqb_neq; lia).
    replace (4 =? k) with false by (symmetry; apply Z.eqb_neq; lia).
    replace (2 =? k) with false by (symmetry; apply Z.eqb_neq; lia).
    cbn. auto.
Qed.

Lemma h264_no_vps : forall nals : list (list Z),
  existsb (Z.eqb 5) (map (nal_class H264) nals) = false.
Proof.
  induction nals as [|n nals IH]; [reflexivity|]. cbn [map existsb]. rewrite IH, orb_false_r.
  unfold nal_class. rewrite Z.eqb_sym. apply type_class_h264_not5.
Qed.

Lemma kind_agg : forall c (nals : list (list Z)),
  kind_of_flags c (fold_left (fun f k => set_class k f) (map (nal_class c) nals) f0) = agg_class c nals.
Proof.
  intros c nals. destruct (fold_set_class (map (nal_class c) nals) f0) as (H1 & H2 & H3 & H4).
  cbn zeta in *. unfold kind_of_flags, agg_class. rewrite H2, H3, H4. cbn [f0 f_vps f_sps f_pps f_key orb].
  destruct c.
  - rewrite h264_no_vps. reflexivity.
  - rewrite H1. reflexivity.
Qed.

(* ---------- single NAL unit packets ---------- *)

Lemma nal_ok_hd : forall c nal, nal_ok c nal = true ->
  exists h rest, nal = h :: rest /\ byte_ok h = true /\ nal_type c nal = ht_of c h /\
                 is_unit_type c (ht_of c h) = true.
Proof.
  intros c nal H. unfold nal_ok in H. apply andb_prop in H. destruct H as [H Hu].
  apply andb_prop in H. destruct H as [Hl Hb].
  destruct nal as [|h rest]; [destruct c; discriminate|].
  exists h, rest. split; [reflexivity|]. split.
  - destruct c; cbn in Hb; apply andb_prop in Hb; apply Hb.
  - destruct c; cbn in *; auto.
Qed.

Lemma classify_single : forall c nal,
  nal_ok c nal = true -> (3 <= length nal)%nat -> classify c 0 nal = CK (nal_class c nal).
Proof.
  intros c nal Hok Hlen. destruct (nal_ok_hd c nal Hok) as (h & rest & -> & Hb & Ht & Hu).
  unfold classify, nal_class. cbn [Z.eqb negb]. rewrite Ht.
  assert (L : (length (h :: rest) <? 3)%nat = false) by (apply Nat.ltb_ge; exact Hlen).
  destruct c; cbn [codec_flags]; [unfold h264_flags|unfold hevc_flags]; rewrite L; cbv zeta; cbn [ht_of] in *.
  - unfold is_unit_type in Hu. apply negb_true_iff in Hu.
    assert (Hr : h264_hdr_type h < 24 \/ 29 < h264_hdr_type h).
    { apply andb_false_iff in Hu. destruct Hu as [Hu|Hu]; apply Z.leb_gt in Hu; lia. }
    assert (E1 : (24 <=? h264_hdr_type h) && (h264_hdr_type h <=? 27) = false).
    { apply andb_false_iff. destruct Hr; [left|right]; apply Z.leb_gt; lia. }
    assert (E2 : (h264_hdr_type h =? 28) || (h264_hdr_type h =? 29) = false).
    { apply orb_false_iff. split; apply Z.eqb_neq; lia. }
    rewrite E1, E2. f_equal. apply (kind_single H264).
  - unfold is_unit_type in Hu. apply negb_true_iff, orb_false_iff in Hu. destruct Hu as [U1 U2].
    rewrite U1, U2. f_equal. apply (kind_single H265).
Qed.

(* ---------- fragmentation units ---------- *)

Lemma fu_facts : forall h first last, byte_ok h = true ->
  h264_hdr_type (Z.lor (Z.land h 224) 28) = 28 /\
  h264_hdr_type (Z.lor (Z.land h 224) 24) = 24 /\
  hevc_hdr_type (Z.lor (Z.land h 129) 98) = 49 /\
  hevc_hdr_type (Z.lor (Z.land h 129) 96) = 48 /\
  Z.land (sbit first + ebit last + h264_hdr_type h) 31 = h264_hdr_type h /\
  (Z.land (Z.shiftr (sbit first + ebit last + h264_hdr_type h) 7) 1 =? 1) = first /\
  Z.land (sbit first + ebit last + hevc_hdr_type h) 63 = hevc_hdr_type h /\
  (Z.land (Z.shiftr (sbit first + ebit last + hevc_hdr_type h) 7) 1 =? 1) = first.
Proof.
  intros h first last Hb. pose proof (byte_facts_all h Hb) as F. unfold byte_facts in F. cbv zeta in F.
  apply andb_prop in F. destruct F as [F F9]. apply andb_prop in F. destruct F as [F F8].
  apply andb_prop in F. destruct F as [F F7]. apply andb_prop in F. destruct F as [F F6].
  apply andb_prop in F. destruct F as [F F5].
  rewrite forallb_forall in F9. specialize (F9 (first, last)).
  assert (I : In (first, last) [(true, true); (true, false); (false, true); (false, false)]).
  { destruct first, last; cbn; auto. }
  specialize (F9 I). cbn [fst snd] in F9.
  apply andb_prop in F9. destruct F9 as [F9 G4]. apply andb_prop in F9. destruct F9 as [F9 G3].
  apply andb_prop in F9. destruct F9 as [G1 G2].
  apply Z.eqb_eq in F5, F6, F7, F8, G1, G2, G3, G4.
  repeat split; auto.
  - rewrite G2. destruct first; reflexivity.
  - rewrite G4. destruct first; reflexivity.
Qed.

Lemma classify_fu : forall c nal first last piece,
  nal_ok c nal = true -> (1 <= length piece)%nat ->
  classify c 0 (fu_packet c nal first last piece) = CK (if first then nal_class c nal else 1).
Proof.
  intros c nal first last piece Hok Hp.
  destruct (nal_ok_hd c nal Hok) as (h & rest & -> & Hb & Ht & Hu).
  destruct (fu_facts h first last Hb) as (A1 & _ & A3 & _ & A5 & A6 & A7 & A8).
  unfold classify, nal_class. cbn [Z.eqb negb]. rewrite Ht.
  destruct c; cbn [ht_of].
  - cbn [fu_packet codec_flags]. fold (sbit first) (ebit last). unfold h264_flags.
    assert (L : Nat.ltb (length ([Z.lor (Z.land h 224) 28; sbit first + ebit last + h264_hdr_type h] ++ piece)) 3 = false).
    { apply Nat.ltb_ge. rewrite app_length. cbn. lia. }
    rewrite L. cbn [app]. cbv zeta. rewrite A1.
    change ((24 <=? 28) && (28 <=? 27)) with false. change ((28 =? 28) || (28 =? 29)) with true.
    cbv iota. cbn [nth_error]. rewrite A6, A5. destruct first; [f_equal; apply (kind_single H264)|reflexivity].
  - unfold nal_ok in Hok. apply andb_prop in Hok. destruct Hok as [Hok _].
    apply andb_prop in Hok. destruct Hok as [Hl _]. apply Nat.leb_le in Hl. cbn in Hl.
    destruct rest as [|h1 rest]; [cbn in Hl; lia|].
    cbn [fu_packet codec_flags]. fold (sbit first) (ebit last). unfold hevc_flags.
    assert (L : Nat.ltb (length ([Z.lor (Z.land h 129) 98; h1; sbit first + ebit last + hevc_hdr_type h] ++ piece)) 3 = false).
    { apply Nat.ltb_ge. rewrite app_length. cbn. lia. }
    rewrite L. cbn [app]. cbv zeta. rewrite A3.
    change (49 =? 48) with false. change (49 =? 49) with true.
    cbv iota. cbn [nth_error]. rewrite A8, A7. destruct first; [f_equal; apply (kind_single H265)|reflexivity].
Qed.

Lemma classify_fu_split : forall c nal sizes body first,
  nal_ok c nal = true ->
  forallb (fun n => (1 <=? n)%nat) sizes = true -> (sum_nat sizes <= length body)%nat ->
  map (classify c 0) (fu_split c nal first body sizes) =
  map CK (match sizes with
          | [] => []
          | _ :: sizes' => (if first then nal_class c nal else 1) :: map (fun _ => 1) sizes'
          end).
Proof.
  intros c nal sizes. induction sizes as [|n sizes IH]; intros body first Hok Hs Hsum; [reflexivity|].
  cbn [forallb] in Hs. apply andb_prop in Hs. destruct Hs as [Hn Hs]. apply Nat.leb_le in Hn.
  cbn [sum_nat] in Hsum. cbn [fu_split map].
  rewrite classify_fu; [|exact Hok|rewrite firstn_length; lia].
  f_equal. rewrite (IH (skipn n body) false Hok Hs); [|rewrite skipn_length; lia].
  destruct sizes; reflexivity.
Qed.

(* ---------- aggregation packets ---------- *)

Lemma nth_error_app_at : forall A (pre : list A) x rest, nth_error (pre ++ x :: rest) (length pre) = Some x.
Proof. intros. rewrite nth_error_app2 by lia. rewrite Nat.sub_diag. reflexivity. Qed.

Lemma agg_entry_length : forall nal, length (agg_entry nal) = (2 + length nal)%nat.
Proof. intros. unfold agg_entry. cbn. reflexivity. Qed.

Lemma concat_entries_length : forall nals : list (list Z),
  (length nals <= length (concat (map agg_entry nals)))%nat.
Proof.
  induction nals as [|n nals IH]; [cbn; lia|].
  cbn [map concat]. rewrite app_length, agg_entry_length. cbn [length]. lia.
Qed.

Lemma agg_scan_entries : forall ht upd nals pre f fuel,
  nals <> [] ->
  forallb (fun nal : list Z => (1 <=? length nal)%nat && (Z.of_nat (length nal) <? 65536)) nals = true ->
  (length nals <= fuel)%nat ->
  agg_scan ht upd fuel (pre ++ concat (map agg_entry nals)) (length pre) f =
  FOk (fold_left (fun f nal => upd (ht (hd 0 nal)) f) nals f).
Proof.
  intros ht upd nals. induction nals as [|nal nals IH]; intros pre f fuel Hne Hall Hfuel; [contradiction|].
  cbn [forallb] in Hall. apply andb_prop in Hall. destruct Hall as [Hn Hall].
  apply andb_prop in Hn. destruct Hn as [Hn1 Hn2]. apply Nat.leb_le in Hn1. apply Z.ltb_lt in Hn2.
  destruct fuel as [|fuel]; [cbn in Hfuel; lia|]. cbn [length] in Hfuel.
  destruct nal as [|h body]; [cbn in Hn1; lia|].
  set (n := Z.of_nat (length (h :: body))) in *.
  cbn [map concat]. unfold agg_entry at 1. fold n.
  set (hi := n / 256). set (lo := n mod 256). set (tail := concat (map agg_entry nals)).
  change (pre ++ ([hi; lo] ++ h :: body) ++ tail) with (pre ++ hi :: lo :: h :: body ++ tail).
  set (P := pre ++ hi :: lo :: h :: body ++ tail).
  assert (N0 : nth_error P (length pre) = Some hi).
  { unfold P. rewrite nth_error_app2 by lia. rewrite Nat.sub_diag. reflexivity. }
  assert (N1 : nth_error P (S (length pre)) = Some lo).
  { unfold P. rewrite nth_error_app2 by lia.
    replace (S (length pre) - length pre)%nat with 1%nat by lia. reflexivity. }
  assert (N2 : nth_error P (length pre + 2) = Some h).
  { unfold P. rewrite nth_error_app2 by lia.
    replace (length pre + 2 - length pre)%nat with 2%nat by lia. reflexivity. }
  assert (LP : (length pre + 3 <= length P)%nat).
  { unfold P. rewrite app_length. cbn [length]. lia. }
  assert (G1 : (length P <? length pre + 2)%nat = false) by (apply Nat.ltb_ge; lia).
  assert (G2 : (length P <=? length pre + 2)%nat = false) by (apply Nat.leb_gt; lia).
  cbn [agg_scan]. rewrite G1, N0, N1. cbv zeta.
  assert (En : hi * 256 + lo = n) by (unfold hi, lo; pose proof (Z.div_mod n 256); lia).
  rewrite En.
  assert (L1 : (n <? 1) = false) by (apply Z.ltb_ge; unfold n; cbn [length]; lia).
  rewrite L1, G2, N2.
  set (pre' := pre ++ hi :: lo :: h :: body).
  assert (Eoff : (length pre + 2 + Z.to_nat n)%nat = length pre').
  { unfold pre', n. rewrite app_length. cbn [length]. lia. }
  rewrite Eoff.
  assert (EP : P = pre' ++ tail).
  { unfold P, pre'. rewrite <- app_assoc. reflexivity. }
  rewrite EP. unfold tail.
  cbn [fold_left hd].
  destruct nals as [|nal2 nals].
  - cbn [map concat]. rewrite app_nil_r. rewrite Nat.leb_refl. reflexivity.
  - assert (L2 : (length (pre' ++ concat (map agg_entry (nal2 :: nals))) <=? length pre')%nat = false).
    { apply Nat.leb_gt. rewrite app_length. cbn [map concat]. rewrite app_length, agg_entry_length. lia. }
    rewrite L2. apply IH; [discriminate|exact Hall|cbn [length] in *; lia].
Qed.

Lemma fold_classes : forall c (nals : list (list Z)) f,
  (forall nal, In nal nals -> nal <> []) ->
  fold_left (fun f nal => upd_of c (ht_of c (hd 0 nal)) f) nals f =
  fold_left (fun f k => set_class k f) (map (nal_class c) nals) f.
Proof.
  intros c nals. induction nals as [|nal nals IH]; intros f Hne; [reflexivity|].
  cbn [fold_left map]. rewrite IH by (intros n Hn; apply Hne; right; exact Hn).
  f_equal. rewrite upd_of_class. unfold nal_class, nal_type.
  destruct nal as [|h r]; [exfalso; apply (Hne []); [left; reflexivity|reflexivity]|].
  destruct c; reflexivity.
Qed.

Lemma nal_ok_nonempty : forall c nal, nal_ok c nal = true -> (1 <= length nal)%nat.
Proof.
  intros c nal H. destruct (nal_ok_hd c nal H) as (h & r & -> & _). cbn. lia.
Qed.

Lemma classify_agg : forall c x y nals,
  byte_ok x = true -> nals <> [] ->
  forallb (fun nal => nal_ok c nal && (Z.of_nat (length nal) <? 65536)) nals = true ->
  classify c 0 (agg_header c x y ++ concat (map agg_entry nals)) = CK (agg_class c nals).
Proof.
  intros c x y nals Hx Hne Hall.
  assert (Hall' : forallb (fun nal : list Z => (1 <=? length nal)%nat && (Z.of_nat (length nal) <? 65536)) nals = true).
  { rewrite forallb_forall in *. intros nal Hn. specialize (Hall nal Hn).
    apply andb_prop in Hall. destruct Hall as [H1 H2]. rewrite H2, andb_true_r.
    apply Nat.leb_le. eapply nal_ok_nonempty; eauto. }
  assert (Hnn : forall nal, In nal nals -> nal <> []).
  { intros nal Hn E. rewrite forallb_forall in Hall. specialize (Hall nal Hn).
    apply andb_prop in Hall. destruct Hall as [H1 _]. apply nal_ok_nonempty in H1. subst. cbn in H1. lia. }
  pose proof (concat_entries_length nals) as Hlen.
  assert (Hpos : (1 <= length nals)%nat) by (destruct nals; [contradiction|cbn; lia]).
  assert (H3 : (3 <= length (concat (map agg_entry nals)))%nat).
  { destruct nals as [|n0 nals]; [contradiction|]. cbn [map concat]. rewrite app_length, agg_entry_length.
    assert (1 <= length n0)%nat.
    { destruct n0; [exfalso; apply (Hnn []); [left; reflexivity|reflexivity]|cbn; lia]. }
    lia. }
  destruct (fu_facts x true true Hx) as (_ & A2 & _ & A4 & _).
  unfold classify. cbn [Z.eqb negb].
  destruct c; cbn [codec_flags agg_header].
  - unfold h264_flags.
    set (P := [Z.lor (Z.land x 224) 24] ++ concat (map agg_entry nals)).
    assert (L : Nat.ltb (length P) 3 = false).
    { apply Nat.ltb_ge. unfold P. rewrite app_length. cbn [length]. lia. }
    rewrite L. unfold P at 1. cbn [app]. cbv zeta. rewrite A2.
    change ((24 <=? 24) && (24 <=? 27)) with true. cbv iota.
    change (agg_scan h264_hdr_type h264_nal_type (length P) P 1 f0)
      with (agg_scan h264_hdr_type h264_nal_type (length P)
              ([Z.lor (Z.land x 224) 24] ++ concat (map agg_entry nals))
              (length [Z.lor (Z.land x 224) 24]) f0).
    rewrite agg_scan_entries; [|exact Hne|exact Hall'|unfold P; rewrite app_length; cbn [length]; lia].
    f_equal. pose proof (fold_classes H264 nals f0 Hnn) as FC. cbn [upd_of ht_of] in FC. rewrite FC.
    apply kind_agg.
  - unfold hevc_flags.
    set (P := [Z.lor (Z.land x 129) 96; y] ++ concat (map agg_entry nals)).
    assert (L : Nat.ltb (length P) 3 = false).
    { apply Nat.ltb_ge. unfold P. rewrite app_length. cbn [length]. lia. }
    rewrite L. unfold P at 1. cbn [app]. cbv zeta. rewrite A4.
    change (48 =? 48) with true. cbv iota.
    change (agg_scan hevc_hdr_type hevc_nal_type (length P) P 2 f0)
      with (agg_scan hevc_hdr_type hevc_nal_type (length P)
              ([Z.lor (Z.land x 129) 96; y] ++ concat (map agg_entry nals))
              (length [Z.lor (Z.land x 129) 96; y]) f0).
    rewrite agg_scan_entries; [|exact Hne|exact Hall'|unfold P; rewrite app_length; cbn [length]; lia].
    f_equal. pose proof (fold_classes H265 nals f0 Hnn) as FC. cbn [upd_of ht_of] in FC. rewrite FC.
    apply kind_agg.
Qed.

(* ---------- the theorem ---------- *)

(* For every packetisation covered by [pform_ok] — a NAL unit as a single packet, units inside an
   aggregation packet, a unit fragmented into pieces of any sizes >= 1 — the caches classify the
   packets exactly as [expected]: a single unit by its class; an aggregation packet by the
   highest-priority class inside (parameter sets first); the first fragment by the class of the
   fragmented unit (key start for IDR / IRAP) and every other fragment as plain video. *)
Theorem classify_packetisation : forall c f,
  pform_ok c f = true ->
  map (classify c 0) (packetise c f) = map CK (expected c f).
Proof.
  intros c [nal|x y nals|nal sizes] H; cbn [pform_ok packetise expected] in *.
  - apply andb_prop in H. destruct H as [H1 H2]. apply Nat.leb_le in H2.
    cbn [map]. rewrite classify_single by assumption. reflexivity.
  - apply andb_prop in H. destruct H as [H H3]. apply andb_prop in H. destruct H as [H1 H2].
    cbn [map]. rewrite classify_agg; auto. destruct nals; [discriminate|discriminate].
  - apply andb_prop in H. destruct H as [H H4]. apply andb_prop in H. destruct H as [H H3].
    apply andb_prop in H. destruct H as [H1 H2]. apply Nat.eqb_eq in H4.
    rewrite classify_fu_split; auto.
    rewrite skipn_length. lia.
Qed.

Lemma type_class_cases : forall c t,
  type_class c t = 1 \/ type_class c t = 2 \/ type_class c t = 3 \/ type_class c t = 4 \/ type_class c t = 5.
Proof.
  intros [] t; unfold type_class.
  - destruct (t =? 7); auto. destruct (t =? 8); auto. destruct (t =? 5); auto.
  - destruct ((16 <=? t) && (t <=? 21)); auto. destruct (t =? 32); auto 6.
    destruct (t =? 33); auto. destruct (t =? 34); auto 6.
Qed.

(* the property's two aggregation cases *)
Lemma agg_single_class : forall c nal, agg_class c [nal] = nal_class c nal.
Proof.
  intros c nal. unfold agg_class. cbn [map existsb]. unfold nal_class.
  destruct (type_class_cases c (nal_type c nal)) as [E|[E|[E|[E|E]]]]; rewrite E; reflexivity.
Qed.

Lemma agg_params_class : forall c nals,
  nals <> [] -> agg_only_params c nals = true -> is_param_class (agg_class c nals) = true.
Proof.
  intros c nals Hne H. destruct nals as [|n nals]; [contradiction|].
  unfold agg_only_params in H. cbn [forallb] in H. apply andb_prop in H. destruct H as [H _].
  unfold agg_class. cbn [map existsb]. unfold is_param_class in H.
  rewrite (Z.eqb_sym 5), (Z.eqb_sym 3), (Z.eqb_sym 4).
  destruct (nal_class c n =? 5); [reflexivity|]. cbn [orb].
  destruct (existsb (Z.eqb 5) (map (nal_class c) nals)); [reflexivity|].
  destruct (nal_class c n =? 3); [reflexivity|]. cbn [orb].
  destruct (existsb (Z.eqb 3) (map (nal_class c) nals)); [reflexivity|].
  destruct (nal_class c n =? 4); [reflexivity|]. discriminate.
Qed.

(* a STAP-A holding SPS, PPS and an IDR slice (a common camera packetisation) is stored as the SPS
   packet and is NOT a key start: the GOP cache does not begin at such a packet *)
Example agg_mixed_not_key :
  let sps := [103; 66; 0; 30] in let pps := [104; 206; 60; 128] in let idr := [101; 136; 132; 0] in
  pform_ok H264 (PAgg 96 0 [sps; pps; idr]) = true /\
  map (classify H264 0) (packetise H264 (PAgg 96 0 [sps; pps; idr])) = [CK 3].
Proof. vm_compute. split; reflexivity. Qed.

(* below 3 bytes the caches do not look at the packet: a 2-byte SPS unit sent alone is treated as
   plain video — why [pform_ok] asks for 3 bytes in the single-packet case *)
Example short_single_refuted :
  nal_ok H264 [103; 66] = true /\ nal_class H264 [103; 66] = 3 /\ classify H264 0 [103; 66] = CK 1.
Proof. vm_compute. repeat split; reflexivity. Qed.

(* ---------- the classifier is total: no panic, no fuel exhaustion ---------- *)

Lemma nth_error_some : forall (l : list Z) i, (i < length l)%nat -> exists x, nth_error l i = Some x.
Proof.
  intros l i H. destruct (nth_error l i) eqn:E; [eauto|]. apply nth_error_None in E. lia.
Qed.

Lemma agg_scan_total : forall ht upd fuel payload off f,
  (off < length payload)%nat -> (length payload < fuel + off)%nat ->
  exists f', agg_scan ht upd fuel payload off f = FOk f'.
Proof.
  intros ht upd fuel. induction fuel as [|fuel IH]; intros payload off f H1 H2; [lia|].
  cbn [agg_scan].
  destruct (Nat.ltb_spec (length payload) (off + 2)); [eauto|].
  destruct (nth_error_some payload off) as [b0 ->]; [lia|].
  destruct (nth_error_some payload (S off)) as [b1 ->]; [lia|].
  cbv zeta. destruct (b0 * 256 + b1 <? 1); [eauto|].
  destruct (Nat.leb_spec (length payload) (off + 2)); [eauto|].
  destruct (nth_error_some payload (off + 2)) as [h ->]; [lia|].
  destruct (Nat.leb_spec (length payload) (off + 2 + Z.to_nat (b0 * 256 + b1))); [eauto|].
  apply IH; lia.
Qed.

Lemma codec_flags_total : forall c payload, exists f, codec_flags c payload = FOk f.
Proof.
  intros c payload.
  destruct c; cbn [codec_flags]; [unfold h264_flags|unfold hevc_flags];
    destruct (Nat.ltb_spec (length payload) 3); eauto;
    destruct payload as [|b0 rest]; eauto; cbv zeta.
  - destruct ((24 <=? h264_hdr_type b0) && (h264_hdr_type b0 <=? 27)).
    + apply agg_scan_total; lia.
    + destruct ((h264_hdr_type b0 =? 28) || (h264_hdr_type b0 =? 29)); eauto.
      destruct (nth_error_some (b0 :: rest) 1) as [x ->]; [lia|].
      destruct (Z.land (Z.shiftr x 7) 1 =? 1); eauto.
  - destruct (hevc_hdr_type b0 =? 48).
    + apply agg_scan_total; lia.
    + destruct (hevc_hdr_type b0 =? 49); eauto.
      destruct (nth_error_some (b0 :: rest) 2) as [x ->]; [lia|].
      destruct (Z.land (Z.shiftr x 7) 1 =? 1); eauto.
Qed.

(* for EVERY byte string on every channel the caches classify the packet: no index out of range
   (the repair of D11), and the scan's fuel is never used up *)
Theorem classify_total : forall c ch payload, exists k, classify c ch payload = CK k.
Proof.
  intros c ch payload. unfold classify. destruct (negb (ch =? 0)); [eauto|].
  destruct (codec_flags_total c payload) as [f ->]. eauto.
Qed.

Theorem classify_no_fuel : forall c ch payload, classify c ch payload <> CFuel.
Proof. intros c ch payload. destruct (classify_total c ch payload) as [k ->]. discriminate. Qed.

Theorem classify_no_panic : forall c ch payload, classify c ch payload <> CPanic.
Proof. intros c ch payload. destruct (classify_total c ch payload) as [k ->]. discriminate. Qed.

(* the kind is always one of 0..5 *)
Theorem classify_kind_range : forall c ch payload k,
  classify c ch payload = CK k -> (0 <= k <= 5)%Z.
Proof.
  intros c ch payload k. unfold classify. destruct (negb (ch =? 0)).
  - intros H; injection H as <-. lia.
  - destruct (codec_flags c payload) as [f| |]; try discriminate. intros H; injection H as <-.
    destruct c; unfold kind_of_flags;
      repeat match goal with |- context [if ?b then _ else _] => destruct b end; lia.
Qed.

(* before the repair the scan read the size field and the unit header unguarded: a STAP-A cut
   after its header byte plus one size byte indexed past the payload (D11) *)
Fixpoint agg_scan_unchecked (hdr_type : Z -> Z) (upd : Z -> flags -> flags)
         (fuel : nat) (payload : list Z) (off : nat) (f : flags) : fres :=
  match fuel with
  | O => FFuel
  | S fuel' =>
      match nth_error payload off, nth_error payload (S off) with
      | Some b0, Some b1 =>
          let size := b0 * 256 + b1 in
          if size <? 1 then FOk f
          else match nth_error payload (off + 2) with
               | Some h =>
                   let f' := upd (hdr_type h) f in
                   let off' := (off + 2 + Z.to_nat size)%nat in
                   if (length payload <=? off')%nat then FOk f'
                   else agg_scan_unchecked hdr_type upd fuel' payload off' f'
               | None => FPanic
               end
      | _, _ => FPanic
      end
  end.

Example agg_scan_unchecked_refuted :
  let p := [96; 1; 0; 3] in       (* H.265 AP header, then the size field 0x0003 and nothing else *)
  agg_scan_unchecked hevc_hdr_type hevc_nal_type (length p) p 2 f0 = FPanic /\
  classify H265 0 p = CK 1.
Proof. vm_compute. split; reflexivity. Qed.

(* ---------- the FLV cache ---------- *)

(* seen through [ftag_pkt], FlvCache is the packet cache of Model/Cache.v *)
Definition abs_fc (c : fcache) : rcache :=
  {| rc_gopon := fc_gopon c;
     rc_vps := option_map ftag_pkt (fc_meta c); rc_sps := option_map ftag_pkt (fc_vsh c);
     rc_pps := option_map ftag_pkt (fc_ash c); rc_gop := map ftag_pkt (fc_gop c) |}.

Lemma abs_fc_add : forall c t, t_kind t <> 0 -> abs_fc (fc_add c t) = rc_add (abs_fc c) (ftag_pkt t).
Proof.
  intros c t H0. unfold fc_add.
  destruct (Z.eqb_spec (t_kind t) 5) as [K5|K5].
  { unfold rc_add. cbn [ftag_pkt p_kind]. rewrite K5. reflexivity. }
  destruct (Z.eqb_spec (t_kind t) 3) as [K3|K3].
  { unfold rc_add. cbn [ftag_pkt p_kind]. rewrite K3. reflexivity. }
  destruct (Z.eqb_spec (t_kind t) 4) as [K4|K4].
  { unfold rc_add. cbn [ftag_pkt p_kind]. rewrite K4. reflexivity. }
  rewrite rc_add_other by (cbn; assumption).
  unfold rc_add_media, p_key. cbn [abs_fc rc_gopon ftag_pkt p_kind rc_gop].
  destruct (fc_gopon c) eqn:G; [|reflexivity].
  destruct (t_kind t =? 2).
  - unfold abs_fc. cbn. reflexivity.
  - destruct (fc_gop c) as [|g gs] eqn:Q; cbn [map].
    + unfold abs_fc. rewrite G, Q. reflexivity.
    + unfold abs_fc. cbn. rewrite map_app. reflexivity.
Qed.

Lemma abs_fc_fold : forall tags c,
  (forall t, In t tags -> t_kind t <> 0) ->
  abs_fc (fold_left fc_add tags c) = fold_left rc_add (map ftag_pkt tags) (abs_fc c).
Proof.
  induction tags as [|t tags IH]; intros c H; [reflexivity|].
  cbn [fold_left map]. rewrite IH by (intros t' Ht'; apply H; right; exact Ht').
  rewrite abs_fc_add by (apply H; left; reflexivity). reflexivity.
Qed.

Lemma fc_add_gopon : forall c t, fc_gopon (fc_add c t) = fc_gopon c.
Proof.
  intros c t. unfold fc_add.
  destruct (t_kind t =? 5); [reflexivity|]. destruct (t_kind t =? 3); [reflexivity|].
  destruct (t_kind t =? 4); [reflexivity|]. destruct (fc_gopon c) eqn:G; [|exact G].
  destruct (t_kind t =? 2); [reflexivity|]. destruct (fc_gop c); [exact G|reflexivity].
Qed.

Lemma fc_add_gop_off : forall c t, fc_gopon c = false -> fc_gop (fc_add c t) = fc_gop c.
Proof.
  intros c t G. unfold fc_add.
  destruct (t_kind t =? 5); [reflexivity|]. destruct (t_kind t =? 3); [reflexivity|].
  destruct (t_kind t =? 4); [reflexivity|]. rewrite G. reflexivity.
Qed.

Lemma fc_fold_off : forall tags c,
  fc_gopon c = false -> fc_gop c = [] -> fc_gop (fold_left fc_add tags c) = [].
Proof.
  induction tags as [|t tags IH]; intros c G Q; [exact Q|].
  cbn [fold_left]. apply IH; [rewrite fc_add_gopon; exact G|rewrite fc_add_gop_off; assumption].
Qed.

Lemma fc_fold_gopon : forall tags c, fc_gopon (fold_left fc_add tags c) = fc_gopon c.
Proof.
  induction tags as [|t tags IH]; intros c; [reflexivity|]. cbn [fold_left]. rewrite IH. apply fc_add_gopon.
Qed.

(* everything in the cache is one of the tags it was given *)
Lemma fc_fold_incl : forall tags c t,
  let c' := fold_left fc_add tags c in
  In t (opt_list (fc_meta c') ++ opt_list (fc_vsh c') ++ opt_list (fc_ash c') ++ fc_gop c') ->
  In t tags \/ In t (opt_list (fc_meta c) ++ opt_list (fc_vsh c) ++ opt_list (fc_ash c) ++ fc_gop c).
Proof.
  induction tags as [|a tags IH]; intros c t; cbn zeta; [auto|].
  cbn [fold_left]. intros H. apply IH in H. destruct H as [H|H]; [left; right; exact H|].
  revert H. unfold fc_add.
  destruct (t_kind a =? 5).
  { cbn. intros [<-|H]; [left; left; reflexivity|]. right. apply in_or_app. right. exact H. }
  destruct (t_kind a =? 3).
  { cbn [fc_meta fc_vsh fc_ash fc_gop]. intros H. apply in_app_or in H. destruct H as [H|H].
    - right. apply in_or_app. left; exact H.
    - cbn in H. destruct H as [<-|H]; [left; left; reflexivity|].
      right. apply in_or_app. right. apply in_or_app. right. exact H. }
  destruct (t_kind a =? 4).
  { cbn [fc_meta fc_vsh fc_ash fc_gop]. intros H. apply in_app_or in H. destruct H as [H|H].
    - right. apply in_or_app. left; exact H.
    - apply in_app_or in H. destruct H as [H|H].
      + right. apply in_or_app. right. apply in_or_app. left; exact H.
      + cbn in H. destruct H as [<-|H]; [left; left; reflexivity|].
        right. apply in_or_app. right. apply in_or_app. right. apply in_or_app. right. exact H. }
  destruct (fc_gopon c); [|auto].
  destruct (t_kind a =? 2).
  { cbn [fc_meta fc_vsh fc_ash fc_gop]. intros H.
    rewrite !app_assoc in H. apply in_app_or in H. destruct H as [H|H].
    - right. rewrite !app_assoc. apply in_or_app. left; exact H.
    - destruct H as [<-|[]]. left; left; reflexivity. }
  destruct (fc_gop c) eqn:Q; [rewrite Q; auto|].
  cbn [fc_meta fc_vsh fc_ash fc_gop]. intros H.
  rewrite !app_assoc in H. apply in_app_or in H. destruct H as [H|H].
  - right. rewrite <- !app_assoc in H. exact H.
  - destruct H as [<-|[]]. left; left; reflexivity.
Qed.

Lemma ftag_pkt_restamp : forall ts l, map ftag_pkt (map (restamp ts) l) = map ftag_pkt l.
Proof. intros ts l. rewrite map_map. apply map_ext. intros t. reflexivity. Qed.

Lemma opt_list_map : forall A B (f : A -> B) o, map f (opt_list o) = opt_list (option_map f o).
Proof. intros A B f [a|]; reflexivity. Qed.

(* FLV JOIN: what PushTo writes after any tag list.  The (up to three) header tags are COPIES
   stamped with the timestamp of the first replayed media tag (0 when the GOP is empty); the GOP
   tags and the cache itself are left as they were; and which headers / which GOP is decided by
   the specification of Part A: the latest metadata / video header / audio header tag and the tags
   from the last key frame on. *)
Theorem flv_join_timestamps : forall gopon tags,
  (forall t, In t tags -> t_kind t <> 0) ->
  let c := fold_left fc_add tags (fc_empty gopon) in
  let hdrs := opt_list (fc_meta c) ++ opt_list (fc_vsh c) ++ opt_list (fc_ash c) in
  let ts0 := match fc_gop c with [] => 0 | t :: _ => t_ts t end in
  fst (fc_push c) = c /\
  snd (fc_push c) = map (restamp ts0) hdrs ++ fc_gop c /\
  (forall t, In t (map (restamp ts0) hdrs) -> t_ts t = ts0) /\
  (forall t, In t hdrs \/ In t (fc_gop c) -> In t tags) /\
  map ftag_pkt (snd (fc_push c)) = spec_snap gopon (map ftag_pkt tags).
Proof.
  intros gopon tags Hk c hdrs ts0.
  split; [reflexivity|]. split; [reflexivity|]. split; [|split].
  - intros t H. apply in_map_iff in H. destruct H as (t' & <- & _). reflexivity.
  - intros t H.
    destruct (fc_fold_incl tags (fc_empty gopon) t) as [G|G]; [|exact G|destruct G].
    fold c. unfold hdrs in H. destruct H as [H|H].
    + rewrite !app_assoc. apply in_or_app. left. rewrite <- app_assoc. exact H.
    + apply in_or_app. right. apply in_or_app. right. apply in_or_app. right. exact H.
  - cbn [fc_push snd]. fold ts0. fold hdrs. rewrite map_app, ftag_pkt_restamp.
    rewrite <- cache_is_spec.
    pose proof (abs_fc_fold tags (fc_empty gopon) Hk) as E. fold c in E.
    change (abs_fc (fc_empty gopon)) with (rc_empty gopon) in E. rewrite <- E.
    unfold rc_snap, abs_fc. cbn [rc_vps rc_sps rc_pps rc_gop rc_gopon].
    unfold hdrs. rewrite !map_app, !opt_list_map, <- !app_assoc.
    do 3 f_equal.
    destruct (fc_gopon c) eqn:G; [reflexivity|].
    unfold c. rewrite fc_fold_off; [reflexivity| |reflexivity].
    unfold c in G. rewrite fc_fold_gopon in G. exact G.
Qed.

(* ---------- the oracles accept the model ---------- *)

Lemma zlist_eqb_refl : forall l, zlist_eqb l l = true.
Proof. induction l as [|x l IH]; [reflexivity|]. cbn. rewrite Z.eqb_refl, IH. reflexivity. Qed.

Theorem classify_model_passes : forall c gopon pkts,
  cc_ok c gopon pkts (cc_kinds c pkts) (cc_pushed gopon (cc_kinds c pkts)) = true.
Proof.
  intros c gopon pkts. unfold cc_ok, cc_pushed. rewrite cache_is_spec, !zlist_eqb_refl. reflexivity.
Qed.

Lemma flv_classify_nonzero : forall ty d, flv_classify ty d <> 0.
Proof.
  intros ty d. unfold flv_classify.
  destruct (flv_is_metadata ty d); [discriminate|]. destruct (flv_is_vsh ty d); [discriminate|].
  destruct (flv_is_ash ty d); [discriminate|]. destruct (flv_is_key ty d); discriminate.
Qed.

Lemma ftags_from_kind : forall kinds tss i t, In t (ftags_from i kinds tss) -> In (t_kind t) kinds.
Proof.
  induction kinds as [|k kinds IH]; intros tss i t H; [destruct H|].
  destruct tss as [|ts tss]; [destruct H|]. cbn [ftags_from] in H. destruct H as [<-|H].
  - left; reflexivity.
  - right. eapply IH; eauto.
Qed.

Theorem flv_model_passes : forall gopon tags,
  let kinds := flv_kinds tags in let tss := flv_tss tags in
  flv_ok gopon tags kinds (map (fun t => (t_id t, t_ts t)) (flv_pushed gopon kinds tss)) tss = true.
Proof.
  intros gopon tags kinds tss. unfold flv_ok. fold kinds tss.
  rewrite !zlist_eqb_refl. cbn [andb].
  rewrite !map_map. cbn [fst snd].
  assert (Hk : forall t, In t (ftags_from 0 kinds tss) -> t_kind t <> 0).
  { intros t H. apply ftags_from_kind in H. unfold kinds, flv_kinds in H.
    apply in_map_iff in H. destruct H as (x & <- & _). apply flv_classify_nonzero. }
  destruct (flv_join_timestamps gopon (ftags_from 0 kinds tss) Hk) as (_ & _ & _ & _ & E).
  unfold flv_pushed. rewrite <- E, map_map. cbn [ftag_pkt p_id].
  rewrite !zlist_eqb_refl. reflexivity.
Qed.
