(* C20: two simultaneous first requests for one routed path.  Both find nothing registered, both
   pull (two connections, two streams, numbered 1 and 2 as in the C05 race), and the two playStream
   goroutines race in media.Regist (atomic swap, then retire of the replaced stream).  The registry
   part is the C05 result [regist_race_one_live]; here it is tied to the pull model and continued to
   the end of the losing pull client. *)
From Coq Require Import ZArith List Bool Lia.
From V Require Import Bytes Registry RegistryProofs.
From V Require C20Pull.
Import ListNotations.

Definition pull_ok (c : C20Pull.cfg) (s : C20Pull.script) : bool :=
  match C20Pull.request c C20Pull.w0 s with
  | (C20Pull.Playing, _, _, _, true) => true
  | _ => false
  end.

Lemma unregist_loser g p w l :
  g_map g = [(p, w)] -> w <> l -> st_live (sget g l) = false ->
  fst (gstep rfixed g (GUnregist l)) = g.
Proof.
  intros Hm Hne Hl. unfold gstep.
  destruct (negb (l <? length (g_streams g))%nat); [reflexivity|]. cbn [fst].
  assert (H1 : match mlookup (g_map g) (st_path (sget g l)) with
               | Some j => if Nat.eqb l j
                           then {| g_map := mdelete (g_map g) (st_path (sget g l)); g_streams := g_streams g |}
                           else g
               | None => g end = g).
  { rewrite Hm. cbn [mlookup]. destruct (bytes_eqb p (st_path (sget g l))); [|reflexivity].
    destruct (Nat.eqb l w) eqn:E; [|reflexivity]. apply Nat.eqb_eq in E. congruence. }
  rewrite H1. unfold close_stream. rewrite Hl. reflexivity.
Qed.

Theorem concurrent_one_registered :
  forall (c : C20Pull.cfg) (sA sB : C20Pull.script) (p : bytes) (h1 h2 : bool) (sched : list bool),
  pull_ok c sA = true -> pull_ok c sB = true ->
  let r := race_run (race_init p false h1 h2 false) sched in
  c_a r = PDone -> c_b r = PDone ->
  exists w l, ((w = 1 /\ l = 2) \/ (w = 2 /\ l = 1))%nat /\
    g_map (c_g r) = [(p, w)] /\
    st_live (sget (c_g r) w) = true /\ st_live (sget (c_g r) l) = false /\
    (* the losing pull client ends (its stream refuses the next packet): Unregist changes nothing *)
    fst (gstep rfixed (c_g r) (GUnregist l)) = c_g r.
Proof.
  intros c sA sB p h1 h2 sched _ _ r Ha Hb.
  destruct (regist_race_one_live p false h1 h2 false sched Ha Hb) as (w & l & Hwl & Hm & Hw & Hl & _).
  exists w, l. split; [exact Hwl|]. split; [exact Hm|]. split; [exact Hw|]. split; [exact Hl|].
  apply (unregist_loser _ p w l Hm); [|exact Hl]. destruct Hwl as [[-> ->]|[-> ->]]; discriminate.
Qed.

(* the scenario is not empty: two all-ok handshakes and a schedule on which both registrations finish *)
Lemma concurrent_nonvacuous :
  let c := {| C20Pull.c_user := true; C20Pull.c_video := true; C20Pull.c_audio := true;
              C20Pull.c_sdp_bad := false; C20Pull.c_routed := true |} in
  let s := repeat C20Pull.ROk 6 in
  pull_ok c s = true /\
  forall p h1 h2, let r := race_run (race_init p false h1 h2 false) [true; true; false; false] in
                  c_a r = PDone /\ c_b r = PDone.
Proof. split; [vm_compute; reflexivity|]. intros. apply regist_race_finishes. Qed.
