(* C20: two simultaneous first requests for one routed path.  Both find nothing registered, both
   pull (two connections, two streams, numbered 1 and 2 as in the C05 race), and the two playStream
   goroutines race in media.Regist (atomic swap, then retire of the replaced stream).  The registry
   part is the C05 result [regist_race_one_live]; here it is tied to the pull model and continued to
   the end of the losing pull client. *)
From Coq Require Import ZArith List Bool Lia.
From V Require Import Bytes Registry RegistryProofs.
From V Require C20Pull.
Import ListNotations.

Definition pull_ok (c : C20Pull.cfg) (s : C20Pull.script) : bool :=
  match C20Pull.request c C20Pull.w0 s with
  | (C20Pull.Playing, _, _, _, true) => true
  | _ => false
  end.

Lemma unregist_loser g p w l :
  g_map g = [(p, w)] -> w <> l -> st_live (sget g l) = false ->
  fst (gstep rfixed g (GUnregist l)) = g.
Proof.
  intros Hm Hne Hl. unfold gstep.
  destruct (negb (l <? length (g_streams g))%nat); [reflexivity|]. cbn [fst].
  assert (H1 : match mlookup (g_map g) (st_path (sget g l)) with
               | Some j => if Nat.eqb l j
                           then {| g_map := mdelete (g_map g) (st_path (sget g l)); g_streams := g_streams g |}
                           else g
               | None => g end = g).
  { rewrite Hm. cbn [mlookup]. destruct (bytes_eqb p (st_path (sget g l))); [|reflexivity].
    destruct (Nat.eqb l w) eqn:E; [|reflexivity]. apply Nat.eqb_eq in E. congruence. }
  rewrite H1. unfold close_stream. rewrite Hl. reflexivity.
Qed.

Theorem concurrent_one_registered :
  forall (c : C20Pull.cfg) (sA sB : C20Pull.script) (p : bytes) (h1 h2 : bool) (sched : list bool),
  pull_ok c sA = true -> pull_ok c sB = true ->
  let r := race_run (race_init p false h1 h2 false) sched in
  c_a r = PDone -> c_b r = PDone ->
  exists w l, ((w = 1 /\ l = 2) \/ (w = 2 /\ l = 1))%nat /\
    g_map (c_g r) = [(p, w)] /\
    st_live (sget (c_g r) w) = true /\ st_live (sget (c_g r) l) = false /\
    (* the losing pull client ends (its stream refuses the next packet): Unregist changes nothing *)
    fst (gstep rfixed (c_g r) (GUnregist l)) = c_g r.
Proof.
  intros c sA sB p h1 h2 sched _ _ r Ha Hb.
  destruct (regist_race_one_live p false h1 h2 false sched Ha Hb) as (w & l & Hwl & Hm & Hw & Hl & _).
  exists w, l. split; [exact Hwl|]. split; [exact Hm|]. split; [exact Hw|]. split; [exact Hl|].
  apply (unregist_loser _ p w l Hm); [|exact Hl]. destruct Hwl as [[-> ->]|[-> ->]]; discriminate.
Qed.

(* the scenario is not empty: two all-ok handshakes and a schedule on which both registrations finish *)
Lemma concurrent_nonvacuous :
  let c := {| C20Pull.c_user := true; C20Pull.c_video := true; C20Pull.c_audio := true;
              C20Pull.c_sdp_bad := false; C20Pull.c_routed := true |} in
  let s := repeat C20Pull.ROk 6 in
  pull_ok c s = true /\
  forall p h1 h2, let r := race_run (race_init p false h1 h2 false) [true; true; false; false] in
                  c_a r = PDone /\ c_b r = PDone.
Proof. split; [vm_compute; reflexivity|]. intros. apply regist_race_finishes. Qed.

(* ------------------------------------------------------------------ *)
(* Overlapping pulls with consumers attached before the other registration (Model/C20Replaced.v). *)
From V Require Import C20Replaced.
Open Scope Z_scope.

Lemma length_sexec ops : forall sp, (length (sp_streams sp) <= length (sp_streams (sexec sp ops)))%nat.
Proof.
  induction ops as [|o ops IH]; intros sp; [apply Nat.le_refl|].
  cbn [sexec]. pose proof (length_step sp o). pose proof (IH (fst (sstep sp o))). lia.
Qed.

(* once its camera has ended (GUnregist j somewhere in the history) stream j is not live at the end *)
Lemma ended_is_dead pre j ops :
  (j < length (sp_streams (sexec sinit pre)))%nat -> In (GUnregist j) ops ->
  st_live (sp_get (sexec sinit (pre ++ ops)) j) = false.
Proof.
  intros Hj Hin. apply in_split in Hin as (a & b & ->).
  rewrite app_assoc, sexec_app. cbn [sexec]. rewrite unregist_step_kill.
  assert (Hlen : (j < length (sp_streams (sexec sinit (pre ++ a))))%nat).
  { rewrite sexec_app. pose proof (length_sexec a (sexec sinit pre)). lia. }
  apply dead_forever; [rewrite length_kill; exact Hlen|].
  rewrite live_kill, Nat.eqb_refl, andb_false_r. reflexivity.
Qed.

(* For every history that starts with the two pull streams (0 and 1, same path) and in which both
   cameras end — whatever else happens in whatever order: the two registrations, any number of
   consumers attaching to or leaving either stream before, during or after the other registration
   (also after the stream has been closed as replaced), lookups, idle tasks, other publishers — at
   the end both streams have ended, every consumer that ever joined either of them (while it was live
   or not) has been released (its Close called), none is attached, and no key resolves to either. *)
Theorem replaced_pull_releases_consumers : forall (p : bytes) (h0 h1 : bool) (ops : list gop),
  In (GUnregist 0) ops -> In (GUnregist 1) ops ->
  let h := GNew p h0 :: GNew p h1 :: ops in
  let sp := sexec sinit h in
  (forall i, (i < 2)%nat ->
     st_live (sp_get sp i) = false /\ consumers (sp_get sp i) = 0 /\
     released (sp_get sp i) = st_att_total (sp_get sp i) /\
     closed_total i h = attached_total i h) /\
  (forall k, sp_resolve sp k <> Some 0%nat /\ sp_resolve sp k <> Some 1%nat).
Proof.
  intros p h0 h1 ops H0 H1 h sp.
  assert (Hdead : forall i, (i < 2)%nat -> st_live (sp_get sp i) = false).
  { intros i Hi. unfold sp, h. change (GNew p h0 :: GNew p h1 :: ops) with ([GNew p h0; GNew p h1] ++ ops).
    apply ended_is_dead; [cbn; lia|]. destruct i as [|[|i]]; [exact H0|exact H1|lia]. }
  split.
  - intros i Hi. specialize (Hdead i Hi). split; [exact Hdead|].
    destruct (registry_end_releases h) as (_ & E & _).
    destruct (E i Hdead) as (Er & Ef & El). fold sp in Er, Ef, El.
    split; [unfold consumers; rewrite Er, Ef; reflexivity|]. split; [exact El|].
    unfold closed_total, attached_total. fold sp. rewrite El. reflexivity.
  - intros k. split; intros Hr; unfold sp_resolve in Hr;
      (destruct (mlookup (sp_last sp) k) as [x|]; [|discriminate]);
      (destruct (st_live (sp_get sp x)) eqn:Hl; [|discriminate]); inversion Hr; subst x.
    + rewrite (Hdead 0%nat) in Hl; [discriminate|lia].
    + rewrite (Hdead 1%nat) in Hl; [discriminate|lia].
Qed.

(* a consumer that joins a stream which is not live is counted as joined and as released at once,
   and is never attached: the two totals move together and the stream's consumer count stays *)
Lemma late_attach_released_at_once : forall h i flv,
  let sp := sexec sinit h in
  (i < length (sp_streams sp))%nat -> st_live (sp_get sp i) = false ->
  closed_total i (h ++ [GAttach i flv]) = closed_total i h + 1 /\
  attached_total i (h ++ [GAttach i flv]) = attached_total i h + 1 /\
  consumers (sp_get (sexec sinit (h ++ [GAttach i flv])) i) = consumers (sp_get sp i).
Proof.
  intros h i flv sp Hi Hd.
  assert (Hstep : sexec sinit (h ++ [GAttach i flv]) = sp).
  { rewrite sexec_app. cbn [sexec sstep]. fold sp. rewrite Hd.
    rewrite orb_true_r. reflexivity. }
  assert (Hlate : forall g a b, late_count i g (a ++ b) = late_count i g a + late_count i (sexec g a) b).
  { intros g a. revert g. induction a as [|o a IH]; intros g b; [reflexivity|].
    cbn [app late_count sexec]. rewrite IH. lia. }
  unfold closed_total, attached_total. rewrite Hstep, Hlate. fold sp.
  cbn [late_count]. rewrite Nat.eqb_refl, Hd. apply Nat.ltb_lt in Hi. rewrite Hi. cbn [andb negb].
  repeat split; lia.
Qed.

(* the replayed scenarios are such histories, they are well-formed (so the implementation model of
   the registry answers like the specification on them, C05), and their predicted observations meet
   the demand the check applies *)
Lemma repl_model_ok : forall a1 a2 e,
  ok_repl (attached a1) a2 e (repl_model a1 a2 e) = true /\
  hist_wf sinit (repl_phase3 a1 a2 e) = true /\
  In (GUnregist 0) (repl_phase3 a1 a2 e) /\ In (GUnregist 1) (repl_phase3 a1 a2 e).
Proof.
  intros a1 a2 e. destruct a1, a2, e; (split; [vm_compute; reflexivity|]);
    (split; [vm_compute; reflexivity|]); split; vm_compute; tauto.
Qed.
