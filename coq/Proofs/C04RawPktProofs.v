(* C04 — packets given by their bytes: what is not on the video channel is never a key-frame start
   and never changes the discarding flag, whatever its first bytes look like. *)
From Coq Require Import ZArith List Bool Lia.
From V Require Import Val StreamLts Cache C02Classify C02ClassifyProofs LtsWire LtsOracle LtsOracleProofs
                      LtsBacklogProofs C04RawPkt.
Import ListNotations.
Local Open Scope Z_scope.

Lemma raw_kind_spec : forall c ch pl, classify c ch pl = CK (raw_kind c ch pl).
Proof.
  intros c ch pl. unfold raw_kind. destruct (classify_total c ch pl) as [k E]. now rewrite E.
Qed.

Lemma raw_kind_nonvideo : forall c ch pl, ch <> 0 -> raw_kind c ch pl = 0.
Proof.
  intros c ch pl H. unfold raw_kind, classify.
  destruct (Z.eqb_spec ch 0) as [E|_]; [contradiction|]. reflexivity.
Qed.

Theorem raw_nonvideo_not_key : forall c i ch pl, ch <> 0 -> p_key (raw_pkt c i ch pl) = false.
Proof. intros. unfold p_key, raw_pkt; simpl. now rewrite raw_kind_nonvideo. Qed.

(* a key-frame start is a packet on the video channel whose NAL flags say key and neither
   parameter set *)
Theorem raw_key_is_video_key : forall c i ch pl,
  p_key (raw_pkt c i ch pl) = true ->
  ch = 0 /\ exists f, codec_flags c pl = FOk f /\ kind_of_flags c f = 2.
Proof.
  intros c i ch pl H. unfold p_key, raw_pkt in H; simpl in H. apply Z.eqb_eq in H.
  destruct (Z.eq_dec ch 0) as [->|Hne].
  - split; [reflexivity|]. pose proof (raw_kind_spec c 0 pl) as E. rewrite H in E.
    unfold classify in E. simpl in E. destruct (codec_flags c pl) as [f| |]; try discriminate.
    exists f. split; [reflexivity|]. now injection E.
  - rewrite raw_kind_nonvideo in H by assumption. discriminate.
Qed.

(* consumption.send: a packet that is not on the video channel leaves [discarding] alone *)
Theorem nonvideo_never_toggles_discarding : forall maxq k c i ch pl,
  ch <> 0 -> c_disc (send maxq k (raw_pkt c i ch pl)) = c_disc k.
Proof.
  intros. rewrite send_disc. apply send_d_nonkey. now apply raw_nonvideo_not_key.
Qed.

(* ---- the wire ---- *)
Lemma norm_pkt_raw : forall c i x ch pl rest,
  dec_pkt (norm_pkt c (VL (VI i :: x :: VI ch :: VB pl :: rest))) = raw_pkt c i ch pl.
Proof. reflexivity. Qed.

Lemma norm_pkt_plain : forall c a b, norm_pkt c (VL [a; b]) = VL [a; b].
Proof. reflexivity. Qed.

Lemma nth_map_nth_other : forall A (f : A -> A) (d : A) l n m,
  n <> m -> nth m (map_nth f n l) d = nth m l d.
Proof.
  induction l as [|x l IH]; intros n m H; [destruct n, m; reflexivity|].
  destruct n, m; simpl; try reflexivity; try congruence. apply IH. congruence.
Qed.

Lemma nthv_norm_case_other : forall v m, m <> 4%nat -> nthv m (norm_case v) = nthv m v.
Proof.
  intros v m H. unfold nthv, norm_case.
  change (as_list (VL ?l)) with l. apply nth_map_nth_other. congruence.
Qed.

Lemma norm_case_fields : forall v,
  let c := dec_lcase v in let c' := dec_lcase (norm_case v) in
  l_var c' = l_var c /\ l_n c' = l_n c /\ l_maxq c' = l_maxq c /\ l_gop c' = l_gop c /\
  l_stop c' = l_stop c /\ l_sched c' = l_sched c /\ l_panic c' = l_panic c.
Proof.
  intros v. unfold dec_lcase. simpl.
  rewrite !nthv_norm_case_other by discriminate. repeat split.
Qed.

(* the model passes the oracle on every case, packets given by kind or by bytes *)
Theorem raw_model_passes_on_the_wire : forall v,
  l_var (dec_lcase v) = fixed ->
  ok_C04 (dec_lcase (norm_case v)) (dec_obs (lts_run (norm_case v))) = true.
Proof.
  intros v H. apply wire_model_passes.
  destruct (norm_case_fields v) as (E & _). cbv zeta in E. now rewrite E.
Qed.
