(* Proofs about Model/C17Publish.v (media.GetOrCreate: the pulled stream is
   published under the requested path). *)
From Coq Require Import ZArith List Bool Lia.
From V Require Import Bytes StrGo Route BytesLemmas RouteProofs CanonProofs C17Publish.
Import ListNotations.
Open Scope Z_scope.

(* ---------- registry ---------- *)
Lemma reg_get_put_same g k id : reg_get (reg_put g k id) k = Some id.
Proof. unfold reg_get, reg_put, reg_key. cbn [find fst snd]. rewrite bytes_eqb_refl. reflexivity. Qed.

Lemma reg_get_del_other g k k' : bytes_eqb k k' = false -> reg_get (reg_del g k) k' = reg_get g k'.
Proof.
  intros N. unfold reg_get, reg_del, reg_key. induction g as [|e g IH]; cbn [filter find]; [reflexivity|].
  destruct (bytes_eqb (fst e) k) eqn:E; cbn [negb].
  - apply bytes_eqb_eq in E. rewrite E, N. exact IH.
  - cbn [find]. destruct (bytes_eqb (fst e) k'); [reflexivity | exact IH].
Qed.

Lemma reg_get_del_same g k : reg_get (reg_del g k) k = None.
Proof.
  unfold reg_get, reg_del. induction g as [|e g IH]; cbn [filter find]; [reflexivity|].
  destruct (reg_key k e) eqn:E; cbn [negb]; [exact IH|]. cbn [find]. rewrite E. exact IH.
Qed.

Lemma reg_get_put_other g k id k' : bytes_eqb k k' = false -> reg_get (reg_put g k id) k' = reg_get g k'.
Proof.
  intros N. unfold reg_put. unfold reg_get at 1. cbn [find]. unfold reg_key at 1. cbn [fst]. rewrite N.
  fold (reg_get (reg_del g k) k'). apply reg_get_del_other. exact N.
Qed.

(* ---------- factories: the first that accepts ---------- *)
Lemma first_can_some fs url : forall k i f,
  first_can fs url k = Some (i, f) ->
  exists j, i = (k + j)%nat /\ nth_error fs j = Some f /\ f_can f url = true /\
            forall j' f', (j' < j)%nat -> nth_error fs j' = Some f' -> f_can f' url = false.
Proof.
  induction fs as [|a fs IH]; intros k i f H; cbn [first_can] in H; [discriminate|].
  destruct (f_can a url) eqn:C.
  - inversion H; subst. exists 0%nat. split; [lia|]. split; [reflexivity|]. split; [exact C|].
    intros j' f' L. lia.
  - apply IH in H as (j & E & N & Cf & Hlt). exists (S j). split; [lia|]. split; [exact N|]. split; [exact Cf|].
    intros j' f' L N'. destruct j' as [|j']; cbn in N'.
    + inversion N'; subst. exact C.
    + apply (Hlt j' f'); [lia | exact N'].
Qed.

Lemma first_can_none fs url : forall k,
  first_can fs url k = None -> forall f, In f fs -> f_can f url = false.
Proof.
  induction fs as [|a fs IH]; intros k H f I; [destruct I|]. cbn [first_can] in H.
  destruct (f_can a url) eqn:C; [discriminate|]. destruct I as [<-|I]; [exact C | eapply IH; eassumption].
Qed.

(* ---------- the code equals the specification ---------- *)
Lemma req_stable_eq p : req_stable p = true -> canonical_path (canonical_path p) = canonical_path p.
Proof. unfold req_stable. apply bytes_eqb_eq. Qed.

(* since the repair of utils.CanonicalPath (iterated to its fixed point) every request is stable *)
Theorem req_stable_all p : req_stable p = true.
Proof. unfold req_stable. apply bytes_eqb_eq. apply canonical_path_idem. Qed.

Lemma spec_match_canon t p : req_stable p = true -> spec_match t (canonical_path p) = spec_match t p.
Proof. intros S. unfold spec_match. rewrite (req_stable_eq p S). reflexivity. Qed.

Lemma spec_match_pat t p r : spec_match t p = Found r -> r_pat r = canonical_path p.
Proof.
  unfold spec_match. destruct (ends_with SLASH (canonical_path p)); [discriminate|].
  destruct (find (has_key (canonical_path p)) t) as [x|] eqn:F.
  - intros H. inversion H; subst. apply find_some in F as [_ K]. apply has_key_eq. exact K.
  - destruct (find (is_longest t (canonical_path p)) t); [|discriminate].
    intros H. inversion H. reflexivity.
Qed.

Theorem goc_is_spec g t fs p :
  uniq_keys t = true -> urls_nonempty t = true ->
  get_or_create g t fs p = spec_goc g t fs p.
Proof.
  intros U NE. pose proof (req_stable_all p) as S. unfold get_or_create, spec_goc, media_get.
  destruct (reg_get g (canonical_path p)); [reflexivity|].
  rewrite (match_go_is_spec t (canonical_path p) U NE), (spec_match_canon t p S).
  destruct (spec_match t p) as [r| |] eqn:M; try reflexivity.
  rewrite (spec_match_pat t p r M). reflexivity.
Qed.

(* (a) a stream registered under the canonical path is returned, nothing is created, nothing changes *)
Theorem fast_path g t fs p sid :
  reg_get g (canonical_path p) = Some sid -> get_or_create g t fs p = GExisting sid.
Proof. intros H. unfold get_or_create, media_get. rewrite H. reflexivity. Qed.

Theorem fast_path_step url_ok fs st p sid :
  reg_get (ps_reg st) (canonical_path p) = Some sid ->
  pstep url_ok fs st (PReq p) = (st, POReq (GExisting sid) (Some sid) [] (ps_reg st)).
Proof.
  intros H. unfold pstep, pstep_with. rewrite (fast_path _ _ _ _ _ H). reflexivity.
Qed.

(* (c) spelling independence: only the canonical path of the request matters — for the answer,
   for what is created and for the state afterwards *)
Theorem goc_spelling g t fs p q :
  canonical_path p = canonical_path q -> get_or_create g t fs p = get_or_create g t fs q.
Proof. intros E. unfold get_or_create, media_get. rewrite E. reflexivity. Qed.

Theorem step_spelling url_ok fs st p q :
  canonical_path p = canonical_path q ->
  pstep url_ok fs st (PReq p) = pstep url_ok fs st (PReq q).
Proof. intros E. unfold pstep, pstep_with. rewrite (goc_spelling _ _ _ p q E). reflexivity. Qed.

(* (b) what is created, in the property's words *)
Lemma dir_path_decomp path r :
  is_dir_cand path r = true -> path = r_pat r ++ drop (zlen (r_pat r)) path.
Proof.
  unfold is_dir_cand. intros H. apply andb_true_iff in H as [_ P].
  apply is_prefix_app in P as [rest E]. rewrite E at 2. rewrite drop_app_exact. exact E.
Qed.

Definition created_of (o : goc) : option (bytes * bytes * nat * option bool) :=
  match o with
  | GCreated lp url i keep => Some (lp, url, i, Some keep)
  | GFailed lp url i => Some (lp, url, i, None)
  | _ => None
  end.

Theorem created_meaning g t fs p lp url i keep :
  uniq_keys t = true -> urls_nonempty t = true ->
  created_of (get_or_create g t fs p) = Some (lp, url, i, keep) ->
  reg_get g (canonical_path p) = None /\
  lp = canonical_path p /\ ends_with SLASH lp = false /\
  exists f, nth_error fs i = Some f /\ f_can f url = true /\
    (forall j f', (j < i)%nat -> nth_error fs j = Some f' -> f_can f' url = false) /\
    ((exists r, In r t /\ r_pat r = lp /\ url = r_url r /\
                keep = if f_ok f lp url then Some (r_keep r) else None) \/
     ((forall r, In r t -> r_pat r <> lp) /\
      exists r, In r t /\ is_dir_cand lp r = true /\
                (forall r', In r' t -> is_dir_cand lp r' = true -> (length (r_pat r') <= length (r_pat r))%nat) /\
                lp = r_pat r ++ drop (zlen (r_pat r)) lp /\
                url = spec_url r lp /\
                keep = if f_ok f lp url then Some (r_keep r) else None)).
Proof.
  intros U NE H. rewrite (goc_is_spec g t fs p U NE) in H. unfold spec_goc in H.
  destruct (reg_get g (canonical_path p)) eqn:G; [discriminate|].
  pose proof (spec_match_meaning t p U) as M. cbv zeta in M.
  destruct (spec_match t p) as [r| |] eqn:SM; try discriminate.
  destruct (first_can fs (r_url r) 0) as [[i0 f]|] eqn:FC; [|discriminate].
  apply first_can_some in FC as (j & Ej & Nj & Cj & Hlt). cbn in Ej. subst i0.
  assert (lp = canonical_path p /\ url = r_url r /\ i = j /\
          keep = (if f_ok f (canonical_path p) (r_url r) then Some (r_keep r) else None)) as (-> & -> & -> & KF).
  { destruct (f_ok f (canonical_path p) (r_url r)); cbn in H; inversion H; subst; repeat split; auto. }
  destruct M as [ES M]. split; [reflexivity|]. split; [reflexivity|]. split; [exact ES|].
  exists f. split; [exact Nj|]. split; [exact Cj|]. split; [exact Hlt|].
  destruct M as [[I P]|[NK (r0 & I0 & C0 & L0 & E0)]].
  - left. exists r. repeat split; assumption.
  - right. split; [exact NK|]. exists r0. split; [exact I0|]. split; [exact C0|]. split; [exact L0|].
    split; [apply dir_path_decomp; exact C0|]. subst r. cbn in *. split; [reflexivity|exact KF].
Qed.

(* ---------- the factory contract ---------- *)
(* a factory that hands its localPath to media.NewStream and registers the stream *)
Theorem newstream_honest can ok real :
  honest {| f_can := can; f_ok := ok; f_real := real; f_key := newstream_key |}.
Proof. intros lp url. reflexivity. Qed.

Lemma canonical_path_nonempty p : canonical_path p <> [].
Proof. destruct (canonical_path_lr p) as [_ [t E]]. rewrite E. discriminate. Qed.

(* service/rtsp NewPullClient: the publish path it computes from localPath is CanonicalPath(localPath) —
   the `path == ""` branch (fall back to the path of the remote URL) is dead, the url.Parse of
   "rtsp://localhost"+path only validates — and NewStream's canonicalisation leaves it alone *)
Theorem pull_client_path_is_canonical url_path lp url :
  pull_client_path url_path lp url = canonical_path lp.
Proof.
  unfold pull_client_path. destruct (canonical_path lp) eqn:E; [|reflexivity].
  exfalso. exact (canonical_path_nonempty lp E).
Qed.

Theorem rtsp_factory_contract url_path can ok :
  honest {| f_can := can; f_ok := ok; f_real := true; f_key := rtsp_key url_path |}.
Proof.
  intros lp url. cbn [f_key]. unfold rtsp_key. rewrite pull_client_path_is_canonical.
  apply canonical_path_idem.
Qed.

Lemma key_code_honest fs i lp url : Forall honest fs -> key_code fs i lp url = canonical_path lp.
Proof.
  intros H. unfold key_code. destruct (nth_error fs i) as [f|] eqn:N; [|reflexivity].
  apply nth_error_In in N. rewrite Forall_forall in H. apply (H f N).
Qed.

(* ---------- histories ---------- *)
Lemma prun_with_cons step st o ops :
  prun_with step st (o :: ops) =
  (fst (prun_with step (fst (step st o)) ops), snd (step st o) :: snd (prun_with step (fst (step st o)) ops)).
Proof.
  cbn [prun_with]. destruct (step st o) as [st1 out]. cbn [fst snd].
  destruct (prun_with step st1 ops) as [st2 outs]. reflexivity.
Qed.

Lemma after_req_tbl kf fs st o : ps_tbl (after_req kf fs st o) = ps_tbl st.
Proof. destruct o; reflexivity. Qed.

Lemma pstep_with_tbl fn kf url_ok fs st o :
  ps_tbl (fst (pstep_with fn kf url_ok fs st o)) =
  match o with
  | PSave r => save url_ok (ps_tbl st) r
  | PDel p => del (ps_tbl st) p
  | _ => ps_tbl st
  end.
Proof. destruct o; cbn [pstep_with fst ps_tbl]; try reflexivity. apply after_req_tbl. Qed.

(* (d) a lookup, a request (whatever it creates, whatever the factories do), a registration or a closure
   never changes the table: the table at the end of a history is the table its save/delete operations alone build *)
Theorem table_untouched url_ok fs ops : forall st,
  ps_tbl (fst (prun url_ok fs st ops)) = fst (rrun url_ok (ps_tbl st) (route_ops ops)).
Proof.
  unfold prun. induction ops as [|o ops IH]; intros st; [reflexivity|].
  rewrite prun_with_cons. cbn [fst]. rewrite IH. unfold pstep. rewrite pstep_with_tbl.
  destruct o; cbn [route_ops]; try reflexivity; rewrite rrun_cons; reflexivity.
Qed.

Theorem request_keeps_table url_ok fs st p : ps_tbl (fst (pstep url_ok fs st (PReq p))) = ps_tbl st.
Proof. unfold pstep. rewrite pstep_with_tbl. reflexivity. Qed.

Corollary table_is_map_of_route_ops url_ok fs ops st m :
  (forall k, abs (ps_tbl st) k = m k) ->
  forall k, abs (ps_tbl (fst (prun url_ok fs st ops))) k = fold_left (astep url_ok) (route_ops ops) m k.
Proof. intros H k. rewrite table_untouched. apply table_refines_map. exact H. Qed.

(* (e) publish path = lookup path, composed with the factory contract: once a request has made an honest
   factory create (and thereby register) a stream, the registry is the old one with exactly that stream put
   under the canonical requested path (no other key appears, every stream under another key survives), and a
   request for the same canonical path in any spelling returns that stream and creates nothing *)
Theorem created_then_found url_ok fs st p q lp url i keep st1 sid seen reg :
  pinv st = true -> Forall honest fs ->
  pstep url_ok fs st (PReq p) = (st1, POReq (GCreated lp url i keep) sid seen reg) ->
  canonical_path q = canonical_path p ->
  sid = Some (ps_next st) /\
  reg = ps_reg st1 /\ ps_reg st1 = reg_put (ps_reg st) (canonical_path p) (ps_next st) /\
  reg_get (ps_reg st1) (canonical_path p) = Some (ps_next st) /\
  (forall k, bytes_eqb (canonical_path p) k = false -> reg_get (ps_reg st1) k = reg_get (ps_reg st) k) /\
  pstep url_ok fs st1 (PReq q) = (st1, POReq (GExisting (ps_next st)) (Some (ps_next st)) [] (ps_reg st1)).
Proof.
  intros I HF H E. unfold pinv in I. apply andb_true_iff in I as [U NE].
  unfold pstep, pstep_with in H.
  remember (get_or_create (ps_reg st) (ps_tbl st) fs p) as o eqn:Ho.
  injection H as H1 H2 H3 H4 H5. subst o. rewrite H2 in H1, H3, H5. cbn [goc_sid after_req] in H1, H3, H5.
  assert (created_of (get_or_create (ps_reg st) (ps_tbl st) fs p) = Some (lp, url, i, Some keep)) as C
    by (rewrite H2; reflexivity).
  apply (created_meaning _ _ _ _ _ _ _ _ U NE) in C as (_ & Elp & _).
  rewrite (key_code_honest fs i lp url HF) in H1, H5.
  rewrite Elp, canonical_path_idem in H1, H5.
  assert (ps_reg st1 = reg_put (ps_reg st) (canonical_path p) (ps_next st)) as R by (rewrite <- H1; reflexivity).
  assert (reg_get (ps_reg st1) (canonical_path p) = Some (ps_next st)) as G by (rewrite R; apply reg_get_put_same).
  split; [symmetry; exact H3|]. split; [rewrite R; symmetry; exact H5|]. split; [exact R|]. split; [exact G|].
  split; [intros k N; rewrite R; apply reg_get_put_other; exact N|].
  apply fast_path_step. rewrite E. exact G.
Qed.

(* the same for a publisher's stream: Regist(NewStream(p)) then a request in any spelling *)
Theorem published_then_found url_ok fs st p q :
  canonical_path q = canonical_path p ->
  let st1 := fst (pstep url_ok fs st (PPublish p)) in
  pstep url_ok fs st1 (PReq q) = (st1, POReq (GExisting (ps_next st)) (Some (ps_next st)) [] (ps_reg st1)).
Proof.
  intros E st1. apply fast_path_step. subst st1. cbn. unfold publish. rewrite E. apply reg_get_put_same.
Qed.

(* after a closure the path is free again: the next request goes to the route table *)
Theorem closed_then_fresh url_ok fs st p q :
  canonical_path q = canonical_path p ->
  media_get (ps_reg (fst (pstep url_ok fs st (PClose p)))) q = None.
Proof. intros E. cbn. unfold media_get. rewrite E. apply reg_get_del_same. Qed.

(* ---------- invariants and the oracle ---------- *)
Lemma pstep_inv fn kf url_ok fs st o :
  pop_wf url_ok o = true -> pinv st = true -> pinv (fst (pstep_with fn kf url_ok fs st o)) = true.
Proof.
  unfold pinv. intros W I. rewrite pstep_with_tbl. apply andb_true_iff in I as [U NE].
  destruct o; try (rewrite U, NE; reflexivity).
  - rewrite (save_uniq url_ok _ r U), (save_urls url_ok _ r W NE). reflexivity.
  - rewrite (del_uniq _ pat U), (del_urls _ pat NE). reflexivity.
Qed.

Lemma after_req_honest fs st o : Forall honest fs -> after_req key_code fs st o = after_req key_spec fs st o.
Proof.
  intros HF. destruct o; try reflexivity. cbn [after_req]. rewrite (key_code_honest fs fi lp url HF). reflexivity.
Qed.

Lemma pstep_eq_spec url_ok fs st o :
  Forall honest fs -> pop_wf url_ok o = true -> pinv st = true ->
  pstep url_ok fs st o = pstep_spec url_ok fs st o.
Proof.
  intros HF W I. unfold pinv in I. apply andb_true_iff in I as [U NE].
  destruct o; try reflexivity. unfold pstep, pstep_spec, pstep_with.
  rewrite (goc_is_spec _ _ fs p U NE), (after_req_honest fs st _ HF). reflexivity.
Qed.

Lemma goc_eqb_refl o : goc_eqb o o = true.
Proof.
  destruct o; cbn; rewrite ?bytes_eqb_refl, ?Nat.eqb_refl, ?Z.eqb_refl, ?eqb_reflx; reflexivity.
Qed.
Lemma optz_eqb_refl o : optz_eqb o o = true.
Proof. destruct o; cbn; [apply Z.eqb_refl | reflexivity]. Qed.
Lemma lbytes_eqb_refl l : lbytes_eqb l l = true.
Proof. induction l; cbn; [reflexivity|]. rewrite bytes_eqb_refl. exact IHl. Qed.
Lemma reg_eqb_refl g : reg_eqb g g = true.
Proof. induction g as [|[k i] g IH]; cbn; [reflexivity|]. rewrite bytes_eqb_refl, Z.eqb_refl. exact IH. Qed.
Lemma reg_eqb_eq a : forall b, reg_eqb a b = true -> a = b.
Proof.
  induction a as [|[k i] a IH]; intros [|[k' i'] b]; cbn; try discriminate; [reflexivity|].
  intros H. apply andb_true_iff in H as [H R]. apply andb_true_iff in H as [K I].
  apply bytes_eqb_eq in K. apply Z.eqb_eq in I. rewrite (IH b R). congruence.
Qed.
Lemma pout_eqb_refl o : pout_eqb o o = true.
Proof.
  destruct o; cbn; try reflexivity.
  - apply Z.eqb_refl.
  - apply optz_eqb_refl.
  - rewrite goc_eqb_refl, optz_eqb_refl, lbytes_eqb_refl, reg_eqb_refl. reflexivity.
  - apply list_eqb_route_refl.
Qed.

(* the oracle applied to the implementation accepts the model on every well-formed history,
   for every list of factories that keep the contract *)
Theorem publish_model_passes url_ok fs ops : Forall honest fs -> forall st,
  forallb (pop_wf url_ok) ops = true -> pinv st = true ->
  ok_phist url_ok fs st ops (snd (prun url_ok fs st ops)) = true.
Proof.
  intros HF. unfold prun. induction ops as [|o ops IH]; intros st W I; [reflexivity|].
  cbn [forallb] in W. apply andb_true_iff in W as [Wo W].
  rewrite prun_with_cons. cbn [snd ok_phist].
  rewrite <- (pstep_eq_spec url_ok fs st o HF Wo I).
  destruct (pstep url_ok fs st o) as [st1 out] eqn:P. cbn [fst snd].
  rewrite pout_eqb_refl. cbn [andb]. apply IH; [exact W|].
  replace st1 with (fst (pstep url_ok fs st o)) by (rewrite P; reflexivity).
  apply pstep_inv; assumption.
Qed.

(* and an answer the oracle accepts is the specification's answer (the oracle is not lax):
   the outcome, and the registry afterwards — the old registry with at most the created stream
   put under the canonical requested path *)
Lemma goc_eqb_eq a b : goc_eqb a b = true -> a = b.
Proof.
  destruct a, b; cbn; try discriminate; try reflexivity; intros H.
  - apply Z.eqb_eq in H. congruence.
  - repeat (apply andb_true_iff in H as [H ?]).
    apply bytes_eqb_eq in H. apply bytes_eqb_eq in H2. apply Nat.eqb_eq in H1. apply eqb_prop in H0. congruence.
  - repeat (apply andb_true_iff in H as [H ?]).
    apply bytes_eqb_eq in H. apply bytes_eqb_eq in H1. apply Nat.eqb_eq in H0. congruence.
Qed.

Theorem oracle_sound_request url_ok fs st p got sid seen reg ops outs :
  ok_phist url_ok fs st (PReq p :: ops) (POReq got sid seen reg :: outs) = true ->
  got = spec_goc (ps_reg st) (ps_tbl st) fs p /\
  reg = match got with
        | GCreated _ _ _ _ => reg_put (ps_reg st) (canonical_path p) (ps_next st)
        | _ => ps_reg st
        end.
Proof.
  cbn [ok_phist pstep_spec pstep_with]. intros H. apply andb_true_iff in H as [H _].
  cbn [pout_eqb] in H. apply andb_true_iff in H as [H R]. apply andb_true_iff in H as [H _].
  apply andb_true_iff in H as [H _]. apply goc_eqb_eq in H. apply reg_eqb_eq in R.
  split; [exact H|]. rewrite R, H. unfold spec_goc.
  destruct (reg_get (ps_reg st) (canonical_path p)); [reflexivity|].
  destruct (spec_match (ps_tbl st) p); try reflexivity.
  destruct (first_can fs (r_url r) 0) as [[i f]|]; [|reflexivity].
  destruct (f_ok f (canonical_path p) (r_url r)); [|reflexivity].
  cbn [after_req ps_reg]. unfold key_spec. rewrite canonical_path_idem. reflexivity.
Qed.

(* ---------- the former known finding (CanonicalPath not idempotent), now repaired: regression witness ---------- *)
Definition any_factory : factory :=
  {| f_can := fun _ => true; f_ok := fun _ _ => true; f_real := false; f_key := newstream_key |}.
Definition unstable_req : bytes := [47; 97; 32; 47; 98; 47; 46; 46].          (* "/a /b/.." *)
Definition unstable_tbl : table := [ {| r_pat := [47; 97]; r_url := [117]; r_keep := true |} ].

Theorem publish_unstable_fixed :
  let st := {| ps_reg := []; ps_tbl := unstable_tbl; ps_next := 0 |} in
  pinv st = true /\ req_stable unstable_req = true /\
  let st1 := fst (pstep (fun _ => true) [any_factory] st (PReq unstable_req)) in
  snd (pstep (fun _ => true) [any_factory] st (PReq unstable_req)) =
    POReq (GCreated [47; 97] [117] 0 true) (Some 0) [] [([47; 97], 0)] /\
  snd (pstep (fun _ => true) [any_factory] st1 (PReq unstable_req)) =
    POReq (GExisting 0) (Some 0) [] [([47; 97], 0)].
Proof. vm_compute. repeat split. Qed.

(* ---------- the contract is needed: a factory that takes the publish path from a parsed URL ---------- *)
(* keeps only what precedes the first '#' (what url.Parse("rtsp://localhost"+path).Path does to a fragment) *)
Fixpoint cut_hash (s : bytes) : bytes :=
  match s with [] => [] | c :: s' => if c =? 35 then [] else c :: cut_hash s' end.
Definition cutting_factory : factory :=
  {| f_can := fun _ => true; f_ok := fun _ _ => true; f_real := true;
     f_key := fun lp _ => canonical_path (cut_hash (canonical_path lp)) |}.

(* directory route "/c/" -> "u"; somebody's stream 0 is live under "/c/d"; the request "/c/d#2" makes the
   factory publish under "/c/d": stream 0 is replaced, "/c/d#2" stays unregistered, and the same request
   pulls again *)
Theorem contract_needed_refuted :
  let st := {| ps_reg := [([47;99;47;100], 0)]; ps_next := 1;
               ps_tbl := [ {| r_pat := [47;99;47]; r_url := [117]; r_keep := true |} ] |} in
  let req := [47;99;47;100;35;50] in
  pinv st = true /\ ~ honest cutting_factory /\
  let st1 := fst (pstep (fun _ => true) [cutting_factory] st (PReq req)) in
  snd (pstep (fun _ => true) [cutting_factory] st (PReq req)) =
    POReq (GCreated req [117;47;100;35;50] 0 true) (Some 1) [[117;47;100;35;50]] [([47;99;47;100], 1)] /\
  snd (pstep (fun _ => true) [cutting_factory] st1 (PReq req)) =
    POReq (GCreated req [117;47;100;35;50] 0 true) (Some 2) [[117;47;100;35;50]] [([47;99;47;100], 2)] /\
  ok_phist (fun _ => true) [cutting_factory] st [PReq req]
    (snd (prun (fun _ => true) [cutting_factory] st [PReq req])) = false.
Proof.
  cbv zeta. split; [vm_compute; reflexivity|]. split.
  - intros H. specialize (H [47;99;47;100;35;50] []). vm_compute in H. discriminate.
  - vm_compute. repeat split.
Qed.
