(* C08 — several clients sharing the stream's tags: every client's output is the single-writer
   output on the tags it was handed, whatever the order in which the routines run; the tags are
   unchanged *)
From Coq Require Import ZArith List Bool Lia.
From V Require Import Bytes BytesLemmas C08Amf0 C08Flv C08Fanout.
Import ListNotations.
Open Scope Z_scope.

Fixpoint wafter (st : wstate) (l : list tag) : wstate :=
  match l with [] => st | t :: r => wafter (fst (rebase st t)) r end.

Lemma write_tags_app a : forall st b,
  write_tags st (a ++ b) = write_tags st a ++ write_tags (wafter st a) b.
Proof.
  induction a as [|t a IH]; intros st b; [reflexivity|].
  cbn [app write_tags wafter]. destruct (rebase st t) as [st' ts]. cbn [fst].
  rewrite IH. now rewrite app_assoc.
Qed.

Lemma wafter_app a : forall st b, wafter st (a ++ b) = wafter (wafter st a) b.
Proof. induction a as [|t a IH]; intros st b; [reflexivity|]. cbn [app wafter]. apply IH. Qed.

Section Fan.
Variable store : list tag.
Let res := map (resolve store).

(* what relates a client to the list of items it has been handed so far *)
Definition crel (h : list qitem) (cl : fclient) : Prop :=
  exists done, h = done ++ cq cl /\ cout cl = write_tags w_init (res done) /\ cst cl = wafter w_init (res done).

Lemma client_write_rel h cl :
  crel h cl -> fst (client_write store cl) = store /\ crel h (snd (client_write store cl)).
Proof.
  intros (done & Hh & Ho & Hs). unfold res in *. unfold client_write. destruct (cq cl) as [|x q'] eqn:Q.
  - split; [reflexivity|]. exists done. cbn [snd]. rewrite Q. repeat split; assumption.
  - destruct (rebase (cst cl) (resolve store x)) as [st' ts] eqn:RB. cbn [fst snd]. split; [reflexivity|].
    exists (done ++ [x]). cbn [cq cout cst]. repeat split.
    + now rewrite <- app_assoc.
    + unfold res. rewrite map_app, write_tags_app. rewrite <- Ho, <- Hs. cbn [map write_tags].
      rewrite RB. now rewrite app_nil_r.
    + unfold res. rewrite map_app, wafter_app. rewrite <- Hs. cbn [map wafter]. now rewrite RB.
Qed.

Lemma client_write_n_rel n : forall h cl,
  crel h cl -> fst (client_write_n n store cl) = store /\ crel h (snd (client_write_n n store cl)).
Proof.
  induction n as [|n IH]; intros h cl H; [now split|].
  cbn [client_write_n]. destruct (client_write_rel h cl H) as [S1 R1].
  destruct (client_write store cl) as [s1 c1]. cbn [fst snd] in *. subst s1. now apply IH.
Qed.

Lemma client_write_len cl : length (cq (snd (client_write store cl))) = pred (length (cq cl)).
Proof.
  unfold client_write. destruct (cq cl) as [|x q'] eqn:Q; [cbn [snd]; now rewrite Q|].
  destruct (rebase (cst cl) (resolve store x)). reflexivity.
Qed.

Lemma client_write_store cl : fst (client_write store cl) = store.
Proof. unfold client_write. destruct (cq cl); [reflexivity|]. now destruct (rebase _ _). Qed.

Lemma client_write_n_empty n : forall cl,
  (length (cq cl) <= n)%nat -> cq (snd (client_write_n n store cl)) = [].
Proof.
  induction n as [|n IH]; intros cl L.
  - cbn. destruct (cq cl); [reflexivity|cbn in L; lia].
  - cbn [client_write_n]. pose proof (client_write_len cl) as PL. pose proof (client_write_store cl) as S1.
    destruct (client_write store cl) as [s1 c1]. cbn [fst snd] in *. subst s1. apply IH. lia.
Qed.

Lemma upd_client_rel j n : forall hs cls,
  Forall2 crel hs cls ->
  fst (upd_client j n store cls) = store /\ Forall2 crel hs (snd (upd_client j n store cls)).
Proof.
  induction j as [|j IH]; intros hs cls F; destruct F as [|h c hs cls Hc F]; cbn [upd_client]; try (split; [reflexivity|constructor]).
  - destruct (client_write_n_rel n h c Hc) as [S1 R1].
    destruct (client_write_n n store c) as [s1 c1]. cbn [fst snd] in *. split; [assumption|now constructor].
  - destruct (IH hs cls F) as [S1 R1]. destruct (upd_client j n store cls) as [s1 r1]. cbn [fst snd] in *.
    split; [assumption|now constructor].
Qed.

Definition finv (w : fworld) (s : fcache * list (list qitem)) : Prop :=
  f_store w = store /\ f_cache w = fst s /\ Forall2 crel (snd s) (f_clients w).

Lemma Forall2_app_one {A B} (R : A -> B -> Prop) l1 l2 a b :
  Forall2 R l1 l2 -> R a b -> Forall2 R (l1 ++ [a]) (l2 ++ [b]).
Proof. intros F H. apply Forall2_app; [assumption|constructor; [assumption|constructor]]. Qed.

Lemma fstep_inv w s e : finv w s -> finv (fstep w e) (hstep store s e).
Proof.
  intros (S & C & F). destruct e as [i| |j m]; cbn [fstep hstep].
  - repeat split; cbn [f_store f_cache f_clients fst snd]; [assumption|now rewrite S, C|].
    clear C. induction F as [|h c hs cls Hc F IH]; [constructor|]. cbn [map]. constructor; [|assumption].
    destruct Hc as (done & Hh & Ho & Hs). exists done. cbn [cq cout cst]. repeat split; try assumption.
    rewrite Hh. now rewrite app_assoc.
  - repeat split; cbn [f_store f_cache f_clients fst snd]; [assumption|assumption|].
    apply Forall2_app_one; [assumption|]. exists []. rewrite S, C. repeat split.
  - rewrite S. destruct (upd_client_rel j m (snd s) (f_clients w) F) as [S1 R1].
    destruct (upd_client j m store (f_clients w)) as [s1 r1]. cbn [fst snd] in *.
    repeat split; cbn [f_store f_cache f_clients]; assumption.
Qed.

Lemma fold_inv sched : forall w s, finv w s -> finv (fold_left fstep sched w) (fold_left (hstep store) sched s).
Proof. induction sched as [|e r IH]; intros w s H; [assumption|]. cbn [fold_left]. apply IH. now apply fstep_inv. Qed.

Lemma drain_all_rel : forall hs cls,
  Forall2 crel hs cls ->
  fst (drain_all store cls) = store /\
  map cout (snd (drain_all store cls)) = map (fun h => write_tags w_init (res h)) hs.
Proof.
  intros hs cls F. induction F as [|h c hs cls Hc F IH]; [now split|].
  cbn [drain_all]. destruct (client_write_n_rel (length (cq c)) h c Hc) as [S1 R1].
  pose proof (client_write_n_empty (length (cq c)) c (le_n _)) as E.
  destruct (client_write_n (length (cq c)) store c) as [s1 c1]. cbn [fst snd] in *. subst s1.
  destruct IH as [S2 M2]. destruct (drain_all store cls) as [s2 r2]. cbn [fst snd] in *.
  split; [assumption|]. cbn [map]. f_equal; [|assumption].
  destruct R1 as (done & Hh & Ho & _). rewrite E, app_nil_r in Hh. now subst done.
Qed.

Theorem fan_run_independent_lemma sched :
  fan_run store sched =
  (store, map (fun h => write_tags w_init (res h)) (fan_hist store sched)).
Proof.
  unfold fan_run, fan_hist.
  assert (I0 : finv (mkFW store fc_empty []) (fc_empty, [])) by (repeat split; constructor).
  pose proof (fold_inv sched _ _ I0) as (S & C & F).
  destruct (drain_all_rel _ _ F) as [S1 M1]. rewrite S in *.
  destruct (drain_all store (f_clients (fold_left fstep sched (mkFW store fc_empty [])))) as [s1 c1].
  cbn [fst snd] in *. subst s1. now rewrite M1.
Qed.
End Fan.

Lemma outs_ok_refl store hs :
  outs_ok store hs (map (fun h => write_tags w_init (map (resolve store) h)) hs) = true.
Proof. induction hs as [|h hs IH]; [reflexivity|]. cbn [map outs_ok]. now rewrite bytes_eqb_refl, IH. Qed.

Lemma tags_eqb_refl l : tags_eqb l l = true.
Proof.
  induction l as [|t l IH]; [reflexivity|]. cbn [tags_eqb]. unfold tag_eqb.
  now rewrite !Z.eqb_refl, bytes_eqb_refl, IH.
Qed.

Theorem fan_model_passes_lemma flags store sched :
  let '(ts, outs) := fan_streams flags store sched in
  fan_ok_bytes flags store sched ts outs = true.
Proof.
  unfold fan_streams. rewrite fan_run_independent_lemma. unfold fan_ok_bytes, fan_ok.
  rewrite tags_eqb_refl. cbn [andb]. rewrite !map_map.
  apply andb_true_iff. split.
  - apply forallb_forall. intros o Ho. apply in_map_iff in Ho as [x [<- _]].
    change 13%nat with (length (file_header flags)). rewrite firstn_app, Nat.sub_diag, firstn_all. cbn [firstn].
    rewrite app_nil_r. apply bytes_eqb_refl.
  - rewrite (map_ext _ (fun h => write_tags w_init (map (resolve store) h))).
    + apply outs_ok_refl.
    + intros h. change 13%nat with (length (file_header flags)). now rewrite skipn_app, Nat.sub_diag, skipn_all.
Qed.

Lemma fold_hstep_filter store sched : forall s,
  fold_left (hstep store) sched s =
  fold_left (hstep store) (filter (fun e => match e with EConsume _ _ => false | _ => true end) sched) s.
Proof.
  induction sched as [|e r IH]; intros s; [reflexivity|].
  destruct e; cbn [filter fold_left hstep]; apply IH.
Qed.

(* when the routines run does not matter: only deliveries and attachments determine a client's tags *)
Lemma fan_hist_ignores_consume_lemma store sched :
  fan_hist store sched =
  fan_hist store (filter (fun e => match e with EConsume _ _ => false | _ => true end) sched).
Proof. unfold fan_hist. now rewrite fold_hstep_filter. Qed.
