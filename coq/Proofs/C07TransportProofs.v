(* C07 — a packet a transport cannot carry affects only itself *)
From Coq Require Import ZArith List Bool Lia.
From V Require Import Val Bytes BytesLemmas C01Wire C07Transport.
Import ListNotations.
Open Scope Z_scope.

Theorem carry_failure_local kind v p : carry kind p = None -> consume kind v p = v.
Proof. intros H. unfold consume. rewrite H. destruct (v_open v); reflexivity. Qed.

Lemma carry_same kind p q : carry kind p = Some q -> q = p.
Proof. unfold carry. destruct (is_datagram_kind kind); destruct (_ <=? _); congruence. Qed.

Theorem viewer_survives kind : forall ps v, v_open v = true ->
  v_open (vrun kind v ps) = true /\ v_got (vrun kind v ps) = v_got v ++ owed kind ps.
Proof.
  induction ps as [|p r IH]; intros v O; simpl.
  - rewrite app_nil_r. auto.
  - assert (E0 : consume kind v p = match carry kind p with Some q => mkV true (v_got v ++ [q]) | None => v end).
    { unfold consume. rewrite O. reflexivity. }
    rewrite E0. unfold carriable. destruct (carry kind p) as [q|] eqn:E.
    + apply carry_same in E. subst q. destruct (IH (mkV true (v_got v ++ [p])) eq_refl) as [A B].
      split; auto. rewrite B. simpl. rewrite <- app_assoc. reflexivity.
    + destruct (IH v O) as [A B]. auto.
Qed.

(* whatever came first — carriable or not — every later packet the transport can carry arrives *)
Theorem later_good_delivered kind bad good :
  forallb (carriable kind) good = true ->
  v_open (vrun kind v0 (bad ++ good)) = true /\
  v_got (vrun kind v0 (bad ++ good)) = owed kind bad ++ good.
Proof.
  intros G. destruct (viewer_survives kind (bad ++ good) v0 eq_refl) as [A B]. split; auto.
  rewrite B. cbn [v_got v0 app]. unfold owed. rewrite filter_app.
  assert (X : filter (carriable kind) good = good).
  { clear -G. induction good as [|g r IH]; simpl in *; auto. apply andb_true_iff in G as [G1 G2]. rewrite G1, IH; auto. }
  rewrite X. reflexivity.
Qed.

(* closing the consumer on a failed send: one oversized packet and the viewer gets nothing more *)
Theorem close_on_error_refuted :
  exists kind bad good,
    carriable kind good = true /\
    v_got (vrun kind v0 [bad; good]) = [good] /\
    v_got (vrun_close kind v0 [bad; good]) = [] /\ v_open (vrun_close kind v0 [bad; good]) = false.
Proof.
  exists 1, (0, repeat_byte 0 65508), (0, [128; 96]). vm_compute. repeat split; reflexivity.
Qed.

Lemma pkt_eqb_refl p : pkt_eqb p p = true.
Proof. unfold pkt_eqb. rewrite Z.eqb_refl, bytes_eqb_refl. reflexivity. Qed.
Lemma list_eqb_pkt_refl l : list_eqb pkt_eqb l l = true.
Proof. induction l; simpl; auto. rewrite pkt_eqb_refl, IHl. reflexivity. Qed.

(* the oracle accepts the model's viewer *)
Theorem tr_model_passes kind chmap pkts :
  tr_client_ok kind chmap pkts (client_view chmap (v_got (vrun kind v0 pkts))) (negb (v_open (vrun kind v0 pkts))) = true.
Proof.
  destruct (viewer_survives kind pkts v0 eq_refl) as [A B]. rewrite A, B. simpl app.
  unfold tr_client_ok. simpl negb. simpl andb. unfold ok_wire.
  destruct (is_datagram_kind kind).
  - unfold ok_wire_udp. simpl. rewrite !list_eqb_pkt_refl. reflexivity.
  - unfold ok_wire_stream. apply list_eqb_pkt_refl.
Qed.
