(* C19: the patricia tree of matcher.go answers "is some listed string a prefix
   of the input" (prefix mode) — for every table and every input. *)
From Coq Require Import ZArith List Bool Lia.
From V Require Import Bytes BytesLemmas C19PTree.
Import ListNotations.
Open Scope Z_scope.

(* ---------- small facts *)
Lemma firstn_min_eqb p b :
  bytes_eqb (firstn (Nat.min (length p) (length b)) b) p = is_prefix p b.
Proof.
  revert b; induction p as [|x p IH]; intros [|y b]; simpl; try reflexivity.
  rewrite IH. rewrite (Z.eqb_sym y x). reflexivity.
Qed.

Lemma is_prefix_app_l p r b : is_prefix (p ++ r) b = true -> is_prefix p b = true.
Proof.
  intros H. apply is_prefix_app in H as [t ->]. apply is_prefix_app. exists (r ++ t).
  now rewrite app_assoc.
Qed.

Lemma is_prefix_cancel p r b : is_prefix (p ++ r) (p ++ b) = is_prefix r b.
Proof. induction p as [|x p IH]; simpl; [reflexivity|]. now rewrite Z.eqb_refl, IH. Qed.

Lemma is_prefix_split p b : is_prefix p b = true -> b = p ++ skipn (length p) b.
Proof.
  intros H. apply is_prefix_app in H as [t ->].
  rewrite skipn_app, skipn_all, Nat.sub_diag. reflexivity.
Qed.

(* ---------- splitPrefix *)
Lemma hd_is_cons c s : hd_is c s = true -> s = c :: tl s.
Proof. destruct s as [|x s]; simpl; [discriminate|]. intros H; apply Z.eqb_eq in H; now subst. Qed.

Lemma lcp_all_common first others :
  let p := lcp_all first others in
  first = p ++ skipn (length p) first /\
  Forall (fun s => s = p ++ skipn (length p) s) others.
Proof.
  revert others; induction first as [|c f IH]; intros others; simpl.
  - split; [reflexivity|]. apply Forall_forall; intros; reflexivity.
  - destruct (forallb (hd_is c) others) eqn:E; simpl.
    + destruct (IH (map (@tl Z) others)) as [H1 H2]. split.
      * f_equal. exact H1.
      * apply Forall_forall. intros s Hs.
        rewrite forallb_forall in E. specialize (E s Hs). apply hd_is_cons in E.
        rewrite Forall_forall in H2. specialize (H2 (tl s) (in_map _ _ _ Hs)).
        rewrite E at 1. rewrite E at 2. simpl. f_equal. exact H2.
    + split; [reflexivity|]. apply Forall_forall; intros; reflexivity.
Qed.

Lemma split_prefix_spec strs :
  strs = map (app (fst (split_prefix strs))) (snd (split_prefix strs)).
Proof.
  destruct strs as [|b others]; [reflexivity|].
  destruct b as [|c b].
  - simpl. rewrite map_id. reflexivity.
  - destruct others as [|o others].
    + simpl. rewrite app_nil_r. reflexivity.
    + unfold split_prefix. cbv zeta. cbn [fst snd].
      destruct (lcp_all_common (c :: b) (o :: others)) as [H1 H2].
      set (p := lcp_all (c :: b) (o :: others)) in *.
      rewrite map_map. cbn [map]. f_equal; [exact H1|].
      rewrite Forall_forall in H2.
      f_equal; [apply H2; left; reflexivity|].
      rewrite <- (map_id others) at 1. apply map_ext_in. intros s Hs. apply H2. right; exact Hs.
Qed.

(* ---------- the [nexts] grouping *)
Fixpoint assoc {A} (c : Z) (g : list (Z * A)) : option A :=
  match g with
  | [] => None
  | (k, v) :: r => if Z.eqb k c then Some v else assoc c r
  end.

Definition tail_if (c : Z) (s : bytes) : list bytes :=
  match s with x :: s' => if Z.eqb x c then [s'] else [] | [] => [] end.
Definition tails_of (c : Z) (rest : list bytes) : list bytes := flat_map (tail_if c) rest.

Lemma assoc_group_add c k v g :
  assoc c (group_add k v g) =
  if Z.eqb k c then Some (match assoc c g with Some vs => vs ++ [v] | None => [v] end)
  else assoc c g.
Proof.
  induction g as [|[k' vs] g IH]; simpl.
  - destruct (Z.eqb k c); reflexivity.
  - destruct (Z.eqb k k') eqn:E; simpl.
    + apply Z.eqb_eq in E; subst k'. destruct (Z.eqb k c); reflexivity.
    + destruct (Z.eqb k' c) eqn:E2.
      * apply Z.eqb_eq in E2; subst k'. rewrite E. reflexivity.
      * exact IH.
Qed.

Definition merge_tails (o : option (list bytes)) (t : list bytes) : option (list bytes) :=
  match o, t with
  | None, [] => None
  | None, _ => Some t
  | Some v, _ => Some (v ++ t)
  end.

Lemma assoc_fold c rest : forall g,
  assoc c (fold_left group_step rest g) = merge_tails (assoc c g) (tails_of c rest).
Proof.
  induction rest as [|s rest IH]; intros g; simpl.
  - destruct (assoc c g); simpl; [now rewrite app_nil_r | reflexivity].
  - rewrite IH. destruct s as [|x s]; simpl; [reflexivity|].
    rewrite assoc_group_add. destruct (Z.eqb x c) eqn:E; simpl.
    + destruct (assoc c g); simpl.
      * now rewrite <- app_assoc.
      * reflexivity.
    + reflexivity.
Qed.

Lemma assoc_groups c rest :
  assoc c (groups rest) = match tails_of c rest with [] => None | t => Some t end.
Proof. unfold groups. rewrite assoc_fold. simpl. destruct (tails_of c rest); reflexivity. Qed.

(* ---------- one step of match *)
Fixpoint look (c : Z) (b : bytes) (prefix : bool) (nx : list (Z * ptnode)) : bool :=
  match nx with
  | [] => false
  | (k, ch) :: r => if Z.eqb k c then pt_match ch b prefix else look c b prefix r
  end.

Lemma pt_match_unfold p term next b prefix :
  pt_match (PT p term next) b prefix =
  let l := Nat.min (length p) (length b) in
  if (Nat.ltb 0 (length p)) && negb (bytes_eqb (firstn l b) p) then false
  else if term && (prefix || Nat.eqb (length p) (length b)) then true
  else if Nat.leb (length b) l then false
  else match nth_error b l with
       | None => false
       | Some c => look c (skipn (S l) b) prefix next
       end.
Proof.
  cbn [pt_match]. cbv zeta.
  destruct (_ && _); [reflexivity|]. destruct (_ && _); [reflexivity|].
  destruct (Nat.leb _ _); [reflexivity|]. destruct (nth_error _ _) as [c|]; [|reflexivity].
  induction next as [|[k ch] r IH]; [reflexivity|]. cbn [look]. destruct (Z.eqb k c); [reflexivity|]. exact IH.
Qed.

Lemma look_map c b prefix (F : list bytes -> ptnode) g :
  look c b prefix (map (fun kv => (fst kv, F (snd kv))) g) =
  match assoc c g with None => false | Some rs => pt_match (F rs) b prefix end.
Proof.
  induction g as [|[k vs] g IH]; simpl; [reflexivity|].
  destruct (Z.eqb k c); [reflexivity | exact IH].
Qed.

(* prefix-mode head of match: the node's own prefix must be a prefix of the input *)
Lemma prefix_check p b :
  (Nat.ltb 0 (length p)) && negb (bytes_eqb (firstn (Nat.min (length p) (length b)) b) p)
  = negb (is_prefix p b).
Proof.
  rewrite firstn_min_eqb. destruct p; simpl; [reflexivity|]. reflexivity.
Qed.

(* ---------- the specification side *)
Lemma any_prefix_map_app p rest b' :
  any_prefix (map (app p) rest) (p ++ b') = any_prefix rest b'.
Proof.
  unfold any_prefix. induction rest as [|r rest IH]; simpl; [reflexivity|].
  now rewrite is_prefix_cancel, IH.
Qed.

Lemma any_prefix_not_prefix p rest b :
  is_prefix p b = false -> any_prefix (map (app p) rest) b = false.
Proof.
  intros H. unfold any_prefix. induction rest as [|r rest IH]; simpl; [reflexivity|].
  rewrite IH, orb_false_r. destruct (is_prefix (p ++ r) b) eqn:E; [|reflexivity].
  apply is_prefix_app_l in E. congruence.
Qed.

Lemma any_prefix_has_empty rest b : has_empty rest = true -> any_prefix rest b = true.
Proof.
  unfold has_empty, any_prefix. intros H. apply existsb_exists in H as [s [Hs E]].
  apply existsb_exists. exists s. split; [exact Hs|]. destruct s; [reflexivity | discriminate].
Qed.

Lemma any_prefix_nil rest : has_empty rest = false -> any_prefix rest [] = false.
Proof.
  unfold has_empty, any_prefix. induction rest as [|r rest IH]; simpl; [reflexivity|].
  destruct r; simpl; [discriminate|]. exact IH.
Qed.

Lemma any_prefix_tails c b rest :
  has_empty rest = false -> any_prefix rest (c :: b) = any_prefix (tails_of c rest) b.
Proof.
  unfold has_empty, any_prefix, tails_of. induction rest as [|r rest IH]; simpl; [reflexivity|].
  destruct r as [|x r]; simpl; [discriminate|]. intros H.
  rewrite existsb_app, (IH H). destruct (Z.eqb x c); simpl; [now rewrite orb_false_r | reflexivity].
Qed.

(* ---------- lengths (fuel) *)
Lemma max_len_in s strs : In s strs -> (length s <= max_len strs)%nat.
Proof.
  induction strs as [|t strs IH]; simpl; [tauto|]. intros [->|H]; [lia|]. specialize (IH H). lia.
Qed.

Lemma max_len_le strs n : (forall s, In s strs -> (length s <= n)%nat) -> (max_len strs <= n)%nat.
Proof.
  induction strs as [|t strs IH]; simpl; intros H; [lia|].
  assert (length t <= n)%nat by (apply H; now left).
  assert (max_len strs <= n)%nat by (apply IH; intros; apply H; now right). lia.
Qed.

Lemma max_len_map_app p rest : (max_len rest <= max_len (map (app p) rest))%nat.
Proof.
  apply max_len_le. intros s Hs.
  assert (In (p ++ s) (map (app p) rest)) by (now apply in_map).
  apply max_len_in in H. rewrite app_length in H. lia.
Qed.

Lemma tails_of_in c rest t : In t (tails_of c rest) -> In (c :: t) rest.
Proof.
  unfold tails_of. intros H. apply in_flat_map in H as [s [Hs Ht]].
  destruct s as [|x s]; simpl in Ht; [tauto|]. destruct (Z.eqb x c) eqn:E; simpl in Ht; [|tauto].
  apply Z.eqb_eq in E. destruct Ht as [<-|[]]. now subst.
Qed.

Lemma max_len_tails c rest : tails_of c rest <> [] -> (S (max_len (tails_of c rest)) <= max_len rest)%nat.
Proof.
  intros NE.
  assert (forall t, In t (tails_of c rest) -> (S (length t) <= max_len rest)%nat) as H.
  { intros t Ht. apply tails_of_in in Ht. apply max_len_in in Ht. simpl in Ht. lia. }
  destruct (tails_of c rest) as [|t0 ts] eqn:E; [congruence|].
  assert (max_len (t0 :: ts) <= max_len rest - 1)%nat.
  { apply max_len_le. intros s Hs. specialize (H s Hs). lia. }
  specialize (H t0 (or_introl eq_refl)). lia.
Qed.

(* ---------- main theorem *)
Theorem new_node_match_prefix : forall f strs b,
  strs <> [] -> (max_len strs < f)%nat ->
  pt_match (new_node f strs) b true = any_prefix strs b.
Proof.
  induction f as [|f IH]; intros strs b NE LT; [lia|].
  destruct strs as [|s1 [|s2 tl]]; [congruence| |].
  - (* single string: leaf *)
    cbn [new_node]. rewrite pt_match_unfold. cbv zeta. rewrite prefix_check.
    unfold any_prefix. cbn [existsb]. rewrite orb_false_r.
    destruct (is_prefix s1 b); reflexivity.
  - (* at least two strings *)
    set (strs := s1 :: s2 :: tl) in *.
    assert (new_node (S f) strs =
            PT (fst (split_prefix strs)) (has_empty (snd (split_prefix strs)))
               (map (fun kv => (fst kv, new_node f (snd kv))) (groups (snd (split_prefix strs))))) as -> by reflexivity.
    pose proof (split_prefix_spec strs) as SP.
    set (p := fst (split_prefix strs)) in *. set (rest := snd (split_prefix strs)) in *.
    rewrite pt_match_unfold. cbv zeta. rewrite prefix_check.
    destruct (is_prefix p b) eqn:EP; cbn [negb].
    2:{ rewrite SP. symmetry. now apply any_prefix_not_prefix. }
    pose proof (is_prefix_split _ _ EP) as Eb. set (b' := skipn (length p) b) in *.
    assert (any_prefix strs b = any_prefix rest b') as ->.
    { rewrite SP, Eb. apply any_prefix_map_app. }
    cbn [orb]. rewrite andb_true_r.
    destruct (has_empty rest) eqn:HE.
    { symmetry. now apply any_prefix_has_empty. }
    assert (length b = (length p + length b')%nat) as Lb by (rewrite Eb, app_length; reflexivity).
    replace (Nat.min (length p) (length b)) with (length p) by lia.
    destruct b' as [|c b''] eqn:Eb'.
    { replace (Nat.leb (length b) (length p)) with true by (symmetry; apply Nat.leb_le; simpl in Lb; lia).
      symmetry. now apply any_prefix_nil. }
    replace (Nat.leb (length b) (length p)) with false by (symmetry; apply Nat.leb_gt; simpl in Lb; lia).
    assert (nth_error b (length p) = Some c) as ->.
    { rewrite Eb, nth_error_app2, Nat.sub_diag by lia. reflexivity. }
    assert (skipn (S (length p)) b = b'') as ->.
    { rewrite Eb. replace (S (length p)) with (length p + 1)%nat by lia.
      rewrite skipn_app, skipn_all2 by lia. replace (length p + 1 - length p)%nat with 1%nat by lia. reflexivity. }
    rewrite (look_map c b'' true (new_node f)), assoc_groups.
    rewrite (any_prefix_tails c b'' rest HE).
    destruct (tails_of c rest) as [|t0 ts] eqn:ET; [reflexivity|].
    rewrite <- ET. apply IH.
    + rewrite ET; discriminate.
    + assert (tails_of c rest <> []) as NT by (rewrite ET; discriminate).
      pose proof (max_len_tails c rest NT). pose proof (max_len_map_app p rest). rewrite <- SP in H0. lia.
Qed.

(* the statement for the tree as Go builds it (root + maxDepth) *)
Theorem ptree_match_is_prefix_exists : forall strs b,
  strs <> [] -> tree_match_prefix strs b = any_prefix strs b.
Proof.
  intros strs b NE. unfold tree_match_prefix, new_tree, max_depth.
  apply new_node_match_prefix; [exact NE | lia].
Qed.

(* MatchPrefix() with no strings matches everything — the root is a terminal empty node *)
Lemma ptree_empty_matches_all b : tree_match_prefix [] b = true.
Proof. unfold tree_match_prefix, new_tree. cbn [new_node max_depth]. rewrite pt_match_unfold. reflexivity. Qed.

(* reading only maxDepth bytes loses nothing: every listed string is shorter *)
Lemma is_prefix_firstn_ge s b n : (length s <= n)%nat -> is_prefix s (firstn n b) = is_prefix s b.
Proof.
  revert b n; induction s as [|x s IH]; intros b n H; [reflexivity|].
  destruct n as [|n]; [simpl in H; lia|]. destruct b as [|y b]; [reflexivity|].
  simpl. rewrite IH; [reflexivity | simpl in H; lia].
Qed.

Lemma any_prefix_firstn strs b n :
  (max_len strs <= n)%nat -> any_prefix strs (firstn n b) = any_prefix strs b.
Proof.
  intros H. unfold any_prefix. induction strs as [|s strs IH]; simpl; [reflexivity|].
  simpl in H. rewrite is_prefix_firstn_ge by lia. rewrite IH by lia. reflexivity.
Qed.

Lemma any_prefix_mono strs a b : is_prefix a b = true -> any_prefix strs a = true -> any_prefix strs b = true.
Proof.
  intros Hab H. unfold any_prefix in *. apply existsb_exists in H as [s [Hs E]].
  apply existsb_exists. exists s. split; [exact Hs|].
  apply is_prefix_app in E as [t ->]. apply is_prefix_app in Hab as [u ->].
  apply is_prefix_app. exists (t ++ u). now rewrite app_assoc.
Qed.

(* ---------- exact mode (patriciaTree.match; not used by the listener) *)
Lemma bytes_eqb_cancel p r b : bytes_eqb (p ++ r) (p ++ b) = bytes_eqb r b.
Proof. induction p as [|x p IH]; simpl; [reflexivity|]. now rewrite Z.eqb_refl, IH. Qed.

Lemma bytes_eqb_is_prefix a b : bytes_eqb a b = true -> is_prefix a b = true.
Proof. intros H. apply bytes_eqb_eq in H. subst. apply is_prefix_app. exists []. now rewrite app_nil_r. Qed.

Lemma any_equal_map_app p rest b' : any_equal (map (app p) rest) (p ++ b') = any_equal rest b'.
Proof.
  unfold any_equal. induction rest as [|r rest IH]; simpl; [reflexivity|].
  now rewrite bytes_eqb_cancel, IH.
Qed.

Lemma any_equal_not_prefix p rest b : is_prefix p b = false -> any_equal (map (app p) rest) b = false.
Proof.
  intros H. unfold any_equal. induction rest as [|r rest IH]; simpl; [reflexivity|].
  rewrite IH, orb_false_r. destruct (bytes_eqb (p ++ r) b) eqn:E; [|reflexivity].
  apply bytes_eqb_is_prefix, is_prefix_app_l in E. congruence.
Qed.

Lemma any_equal_nil rest : any_equal rest [] = has_empty rest.
Proof.
  unfold any_equal, has_empty. induction rest as [|r rest IH]; simpl; [reflexivity|].
  rewrite IH. destruct r; reflexivity.
Qed.

Lemma any_equal_tails c b rest : any_equal rest (c :: b) = any_equal (tails_of c rest) b.
Proof.
  unfold any_equal, tails_of. induction rest as [|r rest IH]; simpl; [reflexivity|].
  rewrite existsb_app, IH. destruct r as [|x r]; simpl; [reflexivity|].
  destruct (Z.eqb x c); simpl; [now rewrite orb_false_r | reflexivity].
Qed.

Theorem new_node_match_exact : forall f strs b,
  strs <> [] -> (max_len strs < f)%nat ->
  pt_match (new_node f strs) b false = any_equal strs b.
Proof.
  induction f as [|f IH]; intros strs b NE LT; [lia|].
  destruct strs as [|s1 [|s2 tl]]; [congruence| |].
  - cbn [new_node]. rewrite pt_match_unfold. cbv zeta. rewrite prefix_check.
    unfold any_equal. cbn [existsb]. rewrite orb_false_r.
    destruct (is_prefix s1 b) eqn:EP; cbn [negb].
    2:{ destruct (bytes_eqb s1 b) eqn:E; [|reflexivity]. apply bytes_eqb_is_prefix in E. congruence. }
    pose proof (is_prefix_split _ _ EP) as Eb. set (b' := skipn (length s1) b) in *.
    assert (length b = (length s1 + length b')%nat) as Lb by (rewrite Eb, app_length; reflexivity).
    cbn [andb orb]. replace (Nat.min (length s1) (length b)) with (length s1) by lia.
    destruct b' as [|c b''].
    + rewrite app_nil_r in Eb. rewrite <- Eb, Nat.eqb_refl, bytes_eqb_refl. reflexivity.
    + cbn [length] in Lb.
      replace (Nat.eqb (length s1) (length b)) with false by (symmetry; apply Nat.eqb_neq; lia).
      replace (Nat.leb (length b) (length s1)) with false by (symmetry; apply Nat.leb_gt; lia).
      assert (nth_error b (length s1) = Some c) as -> by (rewrite Eb, nth_error_app2, Nat.sub_diag by lia; reflexivity).
      cbn [look]. symmetry. apply bytes_eqb_neq. intros C. apply (f_equal (@length Z)) in C. lia.
  - set (strs := s1 :: s2 :: tl) in *.
    assert (new_node (S f) strs =
            PT (fst (split_prefix strs)) (has_empty (snd (split_prefix strs)))
               (map (fun kv => (fst kv, new_node f (snd kv))) (groups (snd (split_prefix strs))))) as -> by reflexivity.
    pose proof (split_prefix_spec strs) as SP.
    set (p := fst (split_prefix strs)) in *. set (rest := snd (split_prefix strs)) in *.
    rewrite pt_match_unfold. cbv zeta. rewrite prefix_check.
    destruct (is_prefix p b) eqn:EP; cbn [negb].
    2:{ rewrite SP. symmetry. now apply any_equal_not_prefix. }
    pose proof (is_prefix_split _ _ EP) as Eb. set (b' := skipn (length p) b) in *.
    assert (any_equal strs b = any_equal rest b') as ->.
    { rewrite SP, Eb. apply any_equal_map_app. }
    cbn [orb].
    assert (length b = (length p + length b')%nat) as Lb by (rewrite Eb, app_length; reflexivity).
    replace (Nat.min (length p) (length b)) with (length p) by lia.
    destruct b' as [|c b''] eqn:Eb'.
    { cbn [length] in Lb. replace (Nat.eqb (length p) (length b)) with true by (symmetry; apply Nat.eqb_eq; lia).
      rewrite andb_true_r, any_equal_nil.
      destruct (has_empty rest); [reflexivity|].
      replace (Nat.leb (length b) (length p)) with true by (symmetry; apply Nat.leb_le; lia). reflexivity. }
    cbn [length] in Lb.
    replace (Nat.eqb (length p) (length b)) with false by (symmetry; apply Nat.eqb_neq; lia).
    rewrite andb_false_r.
    replace (Nat.leb (length b) (length p)) with false by (symmetry; apply Nat.leb_gt; lia).
    assert (nth_error b (length p) = Some c) as ->.
    { rewrite Eb, nth_error_app2, Nat.sub_diag by lia. reflexivity. }
    assert (skipn (S (length p)) b = b'') as ->.
    { rewrite Eb. replace (S (length p)) with (length p + 1)%nat by lia.
      rewrite skipn_app, skipn_all2 by lia. replace (length p + 1 - length p)%nat with 1%nat by lia. reflexivity. }
    rewrite (look_map c b'' false (new_node f)), assoc_groups.
    rewrite (any_equal_tails c b'' rest).
    destruct (tails_of c rest) as [|t0 ts] eqn:ET; [reflexivity|].
    rewrite <- ET. apply IH.
    + rewrite ET; discriminate.
    + assert (tails_of c rest <> []) as NT by (rewrite ET; discriminate).
      pose proof (max_len_tails c rest NT). pose proof (max_len_map_app p rest). rewrite <- SP in H0. lia.
Qed.

Theorem ptree_match_exact_is_member : forall strs b,
  strs <> [] -> pt_match (new_tree strs) b false = any_equal strs b.
Proof.
  intros strs b NE. unfold new_tree, max_depth. apply new_node_match_exact; [exact NE | lia].
Qed.

(* the oracle of the tree stream accepts the model *)
Lemma ptree_empty_exact b : pt_match (new_tree []) b false = is_nil b.
Proof.
  unfold new_tree. cbn [new_node max_depth]. rewrite pt_match_unfold. cbv zeta.
  destruct b as [|c b]; reflexivity.
Qed.

Theorem ptree_model_passes : forall strs inputs, ok_ptree strs inputs (run_ptree strs inputs) = true.
Proof.
  intros strs inputs. unfold ok_ptree, run_ptree. rewrite map_length, Nat.eqb_refl. cbn [andb].
  apply forallb_forall. intros [i [p e]] Hin. cbn [fst snd].
  assert (p = pt_match (new_tree strs) i true /\ e = pt_match (new_tree strs) i false) as [-> ->].
  { clear -Hin. induction inputs as [|x xs IH]; simpl in Hin; [tauto|].
    destruct Hin as [H|H]; [inversion H; split; reflexivity | now apply IH]. }
  destruct strs as [|s strs].
  - fold (tree_match_prefix [] i). rewrite ptree_empty_matches_all, ptree_empty_exact.
    cbn [is_nil orb]. now rewrite !eqb_reflx.
  - fold (tree_match_prefix (s :: strs) i).
    rewrite ptree_match_is_prefix_exists, ptree_match_exact_is_member by discriminate.
    cbn [is_nil orb]. now rewrite !eqb_reflx.
Qed.
