(* C09 — from Go's bit operations to arithmetic *)
From Coq Require Import ZArith List Bool Lia ZifyBool.
From V Require Import Bytes C09TsFrame C09TsWriter.
Import ListNotations.
Open Scope Z_scope.
Ltac Zify.zify_post_hook ::= Z.div_mod_to_equations.

Lemma u8_mod z : u8 z = z mod 256.
Proof. unfold u8. change 255 with (Z.ones 8). rewrite Z.land_ones by lia. reflexivity. Qed.

Lemma land_ones' z k : 0 <= k -> Z.land z (2 ^ k - 1) = z mod 2 ^ k.
Proof. intros. replace (2 ^ k - 1) with (Z.ones k) by (rewrite Z.ones_equiv; lia). apply Z.land_ones; lia. Qed.

Lemma land_7 z : Z.land z 7 = z mod 8.       Proof. exact (land_ones' z 3 ltac:(lia)). Qed.
Lemma land_15 z : Z.land z 15 = z mod 16.    Proof. exact (land_ones' z 4 ltac:(lia)). Qed.
Lemma land_31 z : Z.land z 31 = z mod 32.    Proof. exact (land_ones' z 5 ltac:(lia)). Qed.
Lemma land_32767 z : Z.land z 32767 = z mod 32768. Proof. exact (land_ones' z 15 ltac:(lia)). Qed.

Lemma shiftr_div z k : 0 <= k -> Z.shiftr z k = z / 2 ^ k.
Proof. intros. apply Z.shiftr_div_pow2; lia. Qed.
Lemma shiftl_mul z k : 0 <= k -> Z.shiftl z k = z * 2 ^ k.
Proof. intros. apply Z.shiftl_mul_pow2; lia. Qed.

(* disjoint bits: or = plus *)
Lemma lor_add a b k : 0 <= k -> 0 <= b < 2 ^ k -> Z.lor (a * 2 ^ k) b = a * 2 ^ k + b.
Proof.
  intros Hk Hb.
  assert (H0 : Z.land (a * 2 ^ k) b = 0); [| rewrite <- Z.lxor_lor by exact H0; symmetry; apply Z.add_nocarry_lxor; exact H0].
  apply Z.bits_inj'. intros n Hn. rewrite Z.land_spec, Z.bits_0.
  destruct (Z.ltb_spec n k).
  - rewrite Z.mul_pow2_bits_low by lia. reflexivity.
  - replace b with (b mod 2 ^ k) by (apply Z.mod_small; lia).
    rewrite Z.mod_pow2_bits_high by lia. apply andb_false_r.
Qed.

Lemma lor_add' a b k : 0 <= k -> 0 <= b < 2 ^ k -> Z.lor b (a * 2 ^ k) = a * 2 ^ k + b.
Proof. intros. rewrite Z.lor_comm. apply lor_add; auto. Qed.
