(* C08 — proofs about the FLV/AMF0 model (Model/C08Flv.v, Model/C08Amf0.v) *)
From Coq Require Import ZArith List Bool Lia ZifyBool.
From V Require Import Bytes BytesLemmas C08Amf0 C08Flv.
Import ListNotations.
Open Scope Z_scope.
Ltac Zify.zify_post_hook ::= Z.div_mod_to_equations.

(* D17, pre-fix arithmetic: a key frame at 1000 ms followed by an audio tag at 990 ms is shown
   to the client at 4294967286 ms *)
Definition d17_tags : list tag :=
  [mkTag 9 1000 [23; 1; 0; 0; 0; 0; 0; 0; 1; 101]; mkTag 8 990 [175; 1; 33]].
Lemma flv_ts_wrap_refuted_lemma :
  exists l, option_map (fun r => map p_ts (snd r)) (parse_flv (flv_write_old 5 l)) = Some [0; 4294967286].
Proof. exists d17_tags. vm_compute. reflexivity. Qed.
