(* C08 — proofs about the FLV model (Model/C08Flv.v) *)
From Coq Require Import ZArith List Bool Lia ZifyBool.
From V Require Import Bytes BytesLemmas C08Amf0 C08Flv C08Amf0Proofs.
Import ListNotations.
Open Scope Z_scope.
Ltac Zify.zify_post_hook ::= Z.div_mod_to_equations.

(* D17, pre-fix arithmetic: a key frame at 1000 ms followed by an audio tag at 990 ms is shown
   to the client at 4294967286 ms *)
Definition d17_tags : list tag :=
  [mkTag 9 1000 [23; 1; 0; 0; 0; 0; 0; 0; 1; 101]; mkTag 8 990 [175; 1; 33]].
Lemma flv_ts_wrap_refuted_lemma :
  exists l, option_map (fun r => map p_ts (snd r)) (parse_flv (flv_write_old 5 l)) = Some [0; 4294967286].
Proof. exists d17_tags. vm_compute. reflexivity. Qed.

(* ---------------------------------------------------------------- the writer's bytes parse *)
Definition tag_wf (t : tag) : bool :=
  ((t_type t =? 8) || (t_type t =? 9) || (t_type t =? 18)) && (zlen (t_data t) <? TWO24).

Lemma rd1_cons b r : c08_rd 1 (b :: r) = Some (b, r).
Proof. unfold c08_rd. cbn. unfold be_decode. cbn. repeat f_equal. Qed.

Lemma parse_tags_step t ts f rest :
  tag_wf t = true -> 0 <= ts < TWO32 ->
  parse_tags (S f) (tag_bytes t ts ++ rest) =
  match parse_tags f rest with
  | Some l => Some (mkP (t_type t) ts (t_data t) :: l)
  | None => None
  end.
Proof.
  unfold tag_wf, TWO24, TWO32. intros W R. apply andb_true_iff in W as [Wt Wl].
  pose proof (zlen_nonneg (t_data t)) as L0.
  assert (Wl' : zlen (t_data t) < 16777216) by lia. clear Wl.
  unfold tag_bytes, TWO24, u32, TWO32. rewrite <- !app_assoc. cbn [app parse_tags].
  rewrite c08_rd_app by apply be24_len. rewrite be24_dec by lia.
  rewrite c08_rd_app by apply be24_len. rewrite be24_dec by lia.
  rewrite rd1_cons.
  change (0 :: 0 :: 0 :: t_data t ++ c08_be32 ((11 + zlen (t_data t)) mod 4294967296) ++ rest)
    with ([0; 0; 0] ++ t_data t ++ c08_be32 ((11 + zlen (t_data t)) mod 4294967296) ++ rest).
  rewrite c08_rd_app by reflexivity. change (be_decode [0; 0; 0]) with 0.
  rewrite c08_rdn_app' by lia.
  rewrite c08_rd_app by apply be32_len. rewrite be32_dec by lia.
  change (0 =? 0) with true. cbn [andb].
  replace ((11 + zlen (t_data t)) mod 4294967296 =? 11 + zlen (t_data t) mod 16777216) with true by lia.
  assert (T : t_type t mod 32 = t_type t) by lia. rewrite T. rewrite Wt. cbn [andb].
  unfold TWO24. replace (ts / 16777216 mod 256 * 16777216 + ts mod 16777216) with ts by lia.
  reflexivity.
Qed.

Lemma rebase_range st t : 0 <= snd (rebase st t) < TWO32.
Proof.
  unfold rebase, u32, TWO32. cbn [snd].
  match goal with |- context [if ?c then _ else _] => destruct c end; lia.
Qed.

(* what the client parses: every tag with its rebased timestamp *)
Fixpoint written (st : wstate) (l : list tag) : list ptag :=
  match l with
  | [] => []
  | t :: r => let '(st', ts) := rebase st t in mkP (t_type t) ts (t_data t) :: written st' r
  end.

Lemma parse_write_tags l : forall st fuel,
  (length l <= fuel)%nat -> forallb tag_wf l = true ->
  parse_tags fuel (write_tags st l) = Some (written st l).
Proof.
  induction l as [|t l IH]; intros st fuel Hf W.
  - destruct fuel; reflexivity.
  - destruct fuel; [cbn in Hf; lia|]. cbn [forallb] in W. apply andb_true_iff in W as [Wt Wl].
    cbn [write_tags written]. pose proof (rebase_range st t) as R.
    destruct (rebase st t) as [st' ts]. cbn [snd] in R.
    rewrite parse_tags_step by assumption. rewrite IH by (cbn in Hf; lia || assumption). reflexivity.
Qed.

Lemma write_tags_len l : forall st, (length l <= length (write_tags st l))%nat.
Proof.
  induction l as [|t l IH]; intros st; [cbn; lia|]. cbn [write_tags].
  destruct (rebase st t) as [st' ts]. rewrite app_length. specialize (IH st').
  unfold tag_bytes. rewrite app_length. cbn [length]. lia.
Qed.

Lemma parse_flv_write flags l :
  (flags = 4 \/ flags = 5) -> forallb tag_wf l = true ->
  parse_flv (flv_write flags l) = Some (flags, written w_init l).
Proof.
  intros Hfl W. unfold flv_write, parse_flv.
  change 13 with (zlen (file_header flags)). rewrite c08_rdn_app.
  rewrite parse_write_tags by (apply write_tags_len || assumption).
  destruct Hfl; subst; reflexivity.
Qed.

(* ---------------------------------------------------------------- payloads parse back *)
Lemma video_codec_id_cases c : video_codec_id c = 7 \/ video_codec_id c = 12.
Proof. unfold video_codec_id. destruct (c_hevc c); auto. Qed.

Lemma parse_video_data ft codec pkt cts body :
  (ft = 1 \/ ft = 2) -> (codec = 7 \/ codec = 12) -> (pkt = 0 \/ pkt = 1) -> zlen body < TWO32 ->
  parse_video (video_data ft codec pkt cts body) =
  Some (mkPV ft codec pkt (si24 (cts mod TWO24)) body).
Proof.
  unfold TWO32. intros Hft Hc Hp Hl. pose proof (zlen_nonneg body).
  unfold video_data, parse_video. cbn [app]. rewrite rd1_cons, rd1_cons.
  rewrite c08_rd_app by apply be24_len. unfold TWO24. rewrite be24_dec by lia.
  assert (B : (ft * 16 + codec) mod 256 mod 16 = codec /\ (ft * 16 + codec) mod 256 / 16 = ft) by lia.
  destruct B as [B1 B2]. rewrite B1, B2.
  replace ((codec =? 7) || (codec =? 12)) with true by lia.
  destruct Hp; subst pkt.
  - reflexivity.
  - change (1 =? 0) with false. change (1 =? 1) with true. cbv iota.
    rewrite c08_rd_app by apply be32_len. unfold u32, TWO32. rewrite be32_dec by lia.
    rewrite Z.mod_small by lia. rewrite Z.eqb_refl. reflexivity.
Qed.

Lemma audio_flags_range c : 160 <= audio_flags c < 176.
Proof.
  unfold audio_flags, sound_rate.
  repeat match goal with |- context [if ?b then _ else _] => destruct b end; lia.
Qed.

Lemma parse_audio_data c pk body :
  parse_audio ([audio_flags c; pk] ++ body) = Some (audio_flags c mod 16, pk, body).
Proof.
  unfold parse_audio. cbn [app]. rewrite rd1_cons, rd1_cons.
  pose proof (audio_flags_range c). replace (audio_flags c / 16 =? 10) with true by lia. reflexivity.
Qed.

Lemma parse_avcc_shape p cc l sps pps :
  zlen sps < 65536 -> zlen pps < 65536 ->
  parse_avcc ([1; p; cc; l] ++ [255; 225] ++ c08_be16 (zlen sps mod 65536) ++ sps ++
              [1] ++ c08_be16 (zlen pps mod 65536) ++ pps) = Some ([p; cc; l], sps, pps).
Proof.
  intros Hs Hp. pose proof (zlen_nonneg sps). pose proof (zlen_nonneg pps).
  unfold parse_avcc.
  rewrite (c08_rdn_app' 4 [1; p; cc; l]) by reflexivity. cbn [app]. rewrite rd1_cons, rd1_cons.
  rewrite c08_rd_app by apply be16_len. rewrite be16_dec by lia. rewrite Z.mod_small by lia.
  rewrite c08_rdn_app. rewrite rd1_cons.
  rewrite c08_rd_app by apply be16_len. rewrite be16_dec by lia. rewrite Z.mod_small by lia.
  rewrite <- (app_nil_r pps) at 2. rewrite c08_rdn_app. reflexivity.
Qed.

Lemma parse_avcc_ok sps pps r :
  avcc sps pps = Some r -> zlen sps < 65536 -> zlen pps < 65536 ->
  parse_avcc r = Some (firstn 3 (skipn 1 sps), sps, pps).
Proof.
  intros A Hs Hp. unfold avcc in A.
  destruct sps as [|s0 [|p [|cc [|l sps']]]]; try discriminate.
  inversion A as [A']. clear A A'.
  exact (parse_avcc_shape p cc l (s0 :: p :: cc :: l :: sps') pps Hs Hp).
Qed.

Lemma parse_hvcc_array_ok ty d r :
  (ty = 32 \/ ty = 33 \/ ty = 34) -> zlen d < 65536 ->
  parse_hvcc_array ty (hvcc_array ty d ++ r) = Some (d, r).
Proof.
  intros Ht Hd. pose proof (zlen_nonneg d). unfold hvcc_array, parse_hvcc_array. rewrite <- !app_assoc.
  cbn [app]. rewrite rd1_cons.
  change (0 :: 1 :: c08_be16 (zlen d mod 65536) ++ d ++ r) with ([0; 1] ++ c08_be16 (zlen d mod 65536) ++ d ++ r).
  rewrite c08_rd_app by reflexivity. change (be_decode [0; 1]) with 1.
  rewrite c08_rd_app by apply be16_len. rewrite be16_dec by lia. rewrite (Z.mod_small (zlen d)) by lia.
  replace (ty mod 64) with ty by lia. rewrite Z.eqb_refl. change (1 =? 1) with true. cbn [andb].
  apply c08_rdn_app.
Qed.

Local Opaque hvcc_array.
Lemma parse_hvcc_ok o vps sps pps r :
  hvcc o vps sps pps = Some r -> hvcc_fixed_ok o = true ->
  zlen vps < 65536 -> zlen sps < 65536 -> zlen pps < 65536 ->
  parse_hvcc r = Some (o, vps, sps, pps).
Proof.
  intros A F Hv Hs Hp. unfold hvcc in A. destruct (Nat.eqb_spec (length o) 21) as [L|L]; [|discriminate].
  inversion A as [A']. clear A A'. unfold parse_hvcc.
  change ([1] ++ o ++ [3] ++ hvcc_array 32 vps ++ hvcc_array 33 sps ++ hvcc_array 34 pps)
    with (1 :: o ++ 3 :: hvcc_array 32 vps ++ hvcc_array 33 sps ++ hvcc_array 34 pps).
  rewrite rd1_cons.
  rewrite c08_rdn_app' by (unfold zlen; lia).
  rewrite rd1_cons.
  rewrite parse_hvcc_array_ok by (auto || assumption).
  rewrite parse_hvcc_array_ok by (auto || assumption).
  rewrite <- (app_nil_r (hvcc_array 34 pps)). rewrite parse_hvcc_array_ok by (auto || assumption).
  rewrite F. reflexivity.
Qed.
Local Transparent hvcc_array.

(* ---------------------------------------------------------------- the muxer's tags *)
(* the one tag of a frame that produces a tag *)
Definition media_tag (c : cfg) (f : frame) : tag :=
  if f_kind f =? 0 then
    mkTag 9 (u32 (ms_of (f_dts f)))
      (video_data (if is_key (c_hevc c) (nth_byte (f_data f) 0) then 1 else 2) (video_codec_id c) 1
                  (u32 (ms_of (f_pts f) - ms_of (f_dts f))) (f_data f))
  else mkTag 8 (u32 (ms_of (f_pts f))) ([audio_flags c; 1] ++ f_data f).

Lemma mux_frames_live c fs : mux_frames c fs = map (media_tag c) (live_frames c fs).
Proof.
  induction fs as [|f fs IH]; [reflexivity|].
  cbn [mux_frames live_frames]. unfold packetize, kills, emits.
  destruct (f_kind f =? 0) eqn:K0.
  - destruct (f_data f) as [|b d] eqn:D; [reflexivity|].
    cbn [andb orb map app]. rewrite <- IH. f_equal. unfold media_tag. rewrite K0, D. reflexivity.
  - cbn [andb orb]. destruct (f_kind f =? 1) eqn:K1; cbn [andb].
    + destruct (c_aac c); cbn [map app]; [|assumption].
      rewrite <- IH. f_equal. unfold media_tag. rewrite K0. reflexivity.
    + assumption.
Qed.

Lemma live_frames_in c fs f : In f (live_frames c fs) -> In f fs /\ emits c f = true.
Proof.
  induction fs as [|g fs IH]; cbn [live_frames]; [intros []|].
  destruct (kills g); [intros []|]. destruct (emits c g) eqn:E.
  - intros [<-|H]; [split; [now left|assumption]|]. destruct (IH H). split; [now right|assumption].
  - intros H. destruct (IH H). split; [now right|assumption].
Qed.

Lemma media_tag_not_config c f : is_config (media_tag c f) = false.
Proof.
  unfold is_config, media_tag. destruct (f_kind f =? 0).
  - unfold is_metadata, is_vseq, is_aseq. cbn [t_type t_data]. change (9 =? 18) with false.
    change (9 =? 8) with false. cbn [andb orb]. unfold video_data, nth_byte. cbn [app nth].
    change (1 =? 0) with false. now rewrite !andb_false_r.
  - unfold is_metadata, is_vseq, is_aseq. cbn [t_type t_data]. change (8 =? 18) with false.
    change (8 =? 9) with false. cbn [andb orb]. unfold nth_byte. cbn [app nth].
    change (1 =? 0) with false. now rewrite !andb_false_r.
Qed.

Lemma zlen_cons {A} (a : A) l : Z.of_nat (length (a :: l)) = 1 + Z.of_nat (length l).
Proof. cbn [length]. lia. Qed.

Lemma media_tag_wf c f : frame_wf c f = true -> tag_wf (media_tag c f) = true.
Proof.
  unfold frame_wf, tag_wf, media_tag, TWO24. intros W.
  apply andb_true_iff in W as [W _]. apply andb_true_iff in W as [W _]. apply andb_true_iff in W as [_ W].
  pose proof (zlen_nonneg (f_data f)).
  destruct (f_kind f =? 0); cbn [t_type t_data].
  - change (9 =? 8) with false. change (9 =? 9) with true. cbn [orb andb].
    unfold video_data. change (1 =? 1) with true. cbv iota. unfold zlen in *.
    rewrite !app_length, be24_len, be32_len. cbn [length]. lia.
  - change (8 =? 8) with true. cbn [orb andb]. unfold zlen in *. rewrite app_length. cbn [length]. lia.
Qed.

Lemma media_tag_ts c f : frame_wf c f = true -> emits c f = true -> t_ts (media_tag c f) = u32 (frame_ms f).
Proof.
  unfold frame_wf, media_tag, frame_ms, emits. intros W E. apply andb_true_iff in W as [_ W].
  destruct (f_kind f =? 0) eqn:K0; [reflexivity|]. cbn [t_ts orb] in *.
  destruct (f_kind f =? 1) eqn:K1; [|discriminate].
  apply Z.eqb_eq in W. now rewrite W.
Qed.

Lemma si24_cts d : -8388608 <= d < 8388608 -> si24 (u32 d mod TWO24) = d.
Proof. unfold si24, u32, TWO24, TWO32. intros. destruct (Z.leb_spec 8388608 ((d mod 4294967296) mod 16777216)); lia. Qed.

Lemma media_tag_ok c f ts :
  frame_wf c f = true -> emits c f = true ->
  media_ok c f (mkP (t_type (media_tag c f)) ts (t_data (media_tag c f))) = true.
Proof.
  unfold frame_wf, emits, media_ok, media_tag, kills, TWO24. intros W E.
  apply andb_true_iff in W as [W _]. apply andb_true_iff in W as [W Wk]. apply andb_true_iff in W as [_ W].
  pose proof (zlen_nonneg (f_data f)).
  destruct (f_kind f =? 0) eqn:K0; cbn [p_type p_data t_type t_data].
  - change (9 =? 9) with true. cbn [andb].
    rewrite parse_video_data.
    + cbn [v_codec v_pkt v_body v_frametype v_cts]. rewrite !Z.eqb_refl, bytes_eqb_refl. cbn [andb].
      destruct (is_key (c_hevc c) (nth_byte (f_data f) 0)); rewrite ?Z.eqb_refl; cbn [andb];
      match goal with |- (if ?b then _ else _) = true => destruct b eqn:R end; try reflexivity;
      rewrite si24_cts by lia; apply Z.eqb_refl.
    + destruct (is_key (c_hevc c) (nth_byte (f_data f) 0)); auto.
    + apply video_codec_id_cases.
    + auto.
    + unfold TWO32. lia.
  - change (8 =? 8) with true. cbn [andb]. rewrite parse_audio_data.
    rewrite !Z.eqb_refl, bytes_eqb_refl. reflexivity.
Qed.

(* ---------------------------------------------------------------- time rebasing *)
Lemma s32_step a b : - TWO31 <= a - b < TWO31 -> s32 (u32 a - u32 b) = a - b.
Proof.
  unfold s32, u32, TWO31, TWO32. intros H.
  destruct (Z.leb_spec 2147483648 ((a mod 4294967296 - b mod 4294967296) mod 4294967296)); lia.
Qed.

Lemma clamp_spec x : (if 0 <? x then u32 x else 0) = u32 (Z.max 0 x).
Proof. destruct (Z.ltb_spec 0 x); [now rewrite Z.max_r by lia|now rewrite Z.max_l by lia]. Qed.

Lemma rebase_media c f prev e :
  frame_wf c f = true -> emits c f = true -> - TWO31 <= frame_ms f - prev < TWO31 ->
  rebase (mkW true (u32 prev) e) (media_tag c f) =
  (mkW true (u32 (frame_ms f)) (e + (frame_ms f - prev)), u32 (Z.max 0 (e + (frame_ms f - prev)))).
Proof.
  intros W E S. unfold rebase. rewrite media_tag_not_config. cbn [w_started w_last w_elapsed].
  rewrite media_tag_ts by assumption. rewrite s32_step by assumption. now rewrite clamp_spec.
Qed.

Lemma rebase_media_first c f :
  frame_wf c f = true -> emits c f = true ->
  rebase w_init (media_tag c f) = (mkW true (u32 (frame_ms f)) 0, 0).
Proof.
  intros W E. unfold rebase, w_init. rewrite media_tag_not_config. cbn [w_started w_last w_elapsed].
  rewrite media_tag_ts by assumption. rewrite Z.sub_diag. reflexivity.
Qed.

Lemma media_run_ok c t1 : forall l prev e,
  (forall f, In f l -> frame_wf c f = true /\ emits c f = true) ->
  steps_ok prev l = true -> e = prev - t1 ->
  media_all_ok c t1 l (written (mkW true (u32 prev) e) (map (media_tag c) l)) = true.
Proof.
  induction l as [|f l IH]; intros prev e Hall S He; [reflexivity|].
  destruct (Hall f (or_introl eq_refl)) as [W E].
  cbn [steps_ok] in S. apply andb_true_iff in S as [S0 S]. apply andb_true_iff in S0 as [Sa Sb].
  cbn [map written]. rewrite rebase_media by (assumption || lia).
  cbn [media_all_ok]. rewrite media_tag_ok by assumption. cbn [andb].
  unfold ts_ok, spec_ts. cbn [p_ts]. replace (e + (frame_ms f - prev)) with (frame_ms f - t1) by lia.
  rewrite Z.eqb_refl. cbn [andb].
  apply IH; [intros g Hg; apply Hall; now right|assumption|reflexivity].
Qed.

Lemma media_run_init c l :
  (forall f, In f l -> frame_wf c f = true /\ emits c f = true) ->
  steps_ok (first_ms l) l = true ->
  media_all_ok c (first_ms l) l (written w_init (map (media_tag c) l)) = true.
Proof.
  destruct l as [|f l]; intros Hall S; [reflexivity|].
  destruct (Hall f (or_introl eq_refl)) as [W E].
  cbn [first_ms] in *. cbn [steps_ok] in S. apply andb_true_iff in S as [_ S].
  cbn [map written]. rewrite rebase_media_first by assumption.
  cbn [media_all_ok]. rewrite media_tag_ok by assumption. cbn [andb].
  unfold ts_ok, spec_ts. cbn [p_ts]. rewrite Z.sub_diag. change (0 =? u32 (Z.max 0 0)) with true. cbn [andb].
  apply media_run_ok; [intros g Hg; apply Hall; now right|assumption|lia].
Qed.

(* ---------------------------------------------------------------- configuration tags *)
Definition venc_len (v : amfv) : Z :=
  match v with
  | ANum _ => 9
  | ABool _ => 2
  | AStr s => if 65535 <? zlen s then 5 + zlen s else 3 + zlen s
  end.
Fixpoint props_len (l : list amf_prop) : Z :=
  match l with [] => 0 | (n, v) :: r => 2 + zlen n + venc_len v + props_len r end.

Lemma amf_enc_len v : zlen (amf_enc v) = venc_len v.
Proof.
  destruct v as [b|b|s]; cbn [amf_enc venc_len]; [reflexivity|reflexivity|].
  destruct (65535 <? zlen s); unfold zlen, amf_utf8; cbn [length]; rewrite !app_length;
  rewrite ?be32_len, ?be16_len; lia.
Qed.

Lemma amf_enc_props_zlen l : zlen (amf_enc_props l) = props_len l.
Proof.
  induction l as [|[n v] l IH]; [reflexivity|]. cbn [amf_enc_props props_len].
  rewrite !zlen_app, IH, amf_enc_len. unfold amf_utf8. rewrite zlen_app. unfold zlen at 1. rewrite be16_len. lia.
Qed.

Lemma script_enc_zlen name props : zlen (script_enc name props) = 11 + zlen name + props_len props.
Proof.
  unfold script_enc, amf_enc_ecma, amf_utf8. unfold zlen. cbn [length app].
  rewrite !app_length. cbn [length]. rewrite !app_length. rewrite ?be32_len, ?be16_len. cbn [length].
  pose proof (amf_enc_props_zlen props) as P. unfold zlen in P. lia.
Qed.

Lemma zl_onMetaData : zlen s_onMetaData = 10. Proof. reflexivity. Qed.
Lemma zl_creator : zlen s_creator = 7. Proof. reflexivity. Qed.
Lemma zl_creator_val : zlen s_creator_val = 26. Proof. reflexivity. Qed.
Lemma zl_creationdate : zlen s_creationdate = 12. Proof. reflexivity. Qed.
Lemma zl_audiocodecid : zlen s_audiocodecid = 12. Proof. reflexivity. Qed.
Lemma zl_audiodatarate : zlen s_audiodatarate = 13. Proof. reflexivity. Qed.
Lemma zl_audiosamplerate : zlen s_audiosamplerate = 15. Proof. reflexivity. Qed.
Lemma zl_audiosamplesize : zlen s_audiosamplesize = 15. Proof. reflexivity. Qed.
Lemma zl_stereo : zlen s_stereo = 6. Proof. reflexivity. Qed.
Lemma zl_videocodecid : zlen s_videocodecid = 12. Proof. reflexivity. Qed.
Lemma zl_videodatarate : zlen s_videodatarate = 13. Proof. reflexivity. Qed.
Lemma zl_framerate : zlen s_framerate = 9. Proof. reflexivity. Qed.
Lemma zl_width : zlen s_width = 5. Proof. reflexivity. Qed.
Lemma zl_height : zlen s_height = 6. Proof. reflexivity. Qed.
#[local] Hint Rewrite zl_onMetaData zl_creator zl_creator_val zl_creationdate zl_audiocodecid zl_audiodatarate
  zl_audiosamplerate zl_audiosamplesize zl_stereo zl_videocodecid zl_videodatarate zl_framerate zl_width
  zl_height : c08names.

Local Opaque f64_of_Z.

Lemma num_wf n : int_wf n = true -> amfv_wf (ANum (f64_of_Z n)) = true.
Proof. unfold int_wf. intros H. cbn [amfv_wf]. pose proof (f64_of_Z_range n). lia. Qed.

Lemma int_wf_codec c : int_wf (video_codec_id c) = true.
Proof. unfold video_codec_id. destruct (c_hevc c); reflexivity. Qed.

Ltac split_wf H :=
  unfold cfg_wf in H;
  repeat match type of H with (_ && _) = true => let H' := fresh "W" in apply andb_true_iff in H as [H H'] end.

Lemma meta_props_wf c : cfg_wf c = true -> forallb amf_prop_wf (meta_props c) = true.
Proof.
  intros H. split_wf H. unfold bits_wf in *.
  pose proof (num_wf _ (int_wf_codec c)). pose proof (num_wf 10 eq_refl).
  repeat match goal with HH : int_wf ?n = true |- _ => apply num_wf in HH end.
  pose proof (zlen_nonneg (c_date c)).
  unfold meta_props. destruct (c_aac c); cbn [app forallb]; unfold amf_prop_wf; cbn [fst snd];
  autorewrite with c08names;
  repeat match goal with HH : amfv_wf _ = true |- _ => rewrite HH; clear HH end;
  cbn [amfv_wf]; autorewrite with c08names; lia.
Qed.

Lemma meta_props_len c : cfg_wf c = true -> props_len (meta_props c) < 600 + zlen (c_date c).
Proof.
  intros H. pose proof (zlen_nonneg (c_date c)).
  unfold meta_props. destruct (c_aac c); cbn [app props_len venc_len]; autorewrite with c08names;
  change (65535 <? 26) with false; cbv iota;
  destruct (65535 <? zlen (c_date c)); lia.
Qed.


Lemma amf_prop_eqb_refl p : amf_prop_eqb p p = true.
Proof.
  destruct p as [n v]. unfold amf_prop_eqb. cbn [fst snd]. rewrite bytes_eqb_refl.
  destruct v as [b|b|s]; cbn [amfv_eqb andb]; [apply Z.eqb_refl|destruct b; reflexivity|apply bytes_eqb_refl].
Qed.

Lemma meta_props_ok c : props_ok (meta_props c) (meta_props c) = true.
Proof.
  unfold meta_props. destruct (c_aac c); cbn [app props_ok fst snd];
  repeat match goal with
  | |- context [bytes_eqb ?a ?b] =>
      first [ change (bytes_eqb a b) with false | change (bytes_eqb a b) with true ]
  end; cbv iota; rewrite ?amf_prop_eqb_refl; reflexivity.
Qed.

Lemma meta_tag_ok c : cfg_wf c = true -> meta_ok c (mkP 18 0 (t_data (meta_tag c))) = true.
Proof.
  intros H. unfold meta_ok, meta_tag. cbn [p_type p_ts p_data t_data].
  change (18 =? 18) with true. change (0 =? 0) with true. cbn [andb].
  rewrite amf0_roundtrip_lemma.
  - rewrite bytes_eqb_refl, meta_props_ok. reflexivity.
  - reflexivity.
  - unfold meta_props. destruct (c_aac c); cbn [app length]; lia.
  - now apply meta_props_wf.
Qed.

Lemma meta_tag_wf c : cfg_wf c = true -> tag_wf (meta_tag c) = true.
Proof.
  intros H. pose proof (meta_props_len c H). split_wf H.
  unfold tag_wf, meta_tag. cbn [t_type t_data]. change (18 =? 18) with true. rewrite orb_true_r. cbn [andb].
  rewrite script_enc_zlen. autorewrite with c08names. unfold TWO24. lia.
Qed.

Lemma meta_tag_config c : is_config (meta_tag c) = true.
Proof. reflexivity. Qed.

Lemma vseq_tag_facts c v :
  cfg_wf c = true -> vseq_tag c = Some v ->
  is_config v = true /\ tag_wf v = true /\ vseq_ok c (mkP (t_type v) 0 (t_data v)) = true.
Proof.
  intros H V. unfold vseq_tag in V.
  destruct (if c_hevc c then hvcc (c_hvcc c) (c_vps c) (c_sps c) (c_pps c) else avcc (c_sps c) (c_pps c))
    as [rec|] eqn:R; [|discriminate].
  injection V as <-. split_wf H. unfold TWO24 in *.
  pose proof (zlen_nonneg (c_sps c)). pose proof (zlen_nonneg (c_pps c)). pose proof (zlen_nonneg (c_vps c)).
  assert (RL : zlen rec < 200000).
  { destruct (c_hevc c).
    - unfold hvcc in R. destruct (Nat.eqb_spec (length (c_hvcc c)) 21); [|discriminate]. injection R as <-.
      unfold hvcc_array, zlen in *. cbn [app length]. repeat (rewrite ?app_length, ?be16_len; cbn [length]). lia.
    - unfold avcc in R. destruct (c_sps c) as [|? [|? [|? [|? sps']]]] eqn:SP; try discriminate. injection R as <-.
      unfold zlen in *. cbn [length] in *. cbn [app length]. repeat (rewrite ?app_length, ?be16_len; cbn [length]). lia. }
  pose proof (zlen_nonneg rec).
  assert (DL : zlen (video_data 1 (video_codec_id c) 0 0 rec) = 5 + zlen rec).
  { unfold video_data, zlen. change (0 =? 1) with false. cbv iota. cbn [app length].
    rewrite app_length, be24_len. cbn [length]. lia. }
  repeat split.
  - unfold is_config, is_vseq. cbn [t_type t_data]. rewrite DL.
    unfold video_data, nth_byte. cbn [app nth]. unfold video_codec_id.
    replace (2 <=? 5 + zlen rec) with true by lia.
    destruct (c_hevc c); cbn; rewrite ?orb_true_r; reflexivity.
  - unfold tag_wf. cbn [t_type t_data]. rewrite DL. change (9 =? 9) with true. rewrite orb_true_r.
    cbn [orb andb]. unfold TWO24. lia.
  - unfold vseq_ok. cbn [p_type p_ts p_data t_type t_data].
    rewrite parse_video_data by (auto || apply video_codec_id_cases || (unfold TWO32; lia)).
    cbn [v_frametype v_codec v_pkt v_cts v_body]. rewrite !Z.eqb_refl.
    change (si24 (0 mod TWO24)) with 0. change (0 =? 0) with true. change (9 =? 9) with true. cbn [andb].
    destruct (c_hevc c).
    + match goal with HH : _ && hvcc_fixed_ok _ = true |- _ => apply andb_true_iff in HH as [? F] end.
      rewrite (parse_hvcc_ok _ _ _ _ _ R) by (assumption || lia). now rewrite !bytes_eqb_refl.
    + rewrite (parse_avcc_ok _ _ _ R) by lia. now rewrite !bytes_eqb_refl.
Qed.

Lemma aseq_tag_facts c :
  cfg_wf c = true ->
  is_config (aseq_tag c) = true /\ tag_wf (aseq_tag c) = true /\
  aseq_ok c (mkP 8 0 (t_data (aseq_tag c))) = true.
Proof.
  intros H. split_wf H. pose proof (audio_flags_range c). pose proof (zlen_nonneg (c_asc c)).
  unfold aseq_tag. repeat split.
  - unfold is_config, is_aseq. cbn [t_type t_data]. unfold nth_byte, zlen. cbn [app length nth].
    replace (audio_flags c / 16 =? 10) with true by lia.
    replace (2 <=? Z.of_nat (S (S (length (c_asc c))))) with true by lia.
    cbn. rewrite ?orb_true_r. reflexivity.
  - unfold tag_wf. cbn [t_type t_data]. unfold zlen in *. cbn [app length]. unfold TWO24 in *.
    change (8 =? 8) with true. cbn [orb andb]. lia.
  - unfold aseq_ok. cbn [p_type p_ts p_data t_data]. rewrite parse_audio_data.
    now rewrite !Z.eqb_refl, bytes_eqb_refl.
Qed.

(* ---------------------------------------------------------------- assembly *)
Lemma in_skipn {A} (x : A) k : forall l, In x (skipn k l) -> In x l.
Proof. induction k as [|k IH]; intros [|a l] H; cbn in *; auto. Qed.

Lemma filter_media_config c l : filter is_config (map (media_tag c) l) = [].
Proof. induction l as [|f l IH]; [reflexivity|]. cbn [map filter]. now rewrite media_tag_not_config. Qed.
Lemma filter_media_media c l :
  filter (fun t => negb (is_config t)) (map (media_tag c) l) = map (media_tag c) l.
Proof. induction l as [|f l IH]; [reflexivity|]. cbn [map filter]. rewrite media_tag_not_config. cbn [negb]. now rewrite IH. Qed.

Definition as_config (t : tag) : ptag := mkP (t_type t) 0 (t_data t).

Lemma written_configs t0 cfgs rest :
  forallb is_config cfgs = true ->
  written w_init (map (restamp t0) cfgs ++ rest) = map as_config cfgs ++ written w_init rest.
Proof.
  induction cfgs as [|t l IH]; intros H; [reflexivity|].
  cbn [forallb] in H. apply andb_true_iff in H as [Ht Hl].
  cbn [map app written]. unfold rebase at 1.
  change (is_config (restamp t0 t)) with (is_config t). rewrite Ht.
  cbn [w_elapsed w_init]. change (0 <? 0) with false. cbv iota.
  rewrite IH by assumption. reflexivity.
Qed.

Lemma tag_wf_restamp t0 t : tag_wf (restamp t0 t) = tag_wf t.
Proof. reflexivity. Qed.

Lemma vseq_exists c : cfg_wf c = true -> exists v, vseq_tag c = Some v.
Proof.
  intros H. split_wf H. unfold vseq_tag. destruct (c_hevc c).
  - match goal with HH : _ && hvcc_fixed_ok _ = true |- _ => apply andb_true_iff in HH as [L F] end.
    unfold hvcc. rewrite L. eauto.
  - unfold avcc. destruct (c_sps c) as [|? [|? [|? [|? ?]]]]; unfold zlen in *; cbn [length] in *; try lia; eauto.
Qed.

Lemma live_all c fs k :
  forallb (frame_wf c) fs = true ->
  forall f, In f (skipn k (live_frames c fs)) -> frame_wf c f = true /\ emits c f = true.
Proof.
  intros W f H. apply in_skipn in H. apply live_frames_in in H as [H E]. split; [|assumption].
  rewrite forallb_forall in W. now apply W.
Qed.

Lemma forallb_media_wf c l :
  (forall f, In f l -> frame_wf c f = true /\ emits c f = true) ->
  forallb tag_wf (map (media_tag c) l) = true.
Proof.
  intros H. apply forallb_forall. intros t Ht. apply in_map_iff in Ht as [f [<- Hf]].
  apply media_tag_wf. now apply H.
Qed.

Definition tags_ok_body (c : cfg) (fs : list frame) (k : nat) (ps : list ptag) : bool :=
  match ps with
  | m :: ps1 =>
      meta_ok c m &&
      (if vseq_dies c then match ps1 with [] => true | _ => false end
       else
         match ps1 with
         | v :: ps2 =>
             vseq_ok c v &&
             (if c_aac c then
                match ps2 with
                | a :: ps3 => aseq_ok c a &&
                              let live := skipn k (live_frames c fs) in
                              media_all_ok c (first_ms live) live ps3 || media_all_ok c 0 live ps3
                | [] => false
                end
              else
                let live := skipn k (live_frames c fs) in
                media_all_ok c (first_ms live) live ps2 || media_all_ok c 0 live ps2)
         | [] => false
         end)
  | [] => false
  end.

Lemma tags_ok_nonempty c fs k ps :
  fs <> [] -> sets_known c = true -> tags_ok c fs k ps = tags_ok_body c fs k ps.
Proof. intros NE K. destruct fs; [congruence|]. unfold tags_ok. rewrite K. reflexivity. Qed.

Lemma cfg_sets_known c : cfg_wf c = true -> sets_known c = true.
Proof.
  unfold cfg_wf. intros H.
  repeat match type of H with (_ && _) = true => let H' := fresh "W" in apply andb_true_iff in H as [H H'] end.
  assumption.
Qed.

Lemma mux_nonempty c fs v :
  fs <> [] -> sets_known c = true -> vseq_tag c = Some v ->
  mux c fs = mux_config c ++ map (media_tag c) (live_frames c fs).
Proof. intros NE K V. destruct fs; [congruence|]. unfold mux. rewrite K, V. now rewrite mux_frames_live. Qed.

Lemma mux_config_filters c v :
  cfg_wf c = true -> vseq_tag c = Some v ->
  filter is_config (mux_config c) = mux_config c /\
  filter (fun t => negb (is_config t)) (mux_config c) = [].
Proof.
  intros C V. destruct (vseq_tag_facts c v C V) as [Vc _]. destruct (aseq_tag_facts c C) as [Ac _].
  unfold mux_config. rewrite V. destruct (c_aac c); cbn [filter]; rewrite meta_tag_config, Vc, ?Ac; auto.
Qed.

Theorem model_passes_lemma c fs k t0 :
  case_wf c fs k = true -> flv_ok c fs k (flv_bytes c fs k t0) = true.
Proof.
  unfold case_wf. intros H. apply andb_true_iff in H as [H S]. apply andb_true_iff in H as [C F].
  unfold flv_bytes, flv_ok.
  assert (FL : type_flags c = 4 \/ type_flags c = 5) by (unfold type_flags; destruct (c_aac c); auto).
  assert (E : fs = [] \/ fs <> []) by (destruct fs; [now left|right; congruence]).
  destruct E as [->|NE].
  - unfold mux, join_tags. cbn [filter map skipn app]. rewrite skipn_nil.
    rewrite parse_flv_write by (assumption || reflexivity). rewrite Z.eqb_refl. reflexivity.
  - destruct (vseq_exists c C) as [v V].
    destruct (vseq_tag_facts c v C V) as [Vc [Vw Vo]].
    destruct (aseq_tag_facts c C) as [Ac [Aw Ao]].
    set (live := skipn k (live_frames c fs)) in *.
    pose proof (live_all c fs k F) as LA. fold live in LA.
    assert (MW := forallb_media_wf c live LA).
    assert (MO := media_run_init c live LA S).
    unfold join_tags. rewrite (mux_nonempty c fs v NE (cfg_sets_known c C) V).
    destruct (mux_config_filters c v C V) as [MF1 MF2].
    rewrite !filter_app, filter_media_config, filter_media_media, app_nil_r, MF1, MF2. cbn [app].
    rewrite skipn_map. fold live.
    unfold mux_config. rewrite V.
    assert (VD : vseq_dies c = false) by (unfold vseq_dies; now rewrite V).
    destruct (c_aac c) eqn:AAC.
    + rewrite parse_flv_write.
      * rewrite Z.eqb_refl. cbn [andb].
        rewrite tags_ok_nonempty by (assumption || now apply cfg_sets_known). unfold tags_ok_body. fold live. rewrite VD, AAC.
        rewrite written_configs by (cbn [forallb]; now rewrite meta_tag_config, Vc, Ac).
        cbn [map app].
        unfold as_config at 1. change (t_type (meta_tag c)) with 18.
        rewrite meta_tag_ok by assumption. cbn [andb].
        unfold as_config at 1. rewrite Vo. cbn [andb].
        unfold as_config. change (t_type (aseq_tag c)) with 8. rewrite Ao. cbn [andb].
        rewrite MO. reflexivity.
      * assumption.
      * rewrite forallb_app. cbn [map forallb]. rewrite !tag_wf_restamp, meta_tag_wf, Vw, Aw, MW by assumption.
        reflexivity.
    + rewrite parse_flv_write.
      * rewrite Z.eqb_refl. cbn [andb].
        rewrite tags_ok_nonempty by (assumption || now apply cfg_sets_known). unfold tags_ok_body. fold live. rewrite VD, AAC.
        rewrite written_configs by (cbn [forallb]; now rewrite meta_tag_config, Vc).
        cbn [map app].
        unfold as_config at 1. change (t_type (meta_tag c)) with 18.
        rewrite meta_tag_ok by assumption. cbn [andb].
        unfold as_config. rewrite Vo. cbn [andb].
        rewrite MO. reflexivity.
      * assumption.
      * rewrite forallb_app. cbn [map forallb]. rewrite !tag_wf_restamp, meta_tag_wf, Vw, MW by assumption.
        reflexivity.
Qed.

(* ---------------------------------------------------------------- named statements *)
(* what a successful parse means: the body is a sequence of tags, each an 11-byte header whose
   DataSize is the payload length, the payload, and a PreviousTagSize equal to 11 + payload *)
Lemma c08_rd_split n s v r : c08_rd n s = Some (v, r) ->
  s = firstn n s ++ r /\ length (firstn n s) = n /\ v = be_decode (firstn n s).
Proof.
  unfold c08_rd. destruct (Nat.ltb_spec (length s) n) as [L|L]; [discriminate|].
  intros E. injection E as <- <-. rewrite firstn_skipn. rewrite firstn_length. repeat split; lia.
Qed.

Lemma c08_rdn_split n s x r : c08_rdn n s = Some (x, r) -> s = x ++ r /\ zlen x = n.
Proof.
  unfold c08_rdn, take, drop, zlen.
  destruct (Z.ltb_spec n 0) as [L|L]; [discriminate|].
  destruct (Z.ltb_spec (Z.of_nat (length s)) n) as [M|M]; [discriminate|]. cbn [orb].
  intros E. injection E as <- <-. rewrite firstn_skipn, firstn_length. split; [reflexivity|lia].
Qed.

Theorem parse_tags_meaning_lemma fuel s p ps :
  parse_tags fuel s = Some (p :: ps) ->
  exists hdr sz rest,
    s = hdr ++ p_data p ++ sz ++ rest /\ length hdr = 11%nat /\ length sz = 4%nat /\
    nth 0 hdr 0 = p_type p /\
    be_decode (firstn 3 (skipn 1 hdr)) = zlen (p_data p) /\
    be_decode sz = 11 + zlen (p_data p) /\
    be_decode (firstn 3 (skipn 8 hdr)) = 0 /\
    parse_tags (pred fuel) rest = Some ps.
Proof.
  destruct s as [|ty r0]; [destruct fuel; discriminate|]. destruct fuel as [|f]; [discriminate|].
  cbn [parse_tags pred].
  destruct (c08_rd 3 r0) as [[ds r1]|] eqn:E1; [|discriminate].
  destruct (c08_rd 3 r1) as [[tlo r2]|] eqn:E2; [|discriminate].
  destruct (c08_rd 1 r2) as [[thi r3]|] eqn:E3; [|discriminate].
  destruct (c08_rd 3 r3) as [[sid r4]|] eqn:E4; [|discriminate].
  destruct (c08_rdn ds r4) as [[data r5]|] eqn:E5; [|discriminate].
  destruct (c08_rd 4 r5) as [[prev r6]|] eqn:E6; [|discriminate].
  destruct ((sid =? 0) && (prev =? 11 + ds) && ((ty =? 8) || (ty =? 9) || (ty =? 18))) eqn:C; [|discriminate].
  destruct (parse_tags f r6) as [l|] eqn:E7; [|discriminate].
  intros E. injection E as <- <-. cbn [p_data p_type].
  apply andb_true_iff in C as [C _]. apply andb_true_iff in C as [C1 C2].
  apply c08_rd_split in E1 as (S1 & L1 & V1). apply c08_rd_split in E2 as (S2 & L2 & V2).
  apply c08_rd_split in E3 as (S3 & L3 & V3). apply c08_rd_split in E4 as (S4 & L4 & V4).
  apply c08_rdn_split in E5 as (S5 & L5). apply c08_rd_split in E6 as (S6 & L6 & V6).
  exists (ty :: firstn 3 r0 ++ firstn 3 r1 ++ firstn 1 r2 ++ firstn 3 r3), (firstn 4 r5), r6.
  repeat split.
  - rewrite S1 at 1. rewrite S2 at 1. rewrite S3 at 1. rewrite S4 at 1. rewrite S5 at 1. rewrite S6 at 1.
    cbn [app]. now rewrite <- !app_assoc.
  - cbn [length]. rewrite !app_length. lia.
  - assumption.
  - cbn [skipn]. rewrite firstn_app, L1, Nat.sub_diag. rewrite (firstn_all2 (firstn 3 r0)) by lia.
    rewrite firstn_O, app_nil_r. lia.
  - lia.
  - rewrite (skipn_cons 7).
    replace (skipn 7 (firstn 3 r0 ++ firstn 3 r1 ++ firstn 1 r2 ++ firstn 3 r3)) with (firstn 3 r3).
    + rewrite (firstn_all2 (firstn 3 r3)) by lia. lia.
    + rewrite skipn_app, L1. rewrite (skipn_all2 (firstn 3 r0)) by lia. cbn [app]. change (7 - 3)%nat with 4%nat.
      rewrite skipn_app, L2. rewrite (skipn_all2 (firstn 3 r1)) by lia. cbn [app]. change (4 - 3)%nat with 1%nat.
      rewrite skipn_app, L3. rewrite (skipn_all2 (firstn 1 r2)) by lia. cbn [app]. change (1 - 1)%nat with 0%nat.
      reflexivity.
  - assumption.
Qed.

(* the rebased timestamps of the media tags a client receives *)
Lemma written_media_ts c t1 : forall l prev e,
  (forall f, In f l -> frame_wf c f = true /\ emits c f = true) ->
  steps_ok prev l = true -> e = prev - t1 ->
  map p_ts (written (mkW true (u32 prev) e) (map (media_tag c) l)) =
  map (fun f => spec_ts t1 (frame_ms f)) l.
Proof.
  induction l as [|f l IH]; intros prev e Hall S He; [reflexivity|].
  destruct (Hall f (or_introl eq_refl)) as [W E].
  cbn [steps_ok] in S. apply andb_true_iff in S as [S0 S]. apply andb_true_iff in S0 as [Sa Sb].
  cbn [map written]. rewrite rebase_media by (assumption || lia). cbn [map p_ts].
  unfold spec_ts at 1. replace (e + (frame_ms f - prev)) with (frame_ms f - t1) by lia. f_equal.
  apply IH; [intros g Hg; apply Hall; now right|assumption|lia].
Qed.

Theorem flv_time_rebased_lemma c l :
  (forall f, In f l -> frame_wf c f = true /\ emits c f = true) ->
  steps_ok (first_ms l) l = true ->
  map p_ts (written w_init (map (media_tag c) l)) =
  map (fun f => u32 (Z.max 0 (frame_ms f - first_ms l))) l.
Proof.
  destruct l as [|f l]; intros Hall S; [reflexivity|].
  destruct (Hall f (or_introl eq_refl)) as [W E].
  cbn [first_ms] in *. cbn [steps_ok] in S. apply andb_true_iff in S as [_ S].
  cbn [map written]. rewrite rebase_media_first by assumption. cbn [map p_ts].
  rewrite Z.sub_diag. change (u32 (Z.max 0 0)) with 0. f_equal.
  apply (written_media_ts c (frame_ms f)); [intros g Hg; apply Hall; now right|assumption|lia].
Qed.

(* consequences in the property's words *)
Lemma spec_ts_older t1 t : t <= t1 -> spec_ts t1 t = 0.
Proof. intros. unfold spec_ts. rewrite Z.max_l by lia. reflexivity. Qed.
Lemma spec_ts_later t1 t : 0 <= t - t1 < TWO32 -> spec_ts t1 t = t - t1.
Proof. unfold spec_ts, u32, TWO32. intros. rewrite Z.max_r by lia. apply Z.mod_small. lia. Qed.

(* key-frame flag <-> NAL type *)
Lemma is_key_h264 b : is_key false b = true <-> b mod 32 = 5.
Proof. unfold is_key, h264_nal_type. lia. Qed.
Lemma is_key_h265 b : is_key true b = true <-> 16 <= (b / 2) mod 64 <= 21.
Proof. unfold is_key, h265_nal_type. lia. Qed.

Theorem flv_video_faithful_lemma c f :
  frame_wf c f = true -> f_kind f = 0 ->
  let d := ms_of (f_pts f) - ms_of (f_dts f) in
  t_type (media_tag c f) = 9 /\
  parse_video (t_data (media_tag c f)) =
    Some (mkPV (if is_key (c_hevc c) (nth_byte (f_data f) 0) then 1 else 2) (video_codec_id c) 1
               (si24 (u32 d mod TWO24)) (f_data f)) /\
  (-8388608 <= d < 8388608 -> si24 (u32 d mod TWO24) = d).
Proof.
  intros W K d. unfold media_tag. rewrite K. change (0 =? 0) with true. cbv iota. cbn [t_type t_data].
  split; [reflexivity|]. split; [|apply si24_cts].
  unfold frame_wf, TWO24 in W. apply andb_true_iff in W as [W _]. apply andb_true_iff in W as [W _].
  apply andb_true_iff in W as [_ W]. pose proof (zlen_nonneg (f_data f)).
  apply parse_video_data; [destruct (is_key _ _); auto|apply video_codec_id_cases|auto|unfold TWO32; lia].
Qed.

Theorem flv_audio_faithful_lemma c f :
  f_kind f <> 0 ->
  t_type (media_tag c f) = 8 /\
  parse_audio (t_data (media_tag c f)) = Some (audio_flags c mod 16, 1, f_data f).
Proof.
  intros K. unfold media_tag. destruct (Z.eqb_spec (f_kind f) 0); [contradiction|]. cbn [t_type t_data].
  split; [reflexivity|apply parse_audio_data].
Qed.

Lemma media_all_ok_len c t1 : forall l ps, media_all_ok c t1 l ps = true -> length ps = length l.
Proof.
  induction l as [|f l IH]; intros [|p ps] H; cbn [media_all_ok] in H; try discriminate; [reflexivity|].
  apply andb_true_iff in H as [_ H]. cbn [length]. f_equal. now apply IH.
Qed.

(* metadata, then the video configuration built from the stream's parameter sets, then the AAC
   configuration, then exactly one tag per media frame *)
Theorem flv_header_order_lemma c fs k t0 :
  case_wf c fs k = true -> fs <> [] ->
  exists m v rest,
    parse_flv (flv_bytes c fs k t0) = Some (type_flags c, m :: v :: rest) /\
    meta_ok c m = true /\ vseq_ok c v = true /\
    (if c_aac c
     then exists a ps, rest = a :: ps /\ aseq_ok c a = true /\
                       length ps = length (skipn k (live_frames c fs))
     else length rest = length (skipn k (live_frames c fs))).
Proof.
  intros H NE. pose proof (model_passes_lemma c fs k t0 H) as OK.
  unfold case_wf in H. apply andb_true_iff in H as [H _]. apply andb_true_iff in H as [C _].
  destruct (vseq_exists c C) as [v0 V].
  assert (VD : vseq_dies c = false) by (unfold vseq_dies; now rewrite V).
  unfold flv_ok in OK. destruct (parse_flv (flv_bytes c fs k t0)) as [[fl ps]|]; [|discriminate].
  apply andb_true_iff in OK as [FL T]. apply Z.eqb_eq in FL. subst fl.
  rewrite tags_ok_nonempty in T by (assumption || now apply cfg_sets_known). unfold tags_ok_body in T. rewrite VD in T.
  destruct ps as [|m [|v rest]]; try discriminate.
  { apply andb_true_iff in T as [_ T]. discriminate. }
  apply andb_true_iff in T as [M T]. apply andb_true_iff in T as [Vo T].
  exists m, v, rest. repeat split; try assumption.
  destruct (c_aac c).
  - destruct rest as [|a ps]; [discriminate|]. apply andb_true_iff in T as [A T].
    exists a, ps. repeat split; try assumption.
    apply orb_true_iff in T as [T|T]; eapply media_all_ok_len; eassumption.
  - apply orb_true_iff in T as [T|T]; eapply media_all_ok_len; eassumption.
Qed.
