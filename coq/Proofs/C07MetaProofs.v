From Coq Require Import ZArith List Bool Lia.
From V Require Import Bytes BytesLemmas C07Meta.
Import ListNotations.
Open Scope Z_scope.

Lemma known_step hevc m nal : sets_known hevc m = true -> meta_update hevc m nal = m.
Proof.
  unfold sets_known. intros H. apply andb_true_iff in H as [H V]. apply andb_true_iff in H as [S P].
  destruct hevc; simpl in *; destruct nal as [|h r]; auto.
  - unfold meta_update265. destruct (m_vps m); [discriminate|]. destruct (m_sps m); [discriminate|]. destruct (m_pps m); [discriminate|].
    simpl. rewrite !andb_false_r. reflexivity.
  - unfold meta_update264. destruct (m_sps m); [discriminate|]. destruct (m_pps m); [discriminate|].
    simpl. rewrite !andb_false_r. reflexivity.
Qed.

(* whatever arrives — truncated, bit-flipped, oversized parameter-set NAL units, anything —
   a stream whose parameter sets are known keeps exactly them *)
Theorem malformed_paramset_does_not_poison hevc : forall nals m,
  sets_known hevc m = true -> meta_run hevc m nals = m.
Proof.
  induction nals as [|n r IH]; intros m K; simpl; auto.
  unfold meta_run in *. simpl. rewrite (known_step hevc m n K). apply IH. exact K.
Qed.

(* a field that is set is never replaced, also while other sets are still missing *)
Theorem set_once_264 m nal :
  (m_sps m <> [] -> m_sps (meta_update264 m nal) = m_sps m) /\
  (m_pps m <> [] -> m_pps (meta_update264 m nal) = m_pps m).
Proof.
  unfold meta_update264. destruct nal as [|h r]; [tauto|].
  split; intros N.
  - destruct (m_sps m) eqn:E; [contradiction|]. simpl. rewrite andb_false_r.
    destruct ((Z.land h 31 =? 8) && is_empty (m_pps m)); simpl; auto.
  - destruct (m_pps m) eqn:E; [contradiction|]. simpl. rewrite andb_false_r.
    destruct ((Z.land h 31 =? 7) && is_empty (m_sps m)); simpl; auto.
Qed.

(* refuted for "follow every in-band set": the stream's SPS cut to 3 bytes replaces the good one *)
Theorem follow_inband_refuted :
  exists m nal, sets_known false m = true /\ meta_update264 m nal = m /\ m_sps (meta_follow264 m nal) = nal /\ nal <> m_sps m.
Proof.
  exists (mkM [] [103; 100; 0; 31; 172] [104; 239; 188; 176]), [103; 100; 0].
  vm_compute. repeat split; try reflexivity. discriminate.
Qed.
