(* C02 — the FLV key-frame flag from its producer to the GOP cache: the tag the packetizer model of
   C08 writes for a NAL unit is a key start for the FLV cache iff the unit is an IDR / IRAP picture
   (the same units the RTP caches treat as key starts), the configuration tags are kinds 5 / 3 / 4,
   and therefore after any frame list the FLV cache replays the tags from the last IDR / IRAP
   frame on. *)
From Coq Require Import ZArith List Bool Arith Lia.
From V Require Import Bytes StreamLts Cache CacheProofs C08Amf0 C08Flv C02Classify C02ClassifyProofs C02FlvProducer.
Import ListNotations.
Open Scope Z_scope.

(* a video tag: frame-type nibble 1 (key) + AVC/HEVC codec id decides; packet type 0 = sequence header *)
Lemma classify_video_data : forall ft codec pkt cts body,
  flv_classify 9 (video_data ft codec pkt cts body) =
  (let d0 := (ft * 16 + codec) mod 256 in
   if flv_h2645 d0 && (flv_frame_type d0 =? 1) then (if pkt =? 0 then 3 else 2) else 1).
Proof.
  intros. unfold video_data. cbn [app]. cbv zeta.
  unfold flv_classify, flv_is_metadata, flv_is_vsh, flv_is_ash, flv_is_key.
  change (9 =? 18) with false. change (9 =? 9) with true. change (9 =? 8) with false. cbn [andb].
  destruct (c08_be24 (cts mod TWO24) ++ (if pkt =? 1 then c08_be32 (u32 (zlen body)) else []) ++ body);
    destruct (flv_h2645 ((ft * 16 + codec) mod 256) && (flv_frame_type ((ft * 16 + codec) mod 256) =? 1));
    destruct (pkt =? 0); reflexivity.
Qed.

(* THE COMPOSITION, one frame: the tag written for a video frame restarts the FLV GOP (kind 2) iff
   the packetizer saw an IDR / IRAP unit, and is a plain media tag (kind 1) otherwise *)
Theorem flv_key_from_nal : forall c f b rest,
  f_kind f = 0 -> f_data f = b :: rest ->
  exists t, packetize c f = Some [t] /\
            tag_kind t = (if C08Flv.is_key (c_hevc c) b then 2 else 1).
Proof.
  intros c f b rest Hk Hd. unfold packetize. rewrite Hk, Hd. cbn [Z.eqb].
  eexists. split; [reflexivity|].
  unfold tag_kind. cbn [C08Flv.t_type C08Flv.t_data]. rewrite classify_video_data.
  unfold video_codec_id. destruct (C08Flv.is_key (c_hevc c) b), (c_hevc c); vm_compute; reflexivity.
Qed.

(* ... and "IDR / IRAP" is the same notion as on the RTP side: C08's [is_key] on the first byte
   of the unit = class 2 of Model/C02Classify.v (H.264 type 5, H.265 types 16..21) *)
Lemma is_key_is_class2_all :
  forallb (fun b => Bool.eqb (C08Flv.is_key false b) (nal_class H264 [b] =? 2) &&
                    Bool.eqb (C08Flv.is_key true b) (nal_class H265 [b] =? 2))
          (zrange (Z.to_nat 256)) = true.
Proof. vm_compute. reflexivity. Qed.

Theorem flv_key_is_irap : forall hevc b rest, byte_ok b = true ->
  C08Flv.is_key hevc b = (nal_class (if hevc then H265 else H264) (b :: rest) =? 2).
Proof.
  intros hevc b rest Hb.
  pose proof (sweep _ _ is_key_is_class2_all b (byte_ok_range b Hb)) as H. cbv beta in H.
  apply andb_prop in H. destruct H as [H1 H2]. apply Bool.eqb_prop in H1, H2.
  destruct hevc; [rewrite H2|rewrite H1]; reflexivity.
Qed.

(* the configuration tags *)
Lemma meta_prefix : 2 :: amf_utf8 s_onMetaData = on_meta_data.
Proof. vm_compute. reflexivity. Qed.

Lemma starts_with_app : forall p x, starts_with p (p ++ x) = true.
Proof. induction p as [|a p IH]; intros x; [reflexivity|]. cbn. rewrite Z.eqb_refl, IH. reflexivity. Qed.

Lemma meta_kind : forall c, tag_kind (meta_tag c) = 5.
Proof.
  intros c. unfold tag_kind, meta_tag. cbn [C08Flv.t_type C08Flv.t_data]. unfold script_enc.
  rewrite meta_prefix. unfold flv_classify, flv_is_metadata. rewrite starts_with_app. reflexivity.
Qed.

Lemma vseq_kind : forall c t, vseq_tag c = Some t -> tag_kind t = 3.
Proof.
  intros c t. unfold vseq_tag.
  destruct (if c_hevc c then hvcc (c_hvcc c) (c_vps c) (c_sps c) (c_pps c) else avcc (c_sps c) (c_pps c));
    [|discriminate].
  intros H; injection H as <-. unfold tag_kind. cbn [C08Flv.t_type C08Flv.t_data].
  rewrite classify_video_data. unfold video_codec_id. destruct (c_hevc c); vm_compute; reflexivity.
Qed.

Lemma aseq_kind : forall c, tag_kind (aseq_tag c) = 4.
Proof.
  intros c. unfold tag_kind, aseq_tag. cbn [C08Flv.t_type C08Flv.t_data app].
  unfold flv_classify, flv_is_metadata, flv_is_vsh, flv_is_ash.
  change (8 =? 18) with false. change (8 =? 9) with false. change (8 =? 8) with true. cbn [andb].
  unfold audio_flags, sound_rate.
  destruct (c_srate c =? 5512), (c_srate c =? 11025), (c_srate c =? 22050), (c_ssize c =? 8), (1 <? c_chan c);
    vm_compute; reflexivity.
Qed.

Lemma audio_kind : forall fl d, flv_classify 8 ([fl; 1] ++ d) = 1.
Proof.
  intros. cbn [app]. unfold flv_classify, flv_is_metadata, flv_is_vsh, flv_is_ash, flv_is_key.
  change (8 =? 18) with false. change (8 =? 9) with false. change (1 =? 0) with false.
  rewrite !andb_false_r. reflexivity.
Qed.

Lemma mux_frames_kinds : forall c fs, map tag_kind (mux_frames c fs) = frame_kinds c fs.
Proof.
  intros c. induction fs as [|f r IH]; [reflexivity|].
  cbn [mux_frames frame_kinds]. unfold packetize.
  destruct (f_kind f =? 0).
  - destruct (f_data f) as [|b rest] eqn:Hd; [reflexivity|].
    cbn [app map]. rewrite IH. f_equal.
    unfold tag_kind. cbn [C08Flv.t_type C08Flv.t_data]. rewrite classify_video_data.
    unfold video_codec_id. destruct (C08Flv.is_key (c_hevc c) b), (c_hevc c); vm_compute; reflexivity.
  - destruct (f_kind f =? 1).
    + destruct (c_aac c); cbn [app map]; rewrite IH; [|reflexivity].
      f_equal. unfold tag_kind. cbn [C08Flv.t_type C08Flv.t_data]. apply audio_kind.
    + cbn [app]. exact IH.
Qed.

(* THE COMPOSITION, whole stream: kinds of everything the muxer writes *)
Theorem mux_kinds : forall c fs v,
  fs <> [] -> sets_known c = true -> vseq_tag c = Some v ->
  map tag_kind (mux c fs) = config_kinds c ++ frame_kinds c fs.
Proof.
  intros c fs v Hne Hs Hv. unfold mux. destruct fs as [|f r]; [contradiction|].
  rewrite Hs. unfold mux_config. rewrite Hv. rewrite map_app, mux_frames_kinds.
  f_equal. cbn [map]. rewrite meta_kind, (vseq_kind c v Hv). unfold config_kinds.
  destruct (c_aac c); cbn [map]; [rewrite aseq_kind|]; reflexivity.
Qed.

Lemma ftags_from_kinds : forall ks tss i, length ks = length tss ->
  map C02Classify.t_kind (ftags_from i ks tss) = ks.
Proof.
  induction ks as [|k ks IH]; intros tss i H; [reflexivity|].
  destruct tss as [|ts tss]; [discriminate|]. cbn [ftags_from map]. cbn in H. rewrite IH by lia. reflexivity.
Qed.

Lemma tag_kind_nonzero : forall t, tag_kind t <> 0.
Proof. intros t. apply flv_classify_nonzero. Qed.

(* after ANY frame list of a stream whose parameter sets are known, what the FLV cache replays to a
   joiner is the specification of Part A applied to the kinds [config_kinds ++ frame_kinds]: the
   latest metadata / sequence-header tags, then the tags from the last IDR / IRAP frame on
   (C02_snap_params_latest, C02_snap_gop_starts_with_key spell [spec_snap] out) *)
Theorem flv_gop_after_frames : forall c fs v,
  fs <> [] -> sets_known c = true -> vseq_tag c = Some v ->
  let tags := mux c fs in
  let ft := ftags_from 0 (map tag_kind tags) (map C08Flv.t_ts tags) in
  map C02Classify.t_kind ft = config_kinds c ++ frame_kinds c fs /\
  map ftag_pkt (snd (fc_push (fold_left fc_add ft (fc_empty true)))) = spec_snap true (map ftag_pkt ft).
Proof.
  intros c fs v Hne Hs Hv tags ft. split.
  - unfold ft. rewrite ftags_from_kinds by (rewrite !map_length; reflexivity).
    apply (mux_kinds c fs v Hne Hs Hv).
  - assert (Hk : forall t, In t ft -> C02Classify.t_kind t <> 0).
    { intros t H. apply ftags_from_kind in H. apply in_map_iff in H. destruct H as (x & <- & _).
      apply tag_kind_nonzero. }
    apply (flv_join_timestamps true ft Hk).
Qed.

(* the oracle applied to the implementation accepts the model *)
Theorem prod_model_passes : forall hevc aac fs,
  let kinds := prod_kinds hevc aac fs in let tss := prod_tss hevc aac fs in
  prod_ok hevc aac fs kinds
          (map (fun t => (C02Classify.t_id t, C02Classify.t_ts t)) (flv_pushed true kinds tss)) tss = true.
Proof.
  intros hevc aac fs kinds tss. unfold prod_ok. fold kinds tss.
  rewrite !zlist_eqb_refl. cbn [andb]. rewrite !map_map. cbn [fst snd].
  assert (Hk : forall t, In t (ftags_from 0 kinds tss) -> C02Classify.t_kind t <> 0).
  { intros t H. apply ftags_from_kind in H. unfold kinds, prod_kinds in H.
    apply in_map_iff in H. destruct H as (x & <- & _). apply tag_kind_nonzero. }
  destruct (flv_join_timestamps true (ftags_from 0 kinds tss) Hk) as (_ & _ & _ & _ & E).
  unfold flv_pushed. rewrite <- E, map_map. cbn [ftag_pkt p_id].
  rewrite !zlist_eqb_refl. reflexivity.
Qed.

(* the configuration used by the correspondence check meets the hypotheses of [mux_kinds] *)
Lemma prod_cfg_ok : forall hevc aac,
  sets_known (prod_cfg hevc aac) = true /\ exists v, vseq_tag (prod_cfg hevc aac) = Some v.
Proof. intros [] []; split; try reflexivity; eexists; vm_compute; reflexivity. Qed.

Theorem prod_kinds_spec : forall hevc aac fs, fs <> [] ->
  prod_kinds hevc aac fs = config_kinds (prod_cfg hevc aac) ++ frame_kinds (prod_cfg hevc aac) fs.
Proof.
  intros hevc aac fs Hne. destruct (prod_cfg_ok hevc aac) as [Hs [v Hv]].
  apply (mux_kinds _ fs v Hne Hs Hv).
Qed.

(* both halves together, in the vocabulary of the RTP side *)
Theorem flv_key_from_nal_class : forall c f b rest,
  f_kind f = 0 -> f_data f = b :: rest -> byte_ok b = true ->
  exists t, packetize c f = Some [t] /\
            tag_kind t = (if nal_class (if c_hevc c then H265 else H264) (b :: rest) =? 2 then 2 else 1).
Proof.
  intros c f b rest Hk Hd Hb. destruct (flv_key_from_nal c f b rest Hk Hd) as (t & H1 & H2).
  exists t. split; [exact H1|]. rewrite H2, (flv_key_is_irap (c_hevc c) b rest Hb). reflexivity.
Qed.
