(* C09 — from packets to frames to the whole stream: the independent
   demultiplexer reassembles exactly what WriteMpegtsFrame was given *)
From Coq Require Import ZArith List Bool Lia ZifyBool.
From V Require Import Bytes BytesLemmas C09TsFrame C09TsWriter C09TsDemux C09BitLemmas C09CodecProofs C09PacketProofs.
Import ListNotations.
Open Scope Z_scope.
Ltac Zify.zify_post_hook ::= Z.div_mod_to_equations.

Definition len188p (p : bytes) : Prop := zlen p = 188.

(* ---- cutting the byte stream back into packets ---- *)
Lemma chunks188_concat (l : list bytes) : Forall len188p l ->
  forall fuel, (length (concat l) <= fuel)%nat -> chunks188 fuel (concat l) = Some l.
Proof.
  induction 1 as [| p l Hp Hl IH]; intros fuel Hf.
  - destruct fuel; reflexivity.
  - cbn [concat] in *.
    assert (Hlen : length p = N188) by (unfold len188p, zlen, N188 in *; lia).
    destruct p as [| x p']; [unfold N188 in Hlen; cbn in Hlen; lia |].
    rewrite app_length in Hf.
    destruct fuel as [| k]; [cbn in Hf; lia |].
    cbn [app chunks188].
    change (x :: p' ++ concat l) with ((x :: p') ++ concat l).
    rewrite <- Hlen. rewrite firstn_app_len, skipn_app_len. rewrite Nat.eqb_refl.
    rewrite IH; [reflexivity |]. rewrite Hlen in Hf. unfold N188 in Hf. lia.
Qed.

Lemma parse_packets_app a b ka kb :
  parse_packets a = Some ka -> parse_packets b = Some kb -> parse_packets (a ++ b) = Some (ka ++ kb).
Proof.
  revert ka. induction a as [| p a IH]; intros ka Ha Hb.
  - cbn in Ha. inversion Ha. exact Hb.
  - cbn [parse_packets app] in *. destruct (parse_packet p); [| discriminate].
    destruct (parse_packets a) as [ka' |]; [| discriminate].
    inversion Ha. rewrite (IH ka' eq_refl Hb). reflexivity.
Qed.

(* ---- the packets after the first one ---- *)
Fixpoint conts_ok (pid cc : Z) (ks : list tspkt) : Prop :=
  match ks with
  | [] => True
  | k :: ks' => k_pusi k = false /\ k_pid k = pid /\ k_cc k = (cc + 1) mod 16 /\ conts_ok pid (cc + 1) ks'
  end.

Lemma ts_cont_spec fuel : forall data pid cc, 0 <= pid < 8192 -> (length data <= fuel)%nat ->
  exists ks, parse_packets (fst (ts_cont fuel pid cc data)) = Some ks /\
    Forall len188p (fst (ts_cont fuel pid cc data)) /\
    conts_ok pid cc ks /\ concat (map k_payload ks) = data /\
    snd (ts_cont fuel pid cc data) = cc + Z.of_nat (length ks).
Proof.
  induction fuel as [| k IH]; intros data pid cc Hp Hf.
  - destruct data; [| cbn in Hf; lia]. exists []. cbn. repeat split; auto. lia.
  - destruct data as [| d0 data'].
    + exists []. cbn. repeat split; auto. lia.
    + cbn [ts_cont]. set (data := d0 :: data') in *.
      destruct (ts_packet_spec pid (cc + 1) false None [] data Hp ltac:(rewrite zlen_nil; lia) ltac:(subst data; discriminate))
        as (chunk & aflen & Hsplit & Hne & H188 & Hparse).
      destruct (ts_packet pid (cc + 1) false None [] data) as [pkt rest] eqn:E.
      cbn [fst snd] in *.
      assert (Hrest : (length rest <= k)%nat).
      { assert (length data = length chunk + length rest)%nat by (rewrite Hsplit at 1; apply app_length).
        destruct chunk; [congruence |]. cbn [length] in *. lia. }
      destruct (IH rest pid (cc + 1) Hp Hrest) as (ks & Hks & Hall & Hc & Hcat & Hcc).
      destruct (ts_cont k pid (cc + 1) rest) as [more ccf] eqn:E2. cbn [fst snd] in *.
      exists (kpkt false pid (cc + 1) None aflen chunk :: ks).
      split; [cbn [parse_packets]; rewrite Hparse, Hks; reflexivity |].
      split; [constructor; [exact H188 | exact Hall] |].
      split; [cbn; repeat split; auto |].
      split; [cbn [map concat kpkt k_payload]; rewrite Hcat; symmetry; exact Hsplit |].
      rewrite Hcc. cbn [length]. lia.
Qed.

(* ---- one frame ---- *)
Definition frame_pcr (f : tsframe) : option Z := if f_key f then Some (f_dts f) else None.

Lemma ts_frame_spec cc f : 0 <= f_pid f < 8192 -> f_pay f <> [] ->
  exists k0 ks,
    parse_packets (fst (ts_frame_packets cc f)) = Some (k0 :: ks) /\
    Forall len188p (fst (ts_frame_packets cc f)) /\
    k_pusi k0 = true /\ k_pid k0 = f_pid f /\ k_cc k0 = (cc + 1) mod 16 /\
    k_rai k0 = f_key f /\
    k_pcr k0 = (if f_key f then Some (f_dts f mod M33) else None) /\
    conts_ok (f_pid f) (cc + 1) ks /\
    concat (map k_payload (k0 :: ks)) =
      pes_hdr_a f (zlen (f_hdr f ++ f_pay f)) ++ f_hdr f ++ f_pay f /\
    snd (ts_frame_packets cc f) = cc + 1 + Z.of_nat (length ks).
Proof.
  intros Hp Hpay. unfold ts_frame_packets.
  destruct (f_pay f) as [| b0 pay'] eqn:Epay; [congruence |]. rewrite <- Epay.
  set (data := f_hdr f ++ f_pay f).
  assert (Hdata : data <> []).
  { subst data. rewrite Epay. destruct (f_hdr f); discriminate. }
  rewrite pes_header_arith by apply zlen_nonneg.
  pose proof (pes_hdr_a_length f (zlen data)) as Hph.
  destruct (ts_packet_spec (f_pid f) (cc + 1) true (if f_key f then Some (f_dts f) else None)
              (pes_hdr_a f (zlen data)) data Hp ltac:(lia) Hdata)
    as (chunk & aflen & Hsplit & Hne & H188 & Hparse).
  destruct (ts_packet (f_pid f) (cc + 1) true (if f_key f then Some (f_dts f) else None)
              (pes_hdr_a f (zlen data)) data) as [pkt rest] eqn:E.
  cbn [fst snd] in *.
  destruct (ts_cont_spec (length rest) rest (f_pid f) (cc + 1) Hp (le_n _))
    as (ks & Hks & Hall & Hc & Hcat & Hcc).
  destruct (ts_cont (length rest) (f_pid f) (cc + 1) rest) as [more ccf] eqn:E2. cbn [fst snd] in *.
  eexists. exists ks.
  split; [cbn [parse_packets]; rewrite Hparse, Hks; reflexivity |].
  split; [constructor; [exact H188 | exact Hall] |].
  cbn [kpkt k_pusi k_pid k_cc k_rai k_pcr k_payload map concat].
  repeat split; auto.
  - destruct (f_key f); reflexivity.
  - destruct (f_key f); reflexivity.
  - rewrite Hcat, <- app_assoc, <- Hsplit. reflexivity.
Qed.

(* ---- reassembly ---- *)
Lemma demux_conts ks : forall pid cc u acc rest,
  conts_ok pid cc ks -> u_pid u = pid -> u_cc u = cc mod 16 ->
  demux_go (ks ++ rest) (u :: acc) =
  demux_go rest ({| u_pid := pid; u_rai := u_rai u; u_pcr := u_pcr u;
                    u_cc := (cc + Z.of_nat (length ks)) mod 16;
                    u_chunks := rev (map k_payload ks) ++ u_chunks u |} :: acc).
Proof.
  induction ks as [| k ks IH]; intros pid cc u acc rest Hc Hpid Hcc.
  - cbn [app length map rev]. rewrite Z.add_0_r, <- Hcc, <- Hpid. destruct u; reflexivity.
  - destruct Hc as (Hpusi & Hkpid & Hkcc & Hc).
    cbn [app demux_go last_cc]. rewrite Hkpid, Hpid, Z.eqb_refl. cbn [cc_follows].
    replace (k_cc k =? (u_cc u + 1) mod 16) with true by (rewrite Hkcc, Hcc; lia).
    cbn [negb]. rewrite Hpusi. cbn [unit_append]. rewrite Hkpid, Hpid, Z.eqb_refl.
    rewrite (IH pid (cc + 1)); [| exact Hc | reflexivity | cbn [u_cc]; exact Hkcc].
    cbn [u_rai u_pcr u_chunks length map rev].
    f_equal. f_equal.
    replace (cc + Z.of_nat (S (length ks))) with (cc + 1 + Z.of_nat (length ks)) by lia.
    rewrite <- app_assoc. reflexivity.
Qed.

Definition unit_of (k0 : tspkt) (ks : list tspkt) (ccf : Z) : tsunit :=
  {| u_pid := k_pid k0; u_rai := k_rai k0; u_pcr := k_pcr k0; u_cc := ccf mod 16;
     u_chunks := rev (map k_payload (k0 :: ks)) |}.

Lemma demux_frame k0 ks cc acc rest :
  k_pusi k0 = true -> k_cc k0 = (cc + 1) mod 16 -> conts_ok (k_pid k0) (cc + 1) ks ->
  cc_follows (last_cc (k_pid k0) acc) ((cc + 1) mod 16) = true ->
  demux_go (k0 :: ks ++ rest) acc =
  demux_go rest (unit_of k0 ks (cc + 1 + Z.of_nat (length ks)) :: acc).
Proof.
  intros Hpusi Hcc Hc Hf. cbn [demux_go]. rewrite Hcc, Hf. cbn [negb]. rewrite Hpusi.
  rewrite (demux_conts ks (k_pid k0) (cc + 1)); [| exact Hc | reflexivity | reflexivity].
  unfold unit_of. cbn [u_rai u_pcr u_chunks map rev]. reflexivity.
Qed.

Lemma unit_of_data k0 ks c : u_data (unit_of k0 ks c) = concat (map k_payload (k0 :: ks)).
Proof. unfold u_data, unit_of. cbn [u_chunks]. rewrite rev_involutive. reflexivity. Qed.

(* ---- the writer state against the demultiplexer's per-PID counters ---- *)
Definition cc_inv (acc : list tsunit) (st : wstate) : Prop :=
  cc_follows (last_cc TS_VIDEO_PID acc) ((fst st + 1) mod 16) = true /\
  cc_follows (last_cc TS_AUDIO_PID acc) ((snd st + 1) mod 16) = true.

Lemma optz_eqb_refl o : optz_eqb o o = true.
Proof. destruct o; cbn; [apply Z.eqb_refl | reflexivity]. Qed.

Lemma has_payload_false f : has_payload f = false -> f_pay f = [].
Proof. unfold has_payload. destruct (f_pay f); [reflexivity | discriminate]. Qed.
Lemma has_payload_true f : has_payload f = true -> f_pay f <> [].
Proof. unfold has_payload. destruct (f_pay f); [discriminate | discriminate]. Qed.

Lemma frame_unit_ok cc f k0 ks :
  k_pid k0 = f_pid f -> k_rai k0 = f_key f ->
  k_pcr k0 = (if f_key f then Some (f_dts f mod M33) else None) ->
  concat (map k_payload (k0 :: ks)) = pes_hdr_a f (zlen (f_hdr f ++ f_pay f)) ++ f_hdr f ++ f_pay f ->
  unit_ok f (unit_of k0 ks cc) = true.
Proof.
  intros Hpid Hrai Hpcr Hcat. unfold unit_ok, unit_flags_ok.
  rewrite unit_of_data, Hcat, parse_pes_hdr.
  unfold unit_of. cbn [u_pid u_rai u_pcr]. rewrite Hpid, Hrai, Hpcr, Z.eqb_refl, Bool.eqb_reflx.
  unfold pes_stamps_ok, pes_of. cbn [p_sid p_pts p_dts p_payload].
  rewrite !Z.eqb_refl, optz_eqb_refl, bytes_eqb_refl.
  destruct (f_key f); [rewrite optz_eqb_refl |]; reflexivity.
Qed.

Lemma ts_frame_packets_empty cc f : f_pay f = [] -> ts_frame_packets cc f = ([], cc).
Proof. intros H. unfold ts_frame_packets. rewrite H. reflexivity. Qed.

Lemma ts_write_spec st f acc :
  frame_pid_ok f = true -> cc_inv acc st ->
  (has_payload f = false /\ ts_write st f = ([], st)) \/
  (has_payload f = true /\
   exists k0 ks u,
     parse_packets (fst (ts_write st f)) = Some (k0 :: ks) /\
     Forall len188p (fst (ts_write st f)) /\
     (forall rest, demux_go (k0 :: ks ++ rest) acc = demux_go rest (u :: acc)) /\
     unit_ok f u = true /\ cc_inv (u :: acc) (snd (ts_write st f))).
Proof.
  intros Hpid (Hv & Ha). destruct st as (vc, ac). cbn [fst snd] in *.
  destruct (has_payload f) eqn:Hpay.
  2:{ left. split; [reflexivity |]. unfold ts_write.
      rewrite !(ts_frame_packets_empty _ f (has_payload_false f Hpay)).
      destruct (f_pid f =? TS_AUDIO_PID); reflexivity. }
  right. split; [reflexivity |].
  apply has_payload_true in Hpay.
  unfold ts_write. unfold frame_pid_ok in Hpid.
  destruct (f_pid f =? TS_AUDIO_PID) eqn:Ea.
  - (* audio counter *)
    apply Z.eqb_eq in Ea.
    destruct (ts_frame_spec ac f ltac:(rewrite Ea; unfold TS_AUDIO_PID; lia) Hpay)
      as (k0 & ks & Hparse & Hall & Hpusi & Hkpid & Hkcc & Hrai & Hpcr & Hc & Hcat & Hccf).
    destruct (ts_frame_packets ac f) as [pk c] eqn:E. cbn [fst snd] in *.
    exists k0, ks, (unit_of k0 ks c).
    split; [exact Hparse |]. split; [exact Hall |].
    split.
    { intros rest. rewrite Hccf. apply demux_frame; auto.
      - rewrite Hkpid. exact Hc.
      - rewrite Hkpid, Ea. exact Ha. }
    split; [apply (frame_unit_ok c f k0 ks); auto |].
    unfold cc_inv, unit_of. cbn [fst snd last_cc u_pid u_cc]. rewrite Hkpid, Ea.
    change (TS_AUDIO_PID =? TS_VIDEO_PID) with false. rewrite Z.eqb_refl.
    split; [exact Hv |]. cbn [cc_follows]. lia.
  - (* video counter *)
    assert (Ev : f_pid f = TS_VIDEO_PID) by (apply Z.eqb_eq; destruct (f_pid f =? TS_VIDEO_PID); [reflexivity | discriminate]).
    destruct (ts_frame_spec vc f ltac:(rewrite Ev; unfold TS_VIDEO_PID; lia) Hpay)
      as (k0 & ks & Hparse & Hall & Hpusi & Hkpid & Hkcc & Hrai & Hpcr & Hc & Hcat & Hccf).
    destruct (ts_frame_packets vc f) as [pk c] eqn:E. cbn [fst snd] in *.
    exists k0, ks, (unit_of k0 ks c).
    split; [exact Hparse |]. split; [exact Hall |].
    split.
    { intros rest. rewrite Hccf. apply demux_frame; auto.
      - rewrite Hkpid. exact Hc.
      - rewrite Hkpid, Ev. exact Hv. }
    split; [apply (frame_unit_ok c f k0 ks); auto |].
    unfold cc_inv, unit_of. cbn [fst snd last_cc u_pid u_cc]. rewrite Hkpid, Ev.
    change (TS_VIDEO_PID =? TS_AUDIO_PID) with false. rewrite Z.eqb_refl.
    split; [| exact Ha]. cbn [cc_follows]. lia.
Qed.

Lemma write_frames_spec fs : forall st acc, wf_frames fs = true -> cc_inv acc st ->
  exists ks us,
    parse_packets (fst (ts_write_list st fs)) = Some ks /\
    Forall len188p (fst (ts_write_list st fs)) /\
    demux_go ks acc = Some (rev acc ++ us) /\
    units_ok unit_ok (filter has_payload fs) us = true.
Proof.
  induction fs as [| f fs IH]; intros st acc Hwf Hinv.
  - exists [], []. cbn. rewrite app_nil_r. repeat split; auto.
  - cbn [wf_frames forallb] in Hwf. apply andb_true_iff in Hwf. destruct Hwf as (Hf & Hwf).
    cbn [ts_write_list filter].
    destruct (ts_write_spec st f acc Hf Hinv) as [(Hpay & Hw) | (Hpay & k0 & ks & u & Hparse & Hall & Hdm & Hok & Hinv')].
    + rewrite Hw, Hpay.
      destruct (IH st acc Hwf Hinv) as (ks & us & H1 & H2 & H3 & H4).
      destruct (ts_write_list st fs) as [more stf]. cbn [fst snd app] in *.
      exists ks, us. auto.
    + rewrite Hpay. destruct (ts_write st f) as [pk st'] eqn:E. cbn [fst snd] in *.
      destruct (IH st' (u :: acc) Hwf Hinv') as (ks' & us & H1 & H2 & H3 & H4).
      destruct (ts_write_list st' fs) as [more stf]. cbn [fst snd] in *.
      exists ((k0 :: ks) ++ ks'), (u :: us).
      split; [apply parse_packets_app; assumption |].
      split; [apply Forall_app; split; assumption |].
      split.
      * cbn [app]. rewrite Hdm, H3. cbn [rev]. rewrite <- app_assoc. reflexivity.
      * cbn [units_ok]. rewrite Hok, H4. reflexivity.
Qed.

(* ---- the whole stream ---- *)
Definition kpat : tspkt :=
  {| k_pusi := true; k_pid := 0; k_cc := 0; k_rai := false; k_pcr := None; k_aflen := -1;
     k_payload := skipn 4 pat_packet |}.
Definition kpmt : tspkt :=
  {| k_pusi := true; k_pid := 4097; k_cc := 0; k_rai := false; k_pcr := None; k_aflen := -1;
     k_payload := skipn 4 pmt_packet |}.
Definition upat : tsunit :=
  {| u_pid := 0; u_rai := false; u_pcr := None; u_cc := 0; u_chunks := [skipn 4 pat_packet] |}.
Definition upmt : tsunit :=
  {| u_pid := 4097; u_rai := false; u_pcr := None; u_cc := 0; u_chunks := [skipn 4 pmt_packet] |}.

Lemma parse_pat : parse_packet pat_packet = Some kpat. Proof. vm_compute. reflexivity. Qed.
Lemma parse_pmt : parse_packet pmt_packet = Some kpmt. Proof. vm_compute. reflexivity. Qed.
Lemma pat_len : len188p pat_packet. Proof. reflexivity. Qed.
Lemma pmt_len : len188p pmt_packet. Proof. reflexivity. Qed.
Lemma psi_units_ok : psi_ok upat upmt = true. Proof. vm_compute. reflexivity. Qed.

Lemma ts_stream_spec fs : wf_frames fs = true ->
  exists ks us,
    ts_parse (ts_write_all fs) = Some (kpat :: kpmt :: ks) /\
    Forall len188p (ts_stream_packets fs) /\
    ts_units (ts_write_all fs) = Some (upat :: upmt :: us) /\
    units_ok unit_ok (filter has_payload fs) us = true.
Proof.
  intros Hwf.
  destruct (write_frames_spec fs (0, 0) [upmt; upat] Hwf) as (ks & us & H1 & H2 & H3 & H4).
  { split; reflexivity. }
  exists ks, us.
  assert (Hall : Forall len188p (ts_stream_packets fs)).
  { unfold ts_stream_packets. repeat constructor; try exact pat_len; try exact pmt_len. exact H2. }
  assert (Hparse : ts_parse (ts_write_all fs) = Some (kpat :: kpmt :: ks)).
  { unfold ts_parse, ts_write_all. rewrite (chunks188_concat _ Hall) by apply le_n.
    unfold ts_stream_packets. cbn [app parse_packets]. rewrite parse_pat, parse_pmt, H1. reflexivity. }
  split; [exact Hparse |]. split; [exact Hall |]. split; [| exact H4].
  unfold ts_units. rewrite Hparse.
  change (demux_go (kpat :: kpmt :: ks) []) with (demux_go ks [upmt; upat]).
  rewrite H3. reflexivity.
Qed.

Theorem writer_passes fs : wf_frames fs = true -> ok_writer fs (ts_write_all fs) = true.
Proof.
  intros Hwf. destruct (ts_stream_spec fs Hwf) as (ks & us & _ & _ & Hu & Hok).
  unfold ok_writer. rewrite Hu, psi_units_ok, Hok. reflexivity.
Qed.
