(* the extracted oracle accepts the extracted model's own run on every case (wire form) *)
From Coq Require Import ZArith List Bool.
From V Require Import Val C03Source C03SourceProofs RunC03Source.
Import ListNotations.

Lemma as_bool_vbool' : forall b, as_bool (vbool b) = b.
Proof. intros []; reflexivity. Qed.

Lemma dec_enc_sobs : forall o, dec_sobs (enc_sobs o) = o.
Proof.
  intros [gens r f w ended conv]. unfold dec_sobs, enc_sobs.
  change (nthv 0 (VL [?a; ?b; ?c; ?d; ?e; ?g])) with a. change (nthv 1 (VL [?a; ?b; ?c; ?d; ?e; ?g])) with b.
  change (nthv 2 (VL [?a; ?b; ?c; ?d; ?e; ?g])) with c. change (nthv 3 (VL [?a; ?b; ?c; ?d; ?e; ?g])) with d.
  change (nthv 4 (VL [?a; ?b; ?c; ?d; ?e; ?g])) with e. change (nthv 5 (VL [?a; ?b; ?c; ?d; ?e; ?g])) with g.
  unfold vlist. cbn [as_list as_int map]. rewrite !map_map, Z.eqb_refl. cbn [andb]. f_equal.
  - rewrite <- (map_id gens) at 2. apply map_ext. reflexivity.
  - rewrite <- (map_id ended) at 2. apply map_ext. exact as_bool_vbool'.
Qed.

Lemma not_panic_sobs : forall l, is_panic (vlist enc_sobs l) = false.
Proof. intros [|o l]; reflexivity. Qed.

Theorem source_model_passes_on_the_wire : forall c,
  x_C03_source_ok (VL [c; x_C03_source_run c]) = VI 1%Z.
Proof.
  intros c. unfold x_C03_source_ok, x_C03_source_run.
  change (nthv 0 (VL [c; ?r])) with c. cbv beta zeta.
  change (nthv 1 (VL [c; ?r])) with r.
  rewrite not_panic_sobs. unfold vlist. simpl as_list. rewrite map_map.
  rewrite (map_ext _ (fun o => o) dec_enc_sobs), map_id.
  rewrite source_model_passes. reflexivity.
Qed.
