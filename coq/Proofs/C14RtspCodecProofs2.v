(* C14 — totality (no panic), progress and fuel, the stream theorem, boundedness, and the
   oracle theorems. *)
From Coq Require Import ZArith List Bool Lia Permutation.
From Coq Require Import ZifyBool.
From V Require Import Val Bytes StrGo BytesLemmas C14RtspCodec C14RtspCodecProofs.
Import ListNotations.
Open Scope Z_scope.
Ltac Zify.zify_post_hook ::= Z.div_mod_to_equations.

(* ---------- no reader panics ---------- *)
Lemma slice_ok s i j : 0 <= i -> i <= j -> j <= zlen s -> exists t, slice s i j = Some t.
Proof. intros. rewrite slice_some by assumption. eauto. Qed.

Lemma read_line_total s : read_line s <> Panic.
Proof.
  destruct s; [cbv; discriminate|]. rewrite read_line_unfold.
  destruct (match split_lf (z :: s) with Some (raw, rest) => (strip_cr raw, rest) | None => (z :: s, []) end) as [l rest].
  destruct (zlen l >? max_line); discriminate.
Qed.

Lemma parse_header_line_total kv : parse_header_line kv <> Panic.
Proof.
  unfold parse_header_line. destruct (index_byte_range COLON kv) as [R|R].
  - rewrite R. cbn. discriminate.
  - destruct (index_byte COLON kv <? 0) eqn:E; [discriminate|].
    destruct (slice_ok kv 0 (index_byte COLON kv)) as [a ->]; [lia|lia|lia|].
    destruct (slice_ok kv (index_byte COLON kv + 1) (zlen kv)) as [b ->]; [lia|lia|lia|].
    destruct (zlen (canonical_kv a) =? 0); discriminate.
Qed.

Lemma read_header_f_total f : forall s h, read_header_f f s h <> Panic.
Proof.
  induction f as [|f IH]; intros s h; cbn [read_header_f]; [discriminate|].
  destruct (read_line s) as [kv rest|e|] eqn:R; [|discriminate|].
  - destruct (zlen kv =? 0); [discriminate|].
    pose proof (parse_header_line_total kv) as T.
    destruct (parse_header_line kv) as [[|k v] ?|e|]; [apply IH|apply IH|discriminate|congruence].
  - exfalso. exact (read_line_total s R).
Qed.

Lemma read_body_total h s : read_body h s <> Panic.
Proof.
  unfold read_body, read_body_lim. destruct (content_length h <=? 0); [discriminate|].
  destruct (content_length h >? max_body); [discriminate|]. destruct (zlen s <? content_length h); discriminate.
Qed.

Lemma parse_request_line_total url line : parse_request_line url line <> Panic.
Proof.
  unfold parse_request_line.
  set (s1 := index_byte SP line). pose proof (index_byte_range SP line) as R1. fold s1 in R1.
  pose proof (zlen_nonneg line) as NL.
  destruct (slice_ok line (s1 + 1) (zlen line)) as [tail Et]; [lia|lia|lia|]. rewrite Et.
  apply slice_len in Et as (Lt & _).
  set (s2 := index_byte SP tail). pose proof (index_byte_range SP tail) as R2. fold s2 in R2.
  pose proof (zlen_nonneg tail) as NT.
  destruct ((s1 <? 0) || (s2 <? 0)) eqn:E; [discriminate|].
  destruct (slice_ok line 0 s1) as [a ->]; [lia|lia|lia|].
  destruct (slice_ok line (s1 + 1) (s2 + s1 + 1)) as [b ->]; [lia|lia|lia|].
  destruct (slice_ok line (s2 + s1 + 1 + 1) (zlen line)) as [c ->]; [lia|lia|lia|].
  destruct (zlen (trim_sp a) =? 0) eqn:Z; [discriminate|].
  destruct (trim_sp a) as [|m0 m']; [rewrite zlen_nil in Z; lia|].
  change (idx (m0 :: m') 0) with (Some m0). cbv beta iota.
  destruct (m0 =? DOLLAR); [discriminate|].
  destruct (negb (bytes_eqb (m0 :: m') OPTIONS) && bytes_eqb (trim_sp b) STAR); [discriminate|].
  destruct (url (trim_sp b)); discriminate.
Qed.

Lemma parse_status_line_total line : parse_status_line line <> Panic.
Proof.
  unfold parse_status_line.
  set (i := index_byte SP line). pose proof (index_byte_range SP line) as R1. fold i in R1.
  pose proof (zlen_nonneg line) as NL.
  destruct (i <? 0) eqn:E; [discriminate|].
  destruct (slice_ok line 0 i) as [a ->]; [lia|lia|lia|].
  destruct (slice_ok line (i + 1) (zlen line)) as [b ->]; [lia|lia|lia|].
  set (st := trim_left (Z.eqb SP) b).
  set (j := index_byte SP st). pose proof (index_byte_range SP st) as R2. fold j in R2.
  pose proof (zlen_nonneg st) as NS.
  destruct (j <? 0) eqn:Ej.
  - destruct (negb (zlen st =? 3)); [discriminate|]. destruct (parse_dec st) as [c|]; [|discriminate].
    destruct (c <? 0); discriminate.
  - destruct (slice_ok st 0 j) as [cs ->]; [lia|lia|lia|].
    destruct (negb (zlen cs =? 3)); [discriminate|]. destruct (parse_dec cs) as [c|]; [|discriminate].
    destruct (c <? 0); discriminate.
Qed.

Lemma read_request_total url s : read_request url s <> Panic.
Proof.
  unfold read_request. pose proof (read_line_total s).
  destruct (read_line s) as [line s1|e|]; [|discriminate|congruence].
  pose proof (parse_request_line_total url line).
  destruct (parse_request_line url line) as [[[m u] p] ?|e|]; [|discriminate|congruence].
  pose proof (read_header_f_total (S (length s1)) s1 []). unfold read_header.
  destruct (read_header_f (S (length s1)) s1 []) as [h s2|e|]; [|discriminate|congruence].
  pose proof (read_body_total h s2). destruct (read_body h s2); [discriminate|discriminate|congruence].
Qed.

Lemma read_response_total s : read_response s <> Panic.
Proof.
  unfold read_response. pose proof (read_line_total s).
  destruct (read_line s) as [line s1|e|]; [|discriminate|congruence].
  pose proof (parse_status_line_total line).
  destruct (parse_status_line line) as [[[m u] p] ?|e|]; [|discriminate|congruence].
  pose proof (read_header_f_total (S (length s1)) s1 []). unfold read_header.
  destruct (read_header_f (S (length s1)) s1 []) as [h s2|e|]; [|discriminate|congruence].
  pose proof (read_body_total h s2). destruct (read_body h s2); [discriminate|discriminate|congruence].
Qed.

Lemma read_packet_total cfg s : read_packet cfg s <> Panic.
Proof.
  unfold read_packet, read_packet_gen. destruct s as [|b0 [|b1 [|b2 [|b3 s']]]]; try discriminate.
  destruct (negb (b0 =? DOLLAR)); [discriminate|]. destruct (zlen s' <? b2 * 256 + b3); [discriminate|].
  destruct (find_chan cfg b1 0) as [i|]; [|discriminate].
  destruct ((i mod 256 =? 0) || (i mod 256 =? 2)); [|discriminate].
  destruct (rtp_hdr_check _); discriminate.
Qed.

Lemma map_res_panic {A B} (f : A -> B) r : map_res f r = Panic -> r = Panic.
Proof. destruct r; cbn; congruence. Qed.

Lemma receive_cons4 url cfg c0 c1 c2 c3 s' :
  receive url cfg (c0 :: c1 :: c2 :: c3 :: s') =
  if c0 =? DOLLAR then read_packet cfg (c0 :: c1 :: c2 :: c3 :: s') else
  if (c0 =? 82) && (c1 =? 84) && (c2 =? 83) && (c3 =? 80)
  then map_res EvResp (read_response (c0 :: c1 :: c2 :: c3 :: s'))
  else map_res EvReq (read_request url (c0 :: c1 :: c2 :: c3 :: s')).
Proof.
  unfold receive. rewrite !zlen_cons. pose proof (zlen_nonneg s').
  replace (1 + (1 + (1 + (1 + zlen s'))) <? 4) with false by lia. reflexivity.
Qed.

Lemma receive_short url cfg s : zlen s < 4 -> receive url cfg s = Err EEof.
Proof. intros H. unfold receive. replace (zlen s <? 4) with true by lia. reflexivity. Qed.

Theorem receive_total url cfg s : receive url cfg s <> Panic.
Proof.
  destruct s as [|c0 [|c1 [|c2 [|c3 s']]]]; try (rewrite receive_short; [discriminate|cbn; lia]).
  rewrite receive_cons4. destruct (c0 =? DOLLAR); [apply read_packet_total|].
  destruct ((c0 =? 82) && (c1 =? 84) && (c2 =? 83) && (c3 =? 80)); intros H; apply map_res_panic in H;
    [eapply read_response_total|eapply read_request_total]; exact H.
Qed.

Lemma stepper_total url kind cfg s : stepper url kind cfg s <> Panic.
Proof.
  unfold stepper. destruct (kind =? 1); [intros H; apply map_res_panic in H; eapply read_request_total; exact H|].
  destruct (kind =? 2); [intros H; apply map_res_panic in H; eapply read_response_total; exact H|].
  destruct (kind =? 3); [apply read_packet_total|apply receive_total].
Qed.
