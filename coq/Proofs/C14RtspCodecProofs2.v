(* C14 — totality (no panic), progress and fuel, the stream theorem, boundedness, and the
   oracle theorems. *)
From Coq Require Import ZArith List Bool Lia Permutation.
From Coq Require Import ZifyBool.
From V Require Import Val Bytes StrGo BytesLemmas C14RtspCodec C14RtspCodecProofs.
Import ListNotations.
Open Scope Z_scope.
Ltac Zify.zify_post_hook ::= Z.div_mod_to_equations.

(* ---------- no reader panics ---------- *)
Lemma slice_ok s i j : 0 <= i -> i <= j -> j <= zlen s -> exists t, slice s i j = Some t.
Proof. intros. rewrite slice_some by assumption. eauto. Qed.

Lemma read_line_total s : read_line s <> Panic.
Proof.
  destruct s; [cbv; discriminate|]. rewrite read_line_unfold.
  destruct (match split_lf (z :: s) with Some (raw, rest) => (strip_cr raw, rest) | None => (z :: s, []) end) as [l rest].
  destruct (zlen l >? max_line); discriminate.
Qed.

Lemma parse_header_line_total kv : parse_header_line kv <> Panic.
Proof.
  unfold parse_header_line. destruct (index_byte_range COLON kv) as [R|R].
  - rewrite R. cbn. discriminate.
  - destruct (index_byte COLON kv <? 0) eqn:E; [discriminate|].
    destruct (slice_ok kv 0 (index_byte COLON kv)) as [a ->]; [lia|lia|lia|].
    destruct (slice_ok kv (index_byte COLON kv + 1) (zlen kv)) as [b ->]; [lia|lia|lia|].
    destruct (zlen (canonical_kv a) =? 0); discriminate.
Qed.

Lemma read_header_f_total f : forall s h, read_header_f f s h <> Panic.
Proof.
  induction f as [|f IH]; intros s h; cbn [read_header_f]; [discriminate|].
  destruct (read_line s) as [kv rest|e|] eqn:R; [|discriminate|].
  - destruct (zlen kv =? 0); [discriminate|].
    pose proof (parse_header_line_total kv) as T.
    destruct (parse_header_line kv) as [[|k v] ?|e|]; [apply IH|apply IH|discriminate|congruence].
  - exfalso. exact (read_line_total s R).
Qed.

Lemma read_body_total h s : read_body h s <> Panic.
Proof.
  unfold read_body, read_body_lim. destruct (content_length h <=? 0); [discriminate|].
  destruct (content_length h >? max_body); [discriminate|]. destruct (zlen s <? content_length h); discriminate.
Qed.

Lemma parse_request_line_total url line : parse_request_line url line <> Panic.
Proof.
  unfold parse_request_line.
  set (s1 := index_byte SP line). pose proof (index_byte_range SP line) as R1. fold s1 in R1.
  pose proof (zlen_nonneg line) as NL.
  destruct (slice_ok line (s1 + 1) (zlen line)) as [tail Et]; [lia|lia|lia|]. rewrite Et.
  apply slice_len in Et as (Lt & _).
  set (s2 := index_byte SP tail). pose proof (index_byte_range SP tail) as R2. fold s2 in R2.
  pose proof (zlen_nonneg tail) as NT.
  destruct ((s1 <? 0) || (s2 <? 0)) eqn:E; [discriminate|].
  destruct (slice_ok line 0 s1) as [a ->]; [lia|lia|lia|].
  destruct (slice_ok line (s1 + 1) (s2 + s1 + 1)) as [b ->]; [lia|lia|lia|].
  destruct (slice_ok line (s2 + s1 + 1 + 1) (zlen line)) as [c ->]; [lia|lia|lia|].
  destruct (zlen (trim_sp a) =? 0) eqn:Z; [discriminate|].
  destruct (trim_sp a) as [|m0 m']; [rewrite zlen_nil in Z; lia|].
  change (idx (m0 :: m') 0) with (Some m0). cbv beta iota.
  destruct (m0 =? DOLLAR); [discriminate|].
  destruct (negb (bytes_eqb (m0 :: m') OPTIONS) && bytes_eqb (trim_sp b) STAR); [discriminate|].
  destruct (url (trim_sp b)); discriminate.
Qed.

Lemma parse_status_line_total line : parse_status_line line <> Panic.
Proof.
  unfold parse_status_line.
  set (i := index_byte SP line). pose proof (index_byte_range SP line) as R1. fold i in R1.
  pose proof (zlen_nonneg line) as NL.
  destruct (i <? 0) eqn:E; [discriminate|].
  destruct (slice_ok line 0 i) as [a ->]; [lia|lia|lia|].
  destruct (slice_ok line (i + 1) (zlen line)) as [b ->]; [lia|lia|lia|].
  set (st := trim_left (Z.eqb SP) b).
  set (j := index_byte SP st). pose proof (index_byte_range SP st) as R2. fold j in R2.
  pose proof (zlen_nonneg st) as NS.
  destruct (j <? 0) eqn:Ej.
  - destruct (negb (zlen st =? 3)); [discriminate|]. destruct (parse_dec st) as [c|]; [|discriminate].
    destruct (c <? 0); discriminate.
  - destruct (slice_ok st 0 j) as [cs ->]; [lia|lia|lia|].
    destruct (negb (zlen cs =? 3)); [discriminate|]. destruct (parse_dec cs) as [c|]; [|discriminate].
    destruct (c <? 0); discriminate.
Qed.

Lemma read_request_total url s : read_request url s <> Panic.
Proof.
  unfold read_request. pose proof (read_line_total s).
  destruct (read_line s) as [line s1|e|]; [|discriminate|congruence].
  pose proof (parse_request_line_total url line).
  destruct (parse_request_line url line) as [[[m u] p] ?|e|]; [|discriminate|congruence].
  pose proof (read_header_f_total (S (length s1)) s1 []). unfold read_header.
  destruct (read_header_f (S (length s1)) s1 []) as [h s2|e|]; [|discriminate|congruence].
  pose proof (read_body_total h s2). destruct (read_body h s2); [discriminate|discriminate|congruence].
Qed.

Lemma read_response_total s : read_response s <> Panic.
Proof.
  unfold read_response. pose proof (read_line_total s).
  destruct (read_line s) as [line s1|e|]; [|discriminate|congruence].
  pose proof (parse_status_line_total line).
  destruct (parse_status_line line) as [[[m u] p] ?|e|]; [|discriminate|congruence].
  pose proof (read_header_f_total (S (length s1)) s1 []). unfold read_header.
  destruct (read_header_f (S (length s1)) s1 []) as [h s2|e|]; [|discriminate|congruence].
  pose proof (read_body_total h s2). destruct (read_body h s2); [discriminate|discriminate|congruence].
Qed.

Lemma read_packet_total cfg s : read_packet cfg s <> Panic.
Proof.
  unfold read_packet, read_packet_gen. destruct s as [|b0 [|b1 [|b2 [|b3 s']]]]; try discriminate.
  destruct (negb (b0 =? DOLLAR)); [discriminate|]. destruct (zlen s' <? b2 * 256 + b3); [discriminate|].
  destruct (find_chan cfg b1 0) as [i|]; [|discriminate].
  destruct ((i mod 256 =? 0) || (i mod 256 =? 2)); [|discriminate].
  destruct (rtp_hdr_check _); discriminate.
Qed.

Lemma map_res_panic {A B} (f : A -> B) r : map_res f r = Panic -> r = Panic.
Proof. destruct r; cbn; congruence. Qed.

Lemma receive_cons4 url cfg c0 c1 c2 c3 s' :
  receive url cfg (c0 :: c1 :: c2 :: c3 :: s') =
  if c0 =? DOLLAR then read_packet cfg (c0 :: c1 :: c2 :: c3 :: s') else
  if (c0 =? 82) && (c1 =? 84) && (c2 =? 83) && (c3 =? 80)
  then map_res EvResp (read_response (c0 :: c1 :: c2 :: c3 :: s'))
  else map_res EvReq (read_request url (c0 :: c1 :: c2 :: c3 :: s')).
Proof.
  unfold receive. rewrite !zlen_cons. pose proof (zlen_nonneg s').
  replace (1 + (1 + (1 + (1 + zlen s'))) <? 4) with false by lia. reflexivity.
Qed.

Lemma receive_short url cfg s : zlen s < 4 -> receive url cfg s = Err EEof.
Proof. intros H. unfold receive. replace (zlen s <? 4) with true by lia. reflexivity. Qed.

Theorem receive_total url cfg s : receive url cfg s <> Panic.
Proof.
  destruct s as [|c0 [|c1 [|c2 [|c3 s']]]]; try (rewrite receive_short; [discriminate|cbn; lia]).
  rewrite receive_cons4. destruct (c0 =? DOLLAR); [apply read_packet_total|].
  destruct ((c0 =? 82) && (c1 =? 84) && (c2 =? 83) && (c3 =? 80)); intros H; apply map_res_panic in H;
    [eapply read_response_total|eapply read_request_total]; exact H.
Qed.

Lemma stepper_total url kind cfg s : stepper url kind cfg s <> Panic.
Proof.
  unfold stepper. destruct (kind =? 1); [intros H; apply map_res_panic in H; eapply read_request_total; exact H|].
  destruct (kind =? 2); [intros H; apply map_res_panic in H; eapply read_response_total; exact H|].
  destruct (kind =? 3); [apply read_packet_total|apply receive_total].
Qed.

(* ---------- progress, and fuel never runs out ---------- *)
Lemma read_header_f_ok f : forall s h h' rest,
  read_header_f f s h = Ok h' rest -> (length rest < length s)%nat.
Proof.
  induction f as [|f IH]; intros s h h' rest; cbn [read_header_f]; [discriminate|].
  destruct (read_line s) as [kv r|e|] eqn:R; [|discriminate|discriminate].
  apply read_line_ok in R as (_ & _ & P & _).
  destruct (zlen kv =? 0); [intros H; inversion H; subst; exact P|].
  destruct (parse_header_line kv) as [[|k v] ?|e|]; try discriminate; intros H; apply IH in H; lia.
Qed.

Lemma parse_header_line_err kv e : parse_header_line kv = Err e -> e = EMalformed.
Proof.
  unfold parse_header_line. destruct (index_byte COLON kv <? 0); [intros H; inversion H; reflexivity|].
  destruct (slice kv 0 (index_byte COLON kv)) as [a|], (slice kv (index_byte COLON kv + 1) (zlen kv)) as [b|]; try discriminate.
  destruct (zlen (canonical_kv a) =? 0); discriminate.
Qed.
Lemma read_line_err s e : read_line s = Err e -> e = EEof \/ e = ELineTooLong.
Proof.
  destruct s as [|c s]; [cbv; intros H; inversion H; tauto|]. rewrite read_line_unfold.
  destruct (match split_lf (c :: s) with Some (raw, rest) => (strip_cr raw, rest) | None => (c :: s, []) end) as [l rest].
  destruct (zlen l >? max_line); intros H; inversion H; tauto.
Qed.

Lemma read_header_f_fuel f : forall s h, (length s < f)%nat -> read_header_f f s h <> Err EFuel.
Proof.
  induction f as [|f IH]; intros s h F; [lia|]. cbn [read_header_f].
  destruct (read_line s) as [kv r|e|] eqn:R; [| |discriminate].
  - apply read_line_ok in R as (_ & _ & P & _).
    destruct (zlen kv =? 0); [discriminate|].
    destruct (parse_header_line kv) as [[|k v] ?|e|] eqn:PH; try discriminate; try (apply IH; lia).
    apply parse_header_line_err in PH. subst e. discriminate.
  - apply read_line_err in R as [-> | ->]; discriminate.
Qed.

Lemma read_body_ok h s body rest : read_body h s = Ok body rest ->
  (length rest <= length s)%nat /\ zlen body <= max_body.
Proof.
  unfold read_body, read_body_lim. destruct (content_length h <=? 0) eqn:E0.
  - intros H; inversion H; subst. rewrite zlen_nil. unfold max_body. split; lia.
  - destruct (content_length h >? max_body) eqn:E1; [discriminate|].
    destruct (zlen s <? content_length h) eqn:E2; [discriminate|].
    intros H; inversion H; subst. clear H. split; [rewrite skipn_length; lia|].
    rewrite take_n_firstn. unfold zlen in *. rewrite firstn_length. lia.
Qed.

Lemma read_request_ok url s q rest : read_request url s = Ok q rest -> (length rest < length s)%nat.
Proof.
  unfold read_request. destruct (read_line s) as [line s1|e|] eqn:R; try discriminate.
  apply read_line_ok in R as (_ & _ & P & _).
  destruct (parse_request_line url line) as [[[m u] p] ?|e|]; try discriminate.
  unfold read_header. destruct (read_header_f (S (length s1)) s1 []) as [h s2|e|] eqn:H; try discriminate.
  apply read_header_f_ok in H. destruct (read_body h s2) as [b s3|e|] eqn:B; try discriminate.
  apply read_body_ok in B as [B _]. intros X; inversion X; subst. lia.
Qed.
Lemma read_response_ok s q rest : read_response s = Ok q rest -> (length rest < length s)%nat.
Proof.
  unfold read_response. destruct (read_line s) as [line s1|e|] eqn:R; try discriminate.
  apply read_line_ok in R as (_ & _ & P & _).
  destruct (parse_status_line line) as [[[m u] p] ?|e|]; try discriminate.
  unfold read_header. destruct (read_header_f (S (length s1)) s1 []) as [h s2|e|] eqn:H; try discriminate.
  apply read_header_f_ok in H. destruct (read_body h s2) as [b s3|e|] eqn:B; try discriminate.
  apply read_body_ok in B as [B _]. intros X; inversion X; subst. lia.
Qed.
Lemma read_packet_ok cfg s ev rest : read_packet cfg s = Ok ev rest -> (length rest < length s)%nat.
Proof.
  unfold read_packet, read_packet_gen. destruct s as [|b0 [|b1 [|b2 [|b3 s']]]]; try discriminate.
  destruct (negb (b0 =? DOLLAR)); [discriminate|]. destruct (zlen s' <? b2 * 256 + b3); [discriminate|].
  assert (L : (length (skipn (Z.to_nat (b2 * 256 + b3)) s') < length (b0 :: b1 :: b2 :: b3 :: s'))%nat)
    by (rewrite skipn_length; cbn [length]; lia).
  destruct (find_chan cfg b1 0) as [i|]; [|intros X; inversion X; subst; exact L].
  destruct ((i mod 256 =? 0) || (i mod 256 =? 2)); [destruct (rtp_hdr_check _); try discriminate|];
    intros X; inversion X; subst; exact L.
Qed.

Lemma map_res_ok {A B} (f : A -> B) r b rest : map_res f r = Ok b rest -> exists a, r = Ok a rest /\ b = f a.
Proof. destruct r; cbn; try discriminate. intros H; inversion H; subst. eauto. Qed.

Lemma receive_ok url cfg s ev rest : receive url cfg s = Ok ev rest -> (length rest < length s)%nat.
Proof.
  destruct s as [|c0 [|c1 [|c2 [|c3 s']]]]; try (rewrite receive_short; [discriminate|cbn; lia]).
  rewrite receive_cons4. destruct (c0 =? DOLLAR); [apply read_packet_ok|].
  destruct ((c0 =? 82) && (c1 =? 84) && (c2 =? 83) && (c3 =? 80)); intros H; apply map_res_ok in H as (a & H & _);
    [eapply read_response_ok|eapply read_request_ok]; exact H.
Qed.

Lemma stepper_ok url kind cfg s ev rest : stepper url kind cfg s = Ok ev rest -> (length rest < length s)%nat.
Proof.
  unfold stepper. destruct (kind =? 1); [intros H; apply map_res_ok in H as (a & H & _); eapply read_request_ok; exact H|].
  destruct (kind =? 2); [intros H; apply map_res_ok in H as (a & H & _); eapply read_response_ok; exact H|].
  destruct (kind =? 3); [apply read_packet_ok|apply receive_ok].
Qed.

Section Loop.
Variable step : bytes -> res event.
Hypothesis step_progress : forall s ev rest, step s = Ok ev rest -> (length rest < length s)%nat.

Lemma read_all_fuel f1 : forall f2 s, (length s < f1)%nat -> (length s < f2)%nat ->
  read_all step f1 s = read_all step f2 s.
Proof.
  induction f1 as [|f1 IH]; intros f2 s F1 F2; [lia|]. destruct f2 as [|f2]; [lia|].
  cbn [read_all]. destruct s as [|c s]; [reflexivity|].
  destruct (step (c :: s)) as [ev rest|e|] eqn:E; try reflexivity.
  apply step_progress in E. rewrite (IH f2 rest) by lia. reflexivity.
Qed.

Lemma read_all_no_fuel f : forall s, (length s < f)%nat -> snd (read_all step f s) <> FFuel.
Proof.
  induction f as [|f IH]; intros s F; [lia|]. cbn [read_all]. destruct s as [|c s]; [discriminate|].
  destruct (step (c :: s)) as [ev rest|e|] eqn:E; try discriminate.
  apply step_progress in E. specialize (IH rest ltac:(lia)).
  destruct (read_all step f rest) as [evs fin]. exact IH.
Qed.

Lemma read_stream_cons s ev rest : step s = Ok ev rest ->
  read_stream step s = let '(evs, fin) := read_stream step rest in ((ev, rest) :: evs, fin).
Proof.
  intros E. unfold read_stream. cbn [read_all]. destruct s as [|c s]; [apply step_progress in E; simpl in E; lia|].
  rewrite E. pose proof (step_progress _ _ _ E).
  rewrite (read_all_fuel (length (c :: s)) (S (length rest)) rest) by lia. reflexivity.
Qed.
End Loop.

(* ---------- the dispatcher on written items ---------- *)
Lemma not_rtsp_prefix m x :
  is_prefix RTSP_ m = false -> ~ In SP m ->
  match m ++ SP :: x with
  | c0 :: c1 :: c2 :: c3 :: _ => (c0 =? 82) && (c1 =? 84) && (c2 =? 83) && (c3 =? 80)
  | _ => false
  end = false.
Proof.
  intros P S. unfold RTSP_ in P.
  destruct m as [|a [|b [|c [|d m']]]]; cbn [app is_prefix] in *; unfold SP;
    try (destruct x as [|x0 [|x1 [|x2 x3]]]; try reflexivity; lia).
Qed.

Lemma receive_as_request url cfg s :
  4 <= zlen s ->
  match s with c0 :: _ => c0 =? DOLLAR | [] => true end = false ->
  match s with
  | c0 :: c1 :: c2 :: c3 :: _ => (c0 =? 82) && (c1 =? 84) && (c2 =? 83) && (c3 =? 80)
  | _ => false
  end = false ->
  receive url cfg s = map_res EvReq (read_request url s).
Proof.
  intros L D R. destruct s as [|c0 [|c1 [|c2 [|c3 s']]]]; rewrite ?zlen_cons, ?zlen_nil in L; try lia.
  rewrite receive_cons4, D, R. reflexivity.
Qed.

Lemma receive_request url cfg q rest :
  request_wf url q = true ->
  receive url cfg (write_request q ++ rest) = map_res EvReq (read_request url (write_request q ++ rest)).
Proof.
  unfold request_wf. rewrite !andb_true_iff, !negb_true_iff.
  intros [[[[[[[[Wm Wu] D] R] O] U] L] Wh] B].
  destruct (token_wf_parts _ Wm) as [Nm Tm].
  assert (Sm : ~ In SP (q_method q)) by (apply token_no_space; [exact Tm|reflexivity]).
  pose proof (not_rtsp_prefix (q_method q)
    (url_str q ++ SP :: RTSP10 ++ CRLF ++ write_header (set_cl (q_hdr q) (q_body q)) ++ q_body q ++ rest) R Sm) as NP.
  assert (E : write_request q ++ rest =
              q_method q ++ SP :: url_str q ++ SP :: RTSP10 ++ CRLF ++ write_header (set_cl (q_hdr q) (q_body q)) ++ q_body q ++ rest).
  { unfold write_request. repeat (rewrite <- app_assoc || rewrite <- app_comm_cons). reflexivity. }
  rewrite E. apply receive_as_request.
  - rewrite zlen_app, zlen_cons, zlen_app, zlen_cons, zlen_app. change (zlen RTSP10) with 8.
    pose proof (zlen_nonneg (q_method q)). pose proof (zlen_nonneg (url_str q)).
    pose proof (zlen_nonneg (CRLF ++ write_header (set_cl (q_hdr q) (q_body q)) ++ q_body q ++ rest)). lia.
  - destruct (q_method q) as [|m0 m']; [rewrite zlen_nil in Nm; lia|]. exact D.
  - exact NP.
Qed.

Lemma receive_response url cfg p rest :
  receive url cfg (write_response p ++ rest) = map_res EvResp (read_response (write_response p ++ rest)).
Proof. unfold write_response. cbn [app RTSP10]. rewrite receive_cons4. reflexivity. Qed.

Lemma receive_packet url cfg ch data rest :
  pack_wf cfg ch data = true ->
  receive url cfg (write_packet cfg ch data ++ rest) = read_packet cfg (write_packet cfg ch data ++ rest).
Proof.
  unfold pack_wf, write_packet. rewrite !andb_true_iff. intros [[[[C0 C4] L] W] Hh].
  destruct (nth_error cfg (Z.to_nat ch)) as [w|]; [|discriminate].
  rewrite !andb_true_iff in W. destruct W as [[W0 W255] F].
  replace ((w <? 0) || (w >? 255)) with false by lia. cbn [app]. rewrite receive_cons4. reflexivity.
Qed.

Theorem receive_exact url cfg it rest :
  item_wf url cfg it = true ->
  receive url cfg (encode cfg it ++ rest) = Ok (norm_item it) rest.
Proof.
  destruct it as [q|p|ch d]; cbn [item_wf encode norm_item]; intros W.
  - rewrite receive_request by exact W. rewrite request_roundtrip by exact W. reflexivity.
  - rewrite receive_response. rewrite response_roundtrip by exact W. reflexivity.
  - rewrite receive_packet by exact W. apply frame_roundtrip; exact W.
Qed.

(* ---------- the stream theorem ---------- *)
(* what the read loop must produce on the concatenation: every item's normal form,
   each with exactly the encodings of the later items (and the tail) left to read *)
Fixpoint expected (cfg : list Z) (items : list item) (tail : bytes) : list (event * bytes) :=
  match items with
  | [] => []
  | it :: l => (norm_item it, concat_items cfg l ++ tail) :: expected cfg l tail
  end.

Theorem stream_reader_exact_tail url cfg items tail :
  forallb (item_wf url cfg) items = true ->
  read_stream (receive url cfg) (concat_items cfg items ++ tail) =
  let '(evs, fin) := read_stream (receive url cfg) tail in (expected cfg items tail ++ evs, fin).
Proof.
  induction items as [|it l IH]; intros W.
  - cbn [concat_items expected app]. destruct (read_stream (receive url cfg) tail); reflexivity.
  - cbn [forallb] in W. apply andb_true_iff in W as [Wi Wl].
    cbn [concat_items expected]. rewrite <- app_assoc.
    rewrite (read_stream_cons _ (receive_ok url cfg) _ _ _ (receive_exact url cfg it _ Wi)).
    rewrite (IH Wl). destruct (read_stream (receive url cfg) tail) as [evs fin]. reflexivity.
Qed.

Theorem stream_reader_exact url cfg items :
  forallb (item_wf url cfg) items = true ->
  read_stream (receive url cfg) (concat_items cfg items) = (expected cfg items [], FDone).
Proof.
  intros W. pose proof (stream_reader_exact_tail url cfg items [] W) as H.
  rewrite app_nil_r in H. rewrite H. cbn. rewrite app_nil_r. reflexivity.
Qed.

(* ---------- boundedness ---------- *)
Lemma strip_cr_lower l : zlen l - 1 <= zlen (strip_cr l).
Proof.
  induction l as [|c l IH]; [cbn; lia|]. cbn [strip_cr]. destruct l as [|d l].
  - destruct (c =? CR); rewrite ?zlen_cons, ?zlen_nil; lia.
  - rewrite (zlen_cons c (d :: l)), (zlen_cons c (strip_cr (d :: l))). lia.
Qed.

Lemma prefix_before_lf p : forall t raw r, p ++ t = raw ++ LF :: r -> ~ In LF p -> zlen p <= zlen raw.
Proof.
  induction p as [|x p IH]; intros t raw r E N; [rewrite zlen_nil; apply zlen_nonneg|].
  destruct raw as [|y raw].
  - cbn [app] in E. inversion E; subst. exfalso. apply N. left. reflexivity.
  - cbn [app] in E. inversion E; subst. rewrite !zlen_cons.
    specialize (IH t raw r H1 ltac:(intros I; apply N; right; exact I)). lia.
Qed.

(* an over-long line is refused on the strength of its first max_line + 2 bytes alone *)
Theorem line_too_long p t :
  ~ In LF p -> max_line + 2 <= zlen p -> read_line (p ++ t) = Err ELineTooLong.
Proof.
  intros N L. destruct (p ++ t) as [|c s] eqn:E.
  - destruct p; [rewrite zlen_nil in L; unfold max_line in L; lia|discriminate].
  - rewrite read_line_unfold. destruct (split_lf (c :: s)) as [[raw r]|] eqn:S.
    + apply split_lf_some in S as [E2 _]. rewrite <- E in E2.
      pose proof (prefix_before_lf p t raw r E2 N). pose proof (strip_cr_lower raw).
      replace (zlen (strip_cr raw) >? max_line) with true by lia. reflexivity.
    + rewrite <- E, zlen_app. pose proof (zlen_nonneg t).
      replace (zlen p + zlen t >? max_line) with true by lia. reflexivity.
Qed.

(* an absurd Content-Length is refused whatever follows: no byte of the body is needed *)
Theorem body_too_big h s : max_body < content_length h -> read_body h s = Err EBodyTooBig.
Proof.
  intros H. unfold read_body, read_body_lim. unfold max_body in *.
  replace (content_length h <=? 0) with false by lia.
  replace (content_length h >? 1048576) with true by lia. reflexivity.
Qed.

Lemma vals_size_app k vs v : vals_size k (vs ++ [v]) = vals_size k vs + zlen k + zlen v.
Proof. induction vs as [|x vs IH]; cbn [vals_size app]; lia. Qed.

Lemma hsize_hadd h k v : hsize (hadd h k v) = hsize h + zlen k + zlen v /\ hcount (hadd h k v) = hcount h + 1.
Proof.
  induction h as [|[k' vs] h [IH1 IH2]]; cbn [hadd hsize hcount vals_size length].
  - cbn [vals_size]. lia.
  - destruct (bytes_eqb k' k) eqn:E; cbn [hsize hcount].
    + apply bytes_eqb_eq in E. subst k'. rewrite vals_size_app, app_length. cbn [length]. lia.
    + lia.
Qed.

Lemma to_upper_len s : zlen (to_upper s) = zlen s.
Proof. unfold zlen, to_upper. rewrite map_length. reflexivity. Qed.
Lemma canon_key_len k : zlen (canon_key k) = zlen k.
Proof.
  unfold canon_key. destruct (find _ canonical_keys) as [ck|] eqn:F; [|reflexivity].
  apply find_some in F as [_ E]. apply bytes_eqb_eq in E. rewrite <- (to_upper_len ck), E. apply to_upper_len.
Qed.

Lemma parse_header_line_size kv k v r : parse_header_line kv = Ok (HLField k v) r -> zlen k + zlen v <= zlen kv.
Proof.
  unfold parse_header_line. destruct (index_byte COLON kv <? 0); [discriminate|].
  destruct (slice kv 0 (index_byte COLON kv)) as [a|] eqn:A; [|discriminate].
  destruct (slice kv (index_byte COLON kv + 1) (zlen kv)) as [b|] eqn:B; [|discriminate].
  destruct (zlen (canonical_kv a) =? 0); [discriminate|]. intros H; inversion H; subst.
  apply slice_len in A as (LA & _). apply slice_len in B as (LB & _).
  rewrite canon_key_len. pose proof (canonical_kv_len a). pose proof (canonical_kv_len b). lia.
Qed.

Lemma read_header_f_size f : forall s h h' rest,
  read_header_f f s h = Ok h' rest -> hsize h <= max_line * hcount h -> hsize h' <= max_line * hcount h'.
Proof.
  induction f as [|f IH]; intros s h h' rest; cbn [read_header_f]; [discriminate|].
  destruct (read_line s) as [kv r|e|] eqn:R; [|discriminate|discriminate].
  apply read_line_ok in R as (LL & _).
  destruct (zlen kv =? 0); [intros H; inversion H; subst; tauto|].
  destruct (parse_header_line kv) as [[|k v] ?|e|] eqn:P; try discriminate; [apply IH|].
  intros H I. eapply IH; [exact H|]. apply parse_header_line_size in P.
  destruct (hsize_hadd h k v) as [-> ->]. lia.
Qed.

Lemma parse_request_line_size url line m u p r :
  parse_request_line url line = Ok (m, u, p) r -> zlen m + zlen p <= zlen line.
Proof.
  unfold parse_request_line.
  destruct (slice line (index_byte SP line + 1) (zlen line)) as [tail|] eqn:T; [|discriminate].
  destruct ((index_byte SP line <? 0) || (index_byte SP tail <? 0)) eqn:E; [discriminate|].
  destruct (slice line 0 (index_byte SP line)) as [a|] eqn:A; [|discriminate].
  destruct (slice line (index_byte SP line + 1) (index_byte SP tail + index_byte SP line + 1)) as [b|] eqn:B; [|discriminate].
  destruct (slice line (index_byte SP tail + index_byte SP line + 1 + 1) (zlen line)) as [c|] eqn:C; [|discriminate].
  destruct (zlen (trim_sp a) =? 0); [discriminate|]. destruct (idx (trim_sp a) 0); [|discriminate].
  destruct (z =? DOLLAR); [discriminate|].
  destruct (negb (bytes_eqb (trim_sp a) OPTIONS) && bytes_eqb (trim_sp b) STAR); [discriminate|].
  destruct (url (trim_sp b)); [|discriminate]. intros H; inversion H; subst.
  apply slice_len in A as (LA & _). apply slice_len in B as (LB & ? & ? & ?). apply slice_len in C as (LC & _).
  pose proof (trim_sp_len a). pose proof (trim_sp_len c). lia.
Qed.

Lemma parse_status_line_size line pr code st r :
  parse_status_line line = Ok (pr, code, st) r -> zlen pr + zlen st <= zlen line.
Proof.
  unfold parse_status_line. destruct (index_byte SP line <? 0) eqn:E; [discriminate|].
  destruct (slice line 0 (index_byte SP line)) as [a|] eqn:A; [|discriminate].
  destruct (slice line (index_byte SP line + 1) (zlen line)) as [b|] eqn:B; [|discriminate].
  destruct (if index_byte SP (trim_left (Z.eqb SP) b) <? 0 then Some (trim_left (Z.eqb SP) b)
            else slice (trim_left (Z.eqb SP) b) 0 (index_byte SP (trim_left (Z.eqb SP) b))) as [cs|]; [|discriminate].
  destruct (negb (zlen cs =? 3)); [discriminate|]. destruct (parse_dec cs) as [c|]; [|discriminate].
  destruct (c <? 0); [discriminate|]. intros H; inversion H; subst.
  apply slice_len in A as (LA & _). apply slice_len in B as (LB & _).
  pose proof (trim_left_len (Z.eqb SP) b). lia.
Qed.

(* the memory a parsed message holds: one line's worth per header value plus one for the
   first line, plus the body limit (the Request-URI is held by net/url) *)
Theorem request_bounded url s q rest : read_request url s = Ok q rest ->
  request_size q <= max_line * (hcount (q_hdr q) + 1) + max_body.
Proof.
  unfold read_request. destruct (read_line s) as [line s1|e|] eqn:R; try discriminate.
  apply read_line_ok in R as (LL & _).
  destruct (parse_request_line url line) as [[[m u] p] ?|e|] eqn:P; try discriminate.
  apply parse_request_line_size in P.
  unfold read_header. destruct (read_header_f (S (length s1)) s1 []) as [h s2|e|] eqn:H; try discriminate.
  apply read_header_f_size in H; [|cbn; lia].
  destruct (read_body h s2) as [b s3|e|] eqn:B; try discriminate. apply read_body_ok in B as [_ B].
  intros X; inversion X; subst. unfold request_size. cbn [q_method q_proto q_hdr q_body]. lia.
Qed.

Theorem response_bounded s p rest : read_response s = Ok p rest ->
  response_size p <= max_line * (hcount (p_hdr p) + 1) + max_body.
Proof.
  unfold read_response. destruct (read_line s) as [line s1|e|] eqn:R; try discriminate.
  apply read_line_ok in R as (LL & _).
  destruct (parse_status_line line) as [[[pr c] st] ?|e|] eqn:P; try discriminate.
  apply parse_status_line_size in P.
  unfold read_header. destruct (read_header_f (S (length s1)) s1 []) as [h s2|e|] eqn:H; try discriminate.
  apply read_header_f_size in H; [|cbn; lia].
  destruct (read_body h s2) as [b s3|e|] eqn:B; try discriminate. apply read_body_ok in B as [_ B].
  intros X; inversion X; subst. unfold response_size. cbn [p_proto p_status p_hdr p_body]. lia.
Qed.

(* before the repair: no bound on a line, and a body cut short was padded with zeros *)
Lemma read_line_unbounded_refuted n :
  read_line_lim None (repeat 65 (S n) ++ [LF]) = Ok (repeat 65 (S n)) [].
Proof.
  unfold read_line_lim. cbn [repeat app]. 
  assert (SL : split_lf (65 :: repeat 65 n ++ [LF]) = Some (65 :: repeat 65 n, [])).
  { change (65 :: repeat 65 n ++ [LF]) with ((65 :: repeat 65 n) ++ LF :: []). apply split_lf_app.
    intros I. change (65 :: repeat 65 n) with (repeat 65 (S n)) in I. apply repeat_spec in I. discriminate. }
  rewrite SL. f_equal.
  assert (G : forall l, (forall x, In x l -> x = 65) -> strip_cr l = l).
  { induction l as [|a l IH]; intros A; [reflexivity|]. cbn [strip_cr]. destruct l as [|b l].
    - rewrite (A a (or_introl eq_refl)). reflexivity.
    - rewrite IH; [reflexivity|]. intros x I. apply A. right. exact I. }
  apply G. intros x I. change (65 :: repeat 65 n) with (repeat 65 (S n)) in I. apply repeat_spec in I. exact I.
Qed.

(* ---------- the oracle accepts the model, whatever net/url does ---------- *)
Lemma list_eqb_refl {A} (e : A -> A -> bool) l : (forall x, e x x = true) -> list_eqb e l l = true.
Proof. intros R. induction l as [|x l IH]; cbn [list_eqb]; [reflexivity|]. rewrite R, IH. reflexivity. Qed.
Lemma field_eqb_refl x : field_eqb x x = true.
Proof. unfold field_eqb. rewrite bytes_eqb_refl, list_eqb_refl by apply bytes_eqb_refl. reflexivity. Qed.
Lemma hdr_eqb_refl h : hdr_eqb h h = true.
Proof. unfold hdr_eqb. apply list_eqb_refl, field_eqb_refl. Qed.
Lemma event_eqb_refl w ev : event_eqb w ev ev = true.
Proof.
  destruct ev as [q|p|c d|]; cbn [event_eqb]; rewrite ?bytes_eqb_refl, ?gourl_eqb_refl, ?hdr_eqb_refl, ?Z.eqb_refl, ?orb_true_r; reflexivity.
Qed.

Lemma parse_request_line_url url line :
  parse_request_line url line =
  match parse_request_line url_accept line with
  | Ok (m, u, p) _ => match url (g_path u) with Some g => Ok (m, fix_url g, p) [] | None => Err EUrl end
  | Err e => Err e
  | Panic => Panic
  end.
Proof.
  unfold parse_request_line, url_accept.
  destruct (slice line (index_byte SP line + 1) (zlen line)) as [tail|]; [|reflexivity].
  destruct ((index_byte SP line <? 0) || (index_byte SP tail <? 0)); [reflexivity|].
  destruct (slice line 0 (index_byte SP line)) as [a|]; [|reflexivity].
  destruct (slice line (index_byte SP line + 1) (index_byte SP tail + index_byte SP line + 1)) as [b|]; [|reflexivity].
  destruct (slice line (index_byte SP tail + index_byte SP line + 1 + 1) (zlen line)) as [c|]; [|reflexivity].
  destruct (zlen (trim_sp a) =? 0); [reflexivity|]. destruct (idx (trim_sp a) 0); [|reflexivity].
  destruct (z =? DOLLAR); [reflexivity|].
  destruct (negb (bytes_eqb (trim_sp a) OPTIONS) && bytes_eqb (trim_sp b) STAR); reflexivity.
Qed.

Lemma parse_request_line_accept_err line e : parse_request_line url_accept line = Err e -> e = EMalformed.
Proof.
  unfold parse_request_line, url_accept.
  destruct (slice line (index_byte SP line + 1) (zlen line)) as [tail|]; [|discriminate].
  destruct ((index_byte SP line <? 0) || (index_byte SP tail <? 0)); [intros H; inversion H; reflexivity|].
  destruct (slice line 0 (index_byte SP line)) as [a|]; [|discriminate].
  destruct (slice line (index_byte SP line + 1) (index_byte SP tail + index_byte SP line + 1)) as [b|]; [|discriminate].
  destruct (slice line (index_byte SP tail + index_byte SP line + 1 + 1) (zlen line)) as [c|]; [|discriminate].
  destruct (zlen (trim_sp a) =? 0); [intros H; inversion H; reflexivity|]. destruct (idx (trim_sp a) 0); [|discriminate].
  destruct (z =? DOLLAR); [intros H; inversion H; reflexivity|].
  destruct (negb (bytes_eqb (trim_sp a) OPTIONS) && bytes_eqb (trim_sp b) STAR); [intros H; inversion H; reflexivity|discriminate].
Qed.

Lemma read_header_f_err f : forall s h e, read_header_f f s h = Err e -> e <> EUrl.
Proof.
  induction f as [|f IH]; intros s h e; cbn [read_header_f]; [intros H; inversion H; discriminate|].
  destruct (read_line s) as [kv r|e'|] eqn:R; [| |discriminate].
  - destruct (zlen kv =? 0); [discriminate|].
    destruct (parse_header_line kv) as [[|k v] ?|e'|] eqn:P; try discriminate; try apply IH.
    apply parse_header_line_err in P. subst e'. intros H; inversion H; discriminate.
  - apply read_line_err in R. intros H; inversion H; subst. destruct R; subst; discriminate.
Qed.
Lemma read_body_err h s e : read_body h s = Err e -> e <> EUrl.
Proof.
  unfold read_body, read_body_lim. destruct (content_length h <=? 0); [discriminate|].
  destruct (content_length h >? max_body); [intros H; inversion H; discriminate|].
  destruct (zlen s <? content_length h); [intros H; inversion H; discriminate|discriminate].
Qed.

(* a request differs between two URL oracles only in the URL, or in stopping at the URL *)
Definition same_but_url (a b : request) : Prop :=
  q_method a = q_method b /\ q_proto a = q_proto b /\ q_hdr a = q_hdr b /\ q_body a = q_body b.

Lemma read_request_url url s :
  match read_request url s with
  | Ok q rest => exists q', read_request url_accept s = Ok q' rest /\ same_but_url q' q
  | Err EUrl => read_request url_reject s = Err EUrl
  | Err e => exists e', read_request url_accept s = Err e'
  | Panic => True
  end.
Proof.
  unfold read_request. destruct (read_line s) as [line s1|e|] eqn:R.
  2:{ apply read_line_err in R. destruct R; subst; eauto. }
  2:{ exact I. }
  rewrite (parse_request_line_url url line), (parse_request_line_url url_reject line).
  destruct (parse_request_line url_accept line) as [[[m u] p] ?|e|] eqn:P.
  2:{ apply parse_request_line_accept_err in P. subst e. eauto. }
  2:{ exact I. }
  unfold url_reject at 1. destruct (url (g_path u)) as [u'|]; [|reflexivity].
  destruct (read_header s1) as [h s2|e|] eqn:H.
  2:{ unfold read_header in H. pose proof (read_header_f_err _ _ _ _ H). destruct e; try congruence; eauto. }
  2:{ exact I. }
  destruct (read_body h s2) as [b s3|e|] eqn:B.
  - eexists. split; [reflexivity|]. unfold same_but_url. cbn. tauto.
  - pose proof (read_body_err _ _ _ B). destruct e; try congruence; eauto.
  - exact I.
Qed.

(* the stepper either does not look at the URL oracle at all, or is ReadRequest *)
Lemma stepper_shape kind cfg s :
  (exists g, forall url, stepper url kind cfg s = g) \/
  (forall url, stepper url kind cfg s = map_res EvReq (read_request url s)).
Proof.
  unfold stepper. destruct (kind =? 1); [right; reflexivity|].
  destruct (kind =? 2); [left; eexists; reflexivity|]. destruct (kind =? 3); [left; eexists; reflexivity|].
  destruct s as [|c0 [|c1 [|c2 [|c3 s']]]]; try (left; eexists; intros; apply receive_short; cbn; lia).
  destruct (c0 =? DOLLAR) eqn:D; [left; eexists; intros; rewrite receive_cons4, D; reflexivity|].
  destruct ((c0 =? 82) && (c1 =? 84) && (c2 =? 83) && (c3 =? 80)) eqn:R.
  - left; eexists; intros; rewrite receive_cons4, D, R; reflexivity.
  - right. intros. rewrite receive_cons4, D, R. reflexivity.
Qed.

Lemma stepper_url url kind cfg s :
  match stepper url kind cfg s with
  | Ok ev rest => exists ev', stepper url_accept kind cfg s = Ok ev' rest /\ event_eqb false ev' ev = true
  | Err EUrl => stepper url_reject kind cfg s = Err EUrl
  | Err e => exists e', stepper url_accept kind cfg s = Err e'
  | Panic => True
  end.
Proof.
  destruct (stepper_shape kind cfg s) as [[g G]|G].
  - rewrite !G. destruct g as [ev rest|e|]; [|destruct e; eauto|exact I].
    eexists. split; [reflexivity|apply event_eqb_refl].
  - rewrite !G. pose proof (read_request_url url s) as H.
    destruct (read_request url s) as [q rest|e|]; cbn [map_res].
    + destruct H as (q' & -> & (A & B & C & D)). cbn [map_res]. eexists. split; [reflexivity|].
      cbn [event_eqb negb orb]. rewrite A, B, C, D, !bytes_eqb_refl, hdr_eqb_refl. reflexivity.
    + destruct e; try (destruct H as [e' H]; rewrite H; cbn [map_res]; eexists; reflexivity).
      rewrite H. reflexivity.
    + exact I.
Qed.

Lemma ok_walk_model url kind cfg f : forall s pos l fin,
  read_all (stepper url kind cfg) f s = (l, fin) -> fin <> FFuel ->
  ok_walk kind cfg s pos (obs_events pos s l) (obs_final fin) = true.
Proof.
  induction f as [|f IH]; intros s pos l fin; cbn [read_all].
  - intros H; inversion H; congruence.
  - destruct s as [|c s]; [intros H _; inversion H; reflexivity|].
    pose proof (stepper_url url kind cfg (c :: s)) as U. pose proof (stepper_total url kind cfg (c :: s)) as T.
    destruct (stepper url kind cfg (c :: s)) as [ev rest|e|]; [| |congruence].
    + destruct (read_all (stepper url kind cfg) f rest) as [evs fin'] eqn:RA.
      intros H NF; inversion H; subst. clear H. cbn [obs_events ok_walk].
      destruct U as (ev' & -> & EQ). rewrite EQ, Z.eqb_refl. cbn [andb]. apply IH; assumption.
    + intros H _; inversion H; subst. clear H. cbn [obs_events].
      destruct e; cbn [obs_final ok_walk]; try (destruct U as [e' ->]; reflexivity). rewrite U. reflexivity.
Qed.

Theorem model_passes_raw url kind cfg s slack :
  0 <= slack ->
  let '(evs, fin) := model_obs url kind cfg s in ok_raw kind cfg s slack evs fin (zlen s) = true.
Proof.
  intros SL. unfold model_obs, read_stream.
  destruct (read_all (stepper url kind cfg) (S (length s)) s) as [l fin] eqn:RA.
  unfold ok_raw. rewrite (ok_walk_model url kind cfg _ _ _ _ _ RA).
  - cbn [andb]. lia.
  - pose proof (read_all_no_fuel _ (stepper_ok url kind cfg) (S (length s)) s ltac:(lia)) as NF.
    rewrite RA in NF. exact NF.
Qed.

Lemma events_match_expected cfg items tail : forall pos s more,
  events_match (obs_events pos s (expected cfg items tail ++ more)) (map norm_item items) = true.
Proof.
  induction items as [|it l IH]; intros pos s more; cbn [expected map app obs_events events_match];
    [destruct (obs_events pos s more); reflexivity|].
  rewrite event_eqb_refl. cbn [andb]. apply IH.
Qed.

Theorem model_passes_items url cfg items tail slack :
  0 <= slack ->
  let s := concat_items cfg items ++ tail in
  let '(evs, fin) := model_obs url 0 cfg s in
  ok_items url cfg items tail slack s evs fin (zlen s) = true.
Proof.
  intros SL s. pose proof (model_passes_raw url 0 cfg s slack SL) as R.
  unfold model_obs in *. destruct (read_stream (stepper url 0 cfg) s) as [l fin] eqn:RS.
  unfold ok_items. fold s. rewrite bytes_eqb_refl, R. cbn [andb].
  destruct (forallb (item_wf url cfg) items) eqn:W; [|reflexivity].
  change (stepper url 0 cfg) with (receive url cfg) in RS.
  unfold s in RS. rewrite (stream_reader_exact_tail url cfg items tail W) in RS.
  destruct (read_stream (receive url cfg) tail) as [evs fin'] eqn:RT.
  inversion RS; subst. rewrite events_match_expected. cbn [andb].
  destruct tail; [|reflexivity]. cbv in RT. inversion RT; subst. reflexivity.
Qed.

(* the pion panic before the repair *)
Lemma read_packet_panic_refuted :
  read_packet_gen false [0; 1; 2; 3]
    [36; 0; 0; 20; 144; 96; 0; 1; 0; 0; 0; 0; 0; 0; 0; 0; 190; 222; 0; 1; 31; 0; 0; 0] = Panic.
Proof. vm_compute. reflexivity. Qed.
(* a truncated body fabricated a message before the repair *)
Lemma read_body_padded_refuted :
  read_body_lim None true [(CONTENT_LENGTH, [[53]])] [97; 98] = Ok [97; 98; 0; 0; 0] [].
Proof. vm_compute. reflexivity. Qed.
(* and any Content-Length up to 2^31-1 was allocated *)
Lemma read_body_unbounded_refuted :
  exists h, content_length h = 2000000000 /\ read_body_lim None true h [] <> Err EBodyTooBig /\
            read_body h [] = Err EBodyTooBig.
Proof.
  exists [(CONTENT_LENGTH, [[50; 48; 48; 48; 48; 48; 48; 48; 48; 48]])].
  split; [vm_compute; reflexivity|]. split; [|vm_compute; reflexivity].
  unfold read_body_lim. replace (content_length _) with 2000000000 by (vm_compute; reflexivity).
  cbn [Z.leb Z.compare Z.ltb zlen length Z.of_nat]. discriminate.
Qed.

(* ---------- statements as used in Properties/C14.v ---------- *)
Lemma read_all_final url kind cfg f : forall s, (length s < f)%nat ->
  match snd (read_all (stepper url kind cfg) f s) with FDone | FErr _ => True | FPanic | FFuel => False end.
Proof.
  induction f as [|f IH]; intros s F; [lia|]. cbn [read_all]. destruct s as [|c s]; [exact I|].
  pose proof (stepper_total url kind cfg (c :: s)) as T.
  destruct (stepper url kind cfg (c :: s)) as [ev rest|e|] eqn:E; [|exact I|congruence].
  apply stepper_ok in E. specialize (IH rest ltac:(lia)).
  destruct (read_all (stepper url kind cfg) f rest) as [evs fin]. exact IH.
Qed.

Theorem reader_total url cfg s :
  read_request url s <> Panic /\ read_response s <> Panic /\ read_packet cfg s <> Panic /\
  receive url cfg s <> Panic /\
  forall kind, match snd (read_stream (stepper url kind cfg) s) with
               | FDone | FErr _ => True | FPanic | FFuel => False end.
Proof.
  split; [apply read_request_total|]. split; [apply read_response_total|]. split; [apply read_packet_total|].
  split; [apply receive_total|]. intros kind. apply read_all_final. lia.
Qed.

Theorem reader_bounded :
  (* a line is never assembled beyond the limit, and rejection needs max_line + 2 bytes only *)
  (forall s l rest, read_line s = Ok l rest -> zlen l <= max_line) /\
  (forall p t, ~ In LF p -> max_line + 2 <= zlen p -> read_line (p ++ t) = Err ELineTooLong) /\
  (* a body is never allocated beyond the limit, and rejection needs no byte of it *)
  (forall h s body rest, read_body h s = Ok body rest -> zlen body <= max_body) /\
  (forall h s, max_body < content_length h -> read_body h s = Err EBodyTooBig) /\
  (* what a parsed message holds *)
  (forall url s q rest, read_request url s = Ok q rest ->
     request_size q <= max_line * (hcount (q_hdr q) + 1) + max_body) /\
  (forall s p rest, read_response s = Ok p rest ->
     response_size p <= max_line * (hcount (p_hdr p) + 1) + max_body).
Proof.
  split; [intros s l rest H; apply read_line_ok in H; tauto|].
  split; [exact line_too_long|].
  split; [intros h s body rest H; apply read_body_ok in H; tauto|].
  split; [exact body_too_big|].
  split; [exact request_bounded|exact response_bounded].
Qed.

(* the header fuel is never the reason for an error *)
Theorem read_header_no_fuel s : read_header s <> Err EFuel.
Proof. unfold read_header. apply read_header_f_fuel. lia. Qed.

(* ---------- the RTP header model never runs out of fuel (on byte strings) ---------- *)
Lemma idx_byte d i b : all_bytes d = true -> idx d i = Some b -> 0 <= b < 256.
Proof.
  unfold idx, all_bytes. destruct (i <? 0); [discriminate|]. intros A H. apply nth_error_In in H.
  rewrite forallb_forall in A. specialize (A b H). unfold is_byte in A. lia.
Qed.

Lemma ext_onebyte_fuel d f : forall curr endp, all_bytes d = true -> Z.max 0 (endp - curr) < Z.of_nat f ->
  ext_onebyte f d curr endp <> HFuel.
Proof.
  induction f as [|f IH]; intros curr endp A F; cbn [ext_onebyte].
  - lia.
  - destruct (curr <? endp) eqn:E; [|discriminate].
    destruct (idx d curr) as [b|] eqn:I; [|discriminate]. pose proof (idx_byte d curr b A I).
    destruct (b =? 0); [apply IH; [exact A|lia]|].
    destruct (b / 16 =? 15); [discriminate|].
    destruct (curr + 1 + (b mod 16 + 1) <=? zlen d); [|discriminate]. apply IH; [exact A|lia].
Qed.
Lemma ext_twobyte_fuel d f : forall curr endp, all_bytes d = true -> Z.max 0 (endp - curr) < Z.of_nat f ->
  ext_twobyte f d curr endp <> HFuel.
Proof.
  induction f as [|f IH]; intros curr endp A F; cbn [ext_twobyte].
  - lia.
  - destruct (curr <? endp) eqn:E; [|discriminate].
    destruct (idx d curr) as [b|] eqn:I; [|discriminate].
    destruct (b =? 0); [apply IH; [exact A|lia]|].
    destruct (idx d (curr + 1)) as [l|] eqn:I2; [|discriminate]. pose proof (idx_byte d (curr + 1) l A I2).
    destruct (curr + 2 + l <=? zlen d); [|discriminate]. apply IH; [exact A|lia].
Qed.

Theorem rtp_hdr_check_no_fuel d : all_bytes d = true -> rtp_hdr_check d <> HFuel.
Proof.
  intros A. unfold rtp_hdr_check. destruct (zlen d <? 4); [discriminate|].
  destruct (idx d 0) as [b0|] eqn:I0; [|discriminate]. pose proof (idx_byte d 0 b0 A I0).
  destruct (zlen d <? 12 + 4 * (b0 mod 16)); [discriminate|].
  destruct ((b0 / 16) mod 2 =? 0); [discriminate|].
  destruct (zlen d <? 12 + 4 * (b0 mod 16) + 4); [discriminate|].
  destruct (be16_at d (12 + 4 * (b0 mod 16))) as [pr|]; [|discriminate].
  destruct (be16_at d (12 + 4 * (b0 mod 16) + 2)) as [w|]; [|discriminate].
  destruct (zlen d <? 12 + 4 * (b0 mod 16) + 4 + w * 4) eqn:E; [discriminate|].
  assert (F : Z.max 0 (12 + 4 * (b0 mod 16) + 4 + w * 4 - (12 + 4 * (b0 mod 16) + 4)) < Z.of_nat (S (length d))).
  { unfold zlen in E. lia. }
  destruct (pr =? 48862); [apply ext_onebyte_fuel; assumption|].
  destruct (pr =? 4096); [apply ext_twobyte_fuel; assumption|discriminate].
Qed.

(* what norm_hdr means: under every key K the parsed header holds, in written (key-sorted)
   order, the ", "-joined values of the fields whose canonical key is K *)
Theorem norm_hdr_lookup h body K :
  hvals (norm_hdr h body) K =
  map (fun e => join_vals (snd e))
      (filter (fun e => bytes_eqb (canon_key (fst e)) K) (hsort (set_cl h body))).
Proof. unfold norm_hdr. rewrite hvals_norm_fold. reflexivity. Qed.
