(* C09 — the ADTS header describes the AudioSpecificConfig: for every configuration of the
   modelled classes, Decode followed by ToAdtsHeader's choice yields the announced fields.
   The domain is finite (5+4+4+3+4 bits of syntax elements): exhaustive computation, lifted. *)
From Coq Require Import ZArith List Bool Lia.
From V Require Import Bytes C09Adts C09Asc C09TsFrame C09TsWriter C09TsDemux C09MuxProofs.
Import ListNotations.
Open Scope Z_scope.

Definition asc_eqb (a b : asc) : bool :=
  (asc_obj a =? asc_obj b) && (asc_sidx a =? asc_sidx b) && (asc_chan a =? asc_chan b).
Lemma asc_eqb_eq a b : asc_eqb a b = true -> a = b.
Proof.
  destruct a, b. unfold asc_eqb. cbn. intros H.
  apply andb_true_iff in H. destruct H as (H & H3). apply andb_true_iff in H. destruct H as (H1 & H2).
  apply Z.eqb_eq in H1. apply Z.eqb_eq in H2. apply Z.eqb_eq in H3. subst. reflexivity.
Qed.

Definition asc_check (e : asc_env) : bool :=
  negb (wf_env e) ||
  (match asc_of_config (asc_encode e) with
   | Some a => asc_eqb a (asc_of_env e)
   | None => false
   end && asc_plain (asc_of_env e)).

Definition zr (n : nat) : list Z := map Z.of_nat (seq 0 n).

Lemma asc_sweep :
  forallb (fun aot => forallb (fun sfi => forallb (fun chan => forallb (fun sg => forallb (fun ext =>
    asc_check {| e_aot := aot; e_sfi := sfi; e_chan := chan; e_sig := sg; e_ext_sfi := ext |})
    (zr 13)) (zr 6)) (zr 8)) (zr 13)) (zr 5) = true.
Proof. vm_compute. reflexivity. Qed.

Theorem asc_adts_fields e : wf_env e = true ->
  asc_of_config (asc_encode e) = Some (asc_of_env e) /\ asc_plain (asc_of_env e) = true.
Proof.
  intros Hwf. destruct e as [aot sfi chan sg ext].
  assert (Hb : 0 <= aot < 5 /\ 0 <= sfi < 13 /\ 0 <= chan < 8 /\ 0 <= sg < 6 /\ 0 <= ext < 13).
  { unfold wf_env in Hwf. cbn in Hwf. lia. }
  destruct Hb as (H1 & H2 & H3 & H4 & H5).
  pose proof asc_sweep as S.
  pose proof (zrange_forall _ 5 S aot ltac:(lia)) as S1. cbv beta in S1.
  pose proof (zrange_forall _ 13 S1 sfi ltac:(lia)) as S2. cbv beta in S2.
  pose proof (zrange_forall _ 8 S2 chan ltac:(lia)) as S3. cbv beta in S3.
  pose proof (zrange_forall _ 6 S3 sg ltac:(lia)) as S4. cbv beta in S4.
  pose proof (zrange_forall _ 13 S4 ext ltac:(lia)) as S5. cbv beta in S5.
  unfold asc_check in S5. rewrite Hwf in S5. cbn [negb orb] in S5.
  apply andb_true_iff in S5. destruct S5 as (Sa & Sb). split; [| exact Sb].
  destruct (asc_of_config _) as [a |]; [| discriminate].
  apply asc_eqb_eq in Sa. subst a. reflexivity.
Qed.

(* the seed's class, concretely: sync extension with sbrPresentFlag = 0 announces the CORE index *)
Example asc_sync_nosbr_core :
  asc_of_config [0x12; 0x10; 0x56; 0xE5; 0x00] = Some {| asc_obj := 2; asc_sidx := 4; asc_chan := 2 |}.
Proof. vm_compute. reflexivity. Qed.

(* every ADTS header of the audio elementary stream describes the configuration *)
Theorem adts_describes_config e pays : wf_env e = true ->
  Forall (fun p => zlen p + 7 < 8192) pays ->
  exists a, asc_of_config (asc_encode e) = Some a /\
    adts_parse (concat (map (adts_enc a) pays)) =
    Some (map (fun p => {| ad_profile := e_aot e - 1; ad_sidx := env_adts_sfi e;
                           ad_chan := e_chan e; ad_payload := p |}) pays).
Proof.
  intros Hwf Hp. destruct (asc_adts_fields e Hwf) as (Ha & Hplain).
  exists (asc_of_env e). split; [exact Ha |]. rewrite adts_chain by assumption. reflexivity.
Qed.

(* the muxer, with the configuration given as bytes *)
Theorem mux_config_passes e sps0 pps0 evs a : wf_env e = true ->
  asc_of_config (asc_encode e) = Some a ->
  forallb (fun af => wf_cframe (a_c af)) (annotate sps0 pps0 evs) = true ->
  exists out, mux_events sps0 pps0 a evs = MuxBytes out /\
              ok_muxa (asc_of_env e) (annotate sps0 pps0 evs) out = true.
Proof.
  intros Hwf Ha Hfs. destruct (asc_adts_fields e Hwf) as (Ha' & Hplain).
  rewrite Ha' in Ha. inversion Ha. subst a.
  apply mux_events_passes. unfold wf_mux_ev, wf_aframes. rewrite Hplain, Hfs. reflexivity.
Qed.
