(* C10 — proofs about the persistent disk store, Model/C10HlsDisk.v *)
From Coq Require Import ZArith List Bool Lia ZifyBool.
From V Require Import Val Bytes BytesLemmas C10Hls C10HlsProofs C10HlsDisk.
Import ListNotations.
Open Scope Z_scope.

(* ------------------------------------------------------------------ the map *)
Lemma dget_dset_eq d n v : dget (dset d n v) n = Some v.
Proof. unfold dset. cbn. rewrite Z.eqb_refl. reflexivity. Qed.
Lemma dget_dset_neq d n m v : n <> m -> dget (dset d n v) m = dget d m.
Proof. intros H. unfold dset. cbn. destruct (n =? m) eqn:E; [lia | reflexivity]. Qed.
Lemma dget_ddel_neq d n m : n <> m -> dget (ddel d n) m = dget d m.
Proof.
  intros H. unfold ddel. induction d as [|[k v] d IH]; [reflexivity|]. cbn [filter fst].
  destruct (k =? n) eqn:E; cbn [negb].
  - cbn [dget]. destruct (k =? m) eqn:E2; [lia | exact IH].
  - cbn [dget]. destruct (k =? m); [reflexivity | exact IH].
Qed.

(* ------------------------------------------------------------------ store events of the primitives *)
Lemma release_all_fevs l : forall s, fevs (release_all l s) = fevs s ++ map (fun g => FDelete (s_seq g)) l.
Proof.
  induction l as [|g l IH]; intros s; cbn [release_all map]; [rewrite app_nil_r; reflexivity|].
  rewrite IH. cbn [release fevs]. rewrite <- app_assoc. reflexivity.
Qed.

(* the segments whose store segmentClose deletes *)
Definition evicted (s : st) (g : seg) : list seg :=
  if s_dur g <? MIN_TICKS then [g] else firstn (length (pl s) + 1 - 3) (pl s ++ [g]).

Lemma segment_close_fevs s g : cur s = Some g ->
  fevs (segment_close s) = fevs s ++ map (fun x => FDelete (s_seq x)) (evicted s g).
Proof.
  intros Hc. unfold segment_close, evicted. rewrite Hc. destruct (s_dur g <? MIN_TICKS).
  - reflexivity.
  - unfold add_segment, clear_segments. cbn [pl set_pl add_closed set_cur]. rewrite app_length. cbn [length].
    destruct (WINDOW <? length (pl s) + 1)%nat eqn:Hw.
    + cbn [set_pl fevs]. rewrite release_all_fevs. reflexivity.
    + unfold WINDOW in Hw. replace (length (pl s) + 1 - 3)%nat with 0%nat by lia. cbn. rewrite app_nil_r. reflexivity.
Qed.

Lemma segment_open_fevs c start hdr a s : cur s = None ->
  fevs (segment_open c start hdr a s) = fevs s ++ [FOpen (seqno s + 1)].
Proof.
  intros Hc. unfold segment_open. rewrite Hc. unfold alloc.
  destruct (nth_error (free s) (c_pick c (free s))); reflexivity.
Qed.

Lemma flush_frame_fevs w s g : cur s = Some g -> fevs (flush_frame w s) = fevs s ++ [FWrite (s_seq g) w].
Proof. intros Hc. unfold flush_frame. rewrite Hc. reflexivity. Qed.

Lemma reap_fevs c start a s g : cur s = Some g ->
  fevs (reap c start a s) =
  fevs s ++ map (fun x => FDelete (s_seq x)) (evicted s g) ++ [FOpen (seqno (segment_close s) + 1)] ++
  match cache s with Some ca => [FWrite (seqno (segment_close s) + 1) (cache_frame ca)] | None => [] end.
Proof.
  intros Hc. unfold reap.
  pose proof (segment_close_spec s g Hc) as SC. cbn zeta in SC. destruct SC as (C1 & C2 & _).
  pose proof (segment_open_spec c start false a (segment_close s) C1) as SO. cbn zeta in SO.
  destruct SO as (b & O1 & _ & O3 & _).
  unfold flush_cache. rewrite O3, C2. destruct (cache s) as [ca|].
  - cbn [set_cache fevs]. rewrite (flush_frame_fevs _ _ _ O1). cbn [s_seq].
    rewrite (segment_open_fevs _ _ _ _ _ C1), (segment_close_fevs _ _ Hc). rewrite <- !app_assoc. reflexivity.
  - rewrite (segment_open_fevs _ _ _ _ _ C1), (segment_close_fevs _ _ Hc). rewrite <- !app_assoc, app_nil_r. reflexivity.
Qed.

(* ------------------------------------------------------------------ numbering facts from Inv1 *)
Lemma pl_seq_range s g : Inv1 s -> In g (pl s) -> lastno s - Z.of_nat (length (pl s)) + 1 <= s_seq g <= lastno s.
Proof.
  intros I1 Hin. pose proof (consecutive_map_in _ _ (s_seq g) (i_cons _ I1) (in_map s_seq _ _ Hin)) as R.
  rewrite map_length in R. lia.
Qed.

Lemma pl_seq_inj s g g' : Inv1 s -> In g (pl s) -> In g' (pl s) -> s_seq g = s_seq g' -> g = g'.
Proof.
  intros I1 H1 H2 E. pose proof (find_seg_consecutive _ _ _ (i_cons _ I1) H1) as F1.
  pose proof (find_seg_consecutive _ _ _ (i_cons _ I1) H2) as F2. rewrite E in F1. congruence.
Qed.

Lemma consecutive_firstn k : forall n l, consecutive n l = true -> consecutive n (firstn k l) = true.
Proof.
  induction k as [|k IH]; intros n l H; [reflexivity|]. destruct l as [|x l]; [reflexivity|].
  cbn [firstn consecutive] in *. apply andb_true_iff in H as [H1 H2]. rewrite H1. cbn [andb]. apply IH. exact H2.
Qed.

Section Disk.
  Variable tsw : list wframe -> bytes.
  Variable d0 : disk.

  Definition D (s : st) : disk := apply_fevs tsw true d0 (fevs s).

  (* every live segment of the generation (listed or open) is, on disk, exactly its own frames over an empty file *)
  Definition K (s : st) : Prop :=
    forall g, In g (pl s ++ curl s) -> dget (D s) (s_seq g) = Some (DGen (s_frames g) []).

  Lemma D_app s es s' : fevs s' = fevs s ++ es -> D s' = apply_fevs tsw true (D s) es.
  Proof. intros E. unfold D, apply_fevs. rewrite E, fold_left_app. reflexivity. Qed.

  Lemma dels_other (l : list seg) : forall d m, (forall x, In x l -> s_seq x <> m) ->
    dget (apply_fevs tsw true d (map (fun x => FDelete (s_seq x)) l)) m = dget d m.
  Proof.
    induction l as [|x l IH]; intros d m H; [reflexivity|]. cbn [map apply_fevs fold_left apply_fev].
    change (fold_left (apply_fev tsw true) (map (fun x0 => FDelete (s_seq x0)) l) (ddel d (s_seq x)))
      with (apply_fevs tsw true (ddel d (s_seq x)) (map (fun x0 => FDelete (s_seq x0)) l)).
    rewrite IH by (intros y Hy; apply H; right; exact Hy).
    apply dget_ddel_neq. apply H. left. reflexivity.
  Qed.

  Lemma K_same s s' : fevs s' = fevs s -> pl s' = pl s -> cur s' = cur s -> K s -> K s'.
  Proof. unfold K, D, curl. intros -> -> ->. auto. Qed.

  Lemma K_flush_frame w s g : cur s = Some g -> Inv1 s -> K s -> K (flush_frame w s).
  Proof.
    intros Hc I1 HK x Hin.
    rewrite (D_app s [FWrite (s_seq g) w] _ (flush_frame_fevs w s g Hc)).
    cbn [apply_fevs fold_left apply_fev].
    pose proof (HK g ltac:(apply in_or_app; right; unfold curl; rewrite Hc; left; reflexivity)) as Hg. rewrite Hg.
    unfold flush_frame in Hin. rewrite Hc in Hin. unfold curl in Hin. cbn [add_fev set_cur pl cur] in Hin.
    apply in_app_or in Hin. destruct Hin as [Hin|[<-|[]]].
    - rewrite dget_dset_neq.
      + apply HK. apply in_or_app. left. exact Hin.
      + pose proof (pl_seq_range s x I1 Hin) as R. pose proof (i_curseq _ I1 g Hc) as E.
        unfold lastno in R. rewrite Hc in R. lia.
    - cbn [seg_write s_seq s_frames]. apply dget_dset_eq.
  Qed.

  Lemma K_flush_cache s : Inv1 s -> K s -> K (flush_cache s).
  Proof.
    intros I1 HK. unfold flush_cache. destruct (cache s) as [a|]; [|exact HK].
    destruct (cur s) as [g|] eqn:Hc.
    - eapply K_same; [| | |eapply (K_flush_frame (cache_frame a) s g Hc I1 HK)]; reflexivity.
    - unfold flush_frame. rewrite Hc. eapply K_same; [| | |exact HK]; reflexivity.
  Qed.

  Lemma K_reap c start a s g : cur s = Some g -> Inv1 s -> K s -> K (reap c start a s).
  Proof.
    intros Hc I1 HK.
    pose proof (reap_spec c start a s g Hc) as R. cbn zeta in R.
    destruct R as (s1 & g' & CA & _ & R1 & R2 & _ & _ & _ & R3 & _ & _ & R5 & _).
    pose proof (reap_fevs c start a s g Hc) as RF.
    pose proof (segment_close_spec s g Hc) as SC. cbn zeta in SC. destruct SC as (_ & _ & _ & _ & _ & CA2).
    set (n' := seqno (segment_close s) + 1) in *.
    pose proof (i_curseq _ I1 g Hc) as Eg.
    assert (Ln : lastno s = seqno s - 1) by (unfold lastno; rewrite Hc; reflexivity).
    (* the numbers of pl s ++ [g] are consecutive *)
    assert (KL : consecutive (seqno s - 1 - Z.of_nat (length (pl s)) + 1) (map s_seq (pl s ++ [g])) = true).
    { pose proof (i_cons _ I1) as B. rewrite Ln in B.
      rewrite map_app, consecutive_app, B, map_length. cbn. rewrite Eg. lia. }
    (* what stays listed, what is evicted, and the new number *)
    assert (FACTS : (forall x, In x (pl (reap c start a s)) -> In x (pl s ++ [g]) /\
                               (forall e, In e (evicted s g) -> s_seq e <> s_seq x) /\ s_seq x <> n')).
    { intros x Hx. rewrite R5 in Hx. unfold evicted.
      assert (Hs1 : seqno s1 = seqno (segment_close s) /\ pl s1 = pl (segment_close s)).
      { destruct CA as [? E1 E2 | ? E1 E2], CA2 as [? F1 F2 | ? F1 F2]; try lia; split; congruence. }
      destruct CA as [Hd E1 E2 E3 E4 E5 | Hd E1 E2 E3 E4 E5].
      - rewrite E2 in Hx. assert (Hlt : (s_dur g <? MIN_TICKS) = true) by lia. rewrite Hlt.
        pose proof (pl_seq_range s x I1 Hx) as Rg.
        split; [apply in_or_app; left; exact Hx|]. split.
        + intros e [<-|[]]. lia.
        + subst n'. destruct Hs1 as [<- _]. lia.
      - rewrite E2 in Hx. assert (Hlt : (s_dur g <? MIN_TICKS) = false) by lia. rewrite Hlt.
        set (k := (length (pl s) + 1 - 3)%nat) in *.
        split; [eapply in_skipn; exact Hx|]. split.
        + intros e He.
          pose proof (consecutive_firstn k _ _ KL) as KF. rewrite firstn_map in KF.
          pose proof (consecutive_map_in _ _ (s_seq e) KF (in_map s_seq _ _ He)) as Re.
          pose proof (consecutive_skipn k _ _ KL) as KS. rewrite skipn_map in KS.
          pose proof (consecutive_map_in _ _ (s_seq x) KS (in_map s_seq _ _ Hx)) as Rx.
          rewrite map_length, firstn_length in Re. rewrite map_length in Rx. lia.
        + pose proof (consecutive_map_in _ _ (s_seq x) KL (in_map s_seq _ _ (in_skipn _ _ _ Hx))) as Rx.
          rewrite map_length, app_length in Rx. cbn [length] in Rx.
          subst n'. destruct Hs1 as [<- _]. lia. }
    assert (Hn' : s_seq g' = n').
    { rewrite R2. subst n'. destruct CA as [? E1 | ? E1], CA2 as [? F1 | ? F1]; try lia; congruence. }
    intros x Hin. rewrite (D_app s _ _ RF). unfold apply_fevs. rewrite !fold_left_app.
    fold (apply_fevs tsw true (D s) (map (fun x0 => FDelete (s_seq x0)) (evicted s g))).
    set (d1 := apply_fevs tsw true (D s) (map (fun x0 => FDelete (s_seq x0)) (evicted s g))).
    cbn [fold_left apply_fev].
    set (d2 := dset d1 n' (DGen [] [])).
    unfold curl in Hin. rewrite R1 in Hin. apply in_app_or in Hin. destruct Hin as [Hin|[<-|[]]].
    - destruct (FACTS x Hin) as (F1 & F2 & F3).
      assert (X : dget d2 (s_seq x) = Some (DGen (s_frames x) [])).
      { subst d2. rewrite dget_dset_neq by lia. subst d1. rewrite dels_other by exact F2.
        apply HK. apply in_app_or in F1. destruct F1 as [F1|[<-|[]]]; apply in_or_app; [left; exact F1|].
        right. unfold curl. rewrite Hc. left. reflexivity. }
      destruct (cache s) as [ca|]; [|exact X].
      cbn [fold_left apply_fev]. subst d2. rewrite dget_dset_eq. rewrite dget_dset_neq by lia. exact X.
    - rewrite Hn'. destruct (cache s) as [ca|]; destruct R3 as [-> _].
      + cbn [fold_left apply_fev]. subst d2. rewrite dget_dset_eq. apply dget_dset_eq.
      + cbn [fold_left]. subst d2. apply dget_dset_eq.
  Qed.

  Definition P (s : st) : Prop := Inv1 s /\ K s.

  Lemma P_write_frame c f s : P s -> P (write_frame c f s).
  Proof.
    apply (write_frame_preserves P).
    - intros s1 o [A B]. split; [eapply Inv1_shape; [|exact A]; reflexivity | eapply K_same; [| | |exact B]; reflexivity].
    - intros s1 b n [A B]. split; [eapply Inv1_shape; [|exact A]; reflexivity | eapply K_same; [| | |exact B]; reflexivity].
    - intros s1 [A B]. split; [eapply Inv1_shape; [symmetry; apply shape_flush_cache | exact A] | apply K_flush_cache; assumption].
    - intros s1 g [A B] Hg _. split; [eapply Inv1_reap; eauto | eapply K_reap; eauto].
    - intros s1 g [A B] Hg _. split; [eapply Inv1_shape; [symmetry; apply shape_flush_frame | exact A] | eapply K_flush_frame; eauto].
    - intros s1 g [A B] Hg _ _.
      pose proof (reap_spec c (f_pts f) false s1 g Hg) as R. cbn zeta in R. destruct R as (_ & g' & _ & _ & R1 & _).
      assert (A' : Inv1 (reap c (f_pts f) false s1)) by (eapply Inv1_reap; eauto).
      split; [eapply Inv1_shape; [symmetry; apply shape_flush_frame | exact A'] |].
      eapply K_flush_frame; eauto. eapply K_reap; eauto.
  Qed.

  Lemma P_init c : P (init c).
  Proof.
    split; [apply Inv1_init|]. unfold init.
    pose proof (segment_open_spec c 0 true false init_free eq_refl) as SO. cbn zeta in SO.
    destruct SO as (b & O1 & _ & _ & _ & _ & O6 & _).
    intros g Hin. unfold curl in Hin. rewrite O1, O6 in Hin. destruct Hin as [<-|[]].
    unfold D. rewrite (segment_open_fevs c 0 true false init_free eq_refl). cbn [fevs init_free app apply_fevs fold_left apply_fev s_seq s_frames seqno].
    apply dget_dset_eq.
  Qed.

  Lemma P_close_all s : P s -> P (close_all s).
  Proof.
    intros [A B]. pose proof (close_all_spec s) as R. cbn zeta in R. destruct R as (R1 & R2 & R3 & R4 & R5 & R6).
    split.
    - constructor; unfold lastno; rewrite ?R1, ?R2, ?R3; cbn.
      + intros g Hg. discriminate.
      + reflexivity.
      + lia.
      + exists (closed s). rewrite app_nil_r. reflexivity.
      + intros H. congruence.
    - intros g Hin. unfold curl in Hin. rewrite R1, R2 in Hin. destruct Hin.
  Qed.
End Disk.

Definition is_newgen (o : op) : bool := match o with ONewGen _ => true | _ => false end.

Lemma P_steps tsw d0 ops : forall c s, forallb (fun o => negb (is_newgen o)) ops = true ->
  P tsw d0 s -> P tsw d0 (steps c s ops).
Proof.
  induction ops as [|o ops IH]; intros c s Hn HP; [exact HP|].
  cbn [forallb] in Hn. apply andb_true_iff in Hn as [H1 H2]. cbn [steps]. apply IH; [exact H2|].
  destruct o; cbn [step_st]; try exact HP; [apply P_write_frame; exact HP | apply P_close_all; exact HP | discriminate].
Qed.

(* ------------------------------------------------------------------ the theorems *)
(* a generation of the stream (any operations without a generation change, ending wherever they end) over ANY
   directory content [d0] left by earlier runs: the file of every listed segment — and of the open one — holds
   exactly the transport stream of that segment's frames of THIS generation, i.e. what memory mode returns
   ([fetch] in memory mode is [RCopy (s_frames g)], read as [tsw (s_frames g)]) *)
Theorem fetch_current_generation (tsw : list wframe -> bytes) c d0 ops g :
  forallb (fun o => negb (is_newgen o)) ops = true ->
  let s := steps c (init c) ops in
  In g (pl s ++ curl s) ->
  disk_read tsw (apply_fevs tsw true d0 (fevs s)) (s_seq g) = Some (tsw (s_frames g)) /\
  (In g (pl s) -> fetch c (s_seq g) s <> None ->
   forall r, fetch (set_mem c) (s_seq g) s = Some r -> forall s', read_bytes tsw r s' = tsw (s_frames g)).
Proof.
  intros Hn s Hin. pose proof (P_steps tsw d0 ops c (init c) Hn (P_init tsw d0 c)) as [I1 HK]. fold s in I1, HK.
  split.
  - unfold disk_read. fold (D tsw d0 s). rewrite (HK g Hin). cbn [option_map file_bytes].
    unfold overlay. rewrite skipn_nil, app_nil_r. reflexivity.
  - intros Hpl _ r Hr s'. unfold fetch in Hr. rewrite (find_seg_consecutive _ _ _ (i_cons _ I1) Hpl) in Hr.
    cbn [set_mem c_mem c_copy andb negb] in Hr. injection Hr as <-. reflexivity.
Qed.

(* several generations: each runs its operations over the directory the previous ones left (closed or abandoned) *)
Fixpoint gens_disk (tsw : list wframe -> bytes) (trunc : bool) (c : cfg) (d : disk) (gens : list (list op)) : disk :=
  match gens with
  | [] => d
  | ops :: t => gens_disk tsw trunc c (apply_fevs tsw trunc d (fevs (steps c (init c) ops))) t
  end.

Corollary fetch_after_generations (tsw : list wframe -> bytes) c d0 gens ops g :
  forallb (fun o => negb (is_newgen o)) ops = true ->
  let s := steps c (init c) ops in
  In g (pl s) ->
  disk_read tsw (apply_fevs tsw true (gens_disk tsw true c d0 gens) (fevs s)) (s_seq g) = Some (tsw (s_frames g)).
Proof.
  intros Hn s Hin. apply (fetch_current_generation tsw c (gens_disk tsw true c d0 gens) ops g Hn).
  apply in_or_app. left. exact Hin.
Qed.

(* the variant that opens without truncating: an earlier generation was abandoned after listing a long segment 1;
   the new generation's (shorter) segment 1 is served with the old tail *)
Definition disk_cfg_d : cfg :=
  {| c_frag := 1; c_rate := 44100; c_mem := false; c_copy := true; c_path := [47; 97]; c_sps := [103]; c_pps := [104];
     c_pick := fun _ => O |}.
Definition big_key (i : Z) : frame :=
  {| f_kind := KK; f_pts := i * 90000; f_dts := i * 90000; f_pay := [101; i; 1; 2; 3; 4; 5; 6; 7; 8; 9] |}.
Definition old_gen : list op := map (fun i => OFrame (big_key i)) [0; 1; 2].
Definition new_gen : list op := map (fun i => OFrame (d19_key i)) [0; 1; 2; 3; 4].

Theorem no_truncate_refuted :
  let c := disk_cfg_d in
  let s := steps c (init c) new_gen in
  exists g, In g (pl s) /\ s_seq g = 1 /\
    disk_read toy_tsw (apply_fevs toy_tsw false (gens_disk toy_tsw false c [] [old_gen]) (fevs s)) 1
      <> Some (toy_tsw (s_frames g)) /\
    disk_read toy_tsw (apply_fevs toy_tsw true (gens_disk toy_tsw true c [] [old_gen]) (fevs s)) 1
      = Some (toy_tsw (s_frames g)).
Proof.
  cbn zeta. eexists. split; [vm_compute; left; reflexivity|]. split; [reflexivity|].
  split; [vm_compute; discriminate | vm_compute; reflexivity].
Qed.
