From Coq Require Import ZArith List Bool Arith Lia.
From V Require Import Bytes BytesLemmas C13Shared.
Import ListNotations.
Open Scope nat_scope.

Record SInv (st0 : nat -> bytes) (s : sstate) : Prop := {
  si_store : forall i, s_store s i = st0 i;
  si_hdr : forall w i l, s_hdr s w = Some (i, l) -> l = length (st0 i);
  si_out : forall f, In f (s_out s) -> f_len f = length (f_body f) /\ f_body f = st0 (f_pkt f)
}.

Lemma sinv_step st0 s o :
  SInv st0 s -> match o with STrim _ _ => False | _ => True end -> SInv st0 (sstep s o).
Proof.
  intros [S H O] N. destruct o as [w i|w|i|i n]; simpl; try contradiction.
  - constructor; simpl; auto. intros w' i' l'. unfold updn. destruct (Nat.eqb w' w).
    + intros E. inversion E; subst. rewrite S. reflexivity.
    + apply H.
  - destruct (s_hdr s w) as [[i l]|] eqn:E; [|constructor; assumption].
    constructor; simpl; auto.
    + intros w' i' l'. unfold updn. destruct (Nat.eqb w' w); [discriminate | apply H].
    + intros f Hf. apply in_app_or in Hf as [Hf|[Hf|[]]]; [apply O; exact Hf|]. subst f. simpl.
      rewrite S. split; [apply (H _ _ _ E) | reflexivity].
  - constructor; assumption.
Qed.

Lemma sinv_run st0 ops : forall s, SInv st0 s -> packets_immutable ops = true -> SInv st0 (srun ops s).
Proof.
  induction ops as [|o r IH]; intros s I P; simpl; [exact I|].
  simpl in P. apply andb_prop in P as [P1 P2]. apply IH; [|exact P2].
  apply sinv_step; [exact I|]. destruct o; try exact Logic.I. discriminate.
Qed.

Lemma sinv_init st0 : SInv st0 (sinit st0).
Proof. constructor; simpl; auto; try discriminate. intros f []. Qed.

(* for every interleaving of any number of writers and readers: every frame is self-consistent
   (announced length = length of the body) and its body is the published packet *)
Theorem shared_frames_consistent st0 ops :
  packets_immutable ops = true ->
  forall f, In f (s_out (srun ops (sinit st0))) ->
    f_len f = length (f_body f) /\ f_body f = st0 (f_pkt f).
Proof. intros P. apply (si_out _ _ (sinv_run st0 ops _ (sinv_init st0) P)). Qed.

(* so the chunks on the wire are the immutable message the Writers model is about *)
Theorem shared_frames_are_values st0 ops ch :
  packets_immutable ops = true ->
  forall f, In f (s_out (srun ops (sinit st0))) ->
    frame_msg ch (f_len f) (f_body f) = frame_msg ch (length (st0 (f_pkt f))) (st0 (f_pkt f)).
Proof.
  intros P f Hf. destruct (shared_frames_consistent st0 ops P f Hf) as [L B]. rewrite L, B. reflexivity.
Qed.

Theorem shared_packets_unchanged st0 ops :
  packets_immutable ops = true -> forall i, s_store (srun ops (sinit st0)) i = st0 i.
Proof. intros P. apply (si_store _ _ (sinv_run st0 ops _ (sinv_init st0) P)). Qed.

Theorem shared_model_passes st0 ops :
  packets_immutable ops = true -> ok_frames st0 (s_out (srun ops (sinit st0))) = true.
Proof.
  intros P. unfold ok_frames. rewrite forallb_forall. intros f Hf.
  destruct (shared_frames_consistent st0 ops P f Hf) as [L B].
  rewrite L, Nat.eqb_refl, B. apply bytes_eqb_refl.
Qed.

(* the in-place trim (padding stripped by re-slicing the shared packet) between prefix and body:
   6 bytes announced, 4 sent; the purity probe sees it too *)
Definition padded_pkt : bytes := [160; 97; 1; 2; 2; 2]%Z.
Example trim_between_prefix_and_body_refuted :
  let st0 := fun i => match i with O => padded_pkt | _ => [] end in
  let ops := [SLen 0 0; STrim 0 2; SBody 0] in
  let s := srun ops (sinit st0) in
  packets_immutable ops = false /\
  map (fun f => (f_len f, length (f_body f))) (s_out s) = [(6, 4)] /\
  ok_frames st0 (s_out s) = false /\ ok_pure [st0 0] [s_store s 0] = false.
Proof. vm_compute. repeat split; reflexivity. Qed.

(* trimmed before the writer starts: consistent, but not the published packet *)
Example trim_before_prefix_refuted :
  let st0 := fun i => match i with O => padded_pkt | _ => [] end in
  let s := srun [STrim 0 2; SLen 0 0; SBody 0] (sinit st0) in
  map (fun f => (f_len f, length (f_body f))) (s_out s) = [(4, 4)] /\ ok_frames st0 (s_out s) = false.
Proof. vm_compute. repeat split; reflexivity. Qed.

Example shared_nonvacuous :
  let st0 := fun i => match i with O => padded_pkt | _ => [9; 9]%Z end in
  let ops := [SLen 0 0; SLen 1 0; SRead 0; SBody 1; SLen 1 1; SRead 1; SBody 0; SBody 1] in
  let s := srun ops (sinit st0) in
  packets_immutable ops = true /\
  map (fun f => (f_writer f, f_pkt f, f_len f)) (s_out s) = [(1, 0, 6); (0, 0, 6); (1, 1, 2)] /\
  ok_frames st0 (s_out s) = true.
Proof. vm_compute. repeat split; reflexivity. Qed.
