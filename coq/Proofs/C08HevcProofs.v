(* C08 — the HEVC decoder configuration record and the metadata describe the parameter sets *)
From Coq Require Import ZArith List Bool Lia ZifyBool.
From V Require Import Bytes BytesLemmas C15BitFmt C15Ebsp C15H264 C15Hevc
  C15BitFmtProofs C15EbspProofs C15H264Proofs C15HevcProofs
  C08Amf0 C08Flv C08Hevc C08Amf0Proofs C08FlvProofs.
Import ListNotations.
Open Scope Z_scope.
Opaque K.
Ltac Zify.zify_post_hook ::= Z.div_mod_to_equations.

(* the Go decoders read back the field values the parameter sets were emitted from *)
Lemma go_vps_env rec b a :
  emit std_h265_vps rec env0 = Some (b, a) -> nal_shape_ok (nal_of_bits b) = true ->
  go_hevc_env go_h265_vps (nal_of_bits b) = Some a.
Proof.
  intros He Hs. unfold go_hevc_env. rewrite (nal_bits_of_bits b Hs). unfold pad8. rewrite <- app_assoc.
  now rewrite (refines_parse _ _ _ _ _ _ h265_vps_refines He).
Qed.
Lemma go_sps_env rec b a :
  emit std_h265_sps rec env0 = Some (b, a) -> nal_shape_ok (nal_of_bits b) = true ->
  go_hevc_env go_h265_sps (nal_of_bits b) = Some a.
Proof.
  intros He Hs. unfold go_hevc_env. rewrite (nal_bits_of_bits b Hs). unfold pad8. rewrite <- app_assoc.
  now rewrite (refines_parse _ _ _ _ _ _ h265_sps_refines He).
Qed.

Lemma land_range n a b : 0 <= n -> 0 <= a < 2 ^ n -> 0 <= b -> 0 <= Z.land a b < 2 ^ n.
Proof.
  intros Hn Ha Hb. assert (N : 0 <= Z.land a b) by (apply Z.land_nonneg; lia). split; [assumption|].
  destruct (Z.eq_dec (Z.land a b) 0) as [E|E]; [rewrite E; apply Z.pow_pos_nonneg; lia|].
  apply Z.log2_lt_pow2; [lia|]. pose proof (Z.log2_land a b ltac:(lia) Hb) as L.
  destruct (Z.eq_dec a 0) as [->|Ea]; [rewrite Z.land_0_l in E; contradiction|].
  assert (Z.log2 a < n) by (apply Z.log2_lt_pow2; lia). lia.
Qed.

Lemma lor252 c : 0 <= c <= 3 -> Z.lor c 252 = 252 + c.
Proof. intros. assert (c = 0 \/ c = 1 \/ c = 2 \/ c = 3) as [->|[->|[->| ->]]] by lia; reflexivity. Qed.
Lemma lor248 c : 0 <= c <= 7 -> Z.lor c 248 = 248 + c.
Proof.
  intros. assert (c = 0 \/ c = 1 \/ c = 2 \/ c = 3 \/ c = 4 \/ c = 5 \/ c = 6 \/ c = 7)
    as [->|[->|[->|[->|[->|[->|[->| ->]]]]]]] by lia; reflexivity.
Qed.

Lemma land_ones_l n x : 0 <= n -> 0 <= x < 2 ^ n -> Z.land (2 ^ n - 1) x = x.
Proof.
  intros Hn Hx. rewrite Z.land_comm. replace (2 ^ n - 1) with (Z.ones n) by (rewrite Z.ones_equiv; lia).
  rewrite Z.land_ones by lia. apply Z.mod_small. lia.
Qed.

Definition hacc_ranges (h : hacc) : Prop :=
  0 <= ha_space h <= 3 /\ 0 <= ha_tier h <= 1 /\ 0 <= ha_idc h <= 31 /\ 0 <= ha_compat h < 4294967296 /\
  0 <= ha_constr h < 281474976710656 /\ 0 <= ha_level h <= 255 /\ 0 <= ha_layers h <= 7.

Lemma be48_dec v : 0 <= v < 281474976710656 -> be_decode (be48 v) = v.
Proof.
  intros H. unfold be48.
  assert (A : be_decode (c08_be16 (v / 4294967296) ++ c08_be32 (v mod 4294967296)) =
              be_decode (c08_be16 (v / 4294967296)) * 4294967296 + be_decode (c08_be32 (v mod 4294967296))).
  { unfold c08_be16, c08_be32, be_decode, be_decode_acc, app. ring. }
  rewrite A, be16_dec, be32_dec by lia. lia.
Qed.

Lemma hvcc_fields_bytes h nest chroma bdl bdc :
  hacc_ranges h -> 0 <= nest <= 1 -> 0 <= chroma <= 3 -> 0 <= bdl <= 7 -> 0 <= bdc <= 7 ->
  hvcc_fields (hvcc_bytes h nest chroma bdl bdc) =
  mkHF (ha_space h) (ha_tier h) (ha_idc h) (ha_compat h) (ha_constr h) (ha_level h)
       0 0 chroma bdl bdc 0 0 (ha_layers h) nest 3 /\
  hvcc_fixed_ok (hvcc_bytes h nest chroma bdl bdc) = true /\
  length (hvcc_bytes h nest chroma bdl bdc) = 21%nat.
Proof.
  intros (R1 & R2 & R3 & R4 & R5 & R6 & R7) Hn Hc Hl Hb.
  set (o := hvcc_bytes h nest chroma bdl bdc).
  assert (E1 : firstn 4 (skipn 1 o) = c08_be32 (ha_compat h)) by reflexivity.
  assert (E2 : firstn 6 (skipn 5 o) = be48 (ha_constr h)) by reflexivity.
  assert (E3 : firstn 2 (skipn 12 o) = [240; 0]) by reflexivity.
  assert (E4 : firstn 2 (skipn 18 o) = [0; 0]) by reflexivity.
  assert (B0 : nth_byte o 0 = (ha_space h * 64 + ha_tier h * 32 + ha_idc h) mod 256) by reflexivity.
  assert (B11 : nth_byte o 11 = ha_level h mod 256) by reflexivity.
  assert (B12 : nth_byte o 12 = 240) by reflexivity.
  assert (B14 : nth_byte o 14 = 252) by reflexivity.
  assert (B15 : nth_byte o 15 = Z.lor (chroma mod 256) 252) by reflexivity.
  assert (B16 : nth_byte o 16 = Z.lor (bdl mod 256) 248) by reflexivity.
  assert (B17 : nth_byte o 17 = Z.lor (bdc mod 256) 248) by reflexivity.
  assert (B20 : nth_byte o 20 = (ha_layers h * 8 + nest * 4 + 3) mod 256) by reflexivity.
  rewrite (Z.mod_small chroma), lor252 in B15 by lia.
  rewrite (Z.mod_small bdl), lor248 in B16 by lia. rewrite (Z.mod_small bdc), lor248 in B17 by lia.
  split; [|split; [|reflexivity]].
  - unfold hvcc_fields. rewrite E1, E2, E3, E4, B0, B11, B14, B15, B16, B17, B20.
    rewrite be32_dec, be48_dec by lia. change (be_decode [240; 0] mod 4096) with 0. change (be_decode [0; 0]) with 0.
    f_equal; lia.
  - unfold hvcc_fixed_ok. rewrite B12, B14, B15, B16, B17, B20. lia.
Qed.

Lemma ptl_constr_range a : ptl_ranges a = true -> 0 <= ptl_constr a < 281474976710656.
Proof. unfold ptl_ranges, in_range, ptl_constr. lia. Qed.

Lemma ifpos x : 0 <= x -> (if 0 <? x then x else 0) = x.
Proof. intros. destruct (Z.ltb_spec 0 x); lia. Qed.

Lemma ifsame (b : bool) (x : Z) : (if b then x else x) = x.
Proof. now destruct b. Qed.

Lemma apply_ps_two av a :
  ptl_ranges av = true -> ptl_ranges a = true ->
  let h := apply_ps (apply_ps hacc0 av) a in
  hacc_ranges h /\
  ha_space h = get a (h_ptl_space 0) /\
  ha_tier h = Z.max (get av (h_ptl_tier 0)) (get a (h_ptl_tier 0)) /\
  ha_idc h = Z.max (get av (h_ptl_idc 0)) (get a (h_ptl_idc 0)) /\
  ha_compat h = Z.land (get av (h_ptl_compat 0)) (get a (h_ptl_compat 0)) /\
  ha_constr h = Z.land (ptl_constr av) (ptl_constr a) /\
  ha_level h = (if get av (h_ptl_tier 0) <? get a (h_ptl_tier 0) then get a (h_ptl_level 0)
                else Z.max (get av (h_ptl_level 0)) (get a (h_ptl_level 0))) /\
  ha_layers h = Z.max (get av h_max_sub + 1) (get a h_max_sub + 1).
Proof.
  intros Rv Rs. pose proof (ptl_constr_range av Rv) as Cv. pose proof (ptl_constr_range a Rs) as Cs.
  unfold ptl_ranges, in_range in Rv, Rs.
  assert (Kc : Z.land (Z.land 4294967295 (get av (h_ptl_compat 0))) (get a (h_ptl_compat 0)) =
               Z.land (get av (h_ptl_compat 0)) (get a (h_ptl_compat 0))).
  { change 4294967295 with (2 ^ 32 - 1). rewrite land_ones_l by lia. reflexivity. }
  assert (Kk : Z.land (Z.land 281474976710655 (ptl_constr av)) (ptl_constr a) =
               Z.land (ptl_constr av) (ptl_constr a)).
  { change 281474976710655 with (2 ^ 48 - 1). rewrite land_ones_l by lia. reflexivity. }
  pose proof (land_range 32 (get av (h_ptl_compat 0)) (get a (h_ptl_compat 0)) ltac:(lia) ltac:(lia) ltac:(lia)) as Lc.
  pose proof (land_range 48 (ptl_constr av) (ptl_constr a) ltac:(lia) ltac:(lia) ltac:(lia)) as Lk.
  cbn zeta. unfold apply_ps at 1. cbn [ha_space ha_tier ha_idc ha_compat ha_constr ha_level ha_layers].
  unfold apply_ps, hacc0. cbn [ha_space ha_tier ha_idc ha_compat ha_constr ha_level ha_layers].
  rewrite Kc, Kk. unfold hacc_ranges. cbn [ha_space ha_tier ha_idc ha_compat ha_constr ha_level ha_layers].
  change (2 ^ 32) with 4294967296 in Lc. change (2 ^ 48) with 281474976710656 in Lk.
  rewrite ?(ifpos (get av (h_ptl_tier 0))), ?(ifpos (get av (h_ptl_idc 0))), ?(ifpos (get av (h_ptl_level 0))),
    ?(ifpos ((get av h_max_sub + 1) mod 256)) by lia.
  rewrite ?(ifpos (get av (h_ptl_level 0))) by lia. rewrite ?ifsame.
  repeat split;
  repeat match goal with |- context [if ?x <? ?y then _ else _] => destruct (Z.ltb_spec x y) end; lia.
Qed.

Theorem hvcc_describes_lemma rv bv av rs bs a :
  emit std_h265_vps rv env0 = Some (bv, av) -> emit std_h265_sps rs env0 = Some (bs, a) ->
  nal_shape_ok (nal_of_bits bv) = true -> nal_shape_ok (nal_of_bits bs) = true ->
  hvcc_ranges av a = true ->
  let o := hvcc_of_nals (nal_of_bits bv) (nal_of_bits bs) in
  hvcc_fields o = hvcc_spec av a /\ hvcc_fixed_ok o = true /\ length o = 21%nat.
Proof.
  intros Ev Es Sv Ss R. unfold hvcc_of_nals. rewrite (go_vps_env _ _ _ Ev Sv), (go_sps_env _ _ _ Es Ss).
  unfold hvcc_of_envs. unfold hvcc_ranges in R.
  apply andb_true_iff in R as [R Rbc]. apply andb_true_iff in R as [R Rbl]. apply andb_true_iff in R as [R Rch].
  apply andb_true_iff in R as [R Rn]. apply andb_true_iff in R as [Rv Rs].
  unfold in_range in Rn, Rch, Rbl, Rbc.
  destruct (apply_ps_two av a Rv Rs) as (HR & H1 & H2 & H3 & H4 & H5 & H6 & H7).
  destruct (hvcc_fields_bytes (apply_ps (apply_ps hacc0 av) a) (get a h_nesting) (get a h_chroma)
              (get a h_bd_luma) (get a h_bd_chroma) HR ltac:(lia) ltac:(lia) ltac:(lia) ltac:(lia)) as (F & X & L).
  cbn zeta. split; [|split; assumption]. rewrite F, H1, H2, H3, H4, H5, H6, H7. reflexivity.
Qed.

(* the sequence-header tag of an H.265 stream whose configuration is derived from its parameter sets *)
Theorem hevc_config_describes_lemma c rv bv av rs bs a :
  c_hevc c = true ->
  emit std_h265_vps rv env0 = Some (bv, av) -> emit std_h265_sps rs env0 = Some (bs, a) ->
  c_vps c = nal_of_bits bv -> c_sps c = nal_of_bits bs ->
  nal_shape_ok (c_vps c) = true -> nal_shape_ok (c_sps c) = true ->
  hvcc_ranges av a = true ->
  zlen (c_vps c) < 65536 -> zlen (c_sps c) < 65536 -> zlen (c_pps c) < 65536 ->
  exists v pv o,
    vseq_tag (cfg_derived c false) = Some v /\
    parse_video (t_data v) = Some pv /\ v_frametype pv = 1 /\ v_codec pv = 12 /\ v_pkt pv = 0 /\
    parse_hvcc (v_body pv) = Some (o, c_vps c, c_sps c, c_pps c) /\
    hvcc_fields o = hvcc_spec av a.
Proof.
  intros Hh Ev Es Pv Ps Sv Ss R Lv Ls Lp.
  rewrite Pv in Sv. rewrite Ps in Ss.
  destruct (hvcc_describes_lemma _ _ _ _ _ _ Ev Es Sv Ss R) as (F & X & L). cbn zeta in *.
  unfold cfg_derived. cbn [c_hevc c_sps c_width c_height c_fr]. rewrite Hh.
  unfold vseq_tag. cbn [c_hevc c_hvcc c_vps c_sps c_pps]. rewrite Pv, Ps.
  set (o := hvcc_of_nals (nal_of_bits bv) (nal_of_bits bs)) in *.
  unfold hvcc. rewrite L. change ((21 =? 21)%nat) with true. cbv iota.
  unfold video_codec_id. cbn [c_hevc].
  set (rec := [1] ++ o ++ [3] ++ hvcc_array 32 (nal_of_bits bv) ++ hvcc_array 33 (nal_of_bits bs) ++ hvcc_array 34 (c_pps c)).
  assert (RL : zlen rec < TWO32).
  { subst rec. unfold hvcc_array, zlen, TWO32 in *. rewrite <- Pv, <- Ps.
    repeat (rewrite ?app_length, ?be16_len; cbn [length]). rewrite L. lia. }
  eexists _, _, o. split; [reflexivity|]. cbn [t_data].
  rewrite parse_video_data by (auto || assumption).
  split; [reflexivity|]. cbn [v_frametype v_codec v_pkt v_body]. repeat split.
  - subst rec. rewrite <- Pv, <- Ps.
    apply parse_hvcc_ok; try assumption. unfold hvcc. rewrite L. reflexivity.
  - assumption.
Qed.

(* onMetaData width / height / frame rate derived from the SPS = the standard's derived values *)
Theorem hevc_meta_describes_lemma rec b a :
  emit std_h265_sps rec env0 = Some (b, a) -> h265_ranges a = true -> nal_shape_ok (nal_of_bits b) = true ->
  derive_meta true (nal_of_bits b) = (spec_width265 a, spec_height265 a, fps_bits (spec_fps265 a)).
Proof. intros E R S. unfold derive_meta. now rewrite (h265_dims_spec_partial _ _ _ E R S). Qed.

Theorem h264_meta_describes_lemma rec b a :
  emit std_h264_sps rec env0 = Some (b, a) -> h264_ranges a = true -> nal_shape_ok (nal_of_bits b) = true ->
  derive_meta false (nal_of_bits b) = (spec_width a, spec_height a, fps_bits (spec_fps a)).
Proof. intros E R S. unfold derive_meta. now rewrite (h264_dims_spec _ _ _ E R S). Qed.

Lemma hfields_eqb_refl x : hfields_eqb x x = true.
Proof. unfold hfields_eqb. now rewrite !Z.eqb_refl. Qed.

Theorem hvcc_model_passes_lemma rv rs : hvcc_ok rv rs (hvcc_of_records rv rs) = true.
Proof.
  unfold hvcc_ok, hvcc_of_records.
  destruct (emit std_h265_vps rv env0) as [[bv av]|] eqn:Ev; [|reflexivity].
  destruct (emit std_h265_sps rs env0) as [[bs a]|] eqn:Es; [|reflexivity].
  destruct (nal_shape_ok (nal_of_bits bv) && nal_shape_ok (nal_of_bits bs) && hvcc_ranges av a) eqn:G; [|reflexivity].
  apply andb_true_iff in G as [G R]. apply andb_true_iff in G as [Sv Ss].
  destruct (hvcc_describes_lemma _ _ _ _ _ _ Ev Es Sv Ss R) as (F & _ & L). cbn zeta in *.
  now rewrite F, L, hfields_eqb_refl.
Qed.

(* a Main10 stream with three temporal layers (max_sub_layers_minus1 = 2), 4:2:0, 10 bit *)
Definition ex_vps_rec : env :=
  kv_env [(h_nal_type, 32); (h_tid, 1); (h_max_sub, 2); (h_nesting, 1);
          (h_ptl_idc 0, 2); (h_ptl_compat 0, 536870912); (h_ptl_src4 0, 9); (h_ptl_level 0, 123)].
Definition ex_sps_rec : env :=
  kv_env [(h_nal_type, 33); (h_tid, 1); (h_max_sub, 2); (h_nesting, 1);
          (h_ptl_idc 0, 2); (h_ptl_compat 0, 536870912); (h_ptl_src4 0, 9); (h_ptl_level 0, 123);
          (h_chroma, 1); (h_width, 1920); (h_height, 1088); (h_bd_luma, 2); (h_bd_chroma, 2)].
Lemma hevc_example :
  match emit std_h265_vps ex_vps_rec env0, emit std_h265_sps ex_sps_rec env0 with
  | Some (bv, av), Some (bs, a) =>
      nal_shape_ok (nal_of_bits bv) = true /\ nal_shape_ok (nal_of_bits bs) = true /\
      hvcc_ranges av a = true /\
      hvcc_fields (hvcc_of_nals (nal_of_bits bv) (nal_of_bits bs)) =
        mkHF 0 0 2 536870912 158329674399744 123 0 0 1 2 2 0 0 3 1 3 /\
      derive_meta true (nal_of_bits bs) = (1920, 1088, 0)
  | _, _ => False
  end.
Proof. vm_compute. repeat split. Qed.
