(* C06 — the two codec descriptors meet the hypotheses of the generic
   development; the H.264 / H.265 theorems follow. *)
From Coq Require Import ZArith List Bool Lia ZifyBool.
From V Require Import Bytes BytesLemmas C06Rtp C06NalDepack C06H264Depack C06H265Depack C06BaseProofs C06NalProofs.
Import ListNotations.
Open Scope Z_scope.

Definition bools := [true; false].
Lemma forall_bools (f : bool -> bool) : forallb f bools = true -> forall b, f b = true.
Proof. simpl. intros H b. apply andb_true_iff in H as [H1 H2]. apply andb_true_iff in H2 as [H2 _]. destruct b; auto. Qed.

Lemma idx_1 (a b : Z) (r : bytes) : idx (a :: b :: r) 1 = Some b.
Proof. reflexivity. Qed.
Lemma idx_2 (a b d : Z) (r : bytes) : idx (a :: b :: d :: r) 2 = Some d.
Proof. reflexivity. Qed.

(* ================= H.264 ================= *)
Definition chk264 (h : Z) : bool :=
  (Z.land (Z.lor (Z.land h 224) 28) 31 =? 28) &&
  forallb (fun s => forallb (fun e =>
    let fuh := 128 * b2z s + 64 * b2z e + Z.land h 31 in
    Bool.eqb (Z.land (Z.shiftr fuh 7) 1 =? 1) s && Bool.eqb (Z.land (Z.shiftr fuh 6) 1 =? 1) e &&
    ((128 <=? h) || (Z.lor (Z.land (Z.lor (Z.land h 224) 28) 96) (Z.land fuh 31) =? h))) bools) bools.
Lemma chk264_all : forall_bytes chk264 = true.
Proof. vm_compute. reflexivity. Qed.

Lemma all_bytes_hd h (r : bytes) : all_bytes (h :: r) = true -> 0 <= h < 256.
Proof. unfold all_bytes. simpl. intros H. apply andb_true_iff in H as [H _]. apply is_byte_range. exact H. Qed.

Lemma H264_single u : single264_ok u = true -> k264 u = KSingle /\ u <> [].
Proof.
  destruct u as [|h r]; [discriminate|]. simpl. intros H. apply andb_true_iff in H as [_ H].
  unfold k264. rewrite idx_0_cons. cbv zeta. rewrite H. split; [reflexivity|discriminate].
Qed.

Definition nri_set := [0; 32; 64; 96].
Definition chk_nri (h : Z) : bool := existsb (Z.eqb (Z.land h 96)) nri_set.
Lemma chk_nri_all : forall_bytes chk_nri = true.
Proof. vm_compute. reflexivity. Qed.

Lemma stap_fold_in us : forallb agg_unit_ok us = true ->
  In (fold_right (fun u acc => Z.max (Z.land (hd0 u) 96) acc) 0 us) nri_set.
Proof.
  induction us as [|u r IH]; intros OK; simpl fold_right.
  - simpl. auto.
  - simpl in OK. apply andb_true_iff in OK as [Hu Hr]. specialize (IH Hr).
    unfold agg_unit_ok in Hu. apply andb_true_iff in Hu as [Hu Hb]. apply andb_true_iff in Hu as [Hl _].
    destruct u as [|h t]. { rewrite zlen_nil in Hl. lia. }
    apply all_bytes_hd in Hb. simpl hd0.
    pose proof (forall_bytes_spec _ chk_nri_all h Hb) as X. unfold chk_nri in X.
    apply existsb_exists in X as (v & Vin & Veq). apply Z.eqb_eq in Veq. rewrite Veq.
    set (a := fold_right _ _ _) in *.
    unfold nri_set in *. simpl in Vin, IH |- *.
    destruct Vin as [<-|[<-|[<-|[<-|[]]]]]; destruct IH as [<-|[<-|[<-|[<-|[]]]]]; vm_compute; tauto.
Qed.

Lemma H264_agg us : us <> [] -> forallb agg_unit_ok us = true ->
  k264 (stap_hdr us ++ agg_body us) = KAgg /\ drop 1 (stap_hdr us ++ agg_body us) = agg_body us.
Proof.
  intros _ OK. pose proof (stap_fold_in us OK) as X. unfold stap_hdr. set (a := fold_right _ _ _) in *.
  split; [|reflexivity].
  unfold k264. simpl app. rewrite idx_0_cons. cbv zeta.
  unfold nri_set in X. simpl in X. destruct X as [<-|[<-|[<-|[<-|[]]]]]; reflexivity.
Qed.

Lemma H264_fu u s e ch : frag264_ok u = true -> all_bytes u = true ->
  let pl := fu264_hdr u s e ++ ch in
  k264 pl = KFu /\ u <> [] /\
  exists fuh, idx pl (2 - 1) = Some fuh /\
    (Z.land (Z.shiftr fuh 7) 1 =? 1) = s /\ (Z.land (Z.shiftr fuh 6) 1 =? 1) = e /\
    (zlen pl <? 2) = false /\ drop 2 pl = ch /\
    rebuild264 pl fuh ++ tl u = u.
Proof.
  destruct u as [|h body]; [discriminate|]. simpl frag264_ok. intros H128 UB.
  apply all_bytes_hd in UB.
  pose proof (forall_bytes_spec _ chk264_all h UB) as X. unfold chk264 in X.
  apply andb_true_iff in X as [X1 X2].
  pose proof (forall_bools _ (forall_bools _ X2 s) e) as Y. cbv beta zeta in Y.
  apply andb_true_iff in Y as [Y Y3]. apply andb_true_iff in Y as [Y1 Y2].
  apply eqb_prop in Y1. apply eqb_prop in Y2.
  assert (Y3' : Z.lor (Z.land (Z.lor (Z.land h 224) 28) 96) (Z.land (128 * b2z s + 64 * b2z e + Z.land h 31) 31) = h) by lia.
  cbv zeta. unfold fu264_hdr. simpl hd0. cbn [app].
  set (ind := Z.lor (Z.land h 224) 28) in *. set (fuh := 128 * b2z s + 64 * b2z e + Z.land h 31) in *.
  assert (ZL : (zlen (ind :: fuh :: ch) <? 2) = false).
  { rewrite !zlen_cons. pose proof (zlen_nonneg ch). lia. }
  split; [|split; [discriminate|]].
  - unfold k264. rewrite idx_0_cons. cbv zeta. apply Z.eqb_eq in X1. rewrite X1. rewrite ZL. reflexivity.
  - exists fuh. change (2 - 1) with 1. rewrite idx_1. repeat split; auto.
    unfold rebuild264. rewrite idx_0_cons. rewrite Y3'. reflexivity.
Qed.

Lemma H264_write w pl : w_ready w = true -> pl <> [] ->
  exists w', write264 w pl = Some (w', keep264 pl) /\ w_ready w' = true.
Proof.
  intros R N. destruct pl as [|h r]; [contradiction|].
  unfold write264, keep264. rewrite idx_0_cons. cbv zeta.
  destruct (Z.land h 31 =? 12); [exists w; auto|].
  destruct (Z.land h 31 =? 7); [|destruct (Z.land h 31 =? 8)]; cbn [w_ready]; rewrite R; eexists; split; try reflexivity; auto.
Qed.

(* ================= H.265 ================= *)
Definition chk265 (h : Z) : bool :=
  (Z.land (Z.shiftr (Z.lor (Z.land h 129) 98) 1) 63 =? 49) &&
  (Z.land (Z.shiftr (Z.lor (Z.land h 129) 96) 1) 63 =? 48) &&
  forallb (fun s => forallb (fun e =>
    let fuh := 128 * b2z5 s + 64 * b2z5 e + Z.land (Z.shiftr h 1) 63 in
    Bool.eqb (Z.land (Z.shiftr fuh 7) 1 =? 1) s && Bool.eqb (Z.land (Z.shiftr fuh 6) 1 =? 1) e &&
    (Z.lor (Z.land (Z.lor (Z.land h 129) 98) 129) (Z.shiftl (Z.land fuh 63) 1) =? h)) bools) bools.
Lemma chk265_all : forall_bytes chk265 = true.
Proof. vm_compute. reflexivity. Qed.

Lemma zlen_ge2 (u : bytes) : 2 <= zlen u -> exists h0 h1 r, u = h0 :: h1 :: r.
Proof.
  destruct u as [|h0 [|h1 r]]; rewrite ?zlen_cons, ?zlen_nil; try lia. intros _. eauto.
Qed.

Lemma zlen_lt2 (a b : Z) (r : bytes) : (zlen (a :: b :: r) <? 2) = false.
Proof. rewrite !zlen_cons. pose proof (zlen_nonneg r). lia. Qed.

Lemma H265_single u : single265_ok u = true -> k265 u = KSingle /\ u <> [].
Proof.
  unfold single265_ok. intros H. apply andb_true_iff in H as [H H49]. apply andb_true_iff in H as [HL H48].
  destruct (zlen_ge2 u) as (h0 & h1 & r & ->); [lia|]. split; [|discriminate].
  unfold utype265, nth0 in *. simpl nth in *. unfold k265.
  assert (L : (zlen (h0 :: h1 :: r) <? 2) = false) by lia. rewrite L, idx_0_cons. cbv zeta.
  destruct (Z.land (Z.shiftr h0 1) 63 =? 48); [discriminate|].
  destruct (Z.land (Z.shiftr h0 1) 63 =? 49); [discriminate|]. reflexivity.
Qed.

Lemma H265_agg us : us <> [] -> forallb agg_unit_ok us = true ->
  k265 (ap_hdr us ++ agg_body us) = KAgg /\ drop 2 (ap_hdr us ++ agg_body us) = agg_body us.
Proof.
  intros NE OK. destruct us as [|u r]; [contradiction|]. split; [|reflexivity].
  simpl in OK. apply andb_true_iff in OK as [Hu _].
  unfold agg_unit_ok in Hu. apply andb_true_iff in Hu as [Hu Hb]. apply andb_true_iff in Hu as [Hl _].
  destruct u as [|h t]. { rewrite zlen_nil in Hl. lia. }
  apply all_bytes_hd in Hb.
  pose proof (forall_bytes_spec _ chk265_all h Hb) as X. unfold chk265 in X.
  apply andb_true_iff in X as [X _]. apply andb_true_iff in X as [_ X]. apply Z.eqb_eq in X.
  unfold ap_hdr, nth0. simpl nth. cbn [app]. unfold k265.
  rewrite zlen_lt2, idx_0_cons. cbv zeta. rewrite X. reflexivity.
Qed.

Lemma H265_fu u s e ch : frag265_ok u = true -> all_bytes u = true ->
  let pl := fu265_hdr u s e ++ ch in
  k265 pl = KFu /\ u <> [] /\
  exists fuh, idx pl (3 - 1) = Some fuh /\
    (Z.land (Z.shiftr fuh 7) 1 =? 1) = s /\ (Z.land (Z.shiftr fuh 6) 1 =? 1) = e /\
    (zlen pl <? 3) = false /\ drop 3 pl = ch /\
    rebuild265 pl fuh ++ drop 2 u = u.
Proof.
  unfold frag265_ok. intros HL UB.
  destruct (zlen_ge2 u) as (h0 & h1 & body & ->); [lia|].
  apply all_bytes_hd in UB.
  pose proof (forall_bytes_spec _ chk265_all h0 UB) as X. unfold chk265 in X.
  apply andb_true_iff in X as [X X2]. apply andb_true_iff in X as [X49 _]. apply Z.eqb_eq in X49.
  pose proof (forall_bools _ (forall_bools _ X2 s) e) as Y. cbv beta zeta in Y.
  apply andb_true_iff in Y as [Y Y3]. apply andb_true_iff in Y as [Y1 Y2].
  apply eqb_prop in Y1. apply eqb_prop in Y2. apply Z.eqb_eq in Y3.
  cbv zeta. unfold fu265_hdr, nth0. simpl nth. cbn [app].
  set (ind := Z.lor (Z.land h0 129) 98) in *.
  set (fuh := 128 * b2z5 s + 64 * b2z5 e + Z.land (Z.shiftr h0 1) 63) in *.
  assert (ZL : (zlen (ind :: h1 :: fuh :: ch) <? 3) = false).
  { rewrite !zlen_cons. pose proof (zlen_nonneg ch). lia. }
  assert (ZL2 : (zlen (ind :: h1 :: fuh :: ch) <? 2) = false) by lia.
  split; [|split; [discriminate|]].
  - unfold k265. rewrite ZL2, idx_0_cons. cbv zeta. rewrite X49, ZL. reflexivity.
  - exists fuh. change (3 - 1) with 2. rewrite idx_2. repeat split; auto.
    unfold rebuild265. rewrite idx_0_cons, idx_1. rewrite Y3. reflexivity.
Qed.

Lemma H265_write w pl : w_ready w = true -> pl <> [] ->
  exists w', write265 w pl = Some (w', keep265 pl) /\ w_ready w' = true.
Proof.
  intros R N. destruct pl as [|h r]; [contradiction|].
  unfold write265, keep265. rewrite idx_0_cons. cbv zeta.
  destruct (Z.land (Z.shiftr h 1) 63 =? 32); [|destruct (Z.land (Z.shiftr h 1) 63 =? 33); [|destruct (Z.land (Z.shiftr h 1) 63 =? 34)]];
    cbn [w_ready]; rewrite R; eexists; split; try reflexivity; auto.
Qed.

(* ================= instantiated theorems ================= *)
Definition fk264 (f : uframe) : bool := keep264 (u_pl f).

Theorem h264_items_all : forall seq0 items k st,
  forallb (item_ok z264) items = true -> w_ready (g_w st) = true ->
  exists st', grun c264 st (packetize z264 seq0 k items)
              = (st', filter fk264 (flat_map item_frames items), false) /\ w_ready (g_w st') = true.
Proof. intros seq0. exact (items_all c264 z264 keep264 seq0 H264_single H264_agg H264_fu H264_write). Qed.

Theorem h264_items_loss : forall seq0 items k F w mask,
  forallb (item_ok z264) items = true -> w_ready w = true -> stale seq0 F k -> 0 <= k ->
  length mask = total_pk items -> k + Z.of_nat (total_pk items) <= 65536 ->
  exists F' w', grun c264 (mkG F w) (select mask (packetize z264 seq0 k items))
                = (mkG F' w', spec_loss keep264 items mask, false)
                /\ w_ready w' = true /\ stale seq0 F' (k + Z.of_nat (total_pk items)).
Proof. intros seq0. exact (items_loss c264 z264 keep264 seq0 H264_single H264_agg H264_fu H264_write). Qed.

Theorem h265_items_all : forall seq0 items k st,
  forallb (item_ok z265) items = true -> w_ready (g_w st) = true ->
  exists st', grun c265 st (packetize z265 seq0 k items)
              = (st', filter (fun f => keep265 (u_pl f)) (flat_map item_frames items), false) /\ w_ready (g_w st') = true.
Proof. intros seq0. exact (items_all c265 z265 keep265 seq0 H265_single H265_agg H265_fu H265_write). Qed.

Theorem h265_items_loss : forall seq0 items k F w mask,
  forallb (item_ok z265) items = true -> w_ready w = true -> stale seq0 F k -> 0 <= k ->
  length mask = total_pk items -> k + Z.of_nat (total_pk items) <= 65536 ->
  exists F' w', grun c265 (mkG F w) (select mask (packetize z265 seq0 k items))
                = (mkG F' w', spec_loss keep265 items mask, false)
                /\ w_ready w' = true /\ stale seq0 F' (k + Z.of_nat (total_pk items)).
Proof. intros seq0. exact (items_loss c265 z265 keep265 seq0 H265_single H265_agg H265_fu H265_write). Qed.

Lemma filter_true {A} (l : list A) : filter (fun _ => true) l = l.
Proof. induction l; simpl; congruence. Qed.

Definition h264_item_loss seq0 := item_loss c264 z264 keep264 seq0 H264_single H264_agg H264_fu H264_write.
Definition h265_item_loss seq0 := item_loss c265 z265 keep265 seq0 H265_single H265_agg H265_fu H265_write.
Definition h264_item_all seq0 := item_all c264 z264 keep264 seq0 H264_single H264_agg H264_fu H264_write.
Definition h265_item_all seq0 := item_all c265 z265 keep265 seq0 H265_single H265_agg H265_fu H265_write.

Definition h264_splice_step seq0 := splice_step c264 z264 keep264 seq0 H264_single H264_agg H264_fu H264_write.
Definition h265_splice_step seq0 := splice_step c265 z265 keep265 seq0 H265_single H265_agg H265_fu H265_write.
Definition h264_packetize_prov seq0 := packetize_prov c264 z264 keep264 seq0 H264_single H264_agg H264_fu H264_write.
Definition h265_packetize_prov seq0 := packetize_prov c265 z265 keep265 seq0 H265_single H265_agg H265_fu H265_write.
Definition h264_never_spliced seq0 := never_spliced c264 z264 keep264 seq0 H264_single H264_agg H264_fu H264_write.
Definition h265_never_spliced seq0 := never_spliced c265 z265 keep265 seq0 H265_single H265_agg H265_fu H265_write.
