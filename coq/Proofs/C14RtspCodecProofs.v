(* C14 — lemmas about the RTSP wire codec model: helpers, line framing, header and
   message round-trips.  Totality, boundedness, the stream theorem and the oracle are in
   C14RtspCodecProofs2.v. *)
From Coq Require Import ZArith List Bool Lia Permutation.
From V Require Import Val Bytes StrGo BytesLemmas C14RtspCodec.
Import ListNotations.
Open Scope Z_scope.

(* ---------- lists and lengths ---------- *)
Lemma zlen_cons x s : zlen (x :: s) = 1 + zlen s.
Proof. unfold zlen. simpl length. lia. Qed.
Lemma zlen_nil : zlen [] = 0.
Proof. reflexivity. Qed.
Lemma zlen_0_nil s : zlen s = 0 -> s = [].
Proof. destruct s; [reflexivity|]. rewrite zlen_cons. pose proof (zlen_nonneg s). lia. Qed.

Lemma no_byte_In c s : no_byte c s = true <-> ~ In c s.
Proof.
  unfold no_byte. induction s as [|x s IH]; simpl.
  - split; [intros _ []|reflexivity].
  - rewrite andb_true_iff, IH, negb_true_iff, Z.eqb_neq. split.
    + intros [H1 H2] [E|E]; [congruence|contradiction].
    + intros H. split; [intros E; apply H; left; exact E|intros E; apply H; right; exact E].
Qed.

Lemma firstn_zlen_app (a b : bytes) : firstn (Z.to_nat (zlen a)) (a ++ b) = a.
Proof.
  unfold zlen. rewrite Nat2Z.id. rewrite firstn_app, Nat.sub_diag, firstn_all. simpl. apply app_nil_r.
Qed.
Lemma skipn_zlen_app (a b : bytes) : skipn (Z.to_nat (zlen a)) (a ++ b) = b.
Proof. apply drop_app_exact. Qed.

Lemma take_rev_spec n s acc : take_rev n s acc = rev (firstn n s) ++ acc.
Proof.
  revert s acc; induction n as [|n IH]; intros s acc; simpl; [reflexivity|].
  destruct s as [|c s]; simpl; [reflexivity|]. rewrite IH, <- app_assoc. reflexivity.
Qed.
Lemma take_n_firstn n s : take_n n s = firstn n s.
Proof.
  unfold take_n. rewrite take_rev_spec, app_nil_r, rev_append_rev, app_nil_r. apply rev_involutive.
Qed.

(* ---------- index_byte / slice ---------- *)
Lemma index_from_notin c s i : ~ In c s -> index_from c s i = -1.
Proof.
  revert i; induction s as [|x s IH]; intros i H; simpl; [reflexivity|].
  destruct (x =? c) eqn:E.
  - apply Z.eqb_eq in E. exfalso. apply H. left. exact E.
  - apply IH. intros I. apply H. right. exact I.
Qed.
Lemma index_from_app c p r i : ~ In c p -> index_from c (p ++ c :: r) i = i + zlen p.
Proof.
  revert i; induction p as [|x p IH]; intros i H; simpl.
  - rewrite Z.eqb_refl, zlen_nil. lia.
  - destruct (x =? c) eqn:E.
    + apply Z.eqb_eq in E. exfalso. apply H. left. exact E.
    + rewrite IH, zlen_cons; [lia|]. intros I. apply H. right. exact I.
Qed.
Lemma index_from_range c s i : index_from c s i = -1 \/ (i <= index_from c s i < i + zlen s).
Proof.
  revert i; induction s as [|x s IH]; intros i; simpl; [left; reflexivity|].
  rewrite zlen_cons. pose proof (zlen_nonneg s). destruct (x =? c).
  - destruct (Z.eq_dec i (-1)); [left; exact e|right; lia].
  - destruct (IH (i + 1)) as [H1|H1]; [left; exact H1|right; lia].
Qed.
Lemma index_byte_app c p r : ~ In c p -> index_byte c (p ++ c :: r) = zlen p.
Proof. intros H. unfold index_byte. rewrite index_from_app by exact H. lia. Qed.
Lemma index_byte_range c s : index_byte c s = -1 \/ (0 <= index_byte c s < zlen s).
Proof. apply index_from_range. Qed.
Lemma index_byte_notin c s : ~ In c s -> index_byte c s = -1.
Proof. apply index_from_notin. Qed.

(* the decomposition a found index gives *)
Lemma index_from_split c s i j :
  index_from c s i = j -> j <> -1 -> 0 <= i ->
  exists p r, s = p ++ c :: r /\ ~ In c p /\ j = i + zlen p.
Proof.
  revert i; induction s as [|x s IH]; intros i H N Hi; simpl in H; [congruence|].
  destruct (x =? c) eqn:E.
  - apply Z.eqb_eq in E. subst x. exists [], s. split; [reflexivity|]. split; [intros []|]. rewrite zlen_nil. lia.
  - destruct (IH (i + 1) H N ltac:(lia)) as (p & r & -> & Hp & Hj).
    exists (x :: p), r. split; [reflexivity|]. split.
    + intros [I|I]; [apply Z.eqb_neq in E; congruence|contradiction].
    + rewrite zlen_cons. lia.
Qed.
Lemma index_byte_split c s :
  0 <= index_byte c s -> exists p r, s = p ++ c :: r /\ ~ In c p /\ index_byte c s = zlen p.
Proof.
  intros H. destruct (index_from_split c s 0 (index_byte c s) eq_refl ltac:(lia) ltac:(lia)) as (p & r & E & Hp & Hj).
  exists p, r. split; [exact E|]. split; [exact Hp|lia].
Qed.

Lemma slice_some s i j : 0 <= i -> i <= j -> j <= zlen s ->
  slice s i j = Some (firstn (Z.to_nat (j - i)) (skipn (Z.to_nat i) s)).
Proof.
  intros H1 H2 H3. unfold slice.
  replace ((0 <=? i) && (i <=? j) && (j <=? zlen s)) with true; [reflexivity|].
  symmetry. rewrite !andb_true_iff. repeat split; apply Z.leb_le; assumption.
Qed.
Lemma slice_prefix (p r : bytes) : slice (p ++ r) 0 (zlen p) = Some p.
Proof.
  rewrite slice_some; [|lia|apply zlen_nonneg|rewrite zlen_app; pose proof (zlen_nonneg r); lia].
  simpl skipn. rewrite Z.sub_0_r, firstn_zlen_app. reflexivity.
Qed.
Lemma slice_suffix (p r : bytes) : slice (p ++ r) (zlen p) (zlen (p ++ r)) = Some r.
Proof.
  pose proof (zlen_nonneg p). pose proof (zlen_nonneg r).
  rewrite slice_some; [|lia|rewrite zlen_app; lia|lia].
  rewrite skipn_zlen_app, zlen_app. replace (zlen p + zlen r - zlen p) with (zlen r) by lia.
  unfold zlen. rewrite Nat2Z.id, firstn_all. reflexivity.
Qed.
Lemma slice_suffix1 (p : bytes) c (r : bytes) : slice (p ++ c :: r) (zlen p + 1) (zlen (p ++ c :: r)) = Some r.
Proof.
  replace (p ++ c :: r) with ((p ++ [c]) ++ r) by (rewrite <- app_assoc; reflexivity).
  replace (zlen p + 1) with (zlen (p ++ [c])) by (rewrite zlen_app, zlen_cons, zlen_nil; lia).
  apply slice_suffix.
Qed.
Lemma slice_middle (a b c : bytes) : slice (a ++ b ++ c) (zlen a) (zlen a + zlen b) = Some b.
Proof.
  pose proof (zlen_nonneg a). pose proof (zlen_nonneg b). pose proof (zlen_nonneg c).
  rewrite slice_some; [|lia|lia|rewrite !zlen_app; lia].
  rewrite skipn_zlen_app. replace (zlen a + zlen b - zlen a) with (zlen b) by lia.
  rewrite firstn_zlen_app. reflexivity.
Qed.
Lemma slice_len s i j t : slice s i j = Some t -> zlen t = j - i /\ 0 <= i /\ i <= j /\ j <= zlen s.
Proof.
  unfold slice. destruct ((0 <=? i) && (i <=? j) && (j <=? zlen s)) eqn:E; [|discriminate].
  rewrite !andb_true_iff in E. destruct E as [[E1 E2] E3].
  apply Z.leb_le in E1, E2, E3. intros H. inversion H; subst t. clear H.
  split; [|lia]. unfold zlen in *. rewrite firstn_length, skipn_length. lia.
Qed.

(* ---------- trimming ---------- *)
Lemma trim_left_In f s x : In x (trim_left f s) -> In x s.
Proof.
  induction s as [|c s IH]; simpl; [tauto|]. destruct (f c); [intros H; right; apply IH; exact H|tauto].
Qed.
Lemma trim_left_len f s : zlen (trim_left f s) <= zlen s.
Proof.
  induction s as [|c s IH]; cbn [trim_left]; [lia|]. destruct (f c); [rewrite zlen_cons; lia|lia].
Qed.
Lemma trim_right_sp_In s x : In x (trim_right_sp s) -> In x s.
Proof.
  induction s as [|c s IH]; simpl; [tauto|].
  destruct (trim_right_sp s) as [|t ts] eqn:E.
  - destruct (is_space c); simpl; tauto.
  - intros [H|H]; [left; exact H|right; apply IH; exact H].
Qed.
Lemma trim_right_sp_len s : zlen (trim_right_sp s) <= zlen s.
Proof.
  induction s as [|c s IH]; cbn [trim_right_sp]; [lia|]. rewrite (zlen_cons c s).
  destruct (trim_right_sp s) as [|t ts] eqn:E.
  - pose proof (zlen_nonneg s). destruct (is_space c); [rewrite zlen_nil|rewrite zlen_cons, zlen_nil]; lia.
  - rewrite (zlen_cons c (t :: ts)). lia.
Qed.
Lemma trim_sp_In s x : In x (trim_sp s) -> In x s.
Proof. unfold trim_sp. intros H. apply trim_right_sp_In in H. eapply trim_left_In; exact H. Qed.
Lemma trim_sp_len s : zlen (trim_sp s) <= zlen s.
Proof. unfold trim_sp. pose proof (trim_right_sp_len (trim_left is_space s)). pose proof (trim_left_len is_space s). lia. Qed.

Lemma trim_left_nospace s : forallb (fun c => negb (is_space c)) s = true -> trim_left is_space s = s.
Proof. destruct s as [|c s]; simpl; [reflexivity|]. rewrite andb_true_iff, negb_true_iff. intros [-> _]. reflexivity. Qed.
Lemma trim_right_sp_nospace s : forallb (fun c => negb (is_space c)) s = true -> trim_right_sp s = s.
Proof.
  induction s as [|c s IH]; simpl; [reflexivity|]. rewrite andb_true_iff, negb_true_iff. intros [Hc Hs].
  rewrite (IH Hs). destruct s; [rewrite Hc|]; reflexivity.
Qed.
Lemma trim_sp_token s : forallb (fun c => negb (is_space c)) s = true -> trim_sp s = s.
Proof. intros H. unfold trim_sp. rewrite trim_left_nospace by exact H. apply trim_right_sp_nospace; exact H. Qed.

Lemma canonical_kv_sp v : canonical_kv (SP :: v) = canonical_kv v.
Proof. reflexivity. Qed.
Lemma canonical_kv_len s : zlen (canonical_kv s) <= zlen s.
Proof.
  unfold canonical_kv. pose proof (trim_sp_len (map nl_to_sp s)). unfold zlen in *. rewrite map_length in *. lia.
Qed.
Lemma nl_to_sp_not c x : (c = LF \/ c = CR) -> nl_to_sp x <> c.
Proof.
  unfold nl_to_sp, LF, CR, SP. intros [-> | ->]; destruct ((x =? 10) || (x =? 13)) eqn:E; try lia;
    rewrite orb_false_iff in E; destruct E as [E1 E2]; apply Z.eqb_neq in E1, E2; lia.
Qed.
Lemma fixed_kv_no c s : (c = LF \/ c = CR) -> fixed_kv s = true -> ~ In c s.
Proof.
  intros Hc H. unfold fixed_kv in H. apply bytes_eqb_eq in H. intros I. rewrite <- H in I.
  unfold canonical_kv in I. apply trim_sp_In in I. apply in_map_iff in I as (x & E & _).
  eapply nl_to_sp_not; eauto.
Qed.

(* ---------- lines ---------- *)
Lemma split_lf_app p r : ~ In LF p -> split_lf (p ++ LF :: r) = Some (p, r).
Proof.
  induction p as [|x p IH]; intros H; simpl.
  - reflexivity.
  - destruct (x =? LF) eqn:E.
    + apply Z.eqb_eq in E. exfalso. apply H. left. exact E.
    + rewrite IH; [reflexivity|]. intros I. apply H. right. exact I.
Qed.
Lemma split_lf_some s l r : split_lf s = Some (l, r) -> s = l ++ LF :: r /\ ~ In LF l.
Proof.
  revert l r; induction s as [|x s IH]; intros l r H; simpl in H; [discriminate|].
  destruct (x =? LF) eqn:E.
  - apply Z.eqb_eq in E. inversion H; subst. split; [reflexivity|intros []].
  - destruct (split_lf s) as [[l' r']|] eqn:S; [|discriminate]. inversion H; subst.
    destruct (IH l' r eq_refl) as [-> N]. split; [reflexivity|].
    intros [I|I]; [apply Z.eqb_neq in E; congruence|contradiction].
Qed.
Lemma split_lf_none s : split_lf s = None -> ~ In LF s.
Proof.
  induction s as [|x s IH]; simpl; [intros _ []|].
  destruct (x =? LF) eqn:E; [discriminate|]. destruct (split_lf s) as [[? ?]|]; [discriminate|].
  intros _ [I|I]; [apply Z.eqb_neq in E; congruence|apply IH; [reflexivity|exact I]].
Qed.

Lemma strip_cr_snoc l : strip_cr (l ++ [CR]) = l.
Proof.
  induction l as [|c l IH]; [reflexivity|].
  change ((c :: l) ++ [CR]) with (c :: (l ++ [CR])). simpl strip_cr. rewrite IH.
  destruct (l ++ [CR]) eqn:E; [destruct l; discriminate|reflexivity].
Qed.
Lemma strip_cr_len l : zlen (strip_cr l) <= zlen l.
Proof.
  induction l as [|c l IH]; [simpl; lia|]. simpl strip_cr. destruct l as [|d l].
  - destruct (c =? CR); rewrite ?zlen_cons, ?zlen_nil; lia.
  - rewrite !zlen_cons in *. lia.
Qed.

Lemma read_line_unfold c s :
  read_line (c :: s) =
  let '(l, rest) := match split_lf (c :: s) with
                    | Some (raw, rest) => (strip_cr raw, rest)
                    | None => (c :: s, [])
                    end in
  if zlen l >? max_line then Err ELineTooLong else Ok l rest.
Proof. reflexivity. Qed.

Lemma read_line_crlf l rest :
  ~ In LF l -> zlen l <= max_line -> read_line (l ++ CRLF ++ rest) = Ok l rest.
Proof.
  intros N L.
  assert (E : l ++ CRLF ++ rest = (l ++ [CR]) ++ LF :: rest) by (rewrite <- app_assoc; reflexivity).
  assert (S : split_lf (l ++ CRLF ++ rest) = Some (l ++ [CR], rest)).
  { rewrite E. apply split_lf_app. intros I. apply in_app_or in I as [I|[I|[]]]; [contradiction|discriminate]. }
  destruct (l ++ CRLF ++ rest) as [|c s] eqn:D; [destruct l; discriminate|].
  rewrite read_line_unfold, S, strip_cr_snoc.
  destruct (zlen l >? max_line) eqn:G; [lia|reflexivity].
Qed.

(* what a successful readLine guarantees *)
Lemma read_line_ok s l rest :
  read_line s = Ok l rest ->
  zlen l <= max_line /\ zlen l + zlen rest <= zlen s /\ (length rest < length s)%nat /\
  (forall x, In x l -> In x s).
Proof.
  unfold read_line, read_line_lim. destruct s as [|c s]; [discriminate|].
  destruct (split_lf (c :: s)) as [[raw r]|] eqn:S.
  - destruct (zlen (strip_cr raw) >? max_line) eqn:G; [discriminate|]. intros H. inversion H; subst. clear H.
    apply split_lf_some in S as [E N]. rewrite E. pose proof (strip_cr_len raw).
    rewrite zlen_app, zlen_cons. split; [lia|]. split; [lia|]. split.
    + rewrite app_length. simpl. lia.
    + intros x I. apply in_or_app. left. clear - I. induction raw as [|a raw IH]; [destruct I|].
      simpl in I. destruct raw as [|b raw]; [destruct (a =? CR); [destruct I|exact I]|].
      destruct I as [I|I]; [left; exact I|right; apply IH; exact I].
  - destruct (zlen (c :: s) >? max_line) eqn:G; [discriminate|]. intros H. inversion H; subst. clear H.
    rewrite zlen_nil. split; [lia|]. split; [lia|]. split; [simpl; lia|tauto].
Qed.

(* ---------- numbers ---------- *)
Lemma digits_val_app acc a b : digits_val acc (a ++ b) = digits_val (digits_val acc a) b.
Proof. revert acc; induction a as [|d a IH]; intros acc; simpl; [reflexivity|apply IH]. Qed.

From Coq Require Import ZifyBool.
Ltac Zify.zify_post_hook ::= Z.div_mod_to_equations.

Lemma itoa_fuel_ok f : forall n, 0 <= n < 2 ^ (Z.of_nat f + 1) ->
  forallb is_digit (itoa_fuel (S f) n) = true /\ itoa_fuel (S f) n <> [] /\
  forall acc, digits_val acc (itoa_fuel (S f) n) = acc * 10 ^ zlen (itoa_fuel (S f) n) + n.
Proof.
  induction f as [|f IH]; intros n Hn.
  - change (2 ^ (Z.of_nat 0 + 1)) with 2 in Hn. cbn [itoa_fuel].
    replace (n <? 10) with true by lia.
    split; [unfold is_digit; cbn [forallb]; lia|]. split; [discriminate|].
    intros acc. cbn [digits_val]. rewrite zlen_cons, zlen_nil. change (10 ^ (1 + 0)) with 10. lia.
  - change (itoa_fuel (S (S f)) n) with (if n <? 10 then [48 + n] else itoa_fuel (S f) (n / 10) ++ [48 + n mod 10]).
    destruct (n <? 10) eqn:E.
    + split; [unfold is_digit; cbn [forallb]; lia|]. split; [discriminate|].
      intros acc. cbn [digits_val]. rewrite zlen_cons, zlen_nil. change (10 ^ (1 + 0)) with 10. lia.
    + assert (Hq : 0 <= n / 10 < 2 ^ (Z.of_nat f + 1)).
      { rewrite Nat2Z.inj_succ in Hn. replace (Z.succ (Z.of_nat f) + 1) with (Z.succ (Z.of_nat f + 1)) in Hn by lia.
        rewrite Z.pow_succ_r in Hn by lia. lia. }
      destruct (IH (n / 10) Hq) as (D & NE & V).
      split; [|split].
      * rewrite forallb_app, D. unfold is_digit; cbn [forallb]. lia.
      * destruct (itoa_fuel (S f) (n / 10)); discriminate.
      * intros acc. rewrite digits_val_app, V. cbn [digits_val]. rewrite zlen_app, zlen_cons, zlen_nil.
        pose proof (zlen_nonneg (itoa_fuel (S f) (n / 10))).
        rewrite Z.pow_add_r by lia. change (10 ^ (1 + 0)) with 10. lia.
Qed.

Lemma itoa_ok n : 0 <= n ->
  forallb is_digit (itoa n) = true /\ itoa n <> [] /\ digits_val 0 (itoa n) = n.
Proof.
  intros Hn. unfold itoa.
  assert (B : 0 <= n < 2 ^ (Z.of_nat (Z.to_nat (Z.log2 n)) + 1)).
  { split; [exact Hn|]. rewrite Z2Nat.id by apply Z.log2_nonneg.
    destruct (Z.eq_dec n 0) as [->|NZ]; [cbn; lia|].
    replace (Z.log2 n + 1) with (Z.succ (Z.log2 n)) by lia. apply Z.log2_spec. lia. }
  destruct (itoa_fuel_ok _ n B) as (D & NE & V). split; [exact D|]. split; [exact NE|]. rewrite V. lia.
Qed.

Lemma parse_dec_itoa n : 0 <= n -> parse_dec (itoa n) = Some n.
Proof.
  intros Hn. destruct (itoa_ok n Hn) as (D & NE & V).
  destruct (itoa n) as [|d ds] eqn:E; [congruence|].
  assert (Hd : is_digit d = true) by (cbn in D; apply andb_true_iff in D; tauto).
  unfold parse_dec.
  assert (P : parse_udec (d :: ds) = Some n) by (unfold parse_udec; rewrite D, V; reflexivity).
  unfold is_digit in Hd.
  destruct (Z.eq_dec d 43) as [->|N1]; [cbn in Hd; discriminate|].
  destruct (Z.eq_dec d 45) as [->|N2]; [cbn in Hd; discriminate|].
  destruct d as [|p|p]; try exact P.
  do 6 (destruct p as [p|p|]; try exact P); try lia.
Qed.

(* ---------- header maps ---------- *)
Lemma hvals_hadd h k v K :
  hvals (hadd h k v) K = if bytes_eqb k K then hvals h K ++ [v] else hvals h K.
Proof.
  induction h as [|[k' vs] h IH]; cbn [hadd hvals].
  - destruct (bytes_eqb k K); reflexivity.
  - destruct (bytes_eqb k' k) eqn:E1; cbn [hvals].
    + apply bytes_eqb_eq in E1. subst k'. destruct (bytes_eqb k K) eqn:E2; reflexivity.
    + destruct (bytes_eqb k' K) eqn:E2.
      * destruct (bytes_eqb k K) eqn:E3; [|reflexivity].
        apply bytes_eqb_eq in E2, E3. subst. rewrite bytes_eqb_refl in E1. discriminate.
      * exact IH.
Qed.

Definition is_key (K : bytes) (e : bytes * list bytes) : bool := bytes_eqb (canon_key (fst e)) K.

Lemma hvals_norm_fold L : forall acc K,
  hvals (fold_left norm_step L acc) K =
  hvals acc K ++ map (fun e => join_vals (snd e)) (filter (is_key K) L).
Proof.
  induction L as [|e L IH]; intros acc K; cbn [fold_left filter map].
  - rewrite app_nil_r. reflexivity.
  - rewrite IH. unfold norm_step. rewrite hvals_hadd.
    change (is_key K e) with (bytes_eqb (canon_key (fst e)) K).
    destruct (bytes_eqb (canon_key (fst e)) K); cbn [map]; [rewrite <- app_assoc|]; reflexivity.
Qed.

Lemma hinsert_perm e h : Permutation (hinsert e h) (e :: h).
Proof.
  induction h as [|e' h IH]; cbn [hinsert]; [apply Permutation_refl|].
  destruct (bytes_ltb (fst e') (fst e)); [|apply Permutation_refl].
  eapply Permutation_trans; [apply perm_skip; exact IH|apply perm_swap].
Qed.
Lemma hsort_perm h : Permutation (hsort h) h.
Proof.
  induction h as [|e h IH]; cbn [hsort fold_right]; [apply Permutation_refl|].
  eapply Permutation_trans; [apply hinsert_perm|apply perm_skip; exact IH].
Qed.
Lemma filter_perm {A} (f : A -> bool) l l' : Permutation l l' -> Permutation (filter f l) (filter f l').
Proof.
  induction 1; cbn [filter].
  - apply Permutation_refl.
  - destruct (f x); [apply perm_skip|]; assumption.
  - destruct (f x), (f y); try apply Permutation_refl. apply perm_swap.
  - eapply Permutation_trans; eassumption.
Qed.
Lemma forallb_hsort f h : forallb f h = true -> forallb f (hsort h) = true.
Proof. intros H. rewrite (forallb_perm f _ _ (hsort_perm h)). exact H. Qed.

Lemma filter_none {A} (f : A -> bool) l : forallb (fun x => negb (f x)) l = true -> filter f l = [].
Proof.
  induction l as [|x l IH]; cbn [forallb filter]; [reflexivity|].
  rewrite andb_true_iff, negb_true_iff. intros [-> H]. apply IH; exact H.
Qed.

Lemma canon_key_CL : canon_key CONTENT_LENGTH = CONTENT_LENGTH.
Proof. vm_compute. reflexivity. Qed.

(* with no other spelling of Content-Length in h, the only field that reads back under
   that key is the one Write put there *)
Lemma hremove_no_CL h : forallb cl_wf h = true ->
  forallb (fun e => negb (is_key CONTENT_LENGTH e)) (hremove h CONTENT_LENGTH) = true.
Proof.
  unfold hremove. induction h as [|e h IH]; cbn [forallb filter]; [reflexivity|].
  rewrite andb_true_iff. intros [He Hh]. destruct (bytes_eqb (fst e) CONTENT_LENGTH) eqn:E; cbn [negb].
  - apply IH; exact Hh.
  - cbn [forallb]. rewrite (IH Hh), andb_true_r. unfold cl_wf in He. rewrite E in He. exact He.
Qed.

Lemma hremove_forallb f h k : forallb f h = true -> forallb f (hremove h k) = true.
Proof.
  unfold hremove. induction h as [|e h IH]; cbn [forallb filter]; [reflexivity|].
  rewrite andb_true_iff. intros [He Hh]. destruct (negb (bytes_eqb (fst e) k)); [cbn [forallb]; rewrite He|]; apply IH; exact Hh.
Qed.

Lemma content_length_norm h body :
  forallb cl_wf h = true -> zlen body <= max_body ->
  content_length (norm_hdr h body) = zlen body.
Proof.
  intros W B. unfold content_length, hget, norm_hdr. rewrite hvals_norm_fold. cbn [hvals app].
  pose proof (filter_perm (is_key CONTENT_LENGTH) _ _ (hsort_perm (set_cl h body))) as P.
  unfold set_cl in *. destruct body as [|b0 body'].
  - rewrite (filter_none _ _ (hremove_no_CL h W)) in P. apply Permutation_sym, Permutation_nil in P.
    rewrite P. reflexivity.
  - set (body := b0 :: body') in *. cbn [filter] in P.
    replace (is_key CONTENT_LENGTH (CONTENT_LENGTH, [itoa (zlen body)])) with true in P
      by (unfold is_key; cbn [fst]; rewrite canon_key_CL, bytes_eqb_refl; reflexivity).
    rewrite (filter_none _ _ (hremove_no_CL h W)) in P. apply Permutation_sym, Permutation_length_1_inv in P.
    rewrite P. cbn [map hd snd join_vals].
    pose proof (zlen_nonneg body). rewrite parse_dec_itoa by lia.
    unfold max_body in B. replace ((0 <=? zlen body) && (zlen body <=? 2147483647)) with true by lia. reflexivity.
Qed.

(* ---------- reading back what Header.Write wrote ---------- *)
Lemma field_line_parse k v :
  fixed_kv k = true -> zlen k <> 0 -> no_byte COLON k = true -> fixed_kv v = true ->
  parse_header_line (k ++ COLON_SP ++ v) = Ok (HLField (canon_key k) v) [].
Proof.
  intros Fk Nk Ck Fv. unfold parse_header_line.
  change (k ++ COLON_SP ++ v) with (k ++ COLON :: SP :: v).
  apply no_byte_In in Ck. rewrite index_byte_app by exact Ck.
  pose proof (zlen_nonneg k). replace (zlen k <? 0) with false by lia.
  rewrite slice_prefix, slice_suffix1. rewrite canonical_kv_sp.
  apply bytes_eqb_eq in Fk, Fv. rewrite Fk, Fv.
  replace (zlen k =? 0) with false by lia. reflexivity.
Qed.

Lemma field_wf_parts e : field_wf e = true ->
  fixed_kv (fst e) = true /\ zlen (fst e) <> 0 /\ no_byte COLON (fst e) = true /\
  fixed_kv (join_vals (snd e)) = true /\ zlen (fst e) + 2 + zlen (join_vals (snd e)) <= max_line.
Proof.
  unfold field_wf. rewrite !andb_true_iff, negb_true_iff. intros [[[[A B] C] D] E].
  repeat split; try assumption; lia.
Qed.

Lemma read_header_written L : forall f rest acc,
  forallb field_wf L = true -> (length L < f)%nat ->
  read_header_f f (write_fields L ++ CRLF ++ rest) acc = Ok (fold_left norm_step L acc) rest.
Proof.
  induction L as [|e L IH]; intros f rest acc W F.
  - destruct f as [|f]; [simpl in F; lia|]. cbn [write_fields app read_header_f fold_left].
    change (CRLF ++ rest) with ([] ++ CRLF ++ rest).
    rewrite read_line_crlf; [reflexivity|intros []|cbn; unfold max_line; lia].
  - destruct f as [|f]; [simpl in F; lia|]. cbn [forallb] in W. apply andb_true_iff in W as [We WL].
    destruct (field_wf_parts e We) as (Fk & Nk & Ck & Fv & Ln).
    cbn [write_fields fold_left]. unfold write_field.
    replace (((fst e ++ COLON_SP ++ join_vals (snd e) ++ CRLF) ++ write_fields L) ++ CRLF ++ rest)
      with ((fst e ++ COLON_SP ++ join_vals (snd e)) ++ CRLF ++ (write_fields L ++ CRLF ++ rest))
      by (rewrite <- !app_assoc; reflexivity).
    cbn [read_header_f]. rewrite read_line_crlf.
    + assert (Z : zlen (fst e ++ COLON_SP ++ join_vals (snd e)) =? 0 = false).
      { rewrite zlen_app. pose proof (zlen_nonneg (fst e)). pose proof (zlen_nonneg (COLON_SP ++ join_vals (snd e))). lia. }
      rewrite Z, field_line_parse by assumption.
      apply IH; [exact WL|simpl in F; lia].
    + intros I. apply in_app_or in I as [I|I]; [exact (fixed_kv_no LF _ (or_introl eq_refl) Fk I)|].
      apply in_app_or in I as [I|I]; [destruct I as [I|[I|[]]]; discriminate|exact (fixed_kv_no LF _ (or_introl eq_refl) Fv I)].
    + rewrite !zlen_app. change (zlen COLON_SP) with 2. lia.
Qed.

Lemma set_cl_wf h body : forallb field_wf h = true -> zlen body <= max_body ->
  forallb field_wf (set_cl h body) = true.
Proof.
  intros W B. unfold set_cl. destruct body as [|b0 body']; [apply hremove_forallb; exact W|].
  set (body := b0 :: body') in *. cbn [forallb]. rewrite (hremove_forallb _ _ _ W), andb_true_r.
  (* the Content-Length field itself *)
  pose proof (zlen_nonneg body). destruct (itoa_ok (zlen body) ltac:(lia)) as (D & NE & V).
  assert (K1 : fixed_kv CONTENT_LENGTH && negb (zlen CONTENT_LENGTH =? 0) && no_byte COLON CONTENT_LENGTH = true)
    by (vm_compute; reflexivity).
  assert (K2 : fixed_kv (itoa (zlen body)) = true).
  { (* digits are a fixed point of canonicalKV *)
    unfold fixed_kv. apply bytes_eqb_eq. unfold canonical_kv.
    assert (M : map nl_to_sp (itoa (zlen body)) = itoa (zlen body)).
    { clear - D. induction (itoa (zlen body)) as [|d ds IH]; [reflexivity|].
      cbn [forallb] in D. apply andb_true_iff in D as [Hd Hs]. cbn [map]. rewrite (IH Hs). f_equal.
      unfold nl_to_sp, is_digit, LF, CR in *. replace ((d =? 10) || (d =? 13)) with false by lia. reflexivity. }
    rewrite M. apply trim_sp_token. clear - D.
    induction (itoa (zlen body)) as [|d ds IH]; [reflexivity|].
    cbn [forallb] in *. apply andb_true_iff in D as [Hd Hs]. rewrite (IH Hs), andb_true_r.
    unfold is_digit, is_space in *. lia. }
  assert (K3 : zlen CONTENT_LENGTH + 2 + zlen (itoa (zlen body)) <=? max_line = true).
  { assert (Hlen : zlen (itoa (zlen body)) <= 22).
    { unfold itoa. pose proof (Z.log2_nonneg (zlen body)).
      assert (Z.log2 (zlen body) <= 20).
      { pose proof (Z.log2_le_mono (zlen body) 1048576 ltac:(unfold max_body in B; lia)) as LM.
        change (Z.log2 1048576) with 20 in LM. exact LM. }
      assert (G : forall f n, zlen (itoa_fuel f n) <= Z.of_nat f).
      { induction f as [|f IHf]; intros n; cbn [itoa_fuel]; [cbn; lia|].
        destruct (n <? 10); [rewrite zlen_cons, zlen_nil; lia|].
        rewrite zlen_app, zlen_cons, zlen_nil. specialize (IHf (n / 10)). lia. }
      specialize (G (S (Z.to_nat (Z.log2 (zlen body)))) (zlen body)). lia. }
    change (zlen CONTENT_LENGTH) with 14. unfold max_line. lia. }
  unfold field_wf. cbn [fst snd join_vals]. rewrite K1, K2, K3. reflexivity.
Qed.

Lemma read_header_write h body rest :
  forallb field_wf h = true -> zlen body <= max_body ->
  read_header (write_header (set_cl h body) ++ rest) = Ok (norm_hdr h body) rest.
Proof.
  intros W B. unfold read_header, write_header, norm_hdr. rewrite <- app_assoc.
  apply read_header_written.
  - apply forallb_hsort, set_cl_wf; assumption.
  - rewrite !app_length. pose proof (Permutation_length (hsort_perm (set_cl h body))) as P.
    assert (G : forall L, (length L <= length (write_fields L))%nat).
    { induction L as [|e L IHL]; cbn [write_fields length]; [lia|]. rewrite app_length.
      unfold write_field. rewrite !app_length. cbn [length COLON_SP CRLF]. lia. }
    specialize (G (hsort (set_cl h body))). cbn [length CRLF]. lia.
Qed.

(* ---------- bodies ---------- *)
Lemma read_body_exact h body rest :
  content_length h = zlen body -> zlen body <= max_body ->
  read_body h (body ++ rest) = Ok body rest.
Proof.
  intros C B. unfold read_body, read_body_lim. rewrite C.
  destruct (zlen body <=? 0) eqn:E.
  - pose proof (zlen_nonneg body). rewrite (zlen_0_nil body) by lia. reflexivity.
  - replace (zlen body >? max_body) with false by lia.
    rewrite zlen_app. pose proof (zlen_nonneg rest). replace (zlen body + zlen rest <? zlen body) with false by lia.
    rewrite take_n_firstn, firstn_zlen_app, skipn_zlen_app. reflexivity.
Qed.

(* ---------- requests ---------- *)
Lemma token_no_space s c : forallb (fun c => negb (is_space c)) s = true -> is_space c = true -> ~ In c s.
Proof.
  intros H Hc I. rewrite forallb_forall in H. specialize (H c I). rewrite Hc in H. discriminate.
Qed.

Lemma token_wf_parts s : token_wf s = true -> zlen s <> 0 /\ forallb (fun c => negb (is_space c)) s = true.
Proof. unfold token_wf. rewrite andb_true_iff, negb_true_iff. intros [A B]. split; [lia|exact B]. Qed.

Lemma hdr_wf_parts h : hdr_wf h = true -> forallb field_wf h = true /\ forallb cl_wf h = true.
Proof. unfold hdr_wf. rewrite andb_true_iff. tauto. Qed.

Lemma oeq_eq (x y : option bytes) :
  match x, y with Some x, Some y => bytes_eqb x y | None, None => true | _, _ => false end = true -> x = y.
Proof. destruct x, y; try discriminate; [intros H; apply bytes_eqb_eq in H; congruence|reflexivity]. Qed.
Lemma gourl_eqb_eq a b : gourl_eqb a b = true -> a = b.
Proof.
  unfold gourl_eqb. rewrite !andb_true_iff. intros [[[[A B] C] D] E].
  apply bytes_eqb_eq in A, C, D. apply oeq_eq in B, E. destruct a, b; cbn in *; congruence.
Qed.
Lemma gourl_eqb_refl a : gourl_eqb a a = true.
Proof.
  unfold gourl_eqb. rewrite !bytes_eqb_refl. destruct (g_user a), (g_query a); rewrite ?bytes_eqb_refl; reflexivity.
Qed.

Lemma request_line_parse url_norm m u g :
  token_wf m = true -> token_wf u = true ->
  match m with c :: _ => c =? DOLLAR | [] => true end = false ->
  (bytes_eqb m OPTIONS || negb (bytes_eqb u STAR)) = true ->
  url_norm u = Some g ->
  parse_request_line url_norm (m ++ SP :: u ++ SP :: RTSP10) = Ok (m, fix_url g, RTSP10) [].
Proof.
  intros Wm Wu D O U.
  destruct (token_wf_parts m Wm) as [Nm Tm]. destruct (token_wf_parts u Wu) as [Nu Tu].
  assert (Sm : ~ In SP m) by (apply token_no_space; [exact Tm|reflexivity]).
  assert (Su : ~ In SP u) by (apply token_no_space; [exact Tu|reflexivity]).
  unfold parse_request_line.
  rewrite index_byte_app by exact Sm. rewrite slice_suffix1. rewrite index_byte_app by exact Su.
  pose proof (zlen_nonneg m). pose proof (zlen_nonneg u).
  replace ((zlen m <? 0) || (zlen u <? 0)) with false by lia.
  rewrite slice_prefix.
  assert (S2 : slice (m ++ SP :: u ++ SP :: RTSP10) (zlen m + 1) (zlen u + zlen m + 1) = Some u).
  { replace (m ++ SP :: u ++ SP :: RTSP10) with ((m ++ [SP]) ++ u ++ (SP :: RTSP10)) by (rewrite <- app_assoc; reflexivity).
    replace (zlen m + 1) with (zlen (m ++ [SP])) by (rewrite zlen_app, zlen_cons, zlen_nil; lia).
    replace (zlen u + zlen m + 1) with (zlen (m ++ [SP]) + zlen u) by (rewrite zlen_app, zlen_cons, zlen_nil; lia).
    apply slice_middle. }
  rewrite S2.
  assert (S3 : slice (m ++ SP :: u ++ SP :: RTSP10) (zlen u + zlen m + 1 + 1) (zlen (m ++ SP :: u ++ SP :: RTSP10)) = Some RTSP10).
  { replace (m ++ SP :: u ++ SP :: RTSP10) with ((m ++ SP :: u) ++ SP :: RTSP10) by (rewrite <- app_assoc; reflexivity).
    replace (zlen u + zlen m + 1 + 1) with (zlen (m ++ SP :: u) + 1) by (rewrite zlen_app, zlen_cons; lia).
    apply slice_suffix1. }
  rewrite S3. rewrite (trim_sp_token m Tm), (trim_sp_token u Tu).
  change (trim_sp RTSP10) with RTSP10.
  replace (zlen m =? 0) with false by lia.
  destruct m as [|c m']; [rewrite zlen_nil in Nm; lia|]. cbn [idx Z.ltb Z.compare Z.to_nat nth_error].
  change (idx (c :: m') 0) with (Some c). rewrite D.
  destruct (bytes_eqb (c :: m') OPTIONS), (bytes_eqb u STAR); cbn [negb andb orb] in *; try discriminate;
    rewrite U; reflexivity.
Qed.

Theorem request_roundtrip url_norm q rest :
  request_wf url_norm q = true ->
  read_request url_norm (write_request q ++ rest) = Ok (norm_request q) rest.
Proof.
  unfold request_wf. rewrite !andb_true_iff, !negb_true_iff.
  intros [[[[[[[[Wm Wu] D] R] O] U] L] Wh] B].
  destruct (url_norm (url_str q)) as [u'|] eqn:EU; [|discriminate]. apply gourl_eqb_eq in U. subst u'.
  destruct (hdr_wf_parts _ Wh) as [Wf Wc]. apply Z.leb_le in L, B.
  destruct (token_wf_parts _ Wm) as [Nm Tm]. destruct (token_wf_parts _ Wu) as [Nu Tu].
  unfold read_request, write_request.
  replace ((q_method q ++ SP :: url_str q ++ SP :: RTSP10 ++ CRLF ++ write_header (set_cl (q_hdr q) (q_body q)) ++ q_body q) ++ rest)
    with ((q_method q ++ SP :: url_str q ++ SP :: RTSP10) ++ CRLF ++ (write_header (set_cl (q_hdr q) (q_body q)) ++ (q_body q ++ rest))).
  2:{ repeat (rewrite <- app_assoc || rewrite <- app_comm_cons). reflexivity. }
  rewrite read_line_crlf.
  - rewrite (request_line_parse url_norm _ _ (q_url q)) by assumption.
    rewrite read_header_write by assumption.
    rewrite read_body_exact; [reflexivity|apply content_length_norm; assumption|exact B].
  - intros I. apply in_app_or in I as [I|[I|I]]; [revert I; apply token_no_space; [exact Tm|reflexivity]|discriminate|].
    apply in_app_or in I as [I|I]; [revert I; apply token_no_space; [exact Tu|reflexivity]|].
    cbn in I. repeat (destruct I as [I|I]; [discriminate|]). exact I.
  - rewrite zlen_app, zlen_cons, zlen_app, zlen_cons. change (zlen RTSP10) with 8. lia.
Qed.

(* ---------- responses ---------- *)
Lemma itoa_3 n : 100 <= n <= 999 -> zlen (itoa n) = 3.
Proof.
  intros H.
  assert (S : forallb (fun k => zlen (itoa (Z.of_nat k)) =? 3) (seq 100 900) = true) by (vm_compute; reflexivity).
  rewrite forallb_forall in S. specialize (S (Z.to_nat n)).
  rewrite Z2Nat.id in S by lia. apply Z.eqb_eq, S, in_seq. lia.
Qed.

Lemma digits_no c s : forallb is_digit s = true -> is_digit c = false -> ~ In c s.
Proof. intros H Hc I. rewrite forallb_forall in H. specialize (H c I). congruence. Qed.

Lemma status_line_parse code text :
  100 <= code <= 999 ->
  parse_status_line (RTSP10 ++ SP :: itoa code ++ SP :: text) = Ok (RTSP10, code, itoa code ++ SP :: text) [].
Proof.
  intros Hc. destruct (itoa_ok code ltac:(lia)) as (D & NE & V). pose proof (itoa_3 code Hc) as L3.
  unfold parse_status_line.
  assert (NS : ~ In SP RTSP10) by (cbn; intros I; repeat (destruct I as [I|I]; [discriminate|]); exact I).
  rewrite index_byte_app by exact NS. change (zlen RTSP10 <? 0) with false. cbv iota.
  rewrite slice_prefix, slice_suffix1.
  assert (TL : trim_left (Z.eqb SP) (itoa code ++ SP :: text) = itoa code ++ SP :: text).
  { destruct (itoa code) as [|d ds]; [congruence|]. cbn [app trim_left].
    cbn [forallb] in D. apply andb_true_iff in D as [Hd _]. unfold is_digit, SP in *.
    replace (32 =? d) with false by lia. reflexivity. }
  rewrite TL.
  assert (ND : ~ In SP (itoa code)) by (apply digits_no; [exact D|reflexivity]).
  rewrite index_byte_app by exact ND. rewrite L3. change (3 <? 0) with false. cbv iota.
  rewrite <- L3, slice_prefix, L3. change (negb (3 =? 3)) with false. cbv iota.
  rewrite parse_dec_itoa by lia. replace (code <? 0) with false by lia. reflexivity.
Qed.

Theorem response_roundtrip p rest :
  response_wf p = true ->
  read_response (write_response p ++ rest) = Ok (norm_response p) rest.
Proof.
  unfold response_wf. rewrite !andb_true_iff.
  intros [[[[[[C1 C2] NL] NC] L] Wh] B].
  destruct (hdr_wf_parts _ Wh) as [Wf Wc]. apply Z.leb_le in C1, C2, L, B.
  destruct (itoa_ok (p_code p) ltac:(lia)) as (D & NE & V). pose proof (itoa_3 (p_code p) ltac:(lia)) as L3.
  unfold read_response, write_response.
  replace ((RTSP10 ++ SP :: itoa (p_code p) ++ SP :: status_text p ++ CRLF ++
            write_header (set_cl (p_hdr p) (p_body p)) ++ p_body p) ++ rest)
    with ((RTSP10 ++ SP :: itoa (p_code p) ++ SP :: status_text p) ++ CRLF ++
          (write_header (set_cl (p_hdr p) (p_body p)) ++ (p_body p ++ rest))).
  2:{ repeat (rewrite <- app_assoc || rewrite <- app_comm_cons). reflexivity. }
  rewrite read_line_crlf.
  - rewrite status_line_parse by lia.
    rewrite read_header_write by assumption.
    rewrite read_body_exact; [reflexivity|apply content_length_norm; assumption|exact B].
  - intros I. apply in_app_or in I as [I|[I|I]].
    + cbn in I. repeat (destruct I as [I|I]; [discriminate|]). exact I.
    + discriminate.
    + apply in_app_or in I as [I|[I|I]]; [revert I; apply digits_no; [exact D|reflexivity]|discriminate|].
      apply no_byte_In in NL. contradiction.
  - rewrite zlen_app, zlen_cons, zlen_app, zlen_cons, L3. change (zlen RTSP10) with 8. lia.
Qed.

(* ---------- interleaved frames ---------- *)
Theorem frame_roundtrip cfg ch data rest :
  pack_wf cfg ch data = true ->
  read_packet cfg (write_packet cfg ch data ++ rest) = Ok (EvPack ch data) rest.
Proof.
  unfold pack_wf. rewrite !andb_true_iff. intros [[[[C0 C4] L] W] Hh].
  apply Z.leb_le in C0, L. apply Z.ltb_lt in C4.
  unfold write_packet. destruct (nth_error cfg (Z.to_nat ch)) as [w|]; [|discriminate].
  rewrite !andb_true_iff in W. destruct W as [[W0 W255] F]. apply Z.leb_le in W0, W255.
  destruct (find_chan cfg w 0) as [i|] eqn:FC; [|discriminate]. apply Z.eqb_eq in F. subst i.
  replace ((w <? 0) || (w >? 255)) with false by lia.
  pose proof (zlen_nonneg data). rewrite Z.mod_small by lia.
  cbn [app]. unfold read_packet, read_packet_gen.
  change (negb (DOLLAR =? DOLLAR)) with false. cbv iota.
  replace (zlen data / 256 * 256 + zlen data mod 256) with (zlen data) by lia.
  rewrite zlen_app. pose proof (zlen_nonneg rest). replace (zlen data + zlen rest <? zlen data) with false by lia.
  rewrite take_n_firstn, firstn_zlen_app, skipn_zlen_app, FC. rewrite (Z.mod_small ch 256) by lia.
  destruct ((ch =? 0) || (ch =? 2)); [|reflexivity].
  destruct (rtp_hdr_check data); try discriminate. reflexivity.
Qed.
