From Coq Require Import ZArith List Bool Lia Permutation.
From V Require Import Val Bytes StrGo BytesLemmas C14RtspCodec.
Import ListNotations.
Open Scope Z_scope.
