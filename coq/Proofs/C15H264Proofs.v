(* C15 — H.264: the Go decoder's description refines the standard's, and the
   values it reports equal the standard's derived values. *)
From Coq Require Import ZArith List Bool Lia ZifyBool.
From V Require Import C15BitFmt C15Ebsp C15H264 C15BitFmtProofs C15EbspProofs.
Import ListNotations.
Open Scope Z_scope.
Opaque K.

Ltac ref :=
  repeat first
   [ match goal with |- refines ?x ?x => apply refines_refl end
   | match goal with
     | |- refines ((Assert _ ;; If _ _ _) ;; _) (If _ _ _ ;; _) =>
         apply refines_seq; [apply refines_guard_if_set | ]
     | |- refines (Assert _ ;; _) (Assert _ ;; _) => apply refines_seq
     | |- refines (Assert _ ;; _) _ => apply refines_drop_assert
     | |- refines (_ ;; _) (_ ;; _) => apply refines_seq
     | |- refines (UE _ _ _) (UE _ _ _) => apply refines_ue; [unfold UE_MAX; lia | lia | lia]
     | |- refines (SE _ _ _ _) (SE _ _ _ _) =>
         apply refines_se; [unfold S31; lia | unfold S31; lia | lia | lia | lia]
     | |- refines (If _ _ _) (If _ _ _) => apply refines_if; [intros; reflexivity | | ]
     | |- refines (Repeat _ _) (Repeat _ _) => apply refines_repeat; [intros; try reflexivity | intros]
     end ].

Lemma scaling_refines : forall i size, refines (std_scaling_list i size) (go_scan_list i size).
Proof. intros. unfold std_scaling_list, go_scan_list, When. ref. Qed.

Lemma hrd_refines : forall h, refines (std_hrd h) (go_hrd h).
Proof. intros. unfold std_hrd, go_hrd. ref. Qed.

Lemma vui_refines : refines std_vui go_vui.
Proof.
  unfold std_vui, go_vui, When. ref; apply hrd_refines.
Qed.

Lemma high_profile_agree : forall a,
  supported_profile a = true -> std_high_profile a = go_high_profile a.
Proof. intros a. unfold supported_profile, std_high_profile, go_high_profile. lia. Qed.

Theorem h264_refines : refines std_h264_sps go_h264_sps.
Proof.
  unfold std_h264_sps, go_h264_sps, When. ref.
  - exact high_profile_agree.
  - unfold is, isnt. match goal with |- context [get ?a k_chroma =? 3] => destruct (get a k_chroma =? 3) end; reflexivity.
  - apply scaling_refines.
  - apply scaling_refines.
  - intros a H. unfold supported_profile in H. unfold is.
    destruct (get a k_profile =? 183) eqn:E; [lia | reflexivity].
  - apply vui_refines.
Qed.

(* ---------------------------------------------------------------- derived values *)
Lemma crop_units_agree : forall a,
  (get a k_sep_plane =? 0) || (get a k_sep_plane =? 1) = true ->
  go_crop_unit_x a = crop_unit_x a /\ go_crop_unit_y a = crop_unit_y a.
Proof.
  intros a H.
  unfold go_crop_unit_x, go_crop_unit_y, crop_unit_x, crop_unit_y, chroma_array_type,
    sub_width_c, sub_height_c.
  destruct (get a k_sep_plane =? 0) eqn:E0; destruct (get a k_sep_plane =? 1) eqn:E1;
    cbn [andb orb] in *; try discriminate; try lia.
  - destruct (get a k_chroma =? 1) eqn:C1; destruct (get a k_chroma =? 2) eqn:C2;
    destruct (get a k_chroma =? 0) eqn:C0; cbn [andb orb]; try lia; split; lia.
  - change (0 =? 0) with true. cbv iota. split; lia.
Qed.

Lemma h264_values_agree : forall a,
  h264_ranges a = true ->
  go_width a = spec_width a /\ go_height a = spec_height a /\
  fps_bits (go_fps a) = fps_bits (spec_fps a) /\ go_fixed a = spec_fixed a.
Proof.
  intros a H. unfold h264_ranges in H. apply andb_prop in H. destruct H as [Ht Hs].
  destruct (crop_units_agree a Hs) as [Hx Hy].
  split; [|split; [|split]].
  - unfold go_width, spec_width, pic_width_samples. rewrite Hx. reflexivity.
  - unfold go_height, spec_height, frame_height_samples. rewrite Hy. reflexivity.
  - unfold go_fps, spec_fps.
    destruct (get a k_timing_present =? 1) eqn:T.
    + replace (get a k_num_units_in_tick =? 0) with false by lia.
      replace (0 <? get a k_num_units_in_tick) with true by lia. cbn [andb].
      rewrite Z.mod_small by lia. do 2 f_equal. lia.
    + replace (get a k_num_units_in_tick =? 0) with true by lia. reflexivity.
  - unfold go_fixed, spec_fixed. reflexivity.
Qed.

(* ---------------------------------------------------------------- the decoder on an encoded record *)
Lemma escape_head : forall x s, escape (x :: s) = x :: escape_from (if x =? 0 then 1 else 0) s.
Proof. intros. unfold escape. cbn [escape_from Z.eqb andb]. reflexivity. Qed.

Lemma nal_bits_of_bits : forall b,
  nal_shape_ok (nal_of_bits b) = true ->
  nal_bits (nal_of_bits b) = Some (pad8 (b ++ [true])).
Proof.
  intros b H. unfold nal_of_bits in *. unfold nal_bits.
  destruct (bits_to_bytes (b ++ [true])) as [|x s] eqn:E.
  - cbn in H. discriminate.
  - rewrite escape_head in H. cbn [nal_shape_ok] in H. apply andb_prop in H. destruct H as [Hx Hl].
    rewrite <- escape_head in Hl.
    assert (Hx' : x <> 0) by lia.
    rewrite (ebsp_roundtrip x s Hx') in *.
    replace (Z.of_nat (length (x :: s)) <? 4) with false by lia.
    rewrite <- E, bytes_to_bits_to_bytes. reflexivity.
Qed.

Theorem h264_dims_spec : forall rec b a,
  emit std_h264_sps rec env0 = Some (b, a) ->
  h264_ranges a = true ->
  nal_shape_ok (nal_of_bits b) = true ->
  go_h264_obs (nal_of_bits b) = spec_h264_obs a.
Proof.
  intros rec b a He Hr Hs.
  unfold go_h264_obs, go_h264_decode, go_h264_decode_with.
  rewrite (nal_bits_of_bits b Hs). unfold pad8. rewrite <- app_assoc.
  pose proof (refines_parse _ _ _ _ _ _ h264_refines He) as Hp. unfold parse in Hp.
  rewrite Hp. unfold vobs_of, spec_h264_obs.
  destruct (h264_values_agree a Hr) as [Hw [Hh [Hf Hx]]].
  rewrite Hw, Hh, Hf, Hx. reflexivity.
Qed.

Lemma zlist_eqb_eq : forall x y, zlist_eqb x y = true -> x = y.
Proof.
  induction x; destruct y; cbn; intros H; try discriminate; auto.
  apply andb_prop in H. destruct H as [H1 H2]. f_equal; [lia | auto].
Qed.

Lemma vobs_eqb_refl : forall o, vobs_eqb o o = true.
Proof.
  destruct o as [[[[w h] f] x]|]; cbn; auto.
  rewrite !Z.eqb_refl. destruct x; reflexivity.
Qed.

Lemma vobs_eqb_eq : forall x y, vobs_eqb x y = true -> x = y.
Proof.
  intros [[[[w h] f] b]|] [[[[w' h'] f'] b']|]; cbn; intros H; try discriminate; auto.
  apply andb_prop in H. destruct H as [H Hb]. apply andb_prop in H. destruct H as [H Hf].
  apply andb_prop in H. destruct H as [Hw Hh]. apply eqb_prop in Hb.
  f_equal. f_equal; [f_equal; [f_equal|] |]; auto; lia.
Qed.

Theorem h264_model_passes : forall rec nal, ok_h264 rec nal (go_h264_obs nal) = true.
Proof.
  intros rec nal. unfold ok_h264.
  destruct (emit std_h264_sps rec env0) as [[b a]|] eqn:E; auto.
  destruct (h264_ranges a && zlist_eqb nal (nal_of_bits b) && nal_shape_ok nal) eqn:G; auto.
  apply andb_prop in G. destruct G as [G Hs]. apply andb_prop in G. destruct G as [Hr Hn].
  apply zlist_eqb_eq in Hn. subst nal.
  rewrite (h264_dims_spec _ _ _ E Hr Hs). apply vobs_eqb_refl.
Qed.

(* ---------------------------------------------------------------- D27 / D28 witnesses *)
(* 64x64, 4:4:4, cropped by one luma sample on the right: the standard says 63, the old code 62 *)
Definition rec_d28 : env :=
  fold_left (fun a kv => set a (fst kv) (snd kv))
    [(k_nal_ref_idc, 3); (k_nal_type, 7); (k_profile, 244); (k_level, 30); (k_chroma, 3);
     (k_width_mbs, 3); (k_height_map_units, 3); (k_frame_mbs_only, 1); (k_cropping, 1);
     (k_crop_right, 1)] env0.

Theorem h264_crop_refuted : exists rec b a,
  emit std_h264_sps rec env0 = Some (b, a) /\ h264_ranges a = true /\
  spec_width a = 63 /\ go_width_d28 a = 62 /\ go_width a = 63.
Proof.
  exists rec_d28.
  destruct (emit std_h264_sps rec_d28 env0) as [[b a]|] eqn:E; [|vm_compute in E; discriminate].
  exists b, a. split; auto.
  assert (Some (h264_ranges a, spec_width a, go_width_d28 a, go_width a) = Some (true, 63, 62, 63)).
  { replace (Some (h264_ranges a, spec_width a, go_width_d28 a, go_width a))
      with (option_map (fun p : bits * env => (h264_ranges (snd p), spec_width (snd p), go_width_d28 (snd p), go_width (snd p)))
                       (emit std_h264_sps rec_d28 env0)) by (rewrite E; reflexivity).
    vm_compute. reflexivity. }
  inversion H. split; [|split; [|split]]; auto.
Qed.

(* a scaling list that ends early (nextScale = 0): with ReadSe = 0 the old decoder keeps reading *)
Definition rec_d27 : env :=
  fold_left (fun a kv => set a (fst kv) (snd kv))
    [(k_nal_ref_idc, 3); (k_nal_type, 7); (k_profile, 100); (k_level, 30); (k_chroma, 1);
     (k_scaling_matrix, 1); (k_scaling_list_present 0, 1); (k_delta_scale 0 0, -8);
     (k_width_mbs, 19); (k_height_map_units, 14); (k_frame_mbs_only, 1)] env0.

Theorem h264_readse_refuted : exists rec b a,
  emit std_h264_sps rec env0 = Some (b, a) /\
  go_h264_obs (nal_of_bits b) = spec_h264_obs a /\
  vobs_of (go_h264_decode_with read_se_d27 go_width go_height (nal_of_bits b)) <> spec_h264_obs a.
Proof.
  exists rec_d27.
  destruct (emit std_h264_sps rec_d27 env0) as [[b a]|] eqn:E; [|vm_compute in E; discriminate].
  exists b, a. split; auto.
  assert (H : option_map (fun p : bits * env =>
              (vobs_eqb (go_h264_obs (nal_of_bits (fst p))) (spec_h264_obs (snd p)),
               vobs_eqb (vobs_of (go_h264_decode_with read_se_d27 go_width go_height (nal_of_bits (fst p))))
                        (spec_h264_obs (snd p))))
            (emit std_h264_sps rec_d27 env0) = Some (true, false)) by (vm_compute; reflexivity).
  rewrite E in H. cbn [option_map fst snd] in H. inversion H as [[H1 H2]].
  split.
  - apply vobs_eqb_eq. exact H1.
  - intros C. rewrite C, vobs_eqb_refl in H2. discriminate.
Qed.
