(* C01/C03 — transport adapters: the client-side readers recover exactly the subscribed packets *)
From Coq Require Import ZArith List Bool Lia.
From V Require Import Val Bytes BytesLemmas C01Wire.
Import ListNotations.
Open Scope Z_scope.

Lemma take_app_exact : forall a b : bytes, take (zlen a) (a ++ b) = a.
Proof.
  intros a b. unfold take, zlen. rewrite Nat2Z.id.
  rewrite firstn_app, Nat.sub_diag, firstn_all. cbn. apply app_nil_r.
Qed.

Lemma len16_roundtrip : forall n, 0 <= n <= 65535 -> (n / 256) * 256 + n mod 256 = n.
Proof. intros n H. pose proof (Z.div_mod n 256 ltac:(lia)). lia. Qed.

Lemma pkt_wf_len : forall p, pkt_wf p = true -> 0 <= zlen (snd p) <= 65535.
Proof.
  intros p H. unfold pkt_wf in H. repeat (apply andb_true_iff in H; destruct H as [H ?]).
  pose proof (zlen_nonneg (snd p)). lia.
Qed.

Lemma parse_frame_app : forall f c d rest,
  0 <= zlen d <= 65535 ->
  parse_frames (S f) (frame_of c d ++ rest) =
  match parse_frames f rest with Some l => Some ((c, d) :: l) | None => None end.
Proof.
  intros f c d rest Hd. unfold frame_of. cbn [app parse_frames].
  rewrite (len16_roundtrip _ Hd).
  replace (zlen d <=? zlen (d ++ rest)) with true
    by (symmetry; apply Z.leb_le; rewrite zlen_app; pose proof (zlen_nonneg rest); lia).
  rewrite drop_app_exact, take_app_exact. reflexivity.
Qed.

(* RTSP over TCP: an independent frame reader applied to the adapter's byte stream yields exactly
   the subscribed packets of [out], in order, with their payloads *)
Theorem wire_tcp_faithful : forall chmap out fuel,
  forallb pkt_wf out = true -> (length out <= fuel)%nat ->
  parse_frames fuel (wire_tcp chmap out) = Some (client_view chmap out).
Proof.
  intros chmap out. induction out as [|p out IH]; intros fuel Hwf Hf.
  - destruct fuel; reflexivity.
  - cbn in Hwf. apply andb_true_iff in Hwf. destruct Hwf as [Hp Hout].
    unfold wire_tcp, client_view in *. cbn [map concat filter].
    unfold frame_or_nothing at 1. destruct (subscribed chmap p) eqn:Hs.
    + destruct fuel as [|f]; [cbn in Hf; lia|].
      rewrite (parse_frame_app _ _ _ _ (pkt_wf_len _ Hp)).
      rewrite (IH f Hout ltac:(cbn in Hf; lia)). reflexivity.
    + cbn [app]. apply IH; [assumption | cbn in Hf; lia].
Qed.

Lemma parse_one_frame : forall c d, 0 <= zlen d <= 65535 -> parse_frames 1 (frame_of c d) = Some [(c, d)].
Proof.
  intros c d Hd. rewrite <- (app_nil_r (frame_of c d)).
  rewrite (parse_frame_app 0 c d [] Hd). reflexivity.
Qed.

(* ws-rtsp / WSP: every non-empty message is exactly one frame, and the messages are the
   subscribed packets in order *)
Theorem wire_ws_faithful : forall chmap out,
  forallb pkt_wf out = true ->
  parse_messages (wire_ws chmap out) = Some (client_view chmap out).
Proof.
  intros chmap out. induction out as [|p out IH]; intros Hwf; [reflexivity|].
  cbn in Hwf. apply andb_true_iff in Hwf. destruct Hwf as [Hp Hout].
  unfold wire_ws, client_view in *. cbn [map filter].
  unfold frame_or_nothing at 1. destruct (subscribed chmap p) eqn:Hs.
  - change (parse_messages (frame_of (chmap (fst p)) (snd p) :: map (frame_or_nothing chmap) out))
      with (match parse_frames 1 (frame_of (chmap (fst p)) (snd p)),
                  parse_messages (map (frame_or_nothing chmap) out) with
            | Some [q], Some l => Some (q :: l) | _, _ => None end).
    rewrite (parse_one_frame _ _ (pkt_wf_len _ Hp)), (IH Hout). reflexivity.
  - cbn [parse_messages]. apply IH. assumption.
Qed.

(* RTSP over UDP: the datagrams on the port of a channel are the unmodified RTP data of the
   packets of that channel, in order — when the port is set *)
Theorem wire_udp_faithful : forall dest out ch,
  wire_udp dest out ch = if dest ch then map snd (on_channel ch out) else [].
Proof.
  intros dest out ch. unfold wire_udp, on_channel. destruct (dest ch).
  - f_equal. apply filter_ext. intros p. apply andb_true_r.
  - induction out as [|p out IH]; [reflexivity|]. cbn. rewrite andb_false_r. exact IH.
Qed.

(* ---------------------------------------------------------------- the oracle accepts the model *)
Lemma pkt_eqb_refl : forall p, pkt_eqb p p = true.
Proof. intros [c d]. unfold pkt_eqb. cbn. rewrite Z.eqb_refl, bytes_eqb_refl. reflexivity. Qed.

Lemma list_eqb_refl : forall {A} (e : A -> A -> bool) (l : list A),
  (forall x, e x x = true) -> list_eqb e l l = true.
Proof. intros A e l H. induction l; cbn; [reflexivity | rewrite H, IHl; reflexivity]. Qed.

Theorem wire_model_passes_stream : forall kind chmap out obs,
  is_datagram_kind kind = false -> forallb pkt_wf out = true ->
  model_client kind chmap out = Some obs -> ok_wire kind chmap out obs = true.
Proof.
  intros kind chmap out obs Hk Hwf Hm. unfold ok_wire, model_client in *. rewrite Hk in *.
  destruct (kind =? 0).
  - rewrite (wire_tcp_faithful chmap out (length out) Hwf (le_n _)) in Hm. inversion Hm; subst.
    apply list_eqb_refl. exact pkt_eqb_refl.
  - rewrite (wire_ws_faithful chmap out Hwf) in Hm. inversion Hm; subst.
    apply list_eqb_refl. exact pkt_eqb_refl.
Qed.

Theorem wire_model_client_defined : forall kind chmap out,
  forallb pkt_wf out = true -> exists obs, model_client kind chmap out = Some obs.
Proof.
  intros kind chmap out Hwf. unfold model_client.
  destruct (kind =? 0); [eexists; apply (wire_tcp_faithful chmap out (length out) Hwf (le_n _))|].
  destruct (is_datagram_kind kind); [eexists; reflexivity|].
  eexists; apply (wire_ws_faithful chmap out Hwf).
Qed.

(* UDP *)
Lemma on_channel_tagged : forall ch c (l : list bytes),
  on_channel ch (map (fun d => (c, d)) l) = if c =? ch then map (fun d => (c, d)) l else [].
Proof.
  intros ch c l. unfold on_channel. induction l as [|d l IH]; cbn.
  - destruct (c =? ch); reflexivity.
  - rewrite IH. destruct (c =? ch); reflexivity.
Qed.

Lemma on_channel_app : forall ch a b, on_channel ch (a ++ b) = on_channel ch a ++ on_channel ch b.
Proof. intros. unfold on_channel. apply filter_app. Qed.

Lemma udp_view_channel : forall dest out ch,
  0 <= ch <= 255 ->
  on_channel ch (client_view (udp_map dest) out) = map (fun d => (ch, d)) (wire_udp dest out ch).
Proof.
  intros dest out ch Hch. unfold client_view, wire_udp, on_channel.
  induction out as [|[c d] out IH]; [reflexivity|].
  cbn [filter map fst snd].
  assert (Hsub : subscribed (udp_map dest) (c, d) = dest c && ((0 <=? c) && (c <=? 255))).
  { unfold subscribed, udp_map. cbn [fst]. destruct (dest c); reflexivity. }
  rewrite Hsub.
  destruct (c =? ch) eqn:Hc.
  - apply Z.eqb_eq in Hc. subst c.
    replace ((0 <=? ch) && (ch <=? 255)) with true
      by (symmetry; apply andb_true_iff; split; apply Z.leb_le; lia).
    rewrite andb_true_r. cbn [andb]. destruct (dest ch) eqn:Hd.
    + cbn [map filter fst snd]. unfold udp_map at 1. rewrite Hd, Z.eqb_refl. cbn [map].
      f_equal; [unfold udp_map; rewrite Hd; reflexivity | exact IH].
    + exact IH.
  - cbn [andb]. destruct (dest c && ((0 <=? c) && (c <=? 255))) eqn:Hs.
    + apply andb_true_iff in Hs. destruct Hs as [Hd _].
      cbn [map filter fst snd]. unfold udp_map at 1. rewrite Hd, Hc. exact IH.
    + exact IH.
Qed.

Definition udp_client (dest : Z -> bool) (out : list pkt) : list pkt :=
  concat (map (fun ch => map (fun d => (ch, d)) (wire_udp dest out ch)) [0; 1; 2; 3]).

Theorem wire_model_passes_udp : forall dest out,
  ok_wire_udp (client_view (udp_map dest) out) (udp_client dest out) = true.
Proof.
  intros dest out. unfold ok_wire_udp, udp_client. cbn [map concat forallb].
  rewrite !on_channel_app, !on_channel_tagged. cbn [Z.eqb Pos.eqb app].
  rewrite !app_nil_r.
  rewrite !udp_view_channel by lia.
  rewrite !(list_eqb_refl pkt_eqb _ pkt_eqb_refl). reflexivity.
Qed.

Lemma tag_eqb_refl : forall t, tag_eqb t t = true.
Proof. intros [[a b] d]. unfold tag_eqb. cbn. rewrite !Z.eqb_refl, bytes_eqb_refl. reflexivity. Qed.

(* the FLV oracle accepts the model's client *)
Lemma ok_flv_model : forall reference, ok_flv reference (flv_client reference) = true.
Proof. intros. unfold ok_flv. apply list_eqb_refl. exact tag_eqb_refl. Qed.

(* ---------------------------------------------------------------- C03: the release specification *)
Lemma snap_eqb_refl : forall s, snap_eqb s s = true.
Proof.
  intros s. unfold snap_eqb. rewrite !Z.eqb_refl. cbn.
  rewrite (list_eqb_refl Bool.eqb); [|intros []; reflexivity].
  rewrite (list_eqb_refl Z.eqb); [reflexivity | exact Z.eqb_refl].
Qed.

Theorem release_model_passes : forall refs kinds es,
  ok_release refs kinds es (snap_run refs kinds (snap0 kinds) es) = true.
Proof. intros. unfold ok_release. apply list_eqb_refl. exact snap_eqb_refl. Qed.

Lemma nth_set_nth_other : forall {A} i j (x d : A) l, i <> j -> nth j (set_nth i x l) d = nth j l d.
Proof.
  intros A i. induction i as [|i IH]; intros j x d l Hij; destruct l as [|h t]; cbn; try reflexivity.
  - destruct j; [congruence | reflexivity].
  - destruct j; [reflexivity | apply IH; congruence].
Qed.

Lemma nth_set_nth_same : forall {A} i (x d : A) l, (i < length l)%nat -> nth i (set_nth i x l) d = x.
Proof.
  intros A i. induction i as [|i IH]; intros x d l Hi; destruct l as [|h t]; cbn in *; try lia; [reflexivity|].
  apply IH. lia.
Qed.

(* stopping one client ends that client's connection only, takes exactly its share of the counters,
   and touches the consumer count of ITS stream only — whatever other streams exist under the path *)
Theorem release_stop_is_local : forall refs kinds s i,
  nth i (sn_closed s) true = false ->
  let s' := snap_step refs kinds s (TStop i) in
  let g := nth i (sn_of s) O in
  (forall j, j <> i -> nth j (sn_closed s') true = nth j (sn_closed s) true) /\
  sn_cc s' = sn_cc s - cons_weight refs (nth i kinds 0) /\
  (forall h, h <> g -> nth h (sn_gens s') 0 = nth h (sn_gens s) 0) /\
  ((g < length (sn_gens s))%nat -> nth g (sn_gens s') 0 = nth g (sn_gens s) 0 - cons_weight refs (nth i kinds 0)) /\
  sn_rtsp s' + sn_flv s' + sn_wsp s' =
    sn_rtsp s + sn_flv s + sn_wsp s
    - b2z (is_rtsp_kind (nth i kinds 0)) - b2z (is_flv_kind (nth i kinds 0)) - b2z (is_wsp_kind (nth i kinds 0)).
Proof.
  intros refs kinds s i Hc s' g. subst s' g. cbn [snap_step]. rewrite Hc. unfold snap_add, add_nth.
  cbn [sn_cc sn_rtsp sn_flv sn_wsp sn_closed sn_gens].
  split; [|split; [|split; [|split]]].
  - intros j Hj. apply nth_set_nth_other. congruence.
  - lia.
  - intros h Hh. apply nth_set_nth_other. congruence.
  - intros Hg. rewrite nth_set_nth_same by exact Hg. lia.
  - lia.
Qed.

(* a new publisher under the path changes nothing for anybody who is attached *)
Theorem release_replace_touches_nobody : forall refs kinds s,
  let s' := snap_step refs kinds s TReplace in
  sn_cc s' = sn_cc s /\ sn_closed s' = sn_closed s /\ sn_rtsp s' = sn_rtsp s /\ sn_flv s' = sn_flv s /\
  sn_wsp s' = sn_wsp s /\ sn_gens s' = sn_gens s ++ [0].
Proof. intros. cbn. repeat split. Qed.

Lemma nth_all_true : forall {A} (l : list A) j,
  (j < length l)%nat -> nth j (map (fun _ => true) l) false = true.
Proof.
  intros A l. induction l as [|h t IH]; intros j Hj; cbn in *; [lia|].
  destruct j; [reflexivity | apply IH; lia].
Qed.

(* when the stream ends every connection has ended and every counter is back *)
Theorem release_end_is_total : forall refs kinds s,
  let s' := snap_step refs kinds s TEnd in
  sn_cc s' = 0 /\ sn_rtsp s' = 0 /\ sn_flv s' = 0 /\ sn_wsp s' = 0 /\
  (forall g, nth g (sn_gens s') 0 = 0) /\
  forall j, (j < length (sn_closed s))%nat -> nth j (sn_closed s') false = true.
Proof.
  intros refs kinds s. cbn. repeat split.
  - intros g. generalize (sn_gens s). intros l. revert g. induction l as [|h t IH]; intros g; destruct g; cbn; auto.
  - intros j Hj. apply nth_all_true. exact Hj.
Qed.
