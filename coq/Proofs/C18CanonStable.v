(* C18: a syntactic sufficient condition for the route guard [canon_stable]:
   a pattern without white space is stable under CanonicalPath. *)
From Coq Require Import ZArith List Bool Lia.
From V Require Import Bytes StrGo BytesLemmas CanonProofs C18Tables C18TableProofs.
Import ListNotations.
Open Scope Z_scope.

Definition no_slash (s : bytes) : Prop := Forall (fun b => b <> SLASH) s.
Definition good_seg (s : bytes) : Prop := no_slash s /\ s <> [] /\ s <> [DOT] /\ s <> [DOT; DOT].

(* ---- split / join ---- *)
Lemma split_on_acc_pre sep pre : forall s cur,
  Forall (fun b => b <> sep) pre ->
  split_on_acc sep (pre ++ s) cur = split_on_acc sep s (rev pre ++ cur).
Proof.
  induction pre as [|b pre IH]; intros s cur H; [reflexivity|].
  inversion H as [|? ? Hb Hp]; subst. cbn [app split_on_acc].
  destruct (Z.eqb b sep) eqn:E; [apply Z.eqb_eq in E; contradiction|].
  rewrite IH by exact Hp. cbn [rev]. rewrite <- app_assoc. reflexivity.
Qed.

Lemma split_on_seg_end sep seg : Forall (fun b => b <> sep) seg -> split_on sep seg = [seg].
Proof.
  intros H. unfold split_on. rewrite <- (app_nil_r seg) at 1. rewrite split_on_acc_pre by exact H.
  cbn. rewrite app_nil_r, rev_involutive. reflexivity.
Qed.

Lemma split_on_seg_cons sep seg rest :
  Forall (fun b => b <> sep) seg -> split_on sep (seg ++ sep :: rest) = seg :: split_on sep rest.
Proof.
  intros H. unfold split_on. rewrite split_on_acc_pre by exact H. cbn [split_on_acc].
  rewrite Z.eqb_refl, app_nil_r, rev_involutive. reflexivity.
Qed.

Lemma split_join segs : segs <> [] -> Forall no_slash segs -> split_on SLASH (join_with SLASH segs) = segs.
Proof.
  induction segs as [|a segs IH]; intros N H; [contradiction|].
  inversion H as [|? ? Ha Hs]; subst. destruct segs as [|b segs].
  - cbn [join_with]. apply split_on_seg_end. exact Ha.
  - cbn [join_with]. rewrite split_on_seg_cons by exact Ha. f_equal. apply IH; [discriminate|exact Hs].
Qed.

Lemma split_join_slash segs : segs <> [] -> Forall no_slash segs ->
  split_on SLASH (join_with SLASH segs ++ [SLASH]) = segs ++ [[]].
Proof.
  induction segs as [|a segs IH]; intros N H; [contradiction|].
  inversion H as [|? ? Ha Hs]; subst. destruct segs as [|b segs].
  - cbn [join_with app]. rewrite split_on_seg_cons by exact Ha. reflexivity.
  - cbn [join_with]. rewrite <- app_assoc. cbn [app]. rewrite split_on_seg_cons by exact Ha.
    cbn [app]. f_equal. apply IH; [discriminate|exact Hs].
Qed.

(* pieces of a split contain no separator *)
Lemma split_on_acc_pieces sep s : forall cur,
  Forall (fun b => b <> sep) cur -> Forall (Forall (fun b => b <> sep)) (split_on_acc sep s cur).
Proof.
  induction s as [|c s IH]; intros cur H; cbn.
  - constructor; [|constructor]. apply Forall_rev. exact H.
  - destruct (Z.eqb c sep) eqn:E.
    + constructor; [apply Forall_rev; exact H|]. apply IH. constructor.
    + apply IH. constructor; [|exact H]. intros X. subst. rewrite Z.eqb_refl in E. discriminate.
Qed.
Lemma split_on_pieces s : Forall no_slash (split_on SLASH s).
Proof. apply split_on_acc_pieces. constructor. Qed.

(* a predicate on bytes carries over from the string to the pieces *)
Lemma split_on_acc_forall (P : Z -> Prop) sep s : forall cur,
  Forall P s -> Forall P cur -> Forall (Forall P) (split_on_acc sep s cur).
Proof.
  induction s as [|c s IH]; intros cur Hs H; cbn.
  - constructor; [|constructor]. apply Forall_rev. exact H.
  - inversion Hs as [|? ? Hc Hs']; subst. destruct (Z.eqb c sep).
    + constructor; [apply Forall_rev; exact H|]. apply IH; [exact Hs'|constructor].
    + apply IH; [exact Hs'|]. constructor; assumption.
Qed.

(* ---- clean ---- *)
Lemma z46_match {A} (a : Z) (X Y : A) : a <> 46 -> match a with 46 => X | _ => Y end = Y.
Proof.
  intros N. destruct a as [|p|p]; try reflexivity.
  do 6 (destruct p as [p|p|]; try reflexivity). exfalso. apply N. reflexivity.
Qed.

Lemma clean_step_char st seg :
  clean_step st seg =
  if bytes_eqb seg [] || bytes_eqb seg [DOT] then st
  else if bytes_eqb seg [DOT; DOT] then tl st else seg :: st.
Proof.
  unfold clean_step, DOT. destruct seg as [|a [|b [|c r]]].
  - reflexivity.
  - destruct (Z.eq_dec a 46) as [->|N]; [reflexivity|].
    rewrite z46_match by exact N. cbn [bytes_eqb orb].
    destruct (Z.eqb a 46) eqn:E; [apply Z.eqb_eq in E; contradiction|]. cbn. rewrite ?E. reflexivity.
  - destruct (Z.eq_dec a 46) as [->|N].
    + destruct (Z.eq_dec b 46) as [->|Nb]; [destruct st; reflexivity|].
      rewrite z46_match by exact Nb. cbn.
      destruct (Z.eqb b 46) eqn:E; [apply Z.eqb_eq in E; contradiction|]. reflexivity.
    + rewrite z46_match by exact N. cbn.
      destruct (Z.eqb a 46) eqn:E; [apply Z.eqb_eq in E; contradiction|]. reflexivity.
  - destruct (Z.eq_dec a 46) as [->|N].
    + destruct (Z.eq_dec b 46) as [->|Nb]; [cbn; rewrite ?andb_false_r; reflexivity|].
      rewrite z46_match by exact Nb. cbn.
      destruct (Z.eqb b 46) eqn:E; [apply Z.eqb_eq in E; contradiction|]. reflexivity.
    + rewrite z46_match by exact N. cbn.
      destruct (Z.eqb a 46) eqn:E; [apply Z.eqb_eq in E; contradiction|]. reflexivity.
Qed.

Lemma good_seg_step st seg : good_seg seg -> clean_step st seg = seg :: st.
Proof.
  intros [_ [N1 [N2 N3]]]. rewrite clean_step_char.
  destruct (bytes_eqb seg []) eqn:E1; [apply bytes_eqb_eq in E1; contradiction|].
  destruct (bytes_eqb seg [DOT]) eqn:E2; [apply bytes_eqb_eq in E2; contradiction|].
  destruct (bytes_eqb seg [DOT; DOT]) eqn:E3; [apply bytes_eqb_eq in E3; contradiction|]. reflexivity.
Qed.

Lemma fold_clean_good segs : forall st, Forall good_seg segs -> fold_left clean_step segs st = rev segs ++ st.
Proof.
  induction segs as [|a segs IH]; intros st H; [reflexivity|].
  inversion H as [|? ? Ha Hs]; subst. cbn [fold_left]. rewrite good_seg_step by exact Ha.
  rewrite IH by exact Hs. cbn [rev]. rewrite <- app_assoc. reflexivity.
Qed.

Lemma clean_step_keeps (Q : bytes -> Prop) st seg :
  Q seg -> no_slash seg -> Forall (fun s => good_seg s /\ Q s) st ->
  Forall (fun s => good_seg s /\ Q s) (clean_step st seg).
Proof.
  intros Hq Hn G. rewrite clean_step_char.
  destruct (bytes_eqb seg []) eqn:E1; [exact G|].
  destruct (bytes_eqb seg [DOT]) eqn:E2; [exact G|]. cbn [orb].
  destruct (bytes_eqb seg [DOT; DOT]) eqn:E3.
  - destruct st; [constructor|]. inversion G; assumption.
  - constructor; [|exact G]. apply bytes_eqb_neq in E1, E2, E3. repeat split; assumption.
Qed.

Lemma fold_clean_keeps (Q : bytes -> Prop) segs : forall st,
  Forall Q segs -> Forall no_slash segs -> Forall (fun s => good_seg s /\ Q s) st ->
  Forall (fun s => good_seg s /\ Q s) (fold_left clean_step segs st).
Proof.
  induction segs as [|a segs IH]; intros st Hq Hn G; [exact G|].
  inversion Hq; inversion Hn; subst. cbn [fold_left]. apply IH; try assumption.
  apply clean_step_keeps; assumption.
Qed.

(* ---- the bytes of a canonical path ---- *)
Definition okb (b : Z) : Prop := is_space b = false /\ lower_byte b = b.

Lemma okb_slash : okb SLASH.
Proof. split; reflexivity. Qed.

Lemma lower_okb b : is_space b = false -> okb (lower_byte b).
Proof.
  intros H. split; [|apply lower_byte_idem].
  unfold lower_byte. destruct ((65 <=? b) && (b <=? 90)) eqn:E; [|exact H].
  apply andb_true_iff in E as [A B]. apply Z.leb_le in A, B. unfold is_space.
  apply orb_false_iff. split; [apply andb_false_iff; right; apply Z.leb_gt; lia|apply Z.eqb_neq; lia].
Qed.

Lemma trim_left_forall (P : Z -> Prop) f s : Forall P s -> Forall P (trim_left f s).
Proof. induction 1 as [|a s Ha Hs IH]; cbn; [constructor|]. destruct (f a); [exact IH|constructor; assumption]. Qed.
Lemma trim_fn_forall (P : Z -> Prop) f s : Forall P s -> Forall P (trim_fn f s).
Proof.
  intros H. unfold trim_fn, trim_right. apply Forall_rev. apply trim_left_forall. apply Forall_rev.
  apply trim_left_forall. exact H.
Qed.
Lemma trim_left_id f s : Forall (fun b => f b = false) s -> trim_left f s = s.
Proof. intros H. destruct H as [|a s Ha _]; cbn; [reflexivity|]. rewrite Ha. reflexivity. Qed.
Lemma trim_fn_id f s : Forall (fun b => f b = false) s -> trim_fn f s = s.
Proof.
  intros H. unfold trim_fn, trim_right. rewrite (trim_left_id f s H).
  rewrite trim_left_id by (apply Forall_rev; exact H). apply rev_involutive.
Qed.

Lemma join_forall (P : Z -> Prop) segs : P SLASH -> Forall (Forall P) segs -> Forall P (join_with SLASH segs).
Proof.
  intros Ps H. induction H as [|a segs Ha Hs IH]; [constructor|]. destruct segs as [|b segs]; [exact Ha|].
  cbn [join_with]. apply Forall_app. split; [exact Ha|]. constructor; [exact Ps|exact IH].
Qed.

Lemma ends_with_app_nonempty c x l : l <> [] -> ends_with c (x ++ l) = ends_with c l.
Proof.
  intros N. unfold ends_with, last_byte. rewrite rev_app_distr.
  destruct (rev l) eqn:R; [|reflexivity]. apply (f_equal (@rev Z)) in R. rewrite rev_involutive in R. contradiction.
Qed.

Lemma ends_with_noslash l : l <> [] -> no_slash l -> ends_with SLASH l = false.
Proof.
  intros N H. unfold ends_with, last_byte. destruct (rev l) as [|x r] eqn:R.
  - reflexivity.
  - assert (In x l) as I by (apply in_rev; rewrite R; left; reflexivity).
    unfold no_slash in H. rewrite Forall_forall in H. apply Z.eqb_neq. apply H. exact I.
Qed.

Lemma join_ends segs : segs <> [] -> Forall good_seg segs -> forall pre,
  ends_with SLASH (pre ++ join_with SLASH segs) = false.
Proof.
  induction segs as [|a segs IH]; intros N H pre; [contradiction|].
  inversion H as [|? ? Ha Hs]; subst. destruct Ha as [Hn [Ne _]]. destruct segs as [|b segs].
  - cbn [join_with]. rewrite ends_with_app_nonempty by exact Ne. apply ends_with_noslash; assumption.
  - change (join_with SLASH (a :: b :: segs)) with (a ++ SLASH :: join_with SLASH (b :: segs)).
    replace (pre ++ a ++ SLASH :: join_with SLASH (b :: segs))
      with ((pre ++ a ++ [SLASH]) ++ join_with SLASH (b :: segs)) by (rewrite <- !app_assoc; reflexivity).
    apply IH; [discriminate|exact Hs].
Qed.

Definition shape (segs : list bytes) : Prop := Forall good_seg segs /\ Forall (Forall okb) segs.

Lemma shape_bytes segs : shape segs -> Forall okb (SLASH :: join_with SLASH segs).
Proof. intros [_ H]. constructor; [exact okb_slash|]. apply join_forall; [exact okb_slash|exact H]. Qed.

Lemma okb_fixed s : Forall okb s -> to_lower (trim_space s) = s.
Proof.
  intros H. unfold trim_space. rewrite trim_fn_id.
  - unfold to_lower. induction H as [|a s [_ Ha] _ IH]; cbn; [reflexivity|]. rewrite Ha, IH. reflexivity.
  - eapply Forall_impl; [|exact H]. intros a [A _]. exact A.
Qed.

Lemma clean_rooted_shape segs tail :
  shape segs -> (tail = [] \/ (tail = [SLASH] /\ segs <> [])) ->
  clean_rooted (SLASH :: join_with SLASH segs ++ tail) = SLASH :: join_with SLASH segs.
Proof.
  intros [G _] T. unfold clean_rooted. f_equal. f_equal. unfold clean_segs.
  assert (Forall no_slash segs) as NS by (eapply Forall_impl; [|exact G]; intros a [A _]; exact A).
  change (SLASH :: join_with SLASH segs ++ tail) with ([] ++ SLASH :: (join_with SLASH segs ++ tail)).
  rewrite split_on_seg_cons by constructor.
  destruct segs as [|a segs].
  - destruct T as [->|[_ N]]; [|contradiction]. reflexivity.
  - assert (a :: segs <> []) as NE by discriminate. remember (a :: segs) as sg eqn:Esg. clear Esg.
    destruct T as [->|[-> _]].
    + rewrite app_nil_r, split_join by assumption.
      cbn [fold_left]. rewrite clean_step_char. cbn [bytes_eqb orb].
      rewrite fold_clean_good by exact G. rewrite app_nil_r. apply rev_involutive.
    + rewrite split_join_slash by assumption.
      cbn [fold_left]. rewrite clean_step_char. cbn [bytes_eqb orb].
      rewrite fold_left_app. rewrite (fold_clean_good sg) by exact G. cbn [fold_left].
      rewrite clean_step_char. cbn [bytes_eqb orb]. rewrite app_nil_r. apply rev_involutive.
Qed.

(* a pass of CanonicalPath (canonical_once, the body of its loop) leaves alone what it produces from
   such segments; hence so does CanonicalPath (CanonProofs.canonical_path_of_fixed) *)
Lemma canon_fix_plain_once segs : shape segs ->
  canonical_once (SLASH :: join_with SLASH segs) = SLASH :: join_with SLASH segs.
Proof.
  intros S. unfold canonical_once. rewrite (okb_fixed _ (shape_bytes _ S)).
  rewrite Z.eqb_refl.
  pose proof (clean_rooted_shape segs [] S (or_introl eq_refl)) as C. rewrite app_nil_r in C. rewrite C.
  destruct segs as [|a segs]; [reflexivity|].
  change (SLASH :: join_with SLASH (a :: segs)) with ([SLASH] ++ join_with SLASH (a :: segs)).
  rewrite join_ends by (try discriminate; apply S). reflexivity.
Qed.

Lemma canon_fix_plain segs : shape segs ->
  canonical_path (SLASH :: join_with SLASH segs) = SLASH :: join_with SLASH segs.
Proof. intros S. apply canonical_path_of_fixed, canon_fix_plain_once, S. Qed.

Lemma canon_fix_slash_once segs : shape segs -> segs <> [] ->
  canonical_once (SLASH :: join_with SLASH segs ++ [SLASH]) = SLASH :: join_with SLASH segs ++ [SLASH].
Proof.
  intros S N. unfold canonical_once.
  assert (Forall okb (SLASH :: join_with SLASH segs ++ [SLASH])) as B.
  { change (Forall okb ((SLASH :: join_with SLASH segs) ++ [SLASH])). apply Forall_app.
    split; [apply shape_bytes; exact S|constructor; [exact okb_slash|constructor]]. }
  rewrite (okb_fixed _ B). rewrite Z.eqb_refl.
  rewrite (clean_rooted_shape segs [SLASH] S (or_intror (conj eq_refl N))).
  change (SLASH :: join_with SLASH segs ++ [SLASH]) with ((SLASH :: join_with SLASH segs) ++ [SLASH]).
  rewrite ends_with_app_last.
  destruct segs as [|a segs]; [contradiction|]. destruct S as [G _]. inversion G as [|? ? [_ [Na _]] _]; subst.
  destruct a as [|x a]; [contradiction|]. cbn [join_with]. destruct segs; reflexivity.
Qed.

Lemma canon_fix_slash segs : shape segs -> segs <> [] ->
  canonical_path (SLASH :: join_with SLASH segs ++ [SLASH]) = SLASH :: join_with SLASH segs ++ [SLASH].
Proof. intros S N. apply canonical_path_of_fixed, canon_fix_slash_once; assumption. Qed.

Definition no_space (p : bytes) : bool := forallb (fun b => negb (is_space b)) p.

Lemma canon_shape_once p0 : no_space p0 = true ->
  exists segs, shape segs /\
    (canonical_once p0 = SLASH :: join_with SLASH segs \/
     (segs <> [] /\ canonical_once p0 = SLASH :: join_with SLASH segs ++ [SLASH])).
Proof.
  intros NSp.
  assert (Forall okb (to_lower (trim_space p0))) as B.
  { unfold to_lower. apply Forall_map. unfold trim_space. apply trim_fn_forall.
    unfold no_space in NSp. rewrite forallb_forall in NSp. apply Forall_forall. intros b Ib.
    apply lower_okb. apply negb_true_iff. apply NSp. exact Ib. }
  destruct (to_lower (trim_space p0)) as [|c p] eqn:Ep.
  - exists []. split; [split; constructor|]. left. unfold canonical_once. rewrite Ep. reflexivity.
  - pose (p' := if Z.eqb c SLASH then c :: p else SLASH :: c :: p).
    assert (Forall okb p') as B'.
    { unfold p'. destruct (Z.eqb c SLASH); [exact B|constructor; [exact okb_slash|exact B]]. }
    pose (segs := clean_segs (split_on SLASH p')).
    assert (Forall (fun s => good_seg s /\ Forall okb s) segs) as K.
    { unfold segs, clean_segs. apply Forall_rev. apply fold_clean_keeps.
      - apply split_on_acc_forall; [exact B'|constructor].
      - apply split_on_pieces.
      - constructor. }
    assert (shape segs) as S.
    { split; eapply Forall_impl; try exact K; intros a [A1 A2]; assumption. }
    assert (canonical_once p0 =
            if ends_with SLASH p' && negb (bytes_eqb (SLASH :: join_with SLASH segs) [SLASH])
            then (SLASH :: join_with SLASH segs) ++ [SLASH] else SLASH :: join_with SLASH segs) as CE.
    { unfold canonical_once. rewrite Ep. reflexivity. }
    exists segs. split; [exact S|]. rewrite CE.
    destruct (ends_with SLASH p' && negb (bytes_eqb (SLASH :: join_with SLASH segs) [SLASH])) eqn:Cnd.
    + right. split; [|reflexivity]. intros Z0. rewrite Z0 in Cnd. cbn in Cnd. rewrite andb_false_r in Cnd. discriminate.
    + left. reflexivity.
Qed.

(* without white space one pass is already stable, so CanonicalPath is that pass
   (CanonProofs.canonical_path_stable_same) *)
Lemma canon_shape p0 : no_space p0 = true ->
  exists segs, shape segs /\
    (canonical_path p0 = SLASH :: join_with SLASH segs \/
     (segs <> [] /\ canonical_path p0 = SLASH :: join_with SLASH segs ++ [SLASH])).
Proof.
  intros H. destruct (canon_shape_once p0 H) as [segs [S [E|[N E]]]]; exists segs; (split; [exact S|]).
  - left. rewrite canonical_path_stable_same; [exact E|]. rewrite E. apply canon_fix_plain_once, S.
  - right. split; [exact N|]. rewrite canonical_path_stable_same; [exact E|]. rewrite E.
    apply canon_fix_slash_once; assumption.
Qed.

(* a pattern without white space is stable under CanonicalPath: the guard of the route theorems holds
   (since the fix "CanonicalPath is idempotent" it holds for every pattern: CanonProofs.canonical_path_idem) *)
Theorem no_space_canon_stable p : no_space p = true -> canon_stable p = true.
Proof.
  intros H. unfold canon_stable. apply bytes_eqb_eq.
  destruct (canon_shape p H) as [segs [S [E|[N E]]]]; rewrite E.
  - apply canon_fix_plain. exact S.
  - apply canon_fix_slash; assumption.
Qed.
