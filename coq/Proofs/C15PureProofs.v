(* C15 — a function observed twice on the same buffer passes the purity oracle. *)
From Coq Require Import ZArith List Bool Lia.
From V Require Import C15H264 C15Pure.
Import ListNotations.
Open Scope Z_scope.

Lemma zlist_eqb_refl : forall x, zlist_eqb x x = true.
Proof. induction x; cbn; auto. rewrite Z.eqb_refl. exact IHx. Qed.

Theorem parse_twice_same : forall (O : Type) (eqb : O -> O -> bool) (ok : O -> bool) f data,
  (forall o, eqb o o = true) -> ok (f data) = true ->
  pure_ok eqb ok data (twice f data) = true.
Proof.
  intros O eqb ok f data Hr Hok. unfold pure_ok, twice.
  rewrite zlist_eqb_refl, Hr, Hok. reflexivity.
Qed.
